/-
Helper lemmas about M-LayerSet.
-/
import DefconModel.Spec.LayerSet

namespace DefconModel
namespace LayerSet

theorem replay_append (h : List Action) (a : Action) (d : List (String × DLayer)) :
    replay (h ++ [a]) d = match replay h d with
      | .error e => .error e
      | .ok d1 => applyAction d1 a := by
  induction h generalizing d with
  | nil =>
    simp only [List.nil_append, replay]
    cases applyAction d a <;> rfl
  | cons b h ih =>
    simp only [List.cons_append, replay]
    cases applyAction d b with
    | error e => rfl
    | ok d1 => exact ih d1

theorem get?_setFlag (d : List (String × DLayer)) (n k : String) (f : Bool) :
    AL.get? (setFlag d n f) k =
      if n = k then (AL.get? d n).map (fun dl => { dl with isDefault := f }) else AL.get? d k := by
  unfold setFlag
  cases hg : AL.get? d n with
  | none =>
    by_cases e : n = k
    · subst e; simp [hg]
    · simp [e]
  | some dl =>
    simp only [AL.get?_set, Option.map_some]

theorem keys_setFlag (d : List (String × DLayer)) (n : String) (f : Bool) : AL.keys (setFlag d n f) = AL.keys d := by
  unfold setFlag
  cases hg : AL.get? d n with
  | none => rfl
  | some dl =>
    simp only [AL.keys_set]
    have := AL.mem_keys_of_get? hg
    simp [this]

theorem contains_of_get? {α : Type} {l : List (String × α)} {k : String} {v : α} (h : AL.get? l k = some v) :
    AL.contains l k = true := (AL.contains_iff_get? _ _).mpr ⟨v, h⟩

theorem get?_none_of_not_contains {α : Type} {l : List (String × α)} {k : String} (h : ¬ AL.contains l k = true) :
    AL.get? l k = none := (AL.contains_false_iff _ _).mp (by simpa using h)

/-! ### one memory operation keeps the history invariant -/

theorem sync_of_append {s : State} {a : Action} {d d' : List (String × DLayer)} {s' : State}
    (hr : replay s.history s.disk = .ok d) (ha : applyAction d a = .ok d')
    (hh : s'.history = s.history ++ [a]) (hd : s'.disk = s.disk) (hrel : Rel s' d') : Sync s' := by
  refine ⟨d', ?_, hrel⟩
  rw [hh, hd, replay_append, hr]
  exact ha

theorem newLayer_sync {s s' : State} {n : String} (hm : MemOK s) (hs : Sync s) (hn : s.nextLid ∉ s.layers.map (·.2.lid))
    (h : newLayer s n = .ok s') : MemOK s' ∧ Sync s' := by
  unfold newLayer at h
  split at h
  · simp at h
  · rename_i hnc
    simp only [Except.ok.injEq] at h
    subst h
    have hno : AL.get? s.layers n = none := get?_none_of_not_contains hnc
    have hget : ∀ k, AL.get? (AL.set s.layers n ⟨s.nextLid, false⟩) k =
        if n = k then some ⟨s.nextLid, false⟩ else AL.get? s.layers k := fun k => AL.get?_set _ _ _ _
    have hfresh : ∀ k l, AL.get? s.layers k = some l → l.lid ≠ s.nextLid := by
      intro k l hk e
      apply hn
      simp only [List.mem_map]
      exact ⟨(k, l), AL.mem_of_get? hk, e⟩
    obtain ⟨d, hr, hrel⟩ := hs
    constructor
    · constructor
      · exact AL.nodup_keys_set _ _ _ hm.layerKeys
      · intro a b l k ha hb hl
        simp only [hget] at ha hb
        by_cases e1 : n = a <;> by_cases e2 : n = b
        · rw [← e1, ← e2]
        · simp only [e1, if_true, Option.some.injEq] at ha
          simp only [e2, if_false] at hb
          subst ha
          exact absurd hl.symm (hfresh b k hb)
        · simp only [e2, if_true, Option.some.injEq] at hb
          simp only [e1, if_false] at ha
          subst hb
          exact absurd hl (hfresh a l ha)
        · simp only [e1, e2, if_false] at ha hb
          exact hm.lids a b l k ha hb hl
      · simp only
        rw [List.nodup_append]
        refine ⟨hm.orderNodup, by simp, ?_⟩
        intro a ha b hb
        simp at hb; subst hb
        intro e; subst e
        exact hnc ((hm.orderIff a).mp ha)
      · intro k
        simp only [List.mem_append, List.mem_singleton, AL.contains_set, Bool.or_eq_true, decide_eq_true_eq]
        rw [hm.orderIff]
        constructor
        · rintro (h1 | h1)
          · exact Or.inr h1
          · exact Or.inl h1.symm
        · rintro (h1 | h1)
          · exact Or.inr h1.symm
          · exact Or.inl h1
      · obtain ⟨dn, dl, hd1, hd2⟩ := hm.defaultIn
        refine ⟨dn, dl, ?_, hd2⟩
        simp only [hget]
        have : ¬ n = dn := by intro e; subst e; rw [hno] at hd1; simp at hd1
        simp [this, hd1]
    · refine sync_of_append hr (a := .new n) (d' := d) rfl ?_ ?_ ?_
      · rfl
      · rfl
      constructor
      · exact hrel.ok
      · intro k dl hk
        obtain ⟨l, h1, h2, h3⟩ := hrel.sound k dl hk
        refine ⟨l, ?_, h2, h3⟩
        simp only [hget]
        have : ¬ n = k := by intro e; subst e; rw [hno] at h1; simp at h1
        simp [this, h1]
      · intro k l hk hon
        simp only [hget] at hk
        split at hk
        · simp at hk; subst hk; simp at hon
        · exact hrel.complete k l hk hon
      · exact hrel.flag

theorem delLayer_sync {s s' : State} {n : String} (hm : MemOK s) (hs : Sync s)
    (hdom : ∀ l, AL.get? s.layers n = some l → s.default ≠ some l.lid)
    (h : delLayer s n = .ok s') : MemOK s' ∧ Sync s' := by
  unfold delLayer at h
  split at h
  · rename_i hc
    simp only [Except.ok.injEq] at h
    subst h
    have hget : ∀ k, AL.get? (AL.erase s.layers n) k = if n = k then none else AL.get? s.layers k :=
      fun k => AL.get?_erase _ _ _ hm.layerKeys
    obtain ⟨d, hr, hrel⟩ := hs
    constructor
    · constructor
      · exact AL.nodup_keys_erase _ _ hm.layerKeys
      · intro a b l k ha hb hl
        simp only [hget] at ha hb
        split at ha
        · simp at ha
        · split at hb
          · simp at hb
          · exact hm.lids a b l k ha hb hl
      · exact (List.filter_sublist).nodup hm.orderNodup
      · intro k
        simp only [List.mem_filter, ne_eq, decide_eq_true_eq]
        rw [hm.orderIff, AL.contains_iff_get?, AL.contains_iff_get?]
        simp only [hget]
        constructor
        · rintro ⟨⟨v, hv⟩, hk⟩
          have : ¬ n = k := fun e => hk e.symm
          exact ⟨v, by simp [this, hv]⟩
        · rintro ⟨v, hv⟩
          split at hv
          · simp at hv
          · rename_i hk
            exact ⟨⟨v, hv⟩, fun e => hk e.symm⟩
      · obtain ⟨dn, dl, hd1, hd2⟩ := hm.defaultIn
        refine ⟨dn, dl, ?_, hd2⟩
        simp only [hget]
        have : ¬ n = dn := by intro e; subst e; exact hdom dl hd1 hd2
        simp [this, hd1]
    · refine sync_of_append hr (a := .delete n) (d' := AL.erase d n) rfl ?_ ?_ ?_
      · rfl
      · rfl
      have hdg : ∀ k, AL.get? (AL.erase d n) k = if n = k then none else AL.get? d k :=
        fun k => AL.get?_erase _ _ _ hrel.ok.keys
      constructor
      · constructor
        · exact AL.nodup_keys_erase _ _ hrel.ok.keys
        · intro a b x y ha hb hx hy
          simp only [hdg] at ha hb
          split at ha
          · simp at ha
          · split at hb
            · simp at hb
            · exact hrel.ok.oneDefault a b x y ha hb hx hy
      · intro k dl hk
        simp only [hdg] at hk
        split at hk
        · simp at hk
        · rename_i hnk
          obtain ⟨l, h1, h2, h3⟩ := hrel.sound k dl hk
          exact ⟨l, by simp [hget, hnk, h1], h2, h3⟩
      · intro k l hk hon
        simp only [hget] at hk
        split at hk
        · simp at hk
        · rename_i hnk
          obtain ⟨dl, h1⟩ := hrel.complete k l hk hon
          exact ⟨dl, by simp [hdg, hnk, h1]⟩
      · intro k dl hk
        simp only [hdg] at hk
        split at hk
        · simp at hk
        · exact hrel.flag k dl hk
  · simp at h

theorem get?_rekey {α : Type} (l : List (String × α)) (o n k : String) (v : α) (hk : (AL.keys l).Nodup)
    (hn : AL.get? l n = none) (hon : o ≠ n) :
    AL.get? (AL.set (AL.erase l o) n v) k = if k = n then some v else if k = o then none else AL.get? l k := by
  rw [AL.get?_set, AL.get?_erase _ _ _ hk]
  by_cases e1 : n = k
  · subst e1; simp
  · have e1' : ¬ k = n := fun x => e1 x.symm
    by_cases e2 : o = k
    · subst e2; simp [e1, e1']
    · have e2' : ¬ k = o := fun x => e2 x.symm
      simp [e1, e1', e2, e2']

theorem get?_move {α : Type} (l : List (String × α)) (o n k : String) (v : α) (hk : (AL.keys l).Nodup)
    (hn : AL.get? l n = none) (hon : o ≠ n) :
    AL.get? (AL.erase l o ++ [(n, v)]) k = if k = n then some v else if k = o then none else AL.get? l k := by
  rw [AL.get?_append_single', AL.get?_erase _ _ _ hk]
  by_cases e1 : n = k
  · subst e1
    have : ¬ o = n := hon
    simp [this, hn]
  · have e1' : ¬ k = n := fun x => e1 x.symm
    by_cases e2 : o = k
    · subst e2; simp [e1, e1']
    · have e2' : ¬ k = o := fun x => e2 x.symm
      simp only [e1, e1', e2, e2', if_false]
      cases AL.get? l k <;> simp

theorem rename_sync {s s' : State} {o n : String} (hm : MemOK s) (hs : Sync s)
    (hdom : AL.get? s.layers n = none) (h : renameLayer s o n = .ok s') : MemOK s' ∧ Sync s' := by
  unfold renameLayer at h
  cases hl : AL.get? s.layers o with
  | none => simp [hl] at h
  | some l =>
    simp only [hl] at h
    by_cases hon : o = n
    · simp only [hon, if_true, Except.ok.injEq] at h; subst h; exact ⟨hm, hs⟩
    · simp only [hon, if_false, Except.ok.injEq] at h
      subst h
      have hget : ∀ k, AL.get? (AL.set (AL.erase s.layers o) n l) k =
          if k = n then some l else if k = o then none else AL.get? s.layers k :=
        fun k => get?_rekey _ _ _ _ _ hm.layerKeys hdom hon
      obtain ⟨d, hr, hrel⟩ := hs
      constructor
      · constructor
        · exact AL.nodup_keys_set _ _ _ (AL.nodup_keys_erase _ _ hm.layerKeys)
        · intro a b x y ha hb hxy
          simp only [hget] at ha hb
          by_cases ea : a = n <;> by_cases eb : b = n
          · rw [ea, eb]
          · simp only [ea, if_true, Option.some.injEq] at ha
            simp only [eb, if_false] at hb
            split at hb
            · simp at hb
            · rename_i hbo
              exact absurd (hm.lids o b l y hl hb (by rw [ha]; exact hxy)) (fun e => hbo e.symm)
          · simp only [eb, if_true, Option.some.injEq] at hb
            simp only [ea, if_false] at ha
            split at ha
            · simp at ha
            · rename_i hao
              exact absurd (hm.lids a o x l ha hl (by rw [hb]; exact hxy)) hao
          · simp only [ea, eb, if_false] at ha hb
            split at ha
            · simp at ha
            · split at hb
              · simp at hb
              · exact hm.lids a b x y ha hb hxy
        · simp only
          have hnin : n ∉ s.order := by
            intro hmem
            have := (hm.orderIff n).mp hmem
            rw [AL.contains_iff_get?] at this
            obtain ⟨v, hv⟩ := this
            rw [hdom] at hv; simp at hv
          have : ∀ (l : List String), l.Nodup → n ∉ l → (l.map (fun x => if x = o then n else x)).Nodup := by
            intro l
            induction l with
            | nil => simp
            | cons a r ih =>
              intro hnd hnot
              simp only [List.nodup_cons, List.mem_cons, not_or] at hnd hnot
              simp only [List.map_cons, List.nodup_cons, List.mem_map, not_exists, not_and]
              refine ⟨?_, ih hnd.2 hnot.2⟩
              intro x hx
              by_cases e1 : x = o <;> by_cases e2 : a = o
              · subst e1; subst e2; exact absurd hx hnd.1
              · simp only [e1, e2, if_true, if_false]
                exact hnot.1
              · simp only [e1, e2, if_true, if_false]
                intro e; subst e; exact hnot.2 hx
              · simp only [e1, e2, if_false]
                intro e; subst e; exact hnd.1 hx
          exact this s.order hm.orderNodup hnin
        · intro k
          simp only [List.mem_map]
          rw [AL.contains_iff_get?]
          simp only [hget]
          constructor
          · rintro ⟨x, hx, rfl⟩
            by_cases e : x = o
            · simp [e]
            · have hxn : x ≠ n := by
                intro e2; subst e2
                have := (hm.orderIff x).mp hx
                rw [AL.contains_iff_get?] at this
                obtain ⟨v, hv⟩ := this
                rw [hdom] at hv; simp at hv
              simp only [e, if_false, hxn]
              exact (AL.contains_iff_get? _ _).mp ((hm.orderIff x).mp hx)
          · rintro ⟨v, hv⟩
            by_cases e : k = n
            · subst e
              refine ⟨o, (hm.orderIff o).mpr (contains_of_get? hl), by simp⟩
            · simp only [e, if_false] at hv
              split at hv
              · simp at hv
              · rename_i hko
                refine ⟨k, (hm.orderIff k).mpr (contains_of_get? hv), by simp [hko]⟩
        · obtain ⟨dn, dl, hd1, hd2⟩ := hm.defaultIn
          by_cases e : dn = o
          · subst e
            rw [hl] at hd1
            simp only [Option.some.injEq] at hd1
            subst hd1
            exact ⟨n, l, by simp [hget], hd2⟩
          · refine ⟨dn, dl, ?_, hd2⟩
            have : dn ≠ n := by intro e2; subst e2; rw [hdom] at hd1; simp at hd1
            simp [hget, this, e, hd1]
      · -- the disk side
        cases hdo : AL.get? d o with
        | none =>
          refine sync_of_append hr (a := .rename o n) (d' := d) (by simp [applyAction, hdo]) ?_ ?_ ?_
          · rfl
          · rfl
          have hnotdisk : l.onDisk = false := by
            cases hb : l.onDisk with
            | false => rfl
            | true =>
              obtain ⟨dl, hdl⟩ := hrel.complete o l hl hb
              rw [hdo] at hdl; simp at hdl
          have hdn : AL.get? d n = none := by
            cases hx : AL.get? d n with
            | none => rfl
            | some dl =>
              obtain ⟨l2, h1, _⟩ := hrel.sound n dl hx
              rw [hdom] at h1; simp at h1
          constructor
          · exact hrel.ok
          · intro k dl hk
            obtain ⟨l2, h1, h2, h3⟩ := hrel.sound k dl hk
            have hkn : k ≠ n := by intro e; subst e; rw [hdn] at hk; simp at hk
            have hko : k ≠ o := by intro e; subst e; rw [hdo] at hk; simp at hk
            exact ⟨l2, by simp [hget, hkn, hko, h1], h2, h3⟩
          · intro k l2 hk hon2
            simp only [hget] at hk
            split at hk
            · simp at hk; subst hk; rw [hnotdisk] at hon2; simp at hon2
            · split at hk
              · simp at hk
              · exact hrel.complete k l2 hk hon2
          · exact hrel.flag
        | some dl =>
          have hdn : AL.get? d n = none := by
            cases hx : AL.get? d n with
            | none => rfl
            | some dl2 =>
              obtain ⟨l2, h1, _⟩ := hrel.sound n dl2 hx
              rw [hdom] at h1; simp at h1
          have hnc : AL.contains d n = false := (AL.contains_false_iff _ _).mpr hdn
          refine sync_of_append hr (a := .rename o n) (d' := AL.erase d o ++ [(n, dl)])
            (by simp [applyAction, hdo, hnc]) ?_ ?_ ?_
          · rfl
          · rfl
          have hdg : ∀ k, AL.get? (AL.erase d o ++ [(n, dl)]) k =
              if k = n then some dl else if k = o then none else AL.get? d k :=
            fun k => get?_move _ _ _ _ _ hrel.ok.keys hdn hon
          obtain ⟨lo, hlo1, hlo2, hlo3⟩ := hrel.sound o dl hdo
          rw [hl] at hlo1
          simp only [Option.some.injEq] at hlo1
          subst hlo1
          constructor
          · constructor
            · apply AL.nodup_keys_append_single _ _ _ (AL.nodup_keys_erase _ _ hrel.ok.keys)
              rw [AL.get?_erase _ _ _ hrel.ok.keys]
              simp [hon, hdn]
            · intro a b x y ha hb hx hy
              simp only [hdg] at ha hb
              by_cases ea : a = n <;> by_cases eb : b = n
              · rw [ea, eb]
              · simp only [ea, if_true, Option.some.injEq] at ha
                simp only [eb, if_false] at hb
                split at hb
                · simp at hb
                · rename_i hbo
                  exact absurd (hrel.ok.oneDefault o b dl y hdo hb (by rw [ha]; exact hx) hy) (fun e => hbo e.symm)
              · simp only [eb, if_true, Option.some.injEq] at hb
                simp only [ea, if_false] at ha
                split at ha
                · simp at ha
                · rename_i hao
                  exact absurd (hrel.ok.oneDefault a o x dl ha hdo hx (by rw [hb]; exact hy)) hao
              · simp only [ea, eb, if_false] at ha hb
                split at ha
                · simp at ha
                · split at hb
                  · simp at hb
                  · exact hrel.ok.oneDefault a b x y ha hb hx hy
          · intro k dl2 hk
            simp only [hdg] at hk
            split at hk
            · rename_i hkn
              simp only [Option.some.injEq] at hk
              subst hk
              exact ⟨l, by simp [hget, hkn], hlo2, hlo3⟩
            · split at hk
              · simp at hk
              · rename_i hkn hko
                obtain ⟨l2, h1, h2, h3⟩ := hrel.sound k dl2 hk
                exact ⟨l2, by simp [hget, hkn, hko, h1], h2, h3⟩
          · intro k l2 hk hon2
            simp only [hget] at hk
            simp only [hdg]
            split at hk
            · rename_i hkn; simp [hkn]
            · split at hk
              · simp at hk
              · rename_i hkn hko
                simp only [hkn, hko, if_false]
                exact hrel.complete k l2 hk hon2
          · intro k dl2 hk
            simp only [hdg] at hk
            split at hk
            · simp only [Option.some.injEq] at hk; subst hk; exact hrel.flag o dl hdo
            · split at hk
              · simp at hk
              · exact hrel.flag k dl2 hk

theorem nameOfLid_eq {s : State} (hm : MemOK s) {n : String} {l : MLayer} (h : AL.get? s.layers n = some l) :
    nameOfLid s l.lid = some n := by
  unfold nameOfLid
  have hmem : (n, l) ∈ s.layers := AL.mem_of_get? h
  cases hf : s.layers.find? (fun p => p.2.lid = l.lid) with
  | none =>
    have := List.find?_eq_none.mp hf (n, l) hmem
    simp at this
  | some p =>
    have hp1 := List.find?_some hf
    have hp2 := List.mem_of_find?_eq_some hf
    simp only [decide_eq_true_eq] at hp1
    have := hm.lids p.1 n p.2 l (AL.get?_of_mem_nodup hm.layerKeys hp2) h hp1
    simp [this]

/-- an entry of the replayed contents other than the default layer's is not flagged -/
theorem not_flagged_of_ne {s : State} {d : List (String × DLayer)} (hm : MemOK s) (hrel : Rel s d)
    {dn : String} {dl0 : MLayer} (hd1 : AL.get? s.layers dn = some dl0) (hd2 : s.default = some dl0.lid)
    {k : String} {x : DLayer} (hk : AL.get? d k = some x) (hne : k ≠ dn) : x.isDefault = false := by
  cases hx : x.isDefault with
  | false => rfl
  | true =>
    exfalso
    have := (hrel.flag k x hk).mp hx
    rw [hd2] at this
    simp only [Option.some.injEq] at this
    obtain ⟨l2, h1, h2, _⟩ := hrel.sound k x hk
    exact hne (hm.lids k dn l2 dl0 h1 hd1 (by rw [h2, this]))

theorem setDefault_sync {s s' : State} {n : String} (hm : MemOK s) (hs : Sync s)
    (h : setDefault s n = .ok s') : MemOK s' ∧ Sync s' := by
  unfold setDefault at h
  cases hl : AL.get? s.layers n with
  | none => simp [hl] at h
  | some l =>
    simp only [hl] at h
    by_cases hsame : s.default = some l.lid
    · simp only [hsame, if_true, Except.ok.injEq] at h; subst h; exact ⟨hm, hs⟩
    · simp only [hsame, if_false, Except.ok.injEq] at h
      subst h
      obtain ⟨dn, dl0, hd1, hd2⟩ := hm.defaultIn
      have hdname : defaultName s = some dn := by
        unfold defaultName; rw [hd2]; exact nameOfLid_eq hm hd1
      have hndn : n ≠ dn := by
        intro e; subst e; rw [hl] at hd1
        simp only [Option.some.injEq] at hd1
        subst hd1; exact hsame hd2
      have hlid : l.lid ≠ dl0.lid := by
        intro e; exact hndn (hm.lids n dn l dl0 hl hd1 e)
      obtain ⟨d, hr, hrel⟩ := hs
      refine ⟨⟨hm.layerKeys, hm.lids, hm.orderNodup, hm.orderIff, ⟨n, l, hl, rfl⟩⟩, ?_⟩
      have hg1 : ∀ k, AL.get? (setFlag d dn false) k =
          if dn = k then (AL.get? d dn).map (fun dl => { dl with isDefault := false }) else AL.get? d k :=
        fun k => get?_setFlag d dn k false
      have hk1 : (AL.keys (setFlag d dn false)).Nodup := by rw [keys_setFlag]; exact hrel.ok.keys
      -- nothing is flagged after un-flagging the old default
      have hnone : ∀ k x, AL.get? (setFlag d dn false) k = some x → x.isDefault = false := by
        intro k x hk
        simp only [hg1] at hk
        by_cases e : dn = k
        · simp only [e, if_true] at hk
          cases hx : AL.get? d k with
          | none => simp [hx] at hk
          | some y => simp [hx] at hk; subst hk; rfl
        · simp only [e, if_false] at hk
          exact not_flagged_of_ne hm hrel hd1 hd2 hk (fun x => e x.symm)
      have hany : (setFlag d dn false).any (fun p => p.2.isDefault) = false := by
        rw [List.any_eq_false]
        intro p hp
        have := hnone p.1 p.2 (AL.get?_of_mem_nodup hk1 hp)
        simp [this]
      have hsound1 : ∀ k x, AL.get? (setFlag d dn false) k = some x →
          ∃ l2, AL.get? s.layers k = some l2 ∧ l2.lid = x.lid ∧ l2.onDisk = true := by
        intro k x hk
        simp only [hg1] at hk
        by_cases e : dn = k
        · simp only [e, if_true] at hk
          cases hx : AL.get? d k with
          | none => simp [hx] at hk
          | some y =>
            simp [hx] at hk; subst hk
            exact hrel.sound k y hx
        · simp only [e, if_false] at hk
          exact hrel.sound k x hk
      cases hgn : AL.get? (setFlag d dn false) n with
      | none =>
        refine sync_of_append hr (a := .default n (some dn)) (d' := setFlag d dn false)
          (by simp [applyAction, flagDefault, hgn]) ?_ ?_ ?_
        · simp only [hdname]
        · rfl
        constructor
        · constructor
          · exact hk1
          · intro a b x y ha _ hx _
            rw [hnone a x ha] at hx; simp at hx
        · exact hsound1
        · intro k l2 hk hon
          obtain ⟨dl, hdl⟩ := hrel.complete k l2 hk hon
          simp only [hg1]
          by_cases e : dn = k
          · subst e; simp [hdl]
          · simp [e, hdl]
        · intro k x hk
          rw [hnone k x hk]
          simp only [Bool.false_eq_true, false_iff, Option.some.injEq]
          intro e
          obtain ⟨l2, h1, h2, _⟩ := hsound1 k x hk
          have := hm.lids k n l2 l h1 hl (by rw [h2, e])
          subst this
          rw [hgn] at hk; simp at hk
      | some dl2 =>
        have hdl2 : dl2.isDefault = false := hnone n dl2 hgn
        refine sync_of_append hr (a := .default n (some dn))
          (d' := AL.set (setFlag d dn false) n { dl2 with isDefault := true })
          (by simp [applyAction, flagDefault, hgn, hdl2, hany]) ?_ ?_ ?_
        · simp only [hdname]
        · rfl
        have hg2 : ∀ k, AL.get? (AL.set (setFlag d dn false) n { dl2 with isDefault := true }) k =
            if n = k then some { dl2 with isDefault := true } else AL.get? (setFlag d dn false) k :=
          fun k => AL.get?_set _ _ _ _
        obtain ⟨ln, hln1, hln2, hln3⟩ := hsound1 n dl2 hgn
        rw [hl] at hln1
        simp only [Option.some.injEq] at hln1
        subst hln1
        constructor
        · constructor
          · exact AL.nodup_keys_set _ _ _ hk1
          · intro a b x y ha hb hx hy
            simp only [hg2] at ha hb
            by_cases ea : n = a <;> by_cases eb : n = b
            · rw [← ea, ← eb]
            · simp only [eb, if_false] at hb
              rw [hnone b y hb] at hy; simp at hy
            · simp only [ea, if_false] at ha
              rw [hnone a x ha] at hx; simp at hx
            · simp only [ea, if_false] at ha
              rw [hnone a x ha] at hx; simp at hx
        · intro k x hk
          simp only [hg2] at hk
          by_cases e : n = k
          · simp only [e, if_true, Option.some.injEq] at hk
            subst hk; subst e
            exact ⟨l, hl, hln2, hln3⟩
          · simp only [e, if_false] at hk
            exact hsound1 k x hk
        · intro k l2 hk hon
          obtain ⟨dl, hdl⟩ := hrel.complete k l2 hk hon
          simp only [hg2, hg1]
          by_cases e : n = k
          · simp [e]
          · by_cases e2 : dn = k
            · subst e2; simp [e, hdl]
            · simp [e, e2, hdl]
        · intro k x hk
          simp only [hg2] at hk
          by_cases e : n = k
          · simp only [e, if_true, Option.some.injEq] at hk
            subst hk
            simp [hln2]
          · simp only [e, if_false] at hk
            rw [hnone k x hk]
            simp only [Bool.false_eq_true, false_iff, Option.some.injEq]
            intro e2
            obtain ⟨l2, h1, h2, _⟩ := hsound1 k x hk
            exact e (hm.lids k n l2 l h1 hl (by rw [h2, e2])).symm

theorem setOrder_sync {s s' : State} {o : List String} (hm : MemOK s) (hs : Sync s) (hnd : o.Nodup)
    (h : setOrder s o = .ok s') : MemOK s' ∧ Sync s' := by
  unfold setOrder at h
  split at h
  · simp only [Except.ok.injEq] at h; subst h; exact ⟨hm, hs⟩
  · split at h
    · rename_i hc
      simp only [Except.ok.injEq] at h
      subst h
      obtain ⟨d, hr, hrel⟩ := hs
      refine ⟨⟨hm.layerKeys, hm.lids, hnd, ?_, hm.defaultIn⟩, ⟨d, hr, ⟨hrel.ok, hrel.sound, hrel.complete, hrel.flag⟩⟩⟩
      intro n
      rw [← hm.orderIff]
      exact ⟨hc.2.1 n, hc.2.2 n⟩
    · simp at h

/-! ### the save -/

/-- what holds of `layerContents` while the glyph sets are being fetched -/
structure Mid (s : State) (d : List (String × DLayer)) : Prop where
  keys : (AL.keys d).Nodup
  sound : ∀ k x, AL.get? d k = some x → ∃ l, AL.get? s.layers k = some l ∧ l.lid = x.lid
  flag : ∀ k x, AL.get? d k = some x → (x.isDefault = true ↔ s.default = some x.lid)

theorem mid_of_rel {s : State} {d : List (String × DLayer)} (h : Rel s d) : Mid s d :=
  ⟨h.ok.keys, fun k x hk => let ⟨l, h1, h2, _⟩ := h.sound k x hk; ⟨l, h1, h2⟩, h.flag⟩

theorem entry_eq_expected {s : State} {d : List (String × DLayer)} (hmid : Mid s d) {k : String} {x : DLayer}
    (hk : AL.get? d k = some x) : expectedEntry s k = some x := by
  obtain ⟨l, h1, h2⟩ := hmid.sound k x hk
  unfold expectedEntry
  simp only [h1, Option.map_some, Option.some.injEq]
  have hf := hmid.flag k x hk
  cases x with
  | mk lid isd =>
    simp only at h2 hf
    subst h2
    congr 1
    cases isd with
    | true => simpa using hf.mp rfl
    | false =>
      simp only [decide_eq_false_iff_not]
      intro e; have := hf.mpr e; simp at this

theorem getGlyphSets_ok {s : State} (hm : MemOK s) (ns : List String) (d : List (String × DLayer)) (hmid : Mid s d)
    (hns : ∀ n ∈ ns, AL.contains s.layers n = true) :
    ∃ d1, getGlyphSets s d ns = .ok d1 ∧ Mid s d1 ∧
      ∀ k, AL.get? d1 k = if (AL.get? d k).isSome then AL.get? d k else if k ∈ ns then expectedEntry s k else none := by
  induction ns generalizing d with
  | nil => exact ⟨d, rfl, hmid, fun k => by cases AL.get? d k <;> simp⟩
  | cons n rest ih =>
    have hcn := hns n (by simp)
    rw [AL.contains_iff_get?] at hcn
    obtain ⟨l, hl⟩ := hcn
    unfold getGlyphSets
    simp only [hl]
    -- the default check never fires
    have hcheck : ¬ ((s.default = some l.lid) ∧ d.any (fun p => p.2.isDefault ∧ p.1 ≠ n) = true) := by
      rintro ⟨hdef, hany⟩
      rw [List.any_eq_true] at hany
      obtain ⟨p, hp, hpp⟩ := hany
      simp only [ne_eq, Bool.decide_and, Bool.and_eq_true, decide_eq_true_eq] at hpp
      have hgp := AL.get?_of_mem_nodup hmid.keys hp
      obtain ⟨l2, h1, h2⟩ := hmid.sound p.1 p.2 hgp
      have hlid := (hmid.flag p.1 p.2 hgp).mp hpp.1
      rw [hdef] at hlid
      simp only [Option.some.injEq] at hlid
      exact hpp.2 (hm.lids p.1 n l2 l h1 hl (by rw [h2, hlid]))
    unfold getGlyphSet
    rw [if_neg (by simpa using hcheck)]
    cases hgn : AL.get? d n with
    | some x =>
      obtain ⟨d1, h1, h2, h3⟩ := ih d hmid (fun m hm2 => hns m (by simp [hm2]))
      refine ⟨d1, h1, h2, ?_⟩
      intro k
      rw [h3 k]
      by_cases hs : (AL.get? d k).isSome
      · simp [hs]
      · simp only [hs, Bool.false_eq_true, if_false, List.mem_cons]
        by_cases hkn : k = n
        · subst hkn; simp [hgn] at hs
        · simp [hkn]
    | none =>
      have hmid2 : Mid s (d ++ [(n, ⟨l.lid, decide (s.default = some l.lid)⟩)]) := by
        constructor
        · exact AL.nodup_keys_append_single _ _ _ hmid.keys hgn
        · intro k x hk
          rw [AL.get?_append_single] at hk
          cases hdk : AL.get? d k with
          | some y => simp [hdk] at hk; subst hk; exact hmid.sound k y hdk
          | none =>
            simp only [hdk] at hk
            split at hk
            · rename_i e; subst e; simp at hk; subst hk; exact ⟨l, hl, rfl⟩
            · simp at hk
        · intro k x hk
          rw [AL.get?_append_single] at hk
          cases hdk : AL.get? d k with
          | some y => simp [hdk] at hk; subst hk; exact hmid.flag k y hdk
          | none =>
            simp only [hdk] at hk
            split at hk
            · simp at hk; subst hk; simp
            · simp at hk
      obtain ⟨d1, h1, h2, h3⟩ := ih _ hmid2 (fun m hm2 => hns m (by simp [hm2]))
      refine ⟨d1, h1, h2, ?_⟩
      intro k
      rw [h3 k, AL.get?_append_single]
      cases hdk : AL.get? d k with
      | some y => simp
      | none =>
        simp only [Option.isSome_none, Bool.false_eq_true, if_false, List.mem_cons]
        by_cases hkn : n = k
        · subst hkn
          simp [expectedEntry, hl]
        · have hkn' : ¬ k = n := fun x => hkn x.symm
          simp [hkn, hkn']

theorem get?_filterMap_order (d : List (String × DLayer)) (order : List String) (k : String) (hnd : order.Nodup) :
    AL.get? (order.filterMap (fun n => (AL.get? d n).map (fun dl => (n, dl)))) k =
      if k ∈ order then AL.get? d k else none := by
  induction order with
  | nil => simp
  | cons n rest ih =>
    simp only [List.nodup_cons] at hnd
    simp only [List.filterMap_cons, List.mem_cons]
    cases hg : AL.get? d n with
    | none =>
      simp only [Option.map_none]
      rw [ih hnd.2]
      by_cases e : k = n
      · subst e; simp [hg, hnd.1]
      · simp [e]
    | some x =>
      simp only [Option.map_some, AL.get?_cons]
      by_cases e : n = k
      · subst e; simp [hg]
      · have e' : ¬ k = n := fun x => e x.symm
        simp only [e, e', if_false, false_or]
        exact ih hnd.2

theorem keys_filterMap_order (d : List (String × DLayer)) (order : List String)
    (h : ∀ n ∈ order, (AL.get? d n).isSome) :
    AL.keys (order.filterMap (fun n => (AL.get? d n).map (fun dl => (n, dl)))) = order := by
  induction order with
  | nil => rfl
  | cons n rest ih =>
    have hn := h n (by simp)
    cases hg : AL.get? d n with
    | none => simp [hg] at hn
    | some x =>
      simp only [List.filterMap_cons, hg, Option.map_some, AL.keys, List.map_cons]
      congr 1
      exact ih (fun m hm => h m (by simp [hm]))

theorem replay_news (ns : List String) (d : List (String × DLayer)) : replay (ns.map Action.new) d = .ok d := by
  induction ns with
  | nil => rfl
  | cons n rest ih => simp only [List.map_cons, replay, applyAction]; exact ih

/-- common end of a save: from a `layerContents` that satisfies `Mid` and covers exactly the
prescribed entries -/
theorem finish_save {s : State} (hm : MemOK s) (d1 : List (String × DLayer)) (hmid : Mid s d1)
    (hchar : ∀ k, AL.get? d1 k = expectedEntry s k) :
    ∃ d2, writeLayerContents d1 s.order = .ok d2 ∧ (∀ n, AL.get? d2 n = expectedEntry s n) ∧ AL.keys d2 = s.order := by
  have hexp_some : ∀ n, n ∈ s.order → (expectedEntry s n).isSome := by
    intro n hn
    have := (hm.orderIff n).mp hn
    rw [AL.contains_iff_get?] at this
    obtain ⟨l, hl⟩ := this
    simp [expectedEntry, hl]
  have hexp_none : ∀ n, n ∉ s.order → expectedEntry s n = none := by
    intro n hn
    have : ¬ AL.contains s.layers n = true := fun h => hn ((hm.orderIff n).mpr h)
    simp [expectedEntry, get?_none_of_not_contains this]
  unfold writeLayerContents
  have hcond : (∀ x ∈ s.order, AL.contains d1 x = true) ∧ (∀ p ∈ d1, p.1 ∈ s.order) := by
    constructor
    · intro x hx
      rw [AL.contains_iff_get?, hchar]
      exact Option.isSome_iff_exists.mp (hexp_some x hx)
    · intro p hp
      have hg := AL.get?_of_mem_nodup hmid.keys hp
      obtain ⟨l, h1, _⟩ := hmid.sound p.1 p.2 hg
      exact (hm.orderIff p.1).mpr (contains_of_get? h1)
  rw [if_pos hcond]
  refine ⟨_, rfl, ?_, ?_⟩
  · intro n
    rw [get?_filterMap_order _ _ _ hm.orderNodup, hchar]
    by_cases hn : n ∈ s.order
    · simp [hn]
    · simp [hn, hexp_none n hn]
  · apply keys_filterMap_order
    intro n hn
    rw [hchar]; exact hexp_some n hn

theorem after_save {s : State} (hm : MemOK s) (d2 : List (String × DLayer))
    (hd2 : ∀ n, AL.get? d2 n = expectedEntry s n) (hk2 : AL.keys d2 = s.order) :
    let s' : State := { s with
        disk := d2
        layers := s.layers.map (fun p => (p.1, bound p.2))
        history := (s.order.filter (fun n => some n ≠ defaultName s)).map Action.new }
    MemOK s' ∧ Sync s' := by
  intro s'
  have hget : ∀ k, AL.get? s'.layers k = (AL.get? s.layers k).map bound :=
    fun k => AL.get?_map_val bound s.layers k
  have hm' : MemOK s' := by
    constructor
    · show (AL.keys (s.layers.map (fun p => (p.1, bound p.2)))).Nodup
      rw [AL.keys_map_val bound]; exact hm.layerKeys
    · intro a b x y ha hb hxy
      rw [hget] at ha hb
      cases hxa : AL.get? s.layers a with
      | none => simp [hxa] at ha
      | some x0 =>
        cases hyb : AL.get? s.layers b with
        | none => simp [hyb] at hb
        | some y0 =>
          simp [hxa] at ha; simp [hyb] at hb
          subst ha; subst hb
          exact hm.lids a b x0 y0 hxa hyb hxy
    · exact hm.orderNodup
    · intro n
      rw [hm.orderIff, AL.contains_iff_get?, AL.contains_iff_get?]
      simp only [hget]
      cases AL.get? s.layers n <;> simp
    · obtain ⟨dn, dl, h1, h2⟩ := hm.defaultIn
      exact ⟨dn, bound dl, by simp [hget, h1], h2⟩
  refine ⟨hm', d2, replay_news _ d2, ?_⟩
  constructor
  · constructor
    · rw [hk2]; exact hm.orderNodup
    · intro a b x y ha hb hx hy
      rw [hd2] at ha hb
      unfold expectedEntry at ha hb
      cases hxa : AL.get? s.layers a with
      | none => simp [hxa] at ha
      | some x0 =>
        cases hyb : AL.get? s.layers b with
        | none => simp [hyb] at hb
        | some y0 =>
          simp [hxa] at ha; simp [hyb] at hb
          subst ha; subst hb
          simp only [decide_eq_true_eq] at hx hy
          rw [hx] at hy
          exact hm.lids a b x0 y0 hxa hyb (Option.some.inj hy)
  · intro n dl hn
    rw [hd2] at hn
    unfold expectedEntry at hn
    cases hl : AL.get? s.layers n with
    | none => simp [hl] at hn
    | some l =>
      simp [hl] at hn
      subst hn
      exact ⟨bound l, by simp [hget, hl], rfl, rfl⟩
  · intro n l hn _
    rw [hget] at hn
    cases hl : AL.get? s.layers n with
    | none => simp [hl] at hn
    | some l0 => exact ⟨⟨l0.lid, decide (s.default = some l0.lid)⟩, by rw [hd2]; simp [expectedEntry, hl]⟩
  · intro n dl hn
    rw [hd2] at hn
    unfold expectedEntry at hn
    cases hl : AL.get? s.layers n with
    | none => simp [hl] at hn
    | some l => simp [hl] at hn; subst hn; simp only [decide_eq_true_eq]; exact Iff.rfl

theorem char_of_getGlyphSets {s : State} (hm : MemOK s) {d0 d1 : List (String × DLayer)} (hmid0 : Mid s d0)
    (hnames : ∀ k x, AL.get? d0 k = some x → k ∈ s.order)
    (h3 : ∀ k, AL.get? d1 k = if (AL.get? d0 k).isSome then AL.get? d0 k else if k ∈ s.order then expectedEntry s k else none) :
    ∀ k, AL.get? d1 k = expectedEntry s k := by
  intro k
  rw [h3 k]
  cases hdk : AL.get? d0 k with
  | some x => simp [entry_eq_expected hmid0 hdk]
  | none =>
    simp only [Option.isSome_none, Bool.false_eq_true, if_false]
    by_cases hk : k ∈ s.order
    · simp [hk]
    · have : ¬ AL.contains s.layers k = true := fun h => hk ((hm.orderIff k).mpr h)
      simp [hk, expectedEntry, get?_none_of_not_contains this]

/-- The in-place save of a layer set succeeds after EVERY history that keeps the invariant, and
writes exactly the memory layers, in layer order, each to its own directory, the default layer
and only it to the default directory. -/
theorem saveInPlace_spec {s : State} (hm : MemOK s) (hs : Sync s) :
    ∃ s', saveInPlace s = .ok s' ∧ (∀ n, AL.get? s'.disk n = expectedEntry s n) ∧ AL.keys s'.disk = s.order ∧
      MemOK s' ∧ Sync s' ∧ s'.order = s.order ∧ s'.default = s.default := by
  obtain ⟨d0, hr, hrel⟩ := hs
  have hmid0 := mid_of_rel hrel
  obtain ⟨d1, h1, hmid1, h3⟩ := getGlyphSets_ok hm s.order d0 hmid0 (fun n hn => (hm.orderIff n).mp hn)
  have hchar := char_of_getGlyphSets hm hmid0
    (fun k x hk => by
      obtain ⟨l, hl, _⟩ := hmid0.sound k x hk
      exact (hm.orderIff k).mpr (contains_of_get? hl)) h3
  obtain ⟨d2, hw, hd2, hk2⟩ := finish_save hm d1 hmid1 hchar
  obtain ⟨hm', hs'⟩ := after_save hm d2 hd2 hk2
  unfold saveInPlace
  simp only [hr, h1, hw]
  exact ⟨_, rfl, hd2, hk2, hm', hs', rfl, rfl⟩

theorem saveAs_spec {s : State} (hm : MemOK s) :
    ∃ s', saveAs s = .ok s' ∧ (∀ n, AL.get? s'.disk n = expectedEntry s n) ∧ AL.keys s'.disk = s.order ∧
      MemOK s' ∧ Sync s' ∧ s'.order = s.order ∧ s'.default = s.default := by
  have hmid0 : Mid s [] := ⟨by simp [AL.keys], fun k x hk => by simp at hk, fun k x hk => by simp at hk⟩
  obtain ⟨d1, h1, hmid1, h3⟩ := getGlyphSets_ok hm s.order [] hmid0 (fun n hn => (hm.orderIff n).mp hn)
  have hchar := char_of_getGlyphSets hm hmid0 (fun k x hk => by simp at hk) h3
  obtain ⟨d2, hw, hd2, hk2⟩ := finish_save hm d1 hmid1 hchar
  obtain ⟨hm', hs'⟩ := after_save hm d2 hd2 hk2
  unfold saveAs
  simp only [h1, hw]
  exact ⟨_, rfl, hd2, hk2, hm', hs', rfl, rfl⟩

/-! ### a freshly opened layer set -/

theorem get?_map_pair {β : Type} (f : Nat → β) (ls : List (String × Nat)) (k : String) :
    AL.get? (ls.map (fun p => (p.1, f p.2))) k = (AL.get? ls k).map f := AL.get?_map_val f ls k

theorem opened_good (ls : List (String × Nat)) (defLid : Nat) (defName : String)
    (hn : (AL.keys ls).Nodup) (hl : (ls.map Prod.snd).Nodup) (hd : AL.get? ls defName = some defLid) :
    MemOK (opened ls defLid defName) ∧ Sync (opened ls defLid defName) := by
  have hlay : ∀ k, AL.get? (opened ls defLid defName).layers k = (AL.get? ls k).map (fun i => (⟨i, true⟩ : MLayer)) :=
    fun k => get?_map_pair (fun i => (⟨i, true⟩ : MLayer)) ls k
  have hdisk : ∀ k, AL.get? (opened ls defLid defName).disk k =
      (AL.get? ls k).map (fun i => (⟨i, decide (i = defLid)⟩ : DLayer)) :=
    fun k => get?_map_pair (fun i => (⟨i, decide (i = defLid)⟩ : DLayer)) ls k
  have hinj : ∀ a b i, AL.get? ls a = some i → AL.get? ls b = some i → a = b := by
    intro a b i ha hb
    have h1 := AL.mem_of_get? ha
    have h2 := AL.mem_of_get? hb
    clear hd hlay hdisk ha hb hn
    induction ls with
    | nil => simp at h1
    | cons p r ih =>
      simp only [List.map_cons, List.nodup_cons, List.mem_map, not_exists, not_and] at hl
      simp only [List.mem_cons] at h1 h2
      rcases h1 with h1 | h1 <;> rcases h2 with h2 | h2
      · rw [← h1] at h2; exact (Prod.mk.inj h2).1.symm ▸ rfl
      · exact absurd (by rw [← h1]) (hl.1 (b, i) h2)
      · exact absurd (by rw [← h2]) (hl.1 (a, i) h1)
      · exact ih hl.2 h1 h2
  have hm : MemOK (opened ls defLid defName) := by
    constructor
    · show (AL.keys (ls.map (fun p => (p.1, (⟨p.2, true⟩ : MLayer))))).Nodup
      rw [AL.keys_map_val (fun i => (⟨i, true⟩ : MLayer))]; exact hn
    · intro a b x y ha hb hxy
      rw [hlay] at ha hb
      cases hxa : AL.get? ls a with
      | none => simp [hxa] at ha
      | some i =>
        cases hyb : AL.get? ls b with
        | none => simp [hyb] at hb
        | some j =>
          simp [hxa] at ha; simp [hyb] at hb
          subst ha; subst hb
          simp only at hxy
          subst hxy
          exact hinj a b i hxa hyb
    · exact hn
    · intro n
      show n ∈ ls.map Prod.fst ↔ _
      rw [AL.contains_iff_get?]
      simp only [hlay]
      constructor
      · intro h
        have : n ∈ AL.keys ls := h
        rw [AL.keys, List.mem_map] at this
        obtain ⟨⟨k, i⟩, hp, rfl⟩ := this
        exact ⟨⟨i, true⟩, by simp [AL.get?_of_mem_nodup hn hp]⟩
      · rintro ⟨v, hv⟩
        cases hg : AL.get? ls n with
        | none => simp [hg] at hv
        | some i => exact AL.mem_keys_of_get? hg
    · exact ⟨defName, ⟨defLid, true⟩, by simp [hlay, hd], rfl⟩
  refine ⟨hm, (opened ls defLid defName).disk, ?_, ?_⟩
  · show replay (ls.map (fun p => Action.new p.1) ++ [Action.default defName none]) _ = _
    rw [replay_append]
    have : ls.map (fun p => Action.new p.1) = (ls.map Prod.fst).map Action.new := by simp
    rw [this, replay_news]
    simp only [applyAction, flagDefault, hdisk, hd, Option.map_some, decide_true, if_true]
  · constructor
    · constructor
      · show (AL.keys (ls.map (fun p => (p.1, (⟨p.2, decide (p.2 = defLid)⟩ : DLayer))))).Nodup
        rw [AL.keys_map_val (fun i => (⟨i, decide (i = defLid)⟩ : DLayer))]; exact hn
      · intro a b x y ha hb hx hy
        rw [hdisk] at ha hb
        cases hxa : AL.get? ls a with
        | none => simp [hxa] at ha
        | some i =>
          cases hyb : AL.get? ls b with
          | none => simp [hyb] at hb
          | some j =>
            simp [hxa] at ha; simp [hyb] at hb
            subst ha; subst hb
            simp only [decide_eq_true_eq] at hx hy
            rw [hx] at hxa; rw [hy] at hyb
            exact hinj a b defLid hxa hyb
    · intro n dl hdl
      rw [hdisk] at hdl
      cases hg : AL.get? ls n with
      | none => simp [hg] at hdl
      | some i => simp [hg] at hdl; subst hdl; exact ⟨⟨i, true⟩, by simp [hlay, hg], rfl, rfl⟩
    · intro n l hl2 _
      rw [hlay] at hl2
      cases hg : AL.get? ls n with
      | none => simp [hg] at hl2
      | some i => exact ⟨⟨i, decide (i = defLid)⟩, by simp [hdisk, hg]⟩
    · intro n dl hdl
      rw [hdisk] at hdl
      cases hg : AL.get? ls n with
      | none => simp [hg] at hdl
      | some i =>
        simp [hg] at hdl; subst hdl
        show decide (i = defLid) = true ↔ some defLid = some i
        simp only [decide_eq_true_eq, Option.some.injEq]
        exact eq_comm

/-! ### every history -/

theorem inv_step {s s' : State} (h : Inv s) (op : Op) (hop : OpOK s op) (hs : step s op = .ok s') : Inv s' := by
  cases op with
  | newLayer n =>
    have hn : s.nextLid ∉ s.layers.map (·.2.lid) := by
      intro hmem
      simp only [List.mem_map] at hmem
      obtain ⟨p, hp, hlid⟩ := hmem
      have := h.fresh p.1 p.2 (AL.get?_of_mem_nodup h.mem.layerKeys hp)
      omega
    obtain ⟨h1, h2⟩ := newLayer_sync h.mem h.sync hn hs
    refine ⟨h1, h2, ?_⟩
    simp only [step] at hs
    unfold newLayer at hs
    split at hs
    · simp at hs
    · simp only [Except.ok.injEq] at hs
      subst hs
      intro k l hk
      simp only [AL.get?_set] at hk
      split at hk
      · simp at hk; subst hk; simp
      · have := h.fresh k l hk; simp only; omega
  | delLayer n =>
    have hop' : ∀ l, AL.get? s.layers n = some l → s.default ≠ some l.lid := by
      intro l hl; simp only [OpOK, delOK, hl, decide_eq_true_eq] at hop; exact hop
    obtain ⟨h1, h2⟩ := delLayer_sync h.mem h.sync hop' hs
    refine ⟨h1, h2, ?_⟩
    simp only [step] at hs
    unfold delLayer at hs
    split at hs
    · simp only [Except.ok.injEq] at hs
      subst hs
      intro k l hk
      simp only at hk
      rw [AL.get?_erase _ _ _ h.mem.layerKeys] at hk
      split at hk
      · simp at hk
      · exact h.fresh k l hk
    · simp at hs
  | rename o n =>
    obtain ⟨h1, h2⟩ := rename_sync h.mem h.sync hop hs
    refine ⟨h1, h2, ?_⟩
    simp only [step] at hs
    unfold renameLayer at hs
    cases hl : AL.get? s.layers o with
    | none => simp [hl] at hs
    | some l =>
      simp only [hl] at hs
      split at hs
      · simp only [Except.ok.injEq] at hs; subst hs; exact h.fresh
      · rename_i hon
        simp only [Except.ok.injEq] at hs
        subst hs
        intro k l2 hk
        simp only at hk
        rw [get?_rekey _ _ _ _ _ h.mem.layerKeys hop hon] at hk
        split at hk
        · simp at hk; subst hk; exact h.fresh o l hl
        · split at hk
          · simp at hk
          · exact h.fresh k l2 hk
  | setDefault n =>
    obtain ⟨h1, h2⟩ := setDefault_sync h.mem h.sync hs
    refine ⟨h1, h2, ?_⟩
    simp only [step] at hs
    unfold setDefault at hs
    cases hl : AL.get? s.layers n with
    | none => simp [hl] at hs
    | some l =>
      simp only [hl] at hs
      split at hs <;> (simp only [Except.ok.injEq] at hs; subst hs; exact h.fresh)
  | setOrder o =>
    obtain ⟨h1, h2⟩ := setOrder_sync h.mem h.sync hop hs
    refine ⟨h1, h2, ?_⟩
    simp only [step] at hs
    unfold setOrder at hs
    split at hs
    · simp only [Except.ok.injEq] at hs; subst hs; exact h.fresh
    · split at hs
      · simp only [Except.ok.injEq] at hs; subst hs; exact h.fresh
      · simp at hs
  | saveInPlace =>
    obtain ⟨s2, h1, _, _, h4, h5, _, _⟩ := saveInPlace_spec h.mem h.sync
    simp only [step] at hs
    rw [h1] at hs
    simp only [Except.ok.injEq] at hs
    subst hs
    refine ⟨h4, h5, ?_⟩
    unfold saveInPlace at h1
    split at h1
    · simp at h1
    · split at h1
      · simp at h1
      · split at h1
        · simp at h1
        · simp only [Except.ok.injEq] at h1
          subst h1
          intro k l hk
          simp only at hk
          rw [AL.get?_map_val bound] at hk
          cases hg : AL.get? s.layers k with
          | none => simp [hg] at hk
          | some l0 => simp [hg] at hk; subst hk; exact h.fresh k l0 hg
  | saveAs =>
    obtain ⟨s2, h1, _, _, h4, h5, _, _⟩ := saveAs_spec h.mem
    simp only [step] at hs
    rw [h1] at hs
    simp only [Except.ok.injEq] at hs
    subst hs
    refine ⟨h4, h5, ?_⟩
    unfold saveAs at h1
    split at h1
    · simp at h1
    · split at h1
      · simp at h1
      · simp only [Except.ok.injEq] at h1
        subst h1
        intro k l hk
        simp only at hk
        rw [AL.get?_map_val bound] at hk
        cases hg : AL.get? s.layers k with
        | none => simp [hg] at hk
        | some l0 => simp [hg] at hk; subst hk; exact h.fresh k l0 hg

theorem inv_stepTotal {s : State} (h : Inv s) (op : Op) (hop : OpOK s op) : Inv (stepTotal s op) := by
  unfold stepTotal
  cases hs : step s op with
  | error e => exact h
  | ok s' => exact inv_step h op hop hs

theorem inv_run {s : State} (h : Inv s) (ops : List Op) (hops : OpsOK s ops) : Inv (run s ops) := by
  unfold run
  induction ops generalizing s with
  | nil => exact h
  | cons op rest ih => exact ih (inv_stepTotal h op hops.1) hops.2

end LayerSet
end DefconModel
