/-
Helper lemmas for C10, second part: which operations touch the staged objects and the list of
leaked identifiers (finding F29).  Everything that is not a composite leaves both alone.
-/
import DefconModel.Lemmas.Ident

namespace DefconModel
namespace Ident

/-- the staging fields and the leak list of a container -/
def Glyph.aux (g : Glyph) : Option Contour × List Contour × List Comp × List (Option Id) × List (Option Id) × List Id :=
  (g.cur, g.stC, g.stK, g.stA, g.stG, g.leaked)

/-- nothing staged, nothing leaked -/
def Good (g : Glyph) : Prop := g.aux = (none, [], [], [], [], [])


theorem Good.settled {g : Glyph} (h : Good g) : g.Settled ∧ g.leaked = [] := by
  unfold Good Glyph.aux at h
  simp only [Prod.mk.injEq] at h
  exact ⟨⟨h.1, h.2.1, h.2.2.1, h.2.2.2.1, h.2.2.2.2.1⟩, h.2.2.2.2.2⟩

theorem good_of_aux {g g' : Glyph} (h : Good g) (ha : g'.aux = g.aux) : Good g' := by
  unfold Good at *; rw [ha, h]

theorem good_empty : Good ({} : Glyph) := rfl

/-- closes `(f g args).1.aux = g.aux` for operations written as case distinctions over record updates -/
macro "aux_simple" : tactic =>
  `(tactic| (repeat' (first | split | dsimp only)) <;> rfl)

theorem aux_insertPoint (g : Glyph) (ci idx : Nat) (p : Point) : (insertPoint g ci idx p).1.aux = g.aux := by
  unfold insertPoint; aux_simple

theorem aux_removePoint (g : Glyph) (ci pi : Nat) : (removePoint g ci pi).1.aux = g.aux := by
  unfold removePoint; aux_simple

theorem aux_dropPoint (g : Glyph) (ci pi : Nat) : (dropPoint g ci pi).aux = g.aux := by
  unfold dropPoint; aux_simple

theorem aux_clearContour (g : Glyph) (ci : Nat) : (clearContour g ci).1.aux = g.aux := by
  unfold clearContour; aux_simple

theorem aux_reverse (g : Glyph) (ci : Nat) : (reverse g ci).1.aux = g.aux := by
  unfold reverse; aux_simple

theorem aux_setStart (g : Glyph) (ci pi : Nat) : (setStart g ci pi).1.aux = g.aux := by
  unfold setStart; aux_simple

theorem aux_Edit_remove (e : Edit) (ci lbl : Nat) : (Edit.remove ci e lbl).1.g.aux = e.g.aux := by
  unfold Edit.remove
  split
  · rfl
  · exact aux_dropPoint _ _ _

theorem aux_Edit_removeAll (e : Edit) (ci : Nat) (ls : List Nat) : (Edit.removeAll ci e ls).1.g.aux = e.g.aux := by
  induction ls generalizing e with
  | nil => rfl
  | cons l ls ih =>
    unfold Edit.removeAll
    have h1 := aux_Edit_remove e ci l
    split
    · rename_i e' heq; rw [heq] at h1; rw [ih e', h1]
    · rename_i e' heq; rw [heq] at h1; exact h1

theorem aux_Edit_setTyp (e : Edit) (ci lbl : Nat) (t : Typ) : (Edit.setTyp ci e lbl t).g.aux = e.g.aux := by
  unfold Edit.setTyp; aux_simple

theorem aux_Edit_insertOffs (e : Edit) (ci lbl : Nat) : (Edit.insertOffs ci e lbl).1.g.aux = e.g.aux := by
  unfold Edit.insertOffs; aux_simple

theorem aux_withRes (g : Glyph) (b : Bool) : (g.withRes b).1.aux = g.aux := by
  unfold Glyph.withRes; split <;> rfl

theorem aux_removeSegmentCore (g : Glyph) (ci n : Nat) (seg next prev : List LP) (preserve : Bool) :
    (removeSegmentCore g ci n seg next prev preserve).1.aux = g.aux := by
  unfold removeSegmentCore
  dsimp only
  have h1 := aux_Edit_removeAll ({ g := g, lbls := List.range n } : Edit) ci (seg.map (·.1))
  split
  · split
    · rename_i e1 heq; rw [heq] at h1; exact h1
    · rename_i e1 heq; rw [heq] at h1
      split
      · have h2 := aux_Edit_removeAll e1 ci (next.dropLast.map (·.1))
        split
        · rename_i e2 heq2; rw [heq2] at h2; exact h2.trans h1
        · rename_i e2 heq2; rw [heq2] at h2
          split
          · exact h2.trans h1
          · exact (aux_Edit_setTyp _ _ _ _).trans (h2.trans h1)
      · exact h1
  · split
    · rfl
    · split
      · rfl
      · split
        · rfl
        · split
          · rfl
          · split
            · rename_i e1 heq; rw [heq] at h1; exact h1
            · rename_i e1 heq; rw [heq] at h1
              split
              · split
                · exact h1
                · exact (aux_withRes _ _).trans ((aux_Edit_insertOffs _ _ _).trans ((aux_Edit_setTyp _ _ _ _).trans h1))
              · exact h1

theorem aux_removeSegment (g : Glyph) (ci si : Nat) (preserve : Bool) :
    (removeSegment g ci si preserve).1.aux = g.aux := by
  unfold removeSegment
  split
  · rfl
  · dsimp only
    split
    · rfl
    · exact aux_removeSegmentCore _ _ _ _ _ _ _

theorem aux_splitCore (g : Glyph) (ci : Nat) (c : Contour) (fi li : Nat) (new : List Point) :
    (splitCore g ci c fi li new).1.aux = g.aux := rfl

theorem aux_split (g : Glyph) (ci si : Nat) : (split g ci si).1.aux = g.aux := by
  unfold split
  split
  · rfl
  · dsimp only
    split
    · rfl
    · split
      · split
        · rfl
        · exact aux_splitCore _ _ _ _ _ _
      · rfl

theorem aux_setContourId (g : Glyph) (ci : Nat) (v : Option Id) : (setContourId g ci v).1.aux = g.aux := by
  unfold setContourId; aux_simple

theorem aux_genContourId (g : Glyph) (ci : Nat) (cands : List Id) : (genContourId g ci cands).1.aux = g.aux := by
  unfold genContourId; aux_simple

theorem aux_genPointId (g : Glyph) (ci pi : Nat) (cands : List Id) : (genPointId g ci pi cands).1.aux = g.aux := by
  unfold genPointId; aux_simple

theorem aux_insertContour (g : Glyph) (idx : Nat) (c : Contour) : (insertContour g idx c).1.aux = g.aux := by
  unfold insertContour; aux_simple

theorem aux_removeContour (g : Glyph) (ci : Nat) : (removeContour g ci).1.aux = g.aux := by
  unfold removeContour; aux_simple

theorem aux_insertComp (g : Glyph) (idx : Nat) (k : Comp) : (insertComp g idx k).1.aux = g.aux := by
  unfold insertComp; aux_simple

theorem aux_insertAnchor (g : Glyph) (idx : Nat) (v : Option Id) : (insertAnchor g idx v).1.aux = g.aux := by
  unfold insertAnchor; aux_simple

theorem aux_insertGuide (g : Glyph) (idx : Nat) (v : Option Id) : (insertGuide g idx v).1.aux = g.aux := by
  unfold insertGuide; aux_simple

theorem aux_removeComp (g : Glyph) (i : Nat) : (removeComp g i).1.aux = g.aux := by
  unfold removeComp; aux_simple

theorem aux_removeAnchor (g : Glyph) (i : Nat) : (removeAnchor g i).1.aux = g.aux := by
  unfold removeAnchor; aux_simple

theorem aux_removeGuide (g : Glyph) (i : Nat) : (removeGuide g i).1.aux = g.aux := by
  unfold removeGuide; aux_simple

theorem aux_clearContours (n : Nat) (g : Glyph) : (clearContours n g).1.aux = g.aux := by
  induction n generalizing g with
  | zero => rfl
  | succ n ih =>
    unfold clearContours
    have h1 := aux_removeContour g n
    split
    · rename_i g1 c heq; rw [heq] at h1; exact (ih g1).trans h1
    · rename_i g1 res o _ heq; rw [heq] at h1; exact h1

theorem aux_clearComps (n : Nat) (g : Glyph) : (clearComps n g).1.aux = g.aux := by
  induction n generalizing g with
  | zero => rfl
  | succ n ih =>
    unfold clearComps
    have h1 := aux_removeComp g n
    split
    · rename_i g1 c heq; rw [heq] at h1; exact (ih g1).trans h1
    · rename_i g1 res o _ heq; rw [heq] at h1; exact h1

theorem aux_clearAnchors (n : Nat) (g : Glyph) : (clearAnchors n g).1.aux = g.aux := by
  induction n generalizing g with
  | zero => rfl
  | succ n ih =>
    unfold clearAnchors
    have h1 := aux_removeAnchor g n
    split
    · rename_i g1 c heq; rw [heq] at h1; exact (ih g1).trans h1
    · rename_i g1 res o _ heq; rw [heq] at h1; exact h1

theorem aux_clearGuides (n : Nat) (g : Glyph) : (clearGuides n g).1.aux = g.aux := by
  induction n generalizing g with
  | zero => rfl
  | succ n ih =>
    unfold clearGuides
    have h1 := aux_removeGuide g n
    split
    · rename_i g1 c heq; rw [heq] at h1; exact (ih g1).trans h1
    · rename_i g1 res o _ heq; rw [heq] at h1; exact h1

theorem aux_setCompId (g : Glyph) (i : Nat) (v : Option Id) : (setCompId g i v).1.aux = g.aux := by
  unfold setCompId; aux_simple

theorem aux_setAnchorId (g : Glyph) (i : Nat) (v : Option Id) : (setAnchorId g i v).1.aux = g.aux := by
  unfold setAnchorId; aux_simple

theorem aux_setGuideId (g : Glyph) (i : Nat) (v : Option Id) : (setGuideId g i v).1.aux = g.aux := by
  unfold setGuideId; aux_simple

theorem aux_genCompId (g : Glyph) (i : Nat) (cands : List Id) : (genCompId g i cands).1.aux = g.aux := by
  unfold genCompId
  split
  · rfl
  · split
    · rfl
    · rfl
    · rename_i v _
      have := aux_setCompId g i v
      split
      · rename_i g1 heq; rw [heq] at this; exact this
      · rfl

theorem aux_genAnchorId (g : Glyph) (i : Nat) (cands : List Id) : (genAnchorId g i cands).1.aux = g.aux := by
  unfold genAnchorId
  split
  · rfl
  · split
    · rfl
    · rfl
    · rename_i v _
      have := aux_setAnchorId g i v
      split
      · rename_i g1 heq; rw [heq] at this; exact this
      · rfl

theorem aux_genGuideId (g : Glyph) (i : Nat) (cands : List Id) : (genGuideId g i cands).1.aux = g.aux := by
  unfold genGuideId
  split
  · rfl
  · split
    · rfl
    · rfl
    · rename_i v _
      have := aux_setGuideId g i v
      split
      · rename_i g1 heq; rw [heq] at this; exact this
      · rfl

theorem aux_appendGuideDicts (g : Glyph) (vs : List (Option Id)) : (appendGuideDicts g vs).1.aux = g.aux := by
  induction vs generalizing g with
  | nil => rfl
  | cons v vs ih =>
    unfold appendGuideDicts
    have h1 := aux_insertGuide g g.guides.length v
    split
    · rename_i g1 heq; rw [heq] at h1; exact (ih g1).trans h1
    · rename_i g1 res _ heq; rw [heq] at h1; exact h1

theorem aux_appendAnchorDicts (g : Glyph) (vs : List (Option Id)) : (appendAnchorDicts g vs).1.aux = g.aux := by
  induction vs generalizing g with
  | nil => rfl
  | cons v vs ih =>
    unfold appendAnchorDicts
    have h1 := aux_insertAnchor g g.anchors.length v
    split
    · rename_i g1 heq; rw [heq] at h1; exact (ih g1).trans h1
    · rename_i g1 res _ heq; rw [heq] at h1; exact h1

theorem aux_setGuides (g : Glyph) (vs : List (Option Id)) : (setGuides g vs).1.aux = g.aux := by
  unfold setGuides
  have h1 := aux_clearGuides g.guides.length g
  dsimp only
  split
  · exact (aux_appendGuideDicts _ _).trans h1
  · exact h1

theorem aux_setAnchors (g : Glyph) (vs : List (Option Id)) : (setAnchors g vs).1.aux = g.aux := by
  unfold setAnchors
  have h1 := aux_clearAnchors g.anchors.length g
  dsimp only
  split
  · exact (aux_appendAnchorDicts _ _).trans h1
  · exact h1

theorem aux_clearGlyph (g : Glyph) : (clearGlyph g).1.aux = g.aux := by
  unfold clearGlyph
  have ha := aux_clearContours g.contours.length g
  dsimp only
  split
  · have hb := aux_clearComps (clearContours g.contours.length g).1.comps.length (clearContours g.contours.length g).1
    split
    · have hc := aux_clearAnchors (clearComps (clearContours g.contours.length g).1.comps.length
        (clearContours g.contours.length g).1).1.anchors.length
        (clearComps (clearContours g.contours.length g).1.comps.length (clearContours g.contours.length g).1).1
      split
      · exact (aux_clearGuides _ _).trans (hc.trans (hb.trans ha))
      · exact hc.trans (hb.trans ha)
    · exact hb.trans ha
  · exact ha

theorem aux_penComp (skip : Bool) (g : Glyph) (k : Comp) : (penComp skip g k).1.aux = g.aux := by
  unfold penComp; aux_simple

theorem aux_penComps (skip : Bool) (g : Glyph) (ks : List Comp) : (penComps skip g ks).1.aux = g.aux := by
  induction ks generalizing g with
  | nil => rfl
  | cons k ks ih =>
    unfold penComps
    have h1 := aux_penComp skip g k
    split
    · rename_i g1 heq; rw [heq] at h1; exact (ih g1).trans h1
    · rename_i g1 heq; rw [heq] at h1; exact h1

/-! ### loading shallow contours touches neither the staged objects nor the leak list -/

theorem aux_deepen (g : Glyph) : (deepen g).aux = g.aux := by
  unfold deepen; split
  · split <;> rfl
  · rfl

theorem aux_markShallow (g : Glyph) : (markShallow g).aux = g.aux := rfl

/-! ### the pen -/

/-- everything of `aux` except the pen's contour -/
def Glyph.rest (g : Glyph) : List Contour × List Comp × List (Option Id) × List (Option Id) × List Id :=
  (g.stC, g.stK, g.stA, g.stG, g.leaked)

theorem settled_iff (g : Glyph) : g.Settled ↔ g.cur = none ∧ g.stC = [] ∧ g.stK = [] ∧ g.stA = [] ∧ g.stG = [] :=
  Iff.rfl

theorem settled_abandon (g : Glyph) : (abandon g).Settled := ⟨rfl, rfl, rfl, rfl, rfl⟩

theorem dropCur_of_none {g : Glyph} (h : g.cur = none) : dropCur g = g := by
  unfold dropCur; rw [h]

theorem penBeginCore_spec (g : Glyph) (v : Option Id) (skip : Bool) :
    (penBeginCore g v skip).1.cur.isSome = true ∧ (penBeginCore g v skip).1.rest = g.rest ∧
    (skip = true → (penBeginCore g v skip).2 = true) := by
  unfold penBeginCore
  split
  · exact ⟨rfl, rfl, fun _ => rfl⟩
  · split
    · split
      · exact ⟨rfl, rfl, fun _ => rfl⟩
      · rename_i hs; exact ⟨rfl, rfl, fun h => absurd h hs⟩
    · exact ⟨rfl, rfl, fun _ => rfl⟩

theorem penPoint_spec (g : Glyph) (p : Point) (skip : Bool) (hc : g.cur.isSome = true) :
    (penPoint g p skip).1.cur.isSome = true ∧ (penPoint g p skip).1.rest = g.rest ∧
    (skip = true → (penPoint g p skip).2 = true) := by
  unfold penPoint
  split
  · rename_i h; rw [h] at hc; cases hc
  · split
    · exact ⟨rfl, rfl, fun _ => rfl⟩
    · split
      · split
        · exact ⟨rfl, rfl, fun _ => rfl⟩
        · rename_i hs; exact ⟨hc, rfl, fun h => absurd h hs⟩
      · exact ⟨rfl, rfl, fun _ => rfl⟩

theorem penPoints_spec (skip : Bool) (g : Glyph) (ps : List Point) (hc : g.cur.isSome = true) :
    (penPoints skip g ps).1.cur.isSome = true ∧ (penPoints skip g ps).1.rest = g.rest ∧
    (skip = true → (penPoints skip g ps).2 = true) := by
  induction ps generalizing g with
  | nil => exact ⟨hc, rfl, fun _ => rfl⟩
  | cons p ps ih =>
    unfold penPoints
    have h1 := penPoint_spec g p skip hc
    split
    · rename_i g1 heq
      rw [heq] at h1
      have h2 := ih g1 h1.1
      exact ⟨h2.1, h2.2.1.trans h1.2.1, h2.2.2⟩
    · rename_i g1 heq
      rw [heq] at h1
      exact ⟨h1.1, h1.2.1, fun hs => by have := h1.2.2 hs; simp at this⟩

theorem penEnd_spec (g : Glyph) (hc : g.cur.isSome = true) :
    (penEnd g).2 = true ∧ (penEnd g).1.cur = none ∧ (penEnd g).1.rest = g.rest := by
  unfold penEnd
  split
  · rename_i h; rw [h] at hc; cases hc
  · have ha := aux_deepen g
    unfold Glyph.aux at ha
    simp only [Prod.mk.injEq] at ha
    refine ⟨rfl, rfl, ?_⟩
    unfold Glyph.rest
    simp [ha]

/-- one contour through a pen that holds none: nothing else is touched; on success the pen holds
none again; with `skipConflictingIdentifiers` it always succeeds -/
theorem penContour_spec (skip : Bool) (g : Glyph) (c : Contour) (hc : g.cur = none) :
    (penContour skip g c).1.rest = g.rest ∧
    ((penContour skip g c).2 = true → (penContour skip g c).1.cur = none) ∧
    (skip = true → (penContour skip g c).2 = true) := by
  unfold penContour penBegin
  rw [dropCur_of_none hc]
  have h1 := penBeginCore_spec g c.id skip
  split
  · rename_i g1 heq
    rw [heq] at h1
    exact ⟨h1.2.1, fun h => by simp at h, fun hs => by have := h1.2.2 hs; simp at this⟩
  · rename_i g1 heq
    rw [heq] at h1
    have h2 := penPoints_spec skip g1 c.pts h1.1
    split
    · rename_i g2 heq2
      rw [heq2] at h2
      exact ⟨h2.2.1.trans h1.2.1, fun h => by simp at h, fun hs => by have := h2.2.2 hs; simp at this⟩
    · rename_i g2 heq2
      rw [heq2] at h2
      have h3 := penEnd_spec g2 h2.1
      exact ⟨h3.2.2.trans (h2.2.1.trans h1.2.1), fun _ => h3.2.1, fun _ => h3.1⟩

theorem penContours_spec (skip : Bool) (g : Glyph) (cs : List Contour) (hc : g.cur = none) :
    (penContours skip g cs).1.rest = g.rest ∧
    ((penContours skip g cs).2 = true → (penContours skip g cs).1.cur = none) ∧
    (skip = true → (penContours skip g cs).2 = true) := by
  induction cs generalizing g with
  | nil => exact ⟨rfl, fun _ => hc, fun _ => rfl⟩
  | cons c cs ih =>
    unfold penContours
    have h1 := penContour_spec skip g c hc
    split
    · rename_i g1 heq
      rw [heq] at h1
      have h2 := ih g1 (h1.2.1 rfl)
      exact ⟨h2.1.trans h1.1, h2.2.1, h2.2.2⟩
    · rename_i g1 heq
      rw [heq] at h1
      exact ⟨h1.1, fun h => by simp at h, fun hs => by have := h1.2.2 hs; simp at this⟩

theorem settled_of_cur_rest {g g' : Glyph} (h : g.Settled) (hc : g'.cur = none) (hr : g'.rest = g.rest) :
    g'.Settled ∧ g'.leaked = g.leaked := by
  obtain ⟨_, h2, h3, h4, h5⟩ := h
  unfold Glyph.rest at hr
  simp only [Prod.mk.injEq] at hr
  exact ⟨⟨hc, hr.1.trans h2, hr.2.1.trans h3, hr.2.2.1.trans h4, hr.2.2.2.1.trans h5⟩, hr.2.2.2.2⟩

theorem settled_of_aux {g g' : Glyph} (h : g.Settled) (ha : g'.aux = g.aux) :
    g'.Settled ∧ g'.leaked = g.leaked := by
  unfold Glyph.aux at ha
  simp only [Prod.mk.injEq] at ha
  exact settled_of_cur_rest h (ha.1.trans h.1) (by unfold Glyph.rest; simp [ha])

/-- drawing an outline into a settled container leaves it settled; a completed drawing leaks nothing -/
theorem drawOutline_spec (g : Glyph) (cs : List Contour) (ks : List Comp) (skip : Bool) (h : g.Settled) :
    (drawOutline g cs ks skip).1.Settled ∧
    ((drawOutline g cs ks skip).2 = .ok → (drawOutline g cs ks skip).1.leaked = g.leaked) := by
  unfold drawOutline
  have h1 := penContours_spec skip g cs h.1
  split
  · exact ⟨settled_abandon _, fun hr => by simp at hr⟩
  · rename_i g1 heq
    rw [heq] at h1
    have hs1 := settled_of_cur_rest h (h1.2.1 rfl) h1.1
    have h2 := aux_penComps skip g1 ks
    split
    · exact ⟨settled_abandon _, fun hr => by simp at hr⟩
    · rename_i g2 heq2
      rw [heq2] at h2
      have hs2 := settled_of_aux hs1.1 h2
      exact ⟨hs2.1, fun _ => hs2.2.trans hs1.2⟩

/-! ### batches of instantiated objects -/

theorem stageGuide_spec (g : Glyph) (v : Option Id) :
    (stageGuide g v).1.cur = g.cur ∧ (stageGuide g v).1.stC = g.stC ∧ (stageGuide g v).1.stK = g.stK ∧
    (stageGuide g v).1.stA = g.stA ∧ (stageGuide g v).1.leaked = g.leaked := by
  unfold stageGuide; split <;> exact ⟨rfl, rfl, rfl, rfl, rfl⟩

theorem stageAnchor_spec (g : Glyph) (v : Option Id) :
    (stageAnchor g v).1.cur = g.cur ∧ (stageAnchor g v).1.stC = g.stC ∧ (stageAnchor g v).1.stK = g.stK ∧
    (stageAnchor g v).1.stG = g.stG ∧ (stageAnchor g v).1.leaked = g.leaked := by
  unfold stageAnchor; split <;> exact ⟨rfl, rfl, rfl, rfl, rfl⟩

theorem stageComp_spec (g : Glyph) (k : Comp) :
    (stageComp g k).1.cur = g.cur ∧ (stageComp g k).1.stC = g.stC ∧ (stageComp g k).1.stA = g.stA ∧
    (stageComp g k).1.stG = g.stG ∧ (stageComp g k).1.leaked = g.leaked := by
  unfold stageComp; split <;> exact ⟨rfl, rfl, rfl, rfl, rfl⟩

/-- a property of containers that a staging step preserves is preserved by the whole batch -/
theorem stageAll_preserves {α : Type} (P : Glyph → Prop) (f : Glyph → α → Glyph × Bool)
    (hf : ∀ g a, P g → P (f g a).1) (g : Glyph) (l : List α) (h : P g) : P (stageAll f g l).1 := by
  induction l generalizing g with
  | nil => exact h
  | cons a l ih =>
    unfold stageAll
    have h1 := hf g a h
    split
    · rename_i g1 heq; rw [heq] at h1; exact ih g1 h1
    · rename_i g1 heq; rw [heq] at h1; exact h1

theorem stageAll_guides (g : Glyph) (vs : List (Option Id)) (l0 : List Id)
    (h : g.cur = none ∧ g.stC = [] ∧ g.stK = [] ∧ g.stA = [] ∧ g.leaked = l0) :
    (stageAll stageGuide g vs).1.cur = none ∧ (stageAll stageGuide g vs).1.stC = [] ∧
    (stageAll stageGuide g vs).1.stK = [] ∧ (stageAll stageGuide g vs).1.stA = [] ∧
    (stageAll stageGuide g vs).1.leaked = l0 :=
  stageAll_preserves (fun g => g.cur = none ∧ g.stC = [] ∧ g.stK = [] ∧ g.stA = [] ∧ g.leaked = l0) stageGuide
    (fun g a hg => by
      have := stageGuide_spec g a
      exact ⟨this.1.trans hg.1, this.2.1.trans hg.2.1, this.2.2.1.trans hg.2.2.1, this.2.2.2.1.trans hg.2.2.2.1,
        this.2.2.2.2.trans hg.2.2.2.2⟩) g vs h

theorem stageAll_anchors (g : Glyph) (vs : List (Option Id)) (l0 : List Id)
    (h : g.cur = none ∧ g.stC = [] ∧ g.stK = [] ∧ g.stG = [] ∧ g.leaked = l0) :
    (stageAll stageAnchor g vs).1.cur = none ∧ (stageAll stageAnchor g vs).1.stC = [] ∧
    (stageAll stageAnchor g vs).1.stK = [] ∧ (stageAll stageAnchor g vs).1.stG = [] ∧
    (stageAll stageAnchor g vs).1.leaked = l0 :=
  stageAll_preserves (fun g => g.cur = none ∧ g.stC = [] ∧ g.stK = [] ∧ g.stG = [] ∧ g.leaked = l0) stageAnchor
    (fun g a hg => by
      have := stageAnchor_spec g a
      exact ⟨this.1.trans hg.1, this.2.1.trans hg.2.1, this.2.2.1.trans hg.2.2.1, this.2.2.2.1.trans hg.2.2.2.1,
        this.2.2.2.2.trans hg.2.2.2.2⟩) g vs h

theorem stageAll_comps (g : Glyph) (ks : List Comp) (l0 : List Id)
    (h : g.cur = none ∧ g.stC = [] ∧ g.stA = [] ∧ g.stG = [] ∧ g.leaked = l0) :
    (stageAll stageComp g ks).1.cur = none ∧ (stageAll stageComp g ks).1.stC = [] ∧
    (stageAll stageComp g ks).1.stA = [] ∧ (stageAll stageComp g ks).1.stG = [] ∧
    (stageAll stageComp g ks).1.leaked = l0 :=
  stageAll_preserves (fun g => g.cur = none ∧ g.stC = [] ∧ g.stA = [] ∧ g.stG = [] ∧ g.leaked = l0) stageComp
    (fun g a hg => by
      have := stageComp_spec g a
      exact ⟨this.1.trans hg.1, this.2.1.trans hg.2.1, this.2.2.1.trans hg.2.2.1, this.2.2.2.1.trans hg.2.2.2.1,
        this.2.2.2.2.trans hg.2.2.2.2⟩) g ks h

theorem commitGuides_spec (g : Glyph) (h : g.cur = none ∧ g.stC = [] ∧ g.stK = [] ∧ g.stA = []) :
    (commitGuides g).1.Settled ∧ ((commitGuides g).2.1 = .ok → (commitGuides g).1.leaked = g.leaked) := by
  unfold commitGuides
  have h1 := aux_clearGuides g.guides.length g
  unfold Glyph.aux at h1
  simp only [Prod.mk.injEq] at h1
  dsimp only
  cases hres : (clearGuides g.guides.length g).2.1 with
  | ok =>
    exact ⟨⟨h1.1.trans h.1, h1.2.1.trans h.2.1, h1.2.2.1.trans h.2.2.1, h1.2.2.2.1.trans h.2.2.2, rfl⟩,
      fun _ => h1.2.2.2.2.2⟩
  | gen v => exact ⟨settled_abandon _, fun hr => by cases hr⟩
  | err e => exact ⟨settled_abandon _, fun hr => by cases hr⟩

theorem commitAnchors_spec (g : Glyph) (h : g.cur = none ∧ g.stC = [] ∧ g.stK = [] ∧ g.stG = []) :
    (commitAnchors g).1.Settled ∧ ((commitAnchors g).2.1 = .ok → (commitAnchors g).1.leaked = g.leaked) := by
  unfold commitAnchors
  have h1 := aux_clearAnchors g.anchors.length g
  unfold Glyph.aux at h1
  simp only [Prod.mk.injEq] at h1
  dsimp only
  cases hres : (clearAnchors g.anchors.length g).2.1 with
  | ok =>
    exact ⟨⟨h1.1.trans h.1, h1.2.1.trans h.2.1, h1.2.2.1.trans h.2.2.1, rfl, h1.2.2.2.2.1.trans h.2.2.2⟩,
      fun _ => h1.2.2.2.2.2⟩
  | gen v => exact ⟨settled_abandon _, fun hr => by cases hr⟩
  | err e => exact ⟨settled_abandon _, fun hr => by cases hr⟩

/-- the fields `stageContour` does not touch -/
def Glyph.rest4 (g : Glyph) : List Comp × List (Option Id) × List (Option Id) × List Id :=
  (g.stK, g.stA, g.stG, g.leaked)

theorem rest4_of_rest {g g' : Glyph} (h : g'.rest = g.rest) : g'.rest4 = g.rest4 := by
  unfold Glyph.rest at h
  simp only [Prod.mk.injEq] at h
  unfold Glyph.rest4
  simp [h]

theorem stageContour_spec (g : Glyph) (c : Contour) (hc : g.cur = none) :
    (stageContour g c).1.rest4 = g.rest4 ∧ ((stageContour g c).2 = true → (stageContour g c).1.cur = none) := by
  unfold stageContour penBegin
  rw [dropCur_of_none hc]
  have h1 := penBeginCore_spec g c.id false
  split
  · rename_i g1 heq
    rw [heq] at h1
    exact ⟨rest4_of_rest h1.2.1, fun h => by simp at h⟩
  · rename_i g1 heq
    rw [heq] at h1
    have h2 := penPoints_spec false g1 c.pts h1.1
    split
    · rename_i g2 heq2
      rw [heq2] at h2
      exact ⟨rest4_of_rest (h2.2.1.trans h1.2.1), fun h => by simp at h⟩
    · rename_i g2 heq2
      rw [heq2] at h2
      split
      · exact ⟨rest4_of_rest (h2.2.1.trans h1.2.1), fun h => by simp at h⟩
      · have h3 : g2.rest4 = g.rest4 := rest4_of_rest (h2.2.1.trans h1.2.1)
        exact ⟨h3, fun _ => rfl⟩

theorem stageAll_contours (g : Glyph) (cs : List Contour) (hc : g.cur = none) :
    (stageAll stageContour g cs).1.rest4 = g.rest4 ∧
    ((stageAll stageContour g cs).2 = true → (stageAll stageContour g cs).1.cur = none) := by
  induction cs generalizing g with
  | nil => exact ⟨rfl, fun _ => hc⟩
  | cons c cs ih =>
    unfold stageAll
    have h1 := stageContour_spec g c hc
    split
    · rename_i g1 heq
      rw [heq] at h1
      have h2 := ih g1 (h1.2 rfl)
      exact ⟨h2.1.trans h1.1, h2.2⟩
    · rename_i g1 heq
      rw [heq] at h1
      exact ⟨h1.1, fun h => by simp at h⟩

/-- `copyDataFromGlyph` into a settled container leaves it settled; a completed copy leaks nothing -/
theorem copyFrom_spec (g src : Glyph) (h : g.Settled) :
    (copyFrom g src).1.Settled ∧ ((copyFrom g src).2.1 = .ok → (copyFrom g src).1.leaked = g.leaked) := by
  unfold copyFrom
  have h1 := stageAll_guides g src.guides g.leaked ⟨h.1, h.2.1, h.2.2.1, h.2.2.2.1, rfl⟩
  split
  · exact ⟨settled_abandon _, fun hr => by simp at hr⟩
  · rename_i g1 heq
    rw [heq] at h1
    have ha := commitGuides_spec g1 ⟨h1.1, h1.2.1, h1.2.2.1, h1.2.2.2.1⟩
    try dsimp only
    split
    · rename_i hok
      have hl := (ha.2 hok).trans h1.2.2.2.2
      have h2 := stageAll_anchors (commitGuides g1).1 src.anchors g.leaked
        ⟨ha.1.1, ha.1.2.1, ha.1.2.2.1, ha.1.2.2.2.2, hl⟩
      split
      · exact ⟨settled_abandon _, fun hr => by simp at hr⟩
      · rename_i g2 heq2
        rw [heq2] at h2
        have hb := commitAnchors_spec g2 ⟨h2.1, h2.2.1, h2.2.2.1, h2.2.2.2.1⟩
        try dsimp only
        split
        · rename_i hok2
          have hl2 := (hb.2 hok2).trans h2.2.2.2.2
          have hd := drawOutline_spec (commitAnchors g2).1 src.contours src.comps false hb.1
          exact ⟨hd.1, fun hr => (hd.2 hr).trans hl2⟩
        · rename_i hne
          exact ⟨hb.1, fun hr => absurd hr (by simpa using hne)⟩
    · rename_i hne
      exact ⟨ha.1, fun hr => absurd hr (by simpa using hne)⟩

theorem deserializeTail_spec (g1 src : Glyph) (rm : Removed) (l0 : List Id)
    (h : g1.cur = none ∧ g1.stC = [] ∧ g1.stA = [] ∧ g1.stG = [] ∧ g1.leaked = l0) :
    (deserializeTail g1 src rm).1.Settled ∧
    ((deserializeTail g1 src rm).2.1 = .ok → (deserializeTail g1 src rm).1.leaked = l0) := by
  unfold deserializeTail
  have h2 := stageAll_comps g1 src.comps l0 h
  try dsimp only
  split
  · exact ⟨settled_abandon _, fun hr => by simp at hr⟩
  · rename_i g2 heq2
    rw [heq2] at h2
    have h3 := stageAll_guides ({ g2 with comps := g2.comps ++ g2.stK, stK := [] } : Glyph) src.guides l0
      ⟨h2.1, h2.2.1, rfl, h2.2.2.1, h2.2.2.2.2⟩
    try dsimp only
    split
    · exact ⟨settled_abandon _, fun hr => by simp at hr⟩
    · rename_i g3 heq3
      rw [heq3] at h3
      have ha := commitGuides_spec g3 ⟨h3.1, h3.2.1, h3.2.2.1, h3.2.2.2.1⟩
      try dsimp only
      split
      · rename_i hok
        have hl := (ha.2 hok).trans h3.2.2.2.2
        have h4 := stageAll_anchors (commitGuides g3).1 src.anchors l0
          ⟨ha.1.1, ha.1.2.1, ha.1.2.2.1, ha.1.2.2.2.2, hl⟩
        split
        · exact ⟨settled_abandon _, fun hr => by simp at hr⟩
        · rename_i g4 heq4
          rw [heq4] at h4
          have hb := commitAnchors_spec g4 ⟨h4.1, h4.2.1, h4.2.2.1, h4.2.2.2.1⟩
          exact ⟨hb.1, fun hr => (hb.2 hr).trans h4.2.2.2.2⟩
      · rename_i hne
        exact ⟨ha.1, fun hr => absurd hr (by simpa using hne)⟩

theorem deserialize_spec (g src : Glyph) (h : g.Settled) :
    (deserialize g src).1.Settled ∧ ((deserialize g src).2.1 = .ok → (deserialize g src).1.leaked = g.leaked) := by
  unfold deserialize
  have hd := settled_of_aux h (aux_deepen g)
  have hc := settled_of_aux hd.1 (aux_clearGlyph (deepen g))
  have hl : (clearGlyph (deepen g)).1.leaked = g.leaked := hc.2.trans hd.2
  try dsimp only
  split
  · split
    · split
      · exact ⟨hc.1, fun hr => by simp at hr⟩
      · exact deserializeTail_spec _ src _ g.leaked ⟨hc.1.1, hc.1.2.1, hc.1.2.2.2.1, hc.1.2.2.2.2, hl⟩
    · have h1 := stageAll_contours (clearGlyph (deepen g)).1 src.contours hc.1.1
      split
      · exact ⟨settled_abandon _, fun hr => by simp at hr⟩
      · rename_i g1 heq
        rw [heq] at h1
        have hcur1 : g1.cur = none := h1.2 rfl
        have hr1 := h1.1
        unfold Glyph.rest4 at hr1
        simp only [Prod.mk.injEq] at hr1
        exact deserializeTail_spec _ src _ g.leaked
          ⟨hcur1, rfl, hr1.2.1.trans hc.1.2.2.2.1, hr1.2.2.1.trans hc.1.2.2.2.2, hr1.2.2.2.trans hl⟩
  · rename_i hne
    exact ⟨hc.1, fun hr => absurd hr (by simpa using hne)⟩

theorem fontDeserialize_spec (g : Glyph) (h : g.Settled) :
    (fontDeserialize g).1.Settled ∧ ((fontDeserialize g).2.1 = .ok → (fontDeserialize g).1.leaked = g.leaked) := by
  unfold fontDeserialize
  have hc := settled_of_aux h (aux_clearGuides g.guides.length g)
  try dsimp only
  split
  · have h1 := stageAll_guides (clearGuides g.guides.length g).1 g.guides g.leaked
      ⟨hc.1.1, hc.1.2.1, hc.1.2.2.1, hc.1.2.2.2.1, hc.2⟩
    split
    · exact ⟨settled_abandon _, fun hr => by simp at hr⟩
    · rename_i g1 heq
      rw [heq] at h1
      have ha := commitGuides_spec g1 ⟨h1.1, h1.2.1, h1.2.2.1, h1.2.2.2.1⟩
      exact ⟨ha.1, fun hr => (ha.2 hr).trans h1.2.2.2.2⟩
  · rename_i hne
    exact ⟨hc.1, fun hr => absurd hr (by simpa using hne)⟩

theorem readInto_spec (g : Glyph) (d : Data) (h : g.Settled) :
    (readInto g d).1.Settled ∧ ((readInto g d).2.1 = .ok → (readInto g d).1.leaked = g.leaked) := by
  unfold readInto
  have ho := drawOutline_spec g d.contours d.comps false h
  try dsimp only
  split
  · rename_i hok
    have hl := ho.2 hok
    have ha : (if d.guides = [] then ((drawOutline g d.contours d.comps false).1, Res.ok, [])
        else setGuides (drawOutline g d.contours d.comps false).1 d.guides).1.Settled ∧
        (if d.guides = [] then ((drawOutline g d.contours d.comps false).1, Res.ok, ([] : List (Option Id)))
        else setGuides (drawOutline g d.contours d.comps false).1 d.guides).1.leaked = g.leaked := by
      split
      · exact ⟨ho.1, hl⟩
      · have := settled_of_aux ho.1 (aux_setGuides (drawOutline g d.contours d.comps false).1 d.guides)
        exact ⟨this.1, this.2.trans hl⟩
    split
    · split
      · exact ⟨ha.1, fun _ => ha.2⟩
      · have := settled_of_aux ha.1 (aux_setAnchors _ d.anchors)
        exact ⟨this.1, fun _ => this.2.trans ha.2⟩
    · rename_i hne
      exact ⟨ha.1, fun hr => absurd hr (by simpa using hne)⟩
  · rename_i hne
    exact ⟨ho.1, fun hr => absurd hr (by simpa using hne)⟩

theorem reload_spec (g : Glyph) (d : Data) (h : g.Settled) :
    (reload g d).1.Settled ∧ ((reload g d).2.1 = .ok → (reload g d).1.leaked = g.leaked) := by
  unfold reload
  have hc := settled_of_aux h (aux_clearGlyph g)
  try dsimp only
  split
  · have hr := readInto_spec (clearGlyph g).1 d hc.1
    exact ⟨hr.1, fun hok => (hr.2 hok).trans hc.2⟩
  · rename_i hne
    exact ⟨hc.1, fun hr => absurd hr (by simpa using hne)⟩

/-- decomposition (the pen skips conflicting identifiers) never abandons anything -/
theorem decompose_spec (ws : List Glyph) (g : Glyph) (i : Nat) (h : g.Settled) :
    (decompose ws g i).1.Settled ∧ (decompose ws g i).1.leaked = g.leaked := by
  unfold decompose
  split
  · exact ⟨h, rfl⟩
  · rename_i k _
    have h1 := penContours_spec true g (flatten ws 4 k.base) h.1
    split
    · rename_i g1 heq
      rw [heq] at h1
      have := h1.2.2 rfl
      simp at this
    · rename_i g1 heq
      rw [heq] at h1
      have hs1 := settled_of_cur_rest h (h1.2.1 rfl) h1.1
      have := settled_of_aux hs1.1 (aux_removeComp g1 i)
      exact ⟨this.1, this.2.trans hs1.2⟩

theorem decomposeAll_spec (ws : List Glyph) (n : Nat) (g : Glyph) (h : g.Settled) :
    (decomposeAll ws n g).1.Settled ∧ (decomposeAll ws n g).1.leaked = g.leaked := by
  induction n generalizing g with
  | zero => exact ⟨h, rfl⟩
  | succ n ih =>
    unfold decomposeAll
    have h1 := decompose_spec ws g 0 h
    split
    · rename_i g1 k heq
      rw [heq] at h1
      have := ih g1 h1.1
      exact ⟨this.1, this.2.trans h1.2⟩
    · rename_i g1 res o _ heq
      rw [heq] at h1
      exact h1

/-! ### the world: settledness and leak-freedom -/

/-- settled, and (when `L` : we care) leak free -/
def Q (L : Prop) (g : Glyph) : Prop := g.Settled ∧ (L → g.leaked = [])

theorem q_empty (L : Prop) : Q L ({} : Glyph) := ⟨⟨rfl, rfl, rfl, rfl, rfl⟩, fun _ => rfl⟩

theorem q_get {L : Prop} {w : World} (h : ∀ g ∈ w.conts, Q L g) (t : Nat) : Q L (w.get t) := by
  unfold World.get
  cases hg : w.conts[t]? with
  | none => exact q_empty L
  | some g => exact h g (List.mem_of_getElem? hg)

theorem q_put {L : Prop} {w : World} (h : ∀ g ∈ w.conts, Q L g) {g : Glyph} (hg : Q L g) (t : Nat) :
    ∀ g' ∈ (w.put t g).conts, Q L g' := by
  intro g' hg'
  simp only [World.put] at hg'
  rcases List.mem_or_eq_of_mem_set hg' with h1 | h1
  · exact h g' h1
  · rw [h1]; exact hg

theorem q_of_aux {L : Prop} {g g' : Glyph} (h : Q L g) (ha : g'.aux = g.aux) : Q L g' := by
  have := settled_of_aux h.1 ha
  exact ⟨this.1, fun l => this.2.trans (h.2 l)⟩

theorem q_on {L : Prop} {w : World} (h : ∀ g ∈ w.conts, Q L g) (t : Nat) (f : Glyph → Glyph × Res)
    (hf : ∀ g, (f g).1.aux = g.aux) : ∀ g' ∈ (w.on t f).1.conts, Q L g' := by
  unfold World.on
  exact q_put h (q_of_aux (q_get h t) (hf _)) t

theorem q_of_spec {L : Prop} {g g' : Glyph} {c : Prop} (h : Q L g)
    (hs : g'.Settled ∧ (c → g'.leaked = g.leaked)) (hc : L → c) : Q L g' :=
  ⟨hs.1, fun l => (hs.2 (hc l)).trans (h.2 l)⟩

theorem aux_of_eq2 {α : Type} {f : Glyph × α} {g1 g : Glyph} {a : α} (heq : f = (g1, a)) (h : f.1.aux = g.aux) :
    g1.aux = g.aux := by subst heq; exact h

theorem aux_of_eq3 {α β : Type} {f : Glyph × α × β} {g1 g : Glyph} {a : α} {b : β}
    (heq : f = (g1, a, b)) (h : f.1.aux = g.aux) : g1.aux = g.aux := by subst heq; exact h

theorem q_stepL (L : Prop) (w : World) (op : Op) (h : ∀ g ∈ w.conts, Q L g)
    (hc : L → Op.inst op = false ∧ (Op.composite op = true → (stepL w op).2 = .ok)) :
    ∀ g ∈ (stepL w op).1.conts, Q L g := by
  cases op with
  | insContour t r c => exact q_on h t _ (fun g => aux_insertContour g _ _)
  | reinsContour t r k =>
    simp only [stepL]
    split
    · exact h
    · split
      · exact h
      · split
        · rename_i heq
          exact q_put h (q_of_aux (q_get h t) (aux_of_eq2 heq (aux_insertContour _ _ _))) t
        · exact h
  | rmContour t r =>
    simp only [stepL]
    split
    · exact h
    · split <;>
        (rename_i heq; exact q_put h (q_of_aux (q_get h t) (aux_of_eq3 heq (aux_removeContour _ _))) t)
  | clearContours t =>
    simp only [stepL]
    exact q_put h (q_of_aux (q_get h t) (aux_clearContours _ _)) t
  | insPoint t rc rp p =>
    simp only [stepL]
    split
    · exact h
    · exact q_on h t _ (fun g => aux_insertPoint g _ _ _)
  | addPoint t rc p =>
    simp only [stepL]
    split
    · exact h
    · exact q_on h t _ (fun g => aux_insertPoint g _ _ _)
  | rmPoint t rc rp =>
    simp only [stepL]
    split
    · exact h
    · split
      · exact h
      · exact q_on h t _ (fun g => aux_removePoint g _ _)
  | clearContour t rc =>
    simp only [stepL]
    split
    · exact h
    · exact q_on h t _ (fun g => aux_clearContour g _)
  | reverse t rc =>
    simp only [stepL]
    split
    · exact h
    · exact q_on h t _ (fun g => aux_reverse g _)
  | rmSegment t rc rs preserve =>
    simp only [stepL]
    split
    · exact h
    · split
      · exact h
      · exact q_on h t _ (fun g => aux_removeSegment g _ _ _)
  | split t rc rs =>
    simp only [stepL]
    split
    · exact h
    · split
      · exact h
      · exact q_on h t _ (fun g => aux_split g _ _)
  | setStart t rc rp =>
    simp only [stepL]
    split
    · exact h
    · split
      · exact h
      · exact q_on h t _ (fun g => aux_setStart g _ _)
  | setContourId t rc v =>
    simp only [stepL]
    split
    · exact h
    · exact q_on h t _ (fun g => aux_setContourId g _ _)
  | genContourId t rc cands =>
    simp only [stepL]
    split
    · exact h
    · exact q_on h t _ (fun g => aux_genContourId g _ _)
  | genPointId t rc rp cands =>
    simp only [stepL]
    split
    · exact h
    · split
      · exact h
      · exact q_on h t _ (fun g => aux_genPointId g _ _ _)
  | insComp t r k => exact q_on h t _ (fun g => aux_insertComp g _ _)
  | reinsComp t r k =>
    simp only [stepL]
    split
    · exact h
    · split
      · exact h
      · split
        · exact h
        · split
          · rename_i heq
            exact q_put h (q_of_aux (q_get h t) (aux_of_eq2 heq (aux_insertComp _ _ _))) t
          · exact h
  | rmComp t r =>
    simp only [stepL]
    split
    · exact h
    · split <;>
        (rename_i heq; exact q_put h (q_of_aux (q_get h t) (aux_of_eq3 heq (aux_removeComp _ _))) t)
  | clearComps t =>
    simp only [stepL]
    exact q_put h (q_of_aux (q_get h t) (aux_clearComps _ _)) t
  | setCompId t r v =>
    simp only [stepL]
    split
    · exact h
    · exact q_on h t _ (fun g => aux_setCompId g _ _)
  | genCompId t r cands =>
    simp only [stepL]
    split
    · exact h
    · exact q_on h t _ (fun g => aux_genCompId g _ _)
  | decompose t r =>
    simp only [stepL]
    split
    · exact h
    · rename_i i _
      have hq := q_get h t
      have hd := decompose_spec w.conts (w.get t) i hq.1
      split <;>
        (rename_i heq; rw [heq] at hd
         exact q_put h (q_of_spec (c := True) hq ⟨hd.1, fun _ => hd.2⟩ (fun _ => trivial)) t)
  | decomposeAll t =>
    simp only [stepL]
    have hq := q_get h t
    have hd := decomposeAll_spec w.conts (w.get t).comps.length (w.get t) hq.1
    exact q_put h (q_of_spec (c := True) hq ⟨hd.1, fun _ => hd.2⟩ (fun _ => trivial)) t
  | insAnchor t r v d => exact q_on h t _ (fun g => aux_insertAnchor g _ _)
  | reinsAnchor t r k =>
    simp only [stepL]
    split
    · exact h
    · split
      · exact h
      · split
        · rename_i heq
          exact q_put h (q_of_aux (q_get h t) (aux_of_eq2 heq (aux_insertAnchor _ _ _))) t
        · exact h
  | rmAnchor t r =>
    simp only [stepL]
    split
    · exact h
    · split <;>
        (rename_i heq; exact q_put h (q_of_aux (q_get h t) (aux_of_eq3 heq (aux_removeAnchor _ _))) t)
  | clearAnchors t =>
    simp only [stepL]
    exact q_put h (q_of_aux (q_get h t) (aux_clearAnchors _ _)) t
  | setAnchorId t r v =>
    simp only [stepL]
    split
    · exact h
    · exact q_on h t _ (fun g => aux_setAnchorId g _ _)
  | genAnchorId t r cands =>
    simp only [stepL]
    split
    · exact h
    · exact q_on h t _ (fun g => aux_genAnchorId g _ _)
  | setAnchors t vs =>
    simp only [stepL]
    exact q_put h (q_of_aux (q_get h t) (aux_setAnchors _ _)) t
  | insGuide t r v d => exact q_on h t _ (fun g => aux_insertGuide g _ _)
  | reinsGuide t r k =>
    simp only [stepL]
    split
    · exact h
    · split
      · exact h
      · split
        · rename_i heq
          exact q_put h (q_of_aux (q_get h t) (aux_of_eq2 heq (aux_insertGuide _ _ _))) t
        · exact h
  | rmGuide t r =>
    simp only [stepL]
    split
    · exact h
    · split <;>
        (rename_i heq; exact q_put h (q_of_aux (q_get h t) (aux_of_eq3 heq (aux_removeGuide _ _))) t)
  | clearGuides t =>
    simp only [stepL]
    exact q_put h (q_of_aux (q_get h t) (aux_clearGuides _ _)) t
  | setGuideId t r v =>
    simp only [stepL]
    split
    · exact h
    · exact q_on h t _ (fun g => aux_setGuideId g _ _)
  | genGuideId t r cands =>
    simp only [stepL]
    split
    · exact h
    · exact q_on h t _ (fun g => aux_genGuideId g _ _)
  | setGuides t vs =>
    simp only [stepL]
    exact q_put h (q_of_aux (q_get h t) (aux_setGuides _ _)) t
  | limboSetId kind k v =>
    simp only [stepL]
    repeat' split
    all_goals exact h
  | limboGenId kind k cands =>
    simp only [stepL]
    repeat' split
    all_goals exact h
  | limboAddPoint k p =>
    simp only [stepL]
    repeat' split
    all_goals exact h
  | clearGlyph t =>
    simp only [stepL]
    exact q_put h (q_of_aux (q_get h t) (aux_clearGlyph _)) t
  | draw t cs ks skip =>
    have hq := q_get h t
    have hd := drawOutline_spec (w.get t) cs ks skip hq.1
    exact q_put h (q_of_spec hq hd (fun l => (hc l).2 rfl)) t
  | drawFrom t src skip =>
    have hq := q_get h t
    have hd := drawOutline_spec (w.get t) (w.get src).contours (w.get src).comps skip hq.1
    exact q_put h (q_of_spec hq hd (fun l => (hc l).2 rfl)) t
  | copyFrom t src =>
    have hq := q_get h t
    have hd := copyFrom_spec (w.get t) (w.get src) hq.1
    exact q_put h (q_of_spec hq hd (fun l => (hc l).2 rfl)) t
  | insertGlyph t src =>
    have hd := copyFrom_spec {} (w.get src) (q_empty L).1
    exact q_put h (q_of_spec (q_empty L) hd (fun l => (hc l).2 rfl)) t
  | roundtrip t =>
    have hq := q_get h t
    have hd := deserialize_spec (w.get t) (w.get t) hq.1
    exact q_put h (q_of_spec hq hd (fun l => (hc l).2 rfl)) t
  | deserializeFrom t src =>
    have hq := q_get h t
    have hd := deserialize_spec (w.get t) (w.get src) hq.1
    exact q_put h (q_of_spec hq hd (fun l => (hc l).2 rfl)) t
  | fontRoundtrip =>
    have hq := q_get h 3
    have hd := fontDeserialize_spec (w.get 3) hq.1
    exact q_put h (q_of_spec hq hd (fun l => (hc l).2 rfl)) 3
  | instAnchor t v =>
    unfold stepL World.on
    refine q_put h ⟨?_, fun l => ?_⟩ t
    · have hq := q_get h t
      have hs := stageAnchor_spec (w.get t) v
      dsimp only
      split
      · exact settled_abandon _
      · rename_i g1 heq
        rw [heq] at hs
        have hu : g1.stA = (w.get t).stA := by
          have : (stageAnchor (w.get t) v).1.stA = (w.get t).stA := by
            unfold stageAnchor; split
            · rfl
            · rename_i r hr; rw [stageAnchor, hr] at heq; cases heq
          rw [heq] at this; exact this
        exact ⟨hs.1.trans hq.1.1, hs.2.1.trans hq.1.2.1, hs.2.2.1.trans hq.1.2.2.1, hu.trans hq.1.2.2.2.1,
          hs.2.2.2.1.trans hq.1.2.2.2.2⟩
    · have := (hc l).1; simp [Op.inst] at this
  | instGuide t v =>
    unfold stepL World.on
    refine q_put h ⟨?_, fun l => ?_⟩ t
    · have hq := q_get h t
      have hs := stageGuide_spec (w.get t) v
      dsimp only
      split
      · exact settled_abandon _
      · rename_i g1 heq
        rw [heq] at hs
        have hu : g1.stG = (w.get t).stG := by
          have : (stageGuide (w.get t) v).1.stG = (w.get t).stG := by
            unfold stageGuide; split
            · rfl
            · rename_i r hr; rw [stageGuide, hr] at heq; cases heq
          rw [heq] at this; exact this
        exact ⟨hs.1.trans hq.1.1, hs.2.1.trans hq.1.2.1, hs.2.2.1.trans hq.1.2.2.1, hs.2.2.2.1.trans hq.1.2.2.2.1,
          hu.trans hq.1.2.2.2.2⟩
    · have := (hc l).1; simp [Op.inst] at this
  | reload t d =>
    have hq := q_get h t
    have hd := reload_spec (w.get t) d hq.1
    exact q_put h (q_of_spec hq hd (fun l => (hc l).2 rfl)) t
  | reopen ds fg thenAnchor =>
    have e0 := readInto_spec {} (ds[0]?.getD {}) (q_empty L).1
    have e1 := readInto_spec {} (ds[1]?.getD {}) (q_empty L).1
    have e2 := readInto_spec {} (ds[2]?.getD {}) (q_empty L).1
    have ef := settled_of_aux (q_empty L).1 (aux_appendGuideDicts {} fg)
    simp only [stepL] at hc ⊢
    split
    · rename_i hbad
      intro g hg
      simp only [List.mem_cons, List.not_mem_nil, or_false] at hg
      refine ⟨?_, fun l => ?_⟩
      · rcases hg with rfl | rfl | rfl | rfl
        · exact e0.1
        · exact e1.1
        · exact e2.1
        · exact ef.1
      · have := (hc l).2 rfl
        simp [hbad] at this
    · rename_i hgood
      simp only [not_or, Classical.not_not] at hgood
      have h1 : ∀ g ∈ ({ w with conts := [markShallow (readInto {} (ds[0]?.getD {})).1,
          markShallow (readInto {} (ds[1]?.getD {})).1, markShallow (readInto {} (ds[2]?.getD {})).1,
          (appendGuideDicts {} fg).1] } : World).conts, Q L g := by
        intro g hg
        simp only [List.mem_cons, List.not_mem_nil, or_false] at hg
        rcases hg with rfl | rfl | rfl | rfl
        · exact ⟨e0.1, fun _ => e0.2 hgood.1⟩
        · exact ⟨e1.1, fun _ => e1.2 hgood.2.1⟩
        · exact ⟨e2.1, fun _ => e2.2 hgood.2.2.1⟩
        · exact ⟨ef.1, fun _ => ef.2⟩
      split
      · exact h1
      · exact q_on h1 _ _ (fun g => aux_insertAnchor g _ _)
  | rmAbsentPoint t rc =>
    simp only [stepL]
    repeat' split
    all_goals exact h
  | rmAbsent kind t k =>
    simp only [stepL]
    repeat' split
    all_goals exact h
  | rmForeign kind t src r =>
    simp only [stepL]
    repeat' split
    all_goals exact h
  | insAnchorBad t r v => exact h
  | insGuideBad t r v => exact h
  | setAnchorsBad t vs =>
    simp only [stepL]
    exact q_put h (q_of_aux (q_get h t) (aux_setAnchors _ _)) t
  | setGuidesBad t vs =>
    simp only [stepL]
    exact q_put h (q_of_aux (q_get h t) (aux_setGuides _ _)) t
  | load t => exact h
  | insertGlyphVia t src =>
    have hd1 := copyFrom_spec {} (w.get src) (q_empty L).1
    have hd := copyFrom_spec {} (copyFrom {} (w.get src)).1 (q_empty L).1
    simp only [stepL] at hc ⊢
    split
    · rename_i hok
      simp only [hok] at hc
      exact q_put h (q_of_spec (q_empty L) hd (fun l => (hc l).2 rfl)) t
    · exact h

theorem q_load {L : Prop} {w : World} (h : ∀ g ∈ w.conts, Q L g) (t : Nat) : ∀ g ∈ (w.load t).conts, Q L g :=
  q_put h (q_of_aux (q_get h t) (aux_deepen _)) t

theorem q_preload {L : Prop} {w : World} (h : ∀ g ∈ w.conts, Q L g) (op : Op) :
    ∀ g ∈ (preload w op).conts, Q L g := by
  unfold preload
  repeat' split
  all_goals first | exact h | exact q_load h _ | exact q_load (q_load h _) _

theorem q_step (L : Prop) (w : World) (op : Op) (h : ∀ g ∈ w.conts, Q L g)
    (hc : L → Op.inst op = false ∧ (Op.composite op = true → (step w op).2 = .ok)) :
    ∀ g ∈ (step w op).1.conts, Q L g :=
  q_stepL L (preload w op) op (q_preload h op) hc

end Ident
end DefconModel
