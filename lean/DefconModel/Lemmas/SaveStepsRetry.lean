import DefconModel.Lemmas.SaveSteps

namespace DefconModel
namespace SaveSteps

/-! ### a failure while the components are being written (in place) -/

theorem runSteps_append (m : Mode) (w : World) (a b : List Step) :
    runSteps m w (a ++ b) = runSteps m (runSteps m w a) b := by
  unfold runSteps; rw [List.foldl_append]

/-- what writing one component in place does: the component reaches the font's own UFO, its flag is cleared -/
theorem exec_writeComp_inPlace (w : World) (i : Nat) :
    (exec .inPlace w (.writeComp i)).font = { w.font with compDirty := setAt w.font.compDirty i false } ∧
    (exec .inPlace w (.writeComp i)).temp = w.temp ∧ (exec .inPlace w (.writeComp i)).aside = w.aside ∧
    (exec .inPlace w (.writeComp i)).gsContents = w.gsContents := by
  simp [exec, target, putTarget]

def clearFlags (cd : List Bool) (l : List Nat) : List Bool := l.foldl (fun cd i => setAt cd i false) cd

theorem runSteps_writeComps (w : World) (l : List Nat) :
    (runSteps .inPlace w (l.map Step.writeComp)).font = { w.font with compDirty := clearFlags w.font.compDirty l } ∧
    (runSteps .inPlace w (l.map Step.writeComp)).temp = w.temp ∧
    (runSteps .inPlace w (l.map Step.writeComp)).aside = w.aside ∧
    (runSteps .inPlace w (l.map Step.writeComp)).gsContents = w.gsContents := by
  induction l generalizing w with
  | nil => simp [runSteps, clearFlags]
  | cons i rest ih =>
    have h := exec_writeComp_inPlace w i
    have := ih (exec .inPlace w (.writeComp i))
    simp only [List.map_cons, runSteps, List.foldl_cons] at this ⊢
    rw [this.1, this.2.1, this.2.2.1, this.2.2.2, h.1, h.2.1, h.2.2.1, h.2.2.2]
    simp [clearFlags]

theorem getD_setAt_false (cd : List Bool) (i j : Nat) :
    (setAt cd i false).getD j false = (cd.getD j false && decide (j ≠ i)) := by
  unfold setAt
  by_cases h : j = i
  · subst h
    by_cases hl : j < cd.length
    · simp [List.getD_eq_getElem?_getD, List.getElem?_set, hl]
    · simp [List.getD_eq_getElem?_getD, List.getElem?_set, hl]
  · have : i ≠ j := fun e => h e.symm
    simp [List.getD_eq_getElem?_getD, List.getElem?_set, this, h]

theorem getD_clearFlags (cd : List Bool) (l : List Nat) (j : Nat) :
    (clearFlags cd l).getD j false = (cd.getD j false && decide (j ∉ l)) := by
  induction l generalizing cd with
  | nil => simp [clearFlags]
  | cons i rest ih =>
    have := ih (setAt cd i false)
    simp only [clearFlags, List.foldl_cons] at this ⊢
    rw [this, getD_setAt_false]
    by_cases h1 : j = i <;> by_cases h2 : j ∈ rest <;> simp [h1, h2]

theorem filter_notMem_take (d : List Nat) (hd : d.Nodup) (k : Nat) :
    d.filter (fun i => decide (i ∉ d.take k)) = d.drop k := by
  induction d generalizing k with
  | nil => simp
  | cons x xs ih =>
    cases k with
    | zero => simp
    | succ k =>
      have hx : x ∉ xs := (List.nodup_cons.mp hd).1
      have hxs : xs.Nodup := (List.nodup_cons.mp hd).2
      simp only [List.take_succ_cons, List.drop_succ_cons, List.filter_cons, List.mem_cons, true_or, not_true_eq_false,
        decide_false, Bool.false_eq_true, if_false]
      rw [← ih hxs k]
      apply List.filter_congr
      intro y hy
      have : y ≠ x := fun e => hx (e ▸ hy)
      simp [this]


/-- the components an in-place save writes: the dirty ones, in order -/
def dirtyComps (f : Font) : List Nat := (List.range f.comps.length).filter (fun i => f.compDirty.getD i false)

/-- … and the glyph phase that follows -/
def glyphPhase (f : Font) : List Step :=
  [Step.openGlyphSet] ++ ((f.glyphs.map Prod.fst).filter (fun g => g ∈ f.glyphDirty)).map Step.writeGlyph ++
    f.scheduled.map Step.deleteGlyph ++ [Step.writeContents] ++ [Step.writeLayerInfo]

theorem plan_inPlace (f : Font) : plan f .inPlace = (dirtyComps f).map Step.writeComp ++ glyphPhase f := by
  simp [plan, isSaveAs, dirtyComps, glyphPhase]

theorem nodup_dirtyComps (f : Font) : (dirtyComps f).Nodup :=
  List.Nodup.sublist List.filter_sublist List.nodup_range

theorem dirtyComps_after (f : Font) (k : Nat) :
    dirtyComps { f with compDirty := clearFlags f.compDirty ((dirtyComps f).take k) } = (dirtyComps f).drop k := by
  have h : ∀ i, (clearFlags f.compDirty ((dirtyComps f).take k)).getD i false =
      (f.compDirty.getD i false && decide (i ∉ (dirtyComps f).take k)) := fun i => getD_clearFlags _ _ i
  have h2 : dirtyComps { f with compDirty := clearFlags f.compDirty ((dirtyComps f).take k) } =
      (dirtyComps f).filter (fun i => decide (i ∉ (dirtyComps f).take k)) := by
    show (List.range f.comps.length).filter _ = ((List.range f.comps.length).filter _).filter _
    rw [List.filter_filter]
    apply List.filter_congr
    intro i _
    rw [h i, Bool.and_comm]
  rw [h2]
  exact filter_notMem_take _ (nodup_dirtyComps f) k

theorem recover_inPlace (w : World) : recover .inPlace w = w := by
  unfold recover; cases w.aside <;> rfl

theorem cleanup_eq (w : World) (h1 : w.temp = none) (h2 : w.aside = none) (h3 : w.gsContents = []) : cleanup w = w := by
  cases w; simp_all [cleanup]

end SaveSteps
end DefconModel
