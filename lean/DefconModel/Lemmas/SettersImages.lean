/-
C08 helper lemmas for the image set's life cycle: sets of names as duplicate-free lists under `sinsertL` /
`removeL`, the invariant of `Spec/SettersImages.lean` along every history, and the announcements of each
transition, by running the interpreter symbolically.
-/
import DefconModel.Lemmas.Setters
import DefconModel.Spec.SettersImages

namespace DefconModel
namespace Setters

/-! ### duplicate-free lists as sets -/

theorem mem_sinsertL (xs : List Int) (x y : Int) : y ∈ sinsertL xs x ↔ y = x ∨ y ∈ xs := by
  induction xs with
  | nil => simp [sinsertL]
  | cons a as ih =>
    simp only [sinsertL]
    split
    · simp
    · split
      · rename_i h; subst h; simp
      · simp only [List.mem_cons, ih]
        constructor
        · rintro (h | h | h) <;> simp [h]
        · rintro (h | h | h) <;> simp [h]

theorem nodup_sinsertL (xs : List Int) (x : Int) (hx : x ∉ xs) (h : xs.Nodup) : (sinsertL xs x).Nodup := by
  induction xs with
  | nil => simp [sinsertL]
  | cons a as ih =>
    simp only [List.mem_cons, not_or] at hx
    simp only [List.nodup_cons] at h
    simp only [sinsertL]
    split
    · simp [hx.1, hx.2, h.1, h.2]
    · split
      · rename_i h'; exact absurd h' hx.1
      · simp only [List.nodup_cons, mem_sinsertL, not_or]
        exact ⟨⟨fun e => hx.1 e.symm, h.1⟩, ih hx.2 h.2⟩

theorem mem_removeL_ne (xs : List Int) (x y : Int) (h : y ≠ x) : y ∈ removeL xs x ↔ y ∈ xs := by
  induction xs with
  | nil => simp [removeL]
  | cons a as ih =>
    simp only [removeL]
    split
    · rename_i e; subst e; simp [h]
    · simp [ih]

theorem mem_of_mem_removeL (xs : List Int) (x y : Int) (h : y ∈ removeL xs x) : y ∈ xs := by
  induction xs with
  | nil => simp [removeL] at h
  | cons a as ih =>
    simp only [removeL] at h
    split at h
    · exact List.mem_cons_of_mem _ h
    · rcases List.mem_cons.mp h with h | h
      · simp [h]
      · exact List.mem_cons_of_mem _ (ih h)

theorem not_mem_removeL_self (xs : List Int) (x : Int) (h : xs.Nodup) : x ∉ removeL xs x := by
  induction xs with
  | nil => simp [removeL]
  | cons a as ih =>
    simp only [List.nodup_cons] at h
    simp only [removeL]
    split
    · rename_i e; subst e; exact h.1
    · rename_i e
      simp only [List.mem_cons, not_or]
      exact ⟨fun e' => e e'.symm, ih h.2⟩

theorem nodup_removeL (xs : List Int) (x : Int) (h : xs.Nodup) : (removeL xs x).Nodup := by
  induction xs with
  | nil => simp [removeL]
  | cons a as ih =>
    simp only [List.nodup_cons] at h
    simp only [removeL]
    split
    · exact h.2
    · simp only [List.nodup_cons]
      exact ⟨fun hm => h.1 (mem_of_mem_removeL _ _ _ hm), ih h.2⟩

theorem removeL_of_not_mem (xs : List Int) (x : Int) (h : x ∉ xs) : removeL xs x = xs := by
  induction xs with
  | nil => rfl
  | cons a as ih =>
    simp only [List.mem_cons, not_or] at h
    simp only [removeL]
    split
    · rename_i e; exact absurd e.symm h.1
    · rw [ih h.2]

/-! ### the transitions, by symbolic execution of the catalogue entries -/

macro "img_run" : tactic => `(tactic| (
  simp only [ImgStepOk, imgStep, runOp, imageSetSetItem, imageSetDelItem, run_A]
  simp only [runAtoms, List.foldl, stepA, init]))

theorem set_present_same (σ : Store) (ns ss : List Int) (hn : getF σ "names" = .list ns) (hs : getF σ "sched" = .list ss)
    (hdis : ∀ m, m ∈ ns → m ∉ ss) (n : Int) (hmem : n ∈ ns) :
    ImgStepOk σ (.set n true) (imgStep σ (.set n true)) := by
  have hns : n ∉ ss := hdis n hmem
  img_run
  simp [stepAtom, eval, hn, hs, truthy, b2v, setVar, hmem, hns, imgHas, imgScheduled, namesOf, announced]

theorem set_present_other (σ : Store) (ns ss : List Int) (hn : getF σ "names" = .list ns) (hs : getF σ "sched" = .list ss)
    (hnd : ns.Nodup) (hdis : ∀ m, m ∈ ns → m ∉ ss) (n : Int) (hmem : n ∈ ns) :
    ImgStepOk σ (.set n false) (imgStep σ (.set n false)) := by
  have hns : n ∉ ss := hdis n hmem
  have h1 : n ∉ removeL ns n := not_mem_removeL_self ns n hnd
  img_run
  simp [stepAtom, eval, hn, hs, truthy, b2v, setVar, getF_set, hmem, hns, imgHas, imgScheduled, namesOf, announced,
    postNote, deliver, Ev.now, mem_sinsertL, h1]
  intro m hm
  simp [mem_removeL_ne _ _ _ hm, hm]

theorem set_sched (σ : Store) (ns ss : List Int) (hn : getF σ "names" = .list ns) (hs : getF σ "sched" = .list ss)
    (hnd : ns.Nodup) (hsd : ss.Nodup) (n : Int) (hmem : n ∉ ns) (hsm : n ∈ ss) (same : Bool) :
    ImgStepOk σ (.set n same) (imgStep σ (.set n same)) := by
  have h1 : n ∉ removeL ss n := not_mem_removeL_self ss n hsd
  have h2 : n ∉ removeL (sinsertL ns n) n := not_mem_removeL_self _ n (nodup_sinsertL ns n hmem hnd)
  img_run
  cases same <;>
  · simp [stepAtom, eval, hn, hs, truthy, b2v, setVar, getF_set, hmem, hsm, imgHas, imgScheduled, namesOf, announced,
      postNote, deliver, Ev.now, mem_sinsertL, h1, h2]
    intro m hm
    simp [mem_removeL_ne _ _ _ hm, hm, mem_sinsertL]

theorem set_absent (σ : Store) (ns ss : List Int) (hn : getF σ "names" = .list ns) (hs : getF σ "sched" = .list ss)
    (n : Int) (hmem : n ∉ ns) (hsm : n ∉ ss) (same : Bool) :
    ImgStepOk σ (.set n same) (imgStep σ (.set n same)) := by
  img_run
  cases same <;>
  · simp [stepAtom, eval, hn, hs, truthy, b2v, setVar, getF_set, hmem, hsm, imgHas, imgScheduled, namesOf, announced,
      postNote, deliver, Ev.now, mem_sinsertL]
    intro m hm
    simp [hm]

theorem del_present (σ : Store) (ns ss : List Int) (hn : getF σ "names" = .list ns) (hs : getF σ "sched" = .list ss)
    (hnd : ns.Nodup) (n : Int) (hmem : n ∈ ns) :
    ImgStepOk σ (.del n) (imgStep σ (.del n)) := by
  have h1 : n ∉ removeL ns n := not_mem_removeL_self ns n hnd
  img_run
  simp [stepAtom, eval, hn, hs, truthy, b2v, setVar, getF_set, hmem, imgHas, imgScheduled, namesOf, announced,
    postNote, deliver, Ev.now, mem_sinsertL, h1]
  intro m hm
  simp [mem_removeL_ne _ _ _ hm, hm]

theorem del_absent (σ : Store) (ns : List Int) (hn : getF σ "names" = .list ns) (n : Int) (hmem : n ∉ ns) :
    ImgStepOk σ (.del n) (imgStep σ (.del n)) := by
  img_run
  simp [stepAtom, eval, hn, truthy, b2v, hmem, imgHas, namesOf]

theorem save_ok (σ : Store) : ImgStepOk σ .save (imgStep σ .save) := by
  simp [ImgStepOk, imgStep, init, imgHas, imgScheduled, namesOf, getF_set]

theorem wf_of (σ : Store) (ns ss : List Int) (hn : getF σ "names" = .list ns) (hs : getF σ "sched" = .list ss)
    (hnd : ns.Nodup) (hsd : ss.Nodup) (hdis : ∀ m, m ∈ ns → m ∉ ss) : ImgWF σ :=
  ⟨⟨ns, hn, hnd⟩, ⟨ss, hs, hsd⟩, fun m hm => by
    simp only [imgHas, namesOf, hn, List.contains_eq_mem, decide_eq_true_eq] at hm
    simp [imgScheduled, namesOf, hs, hdis m hm]⟩

/-- the state after a step, for the invariant -/
theorem wf_step (σ : Store) (h : ImgWF σ) (op : ImgOp) : ImgWF (imgStep σ op).store := by
  obtain ⟨ns, hn, hnd⟩ := h.names
  obtain ⟨ss, hs, hsd⟩ := h.sched
  have hdis : ∀ m, m ∈ ns → m ∉ ss := by
    intro m hm
    have := h.disjoint m (by simp [imgHas, namesOf, hn, hm])
    simpa [imgScheduled, namesOf, hs] using this
  cases op with
  | save =>
    refine ⟨⟨ns, by simp [imgStep, init, getF_set, hn], hnd⟩, ⟨[], by simp [imgStep, init, getF_set], by simp⟩, ?_⟩
    intro m _; simp [imgStep, init, imgScheduled, namesOf, getF_set]
  | del n =>
    by_cases hmem : n ∈ ns
    · have h1 : n ∉ removeL ns n := not_mem_removeL_self ns n hnd
      have e : (imgStep σ (.del n)).store =
          AL.set (AL.set σ "names" (.list (removeL ns n))) "sched" (.list (sinsertL ss n)) := by
        img_run
        simp [stepAtom, eval, hn, hs, truthy, b2v, getF_set, hmem, postNote, deliver]
      rw [e]
      refine ⟨⟨removeL ns n, by simp [getF_set], nodup_removeL _ _ hnd⟩,
        ⟨sinsertL ss n, by simp [getF_set], nodup_sinsertL _ _ (hdis n hmem) hsd⟩, ?_⟩
      intro m
      simp only [imgHas, imgScheduled, namesOf, getF_set]
      simp
      intro hm
      have hm' := mem_of_mem_removeL _ _ _ hm
      have hne : m ≠ n := fun e => h1 (e ▸ hm)
      simp [mem_sinsertL, hne, hdis m hm']
    · have e : (imgStep σ (.del n)).store = σ := by
        img_run
        simp [stepAtom, eval, hn, truthy, b2v, hmem]
      rw [e]; exact h
  | set n same =>
    by_cases hmem : n ∈ ns
    · have hns : n ∉ ss := hdis n hmem
      have h1 : n ∉ removeL ns n := not_mem_removeL_self ns n hnd
      cases same
      · have e1 : getF (imgStep σ (.set n false)).store "names" = .list (sinsertL (removeL ns n) n) := by
          img_run
          simp [stepAtom, eval, hn, hs, truthy, b2v, setVar, getF_set, hmem, hns, postNote, deliver]
        have e2 : getF (imgStep σ (.set n false)).store "sched" = .list ss := by
          img_run
          simp [stepAtom, eval, hn, hs, truthy, b2v, setVar, getF_set, hmem, hns, postNote, deliver]
        refine wf_of _ _ _ e1 e2 (nodup_sinsertL _ _ h1 (nodup_removeL _ _ hnd)) hsd ?_
        intro m hm
        rcases (mem_sinsertL _ _ _).mp hm with rfl | hm
        · exact hns
        · exact hdis m (mem_of_mem_removeL _ _ _ hm)
      · have e : (imgStep σ (.set n true)).store = σ := by
          img_run
          simp [stepAtom, eval, hn, hs, truthy, b2v, setVar, hmem, hns]
        rw [e]; exact h
    · by_cases hsm : n ∈ ss
      · have h1 : n ∉ removeL ss n := not_mem_removeL_self ss n hsd
        have h2 : n ∉ removeL (sinsertL ns n) n := not_mem_removeL_self _ n (nodup_sinsertL ns n hmem hnd)
        have e1 : getF (imgStep σ (.set n same)).store "names" = .list (sinsertL (removeL (sinsertL ns n) n) n) := by
          img_run
          cases same <;>
            simp [stepAtom, eval, hn, hs, truthy, b2v, setVar, getF_set, hmem, hsm, postNote, deliver, mem_sinsertL]
        have e2 : getF (imgStep σ (.set n same)).store "sched" = .list (removeL ss n) := by
          img_run
          cases same <;>
            simp [stepAtom, eval, hn, hs, truthy, b2v, setVar, getF_set, hmem, hsm, postNote, deliver, mem_sinsertL]
        refine wf_of _ _ _ e1 e2 (nodup_sinsertL _ _ h2 (nodup_removeL _ _ (nodup_sinsertL ns n hmem hnd)))
          (nodup_removeL _ _ hsd) ?_
        intro m hm
        rcases (mem_sinsertL _ _ _).mp hm with rfl | hm
        · exact h1
        · have hm2 := mem_of_mem_removeL _ _ _ hm
          rcases (mem_sinsertL _ _ _).mp hm2 with rfl | hm3
          · exact h1
          · exact fun hx => hdis m hm3 (mem_of_mem_removeL _ _ _ hx)
      · have e1 : getF (imgStep σ (.set n same)).store "names" = .list (sinsertL ns n) := by
          img_run
          cases same <;>
            simp [stepAtom, eval, hn, hs, truthy, b2v, setVar, getF_set, hmem, hsm, postNote, deliver]
        have e2 : getF (imgStep σ (.set n same)).store "sched" = .list ss := by
          img_run
          cases same <;>
            simp [stepAtom, eval, hn, hs, truthy, b2v, setVar, getF_set, hmem, hsm, postNote, deliver]
        refine wf_of _ _ _ e1 e2 (nodup_sinsertL _ _ hmem hnd) hsd ?_
        intro m hm
        rcases (mem_sinsertL _ _ _).mp hm with rfl | hm
        · exact hsm
        · exact hdis m hm

/-- every transition from a well-formed image set announces what `Spec/SettersImages.lean` documents -/
theorem imgStep_ok (σ : Store) (h : ImgWF σ) (op : ImgOp) : ImgStepOk σ op (imgStep σ op) := by
  obtain ⟨ns, hn, hnd⟩ := h.names
  obtain ⟨ss, hs, hsd⟩ := h.sched
  have hdis : ∀ m, m ∈ ns → m ∉ ss := by
    intro m hm
    have := h.disjoint m (by simp [imgHas, namesOf, hn, hm])
    simpa [imgScheduled, namesOf, hs] using this
  cases op with
  | save => exact save_ok σ
  | del n =>
    by_cases hmem : n ∈ ns
    · exact del_present σ ns ss hn hs hnd n hmem
    · exact del_absent σ ns hn n hmem
  | set n same =>
    by_cases hmem : n ∈ ns
    · cases same
      · exact set_present_other σ ns ss hn hs hnd hdis n hmem
      · exact set_present_same σ ns ss hn hs hdis n hmem
    · by_cases hsm : n ∈ ss
      · exact set_sched σ ns ss hn hs hnd hsd n hmem hsm same
      · exact set_absent σ ns ss hn hs n hmem hsm same

theorem wf_empty : ImgWF imgEmpty :=
  wf_of imgEmpty [] [] rfl rfl List.nodup_nil List.nodup_nil (by simp)

theorem wf_run (σ : Store) (h : ImgWF σ) (ops : List ImgOp) : ImgWF (imgRun σ ops) := by
  induction ops generalizing σ with
  | nil => exact h
  | cons op ops ih => exact ih _ (wf_step σ h op)

end Setters
end DefconModel
