/-
Helper lemmas about M-Replace.
-/
import DefconModel.Spec.Replace

namespace DefconModel
namespace Replace

/-- putting an existing destination aside (nothing is in the aside directory yet) -/
theorem move_aside (old new : Node) :
    move (start old new) .dest .aside = some { dest := none, temp := some new, aside := some old } := by
  simp [move, start, FS.get, FS.set]

/-- a failing move-in leaves the new UFO in its temporary directory and what was put aside where it
is; only the destination may have received something -/
theorem moveIn_fault (old new : Node) (f : Fault) (h1 : f ≠ .none) (h2 : f ≠ .asideRaises) :
    ∃ x : Option Node, moveIn { dest := none, temp := some new, aside := some old } f =
      ({ dest := x, temp := some new, aside := some old }, false) := by
  cases f with
  | none => exact absurd rfl h1
  | asideRaises => exact absurd rfl h2
  | moveInRaises => exact ⟨none, rfl⟩
  | moveInTorn part => exact ⟨some { kind := new.kind, blob := part }, rfl⟩
  | moveInCopied => exact ⟨some new, rfl⟩

/-- without a fault the new UFO changes place -/
theorem moveIn_ok (a : Option Node) (new : Node) :
    moveIn { dest := none, temp := some new, aside := a } .none = ({ dest := some new, temp := none, aside := a }, true) := by
  simp [moveIn, move, FS.get, FS.set]

/-- putting the destination back onto an empty place -/
theorem move_back (t : Option Node) (old : Node) :
    move { dest := none, temp := t, aside := some old } .aside .dest = some { dest := some old, temp := t, aside := none } := by
  simp [move, FS.get, FS.set]

/-- what `Font.save` does — `rmtree` for a directory, `os.remove` for anything else that exists —
empties the destination whatever is there, without raising -/
theorem removeArrived_ok : CleanOK removeArrived := by
  intro fs
  obtain ⟨d, t, a⟩ := fs
  cases d with
  | none => exact ⟨⟨none, t, a⟩, by simp [removeArrived, isDir, lexists, FS.get], rfl, rfl, rfl⟩
  | some n =>
    obtain ⟨k, b, i⟩ := n
    cases k with
    | dir => exact ⟨⟨none, t, a⟩, by simp [removeArrived, isDir, rmtreeIgnore, FS.get, FS.set], rfl, rfl, rfl⟩
    | file => exact ⟨⟨none, t, a⟩, by simp [removeArrived, isDir, lexists, osRemove, FS.get, FS.set], rfl, rfl, rfl⟩

end Replace
end DefconModel
