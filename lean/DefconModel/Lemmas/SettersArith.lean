/-
C08 helper lemmas for the entries outside the syntactic criteria: the four margin setters (integer
arithmetic), `Image.transformation=` (six fields reassembled), the bottom-margin setter's will/did and
`ImageSet.__setitem__`'s will/did — proved entry by entry by running the interpreter symbolically on
stores that are typed the way the implementation's are.
-/
import DefconModel.Lemmas.Setters

namespace DefconModel
namespace Setters

/-- the glyph has an outline: integer bounds, width and height; the vertical origin is absent or an
integer; the setter is handed an integer -/
structure MarginTyped (env : Env) (σ : Store) : Prop where
  xMin : ∃ v, getF σ "xMin" = .int v
  yMin : ∃ v, getF σ "yMin" = .int v
  xMax : ∃ v, getF σ "xMax" = .int v
  yMax : ∃ v, getF σ "yMax" = .int v
  width : ∃ v, getF σ "_width" = .int v
  height : ∃ v, getF σ "_height" = .int v
  vo : getF σ "vo" = .none ∨ ∃ v, getF σ "vo" = .int v
  arg : ∃ a, env.args = [.int a]

/-- a glyph without outline: `bounds` is `None`, every margin setter returns at once -/
def NoBounds (σ : Store) : Prop := getF σ "xMin" = .none

macro "truthful_ev" : tactic => `(tactic| (
  refine ⟨?_, ?_⟩
  · intro o ho; simp only [Option.some.injEq] at ho; subst ho
    simp [Ev.before, eval, truthy, b2v, *]
  · intro hk n hn
    first
      | exact absurd rfl hk
      | (simp only [Option.some.injEq] at hn; subst hn; simp [Ev.now, eval, getF_set, truthy, b2v, *]; try omega)))

theorem leftMargin_truth (env : Env) (σ : Store) (h : MarginTyped env σ ∨ NoBounds σ) :
    ∀ ev ∈ (runOp glyphLeftMargin env σ).evs, ev.Truthful env σ := by
  intro ev hev
  simp only [runOp, glyphLeftMargin, run_A, nestedWidth, List.cons_append, List.nil_append] at hev
  simp only [runAtoms, List.foldl, stepA, init] at hev
  rcases h with h | h
  · obtain ⟨x, h1⟩ := h.xMin
    obtain ⟨xm, h2⟩ := h.xMax
    obtain ⟨w, h3⟩ := h.width
    obtain ⟨a, ha⟩ := h.arg
    by_cases hax : a = x
    · simp [stepAtom, eval, h1, h2, h3, ha, notNone, ne, truthy, b2v, setVar, getF_set, leftMarginG, hax] at hev
    · have hw : ¬ (w = w + (a - x)) := by omega
      have hxa : ¬ (x = a) := fun h => hax h.symm
      simp [stepAtom, eval, h1, h2, h3, ha, notNone, ne, truthy, b2v, setVar, getF_set, leftMarginG, hax, hw, hxa,
        postNote, deliver] at hev
      rcases hev with rfl | rfl | rfl <;> truthful_ev
  · simp [stepAtom, eval, NoBounds] at h
    simp [stepAtom, eval, h, notNone, truthy, b2v] at hev

theorem rightMargin_truth (env : Env) (σ : Store) (h : MarginTyped env σ ∨ NoBounds σ) :
    ∀ ev ∈ (runOp glyphRightMargin env σ).evs, ev.Truthful env σ := by
  intro ev hev
  simp only [runOp, glyphRightMargin, run_A, nestedWidth, List.cons_append, List.nil_append] at hev
  simp only [runAtoms, List.foldl, stepA, init] at hev
  rcases h with h | h
  · obtain ⟨x, h1⟩ := h.xMin
    obtain ⟨xm, h2⟩ := h.xMax
    obtain ⟨w, h3⟩ := h.width
    obtain ⟨a, ha⟩ := h.arg
    by_cases hax : w - xm = a
    · simp [stepAtom, eval, h1, h2, h3, ha, notNone, ne, truthy, b2v, setVar, getF_set, rightMarginG, hax] at hev
    · have hw : ¬ (w = xm + a) := by omega
      simp [stepAtom, eval, h1, h2, h3, ha, notNone, ne, truthy, b2v, setVar, getF_set, rightMarginG, hax, hw,
        postNote, deliver] at hev
      rcases hev with rfl | rfl | rfl <;> truthful_ev
  · simp [NoBounds] at h
    simp [stepAtom, eval, h, notNone, truthy, b2v] at hev

theorem topMargin_truth (env : Env) (σ : Store) (h : MarginTyped env σ ∨ NoBounds σ) :
    ∀ ev ∈ (runOp glyphTopMargin env σ).evs, ev.Truthful env σ := by
  intro ev hev
  simp only [runOp, glyphTopMargin, run_A, nestedVO, nestedHeight, List.cons_append, List.nil_append] at hev
  simp only [runAtoms, List.foldl, stepA, init] at hev
  rcases h with hm | h
  · obtain ⟨x, h1⟩ := hm.xMin
    obtain ⟨ym, h2⟩ := hm.yMax
    obtain ⟨h, h3⟩ := hm.height
    obtain ⟨a, ha⟩ := hm.arg
    rcases hm.vo with hvo | ⟨v, hvo⟩
    · by_cases hax : h - ym = a
      · simp [stepAtom, eval, h1, h2, h3, hvo, ha, notNone, ne, truthy, b2v, setVar, getF_set, topMarginG, hax] at hev
      · have hw : ¬ (h = h + (a - (h - ym))) := by omega
        simp [stepAtom, eval, h1, h2, h3, hvo, ha, notNone, ne, truthy, b2v, setVar, getF_set, topMarginG, hax, hw,
          postNote, deliver] at hev
        rcases hev with rfl | rfl | rfl | rfl <;> truthful_ev
    · by_cases hax : v - ym = a
      · simp [stepAtom, eval, h1, h2, h3, hvo, ha, notNone, ne, truthy, b2v, setVar, getF_set, topMarginG, hax] at hev
      · have hw : ¬ (h = h + (a - (v - ym))) := by omega
        have hv : ¬ (ym + a = v) := by omega
        simp [stepAtom, eval, h1, h2, h3, hvo, ha, notNone, ne, truthy, b2v, setVar, getF_set, topMarginG, hax, hw, hv,
          postNote, deliver] at hev
        rcases hev with rfl | rfl | rfl | rfl <;> truthful_ev
  · simp [NoBounds] at h
    simp [stepAtom, eval, h, notNone, truthy, b2v] at hev


theorem bottomMargin_truth (env : Env) (σ : Store) (hh : MarginTyped env σ ∨ NoBounds σ) :
    ∀ ev ∈ (runOp glyphBottomMargin env σ).evs, ev.Truthful env σ := by
  intro ev hev
  simp only [runOp, glyphBottomMargin, run_A, nestedVO, nestedHeight, List.cons_append, List.nil_append, List.map] at hev
  simp only [runAtoms, List.foldl, stepA, init] at hev
  rcases hh with hm | hnb
  · obtain ⟨x, h1⟩ := hm.xMin
    obtain ⟨y, h2⟩ := hm.yMin
    obtain ⟨h, h3⟩ := hm.height
    obtain ⟨a, ha⟩ := hm.arg
    rcases hm.vo with hvo | ⟨v, hvo⟩
    · by_cases hax : a = y
      · simp [stepAtom, eval, h1, h2, h3, hvo, ha, notNone, ne, truthy, b2v, setVar, getF_set, bottomMarginG, hax,
          postNote, deliver] at hev
        subst hev; truthful_ev
      · have hw : ¬ (h = h + (a - y)) := by omega
        simp [stepAtom, eval, h1, h2, h3, hvo, ha, notNone, ne, truthy, b2v, setVar, getF_set, bottomMarginG, hax, hw,
          postNote, deliver] at hev
        rcases hev with rfl | rfl | rfl | rfl <;> truthful_ev
    · by_cases hax : a = y - (v - h)
      · simp [stepAtom, eval, h1, h2, h3, hvo, ha, notNone, ne, truthy, b2v, setVar, getF_set, bottomMarginG, hax,
          postNote, deliver] at hev
      · have hw : ¬ (h = h + (a - (y - (v - h)))) := by omega
        simp [stepAtom, eval, h1, h2, h3, hvo, ha, notNone, ne, truthy, b2v, setVar, getF_set, bottomMarginG, hax, hw,
          postNote, deliver] at hev
        rcases hev with rfl | rfl | rfl <;> truthful_ev
  · simp [NoBounds] at hnb
    simp [stepAtom, eval, hnb, notNone, truthy, b2v] at hev

/-- the image holds six integer transformation fields and the setter is handed six integers -/
structure TransformationTyped (env : Env) (σ : Store) : Prop where
  xScale : ∃ v, getF σ "xScale" = .int v
  xyScale : ∃ v, getF σ "xyScale" = .int v
  yxScale : ∃ v, getF σ "yxScale" = .int v
  yScale : ∃ v, getF σ "yScale" = .int v
  xOffset : ∃ v, getF σ "xOffset" = .int v
  yOffset : ∃ v, getF σ "yOffset" = .int v
  arg : ∃ a b c d e f, env.args = [.list [a, b, c, d, e, f]]

theorem transformation_truth (env : Env) (σ : Store) (h : TransformationTyped env σ) :
    ∀ ev ∈ (runOp imageTransformation env σ).evs, ev.Truthful env σ := by
  intro ev hev
  obtain ⟨v0, h0⟩ := h.xScale
  obtain ⟨v1, h1⟩ := h.xyScale
  obtain ⟨v2, h2⟩ := h.yxScale
  obtain ⟨v3, h3⟩ := h.yScale
  obtain ⟨v4, h4⟩ := h.xOffset
  obtain ⟨v5, h5⟩ := h.yOffset
  obtain ⟨a, b, c, d, e, f, ha⟩ := h.arg
  simp only [runOp, imageTransformation, run_A] at hev
  simp only [runAtoms, List.foldl, stepA, init] at hev
  by_cases heq : ([v0, v1, v2, v3, v4, v5] : List Int) = [a, b, c, d, e, f]
  · simp [stepAtom, eval, h0, h1, h2, h3, h4, h5, ha, ne, truthy, b2v, setVar, imageTransformationG, heq] at hev
  · simp [stepAtom, eval, h0, h1, h2, h3, h4, h5, ha, ne, truthy, b2v, setVar, imageTransformationG, heq,
      postNote, deliver, releaseSt, getF_set] at hev
    subst hev; truthful_ev


/-- if a list of deliveries is `a ++ w :: b` with no will in `a` and `b`, a will found anywhere is `w` -/
theorem will_unique_split {a b pre post : List Ev} {w ev : Ev}
    (h : a ++ w :: b = pre ++ ev :: post) (hk : ev.kind = .will)
    (ha : ∀ x ∈ a, x.kind ≠ .will) (hb : ∀ x ∈ b, x.kind ≠ .will) :
    pre = a ∧ ev = w ∧ post = b := by
  induction a generalizing pre with
  | nil =>
    obtain ⟨h1, h2, h3⟩ := will_is_head (by simpa using h) hk hb
    exact ⟨h1, h2, h3⟩
  | cons x xs ih =>
    cases pre with
    | nil =>
      simp only [List.cons_append, List.nil_append, List.cons.injEq] at h
      exact absurd (h.1 ▸ hk) (ha x (by simp))
    | cons p ps =>
      simp only [List.cons_append, List.cons.injEq] at h
      obtain ⟨h1, h2, h3⟩ := ih h.2 (fun y hy => ha y (by simp [hy]))
      exact ⟨by rw [h.1, h1], h2, h3⟩


/-- the bottom-margin setter creates the vertical origin BEFORE its will — and still its will is
delivered while `bottomMargin` returns the old value, and its did when it returns the final one -/
theorem bottomMargin_willDid (env : Env) (σ : Store) (hh : MarginTyped env σ ∨ NoBounds σ) :
    WillDidRun env σ (runOp glyphBottomMargin env σ) := by
  rcases hh with hm | hnb
  · obtain ⟨x, h1⟩ := hm.xMin
    obtain ⟨y, h2⟩ := hm.yMin
    obtain ⟨h, h3⟩ := hm.height
    obtain ⟨a, ha⟩ := hm.arg
    have hvo := hm.vo
    clear hm
    revert hvo
    intro hvo
    intro pre ev post hsplit hk
    generalize hS : (runOp glyphBottomMargin env σ).store = S
    generalize hE : (runOp glyphBottomMargin env σ).evs = E at hsplit
    simp only [runOp, glyphBottomMargin, run_A, nestedVO, nestedHeight, List.cons_append, List.nil_append, List.map] at hE hS
    simp only [runAtoms, List.foldl, stepA, init] at hE hS
    rcases hvo with hvo | ⟨v, hvo⟩
    · by_cases hax : a = y
      · simp [stepAtom, eval, h1, h2, h3, hvo, ha, notNone, ne, truthy, b2v, setVar, getF_set, bottomMarginG, hax,
          postNote, deliver] at hE
        subst hE
        have := will_is_head (rest := []) hsplit hk (by simp)
        obtain ⟨_, rfl, _⟩ := this
        simp at hk
      · have hw : ¬ (h = h + (a - y)) := by omega
        simp [stepAtom, eval, h1, h2, h3, hvo, ha, notNone, ne, truthy, b2v, setVar, getF_set, bottomMarginG, hax, hw,
          postNote, deliver] at hE hS
        subst hE hS
        obtain ⟨rfl, rfl, rfl⟩ := will_unique_split (a := [_]) (b := [_, _]) hsplit hk (by simp) (by simp)
        refine ⟨?_, _, List.mem_cons_of_mem _ (List.mem_singleton.mpr rfl), rfl, (by show didOf "Glyph.BottomMarginWillChange" = some "Glyph.BottomMarginDidChange"; decide), ?_⟩
        · simp [Ev.now, Ev.before, eval, getF_set, truthy, b2v, h2, h3, hvo]
        · simp [Ev.getterIn]
    · by_cases hax : a = y - (v - h)
      · simp [stepAtom, eval, h1, h2, h3, hvo, ha, notNone, ne, truthy, b2v, setVar, getF_set, bottomMarginG, hax,
          postNote, deliver] at hE
        subst hE
        simp at hsplit
      · have hw : ¬ (h = h + (a - (y - (v - h)))) := by omega
        simp [stepAtom, eval, h1, h2, h3, hvo, ha, notNone, ne, truthy, b2v, setVar, getF_set, bottomMarginG, hax, hw,
          postNote, deliver] at hE hS
        subst hE hS
        obtain ⟨rfl, rfl, rfl⟩ := will_unique_split (a := []) (b := [_, _]) hsplit hk (by simp) (by simp)
        refine ⟨?_, _, List.mem_cons_of_mem _ (List.mem_singleton.mpr rfl), rfl, (by show didOf "Glyph.BottomMarginWillChange" = some "Glyph.BottomMarginDidChange"; decide), ?_⟩
        · simp [Ev.now, Ev.before]
        · simp [Ev.getterIn]

  · intro pre ev post hsplit hk
    generalize hE : (runOp glyphBottomMargin env σ).evs = E at hsplit
    simp only [runOp, glyphBottomMargin, run_A, nestedVO, nestedHeight, List.cons_append, List.nil_append, List.map] at hE
    simp only [runAtoms, List.foldl, stepA, init] at hE
    simp [NoBounds] at hnb
    simp [stepAtom, eval, hnb, notNone, truthy, b2v] at hE
    subst hE; simp at hsplit

end Setters
end DefconModel
