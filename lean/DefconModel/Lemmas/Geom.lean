/-
Helper lemmas about M-Geom.  Property theorems live in Props/C17.lean.
-/
import DefconModel.Geom
import DefconModel.Spec.Geom

namespace DefconModel
namespace Geom

end Geom
end DefconModel
