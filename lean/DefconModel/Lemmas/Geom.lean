/-
Helper lemmas about M-Geom (umbrella).  Property theorems live in Props/C17.lean.
-/
import DefconModel.Lemmas.Geom.Basic
import DefconModel.Lemmas.Geom.Hull
import DefconModel.Lemmas.Geom.Shape
import DefconModel.Lemmas.Geom.Move
import DefconModel.Lemmas.Geom.Pens
import DefconModel.Lemmas.Geom.Bounds
import DefconModel.Lemmas.Geom.Cache
import DefconModel.Lemmas.Geom.Transform
import DefconModel.Lemmas.Geom.Glyph
import DefconModel.Lemmas.Geom.World
import DefconModel.Lemmas.Geom.Reverse
import DefconModel.Lemmas.Geom.SetStart
import DefconModel.Lemmas.Geom.Cyclic
import DefconModel.Lemmas.Geom.Rotate
import DefconModel.Lemmas.Geom.RevSeg
import DefconModel.Lemmas.Geom.RevArea
import DefconModel.Lemmas.Geom.CtrlBox
import DefconModel.Lemmas.Geom.Straight
import DefconModel.Lemmas.Geom.RevArea2
import DefconModel.Lemmas.Geom.Uses
import DefconModel.Lemmas.Geom.CacheLayer
import DefconModel.Lemmas.Geom.Composite
import DefconModel.Lemmas.Geom.Affine
