/-
Witness worlds for the C18 theorems of round 3, built as HISTORIES (a font opened from a UFO, edited, saved, edited
again) so that they are in `Sync` by the lemmas, not by inspection.
-/
import DefconModel.Lemmas.SaveStepsFault

namespace DefconModel
namespace SaveSteps

/-- a font just opened from a UFO with one component and no glyphs -/
def wOpen : World :=
  { font := { comps := [7], compDirty := [false], glyphs := [], glyphDirty := [], path := 1, format := 3, dirty := false },
    disk := [(1, { comps := [7] })] }

theorem sync_wOpen : Sync wOpen := by
  refine ⟨rfl, rfl, ?_, ?_, ?_, ?_, ?_⟩
  · intro i hi _
    have : i = 0 := by simpa [wOpen] using hi
    subst this; rfl
  · intro g b hm; simp [wOpen, memGlyph] at hm
  · intro g hg; simp [wOpen, own, getTarget, lookup] at hg
  · intro g hg; simp [wOpen] at hg
  · intro g hg; simp [wOpen, own, getTarget, lookup] at hg

/-- the font after three glyphs were drawn and saved: UFO 1 lists glyphs 1, 2, 3 -/
def wSaved : World := save .inPlace (edits wOpen [.setGlyph 1 5, .setGlyph 2 8, .setGlyph 3 9])

theorem sync_wSaved : Sync wSaved := (save_persists' (sync_edits _ sync_wOpen)).2

/-- the edit history of the witnesses: a NEW glyph 0, glyph 1 changed to something that cannot be written, glyph 2
changed, glyph 3 deleted, a component changed -/
def wEdited : World :=
  edits wSaved [.setGlyph 2 88, .spoilGlyph 1 6, .setGlyph 0 4, .delGlyph 3, .setComp 0 70]

theorem sync_wEdited : Sync wEdited := sync_edits _ sync_wSaved

/-- the same edits without the new glyph: the glyph written before the faulty one (none here: glyph 1 is the first
dirty glyph in order) is listed; the save fails at glyph 1, glyph 1 is corrected, the retry removes file 3 and
persists everything -/
def wEditedB : World := edits wSaved [.setGlyph 2 88, .spoilGlyph 1 6, .delGlyph 3, .setComp 0 70]

theorem sync_wEditedB : Sync wEditedB := sync_edits _ sync_wSaved

end SaveSteps
end DefconModel
