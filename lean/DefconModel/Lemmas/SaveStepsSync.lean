/-
Helper lemmas for C18 (round 3): the steps INSIDE one layer's save, seen from the font's own UFO; the `Sync`
relation under steps, failures and edits.
-/
import DefconModel.Spec.SaveSteps
import DefconModel.Lemmas.SaveStepsRetry

namespace DefconModel
namespace SaveSteps

/-! ### association-list facts about glif files -/

theorem find?_filter_ne (l : List (Nat × Nat)) (g g' : Nat) :
    (l.filter (fun x => x.1 ≠ g)).find? (fun x => x.1 = g') =
      if g' = g then none else l.find? (fun x => x.1 = g') := by
  induction l with
  | nil => simp
  | cons x xs ih =>
    by_cases hx : x.1 = g
    · have : (x :: xs).filter (fun x => x.1 ≠ g) = xs.filter (fun x => x.1 ≠ g) := by simp [List.filter_cons, hx]
      rw [this, ih]
      by_cases hg : g' = g
      · simp [hg]
      · have : x.1 ≠ g' := fun e => hg (e ▸ hx)
        simp [hg, List.find?_cons, this]
    · have : (x :: xs).filter (fun x => x.1 ≠ g) = x :: xs.filter (fun x => x.1 ≠ g) := by simp [List.filter_cons, hx]
      rw [this, List.find?_cons, List.find?_cons, ih]
      by_cases hg : g' = g
      · subst hg; simp [hx]
      · by_cases hx' : x.1 = g' <;> simp [hg, hx']

theorem fileOf_write (u : Ufo) (g b g' : Nat) :
    fileOf { u with files := (g, b) :: u.files.filter (fun x => x.1 ≠ g) } g' =
      if g' = g then some b else fileOf u g' := by
  unfold fileOf
  by_cases h : g' = g
  · subst h; simp [List.find?_cons]
  · have : g ≠ g' := fun e => h e.symm
    simp only
    rw [List.find?_cons_of_neg (by simpa using this), find?_filter_ne, if_neg h, if_neg h]

theorem fileOf_delete (u : Ufo) (g g' : Nat) :
    fileOf { u with files := u.files.filter (fun x => x.1 ≠ g) } g' = if g' = g then none else fileOf u g' := by
  unfold fileOf
  rw [find?_filter_ne]
  by_cases h : g' = g <;> simp [h]

theorem memGlyph_set (f f' : Font) (g b g' : Nat) (h : f'.glyphs = (g, b) :: f.glyphs.filter (fun x => x.1 ≠ g)) :
    memGlyph f' g' = if g' = g then some b else memGlyph f g' := by
  unfold memGlyph
  rw [h]
  by_cases h : g' = g
  · subst h; simp [List.find?_cons]
  · have : g ≠ g' := fun e => h e.symm
    rw [List.find?_cons_of_neg (by simpa using this), find?_filter_ne, if_neg h, if_neg h]

theorem memGlyph_del (f f' : Font) (g g' : Nat) (h : f'.glyphs = f.glyphs.filter (fun x => x.1 ≠ g)) :
    memGlyph f' g' = if g' = g then none else memGlyph f g' := by
  unfold memGlyph
  rw [h, find?_filter_ne]
  by_cases h : g' = g <;> simp [h]

theorem memGlyph_isSome_of_mem (f : Font) (g : Nat) (h : g ∈ f.glyphs.map Prod.fst) : (memGlyph f g).isSome = true := by
  unfold memGlyph
  simp only [Option.isSome_map, List.find?_isSome]
  obtain ⟨x, hx, rfl⟩ := List.mem_map.mp h
  exact ⟨x, hx, by simp⟩

/-! ### the in-place steps, seen from the font's own UFO -/

theorem own_eq (w : World) : own w = (lookup w.disk w.font.path).getD {} := rfl

theorem own_put (w : World) (u : Ufo) : own (putTarget w .own u) = u := by
  simp [own, getTarget, putTarget, lookup_store_self]

/-- `own` reads the disk and the font's path only -/
theorem own_congr (w w' : World) (hd : w'.disk = w.disk) (hp : w'.font.path = w.font.path) : own w' = own w := by
  simp [own, getTarget, hd, hp]

theorem own_writeComp (w : World) (i : Nat) :
    own (exec .inPlace w (.writeComp i)) = { own w with comps := setAt (own w).comps i (w.font.comps.getD i 0) } := by
  simp [own, getTarget, putTarget, exec, target, lookup_store_self]

theorem own_open (w : World) : own (exec .inPlace w .openGlyphSet) = own w := rfl

theorem font_open (w : World) : (exec .inPlace w .openGlyphSet).font = w.font := rfl

theorem gs_open (w : World) : (exec .inPlace w .openGlyphSet).gsContents = (own w).listing := rfl

theorem own_writeGlyph (w : World) (g : Nat) :
    own (exec .inPlace w (.writeGlyph g)) =
      { own w with files := (g, (memGlyph w.font g).getD 0) :: (own w).files.filter (fun x => x.1 ≠ g) } := by
  simp [own, getTarget, putTarget, exec, target, lookup_store_self, memGlyph]

theorem font_writeGlyph (w : World) (g : Nat) :
    (exec .inPlace w (.writeGlyph g)).font = { w.font with glyphDirty := w.font.glyphDirty.filter (· ≠ g) } := by
  simp [putTarget, exec, target]

theorem gs_writeGlyph (w : World) (g : Nat) :
    (exec .inPlace w (.writeGlyph g)).gsContents = if g ∈ w.gsContents then w.gsContents else w.gsContents ++ [g] := by
  simp [putTarget, exec, target]

theorem own_deleteGlyph (w : World) (g : Nat) :
    own (exec .inPlace w (.deleteGlyph g)) = { own w with files := (own w).files.filter (fun x => x.1 ≠ g) } := by
  simp [own, getTarget, putTarget, exec, target, lookup_store_self]

theorem font_deleteGlyph (w : World) (g : Nat) : (exec .inPlace w (.deleteGlyph g)).font = w.font := by
  simp [putTarget, exec, target]

theorem gs_deleteGlyph (w : World) (g : Nat) :
    (exec .inPlace w (.deleteGlyph g)).gsContents = w.gsContents.filter (· ≠ g) := by
  simp [putTarget, exec, target]

theorem own_writeContents (w : World) :
    own (exec .inPlace w .writeContents) = { own w with listing := w.gsContents } := by
  simp [own, getTarget, putTarget, exec, target, lookup_store_self]

theorem font_writeContents (w : World) :
    (exec .inPlace w .writeContents).font = { w.font with scheduled := [] } := by
  simp [putTarget, exec, target]

theorem own_writeLayerInfo (w : World) :
    own (exec .inPlace w .writeLayerInfo) = { own w with layerinfo := w.font.layerInfo } := by
  simp [own, getTarget, putTarget, exec, target, lookup_store_self]

theorem font_writeLayerInfo (w : World) : (exec .inPlace w .writeLayerInfo).font = w.font := by
  simp [putTarget, exec, target]

/-! ### `SyncUF` under the effects of the steps and of the edits -/

theorem getD_setAt_self {α} (l : List α) (i : Nat) (v d : α) (h : i < l.length) : (setAt l i v).getD i d = v := by
  unfold setAt; simp [List.getD_eq_getElem?_getD, h]

theorem getD_setAt_ne {α} (l : List α) (i j : Nat) (v d : α) (h : j ≠ i) : (setAt l i v).getD j d = l.getD j d := by
  unfold setAt
  have : i ≠ j := fun e => h e.symm
  simp [List.getD_eq_getElem?_getD, List.getElem?_set, this]

theorem length_setAt {α} (l : List α) (i : Nat) (v : α) : (setAt l i v).length = l.length := by
  unfold setAt; simp

theorem syncUF_writeComp {u : Ufo} {f : Font} (h : SyncUF u f) (i : Nat) :
    SyncUF { u with comps := setAt u.comps i (f.comps.getD i 0) } { f with compDirty := setAt f.compDirty i false } where
  compsLen := by simpa [length_setAt] using h.compsLen
  flagsLen := by simpa [length_setAt] using h.flagsLen
  comps := by
    intro j hj hd
    by_cases hji : j = i
    · subst hji
      exact getD_setAt_self _ _ _ _ (by rw [h.compsLen]; exact hj)
    · simp only [getD_setAt_ne _ _ _ _ _ hji] at hd ⊢
      exact h.comps j hj hd
  clean := h.clean
  listed := h.listed
  sched := h.sched
  files := h.files

theorem syncUF_writeGlyph {u : Ufo} {f : Font} (h : SyncUF u f) (g : Nat) (hl : g ∈ u.listing) :
    SyncUF { u with files := (g, (memGlyph f g).getD 0) :: u.files.filter (fun x => x.1 ≠ g) }
      { f with glyphDirty := f.glyphDirty.filter (· ≠ g) } where
  compsLen := h.compsLen
  flagsLen := h.flagsLen
  comps := h.comps
  clean := by
    intro g' b hm hd
    rw [fileOf_write]
    by_cases hg : g' = g
    · subst hg
      refine ⟨hl, ?_⟩
      have hm' : memGlyph f g' = some b := hm
      simp [hm']
    · have hd' : g' ∉ f.glyphDirty := by
        intro hmem; exact hd (by simp [List.mem_filter, hmem, hg])
      simpa [hg] using h.clean g' b hm hd'
  listed := h.listed
  sched := h.sched
  files := by
    intro g' hg'
    rw [fileOf_write]
    by_cases hg : g' = g
    · simp [hg]
    · simpa [hg] using h.files g' hg'

theorem syncUF_layerInfo {u : Ufo} {f : Font} (h : SyncUF u f) (v : Nat) : SyncUF { u with layerinfo := v } f :=
  ⟨h.compsLen, h.flagsLen, h.comps, h.clean, h.listed, h.sched, h.files⟩

/-- the invariant of the glyph phase of one layer's save: as `SyncUF`, with the listing that will be written (`gs`,
the contents of the glyph set object) in the place of the one on disk, and the deletions still to do (`rem`) -/
structure Mid (u : Ufo) (f : Font) (gs rem : List Nat) : Prop where
  compsLen : u.comps.length = f.comps.length
  flagsLen : f.compDirty.length = f.comps.length
  comps : ∀ i, i < f.comps.length → f.compDirty.getD i false = false → u.comps.getD i 0 = f.comps.getD i 0
  clean : ∀ g b, memGlyph f g = some b → g ∉ f.glyphDirty → g ∈ gs ∧ fileOf u g = some b
  listed : ∀ g, g ∈ gs → (memGlyph f g).isSome = true ∨ g ∈ rem
  sched : ∀ g, g ∈ rem → memGlyph f g = none
  files : ∀ g, g ∈ gs → (fileOf u g).isSome = true

theorem mid_open {u : Ufo} {f : Font} (h : SyncUF u f) : Mid u f u.listing f.scheduled :=
  ⟨h.compsLen, h.flagsLen, h.comps, h.clean, h.listed, h.sched, h.files⟩

theorem mid_writeGlyph {u : Ufo} {f : Font} {gs rem : List Nat} (h : Mid u f gs rem) (g : Nat)
    (hg : (memGlyph f g).isSome = true) :
    Mid { u with files := (g, (memGlyph f g).getD 0) :: u.files.filter (fun x => x.1 ≠ g) }
      { f with glyphDirty := f.glyphDirty.filter (· ≠ g) } (if g ∈ gs then gs else gs ++ [g]) rem where
  compsLen := h.compsLen
  flagsLen := h.flagsLen
  comps := h.comps
  clean := by
    intro g' b hm hd
    rw [fileOf_write]
    by_cases hgg : g' = g
    · subst hgg
      have hm' : memGlyph f g' = some b := hm
      refine ⟨?_, by simp [hm']⟩
      by_cases hin : g' ∈ gs <;> simp [hin]
    · have hd' : g' ∉ f.glyphDirty := by
        intro hmem; exact hd (by simp [List.mem_filter, hmem, hgg])
      obtain ⟨h1, h2⟩ := h.clean g' b hm hd'
      refine ⟨?_, by simpa [hgg] using h2⟩
      by_cases hin : g ∈ gs <;> simp [hin, h1]
  listed := by
    intro g' hg'
    by_cases hgg : g' = g
    · subst hgg; exact Or.inl hg
    · have : g' ∈ gs := by
        by_cases hin : g ∈ gs
        · simpa [hin] using hg'
        · simpa [hin, hgg] using hg'
      exact h.listed g' this
  sched := h.sched
  files := by
    intro g' hg'
    rw [fileOf_write]
    by_cases hgg : g' = g
    · simp [hgg]
    · have : g' ∈ gs := by
        by_cases hin : g ∈ gs
        · simpa [hin] using hg'
        · simpa [hin, hgg] using hg'
      simpa [hgg] using h.files g' this

theorem mid_deleteGlyph {u : Ufo} {f : Font} {gs rem : List Nat} (g : Nat) (h : Mid u f gs (g :: rem)) :
    Mid { u with files := u.files.filter (fun x => x.1 ≠ g) } f (gs.filter (· ≠ g)) rem where
  compsLen := h.compsLen
  flagsLen := h.flagsLen
  comps := h.comps
  clean := by
    intro g' b hm hd
    have hne : g' ≠ g := by
      intro e; subst e
      have := h.sched g' (by simp)
      rw [this] at hm; cases hm
    obtain ⟨h1, h2⟩ := h.clean g' b hm hd
    rw [fileOf_delete]
    exact ⟨by simp [List.mem_filter, h1, hne], by simpa [hne] using h2⟩
  listed := by
    intro g' hg'
    simp only [List.mem_filter, decide_eq_true_eq] at hg'
    rcases h.listed g' hg'.1 with h1 | h1
    · exact Or.inl h1
    · rcases List.mem_cons.mp h1 with h2 | h2
      · exact absurd h2 hg'.2
      · exact Or.inr h2
  sched := fun g' hg' => h.sched g' (List.mem_cons_of_mem _ hg')
  files := by
    intro g' hg'
    simp only [List.mem_filter, decide_eq_true_eq] at hg'
    rw [fileOf_delete]
    simpa [hg'.2] using h.files g' hg'.1

theorem mid_contents {u : Ufo} {f : Font} {gs : List Nat} (h : Mid u f gs []) :
    SyncUF { u with listing := gs } { f with scheduled := [] } where
  compsLen := h.compsLen
  flagsLen := h.flagsLen
  comps := h.comps
  clean := h.clean
  listed := by
    intro g hg
    rcases h.listed g hg with h1 | h1
    · exact Or.inl h1
    · cases h1
  sched := by intro g hg; cases hg
  files := h.files

/-! ### runs of steps on worlds -/

theorem runSteps_cons (m : Mode) (w : World) (s : Step) (rest : List Step) :
    runSteps m w (s :: rest) = runSteps m (exec m w s) rest := rfl

theorem runSteps_nil (m : Mode) (w : World) : runSteps m w [] = w := rfl

theorem sync_cleanup (w : World) : Sync (cleanup w) ↔ Sync w := Iff.rfl

theorem sync_exec_writeComp {w : World} (h : Sync w) (i : Nat) : Sync (exec .inPlace w (.writeComp i)) := by
  unfold Sync; rw [own_writeComp, (exec_writeComp_inPlace w i).1]; exact syncUF_writeComp h i

theorem sync_exec_writeGlyph {w : World} (h : Sync w) (g : Nat) (hl : g ∈ (own w).listing) :
    Sync (exec .inPlace w (.writeGlyph g)) := by
  unfold Sync; rw [own_writeGlyph, font_writeGlyph]; exact syncUF_writeGlyph h g hl

theorem sync_exec_writeLayerInfo {w : World} (h : Sync w) : Sync (exec .inPlace w .writeLayerInfo) := by
  unfold Sync; rw [own_writeLayerInfo, font_writeLayerInfo]; exact syncUF_layerInfo h _

theorem earlySafe_congr (u u' : Ufo) (h : u'.listing = u.listing) (s : Step) : earlySafe u' s = earlySafe u s := by
  cases s <;> simp [earlySafe, h]

/-- one early-safe step keeps the relation, the listing on disk and the pending deletions -/
theorem early_exec {w : World} (h : Sync w) (s : Step) (hs : earlySafe (own w) s = true) :
    Sync (exec .inPlace w s) ∧ (own (exec .inPlace w s)).listing = (own w).listing ∧
    (exec .inPlace w s).font.scheduled = w.font.scheduled := by
  cases s with
  | writeComp i =>
    refine ⟨sync_exec_writeComp h i, by rw [own_writeComp], ?_⟩
    rw [(exec_writeComp_inPlace w i).1]
  | openGlyphSet => exact ⟨h, rfl, rfl⟩
  | writeGlyph g =>
    have hl : g ∈ (own w).listing := by simpa [earlySafe] using hs
    refine ⟨sync_exec_writeGlyph h g hl, by rw [own_writeGlyph], ?_⟩
    rw [font_writeGlyph]
  | mkTemp => simp [earlySafe] at hs
  | deleteGlyph g => simp [earlySafe] at hs
  | writeContents => simp [earlySafe] at hs
  | writeLayerInfo => simp [earlySafe] at hs
  | moveAside p => simp [earlySafe] at hs
  | moveTemp p => simp [earlySafe] at hs
  | dropAside => simp [earlySafe] at hs

theorem sync_run_early (steps : List Step) : ∀ (w : World), Sync w → (∀ s ∈ steps, earlySafe (own w) s = true) →
    Sync (runSteps .inPlace w steps) ∧ (own (runSteps .inPlace w steps)).listing = (own w).listing ∧
    (runSteps .inPlace w steps).font.scheduled = w.font.scheduled := by
  induction steps with
  | nil => intro w h _; exact ⟨h, rfl, rfl⟩
  | cons s rest ih =>
    intro w h hs
    obtain ⟨h1, h2, h3⟩ := early_exec h s (hs s (by simp))
    have hrest : ∀ s' ∈ rest, earlySafe (own (exec .inPlace w s)) s' = true := by
      intro s' hs'
      rw [earlySafe_congr _ _ h2]
      exact hs s' (by simp [hs'])
    obtain ⟨a, b, c⟩ := ih (exec .inPlace w s) h1 hrest
    rw [runSteps_cons]
    exact ⟨a, b.trans h2, c.trans h3⟩

/-! ### the glyph phase -/

/-- the dirty flags left after the glyphs in `l` were written -/
def dirtyAfter (gd l : List Nat) : List Nat := l.foldl (fun gd g => gd.filter (· ≠ g)) gd

theorem mem_dirtyAfter (l : List Nat) : ∀ (gd : List Nat) (g : Nat), g ∈ dirtyAfter gd l ↔ g ∈ gd ∧ g ∉ l := by
  induction l with
  | nil => intro gd g; simp [dirtyAfter]
  | cons x xs ih =>
    intro gd g
    have := ih (gd.filter (· ≠ x)) g
    simp only [dirtyAfter, List.foldl_cons] at this ⊢
    rw [this]
    simp only [List.mem_filter, decide_eq_true_eq, List.mem_cons, not_or]
    constructor
    · rintro ⟨⟨a, b⟩, c⟩; exact ⟨a, b, c⟩
    · rintro ⟨a, b, c⟩; exact ⟨⟨a, b⟩, c⟩

theorem font_run_writes (l : List Nat) : ∀ (w : World),
    (runSteps .inPlace w (l.map Step.writeGlyph)).font = { w.font with glyphDirty := dirtyAfter w.font.glyphDirty l } := by
  induction l with
  | nil => intro w; rfl
  | cons g rest ih =>
    intro w
    rw [List.map_cons, runSteps_cons, ih, font_writeGlyph]
    rfl

theorem font_run_deletes (l : List Nat) : ∀ (w : World),
    (runSteps .inPlace w (l.map Step.deleteGlyph)).font = w.font := by
  induction l with
  | nil => intro w; rfl
  | cons g rest ih =>
    intro w
    rw [List.map_cons, runSteps_cons, ih, font_deleteGlyph]

theorem mid_run_writes (rem : List Nat) (l : List Nat) : ∀ (w : World),
    Mid (own w) w.font w.gsContents rem → (∀ g ∈ l, (memGlyph w.font g).isSome = true) →
    Mid (own (runSteps .inPlace w (l.map Step.writeGlyph))) (runSteps .inPlace w (l.map Step.writeGlyph)).font
      (runSteps .inPlace w (l.map Step.writeGlyph)).gsContents rem := by
  induction l with
  | nil => intro w h _; exact h
  | cons g rest ih =>
    intro w h hg
    rw [List.map_cons, runSteps_cons]
    apply ih
    · rw [own_writeGlyph, font_writeGlyph, gs_writeGlyph]
      exact mid_writeGlyph h g (hg g (by simp))
    · intro g' hg'
      rw [font_writeGlyph]
      exact hg g' (by simp [hg'])

theorem mid_run_deletes (l : List Nat) : ∀ (w : World),
    Mid (own w) w.font w.gsContents l →
    Mid (own (runSteps .inPlace w (l.map Step.deleteGlyph))) (runSteps .inPlace w (l.map Step.deleteGlyph)).font
      (runSteps .inPlace w (l.map Step.deleteGlyph)).gsContents [] := by
  induction l with
  | nil => intro w h; exact h
  | cons g rest ih =>
    intro w h
    rw [List.map_cons, runSteps_cons]
    apply ih
    rw [own_deleteGlyph, font_deleteGlyph, gs_deleteGlyph]
    exact mid_deleteGlyph g h

/-- the glyphs an in-place save writes -/
def dirtyKeys (f : Font) : List Nat := (f.glyphs.map Prod.fst).filter (fun g => g ∈ f.glyphDirty)

/-- one layer's save up to and including the listing -/
def glyphPhaseCore (f : Font) : List Step :=
  [Step.openGlyphSet] ++ (dirtyKeys f).map Step.writeGlyph ++ f.scheduled.map Step.deleteGlyph ++ [Step.writeContents]

theorem glyphPhase_eq (f : Font) : glyphPhase f = glyphPhaseCore f ++ [Step.writeLayerInfo] := by
  simp [glyphPhase, glyphPhaseCore, dirtyKeys]

/-- **the glyph phase of one layer's in-place save, run to its end, re-establishes the relation**: every dirty glyph is
written, every scheduled file removed, the listing written — and only then are the pending deletions forgotten -/
theorem core_phase_sync {w : World} (h : Sync w) :
    Sync (runSteps .inPlace w (glyphPhaseCore w.font)) ∧
    (runSteps .inPlace w (glyphPhaseCore w.font)).font =
      { w.font with glyphDirty := dirtyAfter w.font.glyphDirty (dirtyKeys w.font), scheduled := [] } := by
  have hkeys : ∀ g ∈ dirtyKeys w.font, (memGlyph w.font g).isSome = true := by
    intro g hg
    exact memGlyph_isSome_of_mem _ _ (List.mem_filter.mp hg).1
  -- open
  have h2 : Mid (own (exec .inPlace w .openGlyphSet)) (exec .inPlace w .openGlyphSet).font
      (exec .inPlace w .openGlyphSet).gsContents w.font.scheduled := mid_open h
  -- writes
  have h3 := mid_run_writes w.font.scheduled (dirtyKeys w.font) _ h2 hkeys
  have f3 := font_run_writes (dirtyKeys w.font) (exec .inPlace w .openGlyphSet)
  -- deletes
  have h4 := mid_run_deletes w.font.scheduled _ h3
  have f4 := font_run_deletes w.font.scheduled (runSteps .inPlace (exec .inPlace w .openGlyphSet) ((dirtyKeys w.font).map Step.writeGlyph))
  -- contents
  have h5 := mid_contents h4
  have hrun : runSteps .inPlace w (glyphPhaseCore w.font) =
      exec .inPlace (runSteps .inPlace (runSteps .inPlace (exec .inPlace w .openGlyphSet)
        ((dirtyKeys w.font).map Step.writeGlyph)) (w.font.scheduled.map Step.deleteGlyph)) .writeContents := by
    simp [glyphPhaseCore, runSteps, List.foldl_append]
  rw [hrun]
  constructor
  · unfold Sync
    rw [own_writeContents, font_writeContents]
    exact h5
  · rw [font_writeContents, f4, f3]
    rfl

/-! ### a complete in-place save -/

theorem plan_inPlace_split (f : Font) :
    plan f .inPlace = (dirtyComps f).map Step.writeComp ++ glyphPhaseCore f ++ [Step.writeLayerInfo] := by
  rw [plan_inPlace, glyphPhase_eq, List.append_assoc]

theorem sync_run_comps {w : World} (h : Sync w) (l : List Nat) : Sync (runSteps .inPlace w (l.map Step.writeComp)) :=
  (sync_run_early (l.map Step.writeComp) w h (by
    intro s hs
    obtain ⟨i, _, rfl⟩ := List.mem_map.mp hs
    rfl)).1

/-- the world after all steps of an in-place save -/
theorem full_run_sync {w : World} (h : Sync w) :
    Sync (runSteps .inPlace w (plan w.font .inPlace)) ∧
    (runSteps .inPlace w (plan w.font .inPlace)).font =
      { w.font with compDirty := clearFlags w.font.compDirty (dirtyComps w.font),
                    glyphDirty := dirtyAfter w.font.glyphDirty (dirtyKeys w.font), scheduled := [] } ∧
    (own (runSteps .inPlace w (plan w.font .inPlace))).layerinfo = w.font.layerInfo := by
  have h1 := sync_run_comps h (dirtyComps w.font)
  have f1 := (runSteps_writeComps w (dirtyComps w.font)).1
  have hcore : glyphPhaseCore (runSteps .inPlace w ((dirtyComps w.font).map Step.writeComp)).font = glyphPhaseCore w.font := by
    rw [f1]; rfl
  obtain ⟨h2, f2⟩ := core_phase_sync h1
  rw [hcore] at h2 f2
  have hrun : runSteps .inPlace w (plan w.font .inPlace) =
      exec .inPlace (runSteps .inPlace (runSteps .inPlace w ((dirtyComps w.font).map Step.writeComp))
        (glyphPhaseCore w.font)) .writeLayerInfo := by
    rw [plan_inPlace_split, runSteps_append, runSteps_append]; rfl
  rw [hrun]
  refine ⟨sync_exec_writeLayerInfo h2, ?_, ?_⟩
  · rw [font_writeLayerInfo, f2, f1]; rfl
  · rw [own_writeLayerInfo, f2, f1]

theorem persisted_of {u : Ufo} {f : Font} (h : SyncUF u f)
    (hc : ∀ i, i < f.comps.length → f.compDirty.getD i false = false)
    (hg : ∀ g, (memGlyph f g).isSome = true → g ∉ f.glyphDirty)
    (hs : f.scheduled = []) :
    u.comps = f.comps ∧ ∀ g, diskGlyph u g = memGlyph f g := by
  constructor
  · apply List.ext_getElem h.compsLen
    intro i h1 h2
    have := h.comps i h2 (hc i h2)
    simpa [List.getD_eq_getElem?_getD, h1, h2] using this
  · intro g
    unfold diskGlyph
    cases hm : memGlyph f g with
    | some b =>
      obtain ⟨a, b'⟩ := h.clean g b hm (hg g (by simp [hm]))
      simp [a, b']
    | none =>
      by_cases hl : g ∈ u.listing
      · rcases h.listed g hl with a | a
        · simp [hm] at a
        · rw [hs] at a; cases a
      · simp [hl]

theorem flags_clear_all (f : Font) (i : Nat) (hi : i < f.comps.length) :
    (clearFlags f.compDirty (dirtyComps f)).getD i false = false := by
  rw [getD_clearFlags]
  by_cases hd : f.compDirty.getD i false = true
  · have : i ∈ dirtyComps f := by
      unfold dirtyComps
      simp only [List.mem_filter, List.mem_range]
      exact ⟨hi, hd⟩
    simp [this]
  · simp at hd; simp [hd]

theorem glyphs_clean_all (f : Font) (g : Nat) (hg : (memGlyph f g).isSome = true) :
    g ∉ dirtyAfter f.glyphDirty (dirtyKeys f) := by
  intro hmem
  obtain ⟨h1, h2⟩ := (mem_dirtyAfter _ _ _).mp hmem
  apply h2
  unfold dirtyKeys
  simp only [List.mem_filter, decide_eq_true_eq]
  refine ⟨?_, h1⟩
  unfold memGlyph at hg
  simp only [Option.isSome_map, List.find?_isSome, decide_eq_true_eq] at hg
  obtain ⟨x, hx, rfl⟩ := hg
  exact List.mem_map.mpr ⟨x, hx, rfl⟩

theorem own_finalize_cleanup (w : World) : own (finalize .inPlace (cleanup w)) = own w := rfl

theorem font_finalize_cleanup (w : World) :
    (finalize .inPlace (cleanup w)).font = { w.font with path := w.font.path, dirty := false } := rfl

/-- **a completed in-place save makes memory = disk** (and leaves the relation in place, with nothing dirty) -/
theorem save_persists' {w : World} (h : Sync w) : Persisted (save .inPlace w) ∧ Sync (save .inPlace w) := by
  obtain ⟨h1, f1, l1⟩ := full_run_sync h
  unfold save
  generalize runSteps .inPlace w (plan w.font .inPlace) = w' at h1 f1 l1
  have hs : Sync (finalize .inPlace (cleanup w')) := by
    unfold Sync
    rw [own_finalize_cleanup, font_finalize_cleanup]
    exact ⟨h1.compsLen, h1.flagsLen, h1.comps, h1.clean, h1.listed, h1.sched, h1.files⟩
  refine ⟨?_, hs⟩
  have hs' := hs
  unfold Sync at hs'
  rw [own_finalize_cleanup, font_finalize_cleanup] at hs'
  have hp := persisted_of hs'
    (by intro i hi; rw [f1]; exact flags_clear_all w.font i (by rw [f1] at hi; exact hi))
    (by intro g hg; rw [f1]; exact glyphs_clean_all w.font g (by rw [f1] at hg; exact hg))
    (by rw [f1])
  unfold Persisted
  rw [own_finalize_cleanup, font_finalize_cleanup]
  refine ⟨hp.1, hp.2, ?_⟩
  rw [l1, f1]

end SaveSteps
end DefconModel
