/-
C08 helper lemmas for `Contour.WindingDirectionChanged`: the direction of the reversed contour from the area laws
of M-Geom (`reverse_area_all`: reversal negates the signed area of EVERY valid contour, zero area included), and
the runs of the two catalogue entries on a store that describes the contour.
-/
import DefconModel.Lemmas.Setters
import DefconModel.Spec.SettersWinding
import DefconModel.Lemmas.Geom.RevArea2

namespace DefconModel
namespace Setters
open Geom

/-- Reversing flips the direction of a contour with area and keeps "not clockwise" for one without. -/
theorem clockwiseOf_reverse (pts : List Point) (hshape : ReversibleShape pts) (herr : drawErr pts = none) :
    clockwiseOf (reversePoints pts) = if zeroArea pts then clockwiseOf pts else !clockwiseOf pts := by
  have h := (reverse_area_all pts hshape herr).1
  unfold clockwiseOf zeroArea
  rw [h]
  by_cases h0 : freshArea pts = 0
  · simp [h0]
  · rcases lt_trichotomy (freshArea pts) 0 with hlt | heq | hgt
    · have : ¬ (-freshArea pts < 0) := by linarith
      simp [h0, hlt, this]
    · exact absurd heq h0
    · have h1 : -freshArea pts < 0 := by linarith
      have h2 : ¬ (freshArea pts < 0) := by linarith
      simp [h0, h1, h2]

theorem zeroArea_reverse (pts : List Point) (hshape : ReversibleShape pts) (herr : drawErr pts = none) :
    zeroArea (reversePoints pts) = zeroArea pts := by
  have h := (reverse_area_all pts hshape herr).1
  unfold zeroArea
  rw [h]
  simp

/-! ### the two catalogue entries on a store that describes the contour -/

theorem b2v_not (b : Bool) : b2v (!truthy (b2v b)) = b2v (!b) := by cases b <;> rfl
theorem truthy_b2v (b : Bool) : truthy (b2v b) = b := by cases b <;> rfl

theorem reverse_run (pts : List Point) (hshape : ReversibleShape pts) (herr : drawErr pts = none) (σ : Store)
    (hσ : DescribesContour σ pts) :
    let env : Env := { args := [b2v (zeroArea pts)] }
    DescribesContour (runOp contourReverse env σ).store (reversePoints pts) ∧
    WindingTruth env (runOp contourReverse env σ) pts (reversePoints pts) ∧
    ((runOp contourReverse env σ).evs.map (·.name)) = ["Contour.WindingDirectionChanged", "Contour.PointsChanged"] := by
  intro env
  have hr := clockwiseOf_reverse pts hshape herr
  unfold DescribesContour at hσ
  simp only [runOp, contourReverse, contourReverseBody, run_A]
  simp only [runAtoms, List.foldl, stepA, init]
  cases hz : zeroArea pts <;> cases hc : clockwiseOf pts <;>
    simp [env, hz, hc] at hr ⊢ <;>
    simp [stepAtom, eval, hσ, hc, hr, truthy, b2v, setVar, getF_set, postNote, deliver, DescribesContour,
      WindingTruth, Ev.now]

theorem setClockwise_run (pts : List Point) (hshape : ReversibleShape pts) (herr : drawErr pts = none) (σ : Store)
    (hσ : DescribesContour σ pts) (v : Bool) :
    let env : Env := { args := [b2v v, b2v (zeroArea pts)] }
    (clockwiseOf pts = v → (runOp contourClockwise env σ).evs = [] ∧ (runOp contourClockwise env σ).store = σ) ∧
    (clockwiseOf pts ≠ v →
      DescribesContour (runOp contourClockwise env σ).store (reversePoints pts) ∧
      WindingTruth env (runOp contourClockwise env σ) pts (reversePoints pts) ∧
      ((runOp contourClockwise env σ).evs.map (·.name)) = ["Contour.WindingDirectionChanged", "Contour.PointsChanged"]) := by
  intro env
  have hr := clockwiseOf_reverse pts hshape herr
  unfold DescribesContour at hσ
  simp only [runOp, contourClockwise, run_A]
  simp only [runAtoms, List.foldl, stepA, init]
  cases hz : zeroArea pts <;> cases hc : clockwiseOf pts <;> cases v <;>
    simp [env, hz, hc] at hr ⊢ <;>
    simp [stepAtom, eval, hσ, hc, hr, truthy, b2v, setVar, getF_set, postNote, deliver, DescribesContour,
      WindingTruth, Ev.now, ne]

end Setters
end DefconModel
