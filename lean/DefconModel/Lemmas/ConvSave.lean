/-
Helper lemmas about the format-branch part of M-Conv (`DefconModel/ConvSave.lean`).
-/
import DefconModel.Spec.ConvSave
import DefconModel.Lemmas.Conv

namespace DefconModel
namespace Conv

section Fill
variable {α : Type}

theorem fill_loaded (old : String → Option α) (l : List (String × α)) : fill old (loaded l) = some l := by
  induction l with
  | nil => rfl
  | cons p r ih =>
    obtain ⟨n, v⟩ := p
    simp only [loaded, List.map_cons] at ih ⊢
    simp [fill, ih]

theorem fill_keys (old : String → Option α) (l : List (String × Option α)) (full : List (String × α))
    (h : fill old l = some full) : AL.keys full = AL.keys l := by
  induction l generalizing full with
  | nil => simp [fill] at h; subst h; rfl
  | cons p r ih =>
    obtain ⟨n, ov⟩ := p
    cases ov with
    | some v =>
      simp only [fill, Option.map_eq_some_iff] at h
      obtain ⟨f', hf', rfl⟩ := h
      simp [AL.keys] at ih ⊢
      exact ih f' hf'
    | none =>
      simp only [fill] at h
      cases ho : old n with
      | none => simp [ho] at h
      | some v =>
        simp only [ho, Option.map_eq_some_iff] at h
        obtain ⟨f', hf', rfl⟩ := h
        simp [AL.keys] at ih ⊢
        exact ih f' hf'

theorem fill_congr (g1 g2 : String → Option α) (l : List (String × Option α))
    (hg : ∀ k ∈ AL.keys l, g1 k = g2 k) : fill g1 l = fill g2 l := by
  induction l with
  | nil => rfl
  | cons q r ih =>
    obtain ⟨k, ov⟩ := q
    have ih' := ih (fun k' hk' => hg k' (by simp [AL.keys] at hk' ⊢; exact Or.inr hk'))
    cases ov with
    | some v => simp [fill, ih']
    | none => simp [fill, ih', hg k (by simp [AL.keys])]

/-- what was loaded from the old UFO is found again in a UFO that stores the loaded values (through
`f` for the items that came from the old UFO, which `f` does not change) -/
theorem fill_stable (f : α → α) (old : String → Option α) (l : List (String × Option α)) (full : List (String × α))
    (hn : (AL.keys l).Nodup) (h : fill old l = some full)
    (hf : ∀ n v, (n, none) ∈ l → old n = some v → f v = v) :
    fill (fun n => AL.get? (full.map (fun p => (p.1, f p.2))) n) l = some full := by
  induction l generalizing full with
  | nil => simp [fill] at h ⊢; exact h
  | cons p r ih =>
    obtain ⟨n, ov⟩ := p
    simp only [AL.keys, List.map_cons, List.nodup_cons] at hn
    have hrest : ∀ (f' : List (String × α)) (x : α), fill old r = some f' →
        fill (fun k => AL.get? ((n, x) :: f'.map (fun p => (p.1, f p.2))) k) r = some f' := by
      intro f' x hf'
      have := ih f' (by simpa [AL.keys] using hn.2) hf' (fun k v hk' ho => hf k v (by simp [hk']) ho)
      rw [← this]
      apply fill_congr
      intro k hk'
      have hne : n ≠ k := by
        intro e; subst e; exact hn.1 (by simpa [AL.keys] using hk')
      simp [hne]
    cases ov with
    | some v =>
      simp only [fill, Option.map_eq_some_iff] at h
      obtain ⟨f', hf', rfl⟩ := h
      simp only [fill, List.map_cons, hrest f' (f v) hf', Option.map_some]
    | none =>
      simp only [fill] at h
      cases ho : old n with
      | none => simp [ho] at h
      | some v =>
        simp only [ho, Option.map_eq_some_iff] at h
        obtain ⟨f', hf', rfl⟩ := h
        have hfv : f v = v := hf n v (by simp) ho
        have hget : AL.get? ((n, f v) :: f'.map (fun p => (p.1, f p.2))) n = some v := by simp [hfv]
        simp only [fill, List.map_cons, hget, hrest f' (f v) hf', Option.map_some]

theorem fill_unloaded (l : List (String × α)) (hn : (AL.keys l).Nodup) :
    fill (fun n => AL.get? l n) (unloaded l) = some l := by
  induction l with
  | nil => rfl
  | cons p r ih =>
    obtain ⟨n, v⟩ := p
    simp only [AL.keys, List.map_cons, List.nodup_cons] at hn
    have hc : fill (fun k => AL.get? ((n, v) :: r) k) (unloaded r) = fill (fun k => AL.get? r k) (unloaded r) := by
      apply fill_congr
      intro k hk
      have hne : n ≠ k := by
        intro e; subst e
        exact hn.1 (by simpa [AL.keys, unloaded, List.map_map, Function.comp_def] using hk)
      simp [hne]
    have hget : AL.get? ((n, v) :: r) n = some v := by simp
    simp only [unloaded, List.map_cons, fill, hget]
    simp only [unloaded] at hc ih
    rw [hc, ih (by simpa [AL.keys] using hn.2)]
    rfl
end Fill

section AllSome
variable {α α' β : Type}

theorem allSome_map_transfer (f : α → Option β) (g : α' → Option β) (h : α → α') (l : List α) (r : List β)
    (hs : allSome (l.map f) = some r) (hp : ∀ a ∈ l, ∀ b ∈ r, f a = some b → g (h a) = some b) :
    allSome ((l.map h).map g) = some r := by
  induction l generalizing r with
  | nil => simpa [allSome] using hs
  | cons a l ih =>
    simp only [List.map_cons] at hs ⊢
    cases hfa : f a with
    | none => simp [allSome, hfa] at hs
    | some b =>
      simp only [allSome, hfa, Option.map_eq_some_iff] at hs
      obtain ⟨r', hr', rfl⟩ := hs
      have hga := hp a (by simp) b (by simp) hfa
      simp only [allSome, hga]
      rw [ih r' hr' (fun a' ha' b' hb' => hp a' (by simp [ha']) b' (by simp [hb']))]
      rfl

theorem allSome_map_names {γ : Type} (f : α → Option β) (na : α → γ) (nb : β → γ) (l : List α) (r : List β)
    (hs : allSome (l.map f) = some r) (hp : ∀ a b, f a = some b → nb b = na a) : r.map nb = l.map na := by
  induction l generalizing r with
  | nil => simp [allSome] at hs; subst hs; rfl
  | cons a l ih =>
    simp only [List.map_cons] at hs
    cases hfa : f a with
    | none => simp [allSome, hfa] at hs
    | some b =>
      simp only [allSome, hfa, Option.map_eq_some_iff] at hs
      obtain ⟨r', hr', rfl⟩ := hs
      simp [hp a b hfa, ih r' hr']

end AllSome

theorem find?_name_of_mem (ls : List DLayer) (b : DLayer) (hn : (ls.map (fun l => l.name)).Nodup) (hb : b ∈ ls) :
    ls.find? (fun l => l.name = b.name) = some b := by
  induction ls with
  | nil => simp at hb
  | cons x r ih =>
    simp only [List.map_cons, List.nodup_cons, List.mem_map, not_exists, not_and] at hn
    simp only [List.mem_cons] at hb
    rcases hb with rfl | hb
    · simp
    · have hne : x.name ≠ b.name := fun e => hn.1 b hb e.symm
      simp only [List.find?_cons, decide_eq_true_eq, hne, decide_false]
      exact ih hn.2 hb

theorem observe_some (m : Mem) (c : Full) (h : observe m = some c) :
    allSome (m.layers.map (observeLayer m)) = some c.layers ∧
    fill (diskImage? m.bound) m.images = some c.images ∧
    fill (diskData? m.bound) m.data = some c.data ∧
    c.defaultName = m.defaultName ∧ c.parts = m.parts := by
  unfold observe at h
  cases h1 : allSome (m.layers.map (observeLayer m)) with
  | none => simp [h1] at h
  | some ls =>
    cases h2 : fill (diskImage? m.bound) m.images with
    | none => simp [h1, h2] at h
    | some im =>
      cases h3 : fill (diskData? m.bound) m.data with
      | none => simp [h1, h2, h3] at h
      | some da =>
        simp [h1, h2, h3] at h
        subst h
        simp

theorem observeLayer_some (m : Mem) (l : MLayer) (b : DLayer) (h : observeLayer m l = some b) :
    b.name = l.name ∧ b.info = l.info ∧
    fill (diskGlyph? m.bound l.src) l.glyphs = some b.glyphs := by
  unfold observeLayer at h
  simp only [Option.map_eq_some_iff] at h
  obtain ⟨gs, hgs, rfl⟩ := h
  exact ⟨rfl, rfl, hgs⟩

/-! ### the font after a save -/

theorem write_f3 (find : Finder) (maps : Option Maps) (c : Full) (d : Disk) (h : write find .f3 maps c = some d) :
    d.fmt = .f3 ∧ d.layers = c.layers ∧ d.images = c.images ∧ d.data = c.data := by
  simp only [write, Option.some.injEq] at h
  subst h
  simp

theorem write_below3 (find : Finder) (t : Fmt) (ht : t.below3 = true) (maps : Option Maps) (c : Full) (d : Disk)
    (h : write find t maps c = some d) :
    d.fmt = t ∧ d.layers = [⟨"public.default", (defaultGlyphs c).map (fun p => (p.1, glif1 p.2)), 0⟩] ∧
    d.images = [] ∧ d.data = [] := by
  cases t with
  | f3 => simp [Fmt.below3] at ht
  | f2 =>
    simp only [write, Option.some.injEq] at h
    subst h; simp
  | f1 =>
    simp only [write] at h
    split at h
    · simp only [Option.some.injEq] at h
      subst h; simp
    · cases h

theorem map_id_snd {α : Type} (l : List (String × α)) : l.map (fun p => (p.1, id p.2)) = l := by
  induction l with
  | nil => rfl
  | cons p r ih => simp

theorem mem_of_diskGlyph? (d : Disk) (src : Option String) (g : String) (v : Glyph)
    (h : diskGlyph? (some d) src g = some v) : ∃ l ∈ d.layers, (g, v) ∈ l.glyphs := by
  unfold diskGlyph? at h
  cases hl : diskLayer? (some d) src with
  | none => simp [hl] at h
  | some l =>
    simp only [hl] at h
    refine ⟨l, ?_, AL.mem_of_get? h⟩
    unfold diskLayer? at hl
    cases src with
    | none => simp at hl
    | some s => exact List.mem_of_find?_eq_some hl

/-- a layer whose glyphs are all loaded shows them, whatever glyph set it has -/
theorem observeLayer_loaded (m' : Mem) (a : MLayer) (b : DLayer) (src : Option String)
    (h1 : b.name = a.name) (h2 : b.info = a.info) :
    observeLayer m' { a with src := src, glyphs := loaded b.glyphs } = some b := by
  unfold observeLayer
  simp only [fill_loaded, Option.map_some]
  cases b
  simp at h1 h2 ⊢
  exact ⟨h1.symm, h2.symm⟩

/-- the heart of `memory_unchanged`: the font bound to the UFO it has just written still sees
exactly the content it saw before - whatever the layers are called in memory by now and whichever
directory of the old UFO each of them was reading from -/
theorem observe_after_save (find : Finder) (m : Mem) (c : Full) (d : Disk) (t : Fmt) (saveAs : Bool)
    (wf : MemWF m) (hb : BoundGlif1 m) (hsa : saveAs = false → m.fmt = some t)
    (hc : observe m = some c) (hd : write find t m.maps c = some d) :
    observe (afterSave m c t saveAs d) = some c := by
  obtain ⟨hl, him, hda, hdn, hpa⟩ := observe_some m c hc
  have hnames : c.layers.map (fun l => l.name) = m.layers.map (fun l => l.name) :=
    allSome_map_names (observeLayer m) (fun l => l.name) (fun l => l.name) m.layers c.layers hl
      (fun a b hab => (observeLayer_some m a b hab).1)
  have hcn : (c.layers.map (fun l => l.name)).Nodup := by rw [hnames]; exact wf.layerNames
  have hfind : ∀ a ∈ m.layers, ∀ b ∈ c.layers, observeLayer m a = some b →
      c.layers.find? (fun l => l.name = a.name) = some b := by
    intro a _ b hb' hab
    have := find?_name_of_mem c.layers b hcn hb'
    rwa [(observeLayer_some m a b hab).1] at this
  generalize hm' : afterSave m c t saveAs d = m'
  have hbnd : m'.bound = some d := by subst hm'; rfl
  have hdef' : m'.defaultName = m.defaultName := by subst hm'; rfl
  have hparts' : m'.parts = m.parts := by subst hm'; rfl
  have hlayers' : m'.layers = m.layers.map (fun l => rebind m t (preloadLayer m c t saveAs l)) := by
    subst hm'; simp [afterSave, List.map_map, Function.comp_def]
  have himages' : m'.images = if t.below3 then loaded c.images else m.images := by subst hm'; rfl
  have hdata' : m'.data = if t.below3 then loaded c.data else m.data := by subst hm'; rfl
  have hobsL : ∀ l, observeLayer m' l =
      (fill (diskGlyph? (some d) l.src) l.glyphs).map (fun gs => (⟨l.name, gs, l.info⟩ : DLayer)) := by
    intro l; unfold observeLayer; rw [hbnd]
  clear hm'
  -- the layers
  have hlay : allSome ((m.layers.map (fun l => rebind m t (preloadLayer m c t saveAs l))).map (observeLayer m')) =
      some c.layers := by
    apply allSome_map_transfer (observeLayer m) _ _ m.layers c.layers hl
    intro a ha b hb' hab
    obtain ⟨h1, h2, h3⟩ := observeLayer_some m a b hab
    cases hk : keepLazy m t saveAs a with
    | false =>
      -- the save reads the layer completely
      have hpl : preloadLayer m c t saveAs a = { a with glyphs := loaded b.glyphs } := by
        unfold preloadLayer
        simp [hk, hfind a ha b hb' hab]
      rw [hpl]
      exact observeLayer_loaded m' a b _ h1 h2
    | true =>
      have hpl : preloadLayer m c t saveAs a = a := by unfold preloadLayer; simp [hk]
      rw [hpl, hobsL]
      unfold keepLazy at hk
      cases hbt : t.below3 with
      | true =>
        -- the default layer on a plain in-place save below format 3: bound to the one glyph directory
        simp only [hbt, if_true, Bool.and_eq_true, decide_eq_true_eq, Bool.not_eq_true'] at hk
        obtain ⟨hdef, hsaf⟩ := hk
        obtain ⟨hfmt, hlayers, _, _⟩ := write_below3 find t hbt m.maps c d hd
        have hdg : diskGlyph? (some d) (rebind m t a).src =
            fun n => AL.get? (b.glyphs.map (fun p => (p.1, glif1 p.2))) n := by
          funext n
          have : defaultGlyphs c = b.glyphs := by
            unfold defaultGlyphs
            rw [hdn, ← hdef, hfind a ha b hb' hab]
          simp [diskGlyph?, diskLayer?, rebind, hbt, hdef, hlayers, this]
        rw [hdg]
        have := fill_stable glif1 (diskGlyph? m.bound a.src) a.glyphs b.glyphs (wf.glyphNames a ha) h3 (by
          intro n v _ hold
          cases hbd : m.bound with
          | none => rw [hbd] at hold; simp [diskGlyph?, diskLayer?] at hold
          | some d0 =>
            rw [hbd] at hold
            obtain ⟨l0, hl0, hmem⟩ := mem_of_diskGlyph? d0 _ _ _ hold
            have hf0 : d0.fmt = t := by
              have := wf.boundFmt d0 hbd
              rw [hsa hsaf] at this
              exact (Option.some.inj this).symm
            exact hb d0 hbd (by rw [hf0]; intro e; rw [e] at hbt; simp [Fmt.below3] at hbt) l0 hl0 (n, v) hmem)
        have hrn : (rebind m t a).glyphs = a.glyphs ∧ (rebind m t a).name = a.name ∧ (rebind m t a).info = a.info :=
          ⟨rfl, rfl, rfl⟩
        rw [hrn.1, hrn.2.1, hrn.2.2, this]
        cases b
        simp at h1 h2 ⊢
        exact ⟨h1.symm, h2.symm⟩
      | false =>
        have ht3 : t = .f3 := by cases t <;> simp [Fmt.below3] at hbt ⊢
        subst ht3
        obtain ⟨hfmt, hlayers, _, _⟩ := write_f3 find m.maps c d hd
        have hdg : diskGlyph? (some d) (rebind m .f3 a).src =
            fun n => AL.get? (b.glyphs.map (fun p => (p.1, id p.2))) n := by
          funext n
          simp [diskGlyph?, diskLayer?, rebind, Fmt.below3, hlayers, hfind a ha b hb' hab, map_id_snd]
        rw [hdg]
        have := fill_stable id (diskGlyph? m.bound a.src) a.glyphs b.glyphs
          (wf.glyphNames a ha) h3 (fun _ _ _ _ => rfl)
        have hrn : (rebind m .f3 a).glyphs = a.glyphs ∧ (rebind m .f3 a).name = a.name ∧ (rebind m .f3 a).info = a.info :=
          ⟨rfl, rfl, rfl⟩
        rw [hrn.1, hrn.2.1, hrn.2.2, this]
        cases b
        simp at h1 h2 ⊢
        exact ⟨h1.symm, h2.symm⟩
  unfold observe
  rw [hlayers', hlay, himages', hdata', hbnd, hdef', hparts']
  cases hbt : t.below3 with
  | true =>
    simp only [if_true]
    rw [fill_loaded, fill_loaded]
    cases c
    simp at hdn hpa ⊢
    exact ⟨hdn.symm, hpa.symm⟩
  | false =>
    have ht3 : t = .f3 := by cases t <;> simp [Fmt.below3] at hbt ⊢
    subst ht3
    obtain ⟨hfmt, hlayers, himg, hdat⟩ := write_f3 find m.maps c d hd
    simp only [Bool.false_eq_true, if_false]
    have hi : fill (diskImage? (some d)) m.images = some c.images := by
      have := fill_stable id (diskImage? m.bound) m.images c.images wf.imageNames him (fun _ _ _ _ => rfl)
      rw [map_id_snd] at this
      have hfun : diskImage? (some d) = fun n => AL.get? c.images n := by funext n; simp [diskImage?, himg]
      rw [hfun]; exact this
    have hdd : fill (diskData? (some d)) m.data = some c.data := by
      have := fill_stable id (diskData? m.bound) m.data c.data wf.dataNames hda (fun _ _ _ _ => rfl)
      rw [map_id_snd] at this
      have hfun : diskData? (some d) = fun n => AL.get? c.data n := by funext n; simp [diskData?, hdat]
      rw [hfun]; exact this
    rw [hi, hdd]
    cases c
    simp at hdn hpa ⊢
    exact ⟨hdn.symm, hpa.symm⟩


/-! ### well-formedness is kept; reading what was written -/

theorem allSome_mem {α β : Type} (f : α → Option β) (l : List α) (r : List β) (hs : allSome (l.map f) = some r) :
    ∀ b ∈ r, ∃ a ∈ l, f a = some b := by
  induction l generalizing r with
  | nil => simp [allSome] at hs; subst hs; simp
  | cons a l ih =>
    simp only [List.map_cons] at hs
    cases hfa : f a with
    | none => simp [allSome, hfa] at hs
    | some b0 =>
      simp only [allSome, hfa, Option.map_eq_some_iff] at hs
      obtain ⟨r', hr', rfl⟩ := hs
      intro b hb
      simp only [List.mem_cons] at hb
      rcases hb with rfl | hb
      · exact ⟨a, by simp, hfa⟩
      · obtain ⟨a', ha', hfa'⟩ := ih r' hr' b hb
        exact ⟨a', by simp [ha'], hfa'⟩

theorem observe_wf (m : Mem) (c : Full) (wf : MemWF m) (hc : observe m = some c) : FullWF c := by
  obtain ⟨hl, him, hda, _, _⟩ := observe_some m c hc
  refine ⟨?_, ?_, ?_, ?_⟩
  · rw [allSome_map_names (observeLayer m) (fun l => l.name) (fun l => l.name) m.layers c.layers hl
      (fun a b hab => (observeLayer_some m a b hab).1)]
    exact wf.layerNames
  · intro b hb
    obtain ⟨a, ha, hab⟩ := allSome_mem _ _ _ hl b hb
    rw [fill_keys _ _ _ (observeLayer_some m a b hab).2.2]
    exact wf.glyphNames a ha
  · rw [fill_keys _ _ _ him]; exact wf.imageNames
  · rw [fill_keys _ _ _ hda]; exact wf.dataNames

theorem defaultGlyphs_nodup (c : Full) (wf : FullWF c) : (AL.keys (defaultGlyphs c)).Nodup := by
  unfold defaultGlyphs
  split
  · simp [AL.keys]
  · rename_i l hl
    exact wf.glyphNames l (List.mem_of_find?_eq_some hl)

theorem write_wf (find : Finder) (t : Fmt) (maps : Option Maps) (c : Full) (d : Disk) (wf : FullWF c)
    (h : write find t maps c = some d) : DiskWF d := by
  cases hbt : t.below3 with
  | false =>
    have ht3 : t = .f3 := by cases t <;> simp [Fmt.below3] at hbt ⊢
    subst ht3
    simp only [write, Option.some.injEq] at h
    subst h
    exact ⟨wf.layerNames, wf.glyphNames, wf.imageNames, wf.dataNames, fun hne => absurd rfl hne⟩
  | true =>
    obtain ⟨hfmt, hlayers, himg, hdat⟩ := write_below3 find t hbt maps c d h
    have hdn : d.defaultName = "public.default" := by
      cases t with
      | f3 => simp [Fmt.below3] at hbt
      | f2 => simp only [write, Option.some.injEq] at h; subst h; rfl
      | f1 =>
        simp only [write] at h
        split at h
        · simp only [Option.some.injEq] at h; subst h; rfl
        · cases h
    refine ⟨by simp [hlayers], ?_, by simp [himg, AL.keys], by simp [hdat, AL.keys], fun _ => ⟨_, hlayers, hdn.symm⟩⟩
    intro l hl
    rw [hlayers] at hl
    simp only [List.mem_singleton] at hl
    subst hl
    have := defaultGlyphs_nodup c wf
    simpa [AL.keys, List.map_map, Function.comp_def] using this

/-- a freshly opened font shows what is in the UFO -/
theorem observe_read (d : Disk) (mp : Maps) (r : Mem) (wf : DiskWF d) (h : read d mp = some r) :
    ∃ parts, readParts d mp = some parts ∧ observe r = some ⟨d.layers, d.defaultName, parts, d.images, d.data⟩ := by
  have hobs : ∀ (r' : Mem), r'.bound = some d → r'.defaultName = d.defaultName → ∀ a ∈ d.layers,
      observeLayer r' ⟨a.name, some a.name, unloaded a.glyphs, a.info⟩ = some a := by
    intro r' hb hdn a ha
    unfold observeLayer
    simp only [hb]
    have hdg : diskGlyph? (some d) (some a.name) = fun n => AL.get? a.glyphs n := by
      funext n
      unfold diskGlyph? diskLayer?
      simp only
      have := find?_name_of_mem d.layers a wf.layerNames ha
      rw [this]
    rw [hdg, fill_unloaded a.glyphs (wf.glyphNames a ha)]
    rfl
  have h0 : allSome (d.layers.map (fun l => some l)) = some d.layers := by
    generalize d.layers = ls
    induction ls with
    | nil => rfl
    | cons x r ih => simp [allSome, ih]
  have hi : fill (diskImage? (some d)) (unloaded d.images) = some d.images := by
    have : diskImage? (some d) = fun n => AL.get? d.images n := by funext n; rfl
    rw [this]; exact fill_unloaded _ wf.imageNames
  have hda : fill (diskData? (some d)) (unloaded d.data) = some d.data := by
    have : diskData? (some d) = fun n => AL.get? d.data n := by funext n; rfl
    rw [this]; exact fill_unloaded _ wf.dataNames
  unfold read at h
  simp only [Option.map_eq_some_iff] at h
  obtain ⟨parts, hparts, rfl⟩ := h
  refine ⟨parts, hparts, ?_⟩
  unfold observe
  simp only
  rw [allSome_map_transfer (fun l => some l) _ _ d.layers d.layers h0
    (fun a ha b _ hab => by cases hab; exact hobs _ rfl rfl a ha), hi, hda]
  rfl


/-! ### what a reopened UFO shows -/

theorem split_ok_lossless (find : Finder) (hf : FinderOK find) (text : Text) :
    ∃ c fs, split find text = .ok c fs ∧ c ++ flat fs = text := by
  unfold split
  exact splitLoop_lossless find hf text (text.length + 1) text [] [] (by omega) (by simp [flat]) (by simp)

theorem save_some (find : Finder) (m m' : Mem) (t : Fmt) (ip : Bool) (c : Full) (hc : observe m = some c)
    (h : save find m t ip = some m') :
    ∃ d, write find t m.maps c = some d ∧
      m' = afterSave m c t (!ip || decide (m.fmt ≠ some t)) d := by
  unfold save at h
  rw [hc] at h
  simp only at h
  cases hd : write find t m.maps c with
  | none => simp [hd] at h
  | some d =>
    simp only [hd, Option.some.injEq] at h
    exact ⟨d, rfl, h.symm⟩

theorem preserved_of_write (find : Finder) (hf : FinderOK find) (t : Fmt) (old : Option Maps) (mp : Maps)
    (c : Full) (d : Disk) (wfc : FullWF c) (hd : write find t old c = some d)
    (hmaps : t ≠ .f3 → MapsOK mp d.groups d.kerning) (heven : t = .f1 → EvenBlues c.parts.hint) :
    ∃ r c', read d mp = some r ∧ observe r = some c' ∧ Preserved find t old mp c c' := by
  have wfd := write_wf find t old c d wfc hd
  cases t with
  | f3 =>
    simp only [write, Option.some.injEq] at hd
    have hparts : readParts d mp = some c.parts := by subst hd; simp [readParts]
    have hread : ∃ r, read d mp = some r := by unfold read; rw [hparts]; exact ⟨_, rfl⟩
    obtain ⟨r, hr⟩ := hread
    obtain ⟨parts, hp, hobs⟩ := observe_read d mp r wfd hr
    rw [hparts] at hp; cases hp
    refine ⟨r, _, hr, hobs, ?_⟩
    subst hd
    exact { all3 := fun _ => rfl, glyphs := fun h => absurd rfl h, kerning := fun h => absurd rfl h, lib := rfl, info := rfl, hint := rfl,
            featuresDirect := fun h => (by cases h), featuresViaLib := fun h => (by cases h) }
  | f2 =>
    simp only [write, Option.some.injEq] at hd
    have ok := hmaps (by simp)
    have hparts : readParts d mp = some (⟨upKerning mp d.kerning, upGroups mp d.groups, d.lib, d.info, d.hint, 0,
        d.features⟩ : Parts) := by subst hd; simp [readParts]
    have hread : ∃ r, read d mp = some r := by unfold read; rw [hparts]; exact ⟨_, rfl⟩
    obtain ⟨r, hr⟩ := hread
    obtain ⟨parts, hp, hobs⟩ := observe_read d mp r wfd hr
    rw [hparts] at hp; cases hp
    refine ⟨r, _, hr, hobs, ?_⟩
    have hk := downKerning_upKerning mp d.groups d.kerning ok
    have hg := downGroups_upGroups mp d.groups d.kerning ok
    subst hd
    exact { all3 := fun h => (by cases h), glyphs := fun _ => ⟨rfl, rfl, rfl⟩, kerning := fun _ => ⟨hk, hg⟩, lib := rfl, info := rfl, hint := rfl,
            featuresDirect := fun _ => rfl, featuresViaLib := fun h => (by cases h) }
  | f1 =>
    obtain ⟨cl, fs, hsplit, hloss⟩ := split_ok_lossless find hf c.parts.features
    simp only [write, hsplit, Option.some.injEq] at hd
    have ok := hmaps (by simp)
    have hhint := applyHintData_toHintData c.parts.hint ({} : Hint Blob) (heven rfl) ⟨rfl, rfl, rfl, rfl⟩
    have hparts : readParts d mp = some (⟨upKerning mp d.kerning, upGroups mp d.groups, d.lib, d.info, c.parts.hint, 0,
        fromV1 d.v1feat⟩ : Parts) := by
      subst hd; simp [readParts, hhint]
    have hread : ∃ r, read d mp = some r := by unfold read; rw [hparts]; exact ⟨_, rfl⟩
    obtain ⟨r, hr⟩ := hread
    obtain ⟨parts, hp, hobs⟩ := observe_read d mp r wfd hr
    rw [hparts] at hp; cases hp
    refine ⟨r, _, hr, hobs, ?_⟩
    have hk := downKerning_upKerning mp d.groups d.kerning ok
    have hg := downGroups_upGroups mp d.groups d.kerning ok
    subst hd
    exact { all3 := fun h => (by cases h), glyphs := fun _ => ⟨rfl, rfl, rfl⟩, kerning := fun _ => ⟨hk, hg⟩, lib := rfl, info := rfl,
            hint := rfl, featuresDirect := fun h => (by cases h),
            featuresViaLib := fun _ => ⟨cl, fs, hsplit, hloss, fun hdist => by simp only [fromV1, v1Pieces_toV1 cl fs hdist]⟩ }


/-! ### invariants, loading, back to format 3 -/

theorem write_glif1 (find : Finder) (t : Fmt) (maps : Option Maps) (c : Full) (d : Disk)
    (h : write find t maps c = some d) : DiskGlif1 d := by
  intro hne l hl p hp
  cases hbt : t.below3 with
  | false =>
    have ht3 : t = .f3 := by cases t <;> simp [Fmt.below3] at hbt ⊢
    subst ht3
    exact absurd (write_f3 find maps c d h).1 hne
  | true =>
    obtain ⟨_, hlayers, _, _⟩ := write_below3 find t hbt maps c d h
    rw [hlayers] at hl
    simp only [List.mem_singleton] at hl
    subst hl
    simp only [List.mem_map] at hp
    obtain ⟨q, _, rfl⟩ := hp
    rfl

theorem keys_loaded {α : Type} (l : List (String × α)) : AL.keys (loaded l) = AL.keys l := by
  simp [AL.keys, loaded, List.map_map, Function.comp_def]

theorem keys_unloaded {α : Type} (l : List (String × α)) : AL.keys (unloaded l) = AL.keys l := by
  simp [AL.keys, unloaded, List.map_map, Function.comp_def]

theorem preloadLayer_name (m : Mem) (c : Full) (t : Fmt) (sa : Bool) (l : MLayer) :
    (preloadLayer m c t sa l).name = l.name := by
  unfold preloadLayer
  split
  · rfl
  · split <;> rfl

theorem preloadLayer_cases (m : Mem) (c : Full) (t : Fmt) (sa : Bool) (l : MLayer) :
    preloadLayer m c t sa l = l ∨
    ∃ x, c.layers.find? (fun x => x.name = l.name) = some x ∧ keepLazy m t sa l = false ∧
      preloadLayer m c t sa l = { l with glyphs := loaded x.glyphs } := by
  cases hk : keepLazy m t sa l with
  | true => left; unfold preloadLayer; simp [hk]
  | false =>
    cases hf : c.layers.find? (fun x => decide (x.name = l.name)) with
    | none => left; unfold preloadLayer; simp [hk, hf]
    | some x => right; exact ⟨x, rfl, rfl, by unfold preloadLayer; simp [hk, hf]⟩

@[simp] theorem rebind_name (m : Mem) (t : Fmt) (l : MLayer) : (rebind m t l).name = l.name := rfl
@[simp] theorem rebind_glyphs (m : Mem) (t : Fmt) (l : MLayer) : (rebind m t l).glyphs = l.glyphs := rfl
@[simp] theorem rebind_info (m : Mem) (t : Fmt) (l : MLayer) : (rebind m t l).info = l.info := rfl

theorem afterSave_layers (m : Mem) (c : Full) (t : Fmt) (sa : Bool) (d : Disk) :
    (afterSave m c t sa d).layers = m.layers.map (fun l => rebind m t (preloadLayer m c t sa l)) := by
  simp [afterSave, List.map_map, Function.comp_def]

theorem afterSave_images (m : Mem) (c : Full) (t : Fmt) (sa : Bool) (d : Disk) :
    (afterSave m c t sa d).images = if t.below3 then loaded c.images else m.images := rfl

theorem afterSave_data (m : Mem) (c : Full) (t : Fmt) (sa : Bool) (d : Disk) :
    (afterSave m c t sa d).data = if t.below3 then loaded c.data else m.data := rfl

theorem afterSave_bound (m : Mem) (c : Full) (t : Fmt) (sa : Bool) (d : Disk) :
    (afterSave m c t sa d).bound = some d ∧ (afterSave m c t sa d).fmt = some t ∧
    (afterSave m c t sa d).maps = m.maps ∧ (afterSave m c t sa d).defaultName = m.defaultName ∧
    (afterSave m c t sa d).parts = m.parts := ⟨rfl, rfl, rfl, rfl, rfl⟩

/-- the invariants hold for a freshly opened font … -/
theorem read_wf (d : Disk) (mp : Maps) (m : Mem) (wf : DiskWF d) (hg : DiskGlif1 d) (h : read d mp = some m) :
    MemWF m ∧ BoundGlif1 m := by
  unfold read at h
  simp only [Option.map_eq_some_iff] at h
  obtain ⟨parts, _, rfl⟩ := h
  refine ⟨⟨?_, ?_, ?_, ?_, ?_⟩, ?_⟩
  · simpa [List.map_map, Function.comp_def] using wf.layerNames
  · intro l hl
    simp only [List.mem_map] at hl
    obtain ⟨x, hx, rfl⟩ := hl
    simp only [keys_unloaded]
    exact wf.glyphNames x hx
  · simp only [keys_unloaded]; exact wf.imageNames
  · simp only [keys_unloaded]; exact wf.dataNames
  · intro d' hd'; simp only [Option.some.injEq] at hd'; subst hd'; rfl
  · intro d' hd'; simp only [Option.some.injEq] at hd'; subst hd'; exact hg

/-- … and are kept by every save that completes -/
theorem save_wf (find : Finder) (m m' : Mem) (t : Fmt) (ip : Bool) (wf : MemWF m) (h : save find m t ip = some m') :
    MemWF m' ∧ BoundGlif1 m' := by
  cases hc : observe m with
  | none => unfold save at h; simp [hc] at h
  | some c =>
    obtain ⟨d, hd, rfl⟩ := save_some find m m' t ip c hc h
    have wfc := observe_wf m c wf hc
    obtain ⟨hl, him, hda, _, _⟩ := observe_some m c hc
    refine ⟨⟨?_, ?_, ?_, ?_, ?_⟩, ?_⟩
    · simp only [afterSave_layers, List.map_map, Function.comp_def, rebind_name, preloadLayer_name]
      exact wf.layerNames
    · intro l hl
      simp only [afterSave_layers, List.mem_map] at hl
      obtain ⟨a, ha, rfl⟩ := hl
      rw [rebind_glyphs]
      rcases preloadLayer_cases m c t (!ip || decide (m.fmt ≠ some t)) a with h1 | ⟨x, hx, _, h1⟩
      · rw [h1]; exact wf.glyphNames a ha
      · rw [h1]
        simp only [keys_loaded]
        exact wfc.glyphNames x (List.mem_of_find?_eq_some hx)
    · rw [afterSave_images]
      split
      · rw [keys_loaded]; exact wfc.imageNames
      · exact wf.imageNames
    · rw [afterSave_data]
      split
      · rw [keys_loaded]; exact wfc.dataNames
      · exact wf.dataNames
    · intro d' hd'
      rw [(afterSave_bound m c t _ d).1] at hd'
      simp only [Option.some.injEq] at hd'
      subst hd'
      rw [(afterSave_bound m c t _ d).2.1]
      cases hbt : t.below3 with
      | false =>
        have ht3 : t = .f3 := by cases t <;> simp [Fmt.below3] at hbt ⊢
        subst ht3
        rw [(write_f3 find m.maps c d hd).1]
      | true => rw [(write_below3 find t hbt m.maps c d hd).1]
    · intro d' hd'
      rw [(afterSave_bound m c t _ d).1] at hd'
      simp only [Option.some.injEq] at hd'
      subst hd'
      exact write_glif1 find t m.maps c d hd

/-- after a save below format 3 nothing that format cannot store is left unread (and on a save-as
nothing at all) -/
theorem below3_all_loaded (find : Finder) (m m' : Mem) (t : Fmt) (ip : Bool) (ht : t.below3 = true)
    (h : save find m t ip = some m') :
    (∀ p ∈ m'.images, p.2.isSome) ∧ (∀ p ∈ m'.data, p.2.isSome) ∧
    (∀ l ∈ m'.layers, (l.name ≠ m.defaultName ∨ ip = false ∨ m.fmt ≠ some t) → ∀ p ∈ l.glyphs, p.2.isSome) := by
  cases hc : observe m with
  | none => unfold save at h; simp [hc] at h
  | some c =>
    obtain ⟨d, hd, rfl⟩ := save_some find m m' t ip c hc h
    obtain ⟨hl, _, _, _, _⟩ := observe_some m c hc
    have hnames : c.layers.map (fun l => l.name) = m.layers.map (fun l => l.name) :=
      allSome_map_names (observeLayer m) (fun l => l.name) (fun l => l.name) m.layers c.layers hl
        (fun a b hab => (observeLayer_some m a b hab).1)
    have hld : ∀ {α : Type} (l : List (String × α)), ∀ p ∈ loaded l, p.2.isSome := by
      intro α l p hp
      simp only [loaded, List.mem_map] at hp
      obtain ⟨q, _, rfl⟩ := hp
      rfl
    refine ⟨?_, ?_, ?_⟩
    · rw [afterSave_images]; simp only [ht, if_true]; exact hld _
    · rw [afterSave_data]; simp only [ht, if_true]; exact hld _
    · intro l hl' hcond p hp
      simp only [afterSave_layers, List.mem_map] at hl'
      obtain ⟨a, ha, rfl⟩ := hl'
      rw [rebind_name, preloadLayer_name] at hcond
      rw [rebind_glyphs] at hp
      have hkeep : keepLazy m t (!ip || decide (m.fmt ≠ some t)) a = false := by
        unfold keepLazy
        simp only [ht, if_true]
        rcases hcond with h1 | h1 | h1
        · simp [h1]
        · simp [h1]
        · simp [h1]
      have hmem : a.name ∈ c.layers.map (fun l => l.name) := by rw [hnames]; exact List.mem_map.mpr ⟨a, ha, rfl⟩
      obtain ⟨x, hx, hxn⟩ := List.mem_map.mp hmem
      unfold preloadLayer at hp
      simp only [hkeep, Bool.false_eq_true, if_false] at hp
      cases hf : c.layers.find? (fun x => decide (x.name = a.name)) with
      | none =>
        have := List.find?_eq_none.mp hf x hx
        simp [hxn] at this
      | some y =>
        rw [hf] at hp
        exact hld _ p hp

/-- "saving back to UFO 3 from such a font": a font opened from a UFO 1/2 and saved as UFO 3 writes
kerning that names the renamed groups and groups that contain them with the members the old
groups had -/
theorem back_to_3 (find : Finder) (d0 d : Disk) (mp : Maps) (m m' : Mem) (ip : Bool)
    (h0 : d0.fmt ≠ .f3) (ok : MapsOK mp d0.groups d0.kerning)
    (hr : read d0 mp = some m) (hs : save find m .f3 ip = some m') (hb : m'.bound = some d) :
    (∀ a b v, AL.get? d0.kerning (a, b) = some v → AL.get? d.kerning (rn mp.side1 a, rn mp.side2 b) = some v) ∧
    (∀ n ∈ AL.keys d0.groups, AL.get? d.groups n = AL.get? d0.groups n) ∧
    (∀ p ∈ mp.side1 ++ mp.side2, AL.get? d.groups p.2 = AL.get? d0.groups p.1) := by
  have hparts : m.parts.kerning = upKerning mp d0.kerning ∧ m.parts.groups = upGroups mp d0.groups := by
    unfold read at hr
    simp only [Option.map_eq_some_iff] at hr
    obtain ⟨parts, hp, rfl⟩ := hr
    simp only
    unfold readParts at hp
    cases hf : d0.fmt with
    | f3 => exact absurd hf h0
    | f2 => simp only [hf, Option.some.injEq] at hp; subst hp; exact ⟨rfl, rfl⟩
    | f1 =>
      simp only [hf] at hp
      split at hp
      · cases hp
      · simp only [Option.some.injEq] at hp; subst hp; exact ⟨rfl, rfl⟩
  cases hc : observe m with
  | none => unfold save at hs; simp [hc] at hs
  | some c =>
    obtain ⟨d', hd', rfl⟩ := save_some find m m' .f3 ip c hc hs
    rw [(afterSave_bound m c .f3 _ d').1] at hb
    simp only [Option.some.injEq] at hb
    subst hb
    obtain ⟨_, _, _, _, hpa⟩ := observe_some m c hc
    simp only [write, Option.some.injEq] at hd'
    subst hd'
    simp only [hpa, hparts.1, hparts.2]
    exact ⟨fun a b v h => upKerning_pair mp d0.groups d0.kerning ok a b v h,
           fun n hn => upGroups_old mp d0.groups d0.kerning ok n hn,
           fun p hp => upGroups_new mp d0.groups d0.kerning ok p hp⟩


end Conv
end DefconModel
