/-
The stored wiring of M-Cross (`Cross.OState`, changed at the events of the code: layer announcements, begin / end
of a component's own observation) always equals what the tree says (`Cross.watchOf`).
-/
import DefconModel.Lemmas.CrossFrame

set_option linter.unusedSimpArgs false
set_option linter.unusedVariables false

namespace DefconModel
namespace Cross
open Parents

/-- the stored wiring equals what the tree says, for every object -/
def Synced (s : OState) : Prop := ∀ c, s.watchAt c = watchOf s.st c

theorem layerId_of (l : Id) (o : Option Id) : (Watch.of l o).layerId = l := by
  cases o <;> rfl

theorem alive_of_centre {h : Heap} (w : Wired h) {l f : Id} (kl : h.kindOf l = some .layer) (cl : centreOf h l = some f) :
    h.alive l := by
  obtain ⟨nl, enl, _⟩ := kindOf_some kl
  refine ⟨nl, enl, Or.inr ?_⟩
  intro eo
  have : h.ownerOf l = none := by rw [ownerOf_eq enl]; exact eo
  rw [centreOf_loose w.toStruct this (by rw [kl]; simp)] at cl
  cases cl

theorem watchAt_ostep (s : OState) (op : Op) (c : Id) :
    (ostep s op).1.watchAt c =
      if c < (xstep s.st op).1.heap.next then
        settle (xstep s.st op).1 (s.st.baseOf c) c
          ((s.watchAt c).map (rebind (xstep s.st op).1.heap (s.st.baseOf c) (announced s.st.heap op)))
      else none := by
  simp only [ostep, OState.watchAt]
  by_cases hc : c < (xstep s.st op).1.heap.next
  · simp [hc, List.getElem?_map, List.getElem?_range]
  · simp [hc, List.getElem?_map, List.getElem?_range]

theorem ostep_st (s : OState) (op : Op) : (ostep s op).1.st = (xstep s.st op).1 := rfl

theorem watchOf_beyond (s : State) (c : Id) (hc : ¬ c < s.heap.next) : watchOf s c = none := by
  have hc' : s.heap.nodes.length ≤ c := Nat.le_of_not_lt hc
  have : s.heap.kindOf c = none := by
    simp only [Heap.kindOf, Heap.get]
    rw [List.getElem?_eq_none hc']; rfl
  simp [watchOf, this]

/-- one operation keeps the stored wiring equal to what the tree says -/
theorem synced_step {s : OState} (w : Wired s.st.heap) (sy : Synced s) (op : Op) : Synced (ostep s op).1 := by
  intro c
  rw [watchAt_ostep, ostep_st]
  by_cases hc : c < (xstep s.st op).1.heap.next
  · rw [if_pos hc]
    unfold settle
    cases hk : (xstep s.st op).1.heap.kindOf c with
    | none => simp [watchOf, hk]
    | some k =>
      by_cases hkc : k = .component
      · subst hkc
        cases hb : (xstep s.st op).1.baseOf c with
        | none => simp [watchOf, hk, hb]
        | some b' =>
          cases hd : dispOf (xstep s.st op).1.heap c with
          | none => simp [watchOf, hk, hb, hd]
          | some f' =>
            cases hl : layerOf (xstep s.st op).1.heap c with
            | none => simp [watchOf, hk, hb, hd, hl]
            | some l' =>
              have tgt : watchOf (xstep s.st op).1 c =
                  some (Watch.of l' ((xstep s.st op).1.heap.findNamed l' .glyph b')) := by
                simp [watchOf, hk, hb, hd, hl]
              rw [tgt]
              simp only
              cases hw : s.watchAt c with
              | none => simp
              | some w0 =>
                simp only [Option.map_some]
                split
                · rename_i hcond
                  obtain ⟨hlay, hbase⟩ := hcond
                  -- what the component observed before, by the invariant
                  have e0 : watchOf s.st c = some w0 := by rw [← sy c]; exact hw
                  obtain ⟨kc, b, f, l, eb, ed, el, ew⟩ := watchOf_some e0
                  rw [eb] at hbase
                  simp only [Option.some.injEq] at hbase
                  subst hbase
                  obtain ⟨n, en, kn⟩ := kindOf_some kc
                  obtain ⟨kl, cl⟩ := layer_of_leaf_in_font w en (by rw [kn]; rfl) el
                  have cc : centreOf s.st.heap c = some f := by rw [← disp_exact w.toStruct]; exact ed
                  rw [cc] at cl
                  have al := alive_of_centre w kl cl
                  -- the callbacks
                  have hl0 : w0.layerId = l := by rw [ew]; exact layerId_of l _
                  rw [eb] at hlay ⊢
                  simp only [rebind] at hlay ⊢
                  rw [hl0] at hlay ⊢
                  by_cases ha : (l, b) ∈ announced s.st.heap op
                  · rw [if_pos ha] at hlay ⊢
                    rw [layerId_of] at hlay
                    subst hlay
                    rfl
                  · rw [if_neg ha] at hlay ⊢
                    rw [hl0] at hlay
                    subst hlay
                    rw [ew, filing_xstep w op kl al ha]
                · rfl
      · have : watchOf (xstep s.st op).1 c = none := by
          cases k <;> simp [watchOf, hk] at hkc ⊢
        rw [this]
        cases k <;> simp at hkc ⊢
  · rw [if_neg hc, watchOf_beyond _ _ hc]

theorem synced_empty : Synced {} := by
  intro c
  simp [OState.watchAt, watchOf, Heap.kindOf, Heap.get]

theorem orun_st (ops : List Op) : ∀ (s : OState), (orun s ops).st = xrun s.st ops := by
  induction ops with
  | nil => intro s; rfl
  | cons op ops ih => intro s; simp only [orun, xrun, List.foldl_cons] at ih ⊢; exact ih _

theorem synced_run (ops : List Op) : ∀ {s : OState}, Wired s.st.heap → Synced s → Synced (orun s ops) := by
  induction ops with
  | nil => intro s _ sy; exact sy
  | cons op ops ih =>
    intro s w sy
    exact ih (s := (ostep s op).1) (xwired_step w op) (synced_step w sy op)

/-- under the invariant the stored table is the table of the tree -/
theorem storedTable_eq {s : OState} (sy : Synced s) : storedTable s = crossTable s.st := by
  unfold storedTable crossTable
  congr 1
  funext x
  unfold storedRowsOf rowsOf
  rw [sy x]

end Cross
end DefconModel
