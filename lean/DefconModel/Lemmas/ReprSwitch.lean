/-
Observation switching (`mapAllComps (setWatch …)`) changes registrations only: nothing a factory
reads, no chain of component references.
-/
import DefconModel.Lemmas.ReprInv

namespace DefconModel
namespace Repr

variable {V : Type}

theorem get?_mapAllComps (gs : Layer) (f : CompS → CompS) (x : String) :
    AL.get? (mapAllComps gs f) x = (AL.get? gs x).map fun g => { g with comps := g.comps.map f } := by
  unfold mapAllComps
  induction gs with
  | nil => rfl
  | cons p r ih =>
    obtain ⟨k, g⟩ := p
    simp only [List.map_cons, AL.get?_cons]
    by_cases e : k = x
    · simp [e]
    · simp only [e, if_false]; exact ih

theorem contains_mapAllComps (gs : Layer) (f : CompS → CompS) (x : String) :
    AL.contains (mapAllComps gs f) x = AL.contains gs x := by
  unfold AL.contains
  rw [get?_mapAllComps]
  cases AL.get? gs x <;> rfl

theorem keys_mapAllComps (gs : Layer) (f : CompS → CompS) : AL.keys (mapAllComps gs f) = AL.keys gs := by
  unfold mapAllComps AL.keys
  simp [List.map_map, Function.comp_def]

/-- `f` keeps what factories and chains read -/
structure KeepsData (f : CompS → CompS) : Prop where
  id : ∀ k, (f k).id = k.id
  base : ∀ k, (f k).base = k.base
  data : ∀ k, (f k).data = k.data
  attr : ∀ k, (f k).attr = k.attr

theorem keepsData_setWatch (sel : CompS → Bool) (nw : Watch) : KeepsData (setWatch sel nw) := by
  refine ⟨?_, ?_, ?_, ?_⟩ <;> intro k <;> unfold setWatch <;> split <;> rfl

theorem compHead_keeps {f : CompS → CompS} (hf : KeepsData f) (rec : String → List Tok) (k : CompS) :
    compHead rec (f k) = compHead rec k := by
  unfold compHead; rw [hf.base, hf.data]

theorem outline_mapAllComps {f : CompS → CompS} (hf : KeepsData f) (n : Nat) (gs : Layer) (x : String) :
    outline n (mapAllComps gs f) x = outline n gs x := by
  induction n generalizing x with
  | zero => rfl
  | succ n ih =>
    unfold outline
    rw [get?_mapAllComps]
    cases AL.get? gs x with
    | none => rfl
    | some g =>
      simp only [Option.map_some, bodyWith]
      congr 3
      rw [List.flatMap_map]
      apply flatMap_congr'
      intro k _
      rw [compHead_keeps hf]
      unfold compHead
      cases k.base with
      | none => rfl
      | some c => simp only; rw [ih]

theorem readsN_mapAllComps {f : CompS → CompS} (hf : KeepsData f) (gs : Layer) {n : Nat} {x a : String} :
    ReadsN (mapAllComps gs f) n x a ↔ ReadsN gs n x a := by
  constructor
  · intro h
    induction h with
    | refl a => exact ReadsN.refl a
    | step g k hg hk hb _ ih =>
      rw [get?_mapAllComps] at hg
      cases hg0 : AL.get? gs _ with
      | none => rw [hg0] at hg; cases hg
      | some g0 =>
        rw [hg0] at hg
        simp only [Option.map_some, Option.some.injEq] at hg
        subst hg
        simp only [List.mem_map] at hk
        obtain ⟨k0, hk0, e⟩ := hk
        subst e
        rw [hf.base] at hb
        exact ReadsN.step g0 k0 hg0 hk0 hb ih
  · intro h
    induction h with
    | refl a => exact ReadsN.refl a
    | step g k hg hk hb _ ih =>
      refine ReadsN.step { g with comps := g.comps.map f } (f k) ?_ (List.mem_map_of_mem hk) (by rw [hf.base]; exact hb) ih
      rw [get?_mapAllComps, hg]; rfl

theorem bounded_mapAllComps {f : CompS → CompS} (hf : KeepsData f) (gs : Layer) (fuel : Nat) :
    Bounded (mapAllComps gs f) fuel ↔ Bounded gs fuel := by
  constructor
  · intro h n x a hr; exact h n x a ((readsN_mapAllComps hf gs).mpr hr)
  · intro h n x a hr; exact h n x a ((readsN_mapAllComps hf gs).mp hr)

theorem outline_mapAllComps_fun {f : CompS → CompS} (hf : KeepsData f) (n : Nat) (gs : Layer) :
    outline n (mapAllComps gs f) = outline n gs := by
  funext x; exact outline_mapAllComps hf n gs x

theorem hasComp_mapped {f : CompS → CompS} (hf : KeepsData f) (kid : Nat) (g : GlyphS) :
    hasComp kid { g with comps := g.comps.map f } = hasComp kid g := by
  unfold hasComp
  simp only [List.any_map]
  congr 1
  funext k
  simp [hf.id]

theorem compIn_mapped {f : CompS → CompS} (hf : KeepsData f) (kid : Nat) (g : GlyphS) :
    compIn { g with comps := g.comps.map f } kid = (compIn g kid).map f := by
  unfold compIn
  simp only [List.find?_map]
  congr 2
  funext k
  simp [hf.id]

theorem hostOfContour_mapAll (gs : Layer) (f : CompS → CompS) (cid : Nat) :
    hostOfContour (mapAllComps gs f) cid =
      (hostOfContour gs cid).map fun p => (p.1, { p.2 with comps := p.2.comps.map f }) := by
  unfold hostOfContour mapAllComps
  rw [List.find?_map]
  rfl

theorem hostOfComp_mapAll {f : CompS → CompS} (hf : KeepsData f) (gs : Layer) (kid : Nat) :
    hostOfComp (mapAllComps gs f) kid =
      (hostOfComp gs kid).map fun p => (p.1, { p.2 with comps := p.2.comps.map f }) := by
  unfold hostOfComp mapAllComps
  rw [List.find?_map]
  congr 2
  funext p
  exact hasComp_mapped hf kid p.2

theorem glyphOutline_mapped {f : CompS → CompS} (hf : KeepsData f) (n : Nat) (gs : Layer) (g : GlyphS) :
    glyphOutline n (mapAllComps gs f) { g with comps := g.comps.map f } = glyphOutline n gs g := by
  unfold glyphOutline bodyWith
  rw [outline_mapAllComps_fun hf]
  simp only
  congr 3
  rw [List.flatMap_map]
  apply flatMap_congr'
  intro k _
  exact compHead_keeps hf _ k

/-- switching registrations changes no view and no attachment -/
theorem view_mapAll {f : CompS → CompS} (hf : KeepsData f) (T : Tables) (w w2 : World V)
    (hgs : w2.glyphs = mapAllComps w.glyphs f) (hlc : w2.looseC = w.looseC) (hlk : w2.looseK = w.looseK)
    (hfu : w2.fuel = w.fuel) (hgv : w2.groupsVer = w.groupsVer) (o : Obj) (nm : String) :
    viewOf T w2 o nm = viewOf T w o nm ∧ attached w2 o = attached w o := by
  cases o with
  | groups => simp [viewOf, attached, hgv]
  | contour cid =>
    simp only [viewOf, attached, findContour, hgs, hlc, hostOfContour_mapAll]
    cases hostOfContour w.glyphs cid with
    | none => simp
    | some p => simp [contourIn]
  | comp kid =>
    simp only [viewOf, attached, findComp, hgs, hlk, hfu, hostOfComp_mapAll hf]
    cases hh : hostOfComp w.glyphs kid with
    | none =>
      simp only [Option.map_none, Option.isSome_none, and_true]
      cases w.looseK.find? (fun k => k.id = kid) with
      | none => rfl
      | some k =>
        simp only [Option.map_some, Option.getD_some]
        unfold compView compToks
        rw [outline_mapAllComps_fun hf]
    | some p =>
      simp only [Option.map_some, Option.isSome_some, and_true]
      rw [compIn_mapped hf]
      cases compIn p.2 kid with
      | none => rfl
      | some k =>
        simp only [Option.map_some, Option.getD_some]
        unfold compView compToks
        rw [outline_mapAllComps_fun hf, compHead_keeps hf, hf.data, hf.attr]
  | glyph x =>
    simp only [viewOf, attached, hgs, hfu, contains_mapAllComps, and_true]
    rw [get?_mapAllComps]
    cases AL.get? w.glyphs x with
    | none => rfl
    | some g =>
      simp only [Option.map_some, Option.getD_some]
      unfold glyphView
      rw [glyphOutline_mapped hf]
      simp only [List.map_map]
      congr 3
      funext k
      simp [hf.attr]

/-! ### what a switching callback delivers -/

/-- the deliveries `switchAndPost` computes -/
def switchDs (T : Tables) (w : World V) (sel : CompS → Bool) (nw : Watch) (cb : String) : List (Obj × String) :=
  (w.glyphs.flatMap (compSel sel)).flatMap fun p =>
    compDeliv w.fuel T (mapAllComps w.glyphs (setWatch sel nw)) p.1 p.2 (T.postsOf "Component" cb)

theorem switchAndPost_eq (T : Tables) (w : World V) (sel : CompS → Bool) (nw : Watch) (cb : String) :
    switchAndPost T w sel nw cb =
      applyDeliv T { w with glyphs := mapAllComps w.glyphs (setWatch sel nw) } (switchDs T w sel nw cb) := rfl

theorem mem_switchDs {T : Tables} {w : World V} {sel : CompS → Bool} {nw : Watch} {cb : String}
    {z : String} {gz : GlyphS} {kz : CompS} (hg : AL.get? w.glyphs z = some gz) (hk : kz ∈ gz.comps)
    (hs : sel kz = true) {y : Obj × String}
    (hy : y ∈ compDeliv w.fuel T (mapAllComps w.glyphs (setWatch sel nw)) z kz.id (T.postsOf "Component" cb)) :
    y ∈ switchDs T w sel nw cb := by
  unfold switchDs
  rw [List.mem_flatMap]
  refine ⟨(z, kz.id), ?_, hy⟩
  rw [List.mem_flatMap]
  refine ⟨(z, gz), AL.mem_of_get? hg, ?_⟩
  unfold compSel
  rw [List.mem_map]
  exact ⟨kz, by simp [List.mem_filter, hk, hs], rfl⟩

/-- Every component whose base is `name` has run a switching callback `cb` (its deliveries are in
`ds`).  Then everything that reads `name` through components is destroyed: the built-in
representations of such a component and every representation of the glyph that holds it. -/
theorem switch_hits (T : Tables) (hcov : Coverage T = true) (gs2 : Layer) (fuel : Nat) (name cb : String)
    (ds : List (Obj × String)) (hcbm : cb ∈ compCallbacks) (hb : Bounded gs2 fuel)
    (hWx : ∀ x' g k x, AL.get? gs2 x' = some g → k ∈ g.comps → k.base = some x → x ≠ name →
      AL.contains gs2 x = true → k.watch = Watch.base)
    (hsel : ∀ z gz kz, AL.get? gs2 z = some gz → kz ∈ gz.comps → kz.base = some name →
      ∀ y, y ∈ compDeliv fuel T gs2 z kz.id (T.postsOf "Component" cb) → y ∈ ds)
    {x' : String} {gx : GlyphS} {k : CompS} {c : String} {m : Nat}
    (hgx : AL.get? gs2 x' = some gx) (hk : k ∈ gx.comps) (hbase : k.base = some c) (hrd : ReadsN gs2 m c name) :
    (∀ nm, isBuiltin T "Component" nm = true →
      ∃ d y, (nm, d) ∈ T.factoriesOf "Component" ∧ (Obj.comp k.id, y) ∈ ds ∧ d.hit y = true) ∧
    (∀ regs nm, (∀ r, r ∈ regs → r.2.2 = T.defaultDestr r.1) →
      (facsOf T regs "Glyph").any (fun p => p.1 = nm) = true →
      ∃ d y, (nm, d) ∈ facsOf T regs "Glyph" ∧ (Obj.glyph x', y) ∈ ds ∧ d.hit y = true) := by
  have hbg := cov_glyphOutline hcov (m := "_componentBaseGlyphDataChanged") (by simp [glyphOutlineMethods])
  have hcb := cov_compCallback hcov hcbm
  obtain ⟨j, hj⟩ := fuel_pos hb
  cases m with
  | zero =>
    cases hrd
    -- the component itself ran the callback
    have hin := hsel x' gx k hgx hk hbase
    constructor
    · intro nm hbi
      unfold isBuiltin at hbi
      rw [List.any_eq_true] at hbi
      obtain ⟨p, hp, hpn⟩ := hbi
      simp only [decide_eq_true_eq] at hpn
      have := List.all_eq_true.mp hcb.1 p hp
      rw [List.any_eq_true] at this
      obtain ⟨y, hy, hhit⟩ := this
      exact ⟨p.2, y, by rw [← hpn]; exact hp, hin _ (compDeliv_self hy), hhit⟩
    · intro regs nm hreg hnm
      obtain ⟨d, y, hd, hy, hhit⟩ := hits_of_hitsAll hreg hbg.1 hnm
      refine ⟨d, y, hd, hin _ ?_, hhit⟩
      subst hj
      exact compRelay_bg hcb.2 (glyphDeliv_self hy)
  | succ m =>
    obtain ⟨z, gz, kz, hcz, hgz, hkz, hbz⟩ := hrd.tail
    have hin := hsel z gz kz hgz hkz hbz
    -- glyph z posts what `_componentBaseGlyphDataChanged` posts; the cascade carries on from there
    have hz : ∀ y, y ∈ glyphDeliv fuel T gs2 z (bgPosts T) → y ∈ ds :=
      fun y hy => hin y (compRelay_bg hcb.2 hy)
    have hzc : AL.contains gs2 z = true := by simp [AL.contains, hgz]
    have hW : ∀ n x, ReadsN gs2 n x z → ∀ x'' g'' k'', AL.get? gs2 x'' = some g'' → k'' ∈ g''.comps →
        k''.base = some x → k''.watch = Watch.base := by
      intro n x hx x'' g'' k'' hg'' hk'' hb''
      apply hWx x'' g'' k'' x hg'' hk'' hb''
      · -- x = name would close a cycle name → … → z → name
        intro e
        subst e
        have := no_cycle hb (hx.trans (ReadsN.step gz kz hgz hkz hbz (ReadsN.refl x)))
        omega
      · cases hx with
        | refl => exact hzc
        | step g1 _ hg1 _ _ _ => simp [AL.contains, hg1]
    have hcbd := cov_compCallback hcov (cb := "baseGlyphDataChangedNotificationCallback") (by simp [compCallbacks])
    constructor
    · intro nm hbi
      have hdel := (cascade_complete T gs2 fuel z (bgPosts T) hbg.2 hcbd.2 hb hW hbg.2 m c hcz x' gx k hgx hk hbase).1
      unfold isBuiltin at hbi
      rw [List.any_eq_true] at hbi
      obtain ⟨p, hp, hpn⟩ := hbi
      simp only [decide_eq_true_eq] at hpn
      have := List.all_eq_true.mp hcbd.1 p hp
      rw [List.any_eq_true] at this
      obtain ⟨y, hy, hhit⟩ := this
      exact ⟨p.2, y, by rw [← hpn]; exact hp, hz _ (hdel y hy), hhit⟩
    · intro regs nm hreg hnm
      obtain ⟨d, y, hd, hy, hhit⟩ := hits_of_hitsAll hreg hbg.1 hnm
      exact ⟨d, y, hd, hz _ (cascade_glyph T gs2 fuel z (bgPosts T) hbg.2 hcbd.2 hb hW hbg.2 hcz hgx hk hbase hy), hhit⟩

end Repr
end DefconModel
