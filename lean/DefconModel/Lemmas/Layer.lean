/-
Helper lemmas about M-Layer.  Property theorems live in Props/C07.lean and Props/C09.lean.
-/
import DefconModel.Layer
import DefconModel.Spec.Layer

namespace DefconModel
namespace Layer

/-! ### the unicode map -/

theorem namesAt_set (m : Cmap) (v c : Nat) (l : List String) :
    namesAt (AL.set m v l) c = if v = c then l else namesAt m c := by
  unfold namesAt
  rw [AL.get?_set]
  split <;> simp

theorem namesAt_erase (m : Cmap) (v c : Nat) (h : (AL.keys m).Nodup) :
    namesAt (AL.erase m v) c = if v = c then [] else namesAt m c := by
  unfold namesAt
  rw [AL.get?_erase _ _ _ h]
  split <;> simp

theorem namesAt_nodup {m : Cmap} (h : UniWF m) (c : Nat) : (namesAt m c).Nodup := by
  unfold namesAt
  cases hg : AL.get? m c with
  | none => simp
  | some l => simpa using h.lists _ (AL.mem_of_get? hg)

theorem uniWF_nil : UniWF [] := ⟨by simp [AL.keys], by simp⟩

theorem uniWF_set {m : Cmap} (h : UniWF m) (v : Nat) (l : List String) (hl : l.Nodup) :
    UniWF (AL.set m v l) := by
  refine ⟨AL.nodup_keys_set _ _ _ h.keys, ?_⟩
  intro p hp
  rcases AL.mem_set hp with e | hm
  · subst e; exact hl
  · exact h.lists _ hm

theorem uniWF_erase {m : Cmap} (h : UniWF m) (v : Nat) : UniWF (AL.erase m v) :=
  ⟨AL.nodup_keys_erase _ _ h.keys, fun p hp => h.lists _ (AL.mem_erase hp)⟩

theorem uniWF_uniAdd {m : Cmap} (h : UniWF m) (n : String) (vs : List Nat) : UniWF (uniAdd m n vs) := by
  induction vs generalizing m with
  | nil => exact h
  | cons v vs ih =>
    unfold uniAdd
    apply ih
    apply uniWF_set h
    split
    · exact namesAt_nodup h v
    · rename_i hn
      rw [List.nodup_append]
      refine ⟨namesAt_nodup h v, by simp, ?_⟩
      intro a ha b hb
      simp at hb; subst hb
      intro e; subst e; exact hn ha

theorem mem_uniAdd (m : Cmap) (n n' : String) (vs : List Nat) (c : Nat) :
    n' ∈ namesAt (uniAdd m n vs) c ↔ n' ∈ namesAt m c ∨ (n' = n ∧ c ∈ vs) := by
  induction vs generalizing m with
  | nil => simp [uniAdd]
  | cons v vs ih =>
    unfold uniAdd
    rw [ih, namesAt_set]
    by_cases e : v = c
    · subst e
      by_cases hm : n ∈ namesAt m v
      · simp only [hm, if_true, List.mem_cons, true_or, and_true]
        constructor
        · rintro (h | h)
          · exact Or.inl h
          · exact Or.inr h.1
        · rintro (h | h)
          · exact Or.inl h
          · subst h; exact Or.inl hm
      · simp only [hm, if_false, if_true, List.mem_append, List.mem_singleton, List.mem_cons, true_or, and_true]
        constructor
        · rintro ((h | h) | h)
          · exact Or.inl h
          · exact Or.inr h
          · exact Or.inr h.1
        · rintro (h | h)
          · exact Or.inl (Or.inl h)
          · exact Or.inl (Or.inr h)
    · have e' : ¬ c = v := fun x => e x.symm
      simp [e, e']

theorem uniWF_uniRemove {m : Cmap} (h : UniWF m) (n : String) (vs : List Nat) : UniWF (uniRemove m n vs) := by
  induction vs generalizing m with
  | nil => exact h
  | cons v vs ih =>
    unfold uniRemove
    split
    · exact ih h
    · rename_i l hg
      simp only
      apply ih
      split
      · exact uniWF_erase h v
      · apply uniWF_set h
        exact (List.erase_sublist).nodup (h.lists _ (AL.mem_of_get? hg))

theorem mem_uniRemove {m : Cmap} (h : UniWF m) (n n' : String) (vs : List Nat) (c : Nat) :
    n' ∈ namesAt (uniRemove m n vs) c ↔ n' ∈ namesAt m c ∧ ¬ (n' = n ∧ c ∈ vs) := by
  induction vs generalizing m with
  | nil => simp [uniRemove]
  | cons v vs ih =>
    unfold uniRemove
    split
    · rename_i hg
      rw [ih h]
      by_cases e : c = v
      · subst e; simp [namesAt, hg]
      · simp [e]
    · rename_i l hg
      simp only
      have hl : l.Nodup := h.lists _ (AL.mem_of_get? hg)
      have hnames : namesAt m v = l := by simp [namesAt, hg]
      by_cases hemp : (l.erase n).isEmpty = true
      · simp only [hemp, if_true]
        rw [ih (uniWF_erase h v), namesAt_erase _ _ _ h.keys]
        by_cases e : v = c
        · subst e
          have : l.erase n = [] := by simpa using hemp
          have hmem : ∀ x, x ∈ l → x = n := by
            intro x hx
            by_contra hne
            have : x ∈ l.erase n := (hl.mem_erase_iff).mpr ⟨hne, hx⟩
            simp_all
          simp only [if_true, List.not_mem_nil, false_and, hnames, List.mem_cons, true_or, and_true, false_iff,
            not_and, Decidable.not_not]
          intro hx; exact hmem _ hx
        · have e' : ¬ c = v := fun x => e x.symm
          simp [e, e']
      · simp only [hemp, Bool.false_eq_true, if_false]
        rw [ih (uniWF_set h v _ ((List.erase_sublist).nodup hl)), namesAt_set]
        by_cases e : v = c
        · subst e
          simp only [if_true, hnames, List.mem_cons, true_or, and_true]
          rw [hl.mem_erase_iff]
          constructor
          · rintro ⟨⟨h1, h2⟩, _⟩; exact ⟨h2, h1⟩
          · rintro ⟨h1, h2⟩; exact ⟨⟨h2, h1⟩, fun x => h2 x.1⟩
        · have e' : ¬ c = v := fun x => e x.symm
          simp [e, e']

end Layer
end DefconModel
