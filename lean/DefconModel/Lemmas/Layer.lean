/-
Helper lemmas about M-Layer.  Property theorems live in Props/C07.lean and Props/C09.lean.
-/
import DefconModel.Layer
import DefconModel.Spec.Layer

namespace DefconModel
namespace Layer

/-! ### the unicode map -/

theorem namesAt_set (m : Cmap) (v c : Nat) (l : List String) :
    namesAt (AL.set m v l) c = if v = c then l else namesAt m c := by
  unfold namesAt
  rw [AL.get?_set]
  split <;> simp

theorem namesAt_erase (m : Cmap) (v c : Nat) (h : (AL.keys m).Nodup) :
    namesAt (AL.erase m v) c = if v = c then [] else namesAt m c := by
  unfold namesAt
  rw [AL.get?_erase _ _ _ h]
  split <;> simp

theorem namesAt_nodup {m : Cmap} (h : UniWF m) (c : Nat) : (namesAt m c).Nodup := by
  unfold namesAt
  cases hg : AL.get? m c with
  | none => simp
  | some l => simpa using h.lists _ (AL.mem_of_get? hg)

theorem uniWF_nil : UniWF [] := ⟨by simp [AL.keys], by simp⟩

theorem uniWF_set {m : Cmap} (h : UniWF m) (v : Nat) (l : List String) (hl : l.Nodup) :
    UniWF (AL.set m v l) := by
  refine ⟨AL.nodup_keys_set _ _ _ h.keys, ?_⟩
  intro p hp
  rcases AL.mem_set hp with e | hm
  · subst e; exact hl
  · exact h.lists _ hm

theorem uniWF_erase {m : Cmap} (h : UniWF m) (v : Nat) : UniWF (AL.erase m v) :=
  ⟨AL.nodup_keys_erase _ _ h.keys, fun p hp => h.lists _ (AL.mem_erase hp)⟩

theorem uniWF_uniAdd {m : Cmap} (h : UniWF m) (n : String) (vs : List Nat) : UniWF (uniAdd m n vs) := by
  induction vs generalizing m with
  | nil => exact h
  | cons v vs ih =>
    unfold uniAdd
    apply ih
    apply uniWF_set h
    split
    · exact namesAt_nodup h v
    · rename_i hn
      rw [List.nodup_append]
      refine ⟨namesAt_nodup h v, by simp, ?_⟩
      intro a ha b hb
      simp at hb; subst hb
      intro e; subst e; exact hn ha

theorem mem_uniAdd (m : Cmap) (n n' : String) (vs : List Nat) (c : Nat) :
    n' ∈ namesAt (uniAdd m n vs) c ↔ n' ∈ namesAt m c ∨ (n' = n ∧ c ∈ vs) := by
  induction vs generalizing m with
  | nil => simp [uniAdd]
  | cons v vs ih =>
    unfold uniAdd
    rw [ih, namesAt_set]
    by_cases e : v = c
    · subst e
      by_cases hm : n ∈ namesAt m v
      · simp only [hm, if_true, List.mem_cons, true_or, and_true]
        grind
      · simp only [hm, if_false, if_true, List.mem_append, List.mem_cons, List.not_mem_nil, or_false, true_or, and_true]
        grind
    · have e' : ¬ c = v := fun x => e x.symm
      simp [e, e']

theorem uniWF_uniRemove {m : Cmap} (h : UniWF m) (n : String) (vs : List Nat) : UniWF (uniRemove m n vs) := by
  induction vs generalizing m with
  | nil => exact h
  | cons v vs ih =>
    unfold uniRemove
    split
    · exact ih h
    · rename_i l hg
      simp only
      apply ih
      split
      · exact uniWF_erase h v
      · apply uniWF_set h
        exact (List.erase_sublist).nodup (h.lists _ (AL.mem_of_get? hg))

theorem mem_uniRemove {m : Cmap} (h : UniWF m) (n n' : String) (vs : List Nat) (c : Nat) :
    n' ∈ namesAt (uniRemove m n vs) c ↔ n' ∈ namesAt m c ∧ ¬ (n' = n ∧ c ∈ vs) := by
  induction vs generalizing m with
  | nil => simp [uniRemove]
  | cons v vs ih =>
    unfold uniRemove
    split
    · rename_i hg
      rw [ih h]
      by_cases e : c = v
      · subst e; simp [namesAt, hg]
      · simp [e]
    · rename_i l hg
      simp only
      have hl : l.Nodup := h.lists _ (AL.mem_of_get? hg)
      have hnames : namesAt m v = l := by simp [namesAt, hg]
      have herase : ∀ x, x ∈ l.erase n ↔ x ≠ n ∧ x ∈ l := fun x => hl.mem_erase_iff
      by_cases hemp : (l.erase n).isEmpty = true
      · rw [if_pos hemp, ih (uniWF_erase h v), namesAt_erase _ _ _ h.keys]
        by_cases e : v = c
        · subst e
          have hnil : l.erase n = [] := by simpa using hemp
          have hmem : ∀ x, x ∈ l → x = n := by
            intro x hx
            by_cases hne : x = n
            · exact hne
            · have : x ∈ l.erase n := (herase x).mpr ⟨hne, hx⟩
              rw [hnil] at this
              simp at this
          rw [hnames]
          simp only [if_true, List.not_mem_nil, false_and, List.mem_cons, true_or, and_true, false_iff, not_and,
            Decidable.not_not]
          intro hx; exact hmem _ hx
        · have e' : ¬ c = v := fun x => e x.symm
          simp [e, e']
      · rw [if_neg hemp, ih (uniWF_set h v _ ((List.erase_sublist).nodup hl)), namesAt_set]
        by_cases e : v = c
        · subst e
          rw [hnames]
          simp only [if_true, List.mem_cons, true_or, and_true]
          rw [herase]
          grind
        · have e' : ¬ c = v := fun x => e x.symm
          simp [e, e']

/-! ### the unicode map, with multiplicities -/

/-- `k` applications of `g` -/
def iter {α : Type} (g : α → α) : Nat → α → α
  | 0, x => x
  | k + 1, x => iter g k (g x)

/-- a fold of per-code-point steps, each of which rewrites the one entry it addresses with `g` -/
theorem namesAt_foldl_step (step : Cmap → Nat → Cmap) (g : List String → List String) (P : Cmap → Prop)
    (hstep : ∀ m v, P m → P (step m v) ∧ ∀ c, namesAt (step m v) c = if v = c then g (namesAt m c) else namesAt m c)
    (vs : List Nat) (m : Cmap) (hm : P m) :
    P (vs.foldl step m) ∧ ∀ c, namesAt (vs.foldl step m) c = iter g (vs.count c) (namesAt m c) := by
  induction vs generalizing m with
  | nil => exact ⟨hm, fun c => rfl⟩
  | cons v vs ih =>
    obtain ⟨h1, h2⟩ := hstep m v hm
    obtain ⟨h3, h4⟩ := ih (step m v) h1
    refine ⟨h3, fun c => ?_⟩
    simp only [List.foldl_cons]
    rw [h4, h2, List.count_cons]
    by_cases e : v = c
    · subst e; simp [iter]
    · simp [e]

theorem mapWF_nil : MapWF [] := ⟨by simp [AL.keys], by simp⟩

theorem mapWF_set {m : Cmap} (h : MapWF m) (v : Nat) (l : List String) (hl : l ≠ []) : MapWF (AL.set m v l) := by
  refine ⟨AL.nodup_keys_set _ _ _ h.keys, ?_⟩
  intro p hp
  rcases AL.mem_set hp with e | hm
  · subst e; exact hl
  · exact h.nonempty _ hm

theorem mapWF_erase {m : Cmap} (h : MapWF m) (v : Nat) : MapWF (AL.erase m v) :=
  ⟨AL.nodup_keys_erase _ _ h.keys, fun p hp => h.nonempty _ (AL.mem_erase hp)⟩

/-- one round of `removeGlyphData`'s loop -/
def removeOne (n : String) (m : Cmap) (v : Nat) : Cmap :=
  match AL.get? m v with
  | none => m
  | some l => if (l.erase n).isEmpty then AL.erase m v else AL.set m v (l.erase n)

theorem uniRemove_eq_foldl (m : Cmap) (n : String) (vs : List Nat) :
    uniRemove m n vs = vs.foldl (removeOne n) m := by
  induction vs generalizing m with
  | nil => rfl
  | cons v vs ih =>
    simp only [List.foldl_cons]
    rw [← ih]
    unfold removeOne
    cases hg : AL.get? m v with
    | none => simp [uniRemove, hg]
    | some l => simp [uniRemove, hg]

theorem removeOne_spec (n : String) (m : Cmap) (v : Nat) (h : MapWF m) :
    MapWF (removeOne n m v) ∧
      ∀ c, namesAt (removeOne n m v) c = if v = c then (namesAt m c).erase n else namesAt m c := by
  unfold removeOne
  cases hg : AL.get? m v with
  | none =>
    refine ⟨h, fun c => ?_⟩
    by_cases e : v = c
    · subst e; simp [namesAt, hg]
    · simp [e]
  | some l =>
    have hnames : namesAt m v = l := by simp [namesAt, hg]
    simp only
    by_cases hemp : (l.erase n).isEmpty = true
    · rw [if_pos hemp]
      refine ⟨mapWF_erase h v, fun c => ?_⟩
      rw [namesAt_erase _ _ _ h.keys]
      by_cases e : v = c
      · subst e
        have : l.erase n = [] := by simpa using hemp
        simp [hnames, this]
      · simp [e]
    · rw [if_neg hemp]
      refine ⟨mapWF_set h v _ (by simpa using hemp), fun c => ?_⟩
      rw [namesAt_set]
      by_cases e : v = c
      · subst e; simp [hnames]
      · simp [e]

theorem count_iter_erase (n n' : String) (k : Nat) (l : List String) :
    (iter (fun l => l.erase n) k l).count n' = if n' = n then l.count n - k else l.count n' := by
  induction k generalizing l with
  | zero => by_cases e : n' = n <;> simp [iter, e]
  | succ k ih =>
    simp only [iter]
    rw [ih]
    by_cases e : n' = n
    · simp only [e, if_true]
      rw [List.count_erase_self]
      omega
    · simp only [e, if_false]
      exact List.count_erase_of_ne e

/-- `removeGlyphData(n, vs)`: the shape of the map is kept, and under code point `c` one occurrence of `n` goes
for every occurrence of `c` in `vs` (as far as there are any); no other name is touched -/
theorem uniRemove_spec {m : Cmap} (h : MapWF m) (n : String) (vs : List Nat) :
    MapWF (uniRemove m n vs) ∧ ∀ c n', (namesAt (uniRemove m n vs) c).count n' =
      if n' = n then (namesAt m c).count n - vs.count c else (namesAt m c).count n' := by
  rw [uniRemove_eq_foldl]
  obtain ⟨h1, h2⟩ := namesAt_foldl_step (removeOne n) (fun l => l.erase n) MapWF
    (fun m v hm => removeOne_spec n m v hm) vs m h
  refine ⟨h1, fun c n' => ?_⟩
  rw [h2, count_iter_erase]

/-- `addGlyphData`'s guarded append -/
def addG (n : String) (l : List String) : List String := if n ∈ l then l else l ++ [n]

theorem addG_ne_nil (n : String) (l : List String) : addG n l ≠ [] := by
  unfold addG
  split
  · rename_i h; intro e; rw [e] at h; simp at h
  · simp

theorem mem_addG_self (n : String) (l : List String) : n ∈ addG n l := by
  unfold addG; split <;> simp [*]

theorem count_addG (n n' : String) (l : List String) :
    (addG n l).count n' = if n' = n then max 1 (l.count n) else l.count n' := by
  unfold addG
  by_cases hm : n ∈ l
  · rw [if_pos hm]
    by_cases e : n' = n
    · subst e
      have : 0 < l.count n' := List.count_pos_iff.mpr hm
      simp only [if_true]; omega
    · simp [e]
  · rw [if_neg hm, List.count_append, List.count_singleton]
    by_cases e : n' = n
    · subst e
      have : l.count n' = 0 := List.count_eq_zero.mpr hm
      simp [this]
    · have e' : ¬ n = n' := fun x => e x.symm
      simp [e, e']

def addOne (n : String) (m : Cmap) (v : Nat) : Cmap := AL.set m v (addG n (namesAt m v))

theorem uniAdd_eq_foldl (m : Cmap) (n : String) (vs : List Nat) : uniAdd m n vs = vs.foldl (addOne n) m := by
  induction vs generalizing m with
  | nil => rfl
  | cons v vs ih =>
    simp only [List.foldl_cons]
    rw [← ih]
    rfl

theorem iter_addG (n : String) (k : Nat) (l : List String) :
    iter (addG n) k l = if k = 0 then l else addG n l := by
  induction k generalizing l with
  | zero => rfl
  | succ k ih =>
    simp only [iter]
    rw [ih]
    by_cases e : k = 0
    · simp [e]
    · simp only [e, if_false, Nat.succ_ne_zero]
      have hm := mem_addG_self n l
      show addG n (addG n l) = addG n l
      generalize addG n l = l' at hm
      unfold addG
      simp [hm]

/-- `addGlyphData(n, vs)`: under every code point of `vs` the name is appended unless it is listed already -/
theorem uniAdd_spec {m : Cmap} (h : MapWF m) (n : String) (vs : List Nat) :
    MapWF (uniAdd m n vs) ∧ ∀ c, namesAt (uniAdd m n vs) c = if c ∈ vs then addG n (namesAt m c) else namesAt m c := by
  rw [uniAdd_eq_foldl]
  obtain ⟨h1, h2⟩ := namesAt_foldl_step (addOne n) (addG n) MapWF
    (fun m v hm => ⟨mapWF_set hm v _ (addG_ne_nil n _), fun c => by
      unfold addOne; rw [namesAt_set]; by_cases e : v = c
      · subst e; simp
      · simp [e]⟩) vs m h
  refine ⟨h1, fun c => ?_⟩
  rw [h2, iter_addG]
  by_cases hc : c ∈ vs
  · have : vs.count c ≠ 0 := by have := List.count_pos_iff.mpr hc; omega
    simp [hc, this]
  · have : vs.count c = 0 := List.count_eq_zero.mpr hc
    simp [hc, this]

theorem count_uniAdd {m : Cmap} (h : MapWF m) (n : String) (vs : List Nat) (c : Nat) (n' : String) :
    (namesAt (uniAdd m n vs) c).count n' =
      if n' = n ∧ c ∈ vs then max 1 ((namesAt m c).count n) else (namesAt m c).count n' := by
  rw [(uniAdd_spec h n vs).2]
  by_cases hc : c ∈ vs
  · rw [if_pos hc, count_addG]
    by_cases e : n' = n <;> simp [e, hc]
  · simp [hc]

def appendOne (n : String) (m : Cmap) (v : Nat) : Cmap := AL.set m v (namesAt m v ++ [n])

theorem uniAppend_eq_foldl (m : Cmap) (n : String) (vs : List Nat) : uniAppend m n vs = vs.foldl (appendOne n) m := by
  induction vs generalizing m with
  | nil => rfl
  | cons v vs ih =>
    simp only [List.foldl_cons]
    rw [← ih]
    rfl

theorem count_iter_append (n n' : String) (k : Nat) (l : List String) :
    (iter (fun l => l ++ [n]) k l).count n' = l.count n' + if n' = n then k else 0 := by
  induction k generalizing l with
  | zero => simp [iter]
  | succ k ih =>
    simp only [iter]
    rw [ih, List.count_append, List.count_singleton]
    by_cases e : n' = n
    · subst e; simp; omega
    · have e' : ¬ n = n' := fun x => e x.symm
      simp [e, e']

/-- the lazy constructor's unguarded appends for one loaded glyph -/
theorem uniAppend_spec {m : Cmap} (h : MapWF m) (n : String) (vs : List Nat) :
    MapWF (uniAppend m n vs) ∧ ∀ c n', (namesAt (uniAppend m n vs) c).count n' =
      (namesAt m c).count n' + if n' = n then vs.count c else 0 := by
  rw [uniAppend_eq_foldl]
  obtain ⟨h1, h2⟩ := namesAt_foldl_step (appendOne n) (fun l => l ++ [n]) MapWF
    (fun m v hm => ⟨mapWF_set hm v _ (by simp), fun c => by
      unfold appendOne; rw [namesAt_set]; by_cases e : v = c
      · subst e; simp
      · simp [e]⟩) vs m h
  refine ⟨h1, fun c n' => ?_⟩
  rw [h2, count_iter_append]


/-- which code points list a name: each once (one entry per code point) -/
theorem count_codesOf (m : Cmap) (hk : (AL.keys m).Nodup) (n : String) (c : Nat) :
    (codesOf m n).count c = if n ∈ namesAt m c then 1 else 0 := by
  induction m with
  | nil => simp [codesOf, namesAt]
  | cons p rest ih =>
    obtain ⟨k, l⟩ := p
    simp only [AL.keys, List.map_cons, List.nodup_cons] at hk
    have ih' := ih (by simpa [AL.keys] using hk.2)
    have hcons : codesOf ((k, l) :: rest) n = if n ∈ l then k :: codesOf rest n else codesOf rest n := by
      unfold codesOf
      by_cases hm : n ∈ l <;> simp [List.filter_cons, hm]
    have hnames : namesAt ((k, l) :: rest) c = if k = c then l else namesAt rest c := by
      unfold namesAt
      by_cases e : k = c <;> simp [e]
    rw [hcons, hnames]
    by_cases e : k = c
    · subst e
      have hnone : AL.get? rest k = none := AL.get?_eq_none_of_not_mem (by simpa [AL.keys] using hk.1)
      have hz : (codesOf rest n).count k = 0 := by rw [ih']; simp [namesAt, hnone]
      by_cases hm : n ∈ l
      · simp [hm, List.count_cons, hz]
      · simp [hm, hz]
    · simp only [e, if_false]
      by_cases hm : n ∈ l
      · simp only [hm, if_true, List.count_cons]
        have : ¬ (k == c) = true := by simpa using e
        simp [this, ih']
      · simp only [hm, if_false]; exact ih'

/-! ### abstraction and invariant, primitive by primitive -/

theorem mem_addKey (ks : List String) (n k : String) : k ∈ addKey ks n ↔ k ∈ ks ∨ k = n := by
  unfold addKey
  split
  · rename_i h
    constructor
    · exact Or.inl
    · rintro (h1 | h1)
      · exact h1
      · subst h1; exact h
  · simp

theorem nodup_addKey (ks : List String) (n : String) (h : ks.Nodup) : (addKey ks n).Nodup := by
  unfold addKey
  split
  · exact h
  · rename_i hn
    rw [List.nodup_append]
    refine ⟨h, by simp, ?_⟩
    intro a ha b hb
    simp at hb; subst hb
    intro e; subst e; exact hn ha

theorem abs_insertGlyph (s : State) (n : String) (r : GRec) (d : Bool) (k : String) :
    abs (insertGlyph s n r d) k = if k = n then some r else abs s k := by
  unfold abs insertGlyph
  simp only [AL.get?_set]
  by_cases e : n = k
  · subst e; simp
  · have e' : ¬ k = n := fun x => e x.symm
    simp [e, e']

/-- the part of `insertGlyph` that `WF` looks at -/
theorem wf_insertGlyph {s : State} (h : WF s) (n : String) (r : GRec) (d : Bool)
    (hclean : d = false → AL.get? s.disk n = some r) : WF (insertGlyph s n r d) := by
  have habs := abs_insertGlyph s n r d
  constructor
  · exact h.diskKeys
  · exact AL.nodup_keys_set _ _ _ h.loadedKeys
  · exact nodup_addKey _ _ h.keysNodup
  · exact (List.filter_sublist).nodup h.schedNodup
  · intro m hm
    simp only [insertGlyph, List.mem_filter] at hm
    exact h.schedDisk m hm.1
  · intro m hm
    simp only [insertGlyph, List.mem_filter, ne_eq, decide_eq_true_eq] at hm
    simp only [insertGlyph]
    rw [AL.get?_set_ne _ _ _ _ (fun e => hm.2 e.symm)]
    exact h.schedNotLoaded m hm.1
  · intro k
    rw [habs]
    simp only [insertGlyph, mem_addKey]
    by_cases e : k = n
    · simp [e]
    · simp [e, h.keysIff k]
  · intro k r' hk
    simp only [insertGlyph, AL.get?_set] at hk
    by_cases e : n = k
    · subst e
      simp at hk
      obtain ⟨rfl, rfl⟩ := hk
      exact hclean rfl
    · simp only [e, if_false] at hk
      exact h.cleanEq k r' hk

theorem abs_of_loaded {s : State} {n : String} {p : GRec × Bool} (h : AL.get? s.loaded n = some p) :
    abs s n = some p.1 := by
  unfold abs; simp [h]

theorem abs_of_not_loaded {s : State} {n : String} (h : AL.get? s.loaded n = none) :
    abs s n = if n ∈ s.sched then none else AL.get? s.disk n := by
  unfold abs; simp [h]

/-! ### states that differ in the unicode data only -/

theorem abs_withUni (s : State) (u : Option Cmap) (k : String) : abs (withUni s u) k = abs s k := rfl

theorem wf_withUni {s : State} (h : WF s) (u : Option Cmap) : WF (withUni s u) :=
  ⟨h.diskKeys, h.loadedKeys, h.keysNodup, h.schedNodup, h.schedDisk, h.schedNotLoaded, h.keysIff, h.cleanEq⟩

theorem scan_withUni {s : State} (h : ScanOK s) (u : Option Cmap) : ScanOK (withUni s u) := fun n r => h n r

/-- `load` is invisible: it installs exactly the record the abstraction already showed, and leaves the unicode
data alone -/
theorem load_ok {s s' : State} {n : String} (h : WF s) (hl : load s n = .ok s')
    (hnot : AL.get? s.loaded n = none) :
    ∃ r, AL.get? s.disk n = some r ∧ n ∉ s.sched ∧ s' = withUni (insertGlyph s n r false) s.uni ∧ abs s n = some r := by
  unfold load at hl
  cases hd : AL.get? s.disk n with
  | none => simp [hd] at hl
  | some r =>
    simp only [hd] at hl
    by_cases hs : n ∈ s.sched
    · simp [hs] at hl
    · simp only [hs, if_false, Except.ok.injEq] at hl
      refine ⟨r, rfl, hs, hl.symm, ?_⟩
      rw [abs_of_not_loaded hnot]; simp [hs, hd]

theorem load_error_iff {s : State} {n : String} (hnot : AL.get? s.loaded n = none) :
    (∃ e, load s n = .error e) ↔ abs s n = none := by
  rw [abs_of_not_loaded hnot]
  unfold load
  cases hd : AL.get? s.disk n with
  | none => simp; exact ⟨.keyError, trivial⟩
  | some r =>
    by_cases hs : n ∈ s.sched
    · simp [hs]; exact ⟨.keyError, trivial⟩
    · simp [hs]

/-! ### the unicode invariant under abstract updates -/

theorem cnt_pos_iff (f : String → Option GRec) (n : String) (c : Nat) :
    0 < cnt f n c ↔ ∃ r, f n = some r ∧ c ∈ r.unicodes := by
  unfold cnt
  cases f n with
  | none => simp
  | some r => simp [List.count_pos_iff]

/-- membership reading of the invariant: no stale names, none missing -/
theorem uniInv_mem {f : String → Option GRec} {u : Option Cmap} {m : Cmap} (hu : UniInv f u) (hm : u = some m)
    (c : Nat) (n : String) : n ∈ namesAt m c ↔ ∃ r, f n = some r ∧ c ∈ r.unicodes := by
  obtain ⟨_, h⟩ := hu m hm
  obtain ⟨h1, h2⟩ := h c n
  rw [← cnt_pos_iff, ← List.count_pos_iff]
  constructor
  · intro x; omega
  · exact h2

theorem uniInv_congr {f g : String → Option GRec} {u : Option Cmap} (h : ∀ k, f k = g k) (hu : UniInv f u) :
    UniInv g u := by
  have : f = g := funext h
  subst this
  exact hu

theorem uniInv_none (f : String → Option GRec) : UniInv f none := by
  intro m hm; simp at hm

theorem cnt_upd_none (f : String → Option GRec) (n : String) (c : Nat) : cnt (upd f n none) n c = 0 := by
  simp [cnt, upd]

theorem cnt_upd_some (f : String → Option GRec) (n : String) (r : GRec) (c : Nat) :
    cnt (upd f n (some r)) n c = r.unicodes.count c := by
  simp [cnt, upd]

theorem cnt_upd_ne (f : String → Option GRec) (n n' : String) (v : Option GRec) (c : Nat) (e : n' ≠ n) :
    cnt (upd f n v) n' c = cnt f n' c := by
  simp [cnt, upd, e]

theorem cnt_of_some {f : String → Option GRec} {n : String} {r : GRec} (hf : f n = some r) (c : Nat) :
    cnt f n c = r.unicodes.count c := by
  simp [cnt, hf]

theorem cnt_of_none {f : String → Option GRec} {n : String} (hf : f n = none) (c : Nat) : cnt f n c = 0 := by
  simp [cnt, hf]

theorem uniInv_remove {f : String → Option GRec} {u : Option Cmap} (hu : UniInv f u) (n : String) (r : GRec)
    (hf : f n = some r) : UniInv (upd f n none) (u.map (fun m => uniRemove m n r.unicodes)) := by
  intro m' hm'
  cases u with
  | none => simp at hm'
  | some m =>
    simp at hm'; subst hm'
    obtain ⟨h1, h2⟩ := hu m rfl
    obtain ⟨hw, hc⟩ := uniRemove_spec h1 n r.unicodes
    refine ⟨hw, fun c n' => ?_⟩
    rw [hc]
    obtain ⟨ha, hb⟩ := h2 c n'
    by_cases e : n' = n
    · subst e
      have h3 := cnt_of_some hf c
      have h4 := cnt_upd_none f n' c
      simp only [if_true]; omega
    · have h3 := cnt_upd_ne f n n' none c e
      simp only [e, if_false]; omega

theorem uniInv_remove_absent {f : String → Option GRec} {u : Option Cmap} (hu : UniInv f u) (n : String)
    (vs : List Nat) (hf : f n = none) : UniInv f (u.map (fun m => uniRemove m n vs)) := by
  intro m' hm'
  cases u with
  | none => simp at hm'
  | some m =>
    simp at hm'; subst hm'
    obtain ⟨h1, h2⟩ := hu m rfl
    obtain ⟨hw, hc⟩ := uniRemove_spec h1 n vs
    refine ⟨hw, fun c n' => ?_⟩
    rw [hc]
    obtain ⟨ha, hb⟩ := h2 c n'
    by_cases e : n' = n
    · subst e
      have h3 := cnt_of_none hf c
      simp only [if_true]; omega
    · simp only [e, if_false]; omega

theorem uniInv_add {f : String → Option GRec} {u : Option Cmap} (hu : UniInv f u) (n : String) (r : GRec)
    (hf : f n = none) : UniInv (upd f n (some r)) (u.map (fun m => uniAdd m n r.unicodes)) := by
  intro m' hm'
  cases u with
  | none => simp at hm'
  | some m =>
    simp at hm'; subst hm'
    obtain ⟨h1, h2⟩ := hu m rfl
    refine ⟨(uniAdd_spec h1 n r.unicodes).1, fun c n' => ?_⟩
    rw [count_uniAdd h1]
    obtain ⟨ha, hb⟩ := h2 c n'
    by_cases e : n' = n
    · subst e
      have h3 := cnt_of_none hf c
      have h4 := cnt_upd_some f n' r c
      by_cases hc : c ∈ r.unicodes
      · have hp := List.count_pos_iff.mpr hc
        rw [if_pos ⟨rfl, hc⟩]; omega
      · have hz := List.count_eq_zero.mpr hc
        rw [if_neg (fun x => hc x.2)]; omega
    · have h3 := cnt_upd_ne f n n' (some r) c e
      simp only [e, false_and, if_false]; omega

theorem uniAdd_nil (m : Cmap) (n : String) : uniAdd m n [] = m := rfl

theorem insertGlyph_uni (s : State) (n : String) (r : GRec) (d : Bool) :
    (insertGlyph s n r d).uni = s.uni.map (fun m => uniAdd m n r.unicodes) := by
  unfold insertGlyph
  cases s.uni with
  | none => rfl
  | some m =>
    simp only [Option.map_some]
    split
    · rename_i he
      have : r.unicodes = [] := by simpa using he
      rw [this, uniAdd_nil]
    · rfl

theorem upd_same (f : String → Option GRec) (n : String) (v : Option GRec) (h : f n = v) (k : String) :
    upd f n v k = f k := by
  unfold upd; by_cases e : k = n
  · subst e; simp [h]
  · simp [e]

theorem abs_insertGlyph_upd (s : State) (n : String) (r : GRec) (d : Bool) (k : String) :
    abs (insertGlyph s n r d) k = upd (abs s) n (some r) k := abs_insertGlyph s n r d k

/-! ### glyphs that have not been read carry duplicate-free lists -/

theorem scan_insertGlyph {s : State} (h : ScanOK s) (n : String) (r : GRec) (d : Bool) :
    ScanOK (insertGlyph s n r d) := by
  intro k x hk hl
  have hl' : AL.get? (AL.set s.loaded n (r, d)) k = none := hl
  rw [AL.get?_set] at hl'
  by_cases e : n = k
  · simp [e] at hl'
  · simp only [e, if_false] at hl'
    rw [abs_insertGlyph] at hk
    have e' : ¬ k = n := fun x => e x.symm
    simp only [e', if_false] at hk
    exact h k x hk hl'

theorem scan_forgetUni {s : State} (h : ScanOK s) (n : String) (us : List Nat) : ScanOK (forgetUni s n us) :=
  fun k r => h k r

/-! ### getItem -/

theorem getItem_spec {s s' : State} {n : String} {r : GRec} (h : Good s) (hg : getItem s n = .ok (s', r)) :
    Good s' ∧ (∀ k, abs s' k = abs s k) ∧ abs s n = some r ∧ (∃ d, AL.get? s'.loaded n = some (r, d)) ∧
    s'.disk = s.disk ∧ s'.uni = s.uni := by
  unfold getItem at hg
  cases hl : AL.get? s.loaded n with
  | some p =>
    obtain ⟨r0, d0⟩ := p
    simp only [hl, Except.ok.injEq, Prod.mk.injEq] at hg
    obtain ⟨rfl, rfl⟩ := hg
    exact ⟨h, fun _ => rfl, abs_of_loaded hl, ⟨d0, hl⟩, rfl, rfl⟩
  | none =>
    simp only [hl] at hg
    cases hld : load s n with
    | error e => simp [hld] at hg
    | ok s1 =>
      simp only [hld] at hg
      obtain ⟨r1, hdisk, hns, hs1, habs⟩ := load_ok h.wf hld hl
      have hget : AL.get? s1.loaded n = some (r1, false) := by
        rw [hs1]; simp [insertGlyph, withUni]
      simp only [hget, Except.ok.injEq, Prod.mk.injEq] at hg
      obtain ⟨rfl, rfl⟩ := hg
      have hsame : ∀ k, abs s1 k = abs s k := by
        intro k; rw [hs1, abs_withUni, abs_insertGlyph_upd]; exact upd_same _ _ _ habs k
      refine ⟨⟨?_, ?_, ?_⟩, hsame, habs, ⟨false, hget⟩, by rw [hs1]; rfl, by rw [hs1]; rfl⟩
      · rw [hs1]; exact wf_withUni (wf_insertGlyph h.wf n r1 false (fun _ => hdisk)) _
      · unfold UniOK
        apply uniInv_congr (fun k => (hsame k).symm)
        have : s1.uni = s.uni := by rw [hs1]; rfl
        rw [this]
        exact h.uni
      · rw [hs1]; exact scan_withUni (scan_insertGlyph h.scan n r1 false) _

theorem getItem_error_iff {s : State} {n : String} (h : WF s) :
    (∃ e, getItem s n = .error e) ↔ abs s n = none := by
  unfold getItem
  cases hl : AL.get? s.loaded n with
  | some p => simp [abs_of_loaded hl]
  | none =>
    simp only
    rw [← load_error_iff hl]
    cases hld : load s n with
    | error e => simp
    | ok s1 =>
      obtain ⟨r1, _, _, hs1, _⟩ := load_ok h hld hl
      have hget : AL.get? s1.loaded n = some (r1, false) := by
        rw [hs1]; simp [insertGlyph, withUni]
      simp [hget]

/-! ### dropGlyph / forgetUni -/

theorem abs_forgetUni (s : State) (n : String) (us : List Nat) (k : String) : abs (forgetUni s n us) k = abs s k := rfl

theorem wf_forgetUni {s : State} (h : WF s) (n : String) (us : List Nat) : WF (forgetUni s n us) :=
  ⟨h.diskKeys, h.loadedKeys, h.keysNodup, h.schedNodup, h.schedDisk, h.schedNotLoaded, h.keysIff, h.cleanEq⟩

theorem abs_dropGlyph {s : State} (h : WF s) (n k : String) :
    abs (dropGlyph s n) k = upd (abs s) n none k := by
  unfold upd
  by_cases e : k = n
  · subst e
    simp only [if_true]
    unfold abs dropGlyph
    simp only [AL.get?_erase_self_of_nodup _ _ h.loadedKeys]
    unfold onDisk
    by_cases hd : AL.contains s.disk k = true
    · simp [hd, mem_addKey]
    · have : AL.get? s.disk k = none := (AL.contains_false_iff _ _).mp (by simpa using hd)
      simp [hd, this]
  · simp only [e, if_false]
    unfold abs dropGlyph
    have e' : n ≠ k := fun x => e x.symm
    rw [AL.get?_erase_ne _ _ _ e']
    cases AL.get? s.loaded k with
    | some p => rfl
    | none =>
      simp only
      by_cases hd : onDisk s n = true
      · simp [hd, mem_addKey, e]
      · simp [hd]

theorem wf_dropGlyph {s : State} (h : WF s) (n : String) : WF (dropGlyph s n) := by
  have habs := abs_dropGlyph h n
  constructor
  · exact h.diskKeys
  · exact AL.nodup_keys_erase _ _ h.loadedKeys
  · exact (List.filter_sublist).nodup h.keysNodup
  · unfold dropGlyph; simp only; split
    · exact nodup_addKey _ _ h.schedNodup
    · exact h.schedNodup
  · intro m hm
    unfold dropGlyph at hm ⊢
    simp only at hm ⊢
    split at hm
    · rename_i hd
      rcases (mem_addKey _ _ _).mp hm with h1 | h1
      · exact h.schedDisk m h1
      · subst h1; exact hd
    · exact h.schedDisk m hm
  · intro m hm
    unfold dropGlyph at hm ⊢
    simp only at hm ⊢
    rw [AL.get?_erase _ _ _ h.loadedKeys]
    split
    · rfl
    · split at hm
      · rcases (mem_addKey _ _ _).mp hm with h1 | h1
        · exact h.schedNotLoaded m h1
        · subst h1; rename_i hne _; exact absurd rfl hne
      · exact h.schedNotLoaded m hm
  · intro k
    rw [habs]
    unfold upd
    simp only [dropGlyph, List.mem_filter, ne_eq, decide_eq_true_eq]
    by_cases e : k = n
    · simp [e]
    · simp [e, h.keysIff k]
  · intro k r' hk
    unfold dropGlyph at hk ⊢
    simp only at hk ⊢
    rw [AL.get?_erase _ _ _ h.loadedKeys] at hk
    split at hk
    · simp at hk
    · exact h.cleanEq k r' hk

theorem scan_dropGlyph {s : State} (hw : WF s) (h : ScanOK s) (n : String) : ScanOK (dropGlyph s n) := by
  intro k x hk hl
  rw [abs_dropGlyph hw] at hk
  unfold upd at hk
  by_cases e : k = n
  · simp [e] at hk
  · simp only [e, if_false] at hk
    have hl' : AL.get? (AL.erase s.loaded n) k = none := hl
    rw [AL.get?_erase_ne _ _ _ (fun x => e x.symm)] at hl'
    exact h k x hk hl'

/-! ### visibility -/

theorem abs_none_of_sched {s : State} (h : WF s) {n : String} (hn : n ∈ s.sched) : abs s n = none := by
  rw [abs_of_not_loaded (h.schedNotLoaded n hn)]; simp [hn]

theorem mem_visible_iff {s : State} (h : WF s) (n : String) : n ∈ visible s ↔ (abs s n).isSome := by
  unfold visible
  simp only [List.mem_filter, decide_eq_true_eq]
  rw [h.keysIff]
  constructor
  · exact fun x => x.1
  · intro x
    refine ⟨x, ?_⟩
    intro hs
    rw [abs_none_of_sched h hs] at x
    simp at x

/-! ### replacing the record of a loaded glyph -/

theorem abs_setLoaded (s : State) (n : String) (r' : GRec) (u : Option Cmap) (k : String) :
    abs (setLoaded s n r' u) k = if k = n then some r' else abs s k := by
  unfold abs setLoaded
  simp only [AL.get?_set]
  by_cases e : n = k
  · subst e; simp
  · have e' : ¬ k = n := fun x => e x.symm
    simp [e, e']

theorem wf_setLoaded {s : State} (h : WF s) (n : String) (r' : GRec) (u : Option Cmap) {p : GRec × Bool}
    (hl : AL.get? s.loaded n = some p) :
    WF (setLoaded s n r' u) := by
  have habs := abs_setLoaded s n r' u
  unfold setLoaded at habs ⊢
  constructor
  · exact h.diskKeys
  · exact AL.nodup_keys_set _ _ _ h.loadedKeys
  · exact h.keysNodup
  · exact h.schedNodup
  · exact h.schedDisk
  · intro m hm
    simp only
    have : n ≠ m := by
      intro e; subst e
      rw [h.schedNotLoaded _ hm] at hl; simp at hl
    rw [AL.get?_set_ne _ _ _ _ this]
    exact h.schedNotLoaded m hm
  · intro k
    rw [habs]
    by_cases e : k = n
    · subst e
      simp only [if_true, Option.isSome_some, iff_true]
      exact (h.keysIff k).mpr (by rw [abs_of_loaded hl]; rfl)
    · simp only [e, if_false]; exact h.keysIff k
  · intro k r'' hk
    simp only [AL.get?_set] at hk
    by_cases e : n = k
    · subst e; simp at hk
    · simp only [e, if_false] at hk
      exact h.cleanEq k r'' hk

theorem scan_setLoaded {s : State} (h : ScanOK s) (n : String) (r' : GRec) (u : Option Cmap) :
    ScanOK (setLoaded s n r' u) := by
  intro k x hk hl
  have hl' : AL.get? (AL.set s.loaded n (r', true)) k = none := hl
  rw [AL.get?_set] at hl'
  by_cases e : n = k
  · simp [e] at hl'
  · simp only [e, if_false] at hl'
    rw [abs_setLoaded] at hk
    have e' : ¬ k = n := fun x => e x.symm
    simp only [e', if_false] at hk
    exact h k x hk hl'

theorem uniInv_upd_same_unicodes {f : String → Option GRec} {u : Option Cmap} (hu : UniInv f u) (n : String)
    (r r' : GRec) (hf : f n = some r) (hus : r'.unicodes = r.unicodes) : UniInv (upd f n (some r')) u := by
  intro m hm
  obtain ⟨h1, h2⟩ := hu m hm
  refine ⟨h1, fun c n' => ?_⟩
  obtain ⟨ha, hb⟩ := h2 c n'
  by_cases e : n' = n
  · subst e
    have h3 := cnt_of_some hf c
    have h4 := cnt_upd_some f n' r' c
    rw [hus] at h4
    omega
  · have h3 := cnt_upd_ne f n n' (some r') c e
    omega

theorem upd_upd_same (f : String → Option GRec) (n : String) (v w : Option GRec) (k : String) :
    upd (upd f n v) n w k = upd f n w k := by
  unfold upd; by_cases e : k = n <;> simp [e]

theorem uniInv_replace {f : String → Option GRec} {u : Option Cmap} (hu : UniInv f u) (n : String)
    (r r' : GRec) (hf : f n = some r) :
    UniInv (upd f n (some r')) (u.map (fun m => uniAdd (uniRemove m n r.unicodes) n r'.unicodes)) := by
  have h1 := uniInv_remove hu n r hf
  have h2 := uniInv_add h1 n r' (by simp [upd])
  have h3 := uniInv_congr (upd_upd_same f n none (some r')) h2
  simpa [Option.map_map, Function.comp_def] using h3

theorem uniInv_insert_after_forget {f : String → Option GRec} {u : Option Cmap}
    (hu : UniInv (upd f n none) u) (r : GRec) :
    UniInv (upd f n (some r)) (u.map (fun m => uniAdd m n r.unicodes)) := by
  have h2 := uniInv_add hu n r (by simp [upd])
  exact uniInv_congr (upd_upd_same f n none (some r)) h2

/-- F108: the name of a glyph whose list has no repetition is listed once at most per code point, so removing it
from the code points that list it removes it altogether -/
theorem uniInv_purge {f : String → Option GRec} {u : Option Cmap} (hu : UniInv f u) (n : String) (r0 : GRec)
    (hf : f n = some r0) (hn : r0.unicodes.Nodup) :
    UniInv (upd f n none) (u.map (fun m => uniRemove m n (codesOf m n))) := by
  intro m' hm'
  cases u with
  | none => simp at hm'
  | some m =>
    simp at hm'; subst hm'
    obtain ⟨h1, h2⟩ := hu m rfl
    obtain ⟨hw, hc⟩ := uniRemove_spec h1 n (codesOf m n)
    refine ⟨hw, fun c n' => ?_⟩
    rw [hc]
    obtain ⟨ha, hb⟩ := h2 c n'
    by_cases e : n' = n
    · subst e
      have h3 := cnt_of_some hf c
      have h4 := cnt_upd_none f n' c
      have h5 : r0.unicodes.count c ≤ 1 := List.nodup_iff_count.mp hn c
      have h6 := count_codesOf m h1.keys n' c
      simp only [if_true]
      by_cases hm : n' ∈ namesAt m c
      · rw [if_pos hm] at h6; omega
      · have hz := List.count_eq_zero.mpr hm
        rw [if_neg hm] at h6; omega
    · have h3 := cnt_upd_ne f n n' none c e
      simp only [e, if_false]; omega

/-! ### the operations -/

theorem delete_spec {s s' : State} {n : String} (h : Good s) (hd : deleteGlyph s n = .ok s')
    (hv : (abs s n).isSome) : Good s' ∧ ∀ k, abs s' k = upd (abs s) n none k := by
  unfold deleteGlyph at hd
  cases hu : s.uni with
  | none =>
    simp only [hu, Except.ok.injEq] at hd
    subst hd
    have habs := abs_dropGlyph h.wf n
    refine ⟨⟨wf_dropGlyph h.wf n, ?_, scan_dropGlyph h.wf h.scan n⟩, habs⟩
    unfold UniOK
    have : (dropGlyph s n).uni = none := hu
    rw [this]; exact uniInv_none _
  | some m =>
    simp only [hu] at hd
    cases hg : getItem s n with
    | error e => simp [hg] at hd
    | ok p =>
      obtain ⟨s1, r⟩ := p
      simp only [hg, Except.ok.injEq] at hd
      subst hd
      obtain ⟨hg1, hsame, hr, _, _, _⟩ := getItem_spec h hg
      have hwf := wf_forgetUni hg1.wf n r.unicodes
      have habs : ∀ k, abs (dropGlyph (forgetUni s1 n r.unicodes) n) k = upd (abs s) n none k := by
        intro k
        rw [abs_dropGlyph hwf]
        unfold upd
        split
        · rfl
        · rw [abs_forgetUni, hsame]
      refine ⟨⟨wf_dropGlyph hwf n, ?_, scan_dropGlyph hwf (scan_forgetUni hg1.scan n r.unicodes) n⟩, habs⟩
      unfold UniOK
      apply uniInv_congr (fun k => (habs k).symm)
      have : (dropGlyph (forgetUni s1 n r.unicodes) n).uni = s1.uni.map (fun m => uniRemove m n r.unicodes) := rfl
      rw [this]
      have hu1 : UniInv (abs s) s1.uni := uniInv_congr hsame hg1.uni
      exact uniInv_remove hu1 n r hr

/-- storing a glyph under a name, whatever the layer showed there before (the core of `newGlyph` and of a rename) -/
theorem put_spec {s s' : State} {n : String} {r : GRec} (h : Good s) (hd : putGlyph s n r = .ok s') :
    Good s' ∧ ∀ k, abs s' k = upd (abs s) n (some r) k := by
  unfold putGlyph at hd
  by_cases hc : n ∈ visible s ∧ s.uni.isSome
  · rw [if_pos hc] at hd
    cases hg : getItem s n with
    | error e => simp [hg] at hd
    | ok p =>
      obtain ⟨s1, r0⟩ := p
      simp only [hg, Except.ok.injEq] at hd
      subst hd
      obtain ⟨hg1, hsame, hr, _, _, _⟩ := getItem_spec h hg
      have habs : ∀ k, abs (insertGlyph (forgetUni s1 n r0.unicodes) n r true) k = upd (abs s) n (some r) k := by
        intro k
        rw [abs_insertGlyph_upd]
        unfold upd
        split
        · rfl
        · rw [abs_forgetUni, hsame]
      refine ⟨⟨wf_insertGlyph (wf_forgetUni hg1.wf n r0.unicodes) n r true (by simp), ?_,
        scan_insertGlyph (scan_forgetUni hg1.scan n r0.unicodes) n r true⟩, habs⟩
      unfold UniOK
      apply uniInv_congr (fun k => (habs k).symm)
      rw [insertGlyph_uni]
      have hu1 : UniInv (abs s) s1.uni := uniInv_congr hsame hg1.uni
      exact uniInv_insert_after_forget (uniInv_remove hu1 n r0 hr) r
  · rw [if_neg hc] at hd
    simp only [Except.ok.injEq] at hd
    subst hd
    have habs := abs_insertGlyph_upd s n r true
    refine ⟨⟨wf_insertGlyph h.wf n r true (by simp), ?_, scan_insertGlyph h.scan n r true⟩, habs⟩
    unfold UniOK
    apply uniInv_congr (fun k => (habs k).symm)
    rw [insertGlyph_uni]
    cases hu : s.uni with
    | none => exact uniInv_none _
    | some m =>
      have hnv : abs s n = none := by
        have : ¬ n ∈ visible s := fun hv => hc ⟨hv, by simp [hu]⟩
        rw [mem_visible_iff h.wf] at this
        cases hh : abs s n with
        | none => rfl
        | some x => simp [hh] at this
      have := uniInv_add h.uni n r hnv
      rw [hu] at this
      exact this

theorem new_spec {s s' : State} {n : String} (h : Good s) (hd : newGlyph s n = .ok s') :
    Good s' ∧ ∀ k, abs s' k = upd (abs s) n (some {}) k := put_spec h hd

theorem setUnicodes_spec {s s' : State} {n : String} {us : List Nat} (h : Good s)
    (hd : setUnicodes s n us = .ok s') :
    Good s' ∧ ∃ r, abs s n = some r ∧ ∀ k, abs s' k = upd (abs s) n (some (withUnicodes r us)) k := by
  unfold setUnicodes at hd
  cases hg : getItem s n with
  | error e => simp [hg] at hd
  | ok p =>
    obtain ⟨s1, r⟩ := p
    simp only [hg] at hd
    obtain ⟨hg1, hsame, hr, ⟨d, hl⟩, _, _⟩ := getItem_spec h hg
    by_cases he : r.unicodes = us
    · rw [if_pos he] at hd
      simp only [Except.ok.injEq] at hd
      subst hd
      refine ⟨hg1, r, hr, ?_⟩
      intro k
      rw [hsame]
      have : withUnicodes r us = r := by subst he; rfl
      rw [this]
      exact (upd_same _ _ _ hr k).symm
    · rw [if_neg he] at hd
      simp only [Except.ok.injEq] at hd
      subst hd
      have habs : ∀ k, abs (setLoaded s1 n (withUnicodes r us)
            (s1.uni.map (fun m => uniAdd (uniRemove m n r.unicodes) n us))) k =
          upd (abs s) n (some (withUnicodes r us)) k := by
        intro k
        rw [abs_setLoaded]
        unfold upd
        split
        · rfl
        · exact hsame k
      refine ⟨⟨wf_setLoaded hg1.wf n _ _ hl, ?_, scan_setLoaded hg1.scan n _ _⟩, r, hr, habs⟩
      unfold UniOK
      apply uniInv_congr (fun k => (habs k).symm)
      have hu1 : UniInv (abs s) s1.uni := uniInv_congr hsame hg1.uni
      exact uniInv_replace hu1 n r (withUnicodes r us) hr

theorem edit_spec {s s' : State} {n : String} {c : List String} {i : Option String} {ol ofast : Bool}
    (h : Good s) (hd : editRest s n c i ol ofast = .ok s') :
    Good s' ∧ ∃ r, abs s n = some r ∧
      ∀ k, abs s' k = upd (abs s) n (some (withRest r c i ol ofast)) k := by
  unfold editRest at hd
  cases hg : getItem s n with
  | error e => simp [hg] at hd
  | ok p =>
    obtain ⟨s1, r⟩ := p
    simp only [hg, Except.ok.injEq] at hd
    subst hd
    obtain ⟨hg1, hsame, hr, ⟨d, hl⟩, _, _⟩ := getItem_spec h hg
    have habs : ∀ k, abs (setLoaded s1 n (withRest r c i ol ofast) s1.uni) k =
        upd (abs s) n (some (withRest r c i ol ofast)) k := by
      intro k
      rw [abs_setLoaded]
      unfold upd
      split
      · rfl
      · exact hsame k
    refine ⟨⟨wf_setLoaded hg1.wf n _ s1.uni hl, ?_, scan_setLoaded hg1.scan n _ _⟩, r, hr, habs⟩
    unfold UniOK
    apply uniInv_congr (fun k => (habs k).symm)
    have hu1 : UniInv (abs s) s1.uni := uniInv_congr hsame hg1.uni
    exact uniInv_upd_same_unicodes hu1 n r _ hr rfl

theorem touch_spec {s s' : State} {n : String} (h : Good s) (hd : touch s n = .ok s') :
    Good s' ∧ (abs s n).isSome ∧ ∀ k, abs s' k = abs s k := by
  unfold touch at hd
  cases hg : getItem s n with
  | error e => simp [hg] at hd
  | ok p =>
    obtain ⟨s1, r⟩ := p
    simp only [hg, Except.ok.injEq] at hd
    subst hd
    obtain ⟨hg1, hsame, hr, ⟨d, hl⟩, _, _⟩ := getItem_spec h hg
    have habs : ∀ k, abs (setLoaded s1 n r s1.uni) k = abs s k := by
      intro k
      rw [abs_setLoaded]
      split
      · rename_i e; subst e; exact hr.symm
      · exact hsame k
    refine ⟨⟨wf_setLoaded hg1.wf n _ s1.uni hl, ?_, scan_setLoaded hg1.scan n _ _⟩, by rw [hr]; rfl, habs⟩
    unfold UniOK
    apply uniInv_congr (fun k => (habs k).symm)
    exact uniInv_congr hsame hg1.uni

theorem good_forgetUni_absent {s : State} (h : Good s) (n : String) (us : List Nat) (hn : abs s n = none) :
    Good (forgetUni s n us) :=
  ⟨wf_forgetUni h.wf n us, uniInv_remove_absent h.uni n us hn, scan_forgetUni h.scan n us⟩

/-- a rename, onto a free name or onto a name that is present (whose glyph is replaced) -/
theorem rename_spec {s s' : State} {o n : String} (h : Good s) (hd : rename s o n = .ok s') :
    Good s' ∧ ∃ r, abs s o = some r ∧
      ∀ k, abs s' k = (if o = n then abs s k else upd (upd (abs s) o none) n (some r) k) := by
  unfold rename at hd
  cases hg : getItem s o with
  | error e => simp [hg] at hd
  | ok p =>
    obtain ⟨s1, r⟩ := p
    simp only [hg] at hd
    obtain ⟨hg1, hsame, hr, _, _, _⟩ := getItem_spec h hg
    by_cases he : o = n
    · rw [if_pos he] at hd
      simp only [Except.ok.injEq] at hd
      subst hd
      exact ⟨hg1, r, hr, fun k => by simp [he, hsame]⟩
    · rw [if_neg he] at hd
      cases hdel : deleteGlyph s1 o with
      | error e => simp [hdel] at hd
      | ok s2 =>
        simp only [hdel] at hd
        have hv : (abs s1 o).isSome := by rw [hsame, hr]; rfl
        obtain ⟨hg2, habs2⟩ := delete_spec hg1 hdel hv
        have ho2 : abs s2 o = none := by rw [habs2]; simp [upd]
        have hg3 := good_forgetUni_absent hg2 o r.unicodes ho2
        obtain ⟨hg4, habs4⟩ := put_spec hg3 hd
        refine ⟨hg4, r, hr, ?_⟩
        intro k
        simp only [he, if_false]
        rw [habs4]
        unfold upd
        by_cases e1 : k = n
        · simp [e1]
        · simp only [e1, if_false]
          rw [abs_forgetUni, habs2]
          unfold upd
          split
          · rfl
          · exact hsame k

theorem grec_eta (r : GRec) :
    withRest (withUnicodes {} r.unicodes) r.comps r.image r.outlineLoaded r.outlineFast = r := by
  cases r; rfl

theorem grec_eta' (r0 r : GRec) :
    withRest (withUnicodes r0 r.unicodes) r.comps r.image r.outlineLoaded r.outlineFast = r := by
  cases r; rfl

theorem insert_spec {s s' : State} {n : String} {r : GRec} (h : Good s)
    (hd : insert s n r = .ok s') : Good s' ∧ ∀ k, abs s' k = upd (abs s) n (some r) k := by
  unfold insert at hd
  cases h1 : newGlyph s n with
  | error e => simp [h1] at hd
  | ok s1 =>
    simp only [h1] at hd
    obtain ⟨hg1, ha1⟩ := new_spec h h1
    cases h2 : setUnicodes s1 n r.unicodes with
    | error e => simp [h2] at hd
    | ok s2 =>
      simp only [h2] at hd
      obtain ⟨hg2, r2, hr2, ha2⟩ := setUnicodes_spec hg1 h2
      obtain ⟨hg3, r3, hr3, ha3⟩ := edit_spec hg2 hd
      refine ⟨hg3, ?_⟩
      have e3 : r3 = withUnicodes r2 r.unicodes := by
        rw [ha2] at hr3; simp [upd] at hr3; exact hr3.symm
      intro k
      rw [ha3, e3, grec_eta']
      unfold upd
      split
      · rfl
      · rw [ha2]; unfold upd; rename_i hk; simp only [hk, if_false]; rw [ha1]; unfold upd; simp [hk]

/-! ### save -/

theorem get?_foldl_write (l : List (String × (GRec × Bool))) (d0 : List (String × GRec)) (k : String)
    (hn : (AL.keys l).Nodup) :
    AL.get? (l.foldl (fun d (p : String × (GRec × Bool)) => if p.2.2 then AL.set d p.1 p.2.1 else d) d0) k =
      match AL.get? l k with
      | some (r, true) => some r
      | _ => AL.get? d0 k := by
  induction l generalizing d0 with
  | nil => rfl
  | cons p rest ih =>
    obtain ⟨k', r, d⟩ := p
    simp only [AL.keys, List.map_cons, List.nodup_cons] at hn
    simp only [List.foldl_cons]
    rw [ih _ (by simpa [AL.keys] using hn.2)]
    by_cases e : k' = k
    · subst e
      have : AL.get? rest k' = none := AL.get?_eq_none_of_not_mem (by simpa [AL.keys] using hn.1)
      simp only [this, AL.get?_cons, if_true]
      cases d <;> simp
    · simp only [AL.get?_cons, e, if_false]
      have : AL.get? (if d = true then AL.set d0 k' r else d0) k = AL.get? d0 k := by
        cases d
        · simp
        · simp [AL.get?_set_ne _ _ _ _ e]
      cases hg : AL.get? rest k with
      | none => simpa using this
      | some q =>
        obtain ⟨r2, d2⟩ := q
        cases d2
        · simpa using this
        · rfl

theorem nodup_keys_foldl_write (l : List (String × (GRec × Bool))) (d0 : List (String × GRec))
    (h : (AL.keys d0).Nodup) :
    (AL.keys (l.foldl (fun d (p : String × (GRec × Bool)) => if p.2.2 then AL.set d p.1 p.2.1 else d) d0)).Nodup := by
  induction l generalizing d0 with
  | nil => exact h
  | cons p rest ih =>
    simp only [List.foldl_cons]
    apply ih
    split
    · exact AL.nodup_keys_set _ _ _ h
    · exact h

/-- what the glyph set holds after an in-place save -/
theorem save_disk {s : State} (h : WF s) (k : String) :
    AL.get? (save s).disk k = abs s k := by
  unfold save
  simp only
  rw [AL.get?_foldl_erase _ _ _ (nodup_keys_foldl_write _ _ h.diskKeys), get?_foldl_write _ _ _ h.loadedKeys]
  cases hl : AL.get? s.loaded k with
  | some p =>
    obtain ⟨r, d⟩ := p
    have hns : k ∉ s.sched := by
      intro hs; rw [h.schedNotLoaded k hs] at hl; simp at hl
    rw [abs_of_loaded hl]
    simp only [hns, if_false]
    cases d
    · exact h.cleanEq k r hl
    · rfl
  | none =>
    rw [abs_of_not_loaded hl]

theorem abs_save {s : State} (h : WF s) (k : String) : abs (save s) k = abs s k := by
  have hd := save_disk h k
  unfold abs
  have hl : AL.get? (save s).loaded k = (AL.get? s.loaded k).map (fun v => (v.1, false)) := by
    unfold save; exact AL.get?_map_val (fun v : GRec × Bool => (v.1, false)) s.loaded k
  rw [hl]
  cases hg : AL.get? s.loaded k with
  | some p => simp
  | none =>
    simp only [Option.map_none]
    have : (save s).sched = [] := rfl
    rw [this, hd, abs_of_not_loaded hg]
    simp

theorem wf_save {s : State} (h : WF s) : WF (save s) := by
  have habs := abs_save h
  have hdisk := save_disk h
  have hl : ∀ k, AL.get? (save s).loaded k = (AL.get? s.loaded k).map (fun v => (v.1, false)) := by
    intro k; unfold save; exact AL.get?_map_val (fun v : GRec × Bool => (v.1, false)) s.loaded k
  constructor
  · unfold save; simp only
    exact AL.nodup_keys_foldl_erase _ _ (nodup_keys_foldl_write _ _ h.diskKeys)
  · have : AL.keys (save s).loaded = AL.keys s.loaded := by
      unfold save; exact AL.keys_map_val (fun v : GRec × Bool => (v.1, false)) s.loaded
    rw [this]; exact h.loadedKeys
  · exact h.keysNodup
  · unfold save; simp
  · intro m hm; simp [save] at hm
  · intro m hm; simp [save] at hm
  · intro k; rw [habs]; exact h.keysIff k
  · intro k r hk
    rw [hl] at hk
    rw [hdisk]
    cases hg : AL.get? s.loaded k with
    | none => simp [hg] at hk
    | some p =>
      simp [hg] at hk
      rw [abs_of_loaded hg, hk]

theorem scan_save {s : State} (hw : WF s) (h : ScanOK s) : ScanOK (save s) := by
  intro k x hk hl
  rw [abs_save hw] at hk
  have hl' : AL.get? (save s).loaded k = (AL.get? s.loaded k).map (fun v => (v.1, false)) := by
    unfold save; exact AL.get?_map_val (fun v : GRec × Bool => (v.1, false)) s.loaded k
  rw [hl'] at hl
  cases hg : AL.get? s.loaded k with
  | none => exact h k x hk hg
  | some p => simp [hg] at hl

/-! ### first access to the unicode map -/

/-- the loaded part of the lazy constructor: the name of every glyph that is not skipped is appended once per
element of its list -/
theorem count_foldl_append {α : Type} (l : List (String × α)) (hk : (AL.keys l).Nodup) (skip : String → Prop)
    [DecidablePred skip] (us : α → List Nat) (m0 : Cmap) (h0 : MapWF m0) :
    MapWF (l.foldl (fun m p => if skip p.1 then m else uniAppend m p.1 (us p.2)) m0) ∧
    ∀ c n', (namesAt (l.foldl (fun m p => if skip p.1 then m else uniAppend m p.1 (us p.2)) m0) c).count n' =
      (namesAt m0 c).count n' +
        match AL.get? l n' with
        | some a => if skip n' then 0 else (us a).count c
        | none => 0 := by
  induction l generalizing m0 with
  | nil => exact ⟨h0, fun c n' => by simp⟩
  | cons p rest ih =>
    obtain ⟨k, a⟩ := p
    simp only [AL.keys, List.map_cons, List.nodup_cons] at hk
    have hk2 : (AL.keys rest).Nodup := by simpa [AL.keys] using hk.2
    simp only [List.foldl_cons]
    by_cases hs : skip k
    · simp only [hs, if_true]
      obtain ⟨h1, h2⟩ := ih hk2 m0 h0
      refine ⟨h1, fun c n' => ?_⟩
      rw [h2]
      by_cases e : k = n'
      · subst e
        have : AL.get? rest k = none := AL.get?_eq_none_of_not_mem (by simpa [AL.keys] using hk.1)
        simp [this, hs]
      · simp [e]
    · simp only [hs, if_false]
      obtain ⟨hw, hc⟩ := uniAppend_spec h0 k (us a)
      obtain ⟨h1, h2⟩ := ih hk2 _ hw
      refine ⟨h1, fun c n' => ?_⟩
      rw [h2, hc]
      by_cases e : k = n'
      · subst e
        have : AL.get? rest k = none := AL.get?_eq_none_of_not_mem (by simpa [AL.keys] using hk.1)
        simp [this, hs]
      · have e' : ¬ n' = k := fun x => e x.symm
        simp [e, e']

/-- the scanned part: the name of every glyph that is not skipped is added (guarded) under each of its code points -/
theorem count_foldl_add {α : Type} (l : List (String × α)) (hk : (AL.keys l).Nodup) (skip : String → Prop)
    [DecidablePred skip] (us : α → List Nat) (m0 : Cmap) (h0 : MapWF m0) :
    MapWF (l.foldl (fun m p => if skip p.1 then m else uniAdd m p.1 (us p.2)) m0) ∧
    ∀ c n', (namesAt (l.foldl (fun m p => if skip p.1 then m else uniAdd m p.1 (us p.2)) m0) c).count n' =
        match AL.get? l n' with
        | some a => if ¬ skip n' ∧ c ∈ us a then max 1 ((namesAt m0 c).count n') else (namesAt m0 c).count n'
        | none => (namesAt m0 c).count n' := by
  induction l generalizing m0 with
  | nil => exact ⟨h0, fun c n' => by simp⟩
  | cons p rest ih =>
    obtain ⟨k, a⟩ := p
    simp only [AL.keys, List.map_cons, List.nodup_cons] at hk
    have hk2 : (AL.keys rest).Nodup := by simpa [AL.keys] using hk.2
    simp only [List.foldl_cons]
    by_cases hs : skip k
    · simp only [hs, if_true]
      obtain ⟨h1, h2⟩ := ih hk2 m0 h0
      refine ⟨h1, fun c n' => ?_⟩
      rw [h2]
      by_cases e : k = n'
      · subst e
        have : AL.get? rest k = none := AL.get?_eq_none_of_not_mem (by simpa [AL.keys] using hk.1)
        simp [this, hs]
      · simp [e]
    · simp only [hs, if_false]
      have hw := (uniAdd_spec h0 k (us a)).1
      obtain ⟨h1, h2⟩ := ih hk2 _ hw
      refine ⟨h1, fun c n' => ?_⟩
      rw [h2]
      by_cases e : k = n'
      · subst e
        have : AL.get? rest k = none := AL.get?_eq_none_of_not_mem (by simpa [AL.keys] using hk.1)
        simp only [this, AL.get?_cons, if_true]
        rw [count_uniAdd h0]
        simp [hs]
      · have e' : ¬ n' = k := fun x => e x.symm
        simp only [AL.get?_cons, e, if_false]
        have : ∀ c, (namesAt (uniAdd m0 k (us a)) c).count n' = (namesAt m0 c).count n' := by
          intro c; rw [count_uniAdd h0]; simp [e']
        simp only [this]

theorem namesAt_nil (c : Nat) : namesAt [] c = [] := rfl

theorem buildUni_spec {s : State} (h : WF s) : UniInv (abs s) (some (buildUni s)) := by
  intro m hm
  simp only [Option.some.injEq] at hm
  subst hm
  unfold buildUni
  obtain ⟨hw1, hc1⟩ := count_foldl_append s.loaded h.loadedKeys (fun x => x ∈ s.sched)
    (fun r : GRec × Bool => r.1.unicodes) [] mapWF_nil
  obtain ⟨hw2, hc2⟩ := count_foldl_add s.disk h.diskKeys (fun x => isLoaded s x ∨ x ∈ s.sched)
    (fun r : GRec => r.unicodes) _ hw1
  refine ⟨hw2, fun c n => ?_⟩
  simp only
  rw [hc2, hc1, namesAt_nil]
  simp only [List.count_nil, Nat.zero_add]
  cases hl : AL.get? s.loaded n with
  | some p =>
    have hns : n ∉ s.sched := by
      intro hs; rw [h.schedNotLoaded n hs] at hl; simp at hl
    have hil : isLoaded s n = true := by simp [isLoaded, AL.contains, hl]
    have hcnt : cnt (abs s) n c = p.1.unicodes.count c := cnt_of_some (abs_of_loaded hl) c
    rw [hcnt]
    cases hd : AL.get? s.disk n with
    | none => simp [hns]
    | some r => simp [hns, hil]
  | none =>
    have hil : ¬ isLoaded s n = true := by simp [isLoaded, AL.contains, hl]
    by_cases hs : n ∈ s.sched
    · have hcnt : cnt (abs s) n c = 0 := cnt_of_none (by rw [abs_of_not_loaded hl]; simp [hs]) c
      rw [hcnt]
      cases hd : AL.get? s.disk n with
      | none => simp
      | some r => simp [hs]
    · cases hd : AL.get? s.disk n with
      | none =>
        have hcnt : cnt (abs s) n c = 0 := cnt_of_none (by rw [abs_of_not_loaded hl]; simp [hs, hd]) c
        rw [hcnt]; simp
      | some r =>
        have hcnt : cnt (abs s) n c = r.unicodes.count c :=
          cnt_of_some (by rw [abs_of_not_loaded hl]; simp [hs, hd]) c
        rw [hcnt]
        by_cases hc : c ∈ r.unicodes
        · have := List.count_pos_iff.mpr hc
          simp [hs, hil, hc] <;> omega
        · have := List.count_eq_zero.mpr hc
          simp [hs, hil, hc, this]

theorem touchUni_spec {s : State} (h : Good s) : Good (touchUni s) ∧ ∀ k, abs (touchUni s) k = abs s k := by
  unfold touchUni
  cases hu : s.uni with
  | some m => exact ⟨h, fun _ => rfl⟩
  | none =>
    refine ⟨⟨?_, ?_, ?_⟩, fun _ => rfl⟩
    · exact ⟨h.wf.diskKeys, h.wf.loadedKeys, h.wf.keysNodup, h.wf.schedNodup, h.wf.schedDisk,
        h.wf.schedNotLoaded, h.wf.keysIff, h.wf.cleanEq⟩
    · show UniInv (abs s) (some (buildUni s))
      exact buildUni_spec h.wf
    · exact fun n r => h.scan n r

/-! ### queries as functions of the abstract content -/

/-- the visible records, as the two scans of the data skimmers enumerate them -/
def visRecs (s : State) : List (String × GRec) :=
  (s.loaded.filter (fun p => p.1 ∉ s.sched)).map (fun p => (p.1, p.2.1)) ++
  s.disk.filter (fun p => ¬ isLoaded s p.1 ∧ p.1 ∉ s.sched)

theorem mem_visRecs_iff {s : State} (h : WF s) (n : String) (r : GRec) :
    (n, r) ∈ visRecs s ↔ abs s n = some r := by
  unfold visRecs
  simp only [List.mem_append, List.mem_map, List.mem_filter, decide_eq_true_eq, Prod.mk.injEq]
  constructor
  · rintro (⟨p, ⟨hp, hs⟩, hn, hr⟩ | ⟨hp, hnl, hs⟩)
    · obtain ⟨k, v⟩ := p
      simp only at hn hr hs
      subst hn; subst hr
      exact abs_of_loaded (AL.get?_of_mem_nodup h.loadedKeys hp)
    · have hnl' : AL.get? s.loaded n = none := (AL.contains_false_iff _ _).mp (by simpa [isLoaded] using hnl)
      rw [abs_of_not_loaded hnl']
      simp [hs, AL.get?_of_mem_nodup h.diskKeys hp]
  · intro hr
    cases hl : AL.get? s.loaded n with
    | some p =>
      left
      rw [abs_of_loaded hl] at hr
      simp only [Option.some.injEq] at hr
      refine ⟨(n, p), ⟨AL.mem_of_get? hl, ?_⟩, rfl, hr⟩
      intro hs; rw [h.schedNotLoaded n hs] at hl; simp at hl
    | none =>
      right
      rw [abs_of_not_loaded hl] at hr
      by_cases hs : n ∈ s.sched
      · simp [hs] at hr
      · simp only [hs, if_false] at hr
        exact ⟨AL.mem_of_get? hr, by simp [isLoaded, AL.contains, hl], hs⟩

theorem componentReferences_eq (s : State) :
    componentReferences s = (visRecs s).flatMap (fun p => p.2.comps.map (fun b => (b, p.1))) := by
  unfold componentReferences visRecs
  simp [List.flatMap_append, List.flatMap_map]

theorem imageReferences_eq (s : State) :
    imageReferences s = (visRecs s).filterMap (fun p => p.2.image.map (fun f => (f, p.1))) := by
  unfold imageReferences visRecs
  simp [List.filterMap_append, List.filterMap_map, Function.comp_def]



/-! ### reloading a glyph whose file another program rewrote -/

theorem not_sched_of_unloaded_visible {s : State} {n : String} (hl : AL.get? s.loaded n = none)
    (hv : (abs s n).isSome) : n ∉ s.sched := by
  intro hs
  rw [abs_of_not_loaded hl] at hv
  simp [hs] at hv

theorem wf_setDisk_unloaded {s : State} (h : WF s) (n : String) (r : GRec) (hl : AL.get? s.loaded n = none)
    (hv : (abs s n).isSome) :
    WF { s with disk := AL.set s.disk n r } ∧
      ∀ k, abs { s with disk := AL.set s.disk n r } k = upd (abs s) n (some r) k := by
  have hns := not_sched_of_unloaded_visible hl hv
  have habs : ∀ k, abs { s with disk := AL.set s.disk n r } k = upd (abs s) n (some r) k := by
    intro k
    unfold abs upd
    simp only
    by_cases e : k = n
    · subst e; simp [hl, hns]
    · have e' : n ≠ k := fun x => e x.symm
      simp only [e, if_false]
      rw [AL.get?_set_ne _ _ _ _ e']
  refine ⟨?_, habs⟩
  constructor
  · exact AL.nodup_keys_set _ _ _ h.diskKeys
  · exact h.loadedKeys
  · exact h.keysNodup
  · exact h.schedNodup
  · intro m hm
    simp only [AL.contains_set, h.schedDisk m hm, Bool.or_true]
  · exact h.schedNotLoaded
  · intro k
    rw [habs]
    unfold upd
    by_cases e : k = n
    · subst e
      simp only [if_true, Option.isSome_some, iff_true]
      exact (h.keysIff k).mpr hv
    · simp only [e, if_false]; exact h.keysIff k
  · intro k r' hk
    have hk' : AL.get? s.loaded k = some (r', false) := hk
    have e : n ≠ k := by
      intro e; subst e; rw [hl] at hk'; simp at hk'
    simp only
    rw [AL.get?_set_ne _ _ _ _ e]
    exact h.cleanEq k r' hk'

theorem wf_reloadLoaded {s : State} (h : WF s) (n : String) (r : GRec) (u : Option Cmap) {p : GRec × Bool}
    (hl : AL.get? s.loaded n = some p) :
    WF { s with disk := AL.set s.disk n r, loaded := AL.set s.loaded n (r, false), uni := u } ∧
      ∀ k, abs { s with disk := AL.set s.disk n r, loaded := AL.set s.loaded n (r, false), uni := u } k =
        upd (abs s) n (some r) k := by
  have hns : n ∉ s.sched := by
    intro hs; rw [h.schedNotLoaded n hs] at hl; simp at hl
  have habs : ∀ k, abs { s with disk := AL.set s.disk n r, loaded := AL.set s.loaded n (r, false), uni := u } k =
      upd (abs s) n (some r) k := by
    intro k
    unfold abs upd
    simp only
    by_cases e : k = n
    · subst e; simp
    · have e' : n ≠ k := fun x => e x.symm
      simp only [e, if_false]
      rw [AL.get?_set_ne _ _ _ _ e', AL.get?_set_ne _ _ _ _ e']
  refine ⟨?_, habs⟩
  constructor
  · exact AL.nodup_keys_set _ _ _ h.diskKeys
  · exact AL.nodup_keys_set _ _ _ h.loadedKeys
  · exact h.keysNodup
  · exact h.schedNodup
  · intro m hm
    simp only [AL.contains_set, h.schedDisk m hm, Bool.or_true]
  · intro m hm
    have e : n ≠ m := by intro e; subst e; exact hns hm
    simp only
    rw [AL.get?_set_ne _ _ _ _ e]
    exact h.schedNotLoaded m hm
  · intro k
    rw [habs]
    unfold upd
    by_cases e : k = n
    · subst e
      simp only [if_true, Option.isSome_some, iff_true]
      exact (h.keysIff k).mpr (by rw [abs_of_loaded hl]; rfl)
    · simp only [e, if_false]; exact h.keysIff k
  · intro k r' hk
    simp only at hk ⊢
    rw [AL.get?_set] at hk ⊢
    by_cases e : n = k
    · simp only [e, if_true, Option.some.injEq, Prod.mk.injEq, and_true] at hk ⊢
      exact hk
    · simp only [e, if_false] at hk ⊢
      exact h.cleanEq k r' hk

theorem reload_spec {s s' : State} {n : String} {r : GRec} (h : Good s) (hr : r.unicodes.Nodup)
    (hd : reload s n r = .ok s') :
    Good s' ∧ (abs s n).isSome ∧ ∀ k, abs s' k = upd (abs s) n (some r) k := by
  unfold reload at hd
  by_cases hv : n ∉ visible s
  · rw [if_pos hv] at hd; simp at hd
  · rw [if_neg hv] at hd
    have hv' : (abs s n).isSome := (mem_visible_iff h.wf n).mp (by simpa using hv)
    refine ⟨?_, hv', ?_⟩ <;> by_cases hod : onDisk s n = true
    all_goals first | rw [if_pos hod] at hd | rw [if_neg hod] at hd
    all_goals try simp only at hd
    · -- the file is rewritten and read again
      cases hl : AL.get? s.loaded n with
      | some p =>
        obtain ⟨r0, d0⟩ := p
        simp only [hl, Except.ok.injEq] at hd
        subst hd
        obtain ⟨hw, habs⟩ := wf_reloadLoaded h.wf n r
          (s.uni.map (fun m => uniAdd (uniRemove m n r0.unicodes) n r.unicodes)) hl
        refine ⟨hw, ?_, ?_⟩
        · unfold UniOK
          apply uniInv_congr (fun k => (habs k).symm)
          exact uniInv_replace h.uni n r0 r (abs_of_loaded hl)
        · intro k x hk hlk
          have hlk' : AL.get? (AL.set s.loaded n (r, false)) k = none := hlk
          rw [AL.get?_set] at hlk'
          by_cases e : n = k
          · simp [e] at hlk'
          · simp only [e, if_false] at hlk'
            rw [habs] at hk
            have e' : ¬ k = n := fun x => e x.symm
            simp only [upd, e', if_false] at hk
            exact h.scan k x hk hlk'
      | none =>
        simp only [hl, Except.ok.injEq] at hd
        subst hd
        obtain ⟨hw0, habs0⟩ := wf_setDisk_unloaded h.wf n r hl hv'
        have hdisk : AL.get? (AL.set s.disk n r) n = some r := AL.get?_set_self _ _ _
        have hw1 := wf_insertGlyph hw0 n r false (fun _ => hdisk)
        obtain ⟨r0, hr0⟩ : ∃ r0, abs s n = some r0 := by
          cases hh : abs s n with
          | none => simp [hh] at hv'
          | some x => exact ⟨x, rfl⟩
        have habs : ∀ k, abs (insertGlyph { s with disk := AL.set s.disk n r } n r false) k =
            upd (abs s) n (some r) k := by
          intro k
          rw [abs_insertGlyph_upd]
          unfold upd
          split
          · rfl
          · rename_i e; rw [habs0]; simp [upd, e]
        refine ⟨wf_withUni (wf_withUni hw1 _) _, ?_, ?_⟩
        · show UniInv _ (s.uni.map (fun m => uniAdd (uniRemove m n (codesOf m n)) n r.unicodes))
          apply uniInv_congr (fun k => ((abs_withUni _ _ k).trans ((abs_withUni _ _ k).trans (habs k))).symm)
          have h1 := uniInv_purge h.uni n r0 hr0 (h.scan n r0 hr0 hl)
          have h2 := uniInv_insert_after_forget h1 r
          simpa [Option.map_map, Function.comp_def] using h2
        · apply scan_withUni
          apply scan_withUni
          intro k x hk hlk
          have hlk' : AL.get? (AL.set s.loaded n (r, false)) k = none := hlk
          rw [AL.get?_set] at hlk'
          by_cases e : n = k
          · simp [e] at hlk'
          · simp only [e, if_false] at hlk'
            rw [habs] at hk
            have e' : ¬ k = n := fun x => e x.symm
            simp only [upd, e', if_false] at hk
            exact h.scan k x hk hlk'
    · -- no file: the content is assigned in memory
      cases h2 : setUnicodes s n r.unicodes with
      | error e => simp [h2] at hd
      | ok s2 =>
        simp only [h2] at hd
        obtain ⟨hg2, r2, hr2, ha2⟩ := setUnicodes_spec h h2
        exact (edit_spec hg2 hd).1
    · cases hl : AL.get? s.loaded n with
      | some p =>
        obtain ⟨r0, d0⟩ := p
        simp only [hl, Except.ok.injEq] at hd
        subst hd
        exact (wf_reloadLoaded h.wf n r _ hl).2
      | none =>
        simp only [hl, Except.ok.injEq] at hd
        subst hd
        obtain ⟨hw0, habs0⟩ := wf_setDisk_unloaded h.wf n r hl hv'
        intro k
        show abs (insertGlyph { s with disk := AL.set s.disk n r } n r false) k = _
        rw [abs_insertGlyph_upd]
        unfold upd
        split
        · rfl
        · rename_i e; rw [habs0]; simp [upd, e]
    · cases h2 : setUnicodes s n r.unicodes with
      | error e => simp [h2] at hd
      | ok s2 =>
        simp only [h2] at hd
        obtain ⟨hg2, r2, hr2, ha2⟩ := setUnicodes_spec h h2
        obtain ⟨hg3, r3, hr3, ha3⟩ := edit_spec hg2 hd
        have e3 : r3 = withUnicodes r2 r.unicodes := by
          rw [ha2] at hr3; simp [upd] at hr3; exact hr3.symm
        intro k
        rw [ha3, e3, grec_eta']
        unfold upd
        split
        · rfl
        · rw [ha2]; unfold upd; rename_i hk; simp only [hk, if_false]

/-! ### look-ups -/

theorem fwd_spec {s : State} (h : Good s) (n : String) :
    Good (fwd s n).1 ∧ (∀ k, abs (fwd s n).1 k = abs s k) ∧ (fwd s n).2 = specFwd (abs s) n := by
  unfold fwd specFwd
  cases hg : getItem s n with
  | ok p =>
    obtain ⟨s1, r⟩ := p
    obtain ⟨hg1, hsame, hr, _, _, _⟩ := getItem_spec h hg
    simp only [hr, Option.bind_some]
    exact ⟨hg1, hsame, trivial⟩
  | error e =>
    have := (getItem_error_iff h.wf).mp ⟨e, hg⟩
    simp only [this, Option.bind_none]
    exact ⟨h, by simp, by simp⟩

/-- `pseudoUnicodeForGlyphName` as a function of the content -/
def specPseudo (f : String → Option GRec) (n : String) : Option Nat :=
  match specFwd f n with
  | some v => some v
  | none => (baseName n).bind (specFwd f)

theorem pseudo_spec {s : State} (h : Good s) (n : String) :
    Good (pseudo s n).1 ∧ (∀ k, abs (pseudo s n).1 k = abs s k) ∧ (pseudo s n).2 = specPseudo (abs s) n := by
  obtain ⟨h1, h2, h3⟩ := fwd_spec h n
  unfold pseudo specPseudo
  rw [← h3]
  cases hf : fwd s n with
  | mk s1 v =>
    rw [hf] at h1 h2
    simp only at h1 h2
    cases v with
    | some v => exact ⟨h1, h2, rfl⟩
    | none =>
      simp only
      cases hb : baseName n with
      | none => exact ⟨h1, h2, rfl⟩
      | some b =>
        obtain ⟨h4, h5, h6⟩ := fwd_spec h1 b
        refine ⟨h4, fun k => (h5 k).trans (h2 k), ?_⟩
        simp only [Option.bind_some]
        rw [h6]
        have : abs s1 = abs s := funext h2
        rw [this]

/-- no stale names, none missing — and the duplicate-free reading -/
theorem uniInv_nodup {f : String → Option GRec} {u : Option Cmap} {m : Cmap} (hu : UniInv f u) (hm : u = some m)
    (hf : ∀ n r, f n = some r → r.unicodes.Nodup) (c : Nat) : (namesAt m c).Nodup := by
  rw [List.nodup_iff_count]
  intro n
  obtain ⟨_, h⟩ := hu m hm
  have h1 := (h c n).1
  have : cnt f n c ≤ 1 := by
    unfold cnt
    cases hn : f n with
    | none => simp
    | some r => exact List.nodup_iff_count.mp (hf n r hn) c
  omega

theorem namesAt_ne_nil_iff {m : Cmap} (hw : MapWF m) (c : Nat) : namesAt m c ≠ [] ↔ AL.contains m c = true := by
  unfold namesAt AL.contains
  cases hg : AL.get? m c with
  | none => simp
  | some l => simpa using hw.nonempty _ (AL.mem_of_get? hg)


/-! ### operations never fail on visible glyphs; refinement of one step -/

theorem getItem_ok {s : State} {n : String} (h : WF s) (hv : (abs s n).isSome) :
    ∃ p, getItem s n = .ok p := by
  cases hg : getItem s n with
  | ok p => exact ⟨p, rfl⟩
  | error e =>
    have := (getItem_error_iff h).mp ⟨e, hg⟩
    rw [this] at hv; simp at hv

theorem deleteGlyph_ok {s : State} {n : String} (h : WF s) (hv : (abs s n).isSome) :
    ∃ s', deleteGlyph s n = .ok s' := by
  unfold deleteGlyph
  cases s.uni with
  | none => exact ⟨_, rfl⟩
  | some m =>
    obtain ⟨p, hp⟩ := getItem_ok h hv
    simp only [hp]
    exact ⟨_, rfl⟩

theorem putGlyph_ok {s : State} {n : String} (r : GRec) (h : WF s) : ∃ s', putGlyph s n r = .ok s' := by
  unfold putGlyph
  split
  · rename_i hc
    obtain ⟨p, hp⟩ := getItem_ok h ((mem_visible_iff h n).mp hc.1)
    simp only [hp]
    exact ⟨_, rfl⟩
  · exact ⟨_, rfl⟩

theorem newGlyph_ok {s : State} {n : String} (h : WF s) : ∃ s', newGlyph s n = .ok s' := putGlyph_ok {} h

theorem setUnicodes_ok {s : State} {n : String} (us : List Nat) (h : WF s) (hv : (abs s n).isSome) :
    ∃ s', setUnicodes s n us = .ok s' := by
  unfold setUnicodes
  obtain ⟨p, hp⟩ := getItem_ok h hv
  simp only [hp]
  split <;> exact ⟨_, rfl⟩

theorem editRest_ok {s : State} {n : String} (c : List String) (i : Option String) (ol ofast : Bool) (h : WF s)
    (hv : (abs s n).isSome) : ∃ s', editRest s n c i ol ofast = .ok s' := by
  unfold editRest
  obtain ⟨p, hp⟩ := getItem_ok h hv
  simp only [hp]
  exact ⟨_, rfl⟩

theorem ptwise_eq_of_upd {f g : String → Option GRec} (h : ∀ k, f k = g k) (n : String) (v : Option GRec) (k : String) :
    upd f n v k = upd g n v k := by
  unfold upd; split
  · rfl
  · exact h k

theorem setUnicodes_refines {s : State} (n : String) (us : List Nat) (h : Good s) :
    Good (match setUnicodes s n us with | .ok s' => s' | .error _ => s) ∧
      ∀ k, abs (match setUnicodes s n us with | .ok s' => s' | .error _ => s) k =
        ((match abs s n with
          | none => none
          | some r => some (upd (abs s) n (some (withUnicodes r us)))).getD (abs s)) k := by
  cases hr : setUnicodes s n us with
  | ok s' =>
    obtain ⟨hg1, r, hrn, ha⟩ := setUnicodes_spec h hr
    simp [hrn, hg1, ha]
  | error e =>
    unfold setUnicodes at hr
    cases hg : getItem s n with
    | error e2 =>
      have := (getItem_error_iff h.wf).mp ⟨e2, hg⟩
      simp [this, h]
    | ok p =>
      exfalso
      simp only [hg] at hr
      split at hr <;> simp at hr

theorem step_refines {s : State} (op : Op) (h : Good s) (hop : OpOK (abs s) op) :
    Good (stepTotal s op) ∧ ∀ k, abs (stepTotal s op) k = specTotal (abs s) op k := by
  unfold stepTotal specTotal
  cases op with
  | get n =>
    simp only [step, specStep]
    cases hg : getItem s n with
    | error e =>
      have := (getItem_error_iff h.wf).mp ⟨e, hg⟩
      simp [Except.map, this, h]
    | ok p =>
      obtain ⟨s1, r⟩ := p
      obtain ⟨hg1, hsame, hr, _⟩ := getItem_spec h hg
      simp [Except.map, hr, hg1, hsame]
  | new n =>
    simp only [step, specStep]
    obtain ⟨s', hs'⟩ := newGlyph_ok (n := n) h.wf
    obtain ⟨hg1, ha⟩ := new_spec h hs'
    simp [hs', hg1, ha]
  | insert n r =>
    simp only [step, specStep]
    cases hi : insert s n r with
    | ok s' =>
      obtain ⟨hg1, ha⟩ := insert_spec h hi
      simp [hg1, ha]
    | error e =>
      exfalso
      unfold insert at hi
      obtain ⟨s1, hs1⟩ := newGlyph_ok (n := n) h.wf
      obtain ⟨hg1, ha1⟩ := new_spec h hs1
      simp only [hs1] at hi
      have hv1 : (abs s1 n).isSome := by rw [ha1]; simp [upd]
      obtain ⟨s2, h2⟩ := setUnicodes_ok r.unicodes hg1.wf hv1
      simp only [h2] at hi
      obtain ⟨hg2, r2, hr2, ha2⟩ := setUnicodes_spec hg1 h2
      have hv2 : (abs s2 n).isSome := by rw [ha2]; simp [upd]
      obtain ⟨s3, h3⟩ := editRest_ok r.comps r.image r.outlineLoaded r.outlineFast hg2.wf hv2
      simp [h3] at hi
  | delete n =>
    simp only [step, specStep]
    unfold delete
    by_cases hv : n ∈ visible s
    · have hv' := (mem_visible_iff h.wf n).mp hv
      obtain ⟨s', hs'⟩ := deleteGlyph_ok h.wf hv'
      obtain ⟨hg1, ha⟩ := delete_spec h hs' hv'
      simp [hv, hs', hv', hg1, ha]
    · have hv' : ¬ (abs s n).isSome := fun x => hv ((mem_visible_iff h.wf n).mpr x)
      simp [hv, hv', h]
  | rename o n =>
    simp only [step, specStep]
    cases hr : rename s o n with
    | ok s' =>
      obtain ⟨hg1, r, hro, ha⟩ := rename_spec h hr
      simp only [hro]
      refine ⟨hg1, ?_⟩
      intro k
      rw [ha]
      by_cases e : o = n <;> simp [e]
    | error e =>
      unfold rename at hr
      cases hg : getItem s o with
      | error e2 =>
        have := (getItem_error_iff h.wf).mp ⟨e2, hg⟩
        simp [this, h]
      | ok p =>
        exfalso
        obtain ⟨s1, r⟩ := p
        simp only [hg] at hr
        obtain ⟨hg1, hsame, hro, _⟩ := getItem_spec h hg
        split at hr
        · simp at hr
        · have hv : (abs s1 o).isSome := by rw [hsame, hro]; rfl
          obtain ⟨s2, hs2⟩ := deleteGlyph_ok hg1.wf hv
          simp only [hs2] at hr
          obtain ⟨hg2, _⟩ := delete_spec hg1 hs2 hv
          obtain ⟨s3, hs3⟩ := putGlyph_ok (n := n) r (wf_forgetUni hg2.wf o r.unicodes)
          simp [hs3] at hr
  | setUnicodes n us =>
    simp only [step, specStep]
    exact setUnicodes_refines n us h
  | setUnicode n v =>
    simp only [step, specStep, setUnicode]
    exact setUnicodes_refines n v.toList h
  | edit n c i ol ofast =>
    simp only [step, specStep]
    cases hr : editRest s n c i ol ofast with
    | ok s' =>
      obtain ⟨hg1, r, hrn, ha⟩ := edit_spec h hr
      simp [hrn, hg1, ha]
    | error e =>
      unfold editRest at hr
      cases hg : getItem s n with
      | error e2 =>
        have := (getItem_error_iff h.wf).mp ⟨e2, hg⟩
        simp [this, h]
      | ok p =>
        exfalso
        simp [hg] at hr
  | touch n =>
    simp only [step, specStep]
    cases hr : touch s n with
    | ok s' =>
      obtain ⟨hg1, hv, ha⟩ := touch_spec h hr
      simp [hv, hg1, ha]
    | error e =>
      unfold touch at hr
      cases hg : getItem s n with
      | error e2 =>
        have := (getItem_error_iff h.wf).mp ⟨e2, hg⟩
        simp [this, h]
      | ok p =>
        exfalso
        simp [hg] at hr
  | reload n r =>
    simp only [step, specStep]
    simp only [OpOK] at hop
    cases hr : reload s n r with
    | ok s' =>
      obtain ⟨hg1, hv, ha⟩ := reload_spec h hop hr
      simp [hv, hg1, ha]
    | error e =>
      by_cases hv : (abs s n).isSome
      · exfalso
        unfold reload at hr
        have hvis : ¬ n ∉ visible s := by simpa using (mem_visible_iff h.wf n).mpr hv
        rw [if_neg hvis] at hr
        by_cases hod : onDisk s n = true
        · rw [if_pos hod] at hr
          simp only at hr
          cases hl : AL.get? s.loaded n with
          | some p => simp [hl] at hr
          | none => simp [hl] at hr
        · rw [if_neg hod] at hr
          obtain ⟨s2, h2⟩ := setUnicodes_ok r.unicodes h.wf hv
          simp only [h2] at hr
          obtain ⟨hg2, r2, hr2, ha2⟩ := setUnicodes_spec h h2
          have hv2 : (abs s2 n).isSome := by rw [ha2]; simp [upd]
          obtain ⟨s3, h3⟩ := editRest_ok r.comps r.image r.outlineLoaded r.outlineFast hg2.wf hv2
          simp [h3] at hr
      · simp [hv, h]
  | fwd n =>
    simp only [step, specStep, Option.getD_some]
    exact ⟨(fwd_spec h n).1, (fwd_spec h n).2.1⟩
  | pseudo n =>
    simp only [step, specStep, Option.getD_some]
    exact ⟨(pseudo_spec h n).1, (pseudo_spec h n).2.1⟩
  | save =>
    simp only [step, specStep, Option.getD_some]
    refine ⟨⟨wf_save h.wf, ?_, scan_save h.wf h.scan⟩, abs_save h.wf⟩
    unfold UniOK
    apply uniInv_congr (fun k => (abs_save h.wf k).symm)
    exact h.uni
  | touchUni =>
    simp only [step, specStep, Option.getD_some]
    exact touchUni_spec h

theorem specTotal_congr {f g : String → Option GRec} (h : ∀ k, f k = g k) (op : Op) (k : String) :
    specTotal f op k = specTotal g op k := by
  have : f = g := funext h
  rw [this]

theorem opOK_congr {f g : String → Option GRec} (h : ∀ k, f k = g k) (op : Op) : OpOK f op ↔ OpOK g op := by
  have : f = g := funext h
  rw [this]

theorem run_refines (s : State) (ops : List Op) (h : Good s) (hops : OpsOK (abs s) ops) :
    Good (run s ops) ∧ ∀ k, abs (run s ops) k = specRun (abs s) ops k := by
  induction ops generalizing s with
  | nil => exact ⟨h, fun _ => rfl⟩
  | cons op ops ih =>
    obtain ⟨hop, hrest⟩ := hops
    obtain ⟨hg1, ha1⟩ := step_refines op h hop
    have hfe : abs (stepTotal s op) = specTotal (abs s) op := funext ha1
    have := ih (stepTotal s op) hg1 (by rw [hfe]; exact hrest)
    unfold run specRun at this ⊢
    simp only [List.foldl_cons]
    rw [← hfe]
    exact this

/-! ### the duplicate-free domain is closed under the operations (on the specification side) -/

def FNodup (f : String → Option GRec) : Prop := ∀ n r, f n = some r → r.unicodes.Nodup

def OpsNodup (ops : List Op) : Prop := ∀ op ∈ ops, OpNodup op

instance (ops : List Op) : Decidable (OpsNodup ops) := by unfold OpsNodup; infer_instance

theorem fnodup_upd_some {f : String → Option GRec} (h : FNodup f) (n : String) (r : GRec) (hr : r.unicodes.Nodup) :
    FNodup (upd f n (some r)) := by
  intro k x hk
  unfold upd at hk
  split at hk
  · simp at hk; subst hk; exact hr
  · exact h k x hk

theorem fnodup_upd_none {f : String → Option GRec} (h : FNodup f) (n : String) : FNodup (upd f n none) := by
  intro k x hk
  unfold upd at hk
  split at hk
  · simp at hk
  · exact h k x hk

theorem fnodup_specTotal {f : String → Option GRec} (h : FNodup f) (op : Op) (hop : OpNodup op) :
    FNodup (specTotal f op) := by
  unfold specTotal
  cases op with
  | get n => simp only [specStep]; split <;> exact h
  | new n => exact fnodup_upd_some h n {} (by simp)
  | insert n r => exact fnodup_upd_some h n r hop
  | delete n =>
    simp only [specStep]; split
    · exact fnodup_upd_none h n
    · exact h
  | rename o n =>
    simp only [specStep]
    cases ho : f o with
    | none => exact h
    | some r =>
      simp only
      split
      · exact h
      · exact fnodup_upd_some (fnodup_upd_none h o) n r (h o r ho)
  | setUnicodes n us =>
    simp only [specStep]
    cases hn : f n with
    | none => exact h
    | some r => exact fnodup_upd_some h n _ hop
  | setUnicode n v =>
    simp only [specStep]
    cases hn : f n with
    | none => exact h
    | some r => exact fnodup_upd_some h n _ (by cases v <;> simp [withUnicodes])
  | edit n c i ol ofast =>
    simp only [specStep]
    cases hn : f n with
    | none => exact h
    | some r => exact fnodup_upd_some h n _ (h n r hn)
  | reload n r =>
    simp only [specStep]; split
    · exact fnodup_upd_some h n r hop
    · exact h
  | save => exact h
  | touchUni => exact h
  | touch n => simp only [specStep]; split <;> exact h
  | fwd n => exact h
  | pseudo n => exact h

theorem fnodup_specRun {f : String → Option GRec} (h : FNodup f) (ops : List Op) (hops : OpsNodup ops) :
    FNodup (specRun f ops) := by
  induction ops generalizing f with
  | nil => exact h
  | cons op ops ih =>
    unfold specRun
    simp only [List.foldl_cons]
    exact ih (fnodup_specTotal h op (hops op (by simp))) (fun o ho => hops o (by simp [ho]))

end Layer
end DefconModel
