/-
Helper lemmas about M-Layer.  Property theorems live in Props/C07.lean and Props/C09.lean.
-/
import DefconModel.Layer
import DefconModel.Spec.Layer

namespace DefconModel
namespace Layer

/-! ### the unicode map -/

theorem namesAt_set (m : Cmap) (v c : Nat) (l : List String) :
    namesAt (AL.set m v l) c = if v = c then l else namesAt m c := by
  unfold namesAt
  rw [AL.get?_set]
  split <;> simp

theorem namesAt_erase (m : Cmap) (v c : Nat) (h : (AL.keys m).Nodup) :
    namesAt (AL.erase m v) c = if v = c then [] else namesAt m c := by
  unfold namesAt
  rw [AL.get?_erase _ _ _ h]
  split <;> simp

theorem namesAt_nodup {m : Cmap} (h : UniWF m) (c : Nat) : (namesAt m c).Nodup := by
  unfold namesAt
  cases hg : AL.get? m c with
  | none => simp
  | some l => simpa using h.lists _ (AL.mem_of_get? hg)

theorem uniWF_nil : UniWF [] := ⟨by simp [AL.keys], by simp⟩

theorem uniWF_set {m : Cmap} (h : UniWF m) (v : Nat) (l : List String) (hl : l.Nodup) :
    UniWF (AL.set m v l) := by
  refine ⟨AL.nodup_keys_set _ _ _ h.keys, ?_⟩
  intro p hp
  rcases AL.mem_set hp with e | hm
  · subst e; exact hl
  · exact h.lists _ hm

theorem uniWF_erase {m : Cmap} (h : UniWF m) (v : Nat) : UniWF (AL.erase m v) :=
  ⟨AL.nodup_keys_erase _ _ h.keys, fun p hp => h.lists _ (AL.mem_erase hp)⟩

theorem uniWF_uniAdd {m : Cmap} (h : UniWF m) (n : String) (vs : List Nat) : UniWF (uniAdd m n vs) := by
  induction vs generalizing m with
  | nil => exact h
  | cons v vs ih =>
    unfold uniAdd
    apply ih
    apply uniWF_set h
    split
    · exact namesAt_nodup h v
    · rename_i hn
      rw [List.nodup_append]
      refine ⟨namesAt_nodup h v, by simp, ?_⟩
      intro a ha b hb
      simp at hb; subst hb
      intro e; subst e; exact hn ha

theorem mem_uniAdd (m : Cmap) (n n' : String) (vs : List Nat) (c : Nat) :
    n' ∈ namesAt (uniAdd m n vs) c ↔ n' ∈ namesAt m c ∨ (n' = n ∧ c ∈ vs) := by
  induction vs generalizing m with
  | nil => simp [uniAdd]
  | cons v vs ih =>
    unfold uniAdd
    rw [ih, namesAt_set]
    by_cases e : v = c
    · subst e
      by_cases hm : n ∈ namesAt m v
      · simp only [hm, if_true, List.mem_cons, true_or, and_true]
        grind
      · simp only [hm, if_false, if_true, List.mem_append, List.mem_cons, List.not_mem_nil, or_false, true_or, and_true]
        grind
    · have e' : ¬ c = v := fun x => e x.symm
      simp [e, e']

theorem uniWF_uniRemove {m : Cmap} (h : UniWF m) (n : String) (vs : List Nat) : UniWF (uniRemove m n vs) := by
  induction vs generalizing m with
  | nil => exact h
  | cons v vs ih =>
    unfold uniRemove
    split
    · exact ih h
    · rename_i l hg
      simp only
      apply ih
      split
      · exact uniWF_erase h v
      · apply uniWF_set h
        exact (List.erase_sublist).nodup (h.lists _ (AL.mem_of_get? hg))

theorem mem_uniRemove {m : Cmap} (h : UniWF m) (n n' : String) (vs : List Nat) (c : Nat) :
    n' ∈ namesAt (uniRemove m n vs) c ↔ n' ∈ namesAt m c ∧ ¬ (n' = n ∧ c ∈ vs) := by
  induction vs generalizing m with
  | nil => simp [uniRemove]
  | cons v vs ih =>
    unfold uniRemove
    split
    · rename_i hg
      rw [ih h]
      by_cases e : c = v
      · subst e; simp [namesAt, hg]
      · simp [e]
    · rename_i l hg
      simp only
      have hl : l.Nodup := h.lists _ (AL.mem_of_get? hg)
      have hnames : namesAt m v = l := by simp [namesAt, hg]
      have herase : ∀ x, x ∈ l.erase n ↔ x ≠ n ∧ x ∈ l := fun x => hl.mem_erase_iff
      by_cases hemp : (l.erase n).isEmpty = true
      · rw [if_pos hemp, ih (uniWF_erase h v), namesAt_erase _ _ _ h.keys]
        by_cases e : v = c
        · subst e
          have hnil : l.erase n = [] := by simpa using hemp
          have hmem : ∀ x, x ∈ l → x = n := by
            intro x hx
            by_cases hne : x = n
            · exact hne
            · have : x ∈ l.erase n := (herase x).mpr ⟨hne, hx⟩
              rw [hnil] at this
              simp at this
          rw [hnames]
          simp only [if_true, List.not_mem_nil, false_and, List.mem_cons, true_or, and_true, false_iff, not_and,
            Decidable.not_not]
          intro hx; exact hmem _ hx
        · have e' : ¬ c = v := fun x => e x.symm
          simp [e, e']
      · rw [if_neg hemp, ih (uniWF_set h v _ ((List.erase_sublist).nodup hl)), namesAt_set]
        by_cases e : v = c
        · subst e
          rw [hnames]
          simp only [if_true, List.mem_cons, true_or, and_true]
          rw [herase]
          grind
        · have e' : ¬ c = v := fun x => e x.symm
          simp [e, e']

/-! ### abstraction and invariant, primitive by primitive -/

theorem mem_addKey (ks : List String) (n k : String) : k ∈ addKey ks n ↔ k ∈ ks ∨ k = n := by
  unfold addKey
  split
  · rename_i h
    constructor
    · exact Or.inl
    · rintro (h1 | h1)
      · exact h1
      · subst h1; exact h
  · simp

theorem nodup_addKey (ks : List String) (n : String) (h : ks.Nodup) : (addKey ks n).Nodup := by
  unfold addKey
  split
  · exact h
  · rename_i hn
    rw [List.nodup_append]
    refine ⟨h, by simp, ?_⟩
    intro a ha b hb
    simp at hb; subst hb
    intro e; subst e; exact hn ha

theorem abs_insertGlyph (s : State) (n : String) (r : GRec) (d : Bool) (k : String) :
    abs (insertGlyph s n r d) k = if k = n then some r else abs s k := by
  unfold abs insertGlyph
  simp only [AL.get?_set]
  by_cases e : n = k
  · subst e; simp
  · have e' : ¬ k = n := fun x => e x.symm
    simp [e, e']

/-- the part of `insertGlyph` that `WF` looks at -/
theorem wf_insertGlyph {s : State} (h : WF s) (n : String) (r : GRec) (d : Bool)
    (hclean : d = false → AL.get? s.disk n = some r) : WF (insertGlyph s n r d) := by
  have habs := abs_insertGlyph s n r d
  constructor
  · exact h.diskKeys
  · exact AL.nodup_keys_set _ _ _ h.loadedKeys
  · exact nodup_addKey _ _ h.keysNodup
  · exact (List.filter_sublist).nodup h.schedNodup
  · intro m hm
    simp only [insertGlyph, List.mem_filter] at hm
    exact h.schedDisk m hm.1
  · intro m hm
    simp only [insertGlyph, List.mem_filter, ne_eq, decide_eq_true_eq] at hm
    simp only [insertGlyph]
    rw [AL.get?_set_ne _ _ _ _ (fun e => hm.2 e.symm)]
    exact h.schedNotLoaded m hm.1
  · intro k
    rw [habs]
    simp only [insertGlyph, mem_addKey]
    by_cases e : k = n
    · simp [e]
    · simp [e, h.keysIff k]
  · intro k r' hk
    simp only [insertGlyph, AL.get?_set] at hk
    by_cases e : n = k
    · subst e
      simp at hk
      obtain ⟨rfl, rfl⟩ := hk
      exact hclean rfl
    · simp only [e, if_false] at hk
      exact h.cleanEq k r' hk

theorem abs_of_loaded {s : State} {n : String} {p : GRec × Bool} (h : AL.get? s.loaded n = some p) :
    abs s n = some p.1 := by
  unfold abs; simp [h]

theorem abs_of_not_loaded {s : State} {n : String} (h : AL.get? s.loaded n = none) :
    abs s n = if n ∈ s.sched then none else AL.get? s.disk n := by
  unfold abs; simp [h]

/-- `load` is invisible: it installs exactly the record the abstraction already showed -/
theorem load_ok {s s' : State} {n : String} (h : WF s) (hl : load s n = .ok s')
    (hnot : AL.get? s.loaded n = none) :
    ∃ r, AL.get? s.disk n = some r ∧ n ∉ s.sched ∧ s' = insertGlyph s n r false ∧ abs s n = some r := by
  unfold load at hl
  cases hd : AL.get? s.disk n with
  | none => simp [hd] at hl
  | some r =>
    simp only [hd] at hl
    by_cases hs : n ∈ s.sched
    · simp [hs] at hl
    · simp only [hs, if_false, Except.ok.injEq] at hl
      refine ⟨r, rfl, hs, hl.symm, ?_⟩
      rw [abs_of_not_loaded hnot]; simp [hs, hd]

theorem load_error_iff {s : State} {n : String} (hnot : AL.get? s.loaded n = none) :
    (∃ e, load s n = .error e) ↔ abs s n = none := by
  rw [abs_of_not_loaded hnot]
  unfold load
  cases hd : AL.get? s.disk n with
  | none => simp; exact ⟨.keyError, trivial⟩
  | some r =>
    by_cases hs : n ∈ s.sched
    · simp [hs]; exact ⟨.keyError, trivial⟩
    · simp [hs]

/-! ### the unicode invariant under abstract updates -/

theorem uniInv_congr {f g : String → Option GRec} {u : Option Cmap} (h : ∀ k, f k = g k) (hu : UniInv f u) :
    UniInv g u := by
  intro m hm
  obtain ⟨h1, h2⟩ := hu m hm
  refine ⟨h1, ?_⟩
  intro c n; rw [h2, h]

theorem uniInv_none (f : String → Option GRec) : UniInv f none := by
  intro m hm; simp at hm

theorem uniInv_remove {f : String → Option GRec} {u : Option Cmap} (hu : UniInv f u) (n : String) (r : GRec)
    (hf : f n = some r) : UniInv (upd f n none) (u.map (fun m => uniRemove m n r.unicodes)) := by
  intro m' hm'
  cases u with
  | none => simp at hm'
  | some m =>
    simp at hm'; subst hm'
    obtain ⟨h1, h2⟩ := hu m rfl
    refine ⟨uniWF_uniRemove h1 _ _, ?_⟩
    intro c n'
    rw [mem_uniRemove h1, h2]
    unfold upd
    by_cases e : n' = n
    · subst e; simp [hf]
    · simp [e]

theorem uniInv_remove_absent {f : String → Option GRec} {u : Option Cmap} (hu : UniInv f u) (n : String)
    (vs : List Nat) (hf : f n = none) : UniInv f (u.map (fun m => uniRemove m n vs)) := by
  intro m' hm'
  cases u with
  | none => simp at hm'
  | some m =>
    simp at hm'; subst hm'
    obtain ⟨h1, h2⟩ := hu m rfl
    refine ⟨uniWF_uniRemove h1 _ _, ?_⟩
    intro c n'
    rw [mem_uniRemove h1, h2]
    constructor
    · exact fun h => h.1
    · intro h
      refine ⟨h, ?_⟩
      rintro ⟨e, _⟩
      subst e
      obtain ⟨r, hr, _⟩ := h
      rw [hf] at hr; simp at hr

theorem uniInv_add {f : String → Option GRec} {u : Option Cmap} (hu : UniInv f u) (n : String) (r : GRec)
    (hf : f n = none) : UniInv (upd f n (some r)) (u.map (fun m => uniAdd m n r.unicodes)) := by
  intro m' hm'
  cases u with
  | none => simp at hm'
  | some m =>
    simp at hm'; subst hm'
    obtain ⟨h1, h2⟩ := hu m rfl
    refine ⟨uniWF_uniAdd h1 _ _, ?_⟩
    intro c n'
    rw [mem_uniAdd, h2]
    unfold upd
    by_cases e : n' = n
    · subst e; simp [hf]
    · simp [e]

theorem uniInv_add_same {f : String → Option GRec} {u : Option Cmap} (hu : UniInv f u) (n : String) (r : GRec)
    (hf : f n = some r) : UniInv f (u.map (fun m => uniAdd m n r.unicodes)) := by
  intro m' hm'
  cases u with
  | none => simp at hm'
  | some m =>
    simp at hm'; subst hm'
    obtain ⟨h1, h2⟩ := hu m rfl
    refine ⟨uniWF_uniAdd h1 _ _, ?_⟩
    intro c n'
    rw [mem_uniAdd, h2]
    constructor
    · rintro (h | ⟨e, hc⟩)
      · exact h
      · subst e; exact ⟨r, hf, hc⟩
    · exact Or.inl

theorem uniAdd_nil (m : Cmap) (n : String) : uniAdd m n [] = m := rfl

theorem insertGlyph_uni (s : State) (n : String) (r : GRec) (d : Bool) :
    (insertGlyph s n r d).uni = s.uni.map (fun m => uniAdd m n r.unicodes) := by
  unfold insertGlyph
  cases s.uni with
  | none => rfl
  | some m =>
    simp only [Option.map_some]
    split
    · rename_i he
      have : r.unicodes = [] := by simpa using he
      rw [this, uniAdd_nil]
    · rfl

theorem upd_same (f : String → Option GRec) (n : String) (v : Option GRec) (h : f n = v) (k : String) :
    upd f n v k = f k := by
  unfold upd; by_cases e : k = n
  · subst e; simp [h]
  · simp [e]

theorem abs_insertGlyph_upd (s : State) (n : String) (r : GRec) (d : Bool) (k : String) :
    abs (insertGlyph s n r d) k = upd (abs s) n (some r) k := abs_insertGlyph s n r d k

/-! ### getItem -/

theorem recsOK_congr {s s' : State} (h : ∀ k, abs s' k = abs s k) (hr : RecsOK s) : RecsOK s' := by
  intro n r hn; rw [h] at hn; exact hr n r hn

theorem getItem_spec {s s' : State} {n : String} {r : GRec} (h : Good s) (hg : getItem s n = .ok (s', r)) :
    Good s' ∧ (∀ k, abs s' k = abs s k) ∧ abs s n = some r ∧ (∃ d, AL.get? s'.loaded n = some (r, d)) ∧
    s'.disk = s.disk ∧ (s.uni.isSome ↔ s'.uni.isSome) := by
  unfold getItem at hg
  cases hl : AL.get? s.loaded n with
  | some p =>
    obtain ⟨r0, d0⟩ := p
    simp only [hl, Except.ok.injEq, Prod.mk.injEq] at hg
    obtain ⟨rfl, rfl⟩ := hg
    exact ⟨h, fun _ => rfl, abs_of_loaded hl, ⟨d0, hl⟩, rfl, Iff.rfl⟩
  | none =>
    simp only [hl] at hg
    cases hld : load s n with
    | error e => simp [hld] at hg
    | ok s1 =>
      simp only [hld] at hg
      obtain ⟨r1, hdisk, hns, hs1, habs⟩ := load_ok h.wf hld hl
      have hget : AL.get? s1.loaded n = some (r1, false) := by
        rw [hs1]; simp [insertGlyph]
      simp only [hget, Except.ok.injEq, Prod.mk.injEq] at hg
      obtain ⟨rfl, rfl⟩ := hg
      have hsame : ∀ k, abs s1 k = abs s k := by
        intro k; rw [hs1, abs_insertGlyph_upd]; exact upd_same _ _ _ habs k
      refine ⟨⟨?_, ?_, recsOK_congr hsame h.recs⟩, hsame, habs, ⟨false, hget⟩, by rw [hs1]; rfl, ?_⟩
      · rw [hs1]; exact wf_insertGlyph h.wf n r1 false (fun _ => hdisk)
      · unfold UniOK
        apply uniInv_congr (fun k => (hsame k).symm)
        rw [hs1, insertGlyph_uni]
        exact uniInv_add_same h.uni n r1 habs
      · rw [hs1, insertGlyph_uni]; cases s.uni <;> simp

theorem getItem_error_iff {s : State} {n : String} (h : WF s) :
    (∃ e, getItem s n = .error e) ↔ abs s n = none := by
  unfold getItem
  cases hl : AL.get? s.loaded n with
  | some p => simp [abs_of_loaded hl]
  | none =>
    simp only
    rw [← load_error_iff hl]
    cases hld : load s n with
    | error e => simp
    | ok s1 =>
      obtain ⟨r1, _, _, hs1, _⟩ := load_ok h hld hl
      have hget : AL.get? s1.loaded n = some (r1, false) := by
        rw [hs1]; simp [insertGlyph]
      simp [hget]

/-! ### dropGlyph / forgetUni -/

theorem abs_forgetUni (s : State) (n : String) (us : List Nat) (k : String) : abs (forgetUni s n us) k = abs s k := rfl

theorem wf_forgetUni {s : State} (h : WF s) (n : String) (us : List Nat) : WF (forgetUni s n us) :=
  ⟨h.diskKeys, h.loadedKeys, h.keysNodup, h.schedNodup, h.schedDisk, h.schedNotLoaded, h.keysIff, h.cleanEq⟩

theorem abs_dropGlyph {s : State} (h : WF s) (n k : String) :
    abs (dropGlyph s n) k = upd (abs s) n none k := by
  unfold upd
  by_cases e : k = n
  · subst e
    simp only [if_true]
    unfold abs dropGlyph
    simp only [AL.get?_erase_self_of_nodup _ _ h.loadedKeys]
    unfold onDisk
    by_cases hd : AL.contains s.disk k = true
    · simp [hd, mem_addKey]
    · have : AL.get? s.disk k = none := (AL.contains_false_iff _ _).mp (by simpa using hd)
      simp [hd, this]
  · simp only [e, if_false]
    unfold abs dropGlyph
    have e' : n ≠ k := fun x => e x.symm
    rw [AL.get?_erase_ne _ _ _ e']
    cases AL.get? s.loaded k with
    | some p => rfl
    | none =>
      simp only
      by_cases hd : onDisk s n = true
      · simp [hd, mem_addKey, e]
      · simp [hd]

theorem wf_dropGlyph {s : State} (h : WF s) (n : String) : WF (dropGlyph s n) := by
  have habs := abs_dropGlyph h n
  constructor
  · exact h.diskKeys
  · exact AL.nodup_keys_erase _ _ h.loadedKeys
  · exact (List.filter_sublist).nodup h.keysNodup
  · unfold dropGlyph; simp only; split
    · exact nodup_addKey _ _ h.schedNodup
    · exact h.schedNodup
  · intro m hm
    unfold dropGlyph at hm ⊢
    simp only at hm ⊢
    split at hm
    · rename_i hd
      rcases (mem_addKey _ _ _).mp hm with h1 | h1
      · exact h.schedDisk m h1
      · subst h1; exact hd
    · exact h.schedDisk m hm
  · intro m hm
    unfold dropGlyph at hm ⊢
    simp only at hm ⊢
    rw [AL.get?_erase _ _ _ h.loadedKeys]
    split
    · rfl
    · split at hm
      · rcases (mem_addKey _ _ _).mp hm with h1 | h1
        · exact h.schedNotLoaded m h1
        · subst h1; rename_i hne _; exact absurd rfl hne
      · exact h.schedNotLoaded m hm
  · intro k
    rw [habs]
    unfold upd
    simp only [dropGlyph, List.mem_filter, ne_eq, decide_eq_true_eq]
    by_cases e : k = n
    · simp [e]
    · simp [e, h.keysIff k]
  · intro k r' hk
    unfold dropGlyph at hk ⊢
    simp only at hk ⊢
    rw [AL.get?_erase _ _ _ h.loadedKeys] at hk
    split at hk
    · simp at hk
    · exact h.cleanEq k r' hk

theorem recsOK_upd_none {f : String → Option GRec} (n : String)
    (hr : ∀ k r, f k = some r → r.unicodes.Nodup) : ∀ k r, upd f n none k = some r → r.unicodes.Nodup := by
  intro k r hk
  unfold upd at hk
  split at hk
  · simp at hk
  · exact hr k r hk

theorem recsOK_upd_some {f : String → Option GRec} (n : String) (r0 : GRec) (h0 : r0.unicodes.Nodup)
    (hr : ∀ k r, f k = some r → r.unicodes.Nodup) : ∀ k r, upd f n (some r0) k = some r → r.unicodes.Nodup := by
  intro k r hk
  unfold upd at hk
  split at hk
  · simp at hk; subst hk; exact h0
  · exact hr k r hk

/-! ### visibility -/

theorem abs_none_of_sched {s : State} (h : WF s) {n : String} (hn : n ∈ s.sched) : abs s n = none := by
  rw [abs_of_not_loaded (h.schedNotLoaded n hn)]; simp [hn]

theorem mem_visible_iff {s : State} (h : WF s) (n : String) : n ∈ visible s ↔ (abs s n).isSome := by
  unfold visible
  simp only [List.mem_filter, decide_eq_true_eq]
  rw [h.keysIff]
  constructor
  · exact fun x => x.1
  · intro x
    refine ⟨x, ?_⟩
    intro hs
    rw [abs_none_of_sched h hs] at x
    simp at x

/-! ### replacing the record of a loaded glyph -/

theorem abs_setLoaded (s : State) (n : String) (r' : GRec) (u : Option Cmap) (k : String) :
    abs (setLoaded s n r' u) k = if k = n then some r' else abs s k := by
  unfold abs setLoaded
  simp only [AL.get?_set]
  by_cases e : n = k
  · subst e; simp
  · have e' : ¬ k = n := fun x => e x.symm
    simp [e, e']

theorem wf_setLoaded {s : State} (h : WF s) (n : String) (r' : GRec) (u : Option Cmap) {p : GRec × Bool}
    (hl : AL.get? s.loaded n = some p) :
    WF (setLoaded s n r' u) := by
  have habs := abs_setLoaded s n r' u
  unfold setLoaded at habs ⊢
  constructor
  · exact h.diskKeys
  · exact AL.nodup_keys_set _ _ _ h.loadedKeys
  · exact h.keysNodup
  · exact h.schedNodup
  · exact h.schedDisk
  · intro m hm
    simp only
    have : n ≠ m := by
      intro e; subst e
      rw [h.schedNotLoaded _ hm] at hl; simp at hl
    rw [AL.get?_set_ne _ _ _ _ this]
    exact h.schedNotLoaded m hm
  · intro k
    rw [habs]
    by_cases e : k = n
    · subst e
      simp only [if_true, Option.isSome_some, iff_true]
      exact (h.keysIff k).mpr (by rw [abs_of_loaded hl]; rfl)
    · simp only [e, if_false]; exact h.keysIff k
  · intro k r'' hk
    simp only [AL.get?_set] at hk
    by_cases e : n = k
    · subst e; simp at hk
    · simp only [e, if_false] at hk
      exact h.cleanEq k r'' hk

theorem uniInv_upd_same_unicodes {f : String → Option GRec} {u : Option Cmap} (hu : UniInv f u) (n : String)
    (r r' : GRec) (hf : f n = some r) (hus : r'.unicodes = r.unicodes) : UniInv (upd f n (some r')) u := by
  intro m hm
  obtain ⟨h1, h2⟩ := hu m hm
  refine ⟨h1, ?_⟩
  intro c n'
  rw [h2]
  unfold upd
  by_cases e : n' = n
  · subst e; simp [hf, hus]
  · simp [e]

theorem upd_upd_same (f : String → Option GRec) (n : String) (v w : Option GRec) (k : String) :
    upd (upd f n v) n w k = upd f n w k := by
  unfold upd; by_cases e : k = n <;> simp [e]

theorem uniInv_replace {f : String → Option GRec} {u : Option Cmap} (hu : UniInv f u) (n : String)
    (r r' : GRec) (hf : f n = some r) :
    UniInv (upd f n (some r')) (u.map (fun m => uniAdd (uniRemove m n r.unicodes) n r'.unicodes)) := by
  have h1 := uniInv_remove hu n r hf
  have h2 := uniInv_add h1 n r' (by simp [upd])
  have h3 := uniInv_congr (upd_upd_same f n none (some r')) h2
  simpa [Option.map_map, Function.comp_def] using h3

theorem uniInv_insert_after_forget {f : String → Option GRec} {u : Option Cmap}
    (hu : UniInv (upd f n none) u) (r : GRec) :
    UniInv (upd f n (some r)) (u.map (fun m => uniAdd m n r.unicodes)) := by
  have h2 := uniInv_add hu n r (by simp [upd])
  exact uniInv_congr (upd_upd_same f n none (some r)) h2

/-! ### the operations -/

theorem delete_spec {s s' : State} {n : String} (h : Good s) (hd : deleteGlyph s n = .ok s')
    (hv : (abs s n).isSome) : Good s' ∧ ∀ k, abs s' k = upd (abs s) n none k := by
  unfold deleteGlyph at hd
  cases hu : s.uni with
  | none =>
    simp only [hu, Except.ok.injEq] at hd
    subst hd
    have habs := abs_dropGlyph h.wf n
    refine ⟨⟨wf_dropGlyph h.wf n, ?_, ?_⟩, habs⟩
    · unfold UniOK
      have : (dropGlyph s n).uni = none := hu
      rw [this]; exact uniInv_none _
    · intro k r hk; rw [habs] at hk; exact recsOK_upd_none n h.recs k r hk
  | some m =>
    simp only [hu] at hd
    cases hg : getItem s n with
    | error e => simp [hg] at hd
    | ok p =>
      obtain ⟨s1, r⟩ := p
      simp only [hg, Except.ok.injEq] at hd
      subst hd
      obtain ⟨hg1, hsame, hr, _, _, _⟩ := getItem_spec h hg
      have hwf := wf_forgetUni hg1.wf n r.unicodes
      have habs : ∀ k, abs (dropGlyph (forgetUni s1 n r.unicodes) n) k = upd (abs s) n none k := by
        intro k
        rw [abs_dropGlyph hwf]
        unfold upd
        split
        · rfl
        · rw [abs_forgetUni, hsame]
      refine ⟨⟨wf_dropGlyph hwf n, ?_, ?_⟩, habs⟩
      · unfold UniOK
        apply uniInv_congr (fun k => (habs k).symm)
        have : (dropGlyph (forgetUni s1 n r.unicodes) n).uni = s1.uni.map (fun m => uniRemove m n r.unicodes) := rfl
        rw [this]
        have hu1 : UniInv (abs s) s1.uni := uniInv_congr hsame hg1.uni
        exact uniInv_remove hu1 n r hr
      · intro k r' hk; rw [habs] at hk; exact recsOK_upd_none n h.recs k r' hk

theorem new_spec {s s' : State} {n : String} (h : Good s) (hd : newGlyph s n = .ok s') :
    Good s' ∧ ∀ k, abs s' k = upd (abs s) n (some {}) k := by
  unfold newGlyph at hd
  have hnodup : ({} : GRec).unicodes.Nodup := by simp
  by_cases hc : n ∈ visible s ∧ s.uni.isSome
  · rw [if_pos hc] at hd
    cases hg : getItem s n with
    | error e => simp [hg] at hd
    | ok p =>
      obtain ⟨s1, r⟩ := p
      simp only [hg, Except.ok.injEq] at hd
      subst hd
      obtain ⟨hg1, hsame, hr, _, _, _⟩ := getItem_spec h hg
      have habs : ∀ k, abs (insertGlyph (forgetUni s1 n r.unicodes) n {} true) k = upd (abs s) n (some {}) k := by
        intro k
        rw [abs_insertGlyph_upd]
        unfold upd
        split
        · rfl
        · rw [abs_forgetUni, hsame]
      refine ⟨⟨wf_insertGlyph (wf_forgetUni hg1.wf n r.unicodes) n {} true (by simp), ?_, ?_⟩, habs⟩
      · unfold UniOK
        apply uniInv_congr (fun k => (habs k).symm)
        rw [insertGlyph_uni]
        have hu1 : UniInv (abs s) s1.uni := uniInv_congr hsame hg1.uni
        exact uniInv_insert_after_forget (uniInv_remove hu1 n r hr) {}
      · intro k r' hk; rw [habs] at hk; exact recsOK_upd_some n {} hnodup h.recs k r' hk
  · rw [if_neg hc] at hd
    simp only [Except.ok.injEq] at hd
    subst hd
    have habs := abs_insertGlyph_upd s n {} true
    refine ⟨⟨wf_insertGlyph h.wf n {} true (by simp), ?_, ?_⟩, habs⟩
    · unfold UniOK
      apply uniInv_congr (fun k => (habs k).symm)
      rw [insertGlyph_uni]
      cases hu : s.uni with
      | none => exact uniInv_none _
      | some m =>
        have hnv : abs s n = none := by
          have : ¬ n ∈ visible s := fun hv => hc ⟨hv, by simp [hu]⟩
          rw [mem_visible_iff h.wf] at this
          cases hh : abs s n with
          | none => rfl
          | some x => simp [hh] at this
        have := uniInv_add h.uni n {} hnv
        rw [hu] at this
        exact this
    · intro k r' hk; rw [habs] at hk; exact recsOK_upd_some n {} hnodup h.recs k r' hk

theorem setUnicodes_spec {s s' : State} {n : String} {us : List Nat} (h : Good s) (hus : us.Nodup)
    (hd : setUnicodes s n us = .ok s') :
    Good s' ∧ ∃ r, abs s n = some r ∧ ∀ k, abs s' k = upd (abs s) n (some (withUnicodes r us)) k := by
  unfold setUnicodes at hd
  cases hg : getItem s n with
  | error e => simp [hg] at hd
  | ok p =>
    obtain ⟨s1, r⟩ := p
    simp only [hg] at hd
    obtain ⟨hg1, hsame, hr, ⟨d, hl⟩, _, _⟩ := getItem_spec h hg
    by_cases he : r.unicodes = us
    · rw [if_pos he] at hd
      simp only [Except.ok.injEq] at hd
      subst hd
      refine ⟨hg1, r, hr, ?_⟩
      intro k
      rw [hsame]
      have : withUnicodes r us = r := by subst he; rfl
      rw [this]
      exact (upd_same _ _ _ hr k).symm
    · rw [if_neg he] at hd
      simp only [Except.ok.injEq] at hd
      subst hd
      have habs : ∀ k, abs (setLoaded s1 n (withUnicodes r us)
            (s1.uni.map (fun m => uniAdd (uniRemove m n r.unicodes) n us))) k =
          upd (abs s) n (some (withUnicodes r us)) k := by
        intro k
        rw [abs_setLoaded]
        unfold upd
        split
        · rfl
        · exact hsame k
      refine ⟨⟨wf_setLoaded hg1.wf n _ _ hl, ?_, ?_⟩, r, hr, habs⟩
      · unfold UniOK
        apply uniInv_congr (fun k => (habs k).symm)
        have hu1 : UniInv (abs s) s1.uni := uniInv_congr hsame hg1.uni
        exact uniInv_replace hu1 n r (withUnicodes r us) hr
      · intro k r' hk; rw [habs] at hk
        exact recsOK_upd_some n _ hus h.recs k r' hk

theorem edit_spec {s s' : State} {n : String} {c : List String} {i : Option String} {ol ofast : Bool}
    (h : Good s) (hd : editRest s n c i ol ofast = .ok s') :
    Good s' ∧ ∃ r, abs s n = some r ∧
      ∀ k, abs s' k = upd (abs s) n (some (withRest r c i ol ofast)) k := by
  unfold editRest at hd
  cases hg : getItem s n with
  | error e => simp [hg] at hd
  | ok p =>
    obtain ⟨s1, r⟩ := p
    simp only [hg, Except.ok.injEq] at hd
    subst hd
    obtain ⟨hg1, hsame, hr, ⟨d, hl⟩, _, _⟩ := getItem_spec h hg
    have habs : ∀ k, abs (setLoaded s1 n (withRest r c i ol ofast) s1.uni) k =
        upd (abs s) n (some (withRest r c i ol ofast)) k := by
      intro k
      rw [abs_setLoaded]
      unfold upd
      split
      · rfl
      · exact hsame k
    refine ⟨⟨wf_setLoaded hg1.wf n _ s1.uni hl, ?_, ?_⟩, r, hr, habs⟩
    · unfold UniOK
      apply uniInv_congr (fun k => (habs k).symm)
      have hu1 : UniInv (abs s) s1.uni := uniInv_congr hsame hg1.uni
      exact uniInv_upd_same_unicodes hu1 n r _ hr rfl
    · intro k r' hk; rw [habs] at hk
      exact recsOK_upd_some n (withRest r c i ol ofast) (h.recs n r hr) h.recs k r' hk

theorem touch_spec {s s' : State} {n : String} (h : Good s) (hd : touch s n = .ok s') :
    Good s' ∧ (abs s n).isSome ∧ ∀ k, abs s' k = abs s k := by
  unfold touch at hd
  cases hg : getItem s n with
  | error e => simp [hg] at hd
  | ok p =>
    obtain ⟨s1, r⟩ := p
    simp only [hg, Except.ok.injEq] at hd
    subst hd
    obtain ⟨hg1, hsame, hr, ⟨d, hl⟩, _, _⟩ := getItem_spec h hg
    have habs : ∀ k, abs (setLoaded s1 n r s1.uni) k = abs s k := by
      intro k
      rw [abs_setLoaded]
      split
      · rename_i e; subst e; exact hr.symm
      · exact hsame k
    refine ⟨⟨wf_setLoaded hg1.wf n _ s1.uni hl, ?_, recsOK_congr habs h.recs⟩, by rw [hr]; rfl, habs⟩
    unfold UniOK
    apply uniInv_congr (fun k => (habs k).symm)
    exact uniInv_congr hsame hg1.uni

theorem rename_spec {s s' : State} {o n : String} (h : Good s) (hdom : o = n ∨ abs s n = none)
    (hd : rename s o n = .ok s') :
    Good s' ∧ ∃ r, abs s o = some r ∧
      ∀ k, abs s' k = (if o = n then abs s k else upd (upd (abs s) o none) n (some r) k) := by
  unfold rename at hd
  cases hg : getItem s o with
  | error e => simp [hg] at hd
  | ok p =>
    obtain ⟨s1, r⟩ := p
    simp only [hg] at hd
    obtain ⟨hg1, hsame, hr, _, _, _⟩ := getItem_spec h hg
    by_cases he : o = n
    · rw [if_pos he] at hd
      simp only [Except.ok.injEq] at hd
      subst hd
      exact ⟨hg1, r, hr, fun k => by simp [he, hsame]⟩
    · rw [if_neg he] at hd
      have hnone : abs s n = none := by
        rcases hdom with x | x
        · exact absurd x he
        · exact x
      cases hdel : deleteGlyph s1 o with
      | error e => simp [hdel] at hd
      | ok s2 =>
        simp only [hdel, Except.ok.injEq] at hd
        subst hd
        have hv : (abs s1 o).isSome := by rw [hsame, hr]; rfl
        obtain ⟨hg2, habs2⟩ := delete_spec hg1 hdel hv
        have ho2 : abs s2 o = none := by rw [habs2]; simp [upd]
        have hn2 : abs s2 n = none := by
          rw [habs2]; unfold upd
          have : ¬ n = o := fun x => he x.symm
          simp [this, hsame, hnone]
        have habs : ∀ k, abs (insertGlyph (forgetUni s2 o r.unicodes) n r true) k =
            upd (upd (abs s) o none) n (some r) k := by
          intro k
          rw [abs_insertGlyph_upd]
          unfold upd
          by_cases e1 : k = n
          · simp [e1]
          · simp only [e1, if_false]
            rw [abs_forgetUni, habs2]
            unfold upd
            split
            · rfl
            · exact hsame k
        refine ⟨⟨wf_insertGlyph (wf_forgetUni hg2.wf o r.unicodes) n r true (by simp), ?_, ?_⟩, r, hr, ?_⟩
        · unfold UniOK
          apply uniInv_congr (fun k => (habs k).symm)
          rw [insertGlyph_uni]
          have hu2 : UniInv (abs s2) (forgetUni s2 o r.unicodes).uni :=
            uniInv_remove_absent hg2.uni o r.unicodes ho2
          have hu3 := uniInv_add hu2 n r hn2
          apply uniInv_congr _ hu3
          intro k
          unfold upd
          by_cases e1 : k = n
          · simp [e1]
          · simp only [e1, if_false]
            rw [habs2]
            unfold upd
            split
            · rfl
            · exact hsame k
        · intro k r' hk; rw [habs] at hk
          exact recsOK_upd_some n r (h.recs o r hr) (recsOK_upd_none o h.recs) k r' hk
        · intro k; simp only [he, if_false]; exact habs k

theorem grec_eta (r : GRec) :
    withRest (withUnicodes {} r.unicodes) r.comps r.image r.outlineLoaded r.outlineFast = r := by
  cases r; rfl

theorem insert_spec {s s' : State} {n : String} {r : GRec} (h : Good s) (hus : r.unicodes.Nodup)
    (hd : insert s n r = .ok s') : Good s' ∧ ∀ k, abs s' k = upd (abs s) n (some r) k := by
  unfold insert at hd
  cases h1 : newGlyph s n with
  | error e => simp [h1] at hd
  | ok s1 =>
    simp only [h1] at hd
    obtain ⟨hg1, ha1⟩ := new_spec h h1
    cases h2 : setUnicodes s1 n r.unicodes with
    | error e => simp [h2] at hd
    | ok s2 =>
      simp only [h2] at hd
      obtain ⟨hg2, r2, hr2, ha2⟩ := setUnicodes_spec hg1 hus h2
      obtain ⟨hg3, r3, hr3, ha3⟩ := edit_spec hg2 hd
      refine ⟨hg3, ?_⟩
      have e2 : r2 = {} := by
        rw [ha1] at hr2; simp [upd] at hr2; exact hr2.symm
      have e3 : r3 = withUnicodes {} r.unicodes := by
        rw [ha2] at hr3; simp [upd] at hr3; rw [← hr3, e2]
      intro k
      rw [ha3, e3, grec_eta]
      unfold upd
      split
      · rfl
      · rw [ha2]; unfold upd; rename_i hk; simp only [hk, if_false]; rw [ha1]; unfold upd; simp [hk]

/-! ### save -/

theorem get?_foldl_write (l : List (String × (GRec × Bool))) (d0 : List (String × GRec)) (k : String)
    (hn : (AL.keys l).Nodup) :
    AL.get? (l.foldl (fun d (p : String × (GRec × Bool)) => if p.2.2 then AL.set d p.1 p.2.1 else d) d0) k =
      match AL.get? l k with
      | some (r, true) => some r
      | _ => AL.get? d0 k := by
  induction l generalizing d0 with
  | nil => rfl
  | cons p rest ih =>
    obtain ⟨k', r, d⟩ := p
    simp only [AL.keys, List.map_cons, List.nodup_cons] at hn
    simp only [List.foldl_cons]
    rw [ih _ (by simpa [AL.keys] using hn.2)]
    by_cases e : k' = k
    · subst e
      have : AL.get? rest k' = none := AL.get?_eq_none_of_not_mem (by simpa [AL.keys] using hn.1)
      simp only [this, AL.get?_cons, if_true]
      cases d <;> simp
    · simp only [AL.get?_cons, e, if_false]
      have : AL.get? (if d = true then AL.set d0 k' r else d0) k = AL.get? d0 k := by
        cases d
        · simp
        · simp [AL.get?_set_ne _ _ _ _ e]
      cases hg : AL.get? rest k with
      | none => simpa using this
      | some q =>
        obtain ⟨r2, d2⟩ := q
        cases d2
        · simpa using this
        · rfl

theorem nodup_keys_foldl_write (l : List (String × (GRec × Bool))) (d0 : List (String × GRec))
    (h : (AL.keys d0).Nodup) :
    (AL.keys (l.foldl (fun d (p : String × (GRec × Bool)) => if p.2.2 then AL.set d p.1 p.2.1 else d) d0)).Nodup := by
  induction l generalizing d0 with
  | nil => exact h
  | cons p rest ih =>
    simp only [List.foldl_cons]
    apply ih
    split
    · exact AL.nodup_keys_set _ _ _ h
    · exact h

/-- what the glyph set holds after an in-place save -/
theorem save_disk {s : State} (h : WF s) (k : String) :
    AL.get? (save s).disk k = abs s k := by
  unfold save
  simp only
  rw [AL.get?_foldl_erase _ _ _ (nodup_keys_foldl_write _ _ h.diskKeys), get?_foldl_write _ _ _ h.loadedKeys]
  cases hl : AL.get? s.loaded k with
  | some p =>
    obtain ⟨r, d⟩ := p
    have hns : k ∉ s.sched := by
      intro hs; rw [h.schedNotLoaded k hs] at hl; simp at hl
    rw [abs_of_loaded hl]
    simp only [hns, if_false]
    cases d
    · exact h.cleanEq k r hl
    · rfl
  | none =>
    rw [abs_of_not_loaded hl]

theorem abs_save {s : State} (h : WF s) (k : String) : abs (save s) k = abs s k := by
  have hd := save_disk h k
  unfold abs
  have hl : AL.get? (save s).loaded k = (AL.get? s.loaded k).map (fun v => (v.1, false)) := by
    unfold save; exact AL.get?_map_val (fun v : GRec × Bool => (v.1, false)) s.loaded k
  rw [hl]
  cases hg : AL.get? s.loaded k with
  | some p => simp
  | none =>
    simp only [Option.map_none]
    have : (save s).sched = [] := rfl
    rw [this, hd, abs_of_not_loaded hg]
    simp

theorem wf_save {s : State} (h : WF s) : WF (save s) := by
  have habs := abs_save h
  have hdisk := save_disk h
  have hl : ∀ k, AL.get? (save s).loaded k = (AL.get? s.loaded k).map (fun v => (v.1, false)) := by
    intro k; unfold save; exact AL.get?_map_val (fun v : GRec × Bool => (v.1, false)) s.loaded k
  constructor
  · unfold save; simp only
    exact AL.nodup_keys_foldl_erase _ _ (nodup_keys_foldl_write _ _ h.diskKeys)
  · have : AL.keys (save s).loaded = AL.keys s.loaded := by
      unfold save; exact AL.keys_map_val (fun v : GRec × Bool => (v.1, false)) s.loaded
    rw [this]; exact h.loadedKeys
  · exact h.keysNodup
  · unfold save; simp
  · intro m hm; simp [save] at hm
  · intro m hm; simp [save] at hm
  · intro k; rw [habs]; exact h.keysIff k
  · intro k r hk
    rw [hl] at hk
    rw [hdisk]
    cases hg : AL.get? s.loaded k with
    | none => simp [hg] at hk
    | some p =>
      simp [hg] at hk
      rw [abs_of_loaded hg, hk]

/-! ### first access to the unicode map -/

theorem mem_foldl_uniAdd {α : Type} (l : List (String × α)) (skip : String → Prop) [DecidablePred skip]
    (us : α → List Nat) (m0 : Cmap) (n' : String) (c : Nat) :
    n' ∈ namesAt (l.foldl (fun m p => if skip p.1 then m else uniAdd m p.1 (us p.2)) m0) c ↔
      n' ∈ namesAt m0 c ∨ ∃ p ∈ l, p.1 = n' ∧ ¬ skip p.1 ∧ c ∈ us p.2 := by
  induction l generalizing m0 with
  | nil => simp
  | cons p rest ih =>
    simp only [List.foldl_cons]
    rw [ih]
    by_cases hs : skip p.1
    · simp only [hs, if_true, List.mem_cons, exists_eq_or_imp, not_true_eq_false, false_and, and_false, false_or]
    · simp only [hs, if_false, mem_uniAdd, List.mem_cons, exists_eq_or_imp, not_false_eq_true, true_and]
      constructor
      · rintro ((h | ⟨h1, h2⟩) | h)
        · exact Or.inl h
        · exact Or.inr (Or.inl ⟨h1.symm, h2⟩)
        · exact Or.inr (Or.inr h)
      · rintro (h | ⟨h1, h2⟩ | h)
        · exact Or.inl (Or.inl h)
        · exact Or.inl (Or.inr ⟨h1.symm, h2⟩)
        · exact Or.inr h

theorem uniWF_foldl_uniAdd {α : Type} (l : List (String × α)) (skip : String → Prop) [DecidablePred skip]
    (us : α → List Nat) (m0 : Cmap) (h : UniWF m0) :
    UniWF (l.foldl (fun m p => if skip p.1 then m else uniAdd m p.1 (us p.2)) m0) := by
  induction l generalizing m0 with
  | nil => exact h
  | cons p rest ih =>
    simp only [List.foldl_cons]
    apply ih
    split
    · exact h
    · exact uniWF_uniAdd h _ _

theorem namesAt_nil (c : Nat) : namesAt [] c = [] := rfl

theorem buildUni_spec {s : State} (h : WF s) : UniInv (abs s) (some (buildUni s)) := by
  intro m hm
  simp only [Option.some.injEq] at hm
  subst hm
  unfold buildUni
  have hw1 := uniWF_foldl_uniAdd s.loaded (fun x => x ∈ s.sched) (fun r : GRec × Bool => r.1.unicodes) [] uniWF_nil
  have hw2 := uniWF_foldl_uniAdd s.disk (fun x => isLoaded s x ∨ x ∈ s.sched) (fun r : GRec => r.unicodes) _ hw1
  refine ⟨hw2, ?_⟩
  intro c n
  simp only
  rw [mem_foldl_uniAdd s.disk (fun x => isLoaded s x ∨ x ∈ s.sched) (fun r => r.unicodes),
      mem_foldl_uniAdd s.loaded (fun x => x ∈ s.sched) (fun r => r.1.unicodes), namesAt_nil]
  simp only [List.not_mem_nil, false_or]
  constructor
  · rintro (⟨p, hp, hn, hs, hc⟩ | ⟨p, hp, hn, hs, hc⟩)
    · obtain ⟨k, v⟩ := p
      simp only at hn hs hc
      subst hn
      have := AL.get?_of_mem_nodup h.loadedKeys hp
      exact ⟨v.1, abs_of_loaded this, hc⟩
    · obtain ⟨k, v⟩ := p
      simp only at hn hs hc
      subst hn
      simp only [not_or] at hs
      have hnl : AL.get? s.loaded k = none := (AL.contains_false_iff _ _).mp (by simpa [isLoaded] using hs.1)
      have := AL.get?_of_mem_nodup h.diskKeys hp
      refine ⟨v, ?_, hc⟩
      rw [abs_of_not_loaded hnl]; simp [hs.2, this]
  · rintro ⟨r, hr, hc⟩
    cases hl : AL.get? s.loaded n with
    | some p =>
      left
      rw [abs_of_loaded hl] at hr
      simp only [Option.some.injEq] at hr
      refine ⟨(n, p), AL.mem_of_get? hl, rfl, ?_, by simpa [hr] using hc⟩
      intro hs; rw [h.schedNotLoaded n hs] at hl; simp at hl
    | none =>
      right
      rw [abs_of_not_loaded hl] at hr
      by_cases hs : n ∈ s.sched
      · simp [hs] at hr
      · simp only [hs, if_false] at hr
        refine ⟨(n, r), AL.mem_of_get? hr, rfl, ?_, hc⟩
        simp only [not_or]
        refine ⟨?_, hs⟩
        simp [isLoaded, AL.contains, hl]

theorem touchUni_spec {s : State} (h : Good s) : Good (touchUni s) ∧ ∀ k, abs (touchUni s) k = abs s k := by
  unfold touchUni
  cases hu : s.uni with
  | some m => exact ⟨h, fun _ => rfl⟩
  | none =>
    refine ⟨⟨?_, ?_, ?_⟩, fun _ => rfl⟩
    · exact ⟨h.wf.diskKeys, h.wf.loadedKeys, h.wf.keysNodup, h.wf.schedNodup, h.wf.schedDisk,
        h.wf.schedNotLoaded, h.wf.keysIff, h.wf.cleanEq⟩
    · show UniInv (abs s) (some (buildUni s))
      exact buildUni_spec h.wf
    · exact h.recs

/-! ### queries as functions of the abstract content -/

/-- the visible records, as the two scans of the data skimmers enumerate them -/
def visRecs (s : State) : List (String × GRec) :=
  (s.loaded.filter (fun p => p.1 ∉ s.sched)).map (fun p => (p.1, p.2.1)) ++
  s.disk.filter (fun p => ¬ isLoaded s p.1 ∧ p.1 ∉ s.sched)

theorem mem_visRecs_iff {s : State} (h : WF s) (n : String) (r : GRec) :
    (n, r) ∈ visRecs s ↔ abs s n = some r := by
  unfold visRecs
  simp only [List.mem_append, List.mem_map, List.mem_filter, decide_eq_true_eq, Prod.mk.injEq]
  constructor
  · rintro (⟨p, ⟨hp, hs⟩, hn, hr⟩ | ⟨hp, hnl, hs⟩)
    · obtain ⟨k, v⟩ := p
      simp only at hn hr hs
      subst hn; subst hr
      exact abs_of_loaded (AL.get?_of_mem_nodup h.loadedKeys hp)
    · have hnl' : AL.get? s.loaded n = none := (AL.contains_false_iff _ _).mp (by simpa [isLoaded] using hnl)
      rw [abs_of_not_loaded hnl']
      simp [hs, AL.get?_of_mem_nodup h.diskKeys hp]
  · intro hr
    cases hl : AL.get? s.loaded n with
    | some p =>
      left
      rw [abs_of_loaded hl] at hr
      simp only [Option.some.injEq] at hr
      refine ⟨(n, p), ⟨AL.mem_of_get? hl, ?_⟩, rfl, hr⟩
      intro hs; rw [h.schedNotLoaded n hs] at hl; simp at hl
    | none =>
      right
      rw [abs_of_not_loaded hl] at hr
      by_cases hs : n ∈ s.sched
      · simp [hs] at hr
      · simp only [hs, if_false] at hr
        exact ⟨AL.mem_of_get? hr, by simp [isLoaded, AL.contains, hl], hs⟩

theorem componentReferences_eq (s : State) :
    componentReferences s = (visRecs s).flatMap (fun p => p.2.comps.map (fun b => (b, p.1))) := by
  unfold componentReferences visRecs
  simp [List.flatMap_append, List.flatMap_map]

theorem imageReferences_eq (s : State) :
    imageReferences s = (visRecs s).filterMap (fun p => p.2.image.map (fun f => (f, p.1))) := by
  unfold imageReferences visRecs
  simp [List.filterMap_append, List.filterMap_map, Function.comp_def]

/-! ### operations never fail on visible glyphs; refinement of one step -/

theorem getItem_ok {s : State} {n : String} (h : WF s) (hv : (abs s n).isSome) :
    ∃ p, getItem s n = .ok p := by
  cases hg : getItem s n with
  | ok p => exact ⟨p, rfl⟩
  | error e =>
    have := (getItem_error_iff h).mp ⟨e, hg⟩
    rw [this] at hv; simp at hv

theorem deleteGlyph_ok {s : State} {n : String} (h : WF s) (hv : (abs s n).isSome) :
    ∃ s', deleteGlyph s n = .ok s' := by
  unfold deleteGlyph
  cases s.uni with
  | none => exact ⟨_, rfl⟩
  | some m =>
    obtain ⟨p, hp⟩ := getItem_ok h hv
    simp only [hp]
    exact ⟨_, rfl⟩

theorem newGlyph_ok {s : State} {n : String} (h : WF s) : ∃ s', newGlyph s n = .ok s' := by
  unfold newGlyph
  split
  · rename_i hc
    obtain ⟨p, hp⟩ := getItem_ok h ((mem_visible_iff h n).mp hc.1)
    simp only [hp]
    exact ⟨_, rfl⟩
  · exact ⟨_, rfl⟩

theorem ptwise_eq_of_upd {f g : String → Option GRec} (h : ∀ k, f k = g k) (n : String) (v : Option GRec) (k : String) :
    upd f n v k = upd g n v k := by
  unfold upd; split
  · rfl
  · exact h k

theorem step_refines {s : State} (op : Op) (h : Good s) (hop : OpOK (abs s) op) :
    Good (stepTotal s op) ∧ ∀ k, abs (stepTotal s op) k = specTotal (abs s) op k := by
  unfold stepTotal specTotal
  cases op with
  | get n =>
    simp only [step, specStep]
    cases hg : getItem s n with
    | error e =>
      have := (getItem_error_iff h.wf).mp ⟨e, hg⟩
      simp [Except.map, this, h]
    | ok p =>
      obtain ⟨s1, r⟩ := p
      obtain ⟨hg1, hsame, hr, _⟩ := getItem_spec h hg
      simp [Except.map, hr, hg1, hsame]
  | new n =>
    simp only [step, specStep]
    obtain ⟨s', hs'⟩ := newGlyph_ok (n := n) h.wf
    obtain ⟨hg1, ha⟩ := new_spec h hs'
    simp [hs', hg1, ha]
  | insert n r =>
    simp only [step, specStep]
    simp only [OpOK] at hop
    cases hi : insert s n r with
    | ok s' =>
      obtain ⟨hg1, ha⟩ := insert_spec h hop hi
      simp [hg1, ha]
    | error e =>
      exfalso
      unfold insert at hi
      obtain ⟨s1, hs1⟩ := newGlyph_ok (n := n) h.wf
      obtain ⟨hg1, ha1⟩ := new_spec h hs1
      simp only [hs1] at hi
      have hv1 : (abs s1 n).isSome := by rw [ha1]; simp [upd]
      obtain ⟨p1, hp1⟩ := getItem_ok hg1.wf hv1
      cases h2 : setUnicodes s1 n r.unicodes with
      | error e2 =>
        unfold setUnicodes at h2
        simp only [hp1] at h2
        split at h2 <;> simp at h2
      | ok s2 =>
        simp only [h2] at hi
        obtain ⟨hg2, r2, hr2, ha2⟩ := setUnicodes_spec hg1 hop h2
        have hv2 : (abs s2 n).isSome := by rw [ha2]; simp [upd]
        obtain ⟨p2, hp2⟩ := getItem_ok hg2.wf hv2
        unfold editRest at hi
        simp [hp2] at hi
  | delete n =>
    simp only [step, specStep]
    unfold delete
    by_cases hv : n ∈ visible s
    · have hv' := (mem_visible_iff h.wf n).mp hv
      obtain ⟨s', hs'⟩ := deleteGlyph_ok h.wf hv'
      obtain ⟨hg1, ha⟩ := delete_spec h hs' hv'
      simp [hv, hs', hv', hg1, ha]
    · have hv' : ¬ (abs s n).isSome := fun x => hv ((mem_visible_iff h.wf n).mpr x)
      simp [hv, hv', h]
  | rename o n =>
    simp only [step, specStep]
    simp only [OpOK] at hop
    cases hr : rename s o n with
    | ok s' =>
      obtain ⟨hg1, r, hro, ha⟩ := rename_spec h hop hr
      simp only [hro]
      refine ⟨hg1, ?_⟩
      intro k
      rw [ha]
      by_cases e : o = n <;> simp [e]
    | error e =>
      unfold rename at hr
      cases hg : getItem s o with
      | error e2 =>
        have := (getItem_error_iff h.wf).mp ⟨e2, hg⟩
        simp [this, h]
      | ok p =>
        exfalso
        obtain ⟨s1, r⟩ := p
        simp only [hg] at hr
        obtain ⟨hg1, hsame, hro, _⟩ := getItem_spec h hg
        split at hr
        · simp at hr
        · have hv : (abs s1 o).isSome := by rw [hsame, hro]; rfl
          obtain ⟨s2, hs2⟩ := deleteGlyph_ok hg1.wf hv
          simp [hs2] at hr
  | setUnicodes n us =>
    simp only [step, specStep]
    simp only [OpOK] at hop
    cases hr : setUnicodes s n us with
    | ok s' =>
      obtain ⟨hg1, r, hrn, ha⟩ := setUnicodes_spec h hop hr
      simp [hrn, hg1, ha]
    | error e =>
      unfold setUnicodes at hr
      cases hg : getItem s n with
      | error e2 =>
        have := (getItem_error_iff h.wf).mp ⟨e2, hg⟩
        simp [this, h]
      | ok p =>
        exfalso
        simp only [hg] at hr
        split at hr <;> simp at hr
  | edit n c i ol ofast =>
    simp only [step, specStep]
    cases hr : editRest s n c i ol ofast with
    | ok s' =>
      obtain ⟨hg1, r, hrn, ha⟩ := edit_spec h hr
      simp [hrn, hg1, ha]
    | error e =>
      unfold editRest at hr
      cases hg : getItem s n with
      | error e2 =>
        have := (getItem_error_iff h.wf).mp ⟨e2, hg⟩
        simp [this, h]
      | ok p =>
        exfalso
        simp [hg] at hr
  | touch n =>
    simp only [step, specStep]
    cases hr : touch s n with
    | ok s' =>
      obtain ⟨hg1, hv, ha⟩ := touch_spec h hr
      simp [hv, hg1, ha]
    | error e =>
      unfold touch at hr
      cases hg : getItem s n with
      | error e2 =>
        have := (getItem_error_iff h.wf).mp ⟨e2, hg⟩
        simp [this, h]
      | ok p =>
        exfalso
        simp [hg] at hr
  | save =>
    simp only [step, specStep, Option.getD_some]
    refine ⟨⟨wf_save h.wf, ?_, recsOK_congr (abs_save h.wf) h.recs⟩, abs_save h.wf⟩
    unfold UniOK
    apply uniInv_congr (fun k => (abs_save h.wf k).symm)
    exact h.uni
  | touchUni =>
    simp only [step, specStep, Option.getD_some]
    exact touchUni_spec h

theorem specTotal_congr {f g : String → Option GRec} (h : ∀ k, f k = g k) (op : Op) (k : String) :
    specTotal f op k = specTotal g op k := by
  have : f = g := funext h
  rw [this]

theorem opOK_congr {f g : String → Option GRec} (h : ∀ k, f k = g k) (op : Op) : OpOK f op ↔ OpOK g op := by
  have : f = g := funext h
  rw [this]

theorem run_refines (s : State) (ops : List Op) (h : Good s) (hops : OpsOK (abs s) ops) :
    Good (run s ops) ∧ ∀ k, abs (run s ops) k = specRun (abs s) ops k := by
  induction ops generalizing s with
  | nil => exact ⟨h, fun _ => rfl⟩
  | cons op ops ih =>
    obtain ⟨hop, hrest⟩ := hops
    obtain ⟨hg1, ha1⟩ := step_refines op h hop
    have hfe : abs (stepTotal s op) = specTotal (abs s) op := funext ha1
    have := ih (stepTotal s op) hg1 (by rw [hfe]; exact hrest)
    unfold run specRun at this ⊢
    simp only [List.foldl_cons]
    rw [← hfe]
    exact this

end Layer
end DefconModel
