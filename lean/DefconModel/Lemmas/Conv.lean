/-
Helper lemmas about M-Conv (`DefconModel/Conv.lean`).
-/
import DefconModel.Spec.Conv

namespace DefconModel
namespace Conv

/-! ## 1. pair / unpair -/

section Pair
variable {α : Type}

theorem pairStep_full (acc : List (List α)) (h : ∀ x ∈ acc, x.length = 2) (a : α) :
    pairStep acc a = acc ++ [[a]] := by
  unfold pairStep
  cases hl : acc.getLast? with
  | none => simp [List.getLast?_eq_none_iff.mp hl]
  | some last =>
    have hm : last ∈ acc := List.mem_of_getLast? hl
    simp [h last hm]

theorem pairStep_half (acc : List (List α)) (a b : α) :
    pairStep (acc ++ [[a]]) b = acc ++ [[a, b]] := by
  unfold pairStep
  simp

/-- two values at a time: a full accumulator receives one more pair -/
theorem foldl_pairStep_two (acc : List (List α)) (h : ∀ x ∈ acc, x.length = 2) (a b : α) (rest : List α) :
    (a :: b :: rest).foldl pairStep acc = rest.foldl pairStep (acc ++ [[a, b]]) := by
  simp only [List.foldl_cons]
  rw [pairStep_full acc h a, pairStep_half]

theorem unpair_append_pair (acc : List (List α)) (a b : α) :
    unpair (acc ++ [[a, b]]) = (unpair acc).map (fun l => l ++ [a, b]) := by
  induction acc with
  | nil => simp [unpair]
  | cons x r ih =>
    match x with
    | [] => simp [unpair]
    | [_] => simp [unpair]
    | [i, j] =>
      simp only [List.cons_append, unpair, ih]
      cases unpair r <;> simp
    | _ :: _ :: _ :: _ => simp [unpair]

theorem unpair_foldl_even (n : Nat) : ∀ (vs : List α) (acc : List (List α)),
    vs.length = 2 * n → (∀ x ∈ acc, x.length = 2) →
    unpair (vs.foldl pairStep acc) = (unpair acc).map (fun l => l ++ vs) := by
  induction n with
  | zero =>
    intro vs acc hl _
    have : vs = [] := List.length_eq_zero_iff.mp (by omega)
    subst this
    cases h : unpair acc <;> simp [h]
  | succ n ih =>
    intro vs acc hl hacc
    match vs, hl with
    | a :: b :: rest, hl =>
      rw [foldl_pairStep_two acc hacc]
      rw [ih rest (acc ++ [[a, b]]) (by simp at hl; omega)
        (by intro x hx; simp at hx; rcases hx with hx | hx; exact hacc x hx; simp [hx])]
      rw [unpair_append_pair]
      cases unpair acc <;> simp

theorem unpair_foldl_odd (n : Nat) : ∀ (vs : List α) (acc : List (List α)),
    vs.length = 2 * n + 1 → (∀ x ∈ acc, x.length = 2) →
    unpair (vs.foldl pairStep acc) = none := by
  induction n with
  | zero =>
    intro vs acc hl hacc
    match vs, hl with
    | [a], _ =>
      simp only [List.foldl_cons, List.foldl_nil]
      rw [pairStep_full acc hacc]
      clear hacc
      induction acc with
      | nil => simp [unpair]
      | cons x r ih =>
        match x with
        | [] => simp [unpair]
        | [_] => simp [unpair]
        | [i, j] => simp [unpair, ih]
        | _ :: _ :: _ :: _ => simp [unpair]
  | succ n ih =>
    intro vs acc hl hacc
    match vs, hl with
    | a :: b :: rest, hl =>
      rw [foldl_pairStep_two acc hacc]
      exact ih rest (acc ++ [[a, b]]) (by simp at hl; omega)
        (by intro x hx; simp at hx; rcases hx with hx | hx; exact hacc x hx; simp [hx])

theorem unpair_pair_even (vs : List α) (h : vs.length % 2 = 0) : unpair (pair vs) = some vs := by
  have := unpair_foldl_even (vs.length / 2) vs [] (by omega) (by simp)
  simpa [pair, unpair] using this

theorem unpair_pair_odd (vs : List α) (h : vs.length % 2 = 1) : unpair (pair vs) = none := by
  have := unpair_foldl_odd (vs.length / 2) vs [] (by omega) (by simp)
  simpa [pair] using this

end Pair

/-! ## 2. hint data -/

theorem applyHintData_toHintData {ν : Type} (h h0 : Hint ν) (he : EvenBlues h) (h0s : ScalarsUnset h0) :
    applyHintData (toHintData h) h0 = some h := by
  obtain ⟨e1, e2, e3, e4⟩ := he
  obtain ⟨s1, s2, s3, s4⟩ := h0s
  simp [applyHintData, toHintData, applyBlues, unpair_pair_even, e1, e2, e3, e4, s1, s2, s3, s4]


/-! ## generic facts about building a dict by repeated assignment -/

section Fold
variable {κ : Type} {α : Type} [DecidableEq κ]

theorem set_of_not_mem (l : List (κ × α)) (k : κ) (v : α) (h : k ∉ AL.keys l) :
    AL.set l k v = l ++ [(k, v)] := by
  induction l with
  | nil => simp [AL.set]
  | cons p r ih =>
    obtain ⟨k', v'⟩ := p
    simp [AL.keys] at h
    have h1 : k' ≠ k := fun e => h.1 e.symm
    simp only [AL.set, h1, if_false, List.cons_append]
    rw [ih (by simpa [AL.keys] using h.2)]

theorem set_same (l : List (κ × α)) (k : κ) (v : α) (h : AL.get? l k = some v) : AL.set l k v = l := by
  induction l with
  | nil => simp at h
  | cons p r ih =>
    obtain ⟨k', v'⟩ := p
    by_cases h1 : k' = k
    · subst h1; simp at h; subst h; simp [AL.set]
    · simp [h1] at h; simp [AL.set, h1, ih h]

/-- assigning pairwise distinct fresh keys one after the other appends them in order -/
theorem foldl_set_fresh (l acc : List (κ × α)) (hn : (AL.keys l).Nodup)
    (hd : ∀ k ∈ AL.keys l, k ∉ AL.keys acc) :
    l.foldl (fun d p => AL.set d p.1 p.2) acc = acc ++ l := by
  induction l generalizing acc with
  | nil => simp
  | cons p r ih =>
    obtain ⟨k, v⟩ := p
    simp only [AL.keys, List.map_cons, List.nodup_cons] at hn
    simp only [List.foldl_cons]
    rw [set_of_not_mem acc k v (hd k (by simp [AL.keys]))]
    rw [ih (acc ++ [(k, v)]) (by simpa [AL.keys] using hn.2)]
    · simp
    · intro k' hk'
      simp only [AL.keys, List.map_append, List.map_cons, List.map_nil, List.mem_append, List.mem_singleton, not_or]
      refine ⟨by simpa [AL.keys] using hd k' (by simp [AL.keys] at hk' ⊢; exact Or.inr hk'), ?_⟩
      intro e; subst e
      exact hn.1 (by simpa [AL.keys] using hk')

theorem filterMap_eq_map_snd (f : κ → Option α) (l : List (κ × α)) (h : ∀ p ∈ l, f p.1 = some p.2) :
    l.filterMap (fun p => f p.1) = l.map Prod.snd := by
  induction l with
  | nil => rfl
  | cons p r ih =>
    simp only [List.filterMap_cons, h p (by simp), List.map_cons]
    rw [ih (fun q hq => h q (by simp [hq]))]

theorem filterMap_get?_keys (l : List (κ × α)) (hn : (AL.keys l).Nodup) :
    (AL.keys l).filterMap (fun k => AL.get? l k) = l.map Prod.snd := by
  have h1 : ∀ p ∈ l, AL.get? l p.1 = some p.2 := fun p hp => AL.get?_of_mem_nodup hn (by simpa using hp)
  simp only [AL.keys, List.filterMap_map]
  exact filterMap_eq_map_snd (fun k => AL.get? l k) l h1

end Fold

/-! ## 3. features: what UFO 1 stores, and what comes back -/

theorem toV1_features_distinct (feats : List (Text × Text)) (hd : DistinctTags feats) :
    feats.foldl (fun d f => AL.set d f.1 (stripNl f.2)) [] = feats.map (fun f => (f.1, stripNl f.2)) := by
  have := foldl_set_fresh (feats.map (fun f => (f.1, stripNl f.2))) []
    (by simpa [AL.keys, DistinctTags, List.map_map, Function.comp_def] using hd) (by simp [AL.keys])
  simpa [List.foldl_map] using this

theorem v1Pieces_toV1 (classes : Text) (feats : List (Text × Text)) (hd : DistinctTags feats) :
    v1Pieces (toV1 {} classes feats) = expectedPieces classes feats := by
  unfold v1Pieces toV1 expectedPieces
  by_cases hf : feats = []
  · subst hf; by_cases hc : classes = [] <;> simp [hc]
  · simp only [hf, ne_eq, not_false_eq_true, if_true]
    rw [toV1_features_distinct feats hd]
    have hk : AL.keys (feats.map (fun f => (f.1, stripNl f.2))) = feats.map Prod.fst := by
      simp [AL.keys, List.map_map, Function.comp_def]
    have hn : (AL.keys (feats.map (fun f => (f.1, stripNl f.2)))).Nodup := by rw [hk]; exact hd
    have := filterMap_get?_keys _ hn
    rw [hk] at this
    by_cases hc : classes = [] <;> simp [hc, this, List.map_map, Function.comp_def]


/-! ### the split loop loses no character -/

theorem slice_split (t : Text) (a b : Nat) (h : a ≤ b) : t.take a ++ (slice t a b ++ t.drop b) = t := by
  unfold slice
  have h1 : (t.take b).drop a = (t.drop a).take (b - a) := by
    rw [List.drop_take]
  have h2 : t.drop b = (t.drop a).drop (b - a) := by
    rw [List.drop_drop]; congr 1; omega
  rw [h1, h2, List.take_append_drop, List.take_append_drop]

theorem flat_append (a b : List (Text × Text)) : flat (a ++ b) = flat a ++ flat b := by
  simp [flat]

/-- loop invariant: nothing lost so far, and once something was collected the remaining text
starts with a header -/
theorem splitLoop_lossless (find : Finder) (hf : FinderOK find) (orig : Text) :
    ∀ (fuel : Nat) (text classes : Text) (feats : List (Text × Text)),
      text.length < fuel →
      classes ++ flat feats ++ text = orig →
      (text ≠ [] → (classes ≠ [] ∨ feats ≠ []) → ∃ h, find text = some h ∧ h.start = 0) →
      ∃ c fs, splitLoop find fuel text classes feats = .ok c fs ∧ c ++ flat fs = orig := by
  intro fuel
  induction fuel with
  | zero => intro text _ _ hl; omega
  | succ fuel ih =>
    intro text classes feats hl hsum hq
    unfold splitLoop
    by_cases ht : text = []
    · subst ht
      exact ⟨classes, feats, by simp, by simpa using hsum⟩
    · simp only [ht, if_false]
      cases hfind : find text with
      | none =>
        have hce : classes = [] ∧ feats = [] := by
          by_cases hc : classes = []
          · by_cases hfe : feats = []
            · exact ⟨hc, hfe⟩
            · obtain ⟨h, hh, _⟩ := hq ht (Or.inr hfe); rw [hfind] at hh; cases hh
          · obtain ⟨h, hh, _⟩ := hq ht (Or.inl hc); rw [hfind] at hh; cases hh
        obtain ⟨hc, hfe⟩ := hce
        subst hc; subst hfe
        simp only
        have hpos := List.length_pos_iff.mpr ht
        exact ih [] text [] (by simp; omega) (by simpa [flat] using hsum) (by simp)
      | some h =>
        obtain ⟨hspan1, hspan2⟩ := hf.span text h hfind
        simp only
        -- no assertion: a header further right means nothing was collected yet
        have hstart : 0 < h.start → classes = [] ∧ feats = [] := by
          intro hpos
          by_cases hc : classes = []
          · by_cases hfe : feats = []
            · exact ⟨hc, hfe⟩
            · obtain ⟨h', hh, h0⟩ := hq ht (Or.inr hfe)
              rw [hfind] at hh; cases hh; omega
          · obtain ⟨h', hh, h0⟩ := hq ht (Or.inl hc)
            rw [hfind] at hh; cases hh; omega
        have hna : ¬ (0 < h.start ∧ classes ≠ []) := fun ⟨a, b⟩ => b (hstart a).1
        simp only [hna, if_false]
        -- the pair (block text, remaining text)
        generalize hp : (if text.drop h.stop = [] then (slice text h.start h.stop, text.drop h.stop)
            else match find (text.drop h.stop) with
              | some h2 => (slice text h.start h.stop ++ (text.drop h.stop).take h2.start, (text.drop h.stop).drop h2.start)
              | none => (slice text h.start h.stop ++ text.drop h.stop, [])) = p
        have hp12 : p.1 ++ p.2 = slice text h.start h.stop ++ text.drop h.stop ∧
            p.2.length ≤ (text.drop h.stop).length ∧
            (p.2 ≠ [] → ∃ h', find p.2 = some h' ∧ h'.start = 0) := by
          subst hp
          by_cases hr : text.drop h.stop = []
          · simp [hr]
          · simp only [hr, if_false]
            cases hf2 : find (text.drop h.stop) with
            | none => simp
            | some h2 =>
              refine ⟨by simp only []; rw [List.append_assoc, List.take_append_drop], by simp only [List.length_drop]; omega, fun _ => ?_⟩
              exact ⟨_, hf.stable _ h2 hf2, rfl⟩
        obtain ⟨hcat, hlen, hnext⟩ := hp12
        apply ih p.2 _ _
        · simp at hlen; omega
        · rw [flat_append]
          have : flat [(h.tag, p.1)] = p.1 := by simp [flat]
          rw [this]
          by_cases hpos : 0 < h.start
          · obtain ⟨hc, hfe⟩ := hstart hpos
            subst hc; subst hfe
            simp only [hpos, if_true, flat, List.map_nil, List.flatten_nil, List.nil_append, List.append_nil] at hsum ⊢
            rw [List.append_assoc, hcat, slice_split text h.start h.stop (by omega)]
            exact hsum
          · have h0 : h.start = 0 := by omega
            simp only [hpos, if_false]
            rw [List.append_assoc, List.append_assoc, hcat]
            have := slice_split text h.start h.stop (by omega)
            rw [h0] at this ⊢
            simp at this
            rw [this, ← List.append_assoc]
            exact hsum
        · intro hne _
          exact hnext hne


/-! ### the executable header expression is a well-behaved finder -/

theorem length_dropWhile_le' (p : Char → Bool) (t : Text) : (t.dropWhile p).length ≤ t.length :=
  (List.dropWhile_sublist p).length_le

theorem matchHeaderAt_span (t : Text) (n : Nat) (tag : Text) (h : matchHeaderAt t = some (n, tag)) :
    0 < n ∧ n ≤ t.length := by
  unfold matchHeaderAt at h
  simp only at h
  split at h
  · split at h
    · cases h
    · split at h
      · split at h
        · rename_i r heq
          cases h
          have h5 := length_dropWhile_le' isWs (List.drop 4 (List.dropWhile isWs (List.drop 7 (List.dropWhile isWs t))))
          rw [heq] at h5
          have h3 := length_dropWhile_le' isWs (List.drop 7 (List.dropWhile isWs t))
          have h1 := length_dropWhile_le' isWs t
          simp only [List.length_drop, List.length_cons] at h5 h3
          omega
        · cases h
      · cases h
  · cases h

theorem searchFrom_some (t : Text) : ∀ (pos : Nat) (bol : Bool) (h : Header), searchFrom pos bol t = some h →
    ∃ i n, i < t.length ∧ h = ⟨pos + i, pos + i + n, h.tag⟩ ∧ matchHeaderAt (t.drop i) = some (n, h.tag) := by
  induction t with
  | nil => intro pos bol h hs; simp [searchFrom] at hs
  | cons c r ih =>
    intro pos bol h hs
    unfold searchFrom at hs
    split at hs
    · rename_i n tag heq
      cases hs
      refine ⟨0, n, by simp, by simp, ?_⟩
      cases bol
      · simp at heq
      · simpa using heq
    · obtain ⟨i, n, hi, hh, hm⟩ := ih _ _ _ hs
      refine ⟨i + 1, n, by simp; omega, ?_, by simpa using hm⟩
      rw [hh]; simp; omega

theorem featureHeader_ok : FinderOK featureHeader := by
  constructor
  · intro t h hs
    obtain ⟨i, n, hi, hh, hm⟩ := searchFrom_some t 0 true h hs
    obtain ⟨hn1, hn2⟩ := matchHeaderAt_span _ _ _ hm
    rw [hh]
    simp only [List.length_drop] at hn2
    simp only
    omega
  · intro t h hs
    obtain ⟨i, n, hi, hh, hm⟩ := searchFrom_some t 0 true h hs
    have hstart : h.start = i := by rw [hh]; simp
    have hstop : h.stop - h.start = n := by rw [hh]; simp
    rw [hstart] at hstop ⊢
    rw [hstop]
    unfold featureHeader
    cases hd : t.drop i with
    | nil =>
      have : (t.drop i).length = 0 := by rw [hd]; rfl
      simp only [List.length_drop] at this
      omega
    | cons c r =>
      rw [hd] at hm
      simp [searchFrom, hm]


/-! ## 4. rename maps: writing undoes reading -/

section
variable {κ : Type} {α : Type} {β : Type}

theorem foldl_congr_mem (f g : β → α → β) (l : List α) (a : β) (h : ∀ b, ∀ x ∈ l, f b x = g b x) :
    l.foldl f a = l.foldl g a := by
  induction l generalizing a with
  | nil => rfl
  | cons x r ih =>
    simp only [List.foldl_cons]
    rw [h a x (by simp)]
    exact ih _ (fun b y hy => h b y (by simp [hy]))

theorem foldl_const (l : List α) (a : β) : l.foldl (fun r _ => r) a = a := by
  induction l with
  | nil => rfl
  | cons x r ih => simpa using ih

theorem nodup_map_of_inj_on (f : α → β) (l : List α) (hn : l.Nodup)
    (hi : ∀ x ∈ l, ∀ y ∈ l, f x = f y → x = y) : (l.map f).Nodup := by
  induction l with
  | nil => simp
  | cons x r ih =>
    simp only [List.nodup_cons] at hn
    simp only [List.map_cons, List.nodup_cons, List.mem_map, not_exists, not_and]
    refine ⟨fun y hy e => ?_, ih hn.2 (fun a ha b hb => hi a (by simp [ha]) b (by simp [hb]))⟩
    have := hi y (by simp [hy]) x (by simp) e
    subst this
    exact hn.1 hy

theorem fst_eq_of_snd_nodup [DecidableEq κ] (l : List (κ × α)) (hn : (l.map Prod.snd).Nodup) (a c : κ) (x : α)
    (ha : (a, x) ∈ l) (hc : (c, x) ∈ l) : a = c := by
  induction l with
  | nil => simp at ha
  | cons p r ih =>
    simp only [List.map_cons, List.nodup_cons, List.mem_map, not_exists, not_and] at hn
    simp only [List.mem_cons] at ha hc
    rcases ha with ha | ha <;> rcases hc with hc | hc
    · rw [← ha] at hc; exact (Prod.mk.inj hc).1.symm
    · subst ha; exact absurd rfl (hn.1 (c, x) hc)
    · subst hc; exact absurd rfl (hn.1 (a, x) ha)
    · exact ih hn.2 ha hc
end

/-- a dict built by assigning pairwise distinct fresh keys = the list of those entries -/
theorem foldl_set_map {ι κ α : Type} [DecidableEq κ] (kf : ι → κ) (vf : ι → α) (l : List ι) (acc : List (κ × α))
    (hn : (l.map kf).Nodup) (hd : ∀ x ∈ l, kf x ∉ AL.keys acc) :
    l.foldl (fun r x => AL.set r (kf x) (vf x)) acc = acc ++ l.map (fun x => (kf x, vf x)) := by
  have := foldl_set_fresh (l.map (fun x => (kf x, vf x))) acc
    (by simpa [AL.keys, List.map_map, Function.comp_def] using hn)
    (by intro k hk; simp only [AL.keys, List.map_map, List.mem_map, Function.comp_def] at hk
        obtain ⟨x, hx, rfl⟩ := hk; exact hd x hx)
  simpa [List.foldl_map] using this

theorem flip_eq (m : Maps) (hn : (news m).Nodup) :
    flip m = (m.side1 ++ m.side2).map (fun p => (p.2, p.1)) := by
  unfold flip
  have := foldl_set_map (fun p : Name × Name => p.2) (fun p => p.1) (m.side1 ++ m.side2) [] hn (by simp [AL.keys])
  simpa using this

theorem keys_flip (m : Maps) (hn : (news m).Nodup) : AL.keys (flip m) = news m := by
  rw [flip_eq m hn]; simp [AL.keys, news, List.map_map, Function.comp_def]

theorem get?_flip_new (m : Maps) (hn : (news m).Nodup) (p : Name × Name) (hp : p ∈ m.side1 ++ m.side2) :
    AL.get? (flip m) p.2 = some p.1 := by
  apply AL.get?_of_mem_nodup (by rw [keys_flip m hn]; exact hn)
  rw [flip_eq m hn]
  exact List.mem_map.mpr ⟨p, hp, rfl⟩

theorem get?_flip_other (m : Maps) (hn : (news m).Nodup) (n : Name) (h : n ∉ news m) :
    AL.get? (flip m) n = none :=
  AL.get?_eq_none_of_not_mem (by rw [keys_flip m hn]; exact h)

theorem upGroups_eq (m : Maps) (g : Groups) (k : Kerning) (ok : MapsOK m g k) :
    upGroups m g = g ++ (m.side1 ++ m.side2).map (fun p => (p.2, (AL.get? g p.1).getD [])) := by
  unfold upGroups
  exact foldl_set_map (fun p : Name × Name => p.2) (fun p => (AL.get? g p.1).getD []) _ g ok.newsNodup
    (fun p hp => ok.newsFresh p.2 (List.mem_map.mpr ⟨p, hp, rfl⟩))

theorem get?_of_mem_keys {κ α : Type} [DecidableEq κ] (l : List (κ × α)) (k : κ) (h : k ∈ AL.keys l) :
    ∃ v, AL.get? l k = some v := by
  induction l with
  | nil => simp [AL.keys] at h
  | cons p r ih =>
    obtain ⟨k', v'⟩ := p
    by_cases h1 : k' = k
    · exact ⟨v', by simp [h1]⟩
    · simp only [AL.keys, List.map_cons, List.mem_cons] at h
      rcases h with h | h
      · exact absurd h.symm h1
      · obtain ⟨v, hv⟩ := ih (by simpa [AL.keys] using h)
        exact ⟨v, by simp [h1, hv]⟩

/-- GROUPS: writing with the maps undoes what reading with them did -/
theorem downGroups_upGroups (m : Maps) (g : Groups) (k : Kerning) (ok : MapsOK m g k) :
    downGroups (flip m) (upGroups m g) = g := by
  rw [upGroups_eq m g k ok]
  unfold downGroups
  simp only [List.foldl_append]
  have hold : ∀ p ∈ g, p.1 ∉ news m :=
    fun p hp hmem => ok.newsFresh p.1 hmem (List.mem_map.mpr ⟨p, hp, rfl⟩)
  -- first pass: the original groups are copied, the renamed copies skipped
  have h1 : g.foldl (downKeep (flip m)) [] = g := by
    rw [foldl_congr_mem _ (fun r p => AL.set r p.1 p.2) g []]
    · simpa using foldl_set_fresh g [] ok.gNodup (by simp [AL.keys])
    · intro b p hp
      simp [downKeep, AL.contains, get?_flip_other m ok.newsNodup p.1 (hold p hp)]
  have h2 : ∀ acc, ((m.side1 ++ m.side2).map (fun p => (p.2, (AL.get? g p.1).getD []))).foldl
      (downKeep (flip m)) acc = acc := by
    intro acc
    rw [foldl_congr_mem _ (fun r _ => r)]
    · exact foldl_const _ _
    · intro b p hp
      obtain ⟨q, hq, rfl⟩ := List.mem_map.mp hp
      simp [downKeep, AL.contains, get?_flip_new m ok.newsNodup q hq]
  rw [h1, h2]
  -- second pass: nothing for the originals; a renamed copy is written back under the old name,
  -- where the same list already is
  have h3 : g.foldl (downMove (flip m)) g = g := by
    rw [foldl_congr_mem _ (fun r _ => r)]
    · exact foldl_const _ _
    · intro b p hp
      simp [downMove, get?_flip_other m ok.newsNodup p.1 (hold p hp)]
  rw [h3]
  generalize hl : m.side1 ++ m.side2 = l
  have hall : ∀ p ∈ l, p ∈ m.side1 ++ m.side2 := by rw [hl]; exact fun p hp => hp
  clear hl h2
  induction l with
  | nil => rfl
  | cons q r ih =>
    simp only [List.map_cons, List.foldl_cons]
    have hq := hall q (by simp)
    obtain ⟨v, hv⟩ := get?_of_mem_keys g q.1 (ok.oldsIn q hq)
    have : downMove (flip m) g (q.2, (AL.get? g q.1).getD []) = g := by
      simp only [downMove, get?_flip_new m ok.newsNodup q hq, hv, Option.getD_some]
      exact set_same g q.1 v hv
    rw [this]
    exact ih (fun p hp => hall p (by simp [hp]))

/-- a name that is not one of the new names is renamed injectively by one side of the maps -/
theorem rn_side_inj (m : Maps) (side : List (Name × Name)) (hs : ∀ p ∈ side, p ∈ m.side1 ++ m.side2)
    (hsn : (side.map Prod.snd).Nodup)
    (a c : Name) (ha : a ∉ news m) (hc : c ∉ news m) (h : rn side a = rn side c) : a = c := by
  unfold rn at h
  cases hga : AL.get? side a with
  | none =>
    cases hgc : AL.get? side c with
    | none => simpa [hga, hgc] using h
    | some y =>
      simp [hga, hgc] at h
      exact absurd (List.mem_map.mpr ⟨(c, y), hs _ (AL.mem_of_get? hgc), rfl⟩) (by rw [← h]; exact ha)
  | some x =>
    cases hgc : AL.get? side c with
    | none =>
      simp [hga, hgc] at h
      exact absurd (List.mem_map.mpr ⟨(a, x), hs _ (AL.mem_of_get? hga), rfl⟩) (by rw [h]; exact hc)
    | some y =>
      simp [hga, hgc] at h
      subst h
      exact fst_eq_of_snd_nodup side hsn a c x (AL.mem_of_get? hga) (AL.mem_of_get? hgc)

/-- … and the flat map of the writer takes it back -/
theorem rn_flip_rn (m : Maps) (hn : (news m).Nodup) (side : List (Name × Name))
    (hs : ∀ p ∈ side, p ∈ m.side1 ++ m.side2) (a : Name) (ha : a ∉ news m) :
    rn (flip m) (rn side a) = a := by
  unfold rn
  cases hga : AL.get? side a with
  | none => simp [get?_flip_other m hn a ha]
  | some x =>
    have := get?_flip_new m hn (a, x) (hs _ (AL.mem_of_get? hga))
    simp at this
    simp [this]

theorem nodup_sides (m : Maps) (hn : (news m).Nodup) :
    (m.side1.map Prod.snd).Nodup ∧ (m.side2.map Prod.snd).Nodup := by
  unfold news at hn
  rw [List.map_append, List.nodup_append] at hn
  exact ⟨hn.1, hn.2.1⟩

/-- KERNING: writing with the maps undoes what reading with them did -/
theorem downKerning_upKerning (m : Maps) (g : Groups) (k : Kerning) (ok : MapsOK m g k) :
    downKerning (flip m) (upKerning m k) = k := by
  obtain ⟨hn1, hn2⟩ := nodup_sides m ok.newsNodup
  have hs1 : ∀ p ∈ m.side1, p ∈ m.side1 ++ m.side2 := fun p hp => List.mem_append_left _ hp
  have hs2 : ∀ p ∈ m.side2, p ∈ m.side1 ++ m.side2 := fun p hp => List.mem_append_right _ hp
  let f : Name × Name → Name × Name := fun p => (rn m.side1 p.1, rn m.side2 p.2)
  let gf : Name × Name → Name × Name := fun p => (rn (flip m) p.1, rn (flip m) p.2)
  have hfinj : ∀ x ∈ AL.keys k, ∀ y ∈ AL.keys k, f x = f y → x = y := by
    intro x hx y hy e
    obtain ⟨hx1, hx2⟩ := ok.kernFree x hx
    obtain ⟨hy1, hy2⟩ := ok.kernFree y hy
    have e1 := rn_side_inj m m.side1 hs1 hn1 x.1 y.1 hx1 hy1 (Prod.mk.inj e).1
    have e2 := rn_side_inj m m.side2 hs2 hn2 x.2 y.2 hx2 hy2 (Prod.mk.inj e).2
    exact Prod.ext e1 e2
  have hgf : ∀ x ∈ AL.keys k, gf (f x) = x := by
    intro x hx
    obtain ⟨hx1, hx2⟩ := ok.kernFree x hx
    exact Prod.ext (rn_flip_rn m ok.newsNodup m.side1 hs1 x.1 hx1) (rn_flip_rn m ok.newsNodup m.side2 hs2 x.2 hx2)
  have hup : upKerning m k = k.map (fun p => (f p.1, p.2)) := by
    unfold upKerning
    have := foldl_set_map (fun p : (Name × Name) × Int => f p.1) (fun p => p.2) k []
      (by have := nodup_map_of_inj_on f (AL.keys k) ok.kNodup hfinj
          simpa [AL.keys, List.map_map, Function.comp_def] using this) (by simp [AL.keys])
    simpa using this
  rw [hup]
  unfold downKerning
  have hdown := foldl_set_map (fun p : (Name × Name) × Int => gf p.1) (fun p => p.2) (k.map (fun p => (f p.1, p.2))) []
    (by
      have : (k.map (fun p => (f p.1, p.2))).map (fun p => gf p.1) = AL.keys k := by
        simp only [List.map_map, Function.comp_def, AL.keys]
        apply List.map_congr_left
        intro p hp
        exact hgf p.1 (List.mem_map.mpr ⟨p, hp, rfl⟩)
      rw [this]; exact ok.kNodup) (by simp [AL.keys])
  simp only [List.nil_append] at hdown
  rw [show (fun (r : Kerning) (p : (Name × Name) × Int) => AL.set r (rn (flip m) p.1.1, rn (flip m) p.1.2) p.2)
      = (fun r p => AL.set r (gf p.1) p.2) from rfl, hdown]
  simp only [List.map_map, Function.comp_def]
  conv => rhs; rw [← List.map_id k]
  apply List.map_congr_left
  intro p hp
  simp only [id]
  exact Prod.ext (hgf p.1 (List.mem_map.mpr ⟨p, hp, rfl⟩)) rfl

theorem get?_append {κ α : Type} [DecidableEq κ] (a b : List (κ × α)) (k : κ) :
    AL.get? (a ++ b) k = (AL.get? a k <|> AL.get? b k) := by
  induction a with
  | nil => simp
  | cons p r ih =>
    obtain ⟨k', v'⟩ := p
    by_cases h : k' = k <;> simp [h, ih]

/-- reading keeps every pair, under the renamed names -/
theorem upKerning_pair (m : Maps) (g : Groups) (k : Kerning) (ok : MapsOK m g k) (a b : Name) (v : Int)
    (h : AL.get? k (a, b) = some v) :
    AL.get? (upKerning m k) (rn m.side1 a, rn m.side2 b) = some v := by
  obtain ⟨hn1, hn2⟩ := nodup_sides m ok.newsNodup
  have hs1 : ∀ p ∈ m.side1, p ∈ m.side1 ++ m.side2 := fun p hp => List.mem_append_left _ hp
  have hs2 : ∀ p ∈ m.side2, p ∈ m.side1 ++ m.side2 := fun p hp => List.mem_append_right _ hp
  let f : Name × Name → Name × Name := fun p => (rn m.side1 p.1, rn m.side2 p.2)
  have hfinj : ∀ x ∈ AL.keys k, ∀ y ∈ AL.keys k, f x = f y → x = y := by
    intro x hx y hy e
    obtain ⟨hx1, hx2⟩ := ok.kernFree x hx
    obtain ⟨hy1, hy2⟩ := ok.kernFree y hy
    exact Prod.ext (rn_side_inj m m.side1 hs1 hn1 x.1 y.1 hx1 hy1 (Prod.mk.inj e).1)
      (rn_side_inj m m.side2 hs2 hn2 x.2 y.2 hx2 hy2 (Prod.mk.inj e).2)
  have hnd : ((AL.keys k).map f).Nodup := nodup_map_of_inj_on f (AL.keys k) ok.kNodup hfinj
  have hup : upKerning m k = k.map (fun p => (f p.1, p.2)) := by
    unfold upKerning
    have := foldl_set_map (fun p : (Name × Name) × Int => f p.1) (fun p => p.2) k []
      (by simpa [AL.keys, List.map_map, Function.comp_def] using hnd) (by simp [AL.keys])
    simpa using this
  rw [hup]
  apply AL.get?_of_mem_nodup
  · simpa [AL.keys, List.map_map, Function.comp_def] using hnd
  · exact List.mem_map.mpr ⟨((a, b), v), AL.mem_of_get? h, rfl⟩

/-- … every group keeps its members, and the group a renamed name now refers to has the members
the old one had -/
theorem upGroups_old (m : Maps) (g : Groups) (k : Kerning) (ok : MapsOK m g k) (n : Name) (h : n ∈ AL.keys g) :
    AL.get? (upGroups m g) n = AL.get? g n := by
  rw [upGroups_eq m g k ok, get?_append]
  obtain ⟨v, hv⟩ := get?_of_mem_keys g n h
  simp [hv]

theorem upGroups_new (m : Maps) (g : Groups) (k : Kerning) (ok : MapsOK m g k) (p : Name × Name)
    (hp : p ∈ m.side1 ++ m.side2) :
    AL.get? (upGroups m g) p.2 = AL.get? g p.1 := by
  rw [upGroups_eq m g k ok, get?_append]
  have hnew : p.2 ∈ news m := List.mem_map.mpr ⟨p, hp, rfl⟩
  rw [AL.get?_eq_none_of_not_mem (ok.newsFresh p.2 hnew)]
  obtain ⟨v, hv⟩ := get?_of_mem_keys g p.1 (ok.oldsIn p hp)
  have : AL.get? ((m.side1 ++ m.side2).map (fun p => (p.2, (AL.get? g p.1).getD []))) p.2 = some ((AL.get? g p.1).getD []) := by
    apply AL.get?_of_mem_nodup
    · simpa [AL.keys, List.map_map, Function.comp_def, news] using ok.newsNodup
    · exact List.mem_map.mpr ⟨p, hp, rfl⟩
  rw [this, hv]; simp

end Conv
end DefconModel
