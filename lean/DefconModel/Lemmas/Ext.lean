/-
Helper lemmas for C05 (M-Ext).
-/
import DefconModel.Spec.Ext

namespace DefconModel
namespace Ext

/-! ### membership / lookup in association lists -/

theorem AL_contains_of_mem {κ α : Type} [DecidableEq κ] {l : List (κ × α)} {k : κ} {v : α} (h : (k, v) ∈ l) :
    AL.contains l k = true := by
  induction l with
  | nil => simp at h
  | cons p r ih =>
    obtain ⟨k', v'⟩ := p
    unfold AL.contains
    by_cases e : k' = k
    · simp [e]
    · simp only [AL.get?_cons, e, if_false]
      simp only [List.mem_cons, Prod.mk.injEq] at h
      rcases h with ⟨h1, _⟩ | h
      · exact absurd h1.symm e
      · exact ih h

theorem AL_mem_keys_iff_contains {κ α : Type} [DecidableEq κ] (l : List (κ × α)) (k : κ) :
    k ∈ AL.keys l ↔ AL.contains l k = true := by
  constructor
  · intro h
    simp only [AL.keys, List.mem_map] at h
    obtain ⟨⟨k', v⟩, hm, rfl⟩ := h
    exact AL_contains_of_mem hm
  · intro h
    rw [AL.contains_iff_get?] at h
    obtain ⟨v, hv⟩ := h
    exact AL.mem_keys_of_get? hv

theorem AL_get?_some_of_contains {κ α : Type} [DecidableEq κ] {l : List (κ × α)} {k : κ}
    (h : AL.contains l k = true) : ∃ v, AL.get? l k = some v := (AL.contains_iff_get? l k).1 h

/-! ### the top-level objects -/

theorem partChanged_eq_false_of_agree {d : Disk} {p : Part} {st : PStamp} (h : st.data = diskData d p) :
    partChanged d p st = false := by
  unfold partChanged
  unfold diskData at h
  cases hg : AL.get? d.parts p with
  | none => simp [hg] at h; simp [h]
  | some f => simp [hg] at h; simp [h]

theorem partChanged_iff (d : Disk) (p : Part) (st : PStamp) :
    partChanged d p st = true ↔
      st.data ≠ diskData d p ∧ ∀ f, AL.get? d.parts p = some f → f.mtime ≠ st.time := by
  unfold partChanged diskData
  cases hg : AL.get? d.parts p with
  | none =>
    cases hd : st.data <;> simp
  | some f =>
    simp only [Option.map_some, Bool.and_eq_true, bne_iff_ne, ne_eq, Option.some.injEq, forall_eq']
    constructor
    · rintro ⟨h1, h2⟩; exact ⟨fun e => h2 e.symm, h1⟩
    · rintro ⟨h1, h2⟩; exact ⟨h2, fun e => h1 e.symm⟩

theorem get?_report_parts (s : State) (p : Part) :
    AL.get? (report s).parts p = some ((getPart s p).map fun mp => partChanged s.disk p mp.stamp) := by
  cases p <;> simp [report, partsReport, allParts]

theorem get?_quiet_parts (s : State) (p : Part) :
    AL.get? (quietReport s).parts p = some ((getPart s p).map fun _ => false) := by
  cases p <;> simp [quietReport, allParts]

/-! ### a layer -/

theorem mem_glifNames (d : Disk) (ln gn : String) (dl : DLayer) (h : AL.get? d.layers ln = some dl) :
    gn ∈ glifNames d ln ↔ gn ∈ AL.keys dl.glifs := by
  simp [glifNames, h]

theorem glifOf_eq (d : Disk) (ln gn : String) (dl : DLayer) (h : AL.get? d.layers ln = some dl) :
    glifOf d ln gn = AL.get? dl.glifs gn := by
  simp [glifOf, h]

theorem fileChanged_false_of_blob {f st : File} (h : f.blob = st.blob) : fileChanged f st = false := by
  simp [fileChanged, h]

theorem layerModified_quiet {d : Disk} {ln : String} {dl : DLayer} {l : MLayer}
    (hd : AL.get? d.layers ln = some dl) (h : LayerSynced ln dl l) : layerModified d ln l = [] := by
  unfold layerModified
  rw [List.filterMap_eq_nil_iff]
  intro p hp
  obtain ⟨gn, g⟩ := p
  unfold isModifiedGlyph
  cases hs : g.stamp with
  | none => simp only [hs]; split <;> simp_all
  | some st =>
    obtain ⟨f, hf, hb⟩ := h.glyphs gn g st hp hs
    simp only [glifOf_eq d ln gn dl hd, hf, hs, fileChanged_false_of_blob hb]
    simp

theorem layerAdded_quiet {d : Disk} {ln : String} {dl : DLayer} {l : MLayer}
    (hd : AL.get? d.layers ln = some dl) (h : LayerSynced ln dl l) : layerAdded d ln l = [] := by
  unfold layerAdded
  rw [List.filter_eq_nil_iff]
  intro gn hgn
  rw [mem_glifNames d ln gn dl hd] at hgn
  unfold isAddedGlyph
  by_cases hk : gn ∈ l.keys
  · simp [hk]
  · rcases (h.names gn).1 hgn with hk' | hsc
    · exact absurd hk' hk
    · obtain ⟨st, hst⟩ := AL_get?_some_of_contains hsc
      obtain ⟨f, st', hf, hst', hb⟩ := h.sched gn st hst
      subst hst'
      simp [hst, glifOf_eq d ln gn dl hd, hf, fileChanged_false_of_blob hb]

theorem layerDeleted_quiet {d : Disk} {ln : String} {dl : DLayer} {l : MLayer}
    (hd : AL.get? d.layers ln = some dl) (h : LayerSynced ln dl l) : layerDeleted d ln l = [] := by
  unfold layerDeleted
  rw [List.filter_eq_nil_iff]
  intro gn hgn
  have : gn ∈ glifNames d ln := by
    rw [mem_glifNames d ln gn dl hd]; exact (h.names gn).2 (Or.inl hgn)
  simp [this]

theorem layerRep_quiet {d : Disk} {ln : String} {dl : DLayer} {l : MLayer}
    (hd : AL.get? d.layers ln = some dl) (h : LayerSynced ln dl l) : (layerRep d ln l dl).isEmpty = true := by
  unfold layerRep
  rw [layerModified_quiet hd h, layerAdded_quiet hd h, layerDeleted_quiet hd h]
  simp [LayerRep.isEmpty, h.info]

/-! ### images and data -/

theorem fsTest_quiet {files : List (String × File)} {fs : FileSet} (h : FSSynced files fs) :
    fsTest files fs = {} := by
  have hadd : (AL.keys files).filter (isAddedFile files fs) = [] := by
    rw [List.filter_eq_nil_iff]
    intro n hn
    unfold isAddedFile
    by_cases he : AL.contains fs.entries n = true
    · simp [he]
    · have he' : AL.contains fs.entries n = false := by simpa using he
      rcases h.known n hn with h1 | h1
      · exact absurd h1 he
      · obtain ⟨e, hse⟩ := AL_get?_some_of_contains h1
        have hc : AL.contains files n = true := (AL_mem_keys_iff_contains files n).1 hn
        obtain ⟨f, hf⟩ := AL_get?_some_of_contains hc
        have hon : e.onDisk = true := (h.schedOnDisk n e hse he').2 hc
        have hdg := h.schedDigest n e f hse hf
        simp [hse, hon, hf, hdg]
  have hmod : fs.entries.filterMap (isModifiedFile files) = [] := by
    rw [List.filterMap_eq_nil_iff]
    intro p hp
    obtain ⟨n, e⟩ := p
    unfold isModifiedFile
    cases hf : AL.get? files n with
    | none => simp
    | some f =>
      cases hdt : e.data with
      | none => simp
      | some b =>
        have := h.digest n e f hp hf (by simp [hdt])
        simp [this]
  have hdel : fs.entries.filterMap (isDeletedFile files) = [] := by
    rw [List.filterMap_eq_nil_iff]
    intro p hp
    obtain ⟨n, e⟩ := p
    unfold isDeletedFile
    have := h.onDisk n e hp
    by_cases hc : AL.contains files n = true
    · simp [hc]
    · have hc' : AL.contains files n = false := by simpa using hc
      have : e.onDisk = false := by
        cases ho : e.onDisk with
        | false => rfl
        | true => exact absurd (this.1 ho) hc
      simp [this]
  unfold fsTest
  rw [hadd, hmod, hdel]

/-! ### the whole report -/

theorem report_quiet {s : State} (h : Synced s) : report s = quietReport s := by
  have hparts : partsReport s = (allParts.map fun p => (p, (getPart s p).map fun _ => false)) := by
    unfold partsReport
    apply List.map_congr_left
    intro p _
    cases hg : getPart s p with
    | none => rfl
    | some mp =>
      simp only [Option.map_some]
      rw [partChanged_eq_false_of_agree (h.parts p mp hg)]
  have hadded : layersAdded s = [] := by
    unfold layersAdded
    rw [List.filter_eq_nil_iff]
    intro n hn
    rw [← h.order] at hn
    simp [hn]
  have hdeleted : layersDeleted s = [] := by
    unfold layersDeleted
    rw [List.filter_eq_nil_iff]
    intro n hn
    rw [h.order] at hn
    simp [hn]
  have hmod : layersModified s = [] := by
    unfold layersModified
    rw [List.filterMap_eq_nil_iff]
    intro ln hln
    obtain ⟨l, dl, hl, hdl, hs⟩ := h.layers ln hln
    simp [layerEntry, hl, hdl, layerRep_quiet hdl hs]
  unfold report quietReport
  rw [hparts, hadded, hdeleted, hmod, fsTest_quiet h.images, fsTest_quiet h.data]
  simp [h.order, h.default]


/-! ## `Synced` is kept by the quiet operations -/

theorem get?_map_key_val {κ α β : Type} [DecidableEq κ] (F : κ → α → β) (l : List (κ × α)) (k : κ) :
    AL.get? (l.map (fun p => (p.1, F p.1 p.2))) k = (AL.get? l k).map (F k) := by
  induction l with
  | nil => rfl
  | cons p r ih =>
    obtain ⟨k', v⟩ := p
    by_cases h : k' = k
    · subst h; simp
    · simp [h, ih]

theorem stampOf_data (d : Disk) (p : Part) : (stampOf d p).data = diskData d p := by
  unfold stampOf diskData
  cases AL.get? d.parts p <;> rfl

/-- replacing a top-level object by one whose stamp holds the bytes on disk -/
theorem synced_setPart {s : State} (h : Synced s) (p : Part) (mp : MPart)
    (hmp : mp.stamp.data = diskData s.disk p) : Synced (setPart s p mp) where
  parts := by
    intro p' mp' hg
    unfold getPart setPart at hg
    simp only at hg
    rw [AL.get?_set] at hg
    by_cases e : p = p'
    · subst e
      simp at hg; subst hg; exact hmp
    · simp [e] at hg
      exact h.parts p' mp' hg
  order := h.order
  default := h.default
  layers := h.layers
  images := h.images
  data := h.data
  reader := h.reader
  nodupOrder := h.nodupOrder

theorem synced_forceLoad {s : State} (h : Synced s) (p : Part) : Synced (forceLoad s p) :=
  synced_setPart h p _ (stampOf_data s.disk p)

theorem synced_loadPart {s : State} (h : Synced s) (p : Part) : Synced (loadPart s p) := by
  unfold loadPart
  split
  · exact h
  · cases p
    · exact synced_forceLoad h _
    · exact synced_forceLoad (synced_forceLoad h _) _
    · exact synced_forceLoad (synced_forceLoad h _) _
    · exact synced_forceLoad h _
    · exact synced_forceLoad h _

theorem synced_psetPart {s : State} (h : Synced s) (p : Part) (v : Blob) : Synced (psetPart s p v) := by
  unfold psetPart
  have h1 := synced_loadPart h p
  cases hg : getPart (loadPart s p) p with
  | none => simpa [hg] using h1
  | some mp =>
    simp only [hg]
    exact synced_setPart h1 p _ (h1.parts p mp hg)

theorem synced_reloadPart {s : State} (h : Synced s) (p : Part) : Synced (reloadPart s p) := by
  unfold reloadPart
  cases hg : getPart s p with
  | none => simpa [hg] using synced_loadPart h p
  | some mp => simpa [hg] using synced_setPart h p _ (stampOf_data s.disk p)


/-! ### what the font's reader sees holds the bytes on disk -/

theorem get?_retimeFiles {κ : Type} [DecidableEq κ] (t : Time) (files : List (κ × File)) (k : κ) :
    AL.get? (retimeFiles t files) k = (AL.get? files k).map fun f => { f with mtime := t } := by
  unfold retimeFiles
  exact AL.get?_map_val (fun f : File => { f with mtime := t }) files k

theorem get?_retime_layers (t : Time) (layers : List (String × DLayer)) (ln : String) :
    AL.get? (layers.map fun p => (p.1, ({ p.2 with glifs := retimeFiles t p.2.glifs } : DLayer))) ln =
      (AL.get? layers ln).map fun dl => ({ dl with glifs := retimeFiles t dl.glifs } : DLayer) :=
  AL.get?_map_val (fun dl : DLayer => ({ dl with glifs := retimeFiles t dl.glifs } : DLayer)) layers ln

theorem glifOf_retime (t : Time) (d : Disk) (ln gn : String) :
    glifOf (retime t d) ln gn = (glifOf d ln gn).map fun f => { f with mtime := t } := by
  unfold glifOf retime
  simp only
  rw [get?_retime_layers]
  cases AL.get? d.layers ln with
  | none => rfl
  | some dl => simp only [Option.map_some]; rw [get?_retimeFiles]

theorem view_glif {s : State} (h : Synced s) (ln gn : String) :
    (glifOf (view s) ln gn).map (·.blob) = (glifOf s.disk ln gn).map (·.blob) := by
  unfold view
  by_cases hz : s.zip = true
  · have e := congrArg (fun d => glifOf d ln gn) (h.reader hz)
    simp only [stripTimes, glifOf_retime] at e
    have r1 : glifOf { s.reader with parts := [] } ln gn = glifOf s.reader ln gn := rfl
    have r2 : glifOf { s.disk with parts := [] } ln gn = glifOf s.disk ln gn := rfl
    rw [r1, r2] at e
    simp only [hz, if_true]
    cases h1 : glifOf s.reader ln gn <;> cases h2 : glifOf s.disk ln gn <;> simp [h1, h2] at e ⊢
    exact e
  · simp [hz]

theorem view_file {s : State} (h : Synced s) (img : Bool) (n : String) :
    (AL.get? (fsFiles (view s) img) n).map (·.blob) = (AL.get? (fsFiles s.disk img) n).map (·.blob) := by
  unfold view
  by_cases hz : s.zip = true
  · have e := congrArg (fun d => AL.get? (fsFiles d img) n) (h.reader hz)
    simp only [hz, if_true]
    cases img
    · simp only [stripTimes, retime, fsFiles, Bool.false_eq_true, if_false] at e ⊢
      rw [get?_retimeFiles, get?_retimeFiles] at e
      cases h1 : AL.get? s.reader.data n <;> cases h2 : AL.get? s.disk.data n <;> simp [h1, h2] at e ⊢
      exact e
    · simp only [stripTimes, retime, fsFiles, if_true] at e ⊢
      rw [get?_retimeFiles, get?_retimeFiles] at e
      cases h1 : AL.get? s.reader.images n <;> cases h2 : AL.get? s.disk.images n <;> simp [h1, h2] at e ⊢
      exact e
  · simp [hz]

/-! ### layers -/

/-- replacing a layer by one that is in step with its directory -/
theorem synced_setLayer {s : State} (h : Synced s) (ln : String) (l' : MLayer)
    (hl : ∀ dl, AL.get? s.disk.layers ln = some dl → LayerSynced ln dl l') : Synced (setLayer s ln l') where
  parts := h.parts
  order := h.order
  default := h.default
  layers := by
    intro ln' hln'
    obtain ⟨l, dl, h1, h2, h3⟩ := h.layers ln' hln'
    by_cases e : ln = ln'
    · subst e
      exact ⟨l', dl, by simp [setLayer], h2, hl dl h2⟩
    · exact ⟨l, dl, by simp [setLayer, e, h1], h2, h3⟩
  images := h.images
  data := h.data
  reader := h.reader
  nodupOrder := h.nodupOrder

theorem mem_setAdd (l : List String) (n x : String) : x ∈ setAdd l n ↔ x ∈ l ∨ x = n := by
  unfold setAdd
  split
  · constructor
    · exact Or.inl
    · rintro (h | h)
      · exact h
      · subst h; assumption
  · simp

theorem mem_setDel (l : List String) (n x : String) : x ∈ setDel l n ↔ x ∈ l ∧ x ≠ n := by
  simp [setDel]

/-- a layer of a synced font that is in the order, with its directory -/
theorem Synced.layerOf {s : State} (h : Synced s) {ln : String} {l : MLayer} (hord : ln ∈ s.font.order)
    (hl : getLayer s ln = some l) : ∃ dl, AL.get? s.disk.layers ln = some dl ∧ LayerSynced ln dl l := by
  obtain ⟨l0, dl, h1, h2, h3⟩ := h.layers ln hord
  unfold getLayer at hl
  rw [h1] at hl
  injection hl with hl
  subst hl
  exact ⟨dl, h2, h3⟩

/-- the layer after a successful lazy load -/
theorem layerSynced_load {ln : String} {dl : DLayer} {l : MLayer} (h : LayerSynced ln dl l) {gn : String} {f f' : File}
    (hf' : AL.get? dl.glifs gn = some f') (hb : f'.blob = f.blob) (hs : AL.contains l.sched gn = false)
    (value : Blob) (dirty : Bool) :
    LayerSynced ln dl { l with glyphs := AL.set l.glyphs gn ⟨value, dirty, some f⟩, keys := setAdd l.keys gn } where
  info := h.info
  names := by
    intro x
    simp only [mem_setAdd]
    constructor
    · intro hx
      rcases (h.names x).1 hx with h1 | h1
      · exact Or.inl (Or.inl h1)
      · exact Or.inr h1
    · rintro ((h1 | h1) | h1)
      · exact (h.names x).2 (Or.inl h1)
      · subst h1; exact AL.mem_keys_of_get? hf'
      · exact (h.names x).2 (Or.inr h1)
  disjoint := by
    intro x hx
    simp only [mem_setAdd] at hx
    rcases hx with h1 | h1
    · exact h.disjoint x h1
    · subst h1; exact hs
  glyphs := by
    intro x g st hm hst
    rcases AL.mem_set hm with h1 | h1
    · injection h1 with h1 h2
      subst h1; subst h2
      simp only at hst
      injection hst with hst
      subst hst
      exact ⟨f', hf', hb⟩
    · exact h.glyphs x g st h1 hst
  sched := h.sched
  gs := h.gs
  loaded := by
    intro x g hm
    rw [mem_setAdd]
    rcases AL.mem_set hm with h1 | h1
    · injection h1 with h1 _; exact Or.inr h1
    · exact Or.inl (h.loaded x g h1)
  nodupGlyphs := AL.nodup_keys_set _ _ _ h.nodupGlyphs

/-- changing the value / dirty flag of a loaded glyph, the stamp kept -/
theorem layerSynced_setValue {ln : String} {dl : DLayer} {l : MLayer} (h : LayerSynced ln dl l) {gn : String} {g : MGlyph}
    (hg : (gn, g) ∈ l.glyphs) (value : Blob) (dirty : Bool) :
    LayerSynced ln dl { l with glyphs := AL.set l.glyphs gn { g with value := value, dirty := dirty } } where
  info := h.info
  names := h.names
  disjoint := h.disjoint
  glyphs := by
    intro x g' st hm hst
    rcases AL.mem_set hm with h1 | h1
    · injection h1 with h1 h2
      subst h1; subst h2
      exact h.glyphs x g st hg hst
    · exact h.glyphs x g' st h1 hst
  sched := h.sched
  gs := h.gs
  loaded := by
    intro x g' hm
    rcases AL.mem_set hm with h1 | h1
    · injection h1 with h1 _; subst h1; exact h.loaded _ g hg
    · exact h.loaded x g' h1
  nodupGlyphs := AL.nodup_keys_set _ _ _ h.nodupGlyphs


theorem Synced.layerOf' {s : State} (h : Synced s) {ln : String} {l : MLayer} (hl : getLayer s ln = some l) :
    ∀ dl, AL.get? s.disk.layers ln = some dl → LayerSynced ln dl l := by
  intro dl hdl
  have hord : ln ∈ s.font.order := by
    rw [h.order]; exact AL.mem_keys_of_get? hdl
  obtain ⟨dl', h1, h2⟩ := h.layerOf hord hl
  rw [hdl] at h1
  injection h1 with h1
  subst h1
  exact h2

/-- the file a synced layer's glyph set reads has the bytes of the file on disk -/
theorem view_glif_of_synced {s : State} (h : Synced s) {ln gn : String} {dl : DLayer} {f : File}
    (hdl : AL.get? s.disk.layers ln = some dl) (hf : glifOf (view s) ln gn = some f) :
    ∃ f', AL.get? dl.glifs gn = some f' ∧ f'.blob = f.blob := by
  have e := view_glif h ln gn
  rw [hf, glifOf_eq s.disk ln gn dl hdl] at e
  cases h2 : AL.get? dl.glifs gn with
  | none => simp [h2] at e
  | some f' => simp [h2] at e; exact ⟨f', rfl, e.symm⟩

theorem disk_glif_in_view {s : State} (h : Synced s) {ln gn : String} {dl : DLayer} {f' : File}
    (hdl : AL.get? s.disk.layers ln = some dl) (hf : AL.get? dl.glifs gn = some f') :
    ∃ f, glifOf (view s) ln gn = some f ∧ f'.blob = f.blob := by
  have e := view_glif h ln gn
  rw [glifOf_eq s.disk ln gn dl hdl, hf] at e
  cases h2 : glifOf (view s) ln gn with
  | none => simp [h2] at e
  | some f => simp [h2] at e; exact ⟨f, rfl, e.symm⟩

theorem gsRead_ok {s : State} {b : GS} {gn : String} {f : File} (h : gsRead s b gn = .ok f) :
    b.alive = true ∧ glifOf (view s) b.lname gn = some f := by
  unfold gsRead at h
  cases ha : b.alive with
  | false => simp [ha] at h
  | true =>
    simp only [ha] at h
    cases hv : glifOf (view s) b.lname gn with
    | none => simp [hv] at h
    | some f' =>
      simp [hv] at h
      exact ⟨rfl, by rw [h]⟩

theorem synced_loadGlyph {s s' : State} (h : Synced s) {ln gn : String} {l : MLayer} {g : MGlyph}
    (hl : getLayer s ln = some l) (hr : loadGlyph s ln l gn = .ok (s', g)) :
    Synced s' ∧ ∃ l', getLayer s' ln = some l' ∧ (gn, g) ∈ l'.glyphs := by
  unfold loadGlyph at hr
  cases hgs : l.gs with
  | none => simp [hgs] at hr
  | some b =>
    simp only [hgs] at hr
    by_cases hc : gn ∉ b.contents ∨ AL.contains l.sched gn = true
    · simp [hc] at hr
    · simp only [hc, if_false] at hr
      cases hrd : gsRead s b gn with
      | error e => simp [hrd] at hr
      | ok f =>
        simp only [hrd] at hr
        injection hr with hr
        injection hr with hs' hg
        subst hs'; subst hg
        obtain ⟨_, hv⟩ := gsRead_ok hrd
        have hsc : AL.contains l.sched gn = false := by
          cases hx : AL.contains l.sched gn with
          | false => rfl
          | true => exact absurd (Or.inr hx) hc
        refine ⟨synced_setLayer h ln _ ?_, ?_⟩
        · intro dl hdl
          have hs := h.layerOf' hl dl hdl
          obtain ⟨b', hb1, hb2, _, _⟩ := hs.gs
          rw [hgs] at hb1
          injection hb1 with hb1
          subst hb1
          rw [hb2] at hv
          obtain ⟨f', hf', hbl⟩ := view_glif_of_synced h hdl hv
          have key := layerSynced_load hs hf' hbl hsc f.blob false
          rw [hgs] at key
          exact key
        · exact ⟨_, by unfold getLayer setLayer; exact AL.get?_set_self _ _ _,
            AL.mem_of_get? (AL.get?_set_self _ _ _)⟩

theorem synced_getGlyph {s s' : State} (h : Synced s) {ln gn : String} {g : MGlyph}
    (hr : getGlyph s ln gn = .ok (s', g)) :
    Synced s' ∧ ∃ l', getLayer s' ln = some l' ∧ (gn, g) ∈ l'.glyphs := by
  unfold getGlyph at hr
  cases hl : getLayer s ln with
  | none => simp [hl] at hr
  | some l =>
    simp only [hl] at hr
    cases hg : AL.get? l.glyphs gn with
    | some g0 =>
      simp only [hg] at hr
      injection hr with hr
      injection hr with h1 h2
      subst h1; subst h2
      exact ⟨h, l, hl, AL.mem_of_get? hg⟩
    | none =>
      simp only [hg] at hr
      exact synced_loadGlyph h hl hr

theorem synced_setGlyph {s s' : State} (h : Synced s) {ln gn : String} {v : Blob}
    (hr : setGlyph s ln gn v = .ok s') : Synced s' := by
  unfold setGlyph at hr
  cases hg : getGlyph s ln gn with
  | error e => simp [hg] at hr
  | ok r =>
    obtain ⟨s1, g⟩ := r
    simp only [hg] at hr
    obtain ⟨h1, l', hl', hm⟩ := synced_getGlyph h hg
    simp only [hl'] at hr
    injection hr with hr
    subst hr
    exact synced_setLayer h1 ln _ fun dl hdl => layerSynced_setValue (h1.layerOf' hl' dl hdl) hm _ _

theorem synced_setLayerInfo {s s' : State} (h : Synced s) {ln : String} {v : Blob}
    (hr : setLayerInfo s ln v = .ok s') : Synced s' := by
  unfold setLayerInfo at hr
  cases hl : getLayer s ln with
  | none => simp [hl] at hr
  | some l =>
    simp only [hl] at hr
    injection hr with hr
    subst hr
    refine synced_setLayer h ln _ fun dl hdl => ?_
    have hs := h.layerOf' hl dl hdl
    exact ⟨hs.info, hs.names, hs.disjoint, hs.glyphs, hs.sched, hs.gs, hs.loaded, hs.nodupGlyphs⟩


theorem mem_erase_ne {κ α : Type} [DecidableEq κ] {l : List (κ × α)} {k x : κ} {v : α} (hn : (AL.keys l).Nodup)
    (h : (x, v) ∈ AL.erase l k) : x ≠ k := by
  induction l with
  | nil => simp [AL.erase] at h
  | cons p r ih =>
    obtain ⟨k', v'⟩ := p
    simp only [AL.keys, List.map_cons, List.nodup_cons] at hn
    by_cases e : k' = k
    · subst e
      simp only [AL.erase, if_true] at h
      intro e2
      subst e2
      exact hn.1 (List.mem_map.2 ⟨(x, v), h, rfl⟩)
    · simp only [AL.erase, e, if_false, List.mem_cons, Prod.mk.injEq] at h
      rcases h with ⟨h1, _⟩ | h
      · rw [h1]; exact e
      · exact ih (by simpa [AL.keys] using hn.2) h

/-- the layer after `del layer[gn]`: the file is scheduled for deletion with a stamp that holds its bytes -/
theorem layerSynced_del {ln : String} {dl : DLayer} {l : MLayer} (h : LayerSynced ln dl l) {gn : String} {f' st' : File}
    (hf' : AL.get? dl.glifs gn = some f') (hb : f'.blob = st'.blob) :
    LayerSynced ln dl { l with glyphs := AL.erase l.glyphs gn, keys := setDel l.keys gn,
                               sched := AL.set l.sched gn (some st') } where
  info := h.info
  names := by
    intro x
    simp only [mem_setDel, AL.contains_set, Bool.or_eq_true, decide_eq_true_eq]
    constructor
    · intro hx
      by_cases e : gn = x
      · exact Or.inr (Or.inl e)
      · rcases (h.names x).1 hx with h1 | h1
        · exact Or.inl ⟨h1, fun e' => e e'.symm⟩
        · exact Or.inr (Or.inr h1)
    · rintro (⟨h1, _⟩ | h1 | h1)
      · exact (h.names x).2 (Or.inl h1)
      · subst h1; exact AL.mem_keys_of_get? hf'
      · exact (h.names x).2 (Or.inr h1)
  disjoint := by
    intro x hx
    simp only [mem_setDel] at hx
    simp only [AL.contains_set, Bool.or_eq_false_iff, decide_eq_false_iff_not]
    exact ⟨fun e => hx.2 e.symm, h.disjoint x hx.1⟩
  glyphs := fun x g st hm hst => h.glyphs x g st (AL.mem_erase hm) hst
  sched := by
    intro x st hg
    simp only at hg
    rw [AL.get?_set] at hg
    by_cases e : gn = x
    · subst e
      simp at hg
      exact ⟨f', st', hf', hg.symm, hb⟩
    · simp [e] at hg
      exact h.sched x st hg
  gs := h.gs
  loaded := by
    intro x g hm
    rw [mem_setDel]
    exact ⟨h.loaded x g (AL.mem_erase hm), mem_erase_ne h.nodupGlyphs hm⟩
  nodupGlyphs := AL.nodup_keys_erase _ _ h.nodupGlyphs

theorem synced_afterDelete {s : State} (h : Synced s) (gn : String) : Synced (afterDelete s gn) := by
  unfold afterDelete
  split
  · exact h
  · exact synced_loadPart h _

theorem inLayer_keys {l : MLayer} {gn : String} (h : inLayer l gn = true) : gn ∈ l.keys := by
  unfold inLayer at h
  simp at h
  exact h.1

theorem synced_delGlyph {s : State} (h : Synced s) (ln gn : String) : Synced (delGlyph s ln gn).1 := by
  unfold delGlyph
  cases hl : getLayer s ln with
  | none => exact h
  | some l =>
    simp only
    cases hin : inLayer l gn with
    | false => simpa using h
    | true =>
      simp only [Bool.true_eq_false, if_false]
      have hk := inLayer_keys hin
      -- facts available whenever the layer has a directory on disk
      have facts : ∀ dl, AL.get? s.disk.layers ln = some dl →
          LayerSynced ln dl l ∧ ∃ b, l.gs = some b ∧ b.lname = ln ∧ b.alive = true ∧ gn ∈ b.contents ∧
            ∃ f', AL.get? dl.glifs gn = some f' := by
        intro dl hdl
        have hs := h.layerOf' hl dl hdl
        obtain ⟨b, hb1, hb2, hb3, hb4⟩ := hs.gs
        have hon : gn ∈ AL.keys dl.glifs := (hs.names gn).2 (Or.inl hk)
        obtain ⟨f', hf'⟩ := AL_get?_some_of_contains ((AL_mem_keys_iff_contains _ _).1 hon)
        exact ⟨hs, b, hb1, hb2, hb3, (hb4 gn).2 hon, f', hf'⟩
      cases hgs : l.gs with
      | none =>
        simp only
        apply synced_afterDelete
        refine synced_setLayer h ln _ fun dl hdl => ?_
        obtain ⟨_, b, hb1, _⟩ := facts dl hdl
        rw [hgs] at hb1; cases hb1
      | some b =>
        simp only
        by_cases hc : gn ∈ b.contents
        · simp only [hc, if_true]
          apply synced_afterDelete
          refine synced_setLayer h ln _ fun dl hdl => ?_
          obtain ⟨hs, b', hb1, hb2, hb3, _, f', hf'⟩ := facts dl hdl
          rw [hgs] at hb1
          injection hb1 with hb1
          subst hb1
          unfold schedStamp
          split
          · rename_i f hbind
            cases hg : AL.get? l.glyphs gn with
            | none => simp [hg] at hbind
            | some g =>
              simp [hg] at hbind
              obtain ⟨f2, hf2, hb2'⟩ := hs.glyphs gn g f (AL.mem_of_get? hg) hbind
              rw [hf'] at hf2
              injection hf2 with hf2
              subst hf2
              have key := layerSynced_del hs hf' hb2'
              rw [hgs] at key
              exact key
          · simp only [hb3, Bool.not_true, Bool.false_eq_true, if_false]
            obtain ⟨f, hv, hbl⟩ := disk_glif_in_view h hdl hf'
            rw [hb2, hv]
            have key := layerSynced_del hs hf' hbl
            rw [hgs] at key
            exact key
        · simp only [hc, if_false]
          apply synced_afterDelete
          refine synced_setLayer h ln _ fun dl hdl => ?_
          obtain ⟨_, b', hb1, _, _, hb5, _⟩ := facts dl hdl
          rw [hgs] at hb1
          injection hb1 with hb1
          subst hb1
          exact absurd hb5 hc


/-! ### images and data -/

theorem Synced.fs {s : State} (h : Synced s) (img : Bool) : FSSynced (fsFiles s.disk img) (getFS s img) := by
  cases img
  · exact h.data
  · exact h.images

theorem synced_setFS {s : State} (h : Synced s) (img : Bool) (fs' : FileSet)
    (hfs : FSSynced (fsFiles s.disk img) fs') : Synced (setFS s img fs') := by
  cases img
  · exact ⟨h.parts, h.order, h.default, h.layers, h.images, hfs, h.reader, h.nodupOrder⟩
  · exact ⟨h.parts, h.order, h.default, h.layers, hfs, h.data, h.reader, h.nodupOrder⟩

theorem contains_erase_ne {κ α : Type} [DecidableEq κ] (l : List (κ × α)) {k k2 : κ} (h : k ≠ k2) :
    AL.contains (AL.erase l k) k2 = AL.contains l k2 := by
  unfold AL.contains
  rw [AL.get?_erase_ne l k k2 h]

/-- replacing (or adding) an entry that is in step with the directory -/
theorem fsSynced_setEntry {files : List (String × File)} {fs : FileSet} (h : FSSynced files fs) (n : String) (e' : Entry)
    (h1 : e'.onDisk = true ↔ AL.contains files n = true)
    (h2 : ∀ f, AL.get? files n = some f → e'.data.isSome → e'.digest = some f.blob)
    (h3 : e'.data = none → e'.onDisk = true) :
    FSSynced files { fs with entries := AL.set fs.entries n e' } where
  known := by
    intro x hx
    rcases h.known x hx with h' | h'
    · left; simp [AL.contains_set, h']
    · exact Or.inr h'
  onDisk := by
    intro x e hm
    rcases AL.mem_set hm with hx | hx
    · injection hx with hx1 hx2; subst hx1; subst hx2; exact h1
    · exact h.onDisk x e hx
  digest := by
    intro x e f hm hf hd
    rcases AL.mem_set hm with hx | hx
    · injection hx with hx1 hx2; subst hx1; subst hx2; exact h2 f hf hd
    · exact h.digest x e f hx hf hd
  unloaded := by
    intro x e hm hd
    rcases AL.mem_set hm with hx | hx
    · injection hx with hx1 hx2; subst hx1; subst hx2; exact h3 hd
    · exact h.unloaded x e hx hd
  schedOnDisk := by
    intro x e hg hc
    simp only [AL.contains_set, Bool.or_eq_false_iff] at hc
    exact h.schedOnDisk x e hg hc.2
  schedDigest := h.schedDigest
  schedUnloaded := h.schedUnloaded
  nodupSched := h.nodupSched
  nodupEntries := AL.nodup_keys_set _ _ _ h.nodupEntries

theorem view_contains {s : State} (h : Synced s) (img : Bool) (n : String) :
    (AL.get? (fsFiles (view s) img) n).isSome = (AL.get? (fsFiles s.disk img) n).isSome := by
  have e := congrArg Option.isSome (view_file h img n)
  simpa using e

/-- what `__getitem__` leaves: the font still synced, the entry present, holding data iff its file exists -/
theorem synced_fsLoad {s s' : State} (h : Synced s) {img : Bool} {n : String} {ob : Option Blob}
    (hr : fsLoad s img n = .ok (s', ob)) :
    Synced s' ∧ s'.disk = s.disk ∧ (getFS s' img).sched = (getFS s img).sched ∧
      ∃ e, (n, e) ∈ (getFS s' img).entries ∧ AL.get? (getFS s' img).entries n = some e ∧
        (e.data = none → AL.get? (fsFiles s.disk img) n = none) := by
  unfold fsLoad at hr
  simp only at hr
  cases hg : AL.get? (getFS s img).entries n with
  | none => simp [hg] at hr
  | some e =>
    simp only [hg] at hr
    have hfs := h.fs img
    have hm := AL.mem_of_get? hg
    cases hd : e.data with
    | some b =>
      simp only [hd] at hr
      injection hr with hr
      injection hr with h1 h2
      subst h1
      exact ⟨h, rfl, rfl, e, hm, hg, by simp [hd]⟩
    | none =>
      simp only [hd] at hr
      have hon : AL.contains (fsFiles s.disk img) n = true := (hfs.onDisk n e hm).1 (hfs.unloaded n e hm hd)
      have hv := view_contains h img n
      cases hvf : AL.get? (fsFiles (view s) img) n with
      | none =>
        rw [hvf] at hv
        unfold AL.contains at hon
        rw [← hv] at hon
        simp at hon
      | some f =>
        simp only [hvf] at hr
        injection hr with hr
        injection hr with h1 h2
        subst h1
        have e2 := view_file h img n
        rw [hvf] at e2
        obtain ⟨f', hf'⟩ := AL_get?_some_of_contains hon
        rw [hf'] at e2
        simp at e2
        have hfs' := fsSynced_setEntry hfs n ⟨some f.blob, false, true, some f.mtime, some f.blob⟩
          (by simp [hon])
          (by
            intro f2 hf2 _
            rw [hf'] at hf2; injection hf2 with hf2; subst hf2
            simp [e2])
          (by simp)
        refine ⟨synced_setFS h img _ hfs', ?_, ?_, ?_⟩
        · cases img <;> rfl
        · cases img <;> rfl
        · refine ⟨⟨some f.blob, false, true, some f.mtime, some f.blob⟩, ?_, ?_, ?_⟩
          · cases img <;> exact AL.mem_of_get? (AL.get?_set_self _ _ _)
          · cases img <;> exact AL.get?_set_self _ _ _
          · simp


theorem fsSynced_del {files : List (String × File)} {fs : FileSet} (h : FSSynced files fs) {n : String} {e : Entry}
    (hm : (n, e) ∈ fs.entries) (hd : e.data = none → AL.get? files n = none) :
    FSSynced files { entries := AL.erase fs.entries n, sched := AL.set fs.sched n e } where
  known := by
    intro x hx
    by_cases e1 : n = x
    · right; simp [AL.contains_set, e1]
    · rcases h.known x hx with h' | h'
      · left; rw [contains_erase_ne _ e1]; exact h'
      · right; simp [AL.contains_set, h']
  onDisk := fun x e' hx => h.onDisk x e' (AL.mem_erase hx)
  digest := fun x e' f hx => h.digest x e' f (AL.mem_erase hx)
  unloaded := fun x e' hx => h.unloaded x e' (AL.mem_erase hx)
  schedOnDisk := by
    intro x e' hg hc
    simp only at hg hc
    rw [AL.get?_set] at hg
    by_cases e1 : n = x
    · subst e1
      simp at hg; subst hg
      exact h.onDisk n e hm
    · simp [e1] at hg
      rw [contains_erase_ne _ e1] at hc
      exact h.schedOnDisk x e' hg hc
  schedDigest := by
    intro x e' f hg hf
    simp only at hg
    rw [AL.get?_set] at hg
    by_cases e1 : n = x
    · subst e1
      simp at hg; subst hg
      apply h.digest n e f hm hf
      cases hdd : e.data with
      | none => rw [hd hdd] at hf; cases hf
      | some _ => rfl
    · simp [e1] at hg
      exact h.schedDigest x e' f hg hf
  schedUnloaded := by
    intro x e' hg hdn
    simp only at hg
    rw [AL.get?_set] at hg
    by_cases e1 : n = x
    · subst e1
      simp at hg; subst hg
      exact h.unloaded n e hm hdn
    · simp [e1] at hg
      exact h.schedUnloaded x e' hg hdn
  nodupSched := AL.nodup_keys_set _ _ _ h.nodupSched
  nodupEntries := AL.nodup_keys_erase _ _ h.nodupEntries

theorem synced_fsDel {s : State} (h : Synced s) (img : Bool) (n : String) : Synced (fsDel s img n).1 := by
  unfold fsDel
  cases hr : fsLoad s img n with
  | error e => exact h
  | ok r =>
    obtain ⟨s1, ob⟩ := r
    obtain ⟨h1, hdisk, _, e, hm, hg, hd⟩ := synced_fsLoad h hr
    simp only [hg]
    apply synced_setFS h1
    rw [hdisk]
    have := h1.fs img
    rw [hdisk] at this
    exact fsSynced_del this hm hd

theorem fsSynced_eraseSched {files : List (String × File)} {fs : FileSet} (h : FSSynced files fs) {n : String}
    (hc : AL.contains fs.entries n = true) :
    FSSynced files { fs with sched := AL.erase fs.sched n } where
  known := by
    intro x hx
    by_cases e1 : n = x
    · subst e1; exact Or.inl hc
    · rcases h.known x hx with h' | h'
      · exact Or.inl h'
      · right; simp only; rw [contains_erase_ne _ e1]; exact h'
  onDisk := h.onDisk
  digest := h.digest
  unloaded := h.unloaded
  schedOnDisk := by
    intro x e hg hce
    simp only at hg
    by_cases e1 : n = x
    · subst e1; rw [AL.get?_erase_self_of_nodup _ _ h.nodupSched] at hg; cases hg
    · rw [AL.get?_erase_ne _ _ _ e1] at hg; exact h.schedOnDisk x e hg hce
  schedDigest := by
    intro x e f hg hf
    simp only at hg
    by_cases e1 : n = x
    · subst e1; rw [AL.get?_erase_self_of_nodup _ _ h.nodupSched] at hg; cases hg
    · rw [AL.get?_erase_ne _ _ _ e1] at hg; exact h.schedDigest x e f hg hf
  schedUnloaded := by
    intro x e hg hd
    simp only at hg
    by_cases e1 : n = x
    · subst e1; rw [AL.get?_erase_self_of_nodup _ _ h.nodupSched] at hg; cases hg
    · rw [AL.get?_erase_ne _ _ _ e1] at hg; exact h.schedUnloaded x e hg hd
  nodupSched := AL.nodup_keys_erase _ _ h.nodupSched
  nodupEntries := h.nodupEntries

theorem fsSynced_unsched {files : List (String × File)} {fs : FileSet} (h : FSSynced files fs) (n : String)
    (hboth : ¬ (AL.contains fs.sched n = true ∧ AL.contains fs.entries n = true)) :
    FSSynced files (unsched fs n) ∧
      (AL.get? (unsched fs n).entries n = none → AL.get? (unsched fs n).sched n = none) := by
  unfold unsched
  cases hsc : AL.get? fs.sched n with
  | none => exact ⟨h, fun _ => hsc⟩
  | some e =>
    simp only
    have hne : AL.contains fs.entries n = false := by
      cases hx : AL.contains fs.entries n with
      | false => rfl
      | true => exact absurd ⟨by simp [AL.contains, hsc], hx⟩ hboth
    have k1 := fsSynced_setEntry h n e (h.schedOnDisk n e hsc hne)
      (fun f hf _ => h.schedDigest n e f hsc hf) (h.schedUnloaded n e hsc)
    have k2 := fsSynced_eraseSched (n := n) k1 (by simp [AL.contains_set])
    exact ⟨k2, fun hnone => by simp at hnone⟩

theorem synced_fsAssign {s : State} (h : Synced s) (img : Bool) (n : String) (b : Blob)
    (hk : AL.get? (getFS s img).entries n = none → AL.get? (getFS s img).sched n = none) :
    Synced (fsAssign s img n b).1 := by
  unfold fsAssign
  simp only
  have k := h.fs img
  cases hge : AL.get? (getFS s img).entries n with
  | none =>
    simp only
    apply synced_setFS h
    apply fsSynced_setEntry k
    · have hnot : AL.contains (fsFiles s.disk img) n = false := by
        cases hx : AL.contains (fsFiles s.disk img) n with
        | false => rfl
        | true =>
          rcases k.known n ((AL_mem_keys_iff_contains _ _).2 hx) with h' | h'
          · simp [AL.contains, hge] at h'
          · simp [AL.contains, hk hge] at h'
      simp [hnot]
    · intro f hf _
      have : AL.contains (fsFiles s.disk img) n = true := by simp [AL.contains, hf]
      rcases k.known n ((AL_mem_keys_iff_contains _ _).2 this) with h' | h'
      · simp [AL.contains, hge] at h'
      · simp [AL.contains, hk hge] at h'
    · simp
  | some e0 =>
    simp only
    cases hr : fsLoad s img n with
    | error e => exact h
    | ok r =>
      obtain ⟨s2, cur⟩ := r
      obtain ⟨h2, hdisk2, _, e, hm, hg, hd⟩ := synced_fsLoad h hr
      simp only
      split
      · exact h2
      · simp only [hg]
        apply synced_setFS h2
        have k2 := h2.fs img
        apply fsSynced_setEntry k2
        · exact k2.onDisk n e hm
        · intro f hf _
          apply k2.digest n e f hm hf
          rw [hdisk2] at hf
          cases hdd : e.data with
          | none => rw [hd hdd] at hf; cases hf
          | some _ => rfl
        · simp

theorem synced_fsSet {s : State} (h : Synced s) (img : Bool) (n : String) (b : Blob) : Synced (fsSet s img n b).1 := by
  unfold fsSet
  simp only
  by_cases hboth : AL.contains (getFS s img).sched n = true ∧ AL.contains (getFS s img).entries n = true
  · simp [hboth, h]
  · simp only [hboth, if_false]
    obtain ⟨k, knone⟩ := fsSynced_unsched (h.fs img) n hboth
    have hget : getFS (setFS s img (unsched (getFS s img) n)) img = unsched (getFS s img) n := by cases img <;> rfl
    apply synced_fsAssign (synced_setFS h img _ k)
    rw [hget]
    exact knone


/-! ### touch-only external edits -/

theorem map_val_set_eq {κ α β : Type} [DecidableEq κ] (f : α → β) {l : List (κ × α)} {k : κ} {v v' : α}
    (h : AL.get? l k = some v) (hf : f v' = f v) :
    (AL.set l k v').map (fun p => (p.1, f p.2)) = l.map (fun p => (p.1, f p.2)) := by
  induction l with
  | nil => simp at h
  | cons p r ih =>
    obtain ⟨k', x⟩ := p
    by_cases e : k' = k
    · subst e
      simp at h; subst h
      simp [AL.set, hf]
    · simp [e] at h
      simp [AL.set, e, ih h]

theorem keys_set_of_get? {κ α : Type} [DecidableEq κ] {l : List (κ × α)} {k : κ} {v : α} (v' : α)
    (h : AL.get? l k = some v) : AL.keys (AL.set l k v') = AL.keys l := by
  rw [AL.keys_set]
  simp [AL.mem_keys_of_get? h]

theorem retimeFiles_touch {κ : Type} [DecidableEq κ] {files : List (κ × File)} {k : κ} {f : File} (t : Time)
    (h : AL.get? files k = some f) : retimeFiles 0 (AL.set files k ⟨f.blob, t⟩) = retimeFiles 0 files := by
  unfold retimeFiles
  exact map_val_set_eq (fun x : File => ({ x with mtime := 0 } : File)) h rfl

theorem get?_touch_blob {κ : Type} [DecidableEq κ] {files : List (κ × File)} {k : κ} {f : File} (t : Time)
    (h : AL.get? files k = some f) (x : κ) :
    (AL.get? (AL.set files k ⟨f.blob, t⟩) x).map (·.blob) = (AL.get? files x).map (·.blob) := by
  rw [AL.get?_set]
  by_cases e : k = x
  · subst e; simp [h]
  · simp [e]

theorem contains_touch {κ : Type} [DecidableEq κ] {files : List (κ × File)} {k : κ} {f : File} (t : Time)
    (h : AL.get? files k = some f) (x : κ) :
    AL.contains (AL.set files k ⟨f.blob, t⟩) x = AL.contains files x := by
  have := congrArg Option.isSome (get?_touch_blob t h x)
  simpa [AL.contains] using this

/-- `another program` touches a top-level file -/
theorem synced_touch_part {s : State} (h : Synced s) {p : Part} {f : File} (t : Time)
    (hf : AL.get? s.disk.parts p = some f) :
    Synced { s with disk := { s.disk with parts := AL.set s.disk.parts p ⟨f.blob, t⟩ } } where
  parts := by
    intro p' mp hg
    have := h.parts p' mp hg
    rw [this]
    unfold diskData
    exact (get?_touch_blob t hf p').symm
  order := h.order
  default := h.default
  layers := h.layers
  images := h.images
  data := h.data
  reader := h.reader
  nodupOrder := h.nodupOrder

theorem layerSynced_touch {ln : String} {dl : DLayer} {l : MLayer} (h : LayerSynced ln dl l) {gn : String} {f : File}
    (t : Time) (hf : AL.get? dl.glifs gn = some f) :
    LayerSynced ln { dl with glifs := AL.set dl.glifs gn ⟨f.blob, t⟩ } l where
  info := h.info
  names := by
    intro x
    simp only [keys_set_of_get? _ hf]
    exact h.names x
  disjoint := h.disjoint
  glyphs := by
    intro x g st hm hst
    obtain ⟨f0, hf0, hb⟩ := h.glyphs x g st hm hst
    have e := get?_touch_blob t hf x
    rw [hf0] at e
    cases h2 : AL.get? (AL.set dl.glifs gn ⟨f.blob, t⟩) x with
    | none => simp [h2] at e
    | some f2 => simp [h2] at e; exact ⟨f2, rfl, by rw [e, hb]⟩
  sched := by
    intro x st hg
    obtain ⟨f0, st', hf0, hst, hb⟩ := h.sched x st hg
    have e := get?_touch_blob t hf x
    rw [hf0] at e
    cases h2 : AL.get? (AL.set dl.glifs gn ⟨f.blob, t⟩) x with
    | none => simp [h2] at e
    | some f2 => simp [h2] at e; exact ⟨f2, st', rfl, hst, by rw [e, hb]⟩
  gs := by
    obtain ⟨g, h1, h2, h3, h4⟩ := h.gs
    refine ⟨g, h1, h2, h3, ?_⟩
    intro x
    simp only [keys_set_of_get? _ hf]
    exact h4 x
  loaded := h.loaded
  nodupGlyphs := h.nodupGlyphs

theorem synced_touch_glyph {s : State} (h : Synced s) {ln gn : String} {dl : DLayer} {f : File} (t : Time)
    (hdl : AL.get? s.disk.layers ln = some dl) (hf : AL.get? dl.glifs gn = some f) :
    Synced { s with disk := { s.disk with
      layers := AL.set s.disk.layers ln { dl with glifs := AL.set dl.glifs gn ⟨f.blob, t⟩ } } } where
  parts := h.parts
  order := by
    simp only [layerNames, keys_set_of_get? _ hdl]
    exact h.order
  default := h.default
  layers := by
    intro ln' hln'
    obtain ⟨l, dl', h1, h2, h3⟩ := h.layers ln' hln'
    by_cases e : ln = ln'
    · subst e
      rw [hdl] at h2
      injection h2 with h2
      subst h2
      exact ⟨l, _, h1, by simp, layerSynced_touch h3 t hf⟩
    · exact ⟨l, dl', h1, by simp [e, h2], h3⟩
  images := h.images
  data := h.data
  reader := by
    intro hz
    rw [h.reader hz]
    simp only [stripTimes, retime]
    congr 1
    exact (map_val_set_eq (fun x : DLayer => ({ x with glifs := retimeFiles 0 x.glifs } : DLayer)) hdl
      (by simp only; rw [retimeFiles_touch t hf])).symm
  nodupOrder := h.nodupOrder

theorem fsSynced_touch {files : List (String × File)} {fs : FileSet} (h : FSSynced files fs) {n : String} {f : File}
    (t : Time) (hf : AL.get? files n = some f) : FSSynced (AL.set files n ⟨f.blob, t⟩) fs where
  known := by
    intro x hx
    rw [keys_set_of_get? _ hf] at hx
    exact h.known x hx
  onDisk := by
    intro x e hm
    rw [contains_touch t hf x]
    exact h.onDisk x e hm
  digest := by
    intro x e f2 hm hf2 hd
    have e1 := get?_touch_blob t hf x
    rw [hf2] at e1
    cases h2 : AL.get? files x with
    | none => simp [h2] at e1
    | some f0 => simp [h2] at e1; rw [e1]; exact h.digest x e f0 hm h2 hd
  unloaded := h.unloaded
  schedOnDisk := by
    intro x e hg hc
    rw [contains_touch t hf x]
    exact h.schedOnDisk x e hg hc
  schedDigest := by
    intro x e f2 hg hf2
    have e1 := get?_touch_blob t hf x
    rw [hf2] at e1
    cases h2 : AL.get? files x with
    | none => simp [h2] at e1
    | some f0 => simp [h2] at e1; rw [e1]; exact h.schedDigest x e f0 hg h2
  schedUnloaded := h.schedUnloaded
  nodupSched := h.nodupSched
  nodupEntries := h.nodupEntries

theorem synced_touch_file {s : State} (h : Synced s) (img : Bool) {n : String} {f : File} (t : Time)
    (hf : AL.get? (fsFiles s.disk img) n = some f) :
    Synced { s with disk := setDiskFiles s.disk img (AL.set (fsFiles s.disk img) n ⟨f.blob, t⟩) } := by
  cases img
  · exact {
      parts := h.parts, order := h.order, default := h.default, layers := h.layers, images := h.images
      data := fsSynced_touch h.data t hf
      reader := by
        intro hz
        rw [h.reader hz]
        simp only [stripTimes, retime, setDiskFiles, fsFiles, Bool.false_eq_true, if_false]
        have hf' : AL.get? s.disk.data n = some f := hf
        rw [retimeFiles_touch t hf']
      nodupOrder := h.nodupOrder }
  · exact {
      parts := h.parts, order := h.order, default := h.default, layers := h.layers, data := h.data
      images := fsSynced_touch h.images t hf
      reader := by
        intro hz
        rw [h.reader hz]
        simp only [stripTimes, retime, setDiskFiles, fsFiles, if_true]
        have hf' : AL.get? s.disk.images n = some f := hf
        rw [retimeFiles_touch t hf']
      nodupOrder := h.nodupOrder }


/-! ### the test itself, opening the font -/

theorem get?_afterTest_layers (s : State) (L : List (String × MLayer)) (ln : String) :
    AL.get? (L.map (layerAfterTest' s)) ln =
      (AL.get? L ln).map fun l =>
        if AL.contains s.disk.layers ln = true ∧ ln ∈ s.font.order then layerAfterTest s.disk ln l else closeGS l := by
  induction L with
  | nil => rfl
  | cons p r ih =>
    obtain ⟨k, v⟩ := p
    by_cases e : k = ln
    · subst e
      unfold layerAfterTest'
      by_cases c : AL.contains s.disk.layers k = true ∧ k ∈ s.font.order <;> simp [c]
    · have : (layerAfterTest' s (k, v)).1 = k := by
        unfold layerAfterTest'; split <;> rfl
      simp only [List.map_cons]
      rw [show layerAfterTest' s (k, v) = ((layerAfterTest' s (k, v)).1, (layerAfterTest' s (k, v)).2) from rfl, this]
      simp [e, ih]

theorem synced_afterTest {s : State} (h : Synced s) : Synced (afterTest s) where
  parts := h.parts
  order := h.order
  default := h.default
  layers := by
    intro ln hln
    obtain ⟨l, dl, h1, h2, h3⟩ := h.layers ln hln
    have hc : AL.contains s.disk.layers ln = true ∧ ln ∈ s.font.order := ⟨by simp [AL.contains, h2], hln⟩
    refine ⟨layerAfterTest s.disk ln l, dl, ?_, h2, ?_⟩
    · show AL.get? (s.font.layers.map (layerAfterTest' s)) ln = _
      rw [get?_afterTest_layers, h1]
      simp [hc]
    · unfold layerAfterTest
      simp only [layerAdded_quiet h2 h3, List.foldl_nil]
      exact ⟨h3.info, h3.names, h3.disjoint, h3.glyphs, h3.sched,
        ⟨_, rfl, rfl, rfl, fun gn => mem_glifNames s.disk ln gn dl h2⟩, h3.loaded, h3.nodupGlyphs⟩
  images := h.images
  data := h.data
  reader := fun _ => rfl
  nodupOrder := h.nodupOrder

theorem synced_lastReport {s : State} (h : Synced s) (r : Option Report) : Synced { s with lastReport := r } :=
  ⟨h.parts, h.order, h.default, h.layers, h.images, h.data, h.reader, h.nodupOrder⟩

/-- a font just opened is in step with its UFO -/
theorem keys_map_entry (files : List (String × File)) :
    AL.keys (files.map fun p => (p.1, ({} : Entry))) = AL.keys files := by
  simp [AL.keys, List.map_map, Function.comp_def]

theorem synced_openFont (zip : Bool) (d : Disk) (empty : Blob) (hn : (layerNames d).Nodup)
    (hi : (AL.keys d.images).Nodup) (hd : (AL.keys d.data).Nodup) :
    Synced (openFont zip d empty) where
  parts := by
    intro p mp hg
    simp [getPart, openFont] at hg
  order := rfl
  default := rfl
  layers := by
    intro ln hln
    have hc : AL.contains d.layers ln = true := (AL_mem_keys_iff_contains _ _).1 hln
    obtain ⟨dl, hdl⟩ := AL_get?_some_of_contains hc
    refine ⟨openLayer ln dl, dl, ?_, hdl, ?_⟩
    · show AL.get? (d.layers.map fun p => (p.1, openLayer p.1 p.2)) ln = _
      rw [get?_map_key_val openLayer d.layers ln, hdl]
      rfl
    · exact {
        info := rfl
        names := by intro gn; simp [AL.contains, openLayer]
        disjoint := by intro gn _; simp [AL.contains, openLayer]
        glyphs := by intro gn g st hm; simp [openLayer] at hm
        sched := by intro gn st hg; simp [openLayer] at hg
        gs := ⟨_, rfl, rfl, rfl, fun _ => Iff.rfl⟩
        loaded := by intro gn g hm; simp [openLayer] at hm
        nodupGlyphs := by simp [openLayer, AL.keys] }
  images := {
    known := by
      intro n hn'
      left
      simp only [openFont, AL.keys, List.mem_map] at hn' ⊢
      obtain ⟨p, hp, rfl⟩ := hn'
      exact AL_contains_of_mem (List.mem_map.2 ⟨p, hp, rfl⟩)
    onDisk := by
      intro n e hm
      simp only [openFont, List.mem_map] at hm
      obtain ⟨p, hp, he⟩ := hm
      injection he with h1 h2
      subst h1; subst h2
      have : AL.contains (openFont zip d empty).disk.images p.1 = true := AL_contains_of_mem (v := p.2) hp
      simp [this]
    digest := by
      intro n e f hm _ hd
      simp only [openFont, List.mem_map] at hm
      obtain ⟨p, hp, he⟩ := hm
      injection he with h1 h2
      subst h2
      simp at hd
    unloaded := by
      intro n e hm _
      simp only [openFont, List.mem_map] at hm
      obtain ⟨p, hp, he⟩ := hm
      injection he with h1 h2
      subst h2
      rfl
    schedOnDisk := by intro n e hg; simp [openFont] at hg
    schedDigest := by intro n e f hg; simp [openFont] at hg
    schedUnloaded := by intro n e hg; simp [openFont] at hg
    nodupSched := by simp [openFont, AL.keys]
    nodupEntries := by
      show (AL.keys (d.images.map fun p => (p.1, ({} : Entry)))).Nodup
      rw [keys_map_entry]; exact hi }
  data := {
    known := by
      intro n hn'
      left
      simp only [openFont, AL.keys, List.mem_map] at hn' ⊢
      obtain ⟨p, hp, rfl⟩ := hn'
      exact AL_contains_of_mem (List.mem_map.2 ⟨p, hp, rfl⟩)
    onDisk := by
      intro n e hm
      simp only [openFont, List.mem_map] at hm
      obtain ⟨p, hp, he⟩ := hm
      injection he with h1 h2
      subst h1; subst h2
      have : AL.contains (openFont zip d empty).disk.data p.1 = true := AL_contains_of_mem (v := p.2) hp
      simp [this]
    digest := by
      intro n e f hm _ hd
      simp only [openFont, List.mem_map] at hm
      obtain ⟨p, hp, he⟩ := hm
      injection he with h1 h2
      subst h2
      simp at hd
    unloaded := by
      intro n e hm _
      simp only [openFont, List.mem_map] at hm
      obtain ⟨p, hp, he⟩ := hm
      injection he with h1 h2
      subst h2
      rfl
    schedOnDisk := by intro n e hg; simp [openFont] at hg
    schedDigest := by intro n e f hg; simp [openFont] at hg
    schedUnloaded := by intro n e hg; simp [openFont] at hg
    nodupSched := by simp [openFont, AL.keys]
    nodupEntries := by
      show (AL.keys (d.data.map fun p => (p.1, ({} : Entry)))).Nodup
      rw [keys_map_entry]; exact hd }
  reader := fun _ => rfl
  nodupOrder := hn


/-! ### save-as -/

/-- every key of the layer is loaded -/
def KeysLoaded (s : State) (ln : String) : Prop :=
  ∃ l, getLayer s ln = some l ∧ ∀ y ∈ l.keys, AL.contains l.glyphs y = true

theorem getLayer_setLayer_self (s : State) (ln : String) (l : MLayer) : getLayer (setLayer s ln l) ln = some l := by
  unfold getLayer setLayer; exact AL.get?_set_self _ _ _

theorem getLayer_setLayer_ne (s : State) {ln x : String} (l : MLayer) (h : ln ≠ x) :
    getLayer (setLayer s ln l) x = getLayer s x := by
  unfold getLayer setLayer; exact AL.get?_set_ne _ _ _ _ h

/-- what a successful `layer[gn]` changes -/
theorem getGlyph_frame {s s1 : State} {ln gn : String} {g : MGlyph} (hr : getGlyph s ln gn = .ok (s1, g)) :
    s1.font.order = s.font.order ∧ (∀ x, ln ≠ x → getLayer s1 x = getLayer s x) ∧
    ∃ l l1, getLayer s ln = some l ∧ getLayer s1 ln = some l1 ∧ AL.contains l1.glyphs gn = true ∧
      (∀ y, AL.contains l.glyphs y = true → AL.contains l1.glyphs y = true) ∧
      (∀ y, y ∈ l1.keys → y ∈ l.keys ∨ y = gn) ∧ (∀ y, y ∈ l.keys → y ∈ l1.keys) := by
  unfold getGlyph at hr
  cases hl : getLayer s ln with
  | none => simp [hl] at hr
  | some l =>
    simp only [hl] at hr
    cases hg : AL.get? l.glyphs gn with
    | some g0 =>
      simp only [hg] at hr
      injection hr with hr
      injection hr with h1 h2
      subst h1
      exact ⟨rfl, fun _ _ => rfl, l, l, rfl, hl, by simp [AL.contains, hg], fun _ h => h, fun _ h => Or.inl h,
        fun _ h => h⟩
    | none =>
      simp only [hg] at hr
      unfold loadGlyph at hr
      cases hgs : l.gs with
      | none => simp [hgs] at hr
      | some b =>
        simp only [hgs] at hr
        split at hr
        · cases hr
        · cases hrd : gsRead s b gn with
          | error e => simp [hrd] at hr
          | ok f =>
            simp only [hrd] at hr
            injection hr with hr
            injection hr with h1 h2
            subst h1
            refine ⟨rfl, fun x hx => getLayer_setLayer_ne s _ hx, l, _, rfl, getLayer_setLayer_self s ln _, ?_, ?_, ?_, ?_⟩
            · simp [AL.contains_set]
            · intro y hy; simp [AL.contains_set, hy]
            · intro y hy; exact (mem_setAdd _ _ _).1 hy
            · intro y hy; exact (mem_setAdd _ _ _).2 (Or.inl hy)

theorem keysLoaded_getGlyph {s s1 : State} {ln gn x : String} {g : MGlyph} (hr : getGlyph s ln gn = .ok (s1, g))
    (h : KeysLoaded s x) : KeysLoaded s1 x := by
  obtain ⟨_, hother, l, l1, hl, hl1, hgn, hmono, hkeys, _⟩ := getGlyph_frame hr
  by_cases e : ln = x
  · subst e
    obtain ⟨l0, hl0, hk⟩ := h
    rw [hl] at hl0
    injection hl0 with hl0
    subst hl0
    refine ⟨l1, hl1, ?_⟩
    intro y hy
    rcases hkeys y hy with h1 | h1
    · exact hmono y (hk y h1)
    · subst h1; exact hgn
  · obtain ⟨l0, hl0, hk⟩ := h
    exact ⟨l0, by rw [hother x e]; exact hl0, hk⟩

/-- `for glyph in self: pass`, on a font in step -/
theorem loadGlyphs_spec {ln : String} (names : List String) :
    ∀ {s s1 : State}, Synced s → loadGlyphs ln s names = .ok s1 →
      Synced s1 ∧ s1.font.order = s.font.order ∧ (∀ x, KeysLoaded s x → KeysLoaded s1 x) ∧
      (names ≠ [] → ∃ l l1, getLayer s ln = some l ∧ getLayer s1 ln = some l1 ∧
        (∀ y ∈ names, AL.contains l1.glyphs y = true) ∧
        (∀ y, AL.contains l.glyphs y = true → AL.contains l1.glyphs y = true) ∧
        (∀ y, y ∈ l1.keys → y ∈ l.keys ∨ y ∈ names)) := by
  induction names with
  | nil =>
    intro s s1 h hr
    simp only [loadGlyphs] at hr
    injection hr with hr
    subst hr
    exact ⟨h, rfl, fun _ hx => hx, fun hne => absurd rfl hne⟩
  | cons gn rest ih =>
    intro s s1 h hr
    simp only [loadGlyphs] at hr
    cases hg : getGlyph s ln gn with
    | error e => simp [hg] at hr
    | ok r =>
      obtain ⟨sa, g⟩ := r
      simp only [hg] at hr
      have hsa := (synced_getGlyph h hg).1
      obtain ⟨hord, hother, l, la, hl, hla, hgn, hmono, hkeys, _⟩ := getGlyph_frame hg
      obtain ⟨h1, h2, h3, h4⟩ := ih hsa hr
      refine ⟨h1, h2.trans hord, fun x hx => h3 x (keysLoaded_getGlyph hg hx), fun _ => ?_⟩
      by_cases hrest : rest = []
      · subst hrest
        simp only [loadGlyphs] at hr
        injection hr with hr
        subst hr
        refine ⟨l, la, hl, hla, ?_, hmono, ?_⟩
        · intro y hy; simp at hy; subst hy; exact hgn
        · intro y hy
          rcases hkeys y hy with h5 | h5
          · exact Or.inl h5
          · right; simp [h5]
      · obtain ⟨lb, l1, hlb, hl1, k1, k2, k3⟩ := h4 hrest
        rw [hla] at hlb
        injection hlb with hlb
        subst hlb
        refine ⟨l, l1, hl, hl1, ?_, fun y hy => k2 y (hmono y hy), ?_⟩
        · intro y hy
          simp only [List.mem_cons] at hy
          rcases hy with h5 | h5
          · subst h5; exact k2 _ hgn
          · exact k1 y h5
        · intro y hy
          rcases k3 y hy with h5 | h5
          · rcases hkeys y h5 with h6 | h6
            · exact Or.inl h6
            · right; simp [h6]
          · right; simp [h5]

theorem mem_visibleKeys (l : MLayer) (y : String) :
    y ∈ visibleKeys l ↔ y ∈ l.keys ∧ AL.contains l.sched y = false := by
  simp [visibleKeys]

theorem loadLayers_spec (names : List String) :
    ∀ {s s2 : State}, Synced s → (∀ ln ∈ names, ln ∈ s.font.order) → loadLayers s names = .ok s2 →
      Synced s2 ∧ s2.font.order = s.font.order ∧ (∀ x, KeysLoaded s x → KeysLoaded s2 x) ∧
      ∀ ln ∈ names, KeysLoaded s2 ln := by
  induction names with
  | nil =>
    intro s s2 h _ hr
    simp only [loadLayers] at hr
    injection hr with hr
    subst hr
    exact ⟨h, rfl, fun _ hx => hx, by simp⟩
  | cons ln rest ih =>
    intro s s2 h hin hr
    simp only [loadLayers] at hr
    cases hl : getLayer s ln with
    | none => simp [hl] at hr
    | some l =>
      simp only [hl] at hr
      cases hg : loadGlyphs ln s (visibleKeys l) with
      | error e => simp [hg] at hr
      | ok sa =>
        simp only [hg] at hr
        obtain ⟨hsa, hord, hkl, hspec⟩ := loadGlyphs_spec (visibleKeys l) h hg
        have hin' : ∀ x ∈ rest, x ∈ sa.font.order := by
          intro x hx; rw [hord]; exact hin x (by simp [hx])
        obtain ⟨h1, h2, h3, h4⟩ := ih hsa hin' hr
        refine ⟨h1, h2.trans hord, fun x hx => h3 x (hkl x hx), ?_⟩
        intro x hx
        simp only [List.mem_cons] at hx
        rcases hx with hx | hx
        · subst hx
          apply h3
          -- the layer just processed: every key is visible (keys and schedule are disjoint), hence loaded
          have hlnord : x ∈ s.font.order := hin x (by simp)
          obtain ⟨dl, hdl, hs⟩ := h.layerOf hlnord hl
          by_cases hv : visibleKeys l = []
          · -- no visible key: then no key at all
            simp only [loadGlyphs, hv] at hg
            injection hg with hg
            subst hg
            refine ⟨l, hl, ?_⟩
            intro y hy
            have : y ∈ visibleKeys l := (mem_visibleKeys l y).2 ⟨hy, hs.disjoint y hy⟩
            rw [hv] at this
            simp at this
          · obtain ⟨l0, la, hl0, hla, k1, k2, k3⟩ := hspec hv
            rw [hl] at hl0
            injection hl0 with hl0
            subst hl0
            refine ⟨la, hla, ?_⟩
            intro y hy
            rcases k3 y hy with h5 | h5
            · exact k1 y ((mem_visibleKeys l y).2 ⟨h5, hs.disjoint y h5⟩)
            · exact k1 y h5
        · exact h4 x hx

theorem stampW_data (zip : Bool) (tS : Time) (d : Disk) (p : Part) : (stampW zip tS d p).data = diskData d p := by
  unfold stampW diskData
  cases AL.get? d.parts p <;> rfl

theorem keys_filterMap_layerEntry (s : State) (tD : Time) (L : List String)
    (h : ∀ ln ∈ L, (getLayer s ln).isSome = true) : AL.keys (L.filterMap (saveAsLayerEntry s tD)) = L := by
  induction L with
  | nil => rfl
  | cons x r ih =>
    have hx := h x (by simp)
    cases hl : getLayer s x with
    | none => simp [hl] at hx
    | some l =>
      have : saveAsLayerEntry s tD x = some (x, saveAsDLayer tD l) := by simp [saveAsLayerEntry, hl]
      simp only [List.filterMap_cons, this, AL.keys, List.map_cons]
      have ih' := ih fun ln hln => h ln (by simp [hln])
      simp only [AL.keys] at ih'
      rw [ih']

theorem get?_filterMap_layerEntry (s : State) (tD : Time) (L : List String) {ln : String} {l : MLayer}
    (hin : ln ∈ L) (hl : getLayer s ln = some l) :
    AL.get? (L.filterMap (saveAsLayerEntry s tD)) ln = some (saveAsDLayer tD l) := by
  induction L with
  | nil => simp at hin
  | cons x r ih =>
    by_cases e : x = ln
    · subst e
      have : saveAsLayerEntry s tD x = some (x, saveAsDLayer tD l) := by simp [saveAsLayerEntry, hl]
      simp [List.filterMap_cons, this]
    · have hin' : ln ∈ r := by
        simp only [List.mem_cons] at hin
        rcases hin with h | h
        · exact absurd h.symm e
        · exact h
      cases hx : saveAsLayerEntry s tD x with
      | none => simp [List.filterMap_cons, hx, ih hin']
      | some q =>
        have hq : q.1 = x := by
          unfold saveAsLayerEntry at hx
          cases hl' : getLayer s x with
          | none => simp [hl'] at hx
          | some l' => simp [hl'] at hx; rw [← hx]
        obtain ⟨k, v⟩ := q
        simp only at hq
        subst hq
        simp [List.filterMap_cons, hx, e, ih hin']

theorem keys_map_saveAsGlif (tD : Time) (gl : List (String × MGlyph)) : AL.keys (gl.map (saveAsGlif tD)) = AL.keys gl := by
  simp [AL.keys, List.map_map, Function.comp_def, saveAsGlif]

theorem keys_map_saveAsGlyph (tM : Time) (gl : List (String × MGlyph)) : AL.keys (gl.map (saveAsGlyph tM)) = AL.keys gl := by
  simp [AL.keys, List.map_map, Function.comp_def, saveAsGlyph]

theorem get?_map_saveAsGlif (tD : Time) (gl : List (String × MGlyph)) (gn : String) :
    AL.get? (gl.map (saveAsGlif tD)) gn = (AL.get? gl gn).map fun g => (⟨g.value, tD⟩ : File) :=
  AL.get?_map_val (fun g : MGlyph => (⟨g.value, tD⟩ : File)) gl gn

theorem mem_keys_exists {κ α : Type} [DecidableEq κ] {l : List (κ × α)} {k : κ} (h : k ∈ AL.keys l) : ∃ v, (k, v) ∈ l := by
  simp only [AL.keys, List.mem_map] at h
  obtain ⟨⟨k', v⟩, hm, rfl⟩ := h
  exact ⟨v, hm⟩

/-- the layer a save-as leaves, against the directory it wrote -/
theorem layerSynced_saveAs {ln : String} {dl : DLayer} {l : MLayer} (hs : LayerSynced ln dl l)
    (hk : ∀ y ∈ l.keys, AL.contains l.glyphs y = true) (tD tM : Time) :
    LayerSynced ln (saveAsDLayer tD l) (saveAsMLayer tM ln l) where
  info := rfl
  names := by
    intro gn
    simp only [saveAsDLayer, saveAsMLayer, keys_map_saveAsGlif]
    constructor
    · intro h
      obtain ⟨g, hg⟩ := mem_keys_exists h
      exact Or.inl (hs.loaded gn g hg)
    · rintro (h | h)
      · exact (AL_mem_keys_iff_contains _ _).2 (hk gn h)
      · simp [AL.contains] at h
  disjoint := by intro gn _; simp [saveAsMLayer, AL.contains]
  glyphs := by
    intro gn g' st hm hst
    simp only [saveAsMLayer, List.mem_map] at hm
    obtain ⟨⟨k, g⟩, hg, he⟩ := hm
    simp only [saveAsGlyph, Prod.mk.injEq] at he
    obtain ⟨rfl, rfl⟩ := he
    simp only at hst
    injection hst with hst
    subst hst
    refine ⟨⟨g.value, tD⟩, ?_, rfl⟩
    simp only [saveAsDLayer]
    rw [get?_map_saveAsGlif, AL.get?_of_mem_nodup hs.nodupGlyphs hg]
    rfl
  sched := by intro gn st hg; simp [saveAsMLayer] at hg
  gs := ⟨_, rfl, rfl, rfl, fun gn => by simp [saveAsDLayer, keys_map_saveAsGlif]⟩
  loaded := by
    intro gn g' hm
    simp only [saveAsMLayer, List.mem_map] at hm
    obtain ⟨⟨k, g⟩, hg, he⟩ := hm
    simp only [saveAsGlyph, Prod.mk.injEq] at he
    obtain ⟨rfl, _⟩ := he
    exact hs.loaded _ g hg
  nodupGlyphs := by
    simp only [saveAsMLayer, keys_map_saveAsGlyph]
    exact hs.nodupGlyphs

/-! #### images and data written by a save-as -/

theorem saveAsEntry_fst (tM : Time) (p : String × Entry) : (saveAsEntry tM p).1 = p.1 := by
  unfold saveAsEntry; split <;> rfl

theorem keys_map_saveAsEntry (tM : Time) (en : List (String × Entry)) :
    AL.keys (en.map (saveAsEntry tM)) = AL.keys en := by
  simp [AL.keys, List.map_map, Function.comp_def, saveAsEntry_fst]

theorem get?_filterMap_saveAsFile (old : List (String × File)) (tD : Time) (en : List (String × Entry)) {n : String}
    {e : Entry} (hn : (AL.keys en).Nodup) (hm : (n, e) ∈ en) :
    AL.get? (en.filterMap (saveAsFile old tD)) n = (saveAsFile old tD (n, e)).map (·.2) := by
  induction en with
  | nil => simp at hm
  | cons x r ih =>
    obtain ⟨k, v⟩ := x
    simp only [AL.keys, List.map_cons, List.nodup_cons] at hn
    have hkey : ∀ q, saveAsFile old tD (k, v) = some q → q.1 = k := by
      intro q hq
      unfold saveAsFile at hq
      cases hd : v.data with
      | some b => simp [hd] at hq; rw [← hq]
      | none =>
        simp only [hd] at hq
        cases ho : AL.get? old k with
        | none => simp [ho] at hq
        | some f => simp [ho] at hq; rw [← hq]
    simp only [List.mem_cons, Prod.mk.injEq] at hm
    rcases hm with ⟨h1, h2⟩ | hm
    · subst h1; subst h2
      cases hs : saveAsFile old tD (n, e) with
      | none =>
        simp only [List.filterMap_cons, hs, Option.map_none]
        -- no later entry has this name
        apply AL.get?_eq_none_of_not_mem
        intro hc
        obtain ⟨f, hf⟩ := mem_keys_exists hc
        rw [List.mem_filterMap] at hf
        obtain ⟨⟨k2, v2⟩, hm2, hq2⟩ := hf
        have : k2 = n := by
          have := hkey
          unfold saveAsFile at hq2
          cases hd : v2.data with
          | some b => simp [hd] at hq2; exact hq2.1
          | none =>
            simp only [hd] at hq2
            cases ho : AL.get? old k2 with
            | none => simp [ho] at hq2
            | some f2 => simp [ho] at hq2; exact hq2.1
        subst this
        exact hn.1 (List.mem_map.2 ⟨(k2, v2), hm2, rfl⟩)
      | some q =>
        have := hkey q hs
        obtain ⟨k2, f2⟩ := q
        simp only at this
        subst this
        simp [List.filterMap_cons, hs]
    · have hne : k ≠ n := by
        intro e2; subst e2
        exact hn.1 (List.mem_map.2 ⟨(k, e), hm, rfl⟩)
      have ih' := ih (by simpa [AL.keys] using hn.2) hm
      cases hs : saveAsFile old tD (k, v) with
      | none => simp [List.filterMap_cons, hs, ih']
      | some q =>
        have := hkey q hs
        obtain ⟨k2, f2⟩ := q
        simp only at this
        subst this
        simp [List.filterMap_cons, hs, hne, ih']

theorem mem_filterMap_saveAsFile {old : List (String × File)} {tD : Time} {en : List (String × Entry)} {n : String}
    (h : n ∈ AL.keys (en.filterMap (saveAsFile old tD))) : ∃ e, (n, e) ∈ en := by
  obtain ⟨f, hf⟩ := mem_keys_exists h
  rw [List.mem_filterMap] at hf
  obtain ⟨⟨k, v⟩, hm, hq⟩ := hf
  have : k = n := by
    unfold saveAsFile at hq
    cases hd : v.data with
    | some b => simp [hd] at hq; exact hq.1
    | none =>
      simp only [hd] at hq
      cases ho : AL.get? old k with
      | none => simp [ho] at hq
      | some f2 => simp [ho] at hq; exact hq.1
  subst this
  exact ⟨v, hm⟩

/-- the image / data set a save-as leaves, against the directory it wrote -/
theorem fsSynced_saveAs {old : List (String × File)} {fs : FileSet} (h : FSSynced old fs) (tD tM : Time) :
    FSSynced (fs.entries.filterMap (saveAsFile old tD)) (saveAsFS tM fs) where
  known := by
    intro n hn
    left
    obtain ⟨e, he⟩ := mem_filterMap_saveAsFile hn
    have hmem : (saveAsEntry tM (n, e)) ∈ fs.entries.map (saveAsEntry tM) := List.mem_map.2 ⟨(n, e), he, rfl⟩
    have hk : (saveAsEntry tM (n, e)).1 = n := saveAsEntry_fst tM (n, e)
    have hpair : saveAsEntry tM (n, e) = (n, (saveAsEntry tM (n, e)).2) := by
      apply Prod.ext
      · exact hk
      · rfl
    rw [hpair] at hmem
    exact AL_contains_of_mem hmem
  onDisk := by
    intro n e' hm
    simp only [saveAsFS, List.mem_map] at hm
    obtain ⟨⟨k, e⟩, he, hq⟩ := hm
    have hk : k = n := by have := saveAsEntry_fst tM (k, e); rw [hq] at this; exact this.symm
    subst hk
    have hget := get?_filterMap_saveAsFile old tD fs.entries h.nodupEntries he
    unfold AL.contains
    rw [hget]
    unfold saveAsEntry at hq
    unfold saveAsFile
    cases hd : e.data with
    | some b =>
      simp only [hd, Prod.mk.injEq, true_and] at hq
      subst hq
      simp
    | none =>
      simp only [hd, Prod.mk.injEq, true_and] at hq
      subst hq
      have := h.onDisk k e he
      simp only [AL.contains] at this
      simp only [Option.map_map]
      rw [this]
      cases AL.get? old k <;> simp
  digest := by
    intro n e' f hm hf hd'
    simp only [saveAsFS, List.mem_map] at hm
    obtain ⟨⟨k, e⟩, he, hq⟩ := hm
    have hk : k = n := by have := saveAsEntry_fst tM (k, e); rw [hq] at this; exact this.symm
    subst hk
    rw [get?_filterMap_saveAsFile old tD fs.entries h.nodupEntries he] at hf
    unfold saveAsEntry at hq
    unfold saveAsFile at hf
    cases hd : e.data with
    | some b =>
      simp only [hd, Prod.mk.injEq, true_and] at hq
      subst hq
      simp only [hd, Option.map_some, Option.some.injEq] at hf
      subst hf
      rfl
    | none =>
      simp only [hd, Prod.mk.injEq, true_and] at hq
      subst hq
      simp [hd] at hd'
  unloaded := by
    intro n e' hm hd'
    simp only [saveAsFS, List.mem_map] at hm
    obtain ⟨⟨k, e⟩, he, hq⟩ := hm
    unfold saveAsEntry at hq
    cases hd : e.data with
    | some b =>
      simp only [hd, Prod.mk.injEq] at hq
      obtain ⟨_, hq⟩ := hq
      subst hq
      rfl
    | none =>
      simp only [hd, Prod.mk.injEq] at hq
      obtain ⟨_, hq⟩ := hq
      subst hq
      exact h.unloaded k e he hd
  schedOnDisk := by intro n e hg; simp [saveAsFS] at hg
  schedDigest := by intro n e f hg; simp [saveAsFS] at hg
  schedUnloaded := by intro n e hg; simp [saveAsFS] at hg
  nodupSched := by simp [saveAsFS, AL.keys]
  nodupEntries := by
    simp only [saveAsFS, keys_map_saveAsEntry]
    exact h.nodupEntries

theorem retimeFiles_retimeFiles {κ : Type} (t u : Time) (files : List (κ × File)) :
    retimeFiles u (retimeFiles t files) = retimeFiles u files := by
  simp [retimeFiles, List.map_map, Function.comp_def]

theorem stripTimes_retime (t : Time) (d : Disk) : stripTimes (retime t d) = stripTimes d := by
  simp [stripTimes, retime, retimeFiles_retimeFiles, List.map_map, Function.comp_def]

theorem synced_loadAllParts {s : State} (h : Synced s) : Synced (allParts.foldl loadPart s) := by
  simp only [allParts, List.foldl]
  exact synced_loadPart (synced_loadPart (synced_loadPart (synced_loadPart (synced_loadPart h _) _) _) _) _

/-- SAVE-AS.  A save-as from a font in step leaves a font in step with the UFO it wrote. -/
theorem synced_saveAs {s s' : State} (h : Synced s) {tD tS : Time} (hr : saveAs s tD tS = .ok s') : Synced s' := by
  unfold saveAs at hr
  simp only at hr
  have h1 := synced_loadAllParts h
  cases hl : loadLayers (allParts.foldl loadPart s) (allParts.foldl loadPart s).font.order with
  | error e => simp [hl] at hr
  | ok s2 =>
    simp only [hl] at hr
    injection hr with hr
    subst hr
    obtain ⟨h2, _, _, hkl⟩ := loadLayers_spec _ h1 (fun _ hx => hx) hl
    have hkl2 : ∀ ln ∈ s2.font.order, KeysLoaded s2 ln := by
      intro ln hln
      apply hkl
      have : s2.font.order = (allParts.foldl loadPart s).font.order := by
        obtain ⟨_, ho, _, _⟩ := loadLayers_spec _ h1 (fun _ hx => hx) hl
        exact ho
      rw [← this]; exact hln
    exact {
      parts := by
        intro p mp hg
        have hg' : AL.get? (s2.font.parts.map fun q =>
            (q.1, ({ q.2 with dirty := false, stamp := stampW s.zip tS (saveAsDisk s2 tD) q.1 } : MPart))) p = some mp := hg
        rw [get?_map_key_val (fun k (v : MPart) =>
            ({ v with dirty := false, stamp := stampW s.zip tS (saveAsDisk s2 tD) k } : MPart))] at hg'
        cases hp : AL.get? s2.font.parts p with
        | none => simp [hp] at hg'
        | some mp0 =>
          simp [hp] at hg'
          subst hg'
          exact stampW_data _ _ _ _
      order := by
        show s2.font.order = AL.keys (s2.font.order.filterMap (saveAsLayerEntry s2 tD))
        rw [keys_filterMap_layerEntry]
        intro ln hln
        obtain ⟨l, hl', _⟩ := hkl2 ln hln
        simp [hl']
      default := rfl
      layers := by
        intro ln hln
        have hln' : ln ∈ s2.font.order := hln
        obtain ⟨l, hl', hk⟩ := hkl2 ln hln'
        obtain ⟨dl, _, hs⟩ := h2.layerOf hln' hl'
        refine ⟨saveAsMLayer (if s.zip then tS else tD) ln l, saveAsDLayer tD l, ?_, ?_, ?_⟩
        · show AL.get? (s2.font.layers.map fun q => (q.1, saveAsMLayer (if s.zip then tS else tD) q.1 q.2)) ln = _
          rw [get?_map_key_val (fun k (v : MLayer) => saveAsMLayer (if s.zip then tS else tD) k v)]
          unfold getLayer at hl'
          rw [hl']
          rfl
        · exact get?_filterMap_layerEntry s2 tD s2.font.order hln' hl'
        · exact layerSynced_saveAs hs hk _ _
      images := fsSynced_saveAs h2.images tD _
      data := fsSynced_saveAs h2.data tD _
      reader := by
        intro _
        show stripTimes (if s.zip then retime tS (saveAsDisk s2 tD) else saveAsDisk s2 tD) = stripTimes (saveAsDisk s2 tD)
        cases s.zip
        · rfl
        · exact stripTimes_retime _ _
      nodupOrder := h2.nodupOrder }

theorem step_saveas (s : State) (tD tS : Time) : (step s (.saveas tD tS)).1 =
    (match saveAs s tD tS with
      | .ok s1 => s1
      | .error _ => s) := by
  show (match saveAs s tD tS with
      | .ok s1 => (s1, Res.disk)
      | .error e => (s, Res.err e)).1 = _
  cases saveAs s tD tS with
  | error e => rfl
  | ok r => rfl

/-- after a save-as nothing is scheduled for deletion any more -/
theorem saveAs_sched {s s' : State} {tD tS : Time} (hr : saveAs s tD tS = .ok s') :
    (∀ ln l, getLayer s' ln = some l → l.sched = []) ∧ s'.font.images.sched = [] ∧ s'.font.data.sched = [] := by
  unfold saveAs at hr
  simp only at hr
  cases hl : loadLayers (allParts.foldl loadPart s) (allParts.foldl loadPart s).font.order with
  | error e => simp [hl] at hr
  | ok s2 =>
    simp only [hl] at hr
    injection hr with hr
    subst hr
    refine ⟨?_, rfl, rfl⟩
    intro ln l hg
    have hg' : AL.get? (s2.font.layers.map fun q => (q.1, saveAsMLayer (if s.zip then tS else tD) q.1 q.2)) ln = some l := hg
    rw [get?_map_key_val (fun k (v : MLayer) => saveAsMLayer (if s.zip then tS else tD) k v)] at hg'
    cases hp : AL.get? s2.font.layers ln with
    | none => simp [hp] at hg'
    | some l0 =>
      simp [hp] at hg'
      subst hg'
      rfl

/-! ### every quiet operation keeps the font in step -/

theorem synced_xFile_touch_parts {s : State} (h : Synced s) {p : Part} {t : Option Time} {ps : List (Part × File)}
    (hx : xFile s.zip s.disk.parts p .touch t = some ps) : Synced { s with disk := { s.disk with parts := ps } } := by
  unfold xFile at hx
  simp only at hx
  cases hf : AL.get? s.disk.parts p with
  | none => simp [hf] at hx
  | some f =>
    simp only [hf] at hx
    injection hx with hx
    subst hx
    exact synced_touch_part h _ hf

theorem step_gget (s : State) (ln gn : String) : (step s (.gget ln gn)).1 =
    (match getGlyph s ln gn with
      | .ok (s1, _) => s1
      | .error _ => s) := by
  show (match getGlyph s ln gn with
      | .ok (s1, g) => (s1, Res.blob g.value)
      | .error e => (s, Res.err e)).1 = _
  cases getGlyph s ln gn with
  | error e => rfl
  | ok r => rfl

theorem step_fget (s : State) (img : Bool) (n : String) : (step s (.fget img n)).1 =
    (match fsLoad s img n with
      | .ok (s1, _) => s1
      | .error _ => s) := by
  show (match fsLoad s img n with
      | .ok (s1, b) => (s1, Res.oblob b)
      | .error e => (s, Res.err e)).1 = _
  cases fsLoad s img n with
  | error e => rfl
  | ok r => rfl

theorem ofExcept_fst (s : State) (r : Except Err State) : (ofExcept s r).1 =
    (match r with
      | .ok s' => s'
      | .error _ => s) := by
  cases r <;> rfl

theorem ofPair_fst (r : State × Option Err) : (ofPair r).1 = r.1 := by
  obtain ⟨a, b⟩ := r
  cases b <;> rfl

theorem ofDisk_fst (s : State) (d : Option Disk) : (ofDisk s d).1 =
    (match d with
      | some d' => { s with disk := d' }
      | none => s) := by
  cases d <;> rfl

/-- every quiet operation other than the in-place save (for which see `Lemmas/ExtSave.lean`) -/
theorem synced_step_nosave {s : State} (h : Synced s) (op : Op) (hq : Quiet op) (hs : ∀ a b, op ≠ .save a b) :
    Synced (step s op).1 := by
  cases op with
  | touch p => exact synced_loadPart h p
  | pset p v => exact synced_psetPart h p v
  | gget ln gn =>
    rw [step_gget]
    cases hr : getGlyph s ln gn with
    | error e => exact h
    | ok r => obtain ⟨s1, g⟩ := r; exact (synced_getGlyph h hr).1
  | gset ln gn v =>
    show Synced (ofExcept s (setGlyph s ln gn v)).1
    rw [ofExcept_fst]
    cases hr : setGlyph s ln gn v with
    | error e => exact h
    | ok s1 => exact synced_setGlyph h hr
  | gdel ln gn =>
    show Synced (ofPair (delGlyph s ln gn)).1
    rw [ofPair_fst]
    exact synced_delGlyph h ln gn
  | lset ln v =>
    show Synced (ofExcept s (setLayerInfo s ln v)).1
    rw [ofExcept_fst]
    cases hr : setLayerInfo s ln v with
    | error e => exact h
    | ok s1 => exact synced_setLayerInfo h hr
  | fget img n =>
    rw [step_fget]
    cases hr : fsLoad s img n with
    | error e => exact h
    | ok r => obtain ⟨s1, b⟩ := r; exact (synced_fsLoad h hr).1
  | fset img n b =>
    cases b with
    | some b =>
      show Synced (ofPair (fsSet s img n b)).1
      rw [ofPair_fst]
      exact synced_fsSet h img n b
    | none =>
      show Synced (ofPair (fsDel s img n)).1
      rw [ofPair_fst]
      exact synced_fsDel h img n
  | xpart p a t =>
    cases a with
    | write b => exact absurd hq (by simp [Quiet])
    | delete => exact absurd hq (by simp [Quiet])
    | touch =>
      show Synced (ofDisk s (xPart s.zip s.disk p .touch t)).1
      rw [ofDisk_fst]
      unfold xPart
      simp only
      cases hx : xFile s.zip s.disk.parts p .touch t with
      | none => exact h
      | some ps => exact synced_xFile_touch_parts h hx
  | xglyph ln gn a t =>
    cases a with
    | write b => exact absurd hq (by simp [Quiet])
    | delete => exact absurd hq (by simp [Quiet])
    | touch =>
      show Synced (ofDisk s (xGlyph s.zip s.disk ln gn .touch t)).1
      rw [ofDisk_fst]
      unfold xGlyph
      cases hdl : AL.get? s.disk.layers ln with
      | none => exact h
      | some dl =>
        simp only
        cases t with
        | none => exact h
        | some k =>
          simp only [xFile]
          cases hf : AL.get? dl.glifs gn with
          | none => exact h
          | some f => exact synced_touch_glyph h _ hdl hf
  | xfile img n a t =>
    cases a with
    | write b => exact absurd hq (by simp [Quiet])
    | delete => exact absurd hq (by simp [Quiet])
    | touch =>
      show Synced (ofDisk s (xSetFile s.zip s.disk img n .touch t)).1
      rw [ofDisk_fst]
      simp only [xSetFile, xFile]
      cases hf : AL.get? (fsFiles s.disk img) n with
      | none => exact h
      | some f => exact synced_touch_file h img _ hf
  | test =>
    show Synced ({ afterTest s with lastReport := some (report s) })
    exact synced_lastReport (synced_afterTest h) _
  | reloadpart p => exact synced_reloadPart h p
  | gnew _ _ => exact absurd hq (by simp [Quiet])
  | grename _ _ _ => exact absurd hq (by simp [Quiet])
  | lnew _ => exact absurd hq (by simp [Quiet])
  | ldel _ => exact absurd hq (by simp [Quiet])
  | lorder _ => exact absurd hq (by simp [Quiet])
  | ldefault _ => exact absurd hq (by simp [Quiet])
  | save a b => exact absurd rfl (hs a b)
  | saveas tD tS =>
    rw [step_saveas]
    cases hr : saveAs s tD tS with
    | error e => exact h
    | ok s1 => exact synced_saveAs h hr
  | xlinfo _ _ => exact absurd hq (by simp [Quiet])
  | xladd _ _ _ => exact absurd hq (by simp [Quiet])
  | xldel _ => exact absurd hq (by simp [Quiet])
  | xlorder _ => exact absurd hq (by simp [Quiet])
  | xldefault _ => exact absurd hq (by simp [Quiet])
  | reload => exact absurd hq (by simp [Quiet])
  | acceptdel => exact absurd hq (by simp [Quiet])
  | reloadglyphs _ _ => exact absurd hq (by simp [Quiet])
  | reloadfiles _ _ => exact absurd hq (by simp [Quiet])

theorem synced_run_nosave {s : State} (h : Synced s) (ops : List Op) (hq : ∀ op ∈ ops, Quiet op)
    (hs : ∀ op ∈ ops, ∀ a b, op ≠ .save a b) : Synced (run s ops) := by
  induction ops generalizing s with
  | nil => exact h
  | cons op rest ih =>
    simp only [run, List.foldl_cons]
    exact ih (synced_step_nosave h op (hq op (by simp)) (hs op (by simp))) (fun o ho => hq o (by simp [ho]))
      (fun o ho => hs o (by simp [ho]))


/-! ## Exactness: what each entry of the report means -/

theorem mem_layerModified_iff (d : Disk) (ln : String) (l : MLayer) (gn : String) :
    gn ∈ layerModified d ln l ↔
      ∃ g f st, (gn, g) ∈ l.glyphs ∧ glifOf d ln gn = some f ∧ g.stamp = some st ∧
        f.mtime ≠ st.mtime ∧ f.blob ≠ st.blob := by
  unfold layerModified
  rw [List.mem_filterMap]
  constructor
  · rintro ⟨⟨n, g⟩, hm, hr⟩
    unfold isModifiedGlyph at hr
    simp only at hr
    cases hf : glifOf d ln n with
    | none => simp [hf] at hr
    | some f =>
      cases hs : g.stamp with
      | none => simp [hf, hs] at hr
      | some st =>
        simp only [hf, hs] at hr
        by_cases hc : fileChanged f st = true
        · simp only [hc, if_true] at hr
          injection hr with hr
          subst hr
          simp only [fileChanged, Bool.and_eq_true, bne_iff_ne, ne_eq] at hc
          exact ⟨g, f, st, hm, hf, hs, hc.1, hc.2⟩
        · simp [hc] at hr
  · rintro ⟨g, f, st, hm, hf, hs, h1, h2⟩
    refine ⟨(gn, g), hm, ?_⟩
    unfold isModifiedGlyph
    simp [hf, hs, fileChanged, h1, h2]

theorem mem_layerAdded_iff (d : Disk) (ln : String) (l : MLayer) (gn : String) :
    gn ∈ layerAdded d ln l ↔
      gn ∈ glifNames d ln ∧ gn ∉ l.keys ∧
        (AL.get? l.sched gn = none ∨ AL.get? l.sched gn = some none ∨
          ∃ st f, AL.get? l.sched gn = some (some st) ∧ glifOf d ln gn = some f ∧
            f.mtime ≠ st.mtime ∧ f.blob ≠ st.blob) := by
  unfold layerAdded
  rw [List.mem_filter]
  unfold isAddedGlyph
  constructor
  · rintro ⟨h1, h2⟩
    simp only [Bool.and_eq_true, decide_eq_true_eq] at h2
    refine ⟨h1, h2.1, ?_⟩
    have h3 := h2.2
    cases hs : AL.get? l.sched gn with
    | none => exact Or.inl rfl
    | some o =>
      cases o with
      | none => exact Or.inr (Or.inl rfl)
      | some st =>
        right; right
        simp only [hs] at h3
        cases hf : glifOf d ln gn with
        | none => simp [hf] at h3
        | some f =>
          simp only [hf, fileChanged, Bool.and_eq_true, bne_iff_ne, ne_eq] at h3
          exact ⟨st, f, rfl, rfl, h3.1, h3.2⟩
  · rintro ⟨h1, h2, h3⟩
    refine ⟨h1, ?_⟩
    simp only [Bool.and_eq_true, decide_eq_true_eq]
    refine ⟨h2, ?_⟩
    rcases h3 with h3 | h3 | ⟨st, f, h3, h4, h5, h6⟩
    · simp [h3]
    · simp [h3]
    · simp [h3, h4, fileChanged, h5, h6]

theorem mem_layerDeleted_iff (d : Disk) (ln : String) (l : MLayer) (gn : String) :
    gn ∈ layerDeleted d ln l ↔ gn ∈ l.keys ∧ gn ∉ glifNames d ln := by
  simp [layerDeleted]

theorem mem_fsModified_iff (files : List (String × File)) (fs : FileSet) (n : String) :
    n ∈ (fsTest files fs).modified ↔
      ∃ e f b, (n, e) ∈ fs.entries ∧ AL.get? files n = some f ∧ e.data = some b ∧
        e.modTime ≠ some f.mtime ∧ e.digest ≠ some f.blob := by
  unfold fsTest
  simp only
  rw [List.mem_filterMap]
  constructor
  · rintro ⟨⟨k, e⟩, hm, hr⟩
    unfold isModifiedFile at hr
    simp only at hr
    cases hf : AL.get? files k with
    | none => simp [hf] at hr
    | some f =>
      cases hd : e.data with
      | none => simp [hf, hd] at hr
      | some b =>
        simp only [hf, hd] at hr
        by_cases hc : e.modTime ≠ some f.mtime ∧ e.digest ≠ some f.blob
        · rw [if_pos hc] at hr
          injection hr with hr
          subst hr
          exact ⟨e, f, b, hm, hf, hd, hc.1, hc.2⟩
        · rw [if_neg hc] at hr
          cases hr
  · rintro ⟨e, f, b, hm, hf, hd, h1, h2⟩
    refine ⟨(n, e), hm, ?_⟩
    unfold isModifiedFile
    simp [hf, hd, h1, h2]

theorem mem_fsDeleted_iff (files : List (String × File)) (fs : FileSet) (n : String) :
    n ∈ (fsTest files fs).deleted ↔ ∃ e, (n, e) ∈ fs.entries ∧ AL.contains files n = false ∧ e.onDisk = true := by
  unfold fsTest
  simp only
  rw [List.mem_filterMap]
  constructor
  · rintro ⟨⟨k, e⟩, hm, hr⟩
    unfold isDeletedFile at hr
    simp only at hr
    by_cases hc : AL.contains files k = false ∧ e.onDisk = true
    · rw [if_pos hc] at hr
      injection hr with hr
      subst hr
      exact ⟨e, hm, hc.1, hc.2⟩
    · rw [if_neg hc] at hr
      cases hr
  · rintro ⟨e, hm, h1, h2⟩
    refine ⟨(n, e), hm, ?_⟩
    unfold isDeletedFile
    simp [h1, h2]

theorem mem_fsAdded_iff (files : List (String × File)) (fs : FileSet) (n : String) :
    n ∈ (fsTest files fs).added ↔
      n ∈ AL.keys files ∧ AL.contains fs.entries n = false ∧
        (AL.get? fs.sched n = none ∨
          ∃ e, AL.get? fs.sched n = some e ∧
            (e.onDisk = false ∨ ∃ f, AL.get? files n = some f ∧ e.modTime ≠ some f.mtime ∧ e.digest ≠ some f.blob)) := by
  unfold fsTest
  simp only
  rw [List.mem_filter]
  unfold isAddedFile
  constructor
  · rintro ⟨h1, h2⟩
    simp only [Bool.and_eq_true, Bool.not_eq_true'] at h2
    refine ⟨h1, h2.1, ?_⟩
    have h3 := h2.2
    cases hs : AL.get? fs.sched n with
    | none => exact Or.inl rfl
    | some e =>
      right
      refine ⟨e, rfl, ?_⟩
      simp only [hs, Bool.or_eq_true, Bool.not_eq_true'] at h3
      rcases h3 with h3 | h3
      · exact Or.inl h3
      · right
        cases hf : AL.get? files n with
        | none => simp [hf] at h3
        | some f =>
          simp only [hf, Bool.and_eq_true, decide_eq_true_eq] at h3
          exact ⟨f, rfl, h3.1, h3.2⟩
  · rintro ⟨h1, h2, h3⟩
    refine ⟨h1, ?_⟩
    simp only [Bool.and_eq_true, Bool.not_eq_true']
    refine ⟨h2, ?_⟩
    rcases h3 with h3 | ⟨e, h3, h4⟩
    · simp [h3]
    · simp only [h3, Bool.or_eq_true, Bool.not_eq_true']
      rcases h4 with h4 | ⟨f, h4, h5, h6⟩
      · exact Or.inl h4
      · right; simp [h4, h5, h6]

theorem mem_layersAdded_iff (s : State) (ln : String) :
    ln ∈ layersAdded s ↔ ln ∈ layerNames s.disk ∧ ln ∉ s.font.order ∧ Action.delete ln ∉ s.font.history := by
  simp [layersAdded, wasDeletedInMemory]

theorem mem_layersDeleted_iff (s : State) (ln : String) :
    ln ∈ layersDeleted s ↔ ln ∈ s.font.order ∧ ln ∉ layerNames s.disk := by
  simp [layersDeleted]


/-! ## Completeness: one external edit of a top-level file, seen from a font in step -/

theorem xFile_frame {κ : Type} [DecidableEq κ] {zip : Bool} {files fs' : List (κ × File)} {n : κ} {a : XAct}
    {t : Option Time} (h : xFile zip files n a t = some fs') : ∀ q, n ≠ q → AL.get? fs' q = AL.get? files q := by
  intro q hq
  unfold xFile at h
  cases a with
  | write b =>
    simp only at h
    cases ht : xTime (AL.get? files n) t with
    | none => simp [ht] at h
    | some tt => simp [ht] at h; subst h; simp [hq]
  | touch =>
    simp only at h
    cases hf : AL.get? files n with
    | none => simp [hf] at h
    | some f => simp [hf] at h; subst h; simp [hq]
  | delete =>
    simp only at h
    split at h
    · injection h with h; subst h; simp [hq]
    · cases h

theorem xPart_eq {zip : Bool} {d d' : Disk} {p : Part} {a : XAct} {t : Option Time}
    (h : xPart zip d p a t = some d') :
    d' = { d with parts := d'.parts } ∧ ∀ q, p ≠ q → AL.get? d'.parts q = AL.get? d.parts q := by
  have key : ∀ r : Option (List (Part × File)), r = xFile zip d.parts p a t →
      (r.map fun ps => ({ d with parts := ps } : Disk)) = some d' →
      d' = { d with parts := d'.parts } ∧ ∀ q, p ≠ q → AL.get? d'.parts q = AL.get? d.parts q := by
    intro r hr hm
    cases r with
    | none => simp at hm
    | some ps =>
      simp at hm
      subst hm
      exact ⟨rfl, xFile_frame hr.symm⟩
  unfold xPart at h
  split at h
  · split at h
    · cases h
    · exact key _ rfl h
  · exact key _ rfl h

theorem partChanged_congr {d d' : Disk} {p : Part} (h : AL.get? d'.parts p = AL.get? d.parts p) (st : PStamp) :
    partChanged d' p st = partChanged d p st := by
  unfold partChanged
  rw [h]

/-- From a font in step with its UFO, after another program wrote, touched, created or deleted the
top-level file of `p`: the report names nothing but possibly `p`, and `p`'s entry is the
stamp-against-file comparison. -/
theorem report_after_xpart {s : State} (h : Synced s) {p : Part} {a : XAct} {t : Option Time} {d' : Disk}
    (hx : xPart s.zip s.disk p a t = some d') :
    report { s with disk := d' } =
      { quietReport s with
        parts := allParts.map fun q =>
          (q, (getPart s q).map fun mp => if q = p then partChanged d' p mp.stamp else false) } := by
  obtain ⟨hd', hframe⟩ := xPart_eq hx
  rw [hd']
  have e1 : report { s with disk := { s.disk with parts := d'.parts } } =
      { report s with parts := partsReport { s with disk := { s.disk with parts := d'.parts } } } := rfl
  have hp : partsReport { s with disk := { s.disk with parts := d'.parts } } =
      allParts.map fun q =>
        (q, (getPart s q).map fun mp => if q = p then partChanged { s.disk with parts := d'.parts } p mp.stamp else false) := by
    unfold partsReport
    apply List.map_congr_left
    intro q _
    cases hg : getPart s q with
    | none =>
      have : getPart { s with disk := { s.disk with parts := d'.parts } } q = none := hg
      simp [this]
    | some mp =>
      have : getPart { s with disk := { s.disk with parts := d'.parts } } q = some mp := hg
      simp only [this, Option.map_some]
      by_cases e : q = p
      · subst e; simp
      · have e' : p ≠ q := fun x => e x.symm
        simp only [e, if_false]
        have hc : partChanged { s.disk with parts := d'.parts } q mp.stamp = partChanged s.disk q mp.stamp :=
          partChanged_congr (hframe q e') mp.stamp
        rw [hc, partChanged_eq_false_of_agree (h.parts q mp hg)]
  rw [e1, report_quiet h, hp]


/-! ## Reloading converges -/

theorem getPart_setPart_self (s : State) (p : Part) (mp : MPart) : getPart (setPart s p mp) p = some mp := by
  simp [getPart, setPart]

theorem getPart_setPart_ne (s : State) {p q : Part} (mp : MPart) (h : p ≠ q) :
    getPart (setPart s p mp) q = getPart s q := by
  simp [getPart, setPart, h]

theorem loadPart_disk (s : State) (p : Part) : (loadPart s p).disk = s.disk := by
  unfold loadPart
  split
  · rfl
  · cases p <;> rfl

/-- a top-level object that was not loaded holds, after its lazy getter, what is on disk -/
theorem loadPart_spec (s : State) (p : Part) (h : getPart s p = none) :
    getPart (loadPart s p) p = some ⟨readPart s.disk p, false, stampOf s.disk p⟩ := by
  unfold loadPart
  simp only [h, Option.isSome_none, Bool.false_eq_true, if_false]
  cases p
  · exact getPart_setPart_self _ _ _
  · exact getPart_setPart_self _ _ _
  · show getPart (forceLoad (forceLoad s .groups) .kerning) .groups = _
    unfold forceLoad
    rw [getPart_setPart_ne _ _ (by decide)]
    exact getPart_setPart_self _ _ _
  · exact getPart_setPart_self _ _ _
  · exact getPart_setPart_self _ _ _

theorem reloadPart_spec (s : State) (p : Part) :
    ∃ mp, getPart (reloadPart s p) p = some mp ∧ mp.value = readPart s.disk p ∧ mp.stamp = stampOf s.disk p ∧
      (reloadPart s p).disk = s.disk := by
  unfold reloadPart
  cases hg : getPart s p with
  | none =>
    simp only
    exact ⟨_, loadPart_spec s p hg, rfl, rfl, loadPart_disk s p⟩
  | some mp =>
    simp only
    exact ⟨_, getPart_setPart_self _ _ _, rfl, rfl, rfl⟩

theorem partChanged_stampOf (d : Disk) (p : Part) : partChanged d p (stampOf d p) = false :=
  partChanged_eq_false_of_agree (stampOf_data d p)

/-! ### after a test the layers are usable -/

theorem view_of_bound {s : State} {ln : String} (h : Bound s ln) : view s = s.disk := by
  unfold view
  by_cases hz : s.zip = true
  · simp [hz, h.2 hz]
  · simp [hz]

theorem test_disk (s : State) : (test s).1.disk = s.disk := rfl

theorem bound_after_test {s : State} {ln : String} {l : MLayer} (hord : ln ∈ s.font.order)
    (hdisk : AL.contains s.disk.layers ln = true) (hl : getLayer s ln = some l) : Bound (test s).1 ln := by
  refine ⟨⟨layerAfterTest s.disk ln l, ?_, rfl⟩, fun _ => rfl⟩
  show AL.get? (s.font.layers.map (layerAfterTest' s)) ln = _
  unfold getLayer at hl
  rw [get?_afterTest_layers, hl]
  simp [hdisk, hord]

theorem mem_glifNames_of_glifOf {d : Disk} {ln gn : String} {f : File} (h : glifOf d ln gn = some f) :
    gn ∈ glifNames d ln := by
  unfold glifOf at h
  unfold glifNames
  cases hl : AL.get? d.layers ln with
  | none => simp [hl] at h
  | some dl => simp only [hl] at h ⊢; exact AL.mem_keys_of_get? h

/-- a glyph that is on disk, not loaded and not scheduled for deletion can be read lazily through a
bound layer: the read succeeds and yields the file's content, stamped with the file -/
theorem lazy_read_bound {s : State} {ln gn : String} {l : MLayer} {f : File} (hb : Bound s ln)
    (hl : getLayer s ln = some l) (hun : AL.get? l.glyphs gn = none) (hsc : AL.contains l.sched gn = false)
    (hf : glifOf s.disk ln gn = some f) :
    ∃ s', getGlyph s ln gn = .ok (s', ⟨f.blob, false, some f⟩) ∧ s'.disk = s.disk := by
  obtain ⟨⟨l0, hl0, hgs⟩, _⟩ := hb
  rw [hl] at hl0
  injection hl0 with hl0
  subst hl0
  unfold getGlyph
  simp only [hl, hun]
  unfold loadGlyph
  simp only [hgs]
  have hin : gn ∈ glifNames s.disk ln := mem_glifNames_of_glifOf hf
  have hnot : ¬ (gn ∉ glifNames s.disk ln ∨ AL.contains l.sched gn = true) := by
    simp [hin, hsc]
  simp only [hnot, if_false]
  have hv : view s = s.disk := view_of_bound ⟨⟨l, hl, hgs⟩, by assumption⟩
  unfold gsRead
  simp only [Bool.not_true, Bool.false_eq_true, if_false, hv, hf]
  exact ⟨_, rfl, rfl⟩

/-- reloading a glyph whose file is on disk through a bound layer: the glyph then holds the file's
content and the file's stamp, whether it was loaded before or not -/
theorem reloadGlyph_bound {s : State} {ln gn : String} {l : MLayer} {f : File} (hb : Bound s ln)
    (hl : getLayer s ln = some l) (hok : (AL.get? l.glyphs gn).isSome ∨ AL.contains l.sched gn = false)
    (hf : glifOf s.disk ln gn = some f) :
    ∃ s' l', reloadGlyph ln s gn = (s', none) ∧ s'.disk = s.disk ∧ getLayer s' ln = some l' ∧
      AL.get? l'.glyphs gn = some ⟨f.blob, false, some f⟩ := by
  have hv : view s = s.disk := view_of_bound hb
  obtain ⟨⟨l0, hl0, hgs⟩, hz⟩ := hb
  rw [hl] at hl0
  injection hl0 with hl0
  subst hl0
  unfold reloadGlyph
  simp only [hl]
  cases hg : AL.get? l.glyphs gn with
  | none =>
    simp only
    have hsc : AL.contains l.sched gn = false := by
      rcases hok with h1 | h1
      · simp [hg] at h1
      · exact h1
    obtain ⟨s', hr, hd⟩ := lazy_read_bound ⟨⟨l, hl, hgs⟩, hz⟩ hl hg hsc hf
    unfold getGlyph at hr
    simp only [hl, hg] at hr
    rw [hr]
    simp only
    unfold loadGlyph at hr
    simp only [hgs] at hr
    split at hr
    · cases hr
    · cases hrd : gsRead s ⟨ln, glifNames s.disk ln, true⟩ gn with
      | error e => simp [hrd] at hr
      | ok f2 =>
        simp only [hrd] at hr
        injection hr with hr
        injection hr with h1 h2
        subst h1
        exact ⟨_, _, rfl, rfl, by unfold getLayer setLayer; exact AL.get?_set_self _ _ _, by
          simp only; rw [AL.get?_set_self]; exact congrArg some h2⟩
  | some g =>
    simp only [hgs]
    have hin : gn ∈ glifNames s.disk ln := mem_glifNames_of_glifOf hf
    unfold gsRead
    simp only [hin, if_true, Bool.not_true, Bool.false_eq_true, if_false, hv, hf]
    exact ⟨_, _, rfl, rfl, by unfold getLayer setLayer; exact AL.get?_set_self _ _ _, AL.get?_set_self _ _ _⟩

theorem isModifiedGlyph_of_stamp {d : Disk} {ln gn : String} {f : File} {v : Blob} {dirty : Bool}
    (hf : glifOf d ln gn = some f) : isModifiedGlyph d ln (gn, ⟨v, dirty, some f⟩) = none := by
  unfold isModifiedGlyph
  simp [hf, fileChanged]

/-- reloading an image / data file that is on disk, when the font's reader sees the disk as it is -/
theorem reloadFile_spec {s : State} (img : Bool) {n : String} {f : File} (hz : s.zip = true → s.reader = s.disk)
    (hf : AL.get? (fsFiles s.disk img) n = some f) :
    ∃ s', reloadFile img s n = (s', none) ∧ s'.disk = s.disk ∧
      AL.get? (getFS s' img).entries n = some ⟨some f.blob, false, true, some f.mtime, some f.blob⟩ := by
  have hv : view s = s.disk := by
    unfold view
    by_cases h : s.zip = true
    · simp [h, hz h]
    · simp [h]
  unfold reloadFile
  simp only
  have hview : ∀ fs, view (setFS s img fs) = s.disk := by
    intro fs
    have : view (setFS s img fs) = view s := by cases img <;> rfl
    rw [this, hv]
  have hget : ∀ fs, getFS (setFS s img fs) img = fs := by intro fs; cases img <;> rfl
  unfold fsLoad
  simp only [hget, AL.get?_set_self, hview, hf]
  refine ⟨_, rfl, ?_, ?_⟩
  · cases img <;> rfl
  · cases img <;> exact AL.get?_set_self _ _ _

theorem isModifiedFile_of_stamp {files : List (String × File)} {n : String} {f : File}
    (hf : AL.get? files n = some f) :
    isModifiedFile files (n, ⟨some f.blob, false, true, some f.mtime, some f.blob⟩) = none := by
  unfold isModifiedFile
  simp [hf]


/-! ## Completeness: one external rewrite of a loaded glyph's file, seen from a font in step -/

theorem filterMap_single {α β : Type} (f : α → Option β) {l : List α} {a : α} {y : β} (hn : l.Nodup) (ha : a ∈ l)
    (hfa : f a = some y) (hother : ∀ b ∈ l, b ≠ a → f b = none) : l.filterMap f = [y] := by
  induction l with
  | nil => simp at ha
  | cons x r ih =>
    simp only [List.nodup_cons] at hn
    by_cases e : x = a
    · subst e
      have : r.filterMap f = [] := by
        rw [List.filterMap_eq_nil_iff]
        intro b hb
        exact hother b (by simp [hb]) (fun e => hn.1 (e ▸ hb))
      simp [List.filterMap_cons, hfa, this]
    · have hx : f x = none := hother x (by simp) e
      have ha' : a ∈ r := by
        simp only [List.mem_cons] at ha
        rcases ha with h | h
        · exact absurd h.symm e
        · exact h
      simp [List.filterMap_cons, hx, ih hn.2 ha' fun b hb => hother b (by simp [hb])]

theorem filterMap_single_key {κ α β : Type} [DecidableEq κ] (f : κ × α → Option β) {l : List (κ × α)} {k : κ} {v : α}
    {y : β} (hn : (AL.keys l).Nodup) (hg : AL.get? l k = some v) (hf : f (k, v) = some y)
    (hother : ∀ p ∈ l, p.1 ≠ k → f p = none) : l.filterMap f = [y] := by
  induction l with
  | nil => simp at hg
  | cons x r ih =>
    obtain ⟨k', v'⟩ := x
    simp only [AL.keys, List.map_cons, List.nodup_cons] at hn
    by_cases e : k' = k
    · subst e
      simp at hg; subst hg
      have : r.filterMap f = [] := by
        rw [List.filterMap_eq_nil_iff]
        intro p hp
        apply hother p (by simp [hp])
        intro e
        apply hn.1
        rw [← e]
        exact List.mem_map.2 ⟨p, hp, rfl⟩
      simp [List.filterMap_cons, hf, this]
    · simp [e] at hg
      have hx : f (k', v') = none := hother (k', v') (by simp) e
      simp [List.filterMap_cons, hx, ih (by simpa [AL.keys] using hn.2) hg fun p hp => hother p (by simp [hp])]

/-- From a font in step with its UFO, after another program rewrote the file of a loaded, stamped
glyph with other bytes and another modification time: the report is the quiet report with exactly
one layer entry, whose `modified` is exactly that glyph. -/
theorem report_after_xglyph_write {s : State} (h : Synced s) {ln gn : String} {l : MLayer} {g : MGlyph} {st : File}
    {dl : DLayer} {b : Blob} {t : Time}
    (hord : ln ∈ s.font.order) (hl : getLayer s ln = some l) (hdl : AL.get? s.disk.layers ln = some dl)
    (hg : AL.get? l.glyphs gn = some g) (hst : g.stamp = some st) (hk : gn ∈ l.keys)
    (hnodup : (AL.keys l.glyphs).Nodup) (hb : b ≠ st.blob) (ht : t ≠ st.mtime) :
    report { s with disk := { s.disk with
        layers := AL.set s.disk.layers ln { dl with glifs := AL.set dl.glifs gn ⟨b, t⟩ } } } =
      { quietReport s with modified := [(ln, ⟨false, [gn], [], []⟩)] } := by
  have hs := h.layerOf' hl dl hdl
  -- the file exists
  obtain ⟨f0, hf0, _⟩ := hs.glyphs gn g st (AL.mem_of_get? hg) hst
  generalize hd' : ({ s.disk with layers := AL.set s.disk.layers ln { dl with glifs := AL.set dl.glifs gn ⟨b, t⟩ } } : Disk) = d'
  have hnames : layerNames d' = layerNames s.disk := by
    subst hd'; simp only [layerNames]; exact keys_set_of_get? _ hdl
  have hget_ne : ∀ ln', ln ≠ ln' → AL.get? d'.layers ln' = AL.get? s.disk.layers ln' := by
    intro ln' e; subst hd'; simp [e]
  have hget_self : AL.get? d'.layers ln = some { dl with glifs := AL.set dl.glifs gn ⟨b, t⟩ } := by
    subst hd'; simp
  have hq := report_quiet h
  -- the other fields are those of the quiet report
  have e1 : report { s with disk := d' } =
      { report s with modified := layersModified { s with disk := d' }
                      order := decide (layerNames d' ≠ s.font.order)
                      added := layersAdded { s with disk := d' }
                      deleted := layersDeleted { s with disk := d' } } := by
    subst hd'; rfl
  have eadded : layersAdded { s with disk := d' } = layersAdded s := by
    unfold layersAdded; simp only [hnames]
  have edeleted : layersDeleted { s with disk := d' } = layersDeleted s := by
    unfold layersDeleted; simp only [hnames]
  -- the entry of every other layer is unchanged (and absent)
  have hother : ∀ ln' ∈ s.font.order, ln' ≠ ln → layerEntry { s with disk := d' } ln' = none := by
    intro ln' hln' e
    have e' : ln ≠ ln' := fun x => e x.symm
    obtain ⟨l', dl', h1, h2, h3⟩ := h.layers ln' hln'
    unfold layerEntry
    simp only [hget_ne ln' e', h1, h2]
    have : layerRep d' ln' l' dl' = layerRep s.disk ln' l' dl' := by
      unfold layerRep layerModified layerAdded layerDeleted isModifiedGlyph isAddedGlyph glifNames glifOf
      simp only [hget_ne ln' e']
    rw [this, layerRep_quiet h2 h3]
    simp
  -- the entry of the layer concerned
  have hglif : ∀ x, gn ≠ x → glifOf d' ln x = glifOf s.disk ln x := by
    intro x e
    simp only [glifOf, hget_self, hdl]
    exact AL.get?_set_ne _ _ _ _ e
  have hglif_self : glifOf d' ln gn = some ⟨b, t⟩ := by
    simp only [glifOf, hget_self]
    exact AL.get?_set_self _ _ _
  have hgnames : glifNames d' ln = glifNames s.disk ln := by
    simp only [glifNames, hget_self, hdl]
    exact keys_set_of_get? _ hf0
  have hmod : layerModified d' ln l = [gn] := by
    unfold layerModified
    apply filterMap_single_key _ hnodup hg
    · unfold isModifiedGlyph
      simp only [hglif_self, hst, fileChanged]
      simp [hb, ht]
    · intro p hp hne
      obtain ⟨x, gx⟩ := p
      have e : gn ≠ x := fun e => hne e.symm
      have hq' := layerModified_quiet hdl hs
      unfold layerModified at hq'
      rw [List.filterMap_eq_nil_iff] at hq'
      have := hq' (x, gx) hp
      unfold isModifiedGlyph at this ⊢
      simp only [hglif x e]
      exact this
  have hadd : layerAdded d' ln l = [] := by
    unfold layerAdded
    rw [hgnames, List.filter_eq_nil_iff]
    intro x hx
    have hq' := layerAdded_quiet hdl hs
    unfold layerAdded at hq'
    rw [List.filter_eq_nil_iff] at hq'
    have hx' := hq' x hx
    by_cases e : gn = x
    · subst e; simp [isAddedGlyph, hk]
    · unfold isAddedGlyph at hx' ⊢
      simp only [hglif x e]
      exact hx'
  have hdel : layerDeleted d' ln l = [] := by
    unfold layerDeleted
    rw [hgnames]
    exact layerDeleted_quiet hdl hs
  have hself : layerEntry { s with disk := d' } ln = some (ln, ⟨false, [gn], [], []⟩) := by
    unfold layerEntry
    have hlm : AL.get? s.font.layers ln = some l := hl
    simp only [hget_self, hlm]
    unfold layerRep
    simp only [hmod, hadd, hdel, hs.info]
    simp [LayerRep.isEmpty]
  have emod : layersModified { s with disk := d' } = [(ln, ⟨false, [gn], [], []⟩)] := by
    unfold layersModified
    exact filterMap_single _ h.nodupOrder hord hself hother
  rw [e1, eadded, edeleted, emod, hnames]
  have h2 : decide (layerNames s.disk ≠ s.font.order) = (report s).order := rfl
  have h3 : layersAdded s = (report s).added := rfl
  have h4 : layersDeleted s = (report s).deleted := rfl
  rw [h2, h3, h4, hq]


/-! ## Reloading a top-level object brings the font back in step -/

theorem forceLoad_parts_spec (s : State) (p q : Part) (mp : MPart) (h : getPart (forceLoad s p) q = some mp) :
    getPart s q = some mp ∨ mp.stamp = stampOf s.disk q := by
  unfold forceLoad at h
  by_cases e : p = q
  · subst e
    rw [getPart_setPart_self] at h
    injection h with h
    subst h
    exact Or.inr rfl
  · rw [getPart_setPart_ne _ _ e] at h
    exact Or.inl h

theorem reloadPart_parts_spec (s : State) (p q : Part) (mp : MPart) (h : getPart (reloadPart s p) q = some mp) :
    getPart s q = some mp ∨ mp.stamp = stampOf s.disk q := by
  unfold reloadPart at h
  cases hg : getPart s p with
  | some mp0 =>
    simp only [hg] at h
    by_cases e : p = q
    · subst e
      rw [getPart_setPart_self] at h
      injection h with h
      subst h
      exact Or.inr rfl
    · rw [getPart_setPart_ne _ _ e] at h
      exact Or.inl h
  | none =>
    simp only [hg] at h
    unfold loadPart at h
    simp only [hg, Option.isSome_none, Bool.false_eq_true, if_false] at h
    cases p
    · exact forceLoad_parts_spec s _ q mp h
    · rcases forceLoad_parts_spec _ _ q mp h with h1 | h1
      · exact forceLoad_parts_spec s _ q mp h1
      · exact Or.inr h1
    · rcases forceLoad_parts_spec _ _ q mp h with h1 | h1
      · exact forceLoad_parts_spec s _ q mp h1
      · exact Or.inr h1
    · exact forceLoad_parts_spec s _ q mp h
    · exact forceLoad_parts_spec s _ q mp h

theorem reloadPart_shape (s : State) (p : Part) :
    reloadPart s p = { s with font := { s.font with parts := (reloadPart s p).font.parts } } := by
  unfold reloadPart
  cases hg : getPart s p with
  | some mp0 => rfl
  | none =>
    simp only
    unfold loadPart
    simp only [hg, Option.isSome_none, Bool.false_eq_true, if_false]
    cases p <;> rfl

/-- From a font in step, after another program edited the top-level file of `p` in any way:
`reloadInfo/…/reloadLib` for `p` brings the font back in step with the UFO. -/
theorem synced_reload_after_xpart {s : State} (h : Synced s) {p : Part} {a : XAct} {t : Option Time} {d' : Disk}
    (hx : xPart s.zip s.disk p a t = some d') : Synced (reloadPart { s with disk := d' } p) := by
  obtain ⟨hd', hframe⟩ := xPart_eq hx
  rw [reloadPart_shape]
  generalize hP : (reloadPart { s with disk := d' } p).font.parts = P'
  have hspec : ∀ q mp, AL.get? P' q = some mp → mp.stamp.data = diskData d' q := by
    intro q mp hq
    have hq' : getPart (reloadPart { s with disk := d' } p) q = some mp := by
      unfold getPart; rw [hP]; exact hq
    rcases reloadPart_parts_spec _ p q mp hq' with h1 | h1
    · -- untouched by the reload: then it is not `p` (which the reload stamps) … or it agrees anyway
      by_cases e : p = q
      · subst e
        -- `p` itself: after the reload its stamp is the file
        obtain ⟨mp2, g1, _, g3, _⟩ := reloadPart_spec { s with disk := d' } p
        rw [hq'] at g1
        injection g1 with g1
        subst g1
        rw [g3]
        exact stampOf_data d' p
      · have hold : getPart s q = some mp := h1
        rw [h.parts q mp hold]
        unfold diskData
        rw [hframe q e]
    · rw [h1]
      exact stampOf_data d' q
  rw [hd'] at hspec ⊢
  exact {
    parts := fun q mp hg => hspec q mp hg
    order := h.order
    default := h.default
    layers := h.layers
    images := h.images
    data := h.data
    reader := h.reader
    nodupOrder := h.nodupOrder }

/-- the model's in-place save has no failing path except the two situations outside the modelled
domain (finding F37's directory clash; a layer on disk the font does not hold) -/
theorem save_error_outside (s : State) (tD tS : Time) (e : Err) (h : save s tD tS = .error e) : e = .outsideDomain := by
  unfold save at h
  simp only at h
  split at h
  · injection h with h; exact h.symm
  · split at h
    · cases h
    · injection h with h; exact h.symm

end Ext
end DefconModel
