/-
C08 helper lemmas for M-OrderNotify: it is M-GlyphOrder plus deliveries (`stepN_fst`), and every update of the
glyph order — whatever triggers it — announces exactly one truthful `Font.GlyphOrderChanged` when the getter's
answer changes.
-/
import DefconModel.Spec.OrderNotify

namespace DefconModel
namespace OrderNotify
open GlyphOrder

theorem chain_nil (o : List Name) : Chain o o [] := rfl

theorem chain_append {a b c : List Name} {xs ys : List OrdEv} (h1 : Chain a b xs) (h2 : Chain b c ys) :
    Chain a c (xs ++ ys) := by
  induction xs generalizing a with
  | nil => simp only [Chain] at h1; subst h1; simpa using h2
  | cons x xs ih => exact ⟨h1.1, h1.2.1, ih h1.2.2⟩

theorem chain_changed {a b : List Name} {evs : List OrdEv} (h : Chain a b evs) (hne : b ≠ a) : evs ≠ [] := by
  intro he; subst he; exact hne h

/-- the last new value of a chain is the order after -/
theorem chain_last {a b : List Name} {evs : List OrdEv} (h : Chain a b evs) (ev : OrdEv)
    (hl : evs.getLast? = some ev) : norm ev.new = b := by
  induction evs generalizing a with
  | nil => simp at hl
  | cons x xs ih =>
    cases xs with
    | nil =>
      simp at hl; subst hl
      have := h.2.2; simp only [Chain] at this
      rw [h.2.1, this]
    | cons y ys => exact ih h.2.2 (by simpa [List.getLast?_cons_cons] using hl)

theorem chain_head {a b : List Name} {evs : List OrdEv} (h : Chain a b evs) (ev : OrdEv)
    (hh : evs.head? = some ev) : norm ev.old = a := by
  cases evs with
  | nil => simp at hh
  | cons x xs => simp at hh; subst hh; exact h.1

theorem setGlyphOrderN_fst (f : Font) (v : Option (List Name)) : (setGlyphOrderN f v).1 = setGlyphOrder f v := by
  unfold setGlyphOrderN setGlyphOrder
  by_cases h1 : f.lib = v
  · simp [h1]
  · by_cases h2 : v.getD [] = []
    · by_cases h3 : f.lib.isSome
      · simp [h1, h2, h3]
      · simp only [h1, h2, h3, if_false, if_true]
        cases hf : f.lib with
        | none => cases f; simp_all
        | some x => simp [hf] at h3
    · simp [h1, h2]

theorem setGlyphOrderN_announced (f : Font) (v : Option (List Name)) :
    Announced (glyphOrder f) (glyphOrder (setGlyphOrderN f v).1) (setGlyphOrderN f v).2 := by
  unfold setGlyphOrderN
  by_cases h1 : f.lib = v
  · simp [h1, Announced]
  · by_cases h2 : v.getD [] = []
    · by_cases h3 : f.lib.isSome
      · simp [h1, h2, h3, Announced, OrdEv.Truthful, norm, glyphOrder]
      · have : f.lib = none := by
          cases hf : f.lib with
          | none => rfl
          | some x => simp [hf] at h3
        simp [h1, h2, h3, Announced]
    · simp [h1, h2, Announced, OrdEv.Truthful, norm, glyphOrder]

theorem updateGlyphOrderN_fst (f : Font) (a r : Option Name) :
    (updateGlyphOrderN f a r).1 = updateGlyphOrder f a r := by
  unfold updateGlyphOrderN updateGlyphOrder
  simp only []
  split
  · rfl
  · exact setGlyphOrderN_fst _ _

theorem updateGlyphOrderN_announced (f : Font) (a r : Option Name) :
    Announced (glyphOrder f) (glyphOrder (updateGlyphOrderN f a r).1) (updateGlyphOrderN f a r).2 := by
  unfold updateGlyphOrderN
  simp only []
  split
  · simp [Announced]
  · exact setGlyphOrderN_announced _ _

theorem chain_of_announced {a b : List Name} {evs : List OrdEv} (h : Announced a b evs) : Chain a b evs := by
  obtain ⟨ht, hle, hne⟩ := h
  match evs, ht, hle, hne with
  | [], _, _, hne =>
    simp only [Chain]
    by_cases e : b = a
    · exact e
    · have := hne e; simp at this
  | [ev], ht, _, _ =>
    have := ht ev (by simp)
    exact ⟨this.1, this.2.1, this.2.2.symm⟩
  | _ :: _ :: _, _, hle, _ => simp at hle

theorem announced_nil (o : List Name) : Announced o o [] := by simp [Announced]

theorem glyphOrder_setLayer (f : Font) (n : String) (l : Layer) : glyphOrder (setLayer f n l) = glyphOrder f := rfl

/-! ### `deliver`, `post`, `flush` -/

theorem deliverN_fst (f : Font) (note : Note) : (deliverN f note).1 = deliver f note := by
  cases note with
  | added n => simp [deliverN, deliver, glyphAddedCbN, glyphAddedCb, updateGlyphOrderN_fst]
  | deleted n =>
    simp only [deliverN, deliver, glyphDeletedCbN, glyphDeletedCb]
    split <;> simp [updateGlyphOrderN_fst]
  | renamed o n => simp [deliverN, deliver, glyphRenamedCbN, glyphRenamedCb, updateGlyphOrderN_fst]

theorem deliverN_announced (f : Font) (note : Note) :
    Announced (glyphOrder f) (glyphOrder (deliverN f note).1) (deliverN f note).2 := by
  cases note with
  | added n => exact updateGlyphOrderN_announced _ _ _
  | deleted n =>
    simp only [deliverN, glyphDeletedCbN]
    split
    · exact announced_nil _
    · exact updateGlyphOrderN_announced _ _ _
  | renamed o n => exact updateGlyphOrderN_announced _ _ _

theorem postN_fst (f : Font) (L : String) (note : Note) : (postN f L note).1 = post f L note := by
  simp only [postN, post]
  cases AL.get? f.layers L with
  | none => rfl
  | some l =>
    by_cases hd : l.disabled ≠ 0
    · simp [hd]
    · by_cases hh : l.held ≠ 0
      · simp [hd, hh]
      · by_cases ho : l.observed <;> simp [hd, hh, ho, deliverN_fst]

theorem postN_announced (f : Font) (L : String) (note : Note) :
    Announced (glyphOrder f) (glyphOrder (postN f L note).1) (postN f L note).2 := by
  simp only [postN]
  split
  · exact announced_nil _
  · split
    · exact announced_nil _
    · split
      · exact announced_nil _
      · split
        · exact deliverN_announced _ _
        · exact announced_nil _

theorem flushN_fst (f : Font) (L : String) (q : List Note) : (flushN f L q).1 = flush f L q := by
  induction q generalizing f with
  | nil => rfl
  | cons n ns ih => simp only [flushN, flush, postN_fst, ih]

theorem flushN_chain (f : Font) (L : String) (q : List Note) :
    Chain (glyphOrder f) (glyphOrder (flushN f L q).1) (flushN f L q).2 := by
  induction q generalizing f with
  | nil => exact chain_nil _
  | cons n ns ih =>
    simp only [flushN]
    exact chain_append (chain_of_announced (postN_announced f L n)) (ih _)

/-! ### the operations -/

theorem releaseLayerN_fst (f : Font) (L : String) : (releaseLayerN f L).1 = releaseLayer f L := by
  simp only [releaseLayerN, releaseLayer]
  cases AL.get? f.layers L with
  | none => rfl
  | some l =>
    by_cases h0 : l.held = 0
    · simp [h0]
    · by_cases h1 : l.held = 1
      · simp [h1, flushN_fst]
      · simp [h0, h1]

theorem releaseLayerN_chain (f : Font) (L : String) :
    Chain (glyphOrder f) (glyphOrder (releaseLayerN f L).1.1) (releaseLayerN f L).2 := by
  simp only [releaseLayerN]
  cases AL.get? f.layers L with
  | none => exact chain_nil _
  | some l =>
    by_cases h0 : l.held = 0
    · simp only [h0, if_true]; exact chain_nil _
    · by_cases h1 : l.held = 1
      · simp only [h1, if_true, if_false, Nat.one_ne_zero]
        exact flushN_chain (setLayer f L { l with held := 0, queue := [] }) L l.queue
      · simp only [h0, h1, if_false]; exact chain_nil _

theorem newGlyphN_fst (f : Font) (L : String) (g : Name) : (newGlyphN f L g).1 = newGlyph f L g := by
  simp only [newGlyphN, newGlyph]
  cases AL.get? f.layers L with
  | none => rfl
  | some l => simp [postN_fst]

theorem newGlyphN_announced (f : Font) (L : String) (g : Name) :
    Announced (glyphOrder f) (glyphOrder (newGlyphN f L g).1.1) (newGlyphN f L g).2 := by
  simp only [newGlyphN]
  split
  · exact announced_nil _
  · exact postN_announced _ _ _

theorem glyphOrder_holdLayer (f : Font) (L : String) : glyphOrder (holdLayer f L).1 = glyphOrder f := by
  simp only [holdLayer]
  split <;> rfl

theorem insertGlyphN_fst (f : Font) (L : String) (g : Name) : (insertGlyphN f L g).1 = insertGlyph f L g := by
  simp only [insertGlyphN, insertGlyph]
  cases AL.get? f.layers L with
  | none => rfl
  | some l => simp [newGlyphN_fst, releaseLayerN_fst]

theorem insertGlyphN_chain (f : Font) (L : String) (g : Name) :
    Chain (glyphOrder f) (glyphOrder (insertGlyphN f L g).1.1) (insertGlyphN f L g).2 := by
  simp only [insertGlyphN]
  split
  · exact chain_nil _
  · have h1 := chain_of_announced (newGlyphN_announced (holdLayer f L).1 L g)
    rw [glyphOrder_holdLayer] at h1
    exact chain_append h1 (releaseLayerN_chain _ _)

theorem delGlyphN_fst (f : Font) (L : String) (g : Name) : (delGlyphN f L g).1 = delGlyph f L g := by
  simp only [delGlyphN, delGlyph]
  cases AL.get? f.layers L with
  | none => rfl
  | some l => by_cases hg : g ∈ l.glyphs <;> simp [hg, postN_fst]

theorem delGlyphN_announced (f : Font) (L : String) (g : Name) :
    Announced (glyphOrder f) (glyphOrder (delGlyphN f L g).1.1) (delGlyphN f L g).2 := by
  simp only [delGlyphN]
  split
  · exact announced_nil _
  · split
    · exact postN_announced _ _ _
    · exact announced_nil _

theorem renameN_fst (f : Font) (L : String) (o n : Name) : (renameN f L o n).1 = rename f L o n := by
  simp only [renameN, rename]
  cases AL.get? f.layers L with
  | none => rfl
  | some l =>
    by_cases hg : o ∈ l.glyphs
    · by_cases he : o = n
      · subst he; simp [hg]
      · simp [hg, he, postN_fst]
    · simp [hg]

theorem renameN_announced (f : Font) (L : String) (o n : Name) :
    Announced (glyphOrder f) (glyphOrder (renameN f L o n).1.1) (renameN f L o n).2 := by
  simp only [renameN]
  split
  · exact announced_nil _
  · split
    · split
      · exact announced_nil _
      · exact postN_announced _ _ _
    · exact announced_nil _

/-- M-OrderNotify is M-GlyphOrder plus posts: same font, same result, for every operation -/
theorem stepN_fst (f : Font) (op : Op) : (stepN f op).1 = step f op := by
  cases op with
  | newGlyph l g => exact newGlyphN_fst f l g
  | insertGlyph l g => exact insertGlyphN_fst f l g
  | delGlyph l g => exact delGlyphN_fst f l g
  | rename l o n => exact renameN_fst f l o n
  | setOrder v => simp [stepN, step, setGlyphOrderN_fst]
  | fontNewGlyph g =>
    simp only [stepN, step, fontNewGlyphN, fontNewGlyph]
    cases f.default with
    | none => rfl
    | some L => exact newGlyphN_fst f L g
  | fontInsertGlyph g =>
    simp only [stepN, step, fontInsertGlyphN, fontInsertGlyph]
    cases f.default with
    | none => rfl
    | some L => exact insertGlyphN_fst f L g
  | fontDelGlyph g =>
    simp only [stepN, step, fontDelGlyphN, fontDelGlyph]
    cases f.default with
    | none => by_cases hg : g ∈ f.ghost <;> simp [hg]
    | some L => exact delGlyphN_fst f L g
  | releaseLayer l => exact releaseLayerN_fst f l
  | setLib v => rfl
  | newLayer n => rfl
  | delLayer n => rfl
  | renameLayer o n => rfl
  | setLayerOrder ns => rfl
  | setDefault n => rfl
  | holdLayer l => rfl
  | disableLayer l => rfl
  | enableLayer l => rfl
  | holdFont => rfl
  | releaseFont => rfl

/-! the operations that post nothing leave the stored order alone -/

theorem lib_newLayer (f : Font) (n : String) : (newLayer f n).1.lib = f.lib := by
  simp only [newLayer]; split <;> rfl
theorem lib_delLayer (f : Font) (n : String) : (delLayer f n).1.lib = f.lib := by
  simp only [delLayer]; split
  · rfl
  · split <;> rfl
theorem lib_renameLayer (f : Font) (o n : String) : (renameLayer f o n).1.lib = f.lib := by
  simp only [renameLayer]; split
  · rfl
  · split
    · rfl
    · split
      · rfl
      · split <;> rfl
theorem lib_setLayerOrder (f : Font) (ns : List String) : (setLayerOrder f ns).1.lib = f.lib := by
  simp only [setLayerOrder]; split
  · rfl
  · split <;> rfl
theorem lib_setDefault (f : Font) (n : String) : (setDefault f n).1.lib = f.lib := by
  simp only [setDefault]; split <;> rfl
theorem lib_holdLayer (f : Font) (n : String) : (holdLayer f n).1.lib = f.lib := by
  simp only [holdLayer]; split <;> rfl
theorem lib_disableLayer (f : Font) (n : String) : (disableLayer f n).1.lib = f.lib := by
  simp only [disableLayer]; split <;> rfl
theorem lib_enableLayer (f : Font) (n : String) : (enableLayer f n).1.lib = f.lib := by
  simp only [enableLayer]; split
  · rfl
  · split <;> rfl
theorem lib_releaseFont (f : Font) : (releaseFont f).1.lib = f.lib := by
  simp only [releaseFont]; split <;> rfl

theorem announced_of_lib {f f' : Font} (h : f'.lib = f.lib) : Announced (glyphOrder f) (glyphOrder f') [] := by
  simp [Announced, glyphOrder, h]

/-- operations that post at most one layer notification: at most one truthful `Font.GlyphOrderChanged`, and one
whenever the getter's answer changes -/
theorem stepN_announced (f : Font) (op : Op) (h : viaFont op = true) (hs : singlePost op = true) :
    Announced (glyphOrder f) (glyphOrder (stepN f op).1.1) (stepN f op).2 := by
  cases op with
  | newGlyph l g => exact newGlyphN_announced f l g
  | insertGlyph l g => simp [singlePost] at hs
  | delGlyph l g => exact delGlyphN_announced f l g
  | rename l o n => exact renameN_announced f l o n
  | setOrder v => exact setGlyphOrderN_announced f v
  | fontNewGlyph g =>
    simp only [stepN, fontNewGlyphN]
    split
    · exact newGlyphN_announced _ _ _
    · exact announced_of_lib rfl
  | fontInsertGlyph g => simp [singlePost] at hs
  | fontDelGlyph g =>
    simp only [stepN, fontDelGlyphN]
    split
    · exact delGlyphN_announced _ _ _
    · split
      · exact announced_of_lib rfl
      · exact announced_nil _
  | releaseLayer l => simp [singlePost] at hs
  | setLib v => simp [viaFont] at h
  | newLayer n => exact announced_of_lib (lib_newLayer f n)
  | delLayer n => exact announced_of_lib (lib_delLayer f n)
  | renameLayer o n => exact announced_of_lib (lib_renameLayer f o n)
  | setLayerOrder ns => exact announced_of_lib (lib_setLayerOrder f ns)
  | setDefault n => exact announced_of_lib (lib_setDefault f n)
  | holdLayer l => exact announced_of_lib (lib_holdLayer f l)
  | disableLayer l => exact announced_of_lib (lib_disableLayer f l)
  | enableLayer l => exact announced_of_lib (lib_enableLayer f l)
  | holdFont => exact announced_of_lib rfl
  | releaseFont => exact announced_of_lib (lib_releaseFont f)

/-- every operation through the font or its layers, releases of held layers included: the posts form a chain from
the order before to the order after -/
theorem stepN_chain (f : Font) (op : Op) (h : viaFont op = true) :
    Chain (glyphOrder f) (glyphOrder (stepN f op).1.1) (stepN f op).2 := by
  by_cases hs : singlePost op = true
  · exact chain_of_announced (stepN_announced f op h hs)
  · cases op with
    | insertGlyph l g => exact insertGlyphN_chain f l g
    | fontInsertGlyph g =>
      simp only [stepN, fontInsertGlyphN]
      split
      · exact insertGlyphN_chain _ _ _
      · exact chain_nil _
    | releaseLayer l => exact releaseLayerN_chain f l
    | _ => simp [singlePost] at hs

end OrderNotify
end DefconModel
