/-
C08 helper lemmas for M-OrderNotify: it is M-GlyphOrder plus deliveries (`stepN_fst`), and every update of the
glyph order — whatever triggers it — announces exactly one truthful `Font.GlyphOrderChanged` when the getter's
answer changes.
-/
import DefconModel.OrderNotify

namespace DefconModel
namespace OrderNotify
open GlyphOrderV1

/-- sentence 1 for one delivery: old = what `font.glyphOrder` answered before the operation, new = what it
answers when the observer is called — which is also what it answers after the operation (payload and getter
compared modulo `None == []`: the payload is the stored lib value) -/
def OrdEv.Truthful (before after : List Name) (ev : OrdEv) : Prop :=
  norm ev.old = before ∧ norm ev.new = norm ev.snap ∧ norm ev.snap = after

/-- what is claimed of the deliveries of one operation that takes the getter from `before` to `after` -/
def Announced (before after : List Name) (evs : List OrdEv) : Prop :=
  (∀ ev ∈ evs, ev.Truthful before after) ∧ evs.length ≤ 1 ∧ (after ≠ before → evs.length = 1)

theorem setGlyphOrderN_fst (f : Font) (v : Option (List Name)) : (setGlyphOrderN f v).1 = setGlyphOrder f v := by
  unfold setGlyphOrderN setGlyphOrder
  by_cases h1 : f.lib = v
  · simp [h1]
  · by_cases h2 : v.getD [] = []
    · by_cases h3 : f.lib.isSome
      · simp [h1, h2, h3]
      · simp only [h1, h2, h3, if_false, if_true]
        cases hf : f.lib with
        | none => cases f; simp_all
        | some x => simp [hf] at h3
    · simp [h1, h2]

theorem setGlyphOrderN_announced (f : Font) (v : Option (List Name)) :
    Announced (glyphOrder f) (glyphOrder (setGlyphOrderN f v).1) (setGlyphOrderN f v).2 := by
  unfold setGlyphOrderN
  by_cases h1 : f.lib = v
  · simp [h1, Announced]
  · by_cases h2 : v.getD [] = []
    · by_cases h3 : f.lib.isSome
      · simp [h1, h2, h3, Announced, OrdEv.Truthful, norm, glyphOrder]
      · have : f.lib = none := by
          cases hf : f.lib with
          | none => rfl
          | some x => simp [hf] at h3
        simp [h1, h2, h3, Announced]
    · simp [h1, h2, Announced, OrdEv.Truthful, norm, glyphOrder]

theorem updateGlyphOrderN_fst (f : Font) (a r : Option Name) :
    (updateGlyphOrderN f a r).1 = updateGlyphOrder f a r := by
  unfold updateGlyphOrderN updateGlyphOrder
  simp only []
  split
  · rfl
  · exact setGlyphOrderN_fst _ _

theorem updateGlyphOrderN_announced (f : Font) (a r : Option Name) :
    Announced (glyphOrder f) (glyphOrder (updateGlyphOrderN f a r).1) (updateGlyphOrderN f a r).2 := by
  unfold updateGlyphOrderN
  simp only []
  split
  · simp [Announced]
  · exact setGlyphOrderN_announced _ _

theorem glyphOrder_setLayer (f : Font) (n : String) (l : Layer) : glyphOrder (setLayer f n l) = glyphOrder f := rfl

theorem stepN_fst (f : Font) (op : Op) : (stepN f op).1 = step f op := by
  cases op with
  | newGlyph l g =>
    simp only [stepN, step, newGlyphN, newGlyph]
    cases AL.get? f.layers l with
    | none => rfl
    | some x => by_cases ho : x.observed <;> simp [ho, glyphAddedCbN, glyphAddedCb, updateGlyphOrderN_fst]
  | insertGlyph l g =>
    simp only [stepN, step, newGlyphN, insertGlyph, newGlyph]
    cases AL.get? f.layers l with
    | none => rfl
    | some x => by_cases ho : x.observed <;> simp [ho, glyphAddedCbN, glyphAddedCb, updateGlyphOrderN_fst]
  | delGlyph l g =>
    simp only [stepN, step, delGlyphN, delGlyph]
    cases AL.get? f.layers l with
    | none => rfl
    | some x =>
      by_cases hg : g ∈ x.glyphs
      · by_cases ho : x.observed
        · simp only [hg, ho, if_true, glyphDeletedCbN, glyphDeletedCb]
          split <;> simp [updateGlyphOrderN_fst]
        · simp [hg, ho]
      · simp [hg]
  | rename l o n =>
    simp only [stepN, step, renameN, rename]
    cases AL.get? f.layers l with
    | none => rfl
    | some x =>
      by_cases hg : o ∈ x.glyphs
      · by_cases he : o = n
        · subst he; simp [hg]
        · by_cases ho : x.observed <;> simp [hg, he, ho, glyphRenamedCbN, glyphRenamedCb, updateGlyphOrderN_fst]
      · simp [hg]
  | setOrder v => simp [stepN, step, setGlyphOrderN_fst]
  | setLib v => rfl
  | newLayer n => rfl
  | delLayer n => rfl

theorem announced_nil (o : List Name) : Announced o o [] := by simp [Announced]

theorem stepN_announced (f : Font) (op : Op) (h : viaFont op = true) :
    Announced (glyphOrder f) (glyphOrder (stepN f op).1.1) (stepN f op).2 := by
  cases op with
  | newGlyph l g =>
    simp only [stepN, newGlyphN]
    split
    · exact announced_nil _
    · split
      · exact updateGlyphOrderN_announced _ _ _
      · exact announced_nil _
  | insertGlyph l g =>
    simp only [stepN, newGlyphN]
    split
    · exact announced_nil _
    · split
      · exact updateGlyphOrderN_announced _ _ _
      · exact announced_nil _
  | delGlyph l g =>
    simp only [stepN, delGlyphN]
    split
    · exact announced_nil _
    · split
      · split
        · simp only [glyphDeletedCbN]
          split
          · exact announced_nil _
          · exact updateGlyphOrderN_announced _ _ _
        · exact announced_nil _
      · exact announced_nil _
  | rename l o n =>
    simp only [stepN, renameN]
    split
    · exact announced_nil _
    · split
      · split
        · exact announced_nil _
        · split
          · exact updateGlyphOrderN_announced _ _ _
          · exact announced_nil _
      · exact announced_nil _
  | setOrder v => exact setGlyphOrderN_announced f v
  | setLib v => simp [viaFont] at h
  | newLayer n =>
    simp only [stepN, newLayer]
    split <;> exact announced_nil _
  | delLayer n =>
    simp only [stepN, delLayer]
    split <;> exact announced_nil _

end OrderNotify
end DefconModel
