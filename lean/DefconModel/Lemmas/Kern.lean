/-
Helper lemmas about M-Kern.  Property theorems live in Props/C19.lean.
-/
import DefconModel.Kern
import DefconModel.Spec.Kern

namespace DefconModel
namespace AL
variable {κ : Type} {α : Type} [DecidableEq κ]

theorem set_eq_self_of_get? {l : List (κ × α)} {k : κ} {v : α} (h : get? l k = some v) :
    set l k v = l := by
  induction l with
  | nil => simp at h
  | cons p r ih =>
    obtain ⟨k', v'⟩ := p
    by_cases h1 : k' = k
    · subst h1; simp at h; simp [set, h]
    · simp [h1] at h; simp [set, h1, ih h]

theorem set_of_not_mem {l : List (κ × α)} {k : κ} (v : α) (h : k ∉ keys l) :
    set l k v = l ++ [(k, v)] := by
  induction l with
  | nil => simp [set]
  | cons p r ih =>
    obtain ⟨k', v'⟩ := p
    simp [keys] at h
    have h1 : k' ≠ k := fun e => h.1 e.symm
    simp [set, h1]
    exact ih (by simpa [keys] using h.2)

theorem contains_iff_mem_keys {l : List (κ × α)} {k : κ} : contains l k = true ↔ k ∈ keys l := by
  induction l with
  | nil => simp [contains, keys]
  | cons p r ih =>
    obtain ⟨k', v'⟩ := p
    by_cases h1 : k' = k
    · subst h1; simp [contains, keys]
    · have h1' : ¬ k = k' := fun e => h1 e.symm
      simp only [contains, get?_cons, h1, if_false, keys, List.map_cons, List.mem_cons, h1', false_or] at ih ⊢
      exact ih

end AL

namespace Kern

/-! ## dict.update -/

theorem nodup_keys_updateD {κ α : Type} [DecidableEq κ] (d o : List (κ × α)) (h : (AL.keys d).Nodup) :
    (AL.keys (updateD d o)).Nodup := by
  unfold updateD
  induction o generalizing d with
  | nil => simpa using h
  | cons p r ih => simp only [List.foldl_cons]; exact ih _ (AL.nodup_keys_set d p.1 p.2 h)

/-! ## `_gatherGroupsWithPrefix` -/

theorem gather_foldl (side : String → Bool) (g acc : GroupsD)
    (hd : ∀ p ∈ g, p.1 ∉ AL.keys acc) (hn : (AL.keys g).Nodup) :
    g.foldl (gatherStep side) acc = acc ++ g.filter (fun p => side p.1) := by
  induction g generalizing acc with
  | nil => simp
  | cons p r ih =>
    simp only [List.foldl_cons]
    have hn' : (AL.keys r).Nodup := by
      simp [AL.keys] at hn ⊢; exact hn.2
    have hp : ∀ q ∈ r, q.1 ≠ p.1 := by
      intro q hq e
      simp [AL.keys] at hn
      exact hn.1 q.2 (by rw [← e]; exact hq)
    by_cases hs : side p.1 = true
    · have hpk : p.1 ∉ AL.keys acc := hd p (by simp)
      have e1 : gatherStep side acc p = acc ++ [p] := by
        unfold gatherStep; simp [hs, AL.set_of_not_mem p.2 hpk]
      rw [e1, ih]
      · simp [hs]
      · intro q hq
        have h1 := hd q (List.mem_cons_of_mem _ hq)
        simp only [AL.keys, List.map_append, List.map_cons, List.map_nil, List.mem_append,
          List.mem_cons, List.not_mem_nil, or_false, not_or] at h1 ⊢
        exact ⟨h1, hp q hq⟩
      · exact hn'
    · have e1 : gatherStep side acc p = acc := by unfold gatherStep; simp [hs]
      rw [e1, ih acc (fun q hq => hd q (List.mem_cons_of_mem _ hq)) hn']
      simp [hs]

/-- with unique keys, the side table is the groups dict filtered by the prefix, in dict order -/
theorem gather_eq_filter (side : String → Bool) (g : GroupsD) (hn : (AL.keys g).Nodup) :
    gather side g = g.filter (fun p => side p.1) := by
  unfold gather
  rw [gather_foldl side g [] (by simp [AL.keys]) hn]
  simp

/-! ## `_makeGlyphToGroupMapping` -/

theorem get?_addMembers (n : String) (acc : G2G) (ms : List String) (x : String) :
    AL.get? (addMembers n acc ms) x = if x ∈ ms then some n else AL.get? acc x := by
  unfold addMembers
  induction ms generalizing acc with
  | nil => simp
  | cons m r ih =>
    simp only [List.foldl_cons]
    rw [ih, AL.get?_set]
    by_cases h1 : x ∈ r
    · simp [h1]
    · by_cases h2 : m = x
      · subst h2; simp
      · have h2' : ¬ x = m := fun e => h2 e.symm
        simp [h1, h2, h2']

theorem get?_foldl_mkG2GStep (gs : GroupsD) (acc : G2G) (x : String) :
    AL.get? (gs.foldl mkG2GStep acc) x =
      match lastOf gs x with
      | some n => some n
      | none => AL.get? acc x := by
  induction gs generalizing acc with
  | nil => simp [lastOf]
  | cons p r ih =>
    obtain ⟨n, ms⟩ := p
    simp only [List.foldl_cons]
    rw [ih]
    simp only [lastOf, mkG2GStep]
    cases h : lastOf r x with
    | some n' => simp
    | none =>
      simp only [get?_addMembers]
      by_cases hx : x ∈ ms <;> simp [hx]

/-- the glyph-to-group table maps a glyph to the last group (in table order) that lists it -/
theorem get?_mkG2G (gs : GroupsD) (x : String) : AL.get? (mkG2G gs) x = lastOf gs x := by
  unfold mkG2G
  rw [get?_foldl_mkG2GStep]
  cases lastOf gs x <;> simp

theorem lastOf_some {gs : GroupsD} {x n : String} (h : lastOf gs x = some n) :
    ∃ ms, (n, ms) ∈ gs ∧ x ∈ ms := by
  induction gs with
  | nil => simp [lastOf] at h
  | cons p r ih =>
    obtain ⟨n0, ms0⟩ := p
    simp only [lastOf] at h
    cases h1 : lastOf r x with
    | some n' =>
      simp [h1] at h; subst h
      obtain ⟨ms, hm, hx⟩ := ih h1
      exact ⟨ms, List.mem_cons_of_mem _ hm, hx⟩
    | none =>
      simp [h1] at h
      exact ⟨ms0, by simp [h.2], h.1⟩

theorem lastOf_none {gs : GroupsD} {x : String} (h : lastOf gs x = none) :
    ∀ n ms, (n, ms) ∈ gs → x ∉ ms := by
  induction gs with
  | nil => simp
  | cons p r ih =>
    obtain ⟨n0, ms0⟩ := p
    simp only [lastOf] at h
    cases h1 : lastOf r x with
    | some n' => simp [h1] at h
    | none =>
      simp [h1] at h
      intro n ms hm
      simp at hm
      rcases hm with ⟨rfl, rfl⟩ | hm
      · exact h
      · exact ih h1 n ms hm

/-- first entry (in list order) that lists `x` -/
def firstOf (gs : GroupsD) (x : String) : Option String :=
  (gs.find? (fun p => decide (x ∈ p.2))).map Prod.fst

/-- if all entries listing `x` carry the same name, last = first -/
theorem lastOf_eq_firstOf (gs : GroupsD) (x : String)
    (hu : ∀ n1 ms1 n2 ms2, (n1, ms1) ∈ gs → (n2, ms2) ∈ gs → x ∈ ms1 → x ∈ ms2 → n1 = n2) :
    lastOf gs x = firstOf gs x := by
  induction gs with
  | nil => simp [lastOf, firstOf]
  | cons p r ih =>
    obtain ⟨n, ms⟩ := p
    have hu' : ∀ n1 ms1 n2 ms2, (n1, ms1) ∈ r → (n2, ms2) ∈ r → x ∈ ms1 → x ∈ ms2 → n1 = n2 :=
      fun n1 ms1 n2 ms2 h1 h2 => hu n1 ms1 n2 ms2 (List.mem_cons_of_mem _ h1) (List.mem_cons_of_mem _ h2)
    have ih' := ih hu'
    by_cases hx : x ∈ ms
    · simp only [lastOf, firstOf, List.find?_cons, hx, decide_true, Option.map_some]
      cases h1 : lastOf r x with
      | none => simp
      | some n' =>
        obtain ⟨ms', hm, hx'⟩ := lastOf_some h1
        have : n' = n := hu n' ms' n ms (List.mem_cons_of_mem _ hm) (by simp) hx' hx
        simp [this]
    · simp only [lastOf, firstOf, List.find?_cons, hx, decide_false] at ih' ⊢
      rw [← ih']
      cases lastOf r x <;> simp

theorem groupOf_eq_firstOf_filter (side : String → Bool) (g : GroupsD) (x : String) :
    groupOf side g x = firstOf (g.filter (fun p => side p.1)) x := by
  unfold groupOf firstOf inGroup
  rw [List.find?_filter]
  congr 2
  funext a
  cases side a.1 <;> simp

/-- under the kerning-group rule the code's "last group" is the reference's "first group" -/
theorem lastGroupOf_eq_groupOf (side : String → Bool) (g : GroupsD) (x : String) (hv : ValidSide side g) :
    lastGroupOf side g x = groupOf side g x := by
  unfold lastGroupOf
  rw [groupOf_eq_firstOf_filter]
  apply lastOf_eq_firstOf
  intro n1 ms1 n2 ms2 h1 h2 hx1 hx2
  simp only [List.mem_filter] at h1 h2
  exact hv n1 ms1 n2 ms2 x h1.1 h2.1 h1.2 h2.2 hx1 hx2

/-- what the code's glyph-to-group table answers, for ANY groups with unique keys -/
theorem get?_freshG2G (side : String → Bool) (g : GroupsD) (hn : (AL.keys g).Nodup) (x : String) :
    AL.get? (freshG2G side g) x = lastGroupOf side g x := by
  unfold freshG2G lastGroupOf
  rw [get?_mkG2G, gather_eq_filter side g hn]

/-! ## `lookupKerningValue` against the reference -/

theorem kget_eq_pairValue (k : KernD) (c : Option String × Option String) :
    kget k c.1 c.2 = pairValue k c := by
  obtain ⟨a, b⟩ := c
  cases a <;> cases b <;> rfl

theorem firstHit_eq_findSome (k : KernD) (l : List (Option String × Option String)) :
    firstHit k l = l.findSome? (pairValue k) := by
  induction l with
  | nil => rfl
  | cons c r ih =>
    simp only [firstHit, List.findSome?_cons, kget_eq_pairValue, ih]
    cases pairValue k c <;> rfl


@[simp] theorem pairValue_none_left (k : KernD) (b : Option String) : pairValue k (none, b) = none := rfl
@[simp] theorem pairValue_none_right (k : KernD) (a : Option String) : pairValue k (a, none) = none := by
  cases a <;> rfl
@[simp] theorem pairValue_some (k : KernD) (a b : String) :
    pairValue k (some a, some b) = AL.get? k (a, b) := rfl

/-- The code's lookup, for any two glyph-to-group tables, is the reference lookup with the tables
read as the group functions.  (The early `pair in kerning` exit never changes the answer.) -/
theorem lookup_eq_specFindWith (k : KernD) (t1 t2 : G2G) (p : Pair) (d : Int) :
    lookup k t1 t2 p d = specFindWith (AL.get? t1) (AL.get? t2) k p d := by
  obtain ⟨a, b⟩ := p
  unfold lookup specFindWith candidates readSide glyphSlot groupSlot
  simp only [firstHit_eq_findSome]
  cases hk : AL.get? k (a, b) with
  | none =>
    cases h1 : isKern1 a <;> cases h2 : isKern2 b <;>
      simp only [if_true, if_false, Bool.false_eq_true] <;>
      (generalize List.findSome? _ _ = o; cases o <;> rfl)
  | some v =>
    cases h1 : isKern1 a <;> cases h2 : isKern2 b <;>
      simp only [if_true, if_false, Bool.false_eq_true, List.findSome?_cons, pairValue_none_left,
        pairValue_none_right, pairValue_some, hk] <;> rfl

theorem specFindWith_congr {G1 G1' G2 G2' : String → Option String} (k : KernD) (p : Pair) (d : Int)
    (h1 : G1 p.1 = G1' p.1) (h2 : G2 p.2 = G2' p.2) :
    specFindWith G1 G2 k p d = specFindWith G1' G2' k p d := by
  unfold specFindWith candidates readSide
  rw [h1, h2]

/-! ## Cached getters -/

theorem cacheOK_empty (c : Content) : CacheOK { c := c, cache := {} } := by
  constructor <;> intro t h <;> simp at h

theorem cacheOK_setGroups (s : State) (g : GroupsD) : CacheOK (setGroups s g) := by
  unfold setGroups evict
  exact cacheOK_empty _

theorem cacheOK_setKerning (s : State) (k : KernD) (h : CacheOK s) : CacheOK (setKerning s k) := by
  unfold setKerning
  exact ⟨h.side1, h.side2, h.g2g1, h.g2g2⟩

theorem getSide1_spec (s : State) (h : CacheOK s) :
    (getSide1 s).2 = freshSide isKern1 s.c.groups ∧ (getSide1 s).1.c = s.c ∧ CacheOK (getSide1 s).1 := by
  unfold getSide1
  cases hc : s.cache.side1 with
  | some t => exact ⟨h.side1 t hc, rfl, h⟩
  | none =>
    refine ⟨rfl, rfl, ?_⟩
    constructor
    · intro t ht; simp at ht; exact ht.symm
    · exact h.side2
    · exact h.g2g1
    · exact h.g2g2

theorem getSide2_spec (s : State) (h : CacheOK s) :
    (getSide2 s).2 = freshSide isKern2 s.c.groups ∧ (getSide2 s).1.c = s.c ∧ CacheOK (getSide2 s).1 := by
  unfold getSide2
  cases hc : s.cache.side2 with
  | some t => exact ⟨h.side2 t hc, rfl, h⟩
  | none =>
    refine ⟨rfl, rfl, ?_⟩
    constructor
    · exact h.side1
    · intro t ht; simp at ht; exact ht.symm
    · exact h.g2g1
    · exact h.g2g2

theorem getG2G1_spec (s : State) (h : CacheOK s) :
    (getG2G1 s).2 = freshG2G isKern1 s.c.groups ∧ (getG2G1 s).1.c = s.c ∧ CacheOK (getG2G1 s).1 := by
  unfold getG2G1
  cases hc : s.cache.g2g1 with
  | some t => exact ⟨h.g2g1 t hc, rfl, h⟩
  | none =>
    obtain ⟨h1, h2, h3⟩ := getSide1_spec s h
    simp only []
    refine ⟨by rw [h1]; rfl, h2, ?_⟩
    constructor
    · exact h3.side1
    · exact h3.side2
    · intro t ht; simp at ht; rw [← ht, h1]; simp only [h2]; rfl
    · exact h3.g2g2

theorem getG2G2_spec (s : State) (h : CacheOK s) :
    (getG2G2 s).2 = freshG2G isKern2 s.c.groups ∧ (getG2G2 s).1.c = s.c ∧ CacheOK (getG2G2 s).1 := by
  unfold getG2G2
  cases hc : s.cache.g2g2 with
  | some t => exact ⟨h.g2g2 t hc, rfl, h⟩
  | none =>
    obtain ⟨h1, h2, h3⟩ := getSide2_spec s h
    simp only []
    refine ⟨by rw [h1]; rfl, h2, ?_⟩
    constructor
    · exact h3.side1
    · exact h3.side2
    · exact h3.g2g1
    · intro t ht; simp at ht; rw [← ht, h1]; simp only [h2]; rfl

theorem findOne_spec (s : State) (h : CacheOK s) (p : Pair) (d : Int) :
    (findOne s p d).2 = Ref.find s.c p d ∧ (findOne s p d).1.c = s.c ∧ CacheOK (findOne s p d).1 := by
  unfold findOne
  obtain ⟨h1, h2, h3⟩ := getG2G1_spec s h
  obtain ⟨h4, h5, h6⟩ := getG2G2_spec (getG2G1 s).1 h3
  simp only []
  refine ⟨?_, by rw [h5, h2], h6⟩
  rw [h1, h4, h2]; rfl

theorem findMany_spec (s : State) (h : CacheOK s) (d : Int) (ps : List Pair) :
    (findMany s d ps).2 = ps.map (fun p => Ref.find s.c p d) ∧ (findMany s d ps).1.c = s.c ∧
      CacheOK (findMany s d ps).1 := by
  induction ps generalizing s with
  | nil => exact ⟨rfl, rfl, h⟩
  | cons p r ih =>
    obtain ⟨h1, h2, h3⟩ := findOne_spec s h p d
    obtain ⟨h4, h5, h6⟩ := ih (findOne s p d).1 h3
    simp only [findMany, List.map_cons]
    refine ⟨?_, by rw [h5, h2], h6⟩
    rw [h1, h4, h2]


/-! ### reading never changes the contents (whatever the cache holds) -/

theorem getSide1_content (s : State) : (getSide1 s).1.c = s.c := by
  unfold getSide1; split <;> rfl

theorem getSide2_content (s : State) : (getSide2 s).1.c = s.c := by
  unfold getSide2; split <;> rfl

theorem getG2G1_content (s : State) : (getG2G1 s).1.c = s.c := by
  unfold getG2G1; split
  · rfl
  · simp only []; exact getSide1_content s

theorem getG2G2_content (s : State) : (getG2G2 s).1.c = s.c := by
  unfold getG2G2; split
  · rfl
  · simp only []; exact getSide2_content s

theorem findOne_content (s : State) (p : Pair) (d : Int) : (findOne s p d).1.c = s.c := by
  unfold findOne; simp only []; rw [getG2G2_content, getG2G1_content]

theorem findMany_content (s : State) (d : Int) (ps : List Pair) : (findMany s d ps).1.c = s.c := by
  induction ps generalizing s with
  | nil => rfl
  | cons p r ih => simp only [findMany]; rw [ih, findOne_content]

/-- `announce` never changes the font's contents -/
theorem announce_content (reg : Destr) (pairs : List Pair) (d : Int) (s : State) (posts : List String) :
    (announce reg pairs d s posts).1.c = s.c := by
  induction posts generalizing s with
  | nil => rfl
  | cons n rest ih =>
    simp only [announce]
    rw [ih, findMany_content]
    split <;> rfl


/-! ## Mutators and the refinement step -/

theorem gSet_spec (s : State) (h : CacheOK s) (n : String) (ms : List String) :
    CacheOK (gSet s n ms) ∧ (gSet s n ms).c = { s.c with groups := AL.set s.c.groups n ms } := by
  unfold gSet
  split
  · rename_i he
    refine ⟨h, ?_⟩
    rw [AL.set_eq_self_of_get? he]
  · exact ⟨cacheOK_setGroups _ _, rfl⟩

theorem gClear_spec (s : State) (h : CacheOK s) :
    CacheOK (gClear s) ∧ (gClear s).c = { s.c with groups := [] } := by
  unfold gClear
  split
  · rename_i he
    refine ⟨h, ?_⟩
    have : s.c.groups = [] := by simpa using he
    rw [← this]
  · exact ⟨cacheOK_setGroups _ _, rfl⟩

theorem gUpdate_spec (s : State) (o : GroupsD) :
    CacheOK (gUpdate s o) ∧ (gUpdate s o).c = { s.c with groups := updateD s.c.groups o } :=
  ⟨cacheOK_setGroups _ _, rfl⟩

theorem kSet_spec (s : State) (h : CacheOK s) (p : Pair) (v : Int) :
    CacheOK (kSet s p v) ∧ (kSet s p v).c = { s.c with kerning := AL.set s.c.kerning p v } := by
  unfold kSet
  split
  · rename_i he
    refine ⟨h, ?_⟩
    rw [AL.set_eq_self_of_get? he]
  · exact ⟨cacheOK_setKerning _ _ h, rfl⟩

theorem kClear_spec (s : State) (h : CacheOK s) :
    CacheOK (kClear s) ∧ (kClear s).c = { s.c with kerning := [] } := by
  unfold kClear
  split
  · rename_i he
    refine ⟨h, ?_⟩
    have : s.c.kerning = [] := by simpa using he
    rw [← this]
  · exact ⟨cacheOK_setKerning _ _ h, rfl⟩

theorem kUpdate_spec (s : State) (h : CacheOK s) (o : KernD) :
    CacheOK (kUpdate s o) ∧ (kUpdate s o).c = { s.c with kerning := updateD s.c.kerning o } :=
  ⟨cacheOK_setKerning _ _ h, rfl⟩

/-- what one refinement step establishes -/
def Refines (r : State × Out) (q : Content × Out) : Prop :=
  CacheOK r.1 ∧ r.1.c = q.1 ∧ mask r.2 = q.2

theorem stepLoaded_refines (s : State) (h : CacheOK s) (op : Op) :
    Refines (stepLoaded s op) (Ref.stepLoaded s.c op) := by
  unfold Refines
  cases op with
  | gset n ms => obtain ⟨h1, h2⟩ := gSet_spec s h n ms; exact ⟨h1, h2, rfl⟩
  | gdel n =>
    simp only [stepLoaded, Ref.stepLoaded]
    split
    · exact ⟨cacheOK_setGroups _ _, rfl, rfl⟩
    · exact ⟨h, rfl, rfl⟩
  | gclear => obtain ⟨h1, h2⟩ := gClear_spec s h; exact ⟨h1, h2, rfl⟩
  | gupdate o => obtain ⟨h1, h2⟩ := gUpdate_spec s o; exact ⟨h1, h2, rfl⟩
  | kset p v => obtain ⟨h1, h2⟩ := kSet_spec s h p v; exact ⟨h1, h2, rfl⟩
  | kdel p =>
    simp only [stepLoaded, Ref.stepLoaded]
    split
    · exact ⟨cacheOK_setKerning _ _ h, rfl, rfl⟩
    · exact ⟨h, rfl, rfl⟩
  | kclear => obtain ⟨h1, h2⟩ := kClear_spec s h; exact ⟨h1, h2, rfl⟩
  | kupdate o => obtain ⟨h1, h2⟩ := kUpdate_spec s h o; exact ⟨h1, h2, rfl⟩
  | find p d =>
    obtain ⟨h1, h2, h3⟩ := findOne_spec s h p d
    simp only [stepLoaded, Ref.stepLoaded, mask]
    exact ⟨h3, h2, by rw [h1]⟩
  | findAll ps d =>
    obtain ⟨h1, h2, h3⟩ := findMany_spec s h d ps
    simp only [stepLoaded, Ref.stepLoaded, mask]
    exact ⟨h3, h2, by rw [h1]⟩
  | table t =>
    cases t with
    | side1 =>
      obtain ⟨h1, h2, h3⟩ := getSide1_spec s h
      simp only [stepLoaded, Ref.stepLoaded, mask, freshTable]
      exact ⟨h3, h2, by rw [h1]⟩
    | side2 =>
      obtain ⟨h1, h2, h3⟩ := getSide2_spec s h
      simp only [stepLoaded, Ref.stepLoaded, mask, freshTable]
      exact ⟨h3, h2, by rw [h1]⟩
    | g2g1 =>
      obtain ⟨h1, h2, h3⟩ := getG2G1_spec s h
      simp only [stepLoaded, Ref.stepLoaded, mask, freshTable]
      exact ⟨h3, h2, by rw [h1]⟩
    | g2g2 =>
      obtain ⟨h1, h2, h3⟩ := getG2G2_spec s h
      simp only [stepLoaded, Ref.stepLoaded, mask, freshTable]
      exact ⟨h3, h2, by rw [h1]⟩
  | cached => exact ⟨h, rfl, rfl⟩
  | gdump => exact ⟨h, rfl, rfl⟩
  | kdump => exact ⟨h, rfl, rfl⟩
  | openUfo dg dk => exact ⟨h, rfl, rfl⟩
  | extGroups dg => exact ⟨h, rfl, rfl⟩
  | extKerning dk => exact ⟨h, rfl, rfl⟩
  | reloadGroups =>
    simp only [stepLoaded, Ref.stepLoaded]
    cases hp : s.c.hasPath
    · exact ⟨h, rfl, rfl⟩
    · cases hr : readGroups s.c.diskGroups with
      | none => exact ⟨h, rfl, rfl⟩
      | some g =>
        obtain ⟨h1, h2⟩ := gClear_spec s h
        obtain ⟨h3, h4⟩ := gUpdate_spec (gClear s) g
        refine ⟨h3, ?_, rfl⟩
        simp only [Bool.not_true, Bool.false_eq_true, if_false]
        rw [h4, h2]
        simp [hp]
  | reloadKerning =>
    simp only [stepLoaded, Ref.stepLoaded]
    split
    · exact ⟨h, rfl, rfl⟩
    · obtain ⟨h1, h2⟩ := kClear_spec s h
      obtain ⟨h3, h4⟩ := kUpdate_spec (kClear s) h1 s.c.diskKerning
      refine ⟨h3, ?_, rfl⟩
      rw [h4, h2]

theorem load_refines (s : State) (h : CacheOK s) :
    CacheOK (load s).1 ∧ (load s).1.c = (Ref.load s.c).1 ∧ (load s).2 = (Ref.load s.c).2 := by
  unfold load Ref.load
  cases hl : s.c.loaded
  · cases hr : readGroups s.c.diskGroups with
    | none => exact ⟨cacheOK_empty _, rfl, rfl⟩
    | some g => exact ⟨cacheOK_empty _, rfl, rfl⟩
  · exact ⟨h, rfl, rfl⟩

theorem loadOnly_refines (s : State) (h : CacheOK s) : Refines (loadOnly s) (Ref.loadOnly s.c) := by
  obtain ⟨h1, h2, h3⟩ := load_refines s h
  unfold Refines loadOnly Ref.loadOnly
  simp only []
  refine ⟨h1, h2, ?_⟩
  rw [h3]
  split <;> rfl

theorem step_refines (s : State) (h : CacheOK s) (op : Op) : Refines (step s op) (Ref.step s.c op) := by
  have generic : ∀ op : Op,
      Refines (if (load s).2 then stepLoaded (load s).1 op else ((load s).1, .err "UFOLibError"))
        (if (Ref.load s.c).2 then Ref.stepLoaded (Ref.load s.c).1 op else ((Ref.load s.c).1, .err "UFOLibError")) := by
    intro op
    obtain ⟨h1, h2, h3⟩ := load_refines s h
    rw [← h3]
    split
    · have := stepLoaded_refines (load s).1 h1 op
      rw [h2] at this
      exact this
    · exact ⟨h1, h2, rfl⟩
  cases op with
  | openUfo dg dk => exact ⟨cacheOK_empty _, rfl, rfl⟩
  | extGroups dg => exact ⟨⟨h.side1, h.side2, h.g2g1, h.g2g2⟩, rfl, rfl⟩
  | extKerning dk => exact ⟨⟨h.side1, h.side2, h.g2g1, h.g2g2⟩, rfl, rfl⟩
  | reloadGroups =>
    simp only [step, Ref.step]
    split
    · exact stepLoaded_refines s h _
    · exact loadOnly_refines s h
  | reloadKerning =>
    simp only [step, Ref.step]
    split
    · exact stepLoaded_refines s h _
    · exact loadOnly_refines s h
  | _ => exact generic _

theorem run_refines (s : State) (h : CacheOK s) (ops : List Op) :
    CacheOK (run s ops).1 ∧ (run s ops).1.c = (Ref.run s.c ops).1 ∧
      (run s ops).2.map mask = (Ref.run s.c ops).2 := by
  induction ops generalizing s with
  | nil => exact ⟨h, rfl, rfl⟩
  | cons op r ih =>
    obtain ⟨h1, h2, h3⟩ := step_refines s h op
    obtain ⟨h4, h5, h6⟩ := ih (step s op).1 h1
    simp only [run, Ref.run, List.map_cons]
    rw [h2] at h5 h6
    exact ⟨h4, h5, by rw [h3, h6]⟩


/-! ## Unique keys in every reachable content -/

theorem wf_load (c : Content) (h : WF c) : WF (Ref.load c).1 := by
  unfold Ref.load
  cases hl : c.loaded
  · cases hr : readGroups c.diskGroups with
    | none => exact ⟨by simp [AL.keys], by simp [AL.keys]⟩
    | some g =>
      exact ⟨nodup_keys_updateD _ _ (by simp [AL.keys]), nodup_keys_updateD _ _ (by simp [AL.keys])⟩
  · exact h

theorem wf_stepLoaded (c : Content) (h : WF c) (op : Op) : WF (Ref.stepLoaded c op).1 := by
  cases op with
  | gset n ms => exact ⟨AL.nodup_keys_set _ _ _ h.groups, h.kerning⟩
  | gdel n =>
    simp only [Ref.stepLoaded]
    split
    · exact ⟨AL.nodup_keys_erase _ _ h.groups, h.kerning⟩
    · exact h
  | gclear => exact ⟨by simp [Ref.stepLoaded, AL.keys], h.kerning⟩
  | gupdate o => exact ⟨nodup_keys_updateD _ _ h.groups, h.kerning⟩
  | kset p v => exact ⟨h.groups, AL.nodup_keys_set _ _ _ h.kerning⟩
  | kdel p =>
    simp only [Ref.stepLoaded]
    split
    · exact ⟨h.groups, AL.nodup_keys_erase _ _ h.kerning⟩
    · exact h
  | kclear => exact ⟨h.groups, by simp [Ref.stepLoaded, AL.keys]⟩
  | kupdate o => exact ⟨h.groups, nodup_keys_updateD _ _ h.kerning⟩
  | find p d => exact h
  | findAll ps d => exact h
  | table t => exact h
  | cached => exact h
  | gdump => exact h
  | kdump => exact h
  | openUfo dg dk => exact h
  | extGroups dg => exact h
  | extKerning dk => exact h
  | reloadGroups =>
    simp only [Ref.stepLoaded]
    cases hp : c.hasPath
    · exact h
    · cases hr : readGroups c.diskGroups with
      | none => exact h
      | some g => exact ⟨nodup_keys_updateD _ _ (by simp [AL.keys]), h.kerning⟩
  | reloadKerning =>
    simp only [Ref.stepLoaded]
    cases hp : c.hasPath
    · exact h
    · exact ⟨h.groups, nodup_keys_updateD _ _ (by simp [AL.keys])⟩

theorem wf_step (c : Content) (h : WF c) (op : Op) : WF (Ref.step c op).1 := by
  have generic : ∀ op : Op,
      WF (if (Ref.load c).2 then Ref.stepLoaded (Ref.load c).1 op else ((Ref.load c).1, Out.err "UFOLibError")).1 := by
    intro op
    split
    · exact wf_stepLoaded _ (wf_load c h) op
    · exact wf_load c h
  cases op with
  | openUfo dg dk => exact ⟨by simp [Ref.step, AL.keys], by simp [Ref.step, AL.keys]⟩
  | extGroups dg => exact ⟨h.groups, h.kerning⟩
  | extKerning dk => exact ⟨h.groups, h.kerning⟩
  | reloadGroups =>
    simp only [Ref.step]
    split
    · exact wf_stepLoaded c h _
    · exact wf_load c h
  | reloadKerning =>
    simp only [Ref.step]
    split
    · exact wf_stepLoaded c h _
    · exact wf_load c h
  | _ => exact generic _

theorem wf_run (c : Content) (h : WF c) (ops : List Op) : WF (Ref.run c ops).1 := by
  induction ops generalizing c with
  | nil => exact h
  | cons op r ih => exact ih _ (wf_step c h op)


/-! ## `groupsValidator` is sound for the kerning-group rule -/

theorem kern1_not_kern2 {n : String} (h : isKern1 n = true) : isKern2 n = false := by
  unfold isKern1 hasPrefix at h
  unfold isKern2 hasPrefix
  cases h2 : kern2Prefix.toList.isPrefixOf n.toList with
  | false => rfl
  | true =>
    exfalso
    rw [List.isPrefixOf_iff_prefix] at h h2
    have := List.prefix_of_prefix_length_le h h2 (by decide)
    revert this
    decide

theorem vMembers_some {seen ms s' : List String} (h : vMembers seen ms = some s') :
    (∀ x ∈ ms, x ∉ seen) ∧ (∀ x, x ∈ s' ↔ x ∈ ms ∨ x ∈ seen) := by
  induction ms generalizing seen with
  | nil => simp [vMembers] at h; subst h; simp
  | cons y r ih =>
    simp only [vMembers] at h
    split at h
    · simp at h
    · rename_i hy
      obtain ⟨h1, h2⟩ := ih h
      constructor
      · intro x hx
        simp at hx
        rcases hx with rfl | hx
        · exact hy
        · intro hs; exact h1 x hx (List.mem_cons_of_mem _ hs)
      · intro x
        rw [h2]
        simp only [List.mem_cons]
        constructor
        · rintro (h | h | h)
          · exact Or.inl (Or.inr h)
          · exact Or.inl (Or.inl h)
          · exact Or.inr h
        · rintro ((h | h) | h)
          · exact Or.inr (Or.inl h)
          · exact Or.inl h
          · exact Or.inr (Or.inr h)

theorem validSide_cons_of_not_side {side : String → Bool} {n : String} {ms : List String} {r : GroupsD}
    (hn : side n = false) (h : ValidSide side r) : ValidSide side ((n, ms) :: r) := by
  intro n1 ms1 n2 ms2 x h1 h2 s1 s2 x1 x2
  simp only [List.mem_cons, Prod.mk.injEq] at h1 h2
  rcases h1 with ⟨rfl, rfl⟩ | h1
  · rw [hn] at s1; cases s1
  · rcases h2 with ⟨rfl, rfl⟩ | h2
    · rw [hn] at s2; cases s2
    · exact h n1 ms1 n2 ms2 x h1 h2 s1 s2 x1 x2

theorem validSide_cons_of_fresh {side : String → Bool} {n : String} {ms : List String} {r : GroupsD}
    (hf : ∀ n' ms' x, (n', ms') ∈ r → side n' = true → x ∈ ms' → x ∉ ms)
    (h : ValidSide side r) : ValidSide side ((n, ms) :: r) := by
  intro n1 ms1 n2 ms2 x h1 h2 s1 s2 x1 x2
  simp only [List.mem_cons, Prod.mk.injEq] at h1 h2
  rcases h1 with ⟨rfl, rfl⟩ | h1
  · rcases h2 with ⟨rfl, rfl⟩ | h2
    · rfl
    · exact absurd x1 (hf n2 ms2 x h2 s2 x2)
  · rcases h2 with ⟨rfl, rfl⟩ | h2
    · exact absurd x2 (hf n1 ms1 x h1 s1 x1)
    · exact h n1 ms1 n2 ms2 x h1 h2 s1 s2 x1 x2

theorem validateFrom_sound (seen1 seen2 : List String) (g : GroupsD)
    (h : validateFrom seen1 seen2 g = true) :
    (∀ n ms x, (n, ms) ∈ g → isKern1 n = true → x ∈ ms → x ∉ seen1) ∧
    (∀ n ms x, (n, ms) ∈ g → isKern2 n = true → x ∈ ms → x ∉ seen2) ∧
    ValidSide isKern1 g ∧ ValidSide isKern2 g := by
  induction g generalizing seen1 seen2 with
  | nil =>
    refine ⟨by simp, by simp, ?_, ?_⟩ <;> intro n1 ms1 n2 ms2 x h1 <;> simp at h1
  | cons p r ih =>
    obtain ⟨n, ms⟩ := p
    simp only [validateFrom] at h
    split at h
    · simp at h
    · by_cases hk1 : isKern1 n = true
      · have hk2 : isKern2 n = false := kern1_not_kern2 hk1
        simp only [hk1, if_true] at h
        split at h
        · simp at h
        · cases hv : vMembers seen1 ms with
          | none => simp [hv] at h
          | some s1 =>
            simp only [hv] at h
            obtain ⟨a, b, c, d⟩ := ih s1 seen2 h
            obtain ⟨v1, v2⟩ := vMembers_some hv
            refine ⟨?_, ?_, ?_, ?_⟩
            · intro n' ms' x hm hs hx
              simp only [List.mem_cons, Prod.mk.injEq] at hm
              rcases hm with ⟨rfl, rfl⟩ | hm
              · exact v1 x hx
              · intro hs1; exact a n' ms' x hm hs hx ((v2 x).2 (Or.inr hs1))
            · intro n' ms' x hm hs hx
              simp only [List.mem_cons, Prod.mk.injEq] at hm
              rcases hm with ⟨rfl, rfl⟩ | hm
              · rw [hk2] at hs; cases hs
              · exact b n' ms' x hm hs hx
            · apply validSide_cons_of_fresh _ c
              intro n' ms' x hm hs hx hxm
              exact a n' ms' x hm hs hx ((v2 x).2 (Or.inl hxm))
            · exact validSide_cons_of_not_side hk2 d
      · have hk1' : isKern1 n = false := by simpa using hk1
        simp only [hk1', Bool.false_eq_true, if_false] at h
        by_cases hk2 : isKern2 n = true
        · simp only [hk2, if_true] at h
          split at h
          · simp at h
          · cases hv : vMembers seen2 ms with
            | none => simp [hv] at h
            | some s2 =>
              simp only [hv] at h
              obtain ⟨a, b, c, d⟩ := ih seen1 s2 h
              obtain ⟨v1, v2⟩ := vMembers_some hv
              refine ⟨?_, ?_, ?_, ?_⟩
              · intro n' ms' x hm hs hx
                simp only [List.mem_cons, Prod.mk.injEq] at hm
                rcases hm with ⟨rfl, rfl⟩ | hm
                · rw [hk1'] at hs; cases hs
                · exact a n' ms' x hm hs hx
              · intro n' ms' x hm hs hx
                simp only [List.mem_cons, Prod.mk.injEq] at hm
                rcases hm with ⟨rfl, rfl⟩ | hm
                · exact v1 x hx
                · intro hs2; exact b n' ms' x hm hs hx ((v2 x).2 (Or.inr hs2))
              · exact validSide_cons_of_not_side hk1' c
              · apply validSide_cons_of_fresh _ d
                intro n' ms' x hm hs hx hxm
                exact b n' ms' x hm hs hx ((v2 x).2 (Or.inl hxm))
        · have hk2' : isKern2 n = false := by simpa using hk2
          simp only [hk2', Bool.false_eq_true, if_false] at h
          obtain ⟨a, b, c, d⟩ := ih seen1 seen2 h
          refine ⟨?_, ?_, validSide_cons_of_not_side hk1' c, validSide_cons_of_not_side hk2' d⟩
          · intro n' ms' x hm hs hx
            simp only [List.mem_cons, Prod.mk.injEq] at hm
            rcases hm with ⟨rfl, rfl⟩ | hm
            · rw [hk1'] at hs; cases hs
            · exact a n' ms' x hm hs hx
          · intro n' ms' x hm hs hx
            simp only [List.mem_cons, Prod.mk.injEq] at hm
            rcases hm with ⟨rfl, rfl⟩ | hm
            · rw [hk2'] at hs; cases hs
            · exact b n' ms' x hm hs hx

/-- whatever `readGroups` accepts obeys the kerning-group rule -/
theorem readGroups_valid {disk g : GroupsD} (h : readGroups disk = some g) : ValidGroups g := by
  unfold readGroups at h
  simp only [] at h
  split at h
  · rename_i hv
    simp at h; subst h
    obtain ⟨_, _, c, d⟩ := validateFrom_sound [] [] _ hv
    exact ⟨c, d⟩
  · simp at h


theorem mem_updateD {κ α : Type} [DecidableEq κ] {d o : List (κ × α)} {p : κ × α}
    (h : p ∈ updateD d o) : p ∈ d ∨ p ∈ o := by
  unfold updateD at h
  induction o generalizing d with
  | nil => exact Or.inl (by simpa using h)
  | cons q r ih =>
    simp only [List.foldl_cons] at h
    rcases ih h with h1 | h1
    · rcases AL.mem_set h1 with h2 | h2
      · exact Or.inr (by rw [h2]; simp)
      · exact Or.inl h2
    · exact Or.inr (List.mem_cons_of_mem _ h1)

theorem validSide_of_subset {side : String → Bool} {g g' : GroupsD} (h : ValidSide side g)
    (hs : ∀ p ∈ g', p ∈ g) : ValidSide side g' :=
  fun n1 ms1 n2 ms2 x h1 h2 => h n1 ms1 n2 ms2 x (hs _ h1) (hs _ h2)

theorem validGroups_updateD_nil {g : GroupsD} (h : ValidGroups g) : ValidGroups (updateD [] g) := by
  have hs : ∀ p ∈ updateD [] g, p ∈ g := by
    intro p hp
    rcases mem_updateD hp with h1 | h1
    · simp at h1
    · exact h1
  exact ⟨validSide_of_subset h.1 hs, validSide_of_subset h.2 hs⟩

theorem validGroups_nil : ValidGroups [] := by
  constructor <;> intro n1 ms1 n2 ms2 x h1 <;> simp at h1


theorem get?_filter_side (side : String → Bool) (g : GroupsD) (n : String) :
    AL.get? (g.filter (fun p => side p.1)) n = if side n = true then AL.get? g n else none := by
  induction g with
  | nil => simp
  | cons p r ih =>
    obtain ⟨n0, ms0⟩ := p
    by_cases hs : side n0 = true
    · simp only [List.filter_cons, hs, if_true, AL.get?_cons]
      by_cases he : n0 = n
      · subst he; simp [hs]
      · simp only [he, if_false]; exact ih
    · have hs' : side n0 = false := by simpa using hs
      simp only [List.filter_cons, hs', Bool.false_eq_true, if_false, AL.get?_cons]
      by_cases he : n0 = n
      · subst he; simp [hs', ih]
      · simp only [he, if_false]; exact ih

theorem lastGroupOf_isSome_iff (side : String → Bool) (g : GroupsD) (x : String) :
    (lastGroupOf side g x).isSome = true ↔ ∃ G, IsGroupOf side g x G := by
  unfold lastGroupOf IsGroupOf
  constructor
  · intro h
    cases hl : lastOf (g.filter fun p => side p.1) x with
    | none => simp [hl] at h
    | some n =>
      obtain ⟨ms, hm, hx⟩ := lastOf_some hl
      simp only [List.mem_filter] at hm
      exact ⟨n, ms, hm.1, hm.2, hx⟩
  · rintro ⟨G, ms, hm, hs, hx⟩
    cases hl : lastOf (g.filter fun p => side p.1) x with
    | some n => simp
    | none =>
      exact absurd hx (lastOf_none hl G ms (by simp [List.mem_filter, hm, hs]))


end Kern
end DefconModel
