/-
Helper lemmas for C05 (M-Ext), round 3: `Tidy` is kept by every quiet operation (and by glyph
creation and renaming).
-/
import DefconModel.Lemmas.ExtSave

namespace DefconModel
namespace Ext

theorem tidy_setPart {s : State} (h : Tidy s) (p : Part) (mp : MPart) : Tidy (setPart s p mp) :=
  h.congr rfl rfl rfl rfl rfl rfl h.disk

theorem tidy_psetPart {s : State} (h : Tidy s) (p : Part) (v : Blob) : Tidy (psetPart s p v) := by
  unfold psetPart
  have h1 := tidy_loadPart h p
  cases hg : getPart (loadPart s p) p with
  | none => simpa [hg] using h1
  | some mp => simpa [hg] using tidy_setPart h1 p _

theorem tidy_reloadPart {s : State} (h : Tidy s) (p : Part) : Tidy (reloadPart s p) := by
  unfold reloadPart
  cases hg : getPart s p with
  | none => simpa [hg] using tidy_loadPart h p
  | some mp => simpa [hg] using tidy_setPart h p _

/-- replacing a layer that the layer set holds -/
theorem tidy_setLayer {s : State} (h : Tidy s) {ln : String} (l' : MLayer)
    (hc : AL.contains s.font.layers ln = true) (hn : (AL.keys l'.sched).Nodup) : Tidy (setLayer s ln l') where
  history := h.history
  layersInOrder := by
    intro x hx
    have hx' : AL.contains (AL.set s.font.layers ln l') x = true := hx
    rw [AL.contains_set] at hx'
    by_cases e : ln = x
    · subst e; exact h.layersInOrder ln hc
    · simp [e] at hx'; exact h.layersInOrder x hx'
  schedNodup := by
    intro x l hg
    have hg' : AL.get? (AL.set s.font.layers ln l') x = some l := hg
    rw [AL.get?_set] at hg'
    by_cases e : ln = x
    · subst e; simp at hg'; subst hg'; exact hn
    · simp [e] at hg'; exact h.schedNodup x l hg'
  imagesDisjoint := h.imagesDisjoint
  dataDisjoint := h.dataDisjoint
  disk := h.disk

theorem contains_of_getLayer {s : State} {ln : String} {l : MLayer} (h : getLayer s ln = some l) :
    AL.contains s.font.layers ln = true := by
  unfold getLayer at h
  simp [AL.contains, h]

theorem tidy_loadGlyph {s s' : State} (h : Tidy s) {ln gn : String} {l : MLayer} {g : MGlyph}
    (hl : getLayer s ln = some l) (hr : loadGlyph s ln l gn = .ok (s', g)) : Tidy s' := by
  unfold loadGlyph at hr
  cases hgs : l.gs with
  | none => simp [hgs] at hr
  | some b =>
    simp only [hgs] at hr
    split at hr
    · cases hr
    · cases hrd : gsRead s b gn with
      | error e => simp [hrd] at hr
      | ok f =>
        simp only [hrd] at hr
        injection hr with hr
        injection hr with hr1 _
        subst hr1
        exact tidy_setLayer h _ (contains_of_getLayer hl) (h.schedNodup ln l hl)

theorem tidy_getGlyph {s s' : State} (h : Tidy s) {ln gn : String} {g : MGlyph}
    (hr : getGlyph s ln gn = .ok (s', g)) : Tidy s' := by
  unfold getGlyph at hr
  cases hl : getLayer s ln with
  | none => simp [hl] at hr
  | some l =>
    simp only [hl] at hr
    cases hg : AL.get? l.glyphs gn with
    | some g0 =>
      simp only [hg] at hr
      injection hr with hr
      injection hr with hr1 _
      subst hr1
      exact h
    | none =>
      simp only [hg] at hr
      exact tidy_loadGlyph h hl hr

/-- a successful `layer[gn]` leaves the layer in the layer set -/
theorem getGlyph_keeps_layer {s s' : State} {ln gn : String} {g : MGlyph}
    (hr : getGlyph s ln gn = .ok (s', g)) : AL.contains s'.font.layers ln = true := by
  unfold getGlyph at hr
  cases hl : getLayer s ln with
  | none => simp [hl] at hr
  | some l =>
    simp only [hl] at hr
    cases hg : AL.get? l.glyphs gn with
    | some g0 =>
      simp only [hg] at hr
      injection hr with hr
      injection hr with hr1 _
      subst hr1
      exact contains_of_getLayer hl
    | none =>
      simp only [hg] at hr
      unfold loadGlyph at hr
      cases hgs : l.gs with
      | none => simp [hgs] at hr
      | some b =>
        simp only [hgs] at hr
        split at hr
        · cases hr
        · cases hrd : gsRead s b gn with
          | error e => simp [hrd] at hr
          | ok f =>
            simp only [hrd] at hr
            injection hr with hr
            injection hr with hr1 _
            subst hr1
            show AL.contains (AL.set s.font.layers ln _) ln = true
            simp

theorem tidy_setGlyph {s s' : State} (h : Tidy s) {ln gn : String} {v : Blob}
    (hr : setGlyph s ln gn v = .ok s') : Tidy s' := by
  unfold setGlyph at hr
  cases hg : getGlyph s ln gn with
  | error e => simp [hg] at hr
  | ok r =>
    obtain ⟨s1, g⟩ := r
    simp only [hg] at hr
    cases hl : getLayer s1 ln with
    | none => simp [hl] at hr
    | some l =>
      simp only [hl] at hr
      injection hr with hr
      subst hr
      exact tidy_setLayer (tidy_getGlyph h hg) _ (contains_of_getLayer hl) ((tidy_getGlyph h hg).schedNodup ln l hl)

theorem tidy_setLayerInfo {s s' : State} (h : Tidy s) {ln : String} {v : Blob}
    (hr : setLayerInfo s ln v = .ok s') : Tidy s' := by
  unfold setLayerInfo at hr
  cases hl : getLayer s ln with
  | none => simp [hl] at hr
  | some l =>
    simp only [hl] at hr
    injection hr with hr
    subst hr
    exact tidy_setLayer h _ (contains_of_getLayer hl) (h.schedNodup ln l hl)

theorem tidy_afterDelete {s : State} (h : Tidy s) (gn : String) : Tidy (afterDelete s gn) := by
  unfold afterDelete
  split
  · exact h
  · exact tidy_loadPart h _

theorem tidy_delGlyph {s : State} (h : Tidy s) (ln gn : String) : Tidy (delGlyph s ln gn).1 := by
  unfold delGlyph
  cases hl : getLayer s ln with
  | none => exact h
  | some l =>
    simp only
    have hc := contains_of_getLayer hl
    have hn := h.schedNodup ln l hl
    split
    · exact h
    · cases hgs : l.gs with
      | none =>
        refine tidy_afterDelete (tidy_setLayer h _ hc ?_) _
        exact hn
      | some b =>
        simp only
        split
        · refine tidy_afterDelete (tidy_setLayer h _ hc ?_) _
          exact AL.nodup_keys_set _ _ _ hn
        · refine tidy_afterDelete (tidy_setLayer h _ hc ?_) _
          exact hn

theorem nodup_schedAfterDelete (s : State) (l : MLayer) (gn : String) (hn : (AL.keys l.sched).Nodup) :
    (AL.keys (schedAfterDelete s l gn)).Nodup := by
  unfold schedAfterDelete
  cases l.gs with
  | none => exact hn
  | some b =>
    simp only
    split
    · exact AL.nodup_keys_set _ _ _ hn
    · exact hn

theorem tidy_newGlyph {s s' : State} (h : Tidy s) {ln gn : String} (hr : newGlyph s ln gn = .ok s') : Tidy s' := by
  unfold newGlyph at hr
  cases hl : getLayer s ln with
  | none => simp [hl] at hr
  | some l =>
    simp only [hl] at hr
    injection hr with hr
    subst hr
    exact tidy_loadPart (tidy_setLayer h _ (contains_of_getLayer hl) (AL.nodup_keys_erase _ _ (h.schedNodup ln l hl))) _

theorem tidy_renameGlyph {s : State} (h : Tidy s) (ln old new : String) : Tidy (renameGlyph s ln old new).1 := by
  unfold renameGlyph
  cases hg : getGlyph s ln old with
  | error e => exact h
  | ok r =>
    obtain ⟨s1, g⟩ := r
    simp only
    have h1 := tidy_getGlyph h hg
    split
    · exact h1
    · cases hl : getLayer s1 ln with
      | none => exact h1
      | some l =>
        exact tidy_loadPart (tidy_setLayer h1 _ (contains_of_getLayer hl)
          (AL.nodup_keys_erase _ _ (nodup_schedAfterDelete _ _ _ (h1.schedNodup ln l hl)))) _

/-! ### images and data -/

theorem Tidy.fsDisjoint {s : State} (h : Tidy s) (img : Bool) :
    ∀ n, AL.contains (getFS s img).entries n = true → AL.contains (getFS s img).sched n = false := by
  cases img
  · exact h.dataDisjoint
  · exact h.imagesDisjoint

theorem tidy_setFS {s : State} (h : Tidy s) (img : Bool) (fs' : FileSet)
    (hd : ∀ n, AL.contains fs'.entries n = true → AL.contains fs'.sched n = false) : Tidy (setFS s img fs') := by
  cases img
  · exact ⟨h.history, h.layersInOrder, h.schedNodup, h.imagesDisjoint, hd, h.disk⟩
  · exact ⟨h.history, h.layersInOrder, h.schedNodup, hd, h.dataDisjoint, h.disk⟩

theorem getFS_setFS (s : State) (img : Bool) (fs : FileSet) : getFS (setFS s img fs) img = fs := by
  cases img <;> rfl

/-- setting an entry that is listed already keeps the two tables apart -/
theorem disjoint_setEntry {fs : FileSet} (hd : ∀ n, AL.contains fs.entries n = true → AL.contains fs.sched n = false)
    {n : String} (e : Entry) (hn : AL.contains fs.sched n = false) :
    ∀ x, AL.contains (AL.set fs.entries n e) x = true → AL.contains fs.sched x = false := by
  intro x hx
  rw [AL.contains_set] at hx
  by_cases e' : n = x
  · subst e'; exact hn
  · simp [e'] at hx; exact hd x hx

theorem tidy_fsLoad {s s' : State} (h : Tidy s) {img : Bool} {n : String} {ob : Option Blob}
    (hr : fsLoad s img n = .ok (s', ob)) : Tidy s' := by
  unfold fsLoad at hr
  simp only at hr
  cases hg : AL.get? (getFS s img).entries n with
  | none => simp [hg] at hr
  | some e =>
    simp only [hg] at hr
    have hns : AL.contains (getFS s img).sched n = false := h.fsDisjoint img n (by simp [AL.contains, hg])
    cases hd : e.data with
    | some b =>
      simp only [hd] at hr
      injection hr with hr
      injection hr with hr1 _
      subst hr1
      exact h
    | none =>
      simp only [hd] at hr
      cases hf : AL.get? (fsFiles (view s) img) n with
      | none =>
        simp only [hf] at hr
        cases img with
        | true => simp at hr
        | false =>
          simp only [Bool.false_eq_true, if_false] at hr
          injection hr with hr
          injection hr with hr1 _
          subst hr1
          exact tidy_setFS h _ _ (disjoint_setEntry (h.fsDisjoint false) _ hns)
      | some f =>
        simp only [hf] at hr
        injection hr with hr
        injection hr with hr1 _
        subst hr1
        exact tidy_setFS h _ _ (disjoint_setEntry (h.fsDisjoint img) _ hns)

/-- what a successful read of an entry leaves of the two tables -/
theorem fsLoad_tables {s s' : State} {img : Bool} {n : String} {ob : Option Blob}
    (hr : fsLoad s img n = .ok (s', ob)) :
    (getFS s' img).sched = (getFS s img).sched ∧
    (∀ x, AL.contains (getFS s' img).entries x = AL.contains (getFS s img).entries x) ∧
    AL.contains (getFS s img).entries n = true := by
  unfold fsLoad at hr
  simp only at hr
  cases hg : AL.get? (getFS s img).entries n with
  | none => simp [hg] at hr
  | some e =>
    simp only [hg] at hr
    have hin : AL.contains (getFS s img).entries n = true := by simp [AL.contains, hg]
    have key : ∀ (e' : Entry) x, AL.contains (AL.set (getFS s img).entries n e') x = AL.contains (getFS s img).entries x := by
      intro e' x
      rw [AL.contains_set]
      by_cases e'' : n = x
      · subst e''; simp [hin]
      · simp [e'']
    cases hd : e.data with
    | some b =>
      simp only [hd] at hr
      injection hr with hr
      injection hr with hr1 _
      subst hr1
      exact ⟨rfl, fun _ => rfl, hin⟩
    | none =>
      simp only [hd] at hr
      cases hf : AL.get? (fsFiles (view s) img) n with
      | none =>
        simp only [hf] at hr
        cases img with
        | true => simp at hr
        | false =>
          simp only [Bool.false_eq_true, if_false] at hr
          injection hr with hr
          injection hr with hr1 _
          subst hr1
          exact ⟨rfl, key _, hin⟩
      | some f =>
        simp only [hf] at hr
        injection hr with hr
        injection hr with hr1 _
        subst hr1
        rw [getFS_setFS]
        exact ⟨rfl, key _, hin⟩

theorem contains_erase_self_of_nodup {κ α : Type} [DecidableEq κ] (l : List (κ × α)) (k : κ)
    (h : (AL.keys l).Nodup) : AL.contains (AL.erase l k) k = false := by
  unfold AL.contains
  rw [AL.get?_erase_self_of_nodup l k h]
  rfl

theorem tidy_fsDel {s : State} (h : Tidy s) (hs : Synced s) (img : Bool) (n : String) : Tidy (fsDel s img n).1 := by
  unfold fsDel
  cases hr : fsLoad s img n with
  | error e => exact h
  | ok r =>
    obtain ⟨s1, ob⟩ := r
    simp only
    have h1 := tidy_fsLoad h hr
    have hs1 := (synced_fsLoad hs hr).1
    cases hg : AL.get? (getFS s1 img).entries n with
    | none => exact h1
    | some e =>
      simp only
      refine tidy_setFS h1 _ _ ?_
      intro x hx
      simp only at hx ⊢
      have hnd := (hs1.fs img).nodupEntries
      by_cases e' : n = x
      · subst e'
        rw [contains_erase_self_of_nodup _ _ hnd] at hx
        cases hx
      · rw [contains_erase_ne _ e'] at hx
        rw [AL.contains_set]
        simp only [e', decide_false, Bool.false_or]
        exact h1.fsDisjoint img x hx

theorem tidy_fsAssign {s : State} (h : Tidy s) (img : Bool) (n : String) (b : Blob)
    (hns : AL.contains (getFS s img).sched n = false) : Tidy (fsAssign s img n b).1 := by
  unfold fsAssign
  simp only
  cases hg : AL.get? (getFS s img).entries n with
  | none =>
    simp only
    exact tidy_setFS h _ _ (disjoint_setEntry (h.fsDisjoint img) _ hns)
  | some e0 =>
    simp only
    cases hr : fsLoad s img n with
    | error e => exact h
    | ok r =>
      obtain ⟨s2, cur⟩ := r
      simp only
      have h2 := tidy_fsLoad h hr
      obtain ⟨t1, _, _⟩ := fsLoad_tables hr
      split
      · exact h2
      · cases hg2 : AL.get? (getFS s2 img).entries n with
        | none => exact h2
        | some e =>
          simp only
          exact tidy_setFS h2 _ _ (disjoint_setEntry (h2.fsDisjoint img) _ (by rw [t1]; exact hns))

theorem tidy_fsSet {s : State} (h : Tidy s) (hs : Synced s) (img : Bool) (n : String) (b : Blob) :
    Tidy (fsSet s img n b).1 := by
  unfold fsSet
  simp only
  split
  · exact h
  · have hnd := (hs.fs img).nodupSched
    have hu : (∀ x, AL.contains (unsched (getFS s img) n).entries x = true →
          AL.contains (unsched (getFS s img) n).sched x = false) ∧
        AL.contains (unsched (getFS s img) n).sched n = false := by
      unfold unsched
      cases hg : AL.get? (getFS s img).sched n with
      | none =>
        simp only
        exact ⟨h.fsDisjoint img, by simp [AL.contains, hg]⟩
      | some e =>
        simp only
        refine ⟨?_, contains_erase_self_of_nodup _ _ hnd⟩
        intro x hx
        rw [AL.contains_set] at hx
        by_cases e' : n = x
        · subst e'; exact contains_erase_self_of_nodup _ _ hnd
        · simp [e'] at hx
          rw [contains_erase_ne _ e']
          exact h.fsDisjoint img x hx
    have h1 : Tidy (setFS s img (unsched (getFS s img) n)) := tidy_setFS h _ _ hu.1
    apply tidy_fsAssign h1
    rw [getFS_setFS]
    exact hu.2

/-! ### external touch-only edits, the test -/

theorem tidy_disk {s : State} (h : Tidy s) (d : Disk) (hd : DiskOk d) : Tidy { s with disk := d } :=
  h.congr rfl rfl rfl rfl rfl rfl hd

theorem tidy_afterTest {s : State} (h : Tidy s) : Tidy (afterTest s) where
  history := h.history
  layersInOrder := by
    intro ln hc
    have hc' : AL.contains (s.font.layers.map (layerAfterTest' s)) ln = true := hc
    unfold AL.contains at hc'
    rw [get?_afterTest_layers] at hc'
    apply h.layersInOrder
    unfold AL.contains
    cases hg : AL.get? s.font.layers ln with
    | none => simp [hg] at hc'
    | some l => rfl
  schedNodup := by
    intro ln l' hg
    have hg' : AL.get? (s.font.layers.map (layerAfterTest' s)) ln = some l' := hg
    rw [get?_afterTest_layers] at hg'
    cases hl : AL.get? s.font.layers ln with
    | none => simp [hl] at hg'
    | some l =>
      simp only [hl, Option.map_some, Option.some.injEq] at hg'
      have hn := h.schedNodup ln l hl
      split at hg'
      · subst hg'
        exact AL.nodup_keys_foldl_erase _ _ hn
      · subst hg'
        exact hn
  imagesDisjoint := h.imagesDisjoint
  dataDisjoint := h.dataDisjoint
  disk := h.disk

theorem tidy_lastReport {s : State} (h : Tidy s) (r : Option Report) : Tidy { s with lastReport := r } :=
  h.congr rfl rfl rfl rfl rfl rfl h.disk

end Ext
end DefconModel
