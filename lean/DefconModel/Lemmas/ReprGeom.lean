/-
The geometry behind `Contour.move`'s in-place patch: the (control-point) bounding box of a
translated point list is the translated box.  Integer coordinates.
-/
import DefconModel.Spec.Repr

namespace DefconModel
namespace Repr

abbrev Pt := Int × Int
abbrev Box := Int × Int × Int × Int

def extend (b : Box) (p : Pt) : Box := (min b.1 p.1, min b.2.1 p.2, max b.2.2.1 p.1, max b.2.2.2 p.2)

/-- `ControlBoundsPen.bounds` of a point list (`None` when nothing was drawn); for line outlines
this is also `BoundsPen.bounds` -/
def boundsOf : List Pt → Option Box
  | [] => none
  | p :: r => some (r.foldl extend (p.1, p.2, p.1, p.2))

def translate (d : Pt) (l : List Pt) : List Pt := l.map fun p => (p.1 + d.1, p.2 + d.2)

def shiftBox (d : Pt) (b : Box) : Box := (b.1 + d.1, b.2.1 + d.2, b.2.2.1 + d.1, b.2.2.2 + d.2)

/-- the statement in `Contour.move`: `if bounds is not None: xMin += x; …` -/
def patchBounds (d : Pt) : Option Box → Option Box := Option.map (shiftBox d)

theorem extend_shift (d : Pt) (b : Box) (p : Pt) :
    extend (shiftBox d b) (p.1 + d.1, p.2 + d.2) = shiftBox d (extend b p) := by
  obtain ⟨b1, b2, b3, b4⟩ := b
  simp only [extend, shiftBox, Prod.mk.injEq]
  refine ⟨?_, ?_, ?_, ?_⟩ <;> omega

theorem foldl_extend_shift (d : Pt) (r : List Pt) (b : Box) :
    (translate d r).foldl extend (shiftBox d b) = shiftBox d (r.foldl extend b) := by
  induction r generalizing b with
  | nil => rfl
  | cons p r ih =>
    simp only [translate, List.map_cons, List.foldl_cons]
    rw [extend_shift]
    exact ih _

theorem bounds_translate (d : Pt) (l : List Pt) : boundsOf (translate d l) = patchBounds d (boundsOf l) := by
  cases l with
  | nil => rfl
  | cons p r =>
    simp only [translate, List.map_cons, boundsOf, patchBounds, Option.map_some, Option.some.injEq]
    have := foldl_extend_shift d r (p.1, p.2, p.1, p.2)
    simpa [translate, shiftBox] using this

theorem translate_translate (a d : Pt) (l : List Pt) :
    translate d (translate a l) = translate (a.1 + d.1, a.2 + d.2) l := by
  simp only [translate, List.map_map]
  apply List.map_congr_left
  intro p _
  simp only [Function.comp, Prod.mk.injEq]
  constructor <;> omega

/-- concrete factories for the two bounds representations over an arbitrary assignment of point lists
to content versions: the box of the stored shape translated by the contour's offset -/
def geomParams (shape : Nat → List Pt) : Params (Option Box) where
  f := fun _ _ toks _ =>
    match toks with
    | [Tok.c ver ox oy] => boundsOf (translate (ox, oy) (shape ver))
    | _ => none
  patch := fun _ v dx dy => patchBounds (dx, dy) v

end Repr
end DefconModel
