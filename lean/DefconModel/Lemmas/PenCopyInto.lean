/-
`copyDataFromGlyph` into a destination that already holds data (M-Pen): what is replaced, what is kept.
-/
import DefconModel.Lemmas.Pen

namespace DefconModel
namespace Pen

variable {R : Type}

theorem releaseAll_sublist (ids xs : List Ident) : (releaseAll ids xs).Sublist ids := by
  induction xs generalizing ids with
  | nil => exact List.Sublist.refl _
  | cons x xs ih =>
    rw [releaseAll_cons]
    exact (ih _).trans List.erase_sublist

/-- the identifiers of the guidelines / anchors a glyph holds, in the order `clearGuidelines` / `clearAnchors`
release them -/
def oldGuideIds (g : Glyph R) : List Ident := g.guidelines.reverse.filterMap (·.ident)
def oldAnchorIds (g : Glyph R) : List Ident := g.anchors.reverse.filterMap (·.ident)

/-- the registry of `dst` after its guidelines and anchors were replaced by those of `src`: the new ones are
registered BEFORE the old ones are released -/
def idsAfterSwap (dst src : Glyph R) : List Ident :=
  releaseAll (releaseAll (dst.ids ++ present (src.guidelines.map (·.ident))) (oldGuideIds dst) ++
    present (src.anchors.map (·.ident))) (oldAnchorIds dst)

/-- the exact result of an accepted copy into a glyph that holds contour objects (not shallow-loaded) -/
theorem copy_into (dst src : Glyph R) (hs : dst.shallow = none)
    (h1 : (dst.ids ++ present (src.guidelines.map (·.ident))).Nodup)
    (h2 : (releaseAll (dst.ids ++ present (src.guidelines.map (·.ident))) (oldGuideIds dst) ++
      present (src.anchors.map (·.ident))).Nodup)
    (h3 : (idsAfterSwap dst src ++ identsOf src.outline src.components).Nodup) :
    copyData dst src =
      .ok { dst with width := src.width, height := src.height, unicodes := src.unicodes, note := src.note,
                     image := src.image, anchors := src.anchors, guidelines := src.guidelines, lib := src.lib,
                     contours := dst.contours ++ src.outline, components := dst.components ++ src.components,
                     ids := idsAfterSwap dst src ++ identsOf src.outline src.components } := by
  unfold copyData
  simp only [claimAll_ok _ _ h1, bind, Except.bind]
  unfold oldGuideIds at h2
  simp only [claimAll_ok _ _ h2, draw_eq_outline]
  unfold idsAfterSwap oldGuideIds oldAnchorIds at h3
  rw [build_outline]
  · rfl
  · exact hs
  · exact h3

/-- identifiers in common are the only obstacle: if no identifier of the source is registered in the
destination, the three acceptance conditions hold -/
theorem copy_into_accepts_of_disjoint (dst src : Glyph R) (hd : (dst.ids ++ src.allIdents).Nodup) :
    (dst.ids ++ present (src.guidelines.map (·.ident))).Nodup ∧
    (releaseAll (dst.ids ++ present (src.guidelines.map (·.ident))) (oldGuideIds dst) ++
      present (src.anchors.map (·.ident))).Nodup ∧
    (idsAfterSwap dst src ++ identsOf src.outline src.components).Nodup := by
  unfold Glyph.allIdents at hd
  have e : dst.ids ++ (present (src.guidelines.map (·.ident)) ++ present (src.anchors.map (·.ident)) ++
      identsOf src.outline src.components) =
      ((dst.ids ++ present (src.guidelines.map (·.ident))) ++ present (src.anchors.map (·.ident))) ++
      identsOf src.outline src.components := by simp [List.append_assoc]
  rw [e] at hd
  have hGA := nodup_left hd
  refine ⟨nodup_left hGA, ?_, ?_⟩
  · exact hGA.sublist ((releaseAll_sublist _ _).append (List.Sublist.refl _))
  · refine hd.sublist (List.Sublist.append ?_ (List.Sublist.refl _))
    unfold idsAfterSwap
    exact (releaseAll_sublist _ _).trans ((releaseAll_sublist _ _).append (List.Sublist.refl _))

end Pen
end DefconModel
