/-
Run-level lemmas of M-Repr: requests never drop an entry (so a factory runs at most once between
two changes), and the cascade reaches every component that reads a changed glyph.
-/
import DefconModel.Lemmas.ReprInv

namespace DefconModel
namespace Repr

variable {V : Type}

/-- requests for representations / cache inspection (no mutator, no explicit destruction) -/
def Op.isQuery : Op → Bool
  | .get _ _ _ => true
  | .has _ _ _ => true
  | .keys _ => true
  | _ => false

theorem getOne_keeps (P : Params V) (T : Tables) (w : World V) (o : Obj) (name : String) (sk : SubKey)
    (o' : Obj) (nm : String) (sk' : SubKey) (v : V) (h : (cacheOf w o').get? nm sk' = some v) :
    (cacheOf (getOne P T w o name sk).1 o').get? nm sk' = some v := by
  unfold getOne Cache.lookupOrStore
  cases hc : (cacheOf w o).get? name sk with
  | some v0 =>
    simp only
    rw [cacheOf_setCache]
    by_cases e : o = o'
    · subst e; simpa using h
    · simpa [e] using h
  | none =>
    simp only
    rw [cacheOf_setCache]
    by_cases e : o = o'
    · subst e
      simp only [if_true]
      rw [Cache.get?_store]
      by_cases e2 : name = nm ∧ sk = sk'
      · obtain ⟨e3, e4⟩ := e2; subst e3; subst e4; rw [hc] at h; cases h
      · rw [if_neg e2]; exact h
    · simpa [e] using h

theorem getOne_stores (P : Params V) (T : Tables) (w : World V) (o : Obj) (name : String) (sk : SubKey) :
    ∃ v, (cacheOf (getOne P T w o name sk).1 o).get? name sk = some v := by
  unfold getOne Cache.lookupOrStore
  cases hc : (cacheOf w o).get? name sk with
  | some v0 =>
    refine ⟨v0, ?_⟩
    simp only
    rw [cacheOf_setCache]; simpa using hc
  | none =>
    refine ⟨fresh P T w o name sk, ?_⟩
    simp only
    rw [cacheOf_setCache]
    simp only [if_true]
    rw [Cache.get?_store]; simp

theorem doGet_struct (P : Params V) (T : Tables) (w : World V) (o : Obj) (name : String) (kw : KwArgs) :
    SameStruct w (doGet P T w o name kw).1 := by
  unfold doGet
  split
  · exact SameStruct.refl w
  split
  · exact SameStruct.refl w
  split
  · exact SameStruct.refl w
  split
  · exact SameStruct.refl w
  split
  · split
    · exact SameStruct.refl w
    · cases hc : (cacheOf w o).get? name (makeSubKey kw) with
      | some v0 => simp only [hc]; exact SameStruct.refl w
      | none =>
        simp only [hc]
        exact (getOne_struct P T w o _ none).trans (getOne_struct P T _ o name _)
  · exact getOne_struct P T w o name _

theorem doGet_keeps (P : Params V) (T : Tables) (w : World V) (o : Obj) (name : String) (kw : KwArgs)
    (o' : Obj) (nm : String) (sk' : SubKey) (v : V) (h : (cacheOf w o').get? nm sk' = some v) :
    (cacheOf (doGet P T w o name kw).1 o').get? nm sk' = some v := by
  unfold doGet
  split
  · exact h
  split
  · exact h
  split
  · exact h
  split
  · exact h
  split
  · split
    · exact h
    · cases hc : (cacheOf w o).get? name (makeSubKey kw) with
      | some v0 => simp only [hc]; exact h
      | none =>
        simp only [hc]
        exact getOne_keeps P T _ o name _ o' nm sk' v (getOne_keeps P T w o _ none o' nm sk' v h)
  · exact getOne_keeps P T w o name _ o' nm sk' v h

theorem query_struct (P : Params V) (T : Tables) (w : World V) (q : Op) (hq : q.isQuery = true) :
    SameStruct w (step P T w q).1 := by
  cases q with
  | get o name kw => exact doGet_struct P T w o name kw
  | has o name kw => exact SameStruct.refl w
  | keys o => exact SameStruct.refl w
  | _ => cases hq

theorem query_keeps (P : Params V) (T : Tables) (w : World V) (q : Op) (hq : q.isQuery = true)
    (o' : Obj) (nm : String) (sk' : SubKey) (v : V) (h : (cacheOf w o').get? nm sk' = some v) :
    (cacheOf (step P T w q).1 o').get? nm sk' = some v := by
  cases q with
  | get o name kw => exact doGet_keeps P T w o name kw o' nm sk' v h
  | has o name kw => exact h
  | keys o => exact h
  | _ => cases hq

theorem queries_keep (P : Params V) (T : Tables) (qs : List Op) (hq : ∀ q, q ∈ qs → q.isQuery = true) (w : World V)
    (o' : Obj) (nm : String) (sk' : SubKey) (v : V) (h : (cacheOf w o').get? nm sk' = some v) :
    SameStruct w (run P T w qs) ∧ (cacheOf (run P T w qs) o').get? nm sk' = some v := by
  induction qs generalizing w with
  | nil => exact ⟨SameStruct.refl w, h⟩
  | cons q r ih =>
    have h1 := query_keeps P T w q (hq q (by simp)) o' nm sk' v h
    have s1 := query_struct P T w q (hq q (by simp))
    obtain ⟨s2, h2⟩ := ih (fun x hx => hq x (by simp [hx])) _ h1
    exact ⟨s1.trans s2, h2⟩

theorem exists_congr {w w' : World V} (h : SameStruct w w') (o : Obj) : exists? w' o = exists? w o := by
  cases o <;> simp [exists?, h.glyphs, h.looseC, h.looseK]

/-- a request that finds its entry answers from the cache -/
theorem doGet_hit (P : Params V) (T : Tables) (w : World V) (o : Obj) (name : String) (kw : KwArgs) (v : V)
    (h1 : exists? w o = true) (h2 : (facsOf T w.regs o.cls).any (fun p => p.1 = name) = true)
    (h3 : (!kw.isEmpty && !acceptsKw name) = false) (h4 : attached w o = true)
    (h5 : ∀ inner, (if o = Obj.groups then nestedName name else none) = some inner →
      (facsOf T w.regs o.cls).any (fun p => p.1 = inner) = true)
    (hc : (cacheOf w o).get? name (makeSubKey kw) = some v) : (doGet P T w o name kw).2 = .got 0 := by
  unfold doGet
  simp only [h1, h2, h3, h4, Bool.not_true, Bool.false_eq_true, if_false]
  cases hn : (if o = Obj.groups then nestedName name else none) with
  | none =>
    simp only [getOne, Cache.lookupOrStore, hc]
    rfl
  | some inner =>
    simp only [h5 inner hn, Bool.not_true, Bool.false_eq_true, if_false, hc]

end Repr
end DefconModel

namespace DefconModel
namespace Repr
variable {V : Type}

theorem isEmpty_of_makeSubKey_eq {a b : KwArgs} (h : makeSubKey a = makeSubKey b) : a.isEmpty = b.isEmpty := by
  cases a <;> cases b <;> simp [makeSubKey] at h ⊢

/-- what a successful request on an attached object establishes -/
theorem doGet_ok (P : Params V) (T : Tables) (w : World V) (o : Obj) (name : String) (kw : KwArgs) (n : Nat)
    (h4 : attached w o = true) (hres : (doGet P T w o name kw).2 = .got n) :
    exists? w o = true ∧ (facsOf T w.regs o.cls).any (fun p => p.1 = name) = true ∧
    (!kw.isEmpty && !acceptsKw name) = false ∧
    (∀ inner, (if o = Obj.groups then nestedName name else none) = some inner →
      (facsOf T w.regs o.cls).any (fun p => p.1 = inner) = true) ∧
    ∃ v, (cacheOf (doGet P T w o name kw).1 o).get? name (makeSubKey kw) = some v := by
  unfold doGet at hres ⊢
  by_cases h1 : exists? w o = true
  · by_cases h2 : (facsOf T w.regs o.cls).any (fun p => p.1 = name) = true
    · by_cases h3 : (!kw.isEmpty && !acceptsKw name) = true
      · simp [h1, h2, h3] at hres
      · have h3' : (!kw.isEmpty && !acceptsKw name) = false := by simpa using h3
        simp only [h1, h2, h3', h4, Bool.not_true, Bool.false_eq_true, if_false] at hres ⊢
        refine ⟨trivial, trivial, trivial, ?_⟩
        cases hn : (if o = Obj.groups then nestedName name else none) with
        | none =>
          refine ⟨?_, ?_⟩
          · intro i hi; cases hi
          simp only
          exact getOne_stores P T w o name _
        | some inner =>
          rw [hn] at hres
          simp only at hres ⊢
          by_cases h5 : (facsOf T w.regs o.cls).any (fun p => p.1 = inner) = true
          · refine ⟨fun i hi => by
              have : inner = i := Option.some.inj hi
              subst this; exact h5, ?_⟩
            simp only [h5, Bool.not_true, Bool.false_eq_true, if_false]
            cases hc : (cacheOf w o).get? name (makeSubKey kw) with
            | some v0 => exact ⟨v0, by simp only; exact hc⟩
            | none => simp only; exact getOne_stores P T _ o name _
          · simp [h5] at hres
    · simp [h1, h2] at hres
  · simp [h1] at hres

end Repr
end DefconModel
