/-
Helper lemmas for C05 (M-Ext), round 3: glyph creation and glyph renaming.

`SyncedM` — in step with the UFO except for glyphs that exist in memory only — is kept by reading,
editing, deleting, creating and renaming glyphs (and by reading / editing top-level objects and
layer info); the report of a `SyncedM` state names nothing but, as deleted, exactly the glyphs that
exist in memory only (finding F8.1); a state of `SyncedM` without such glyphs is `Synced`.
-/
import DefconModel.Lemmas.ExtStep

namespace DefconModel
namespace Ext

theorem SaveCore.toM {s : State} (c : SaveCore s) (hr : s.zip = true → stripTimes s.reader = stripTimes s.disk) :
    SyncedM s := ⟨c.parts, c.order, c.default, c.layers, c.images, c.data, hr, c.nodupOrder⟩

/-! ### top-level objects -/

theorem syncedM_loadPart {s : State} (h : SyncedM s) (p : Part) : SyncedM (loadPart s p) := by
  obtain ⟨h1, h2, h3, _⟩ := loadPart_font s p
  exact (core_loadPart h.core p).toM (by rw [h1, h2, h3]; exact h.reader)

theorem syncedM_setPart {s : State} (h : SyncedM s) (p : Part) (mp : MPart)
    (hmp : mp.stamp.data = diskData s.disk p) : SyncedM (setPart s p mp) :=
  (core_setPart h.core p mp hmp).toM h.reader

theorem syncedM_psetPart {s : State} (h : SyncedM s) (p : Part) (v : Blob) : SyncedM (psetPart s p v) := by
  unfold psetPart
  have h1 := syncedM_loadPart h p
  cases hg : getPart (loadPart s p) p with
  | none => simpa [hg] using h1
  | some mp =>
    simp only [hg]
    exact syncedM_setPart h1 p _ (h1.parts p mp hg)

theorem syncedM_reloadPart {s : State} (h : SyncedM s) (p : Part) : SyncedM (reloadPart s p) := by
  unfold reloadPart
  cases hg : getPart s p with
  | none => simpa [hg] using syncedM_loadPart h p
  | some mp => simpa [hg] using syncedM_setPart h p _ (stampOf_data s.disk p)

/-! ### what the reader sees -/

theorem view_glif_of_reader {s : State} (hr : s.zip = true → stripTimes s.reader = stripTimes s.disk) (ln gn : String) :
    (glifOf (view s) ln gn).map (·.blob) = (glifOf s.disk ln gn).map (·.blob) := by
  unfold view
  by_cases hz : s.zip = true
  · have e := congrArg (fun d => glifOf d ln gn) (hr hz)
    simp only [stripTimes, glifOf_retime] at e
    have r1 : glifOf { s.reader with parts := [] } ln gn = glifOf s.reader ln gn := rfl
    have r2 : glifOf { s.disk with parts := [] } ln gn = glifOf s.disk ln gn := rfl
    rw [r1, r2] at e
    simp only [hz, if_true]
    cases h1 : glifOf s.reader ln gn <;> cases h2 : glifOf s.disk ln gn <;> simp [h1, h2] at e ⊢
    exact e
  · simp [hz]

theorem view_glif_M {s : State} (h : SyncedM s) {ln gn : String} {dl : DLayer} {f : File}
    (hdl : AL.get? s.disk.layers ln = some dl) (hf : glifOf (view s) ln gn = some f) :
    ∃ f', AL.get? dl.glifs gn = some f' ∧ f'.blob = f.blob := by
  have e := view_glif_of_reader h.reader ln gn
  rw [hf, glifOf_eq s.disk ln gn dl hdl] at e
  cases h2 : AL.get? dl.glifs gn with
  | none => simp [h2] at e
  | some f' => simp [h2] at e; exact ⟨f', rfl, e.symm⟩

theorem disk_glif_in_view_M {s : State} (h : SyncedM s) {ln gn : String} {dl : DLayer} {f' : File}
    (hdl : AL.get? s.disk.layers ln = some dl) (hf : AL.get? dl.glifs gn = some f') :
    ∃ f, glifOf (view s) ln gn = some f ∧ f'.blob = f.blob := by
  have e := view_glif_of_reader h.reader ln gn
  rw [glifOf_eq s.disk ln gn dl hdl, hf] at e
  cases h2 : glifOf (view s) ln gn with
  | none => simp [h2] at e
  | some f => simp [h2] at e; exact ⟨f, rfl, e.symm⟩

/-! ### layers -/

theorem syncedM_setLayer {s : State} (h : SyncedM s) (ln : String) (l' : MLayer)
    (hl : ∀ dl, AL.get? s.disk.layers ln = some dl → LayerSyncedM ln dl l') : SyncedM (setLayer s ln l') where
  parts := h.parts
  order := h.order
  default := h.default
  layers := by
    intro ln' hln'
    obtain ⟨l, dl, h1, h2, h3⟩ := h.layers ln' hln'
    by_cases e : ln = ln'
    · subst e
      exact ⟨l', dl, by simp [setLayer], h2, hl dl h2⟩
    · exact ⟨l, dl, by simp [setLayer, e, h1], h2, h3⟩
  images := h.images
  data := h.data
  reader := h.reader
  nodupOrder := h.nodupOrder

theorem SyncedM.layerOf' {s : State} (h : SyncedM s) {ln : String} {l : MLayer} (hl : getLayer s ln = some l) :
    ∀ dl, AL.get? s.disk.layers ln = some dl → LayerSyncedM ln dl l := by
  intro dl hdl
  have hord : ln ∈ s.font.order := by
    rw [h.order]; exact AL.mem_keys_of_get? hdl
  obtain ⟨l0, dl', h1, h2, h3⟩ := h.layers ln hord
  unfold getLayer at hl
  rw [h1] at hl
  injection hl with hl
  subst hl
  rw [hdl] at h2
  injection h2 with h2
  subst h2
  exact h3

theorem memOnly_set_ne {l : MLayer} {gn x : String} (g : MGlyph) (hne : gn ≠ x) (h : MemOnly l x) :
    MemOnly { l with glyphs := AL.set l.glyphs gn g } x := by
  obtain ⟨g0, h1, h2⟩ := h
  exact ⟨g0, by simp only; rw [AL.get?_set_ne _ _ _ _ hne]; exact h1, h2⟩

/-- the layer after a successful lazy load -/
theorem layerSyncedM_load {ln : String} {dl : DLayer} {l : MLayer} (h : LayerSyncedM ln dl l) {gn : String} {f f' : File}
    (hf' : AL.get? dl.glifs gn = some f') (hb : f'.blob = f.blob) (hs : AL.contains l.sched gn = false)
    (hun : AL.get? l.glyphs gn = none) (value : Blob) (dirty : Bool) :
    LayerSyncedM ln dl { l with glyphs := AL.set l.glyphs gn ⟨value, dirty, some f⟩, keys := setAdd l.keys gn } where
  info := h.info
  onDisk := by
    intro x hx
    simp only [mem_setAdd]
    rcases h.onDisk x hx with h1 | h1
    · exact Or.inl (Or.inl h1)
    · exact Or.inr h1
  known := by
    intro x hx
    simp only [mem_setAdd] at hx
    rcases hx with h1 | h1
    · rcases h.known x h1 with h2 | h2
      · exact Or.inl h2
      · right
        obtain ⟨g0, hg0, hd⟩ := h2
        have hne : gn ≠ x := by intro e; subst e; rw [hun] at hg0; cases hg0
        exact ⟨g0, by simp only; rw [AL.get?_set_ne _ _ _ _ hne]; exact hg0, hd⟩
    · subst h1; exact Or.inl (AL.mem_keys_of_get? hf')
  schedOnDisk := h.schedOnDisk
  disjoint := by
    intro x hx
    simp only [mem_setAdd] at hx
    rcases hx with h1 | h1
    · exact h.disjoint x h1
    · subst h1; exact hs
  glyphs := by
    intro x g st hm hst hon
    rcases AL.mem_set hm with h1 | h1
    · injection h1 with h1 h2
      subst h1; subst h2
      simp only at hst
      injection hst with hst
      subst hst
      exact ⟨f', hf', hb⟩
    · exact h.glyphs x g st h1 hst hon
  sched := h.sched
  gs := h.gs
  loaded := by
    intro x g hm
    rw [mem_setAdd]
    rcases AL.mem_set hm with h1 | h1
    · injection h1 with h1 _; exact Or.inr h1
    · exact Or.inl (h.loaded x g h1)
  nodupGlyphs := AL.nodup_keys_set _ _ _ h.nodupGlyphs

theorem syncedM_loadGlyph {s s' : State} (h : SyncedM s) {ln gn : String} {l : MLayer} {g : MGlyph}
    (hl : getLayer s ln = some l) (hun : AL.get? l.glyphs gn = none) (hr : loadGlyph s ln l gn = .ok (s', g)) :
    SyncedM s' ∧ ∃ l', getLayer s' ln = some l' ∧ AL.get? l'.glyphs gn = some g := by
  unfold loadGlyph at hr
  cases hgs : l.gs with
  | none => simp [hgs] at hr
  | some b =>
    simp only [hgs] at hr
    by_cases hc : gn ∉ b.contents ∨ AL.contains l.sched gn = true
    · simp [hc] at hr
    · simp only [hc, if_false] at hr
      cases hrd : gsRead s b gn with
      | error e => simp [hrd] at hr
      | ok f =>
        simp only [hrd] at hr
        injection hr with hr
        injection hr with hs' hg
        subst hs'; subst hg
        obtain ⟨_, hv⟩ := gsRead_ok hrd
        have hsc : AL.contains l.sched gn = false := by
          cases hx : AL.contains l.sched gn with
          | false => rfl
          | true => exact absurd (Or.inr hx) hc
        refine ⟨syncedM_setLayer h ln _ ?_, ?_⟩
        · intro dl hdl
          have hs := h.layerOf' hl dl hdl
          obtain ⟨b', hb1, hb2, _, _⟩ := hs.gs
          rw [hgs] at hb1
          injection hb1 with hb1
          subst hb1
          rw [hb2] at hv
          obtain ⟨f', hf', hbl⟩ := view_glif_M h hdl hv
          have key := layerSyncedM_load hs hf' hbl hsc hun f.blob false
          rw [hgs] at key
          exact key
        · exact ⟨_, by unfold getLayer setLayer; exact AL.get?_set_self _ _ _, AL.get?_set_self _ _ _⟩

theorem syncedM_getGlyph {s s' : State} (h : SyncedM s) {ln gn : String} {g : MGlyph}
    (hr : getGlyph s ln gn = .ok (s', g)) :
    SyncedM s' ∧ ∃ l', getLayer s' ln = some l' ∧ AL.get? l'.glyphs gn = some g := by
  unfold getGlyph at hr
  cases hl : getLayer s ln with
  | none => simp [hl] at hr
  | some l =>
    simp only [hl] at hr
    cases hg : AL.get? l.glyphs gn with
    | some g0 =>
      simp only [hg] at hr
      injection hr with hr
      injection hr with h1 h2
      subst h1; subst h2
      exact ⟨h, l, hl, hg⟩
    | none =>
      simp only [hg] at hr
      exact syncedM_loadGlyph h hl hg hr

/-- changing the value of a loaded glyph (it becomes dirty), the stamp kept -/
theorem layerSyncedM_setValue {ln : String} {dl : DLayer} {l : MLayer} (h : LayerSyncedM ln dl l) {gn : String} {g : MGlyph}
    (hg : AL.get? l.glyphs gn = some g) (value : Blob) :
    LayerSyncedM ln dl { l with glyphs := AL.set l.glyphs gn { g with value := value, dirty := true } } where
  info := h.info
  onDisk := h.onDisk
  known := by
    intro x hx
    rcases h.known x hx with h1 | h1
    · exact Or.inl h1
    · right
      by_cases e : gn = x
      · subst e; exact ⟨_, AL.get?_set_self _ _ _, rfl⟩
      · exact memOnly_set_ne _ e h1
  schedOnDisk := h.schedOnDisk
  disjoint := h.disjoint
  glyphs := by
    intro x g' st hm hst hon
    rcases AL.mem_set hm with h1 | h1
    · injection h1 with h1 h2
      subst h1; subst h2
      exact h.glyphs x g st (AL.mem_of_get? hg) hst hon
    · exact h.glyphs x g' st h1 hst hon
  sched := h.sched
  gs := h.gs
  loaded := by
    intro x g' hm
    rcases AL.mem_set hm with h1 | h1
    · injection h1 with h1 _; subst h1; exact h.loaded _ g (AL.mem_of_get? hg)
    · exact h.loaded x g' h1
  nodupGlyphs := AL.nodup_keys_set _ _ _ h.nodupGlyphs

theorem syncedM_setGlyph {s s' : State} (h : SyncedM s) {ln gn : String} {v : Blob}
    (hr : setGlyph s ln gn v = .ok s') : SyncedM s' := by
  unfold setGlyph at hr
  cases hg : getGlyph s ln gn with
  | error e => simp [hg] at hr
  | ok r =>
    obtain ⟨s1, g⟩ := r
    simp only [hg] at hr
    obtain ⟨h1, l', hl', hm⟩ := syncedM_getGlyph h hg
    simp only [hl'] at hr
    injection hr with hr
    subst hr
    exact syncedM_setLayer h1 ln _ fun dl hdl => layerSyncedM_setValue (h1.layerOf' hl' dl hdl) hm _

theorem syncedM_setLayerInfo {s s' : State} (h : SyncedM s) {ln : String} {v : Blob}
    (hr : setLayerInfo s ln v = .ok s') : SyncedM s' := by
  unfold setLayerInfo at hr
  cases hl : getLayer s ln with
  | none => simp [hl] at hr
  | some l =>
    simp only [hl] at hr
    injection hr with hr
    subst hr
    refine syncedM_setLayer h ln _ fun dl hdl => ?_
    have hs := h.layerOf' hl dl hdl
    exact ⟨hs.info, hs.onDisk, hs.known, hs.schedOnDisk, hs.disjoint, hs.glyphs, hs.sched, hs.gs, hs.loaded, hs.nodupGlyphs⟩

/-! ### deleting, creating, renaming -/

theorem contains_erase_le {κ α : Type} [DecidableEq κ] (l : List (κ × α)) (k x : κ) (hn : (AL.keys l).Nodup)
    (h : AL.contains (AL.erase l k) x = true) : AL.contains l x = true ∧ x ≠ k := by
  by_cases e : k = x
  · subst e
    rw [contains_erase_self_of_nodup _ _ hn] at h
    cases h
  · rw [contains_erase_ne _ e] at h
    exact ⟨h, fun e' => e e'.symm⟩

/-- the stamp recorded for a deletion is the state of the file on disk, bytes-wise -/
theorem schedStamp_spec {s : State} (h : SyncedM s) {ln gn : String} {l : MLayer} {dl : DLayer} {b : GS} {f' : File}
    (hdl : AL.get? s.disk.layers ln = some dl) (hs : LayerSyncedM ln dl l) (hgs : l.gs = some b)
    (hf' : AL.get? dl.glifs gn = some f') :
    ∃ st', schedStamp s l b gn = some st' ∧ f'.blob = st'.blob := by
  obtain ⟨b', hb1, hb2, hb3, _⟩ := hs.gs
  rw [hgs] at hb1
  injection hb1 with hb1
  subst hb1
  unfold schedStamp
  split
  · rename_i f hbind
    cases hg : AL.get? l.glyphs gn with
    | none => simp [hg] at hbind
    | some g =>
      simp [hg] at hbind
      obtain ⟨f2, hf2, hb2'⟩ := hs.glyphs gn g f (AL.mem_of_get? hg) hbind (AL.mem_keys_of_get? hf')
      rw [hf'] at hf2
      injection hf2 with hf2
      subst hf2
      exact ⟨f, rfl, hb2'⟩
  · simp only [hb3, Bool.not_true, Bool.false_eq_true, if_false]
    obtain ⟨f, hv, hbl⟩ := disk_glif_in_view_M h hdl hf'
    rw [hb2, hv]
    exact ⟨f, rfl, hbl⟩

/-- the layer after `del layer[gn]` -/
theorem layerSyncedM_del {s : State} (hS : SyncedM s) {ln : String} {dl : DLayer} {l : MLayer}
    (hdl : AL.get? s.disk.layers ln = some dl) (h : LayerSyncedM ln dl l) (gn : String)
    (hn : (AL.keys l.sched).Nodup) (hk : gn ∈ l.keys) :
    LayerSyncedM ln dl { l with glyphs := AL.erase l.glyphs gn, keys := setDel l.keys gn,
                                sched := schedAfterDelete s l gn } := by
  obtain ⟨b, hgs, hb2, hb3, hb4⟩ := h.gs
  have hsd : ∀ x, AL.contains (schedAfterDelete s l gn) x = true →
      (AL.contains l.sched x = true ∨ (x = gn ∧ gn ∈ AL.keys dl.glifs)) := by
    intro x hx
    unfold schedAfterDelete at hx
    rw [hgs] at hx
    simp only at hx
    split at hx
    · rename_i hc
      rw [AL.contains_set] at hx
      by_cases e : gn = x
      · exact Or.inr ⟨e.symm, (hb4 gn).1 hc⟩
      · simp [e] at hx; exact Or.inl hx
    · exact Or.inl hx
  have hsd2 : ∀ x, AL.contains l.sched x = true → AL.contains (schedAfterDelete s l gn) x = true := by
    intro x hx
    unfold schedAfterDelete
    rw [hgs]
    simp only
    split
    · rw [AL.contains_set]; simp [hx]
    · exact hx
  have hgnS : gn ∈ AL.keys dl.glifs → AL.contains (schedAfterDelete s l gn) gn = true := by
    intro hon
    unfold schedAfterDelete
    rw [hgs]
    simp only [(hb4 gn).2 hon, if_true]
    rw [AL.contains_set]; simp
  exact {
    info := h.info
    onDisk := by
      intro x hx
      simp only [mem_setDel]
      by_cases e : x = gn
      · subst e; exact Or.inr (hgnS hx)
      · rcases h.onDisk x hx with h1 | h1
        · exact Or.inl ⟨h1, e⟩
        · exact Or.inr (hsd2 x h1)
    known := by
      intro x hx
      simp only [mem_setDel] at hx
      rcases h.known x hx.1 with h1 | ⟨g0, hg0, hd⟩
      · exact Or.inl h1
      · right
        exact ⟨g0, by simp only; rw [AL.get?_erase_ne _ _ _ (fun e => hx.2 e.symm)]; exact hg0, hd⟩
    schedOnDisk := by
      intro x hx
      rcases hsd x hx with h1 | ⟨h1, h2⟩
      · exact h.schedOnDisk x h1
      · subst h1; exact h2
    disjoint := by
      intro x hx
      simp only [mem_setDel] at hx
      cases hc : AL.contains (schedAfterDelete s l gn) x with
      | false => rfl
      | true =>
        rcases hsd x hc with h1 | ⟨h1, _⟩
        · rw [h.disjoint x hx.1] at h1; cases h1
        · exact absurd h1 hx.2
    glyphs := fun x g st hm hst hon => h.glyphs x g st (AL.mem_erase hm) hst hon
    sched := by
      intro x st hg
      unfold schedAfterDelete at hg
      rw [hgs] at hg
      simp only at hg
      split at hg
      · rename_i hc
        rw [AL.get?_set] at hg
        by_cases e : gn = x
        · subst e
          simp at hg
          have hon := (hb4 gn).1 hc
          obtain ⟨f', hf'⟩ := AL_get?_some_of_contains ((AL_mem_keys_iff_contains _ _).1 hon)
          obtain ⟨st', hst', hbl⟩ := schedStamp_spec hS hdl h hgs hf'
          rw [hst'] at hg
          exact ⟨f', st', hf', hg.symm, hbl⟩
        · simp [e] at hg
          exact h.sched x st hg
      · exact h.sched x st hg
    gs := h.gs
    loaded := by
      intro x g hm
      rw [mem_setDel]
      exact ⟨h.loaded x g (AL.mem_erase hm), mem_erase_ne h.nodupGlyphs hm⟩
    nodupGlyphs := AL.nodup_keys_erase _ _ h.nodupGlyphs }

theorem delGlyph_eq {s : State} {ln gn : String} {l : MLayer} (hl : getLayer s ln = some l) (hin : inLayer l gn = true) :
    (delGlyph s ln gn).1 = afterDelete (setLayer s ln { l with glyphs := AL.erase l.glyphs gn, keys := setDel l.keys gn,
                                                               sched := schedAfterDelete s l gn }) gn := by
  unfold delGlyph schedAfterDelete
  simp only [hl, hin, Bool.true_eq_false, if_false]
  cases l.gs with
  | none => rfl
  | some b =>
    simp only
    split <;> rfl

theorem syncedM_afterDelete {s : State} (h : SyncedM s) (gn : String) : SyncedM (afterDelete s gn) := by
  unfold afterDelete
  split
  · exact h
  · exact syncedM_loadPart h _

theorem syncedM_delGlyph {s : State} (h : SyncedM s) (ht : Tidy s) (ln gn : String) : SyncedM (delGlyph s ln gn).1 := by
  cases hl : getLayer s ln with
  | none => unfold delGlyph; simp only [hl]; exact h
  | some l =>
    cases hin : inLayer l gn with
    | false => unfold delGlyph; simp only [hl, hin, if_true]; exact h
    | true =>
      rw [delGlyph_eq hl hin]
      apply syncedM_afterDelete
      refine syncedM_setLayer h ln _ fun dl hdl => ?_
      exact layerSyncedM_del h hdl (h.layerOf' hl dl hdl) gn (ht.schedNodup ln l hl) (inLayer_keys hin)

/-- the layer after `newGlyph(gn)` -/
theorem layerSyncedM_new {ln : String} {dl : DLayer} {l : MLayer} (h : LayerSyncedM ln dl l) (gn : String) (e : Blob)
    (hn : (AL.keys l.sched).Nodup) :
    LayerSyncedM ln dl { l with glyphs := AL.set l.glyphs gn ⟨e, true, none⟩, sched := AL.erase l.sched gn,
                                keys := setAdd l.keys gn } where
  info := h.info
  onDisk := by
    intro x hx
    simp only [mem_setAdd]
    by_cases e' : x = gn
    · exact Or.inl (Or.inr e')
    · rcases h.onDisk x hx with h1 | h1
      · exact Or.inl (Or.inl h1)
      · right; rw [contains_erase_ne _ (fun e'' => e' e''.symm)]; exact h1
  known := by
    intro x hx
    simp only [mem_setAdd] at hx
    by_cases e' : gn = x
    · subst e'; exact Or.inr ⟨_, AL.get?_set_self _ _ _, rfl⟩
    · rcases hx with h1 | h1
      · rcases h.known x h1 with h2 | h2
        · exact Or.inl h2
        · exact Or.inr (memOnly_set_ne _ e' h2)
      · exact absurd h1.symm e'
  schedOnDisk := fun x hx => h.schedOnDisk x (contains_erase_le _ _ _ hn hx).1
  disjoint := by
    intro x hx
    simp only [mem_setAdd] at hx
    by_cases e' : gn = x
    · subst e'; exact contains_erase_self_of_nodup _ _ hn
    · rw [contains_erase_ne _ e']
      rcases hx with h1 | h1
      · exact h.disjoint x h1
      · exact absurd h1.symm e'
  glyphs := by
    intro x g st hm hst hon
    rcases AL.mem_set hm with h1 | h1
    · injection h1 with h1 h2
      subst h2
      simp at hst
    · exact h.glyphs x g st h1 hst hon
  sched := by
    intro x st hg
    by_cases e' : gn = x
    · subst e'
      rw [AL.get?_erase_self_of_nodup _ _ hn] at hg
      cases hg
    · rw [AL.get?_erase_ne _ _ _ e'] at hg
      exact h.sched x st hg
  gs := h.gs
  loaded := by
    intro x g hm
    rw [mem_setAdd]
    rcases AL.mem_set hm with h1 | h1
    · injection h1 with h1 _; exact Or.inr h1
    · exact Or.inl (h.loaded x g h1)
  nodupGlyphs := AL.nodup_keys_set _ _ _ h.nodupGlyphs

theorem syncedM_newGlyph {s s' : State} (h : SyncedM s) (ht : Tidy s) {ln gn : String}
    (hr : newGlyph s ln gn = .ok s') : SyncedM s' := by
  unfold newGlyph at hr
  cases hl : getLayer s ln with
  | none => simp [hl] at hr
  | some l =>
    simp only [hl] at hr
    injection hr with hr
    subst hr
    apply syncedM_loadPart
    refine syncedM_setLayer h ln _ fun dl hdl => ?_
    exact layerSyncedM_new (h.layerOf' hl dl hdl) gn _ (ht.schedNodup ln l hl)

/-- the layer after `layer[old].name = new` (old ≠ new, the glyph `old` loaded) -/
theorem layerSyncedM_rename {s : State} (hS : SyncedM s) {ln : String} {dl : DLayer} {l : MLayer}
    (hdl : AL.get? s.disk.layers ln = some dl) (h : LayerSyncedM ln dl l) {old new : String} {g : MGlyph}
    (hne : old ≠ new) (hg : AL.get? l.glyphs old = some g) (hn : (AL.keys l.sched).Nodup) :
    LayerSyncedM ln dl { l with glyphs := AL.set (AL.erase l.glyphs old) new ⟨g.value, true, none⟩
                                keys := setAdd (setDel l.keys old) new
                                sched := AL.erase (schedAfterDelete s l old) new } := by
  have hk : old ∈ l.keys := h.loaded old g (AL.mem_of_get? hg)
  have hd := layerSyncedM_del hS hdl h old hn hk
  have hn2 : (AL.keys (schedAfterDelete s l old)).Nodup := nodup_schedAfterDelete _ _ _ hn
  have key := layerSyncedM_new hd new g.value hn2
  exact key

theorem syncedM_renameGlyph {s : State} (h : SyncedM s) (ht : Tidy s) (ln old new : String) :
    SyncedM (renameGlyph s ln old new).1 := by
  unfold renameGlyph
  cases hg : getGlyph s ln old with
  | error e => exact h
  | ok r =>
    obtain ⟨s1, g⟩ := r
    simp only
    obtain ⟨h1, l', hl', hg'⟩ := syncedM_getGlyph h hg
    have t1 := tidy_getGlyph ht hg
    by_cases hne : old = new
    · simp only [hne, if_true]; exact h1
    · simp only [hne, if_false, hl']
      apply syncedM_loadPart
      refine syncedM_setLayer h1 ln _ fun dl hdl => ?_
      exact layerSyncedM_rename h1 hdl (h1.layerOf' hl' dl hdl) hne hg' (t1.schedNodup ln l' hl')

/-! ### from `SyncedM` back to `Synced` -/

theorem LayerSyncedM.toStrict {ln : String} {dl : DLayer} {l : MLayer} (h : LayerSyncedM ln dl l)
    (hall : ∀ gn, gn ∈ l.keys → gn ∈ AL.keys dl.glifs) : LayerSynced ln dl l where
  info := h.info
  names := by
    intro gn
    constructor
    · exact h.onDisk gn
    · rintro (h1 | h1)
      · exact hall gn h1
      · exact h.schedOnDisk gn h1
  disjoint := h.disjoint
  glyphs := fun gn g st hm hst => h.glyphs gn g st hm hst (hall gn (h.loaded gn g hm))
  sched := h.sched
  gs := h.gs
  loaded := h.loaded
  nodupGlyphs := h.nodupGlyphs

/-- a font in step except for memory-only glyphs that holds no such glyph is in step -/
theorem SyncedM.toSynced {s : State} (h : SyncedM s)
    (hall : ∀ ln l, ln ∈ s.font.order → getLayer s ln = some l → ∀ gn, gn ∈ l.keys → gn ∈ glifNames s.disk ln) :
    Synced s where
  parts := h.parts
  order := h.order
  default := h.default
  layers := by
    intro ln hln
    obtain ⟨l, dl, h1, h2, h3⟩ := h.layers ln hln
    refine ⟨l, dl, h1, h2, h3.toStrict ?_⟩
    intro gn hk
    have := hall ln l hln h1 gn hk
    rwa [mem_glifNames s.disk ln gn dl h2] at this
  images := h.images
  data := h.data
  reader := h.reader
  nodupOrder := h.nodupOrder


/-! ### the report of a font that is in step except for memory-only glyphs -/

theorem layerModified_M {d : Disk} {ln : String} {dl : DLayer} {l : MLayer}
    (hd : AL.get? d.layers ln = some dl) (h : LayerSyncedM ln dl l) : layerModified d ln l = [] := by
  unfold layerModified
  rw [List.filterMap_eq_nil_iff]
  intro p hp
  obtain ⟨gn, g⟩ := p
  unfold isModifiedGlyph
  cases hs : g.stamp with
  | none => simp only [hs]; split <;> simp_all
  | some st =>
    simp only [glifOf_eq d ln gn dl hd]
    cases hf : AL.get? dl.glifs gn with
    | none => rfl
    | some f =>
      obtain ⟨f2, hf2, hb⟩ := h.glyphs gn g st hp hs (AL.mem_keys_of_get? hf)
      rw [hf] at hf2
      injection hf2 with hf2
      subst hf2
      simp [fileChanged_false_of_blob hb]

theorem layerAdded_M {d : Disk} {ln : String} {dl : DLayer} {l : MLayer}
    (hd : AL.get? d.layers ln = some dl) (h : LayerSyncedM ln dl l) : layerAdded d ln l = [] := by
  unfold layerAdded
  rw [List.filter_eq_nil_iff]
  intro gn hgn
  rw [mem_glifNames d ln gn dl hd] at hgn
  unfold isAddedGlyph
  by_cases hk : gn ∈ l.keys
  · simp [hk]
  · rcases h.onDisk gn hgn with hk' | hsc
    · exact absurd hk' hk
    · obtain ⟨st, hst⟩ := AL_get?_some_of_contains hsc
      obtain ⟨f, st', hf, hst', hb⟩ := h.sched gn st hst
      subst hst'
      simp [hst, glifOf_eq d ln gn dl hd, hf, fileChanged_false_of_blob hb]

/-- what such a layer lists as deleted are exactly its memory-only glyphs -/
theorem mem_layerDeleted_M {d : Disk} {ln : String} {dl : DLayer} {l : MLayer}
    (hd : AL.get? d.layers ln = some dl) (h : LayerSyncedM ln dl l) (gn : String) :
    gn ∈ layerDeleted d ln l ↔ gn ∈ l.keys ∧ gn ∉ AL.keys dl.glifs ∧ MemOnly l gn := by
  rw [mem_layerDeleted_iff, mem_glifNames d ln gn dl hd]
  constructor
  · rintro ⟨h1, h2⟩
    rcases h.known gn h1 with h3 | h3
    · exact absurd h3 h2
    · exact ⟨h1, h2, h3⟩
  · rintro ⟨h1, h2, _⟩
    exact ⟨h1, h2⟩

theorem report_memOnly {s : State} (h : SyncedM s) :
    report s = { quietReport s with modified := s.font.order.filterMap (memOnlyEntry s) } := by
  have hparts : partsReport s = (allParts.map fun p => (p, (getPart s p).map fun _ => false)) := by
    unfold partsReport
    apply List.map_congr_left
    intro p _
    cases hg : getPart s p with
    | none => rfl
    | some mp =>
      simp only [Option.map_some]
      rw [partChanged_eq_false_of_agree (h.parts p mp hg)]
  have hadded : layersAdded s = [] := by
    unfold layersAdded
    rw [List.filter_eq_nil_iff]
    intro n hn
    rw [← h.order] at hn
    simp [hn]
  have hdeleted : layersDeleted s = [] := by
    unfold layersDeleted
    rw [List.filter_eq_nil_iff]
    intro n hn
    rw [h.order] at hn
    simp [hn]
  have hmod : layersModified s = s.font.order.filterMap (memOnlyEntry s) := by
    unfold layersModified
    apply filterMap_congr_mem
    intro ln hln
    obtain ⟨l, dl, hl, hdl, hs⟩ := h.layers ln hln
    unfold layerEntry memOnlyEntry
    simp only [hl, hdl, layerRep, layerModified_M hdl hs, layerAdded_M hdl hs, hs.info]
    simp [LayerRep.isEmpty]
  unfold report quietReport
  rw [hparts, hadded, hdeleted, hmod, fsTest_quiet h.images, fsTest_quiet h.data]
  simp [h.order, h.default]

/-! ### the editing step -/

theorem edit_step {s : State} (h : SyncedM s) (ht : Tidy s) (op : Op) (he : EditOp op) :
    SyncedM (step s op).1 ∧ Tidy (step s op).1 := by
  cases op with
  | touch p => exact ⟨syncedM_loadPart h p, tidy_loadPart ht p⟩
  | pset p v => exact ⟨syncedM_psetPart h p v, tidy_psetPart ht p v⟩
  | reloadpart p => exact ⟨syncedM_reloadPart h p, tidy_reloadPart ht p⟩
  | gget ln gn =>
    rw [step_gget]
    cases hr : getGlyph s ln gn with
    | error e => exact ⟨h, ht⟩
    | ok r => obtain ⟨s1, g⟩ := r; exact ⟨(syncedM_getGlyph h hr).1, tidy_getGlyph ht hr⟩
  | gset ln gn v =>
    show SyncedM (ofExcept s (setGlyph s ln gn v)).1 ∧ Tidy (ofExcept s (setGlyph s ln gn v)).1
    rw [ofExcept_fst]
    cases hr : setGlyph s ln gn v with
    | error e => exact ⟨h, ht⟩
    | ok s1 => exact ⟨syncedM_setGlyph h hr, tidy_setGlyph ht hr⟩
  | gdel ln gn =>
    show SyncedM (ofPair (delGlyph s ln gn)).1 ∧ Tidy (ofPair (delGlyph s ln gn)).1
    rw [ofPair_fst]
    exact ⟨syncedM_delGlyph h ht ln gn, tidy_delGlyph ht ln gn⟩
  | gnew ln gn =>
    show SyncedM (ofExcept s (newGlyph s ln gn)).1 ∧ Tidy (ofExcept s (newGlyph s ln gn)).1
    rw [ofExcept_fst]
    cases hr : newGlyph s ln gn with
    | error e => exact ⟨h, ht⟩
    | ok s1 => exact ⟨syncedM_newGlyph h ht hr, tidy_newGlyph ht hr⟩
  | grename ln old new =>
    show SyncedM (ofPair (renameGlyph s ln old new)).1 ∧ Tidy (ofPair (renameGlyph s ln old new)).1
    rw [ofPair_fst]
    exact ⟨syncedM_renameGlyph h ht ln old new, tidy_renameGlyph ht ln old new⟩
  | lset ln v =>
    show SyncedM (ofExcept s (setLayerInfo s ln v)).1 ∧ Tidy (ofExcept s (setLayerInfo s ln v)).1
    rw [ofExcept_fst]
    cases hr : setLayerInfo s ln v with
    | error e => exact ⟨h, ht⟩
    | ok s1 => exact ⟨syncedM_setLayerInfo h hr, tidy_setLayerInfo ht hr⟩
  | lnew _ => exact absurd he (by simp [EditOp])
  | ldel _ => exact absurd he (by simp [EditOp])
  | lorder _ => exact absurd he (by simp [EditOp])
  | ldefault _ => exact absurd he (by simp [EditOp])
  | fset _ _ _ => exact absurd he (by simp [EditOp])
  | fget _ _ => exact absurd he (by simp [EditOp])
  | save _ _ => exact absurd he (by simp [EditOp])
  | saveas _ _ => exact absurd he (by simp [EditOp])
  | xpart _ _ _ => exact absurd he (by simp [EditOp])
  | xglyph _ _ _ _ => exact absurd he (by simp [EditOp])
  | xlinfo _ _ => exact absurd he (by simp [EditOp])
  | xfile _ _ _ _ => exact absurd he (by simp [EditOp])
  | xladd _ _ _ => exact absurd he (by simp [EditOp])
  | xldel _ => exact absurd he (by simp [EditOp])
  | xlorder _ => exact absurd he (by simp [EditOp])
  | xldefault _ => exact absurd he (by simp [EditOp])
  | test => exact absurd he (by simp [EditOp])
  | reload => exact absurd he (by simp [EditOp])
  | acceptdel => exact absurd he (by simp [EditOp])
  | reloadglyphs _ _ => exact absurd he (by simp [EditOp])
  | reloadfiles _ _ => exact absurd he (by simp [EditOp])

theorem edit_run {s : State} (h : SyncedM s) (ht : Tidy s) (ops : List Op) (he : ∀ op ∈ ops, EditOp op) :
    SyncedM (run s ops) ∧ Tidy (run s ops) := by
  induction ops generalizing s with
  | nil => exact ⟨h, ht⟩
  | cons op rest ih =>
    simp only [run, List.foldl_cons]
    obtain ⟨h1, h2⟩ := edit_step h ht op (he op (by simp))
    exact ih h1 h2 fun o ho => he o (by simp [ho])

theorem LayerSynced.toM {ln : String} {dl : DLayer} {l : MLayer} (h3 : LayerSynced ln dl l) : LayerSyncedM ln dl l where
  info := h3.info
  onDisk := fun gn hg => (h3.names gn).1 hg
  known := fun gn hg => Or.inl ((h3.names gn).2 (Or.inl hg))
  schedOnDisk := fun gn hg => (h3.names gn).2 (Or.inr hg)
  disjoint := h3.disjoint
  glyphs := fun gn g st hm hst _ => h3.glyphs gn g st hm hst
  sched := h3.sched
  gs := h3.gs
  loaded := h3.loaded
  nodupGlyphs := h3.nodupGlyphs

/-- creating a glyph under a name whose file is on disk (a glyph deleted in memory before and created
again, or a glyph replaced by a fresh one) keeps the font in step -/
theorem synced_newGlyph_onDisk {s s' : State} (h : Synced s) (ht : Tidy s) {ln gn : String}
    (hon : gn ∈ glifNames s.disk ln) (hr : newGlyph s ln gn = .ok s') : Synced s' := by
  unfold newGlyph at hr
  cases hl : getLayer s ln with
  | none => simp [hl] at hr
  | some l =>
    simp only [hl] at hr
    injection hr with hr
    subst hr
    apply synced_loadPart
    refine synced_setLayer h ln _ fun dl hdl => ?_
    have hs := h.layerOf' hl dl hdl
    refine (layerSyncedM_new hs.toM gn _ (ht.schedNodup ln l hl)).toStrict ?_
    intro x hx
    simp only [mem_setAdd] at hx
    rcases hx with hx | hx
    · exact (hs.names x).2 (Or.inl hx)
    · subst hx
      rwa [mem_glifNames s.disk ln x dl hdl] at hon

/-- renaming a glyph onto a name whose file is on disk keeps the font in step: the old file is
scheduled for deletion with its stamp, the glyph under its new name carries no stamp -/
theorem synced_renameGlyph_onDisk {s : State} (h : Synced s) (ht : Tidy s) (ln old new : String)
    (hon : new ∈ glifNames s.disk ln) : Synced (renameGlyph s ln old new).1 := by
  unfold renameGlyph
  cases hg : getGlyph s ln old with
  | error e => exact h
  | ok r =>
    obtain ⟨s1, g⟩ := r
    simp only
    obtain ⟨h1, l', hl', hg'⟩ := synced_getGlyph h hg
    have hd : s1.disk = s.disk := by
      unfold getGlyph at hg
      cases hl : getLayer s ln with
      | none => simp [hl] at hg
      | some l =>
        simp only [hl] at hg
        cases hgg : AL.get? l.glyphs old with
        | some g0 => simp only [hgg] at hg; injection hg with hg; injection hg with e1 _; rw [← e1]
        | none =>
          simp only [hgg] at hg
          unfold loadGlyph at hg
          cases hgs : l.gs with
          | none => simp [hgs] at hg
          | some b =>
            simp only [hgs] at hg
            split at hg
            · cases hg
            · cases hrd : gsRead s b old with
              | error e => simp [hrd] at hg
              | ok f =>
                simp only [hrd] at hg
                injection hg with hg
                injection hg with e1 _
                rw [← e1]; rfl
    have t1 := tidy_getGlyph ht hg
    by_cases hne : old = new
    · simp only [hne, if_true]; exact h1
    · simp only [hne, if_false, hl']
      apply synced_loadPart
      refine synced_setLayer h1 ln _ fun dl hdl => ?_
      have hs := h1.layerOf' hl' dl hdl
      have hgm : AL.get? l'.glyphs old = some g := AL.get?_of_mem_nodup hs.nodupGlyphs hg'
      refine (layerSyncedM_rename h1.toM hdl hs.toM hne hgm (t1.schedNodup ln l' hl')).toStrict ?_
      intro x hx
      simp only [mem_setAdd, mem_setDel] at hx
      rcases hx with hx | hx
      · exact (hs.names x).2 (Or.inl hx.1)
      · subst hx
        rw [← hd] at hon
        rwa [mem_glifNames s1.disk ln x dl hdl] at hon

end Ext
end DefconModel
