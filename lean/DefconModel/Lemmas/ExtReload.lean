/-
Helper lemmas for C05 (M-Ext), round 3: reloading everything a report lists converges.

The font was in step with its UFO; another program then changed the UFO in any way that deletes
nothing the font lists (`Keeps`); `testForExternalChanges`, then the reload method for every entry
of the report (top-level objects, images, data, layers added / modified, layer order, default
layer): no reload fails, and the second report names nothing.
-/
import DefconModel.Lemmas.ExtGlyphs

namespace DefconModel
namespace Ext

/-! ### `sorted(set(l))` -/

theorem mem_insertStr (x y : String) (l : List String) : y ∈ insertStr x l ↔ y = x ∨ y ∈ l := by
  induction l with
  | nil => simp [insertStr]
  | cons a r ih =>
    unfold insertStr
    split
    · simp
    · split
      · rename_i h
        subst h
        simp
      · simp only [List.mem_cons, ih]
        constructor
        · rintro (h | h | h)
          · exact Or.inr (Or.inl h)
          · exact Or.inl h
          · exact Or.inr (Or.inr h)
        · rintro (h | h | h)
          · exact Or.inr (Or.inl h)
          · exact Or.inl h
          · exact Or.inr (Or.inr h)

theorem mem_sortStr (y : String) (l : List String) : y ∈ sortStr l ↔ y ∈ l := by
  induction l with
  | nil => simp [sortStr]
  | cons a r ih =>
    simp only [sortStr, List.foldr_cons, List.mem_cons] at ih ⊢
    rw [mem_insertStr, ih]

theorem lt_of_not_lt_of_ne {x y : String} (h1 : ¬ x < y) (h2 : ¬ x = y) : y < x := by
  apply Classical.byContradiction
  intro h3
  exact h2 (String.le_antisymm (String.not_lt.1 h3) (String.not_lt.1 h1))

theorem sorted_insertStr (x : String) (l : List String) (h : l.Pairwise (· < ·)) :
    (insertStr x l).Pairwise (· < ·) := by
  induction l with
  | nil => simp [insertStr]
  | cons a r ih =>
    rw [List.pairwise_cons] at h
    unfold insertStr
    split
    · rename_i hxa
      rw [List.pairwise_cons]
      refine ⟨?_, List.pairwise_cons.2 h⟩
      intro z hz
      simp only [List.mem_cons] at hz
      rcases hz with hz | hz
      · subst hz; exact hxa
      · exact String.lt_trans hxa (h.1 z hz)
    · split
      · exact List.pairwise_cons.2 h
      · rename_i h1 h2
        rw [List.pairwise_cons]
        refine ⟨?_, ih h.2⟩
        intro z hz
        rw [mem_insertStr] at hz
        rcases hz with hz | hz
        · subst hz; exact lt_of_not_lt_of_ne h1 h2
        · exact h.1 z hz

theorem sorted_sortStr (l : List String) : (sortStr l).Pairwise (· < ·) := by
  induction l with
  | nil => simp [sortStr]
  | cons a r ih => exact sorted_insertStr a _ ih

theorem nodup_sortStr (l : List String) : (sortStr l).Nodup := by
  have := sorted_sortStr l
  unfold List.Nodup
  refine this.imp ?_
  intro a b h e
  subst e
  exact String.lt_irrefl _ h

/-! ### the state in which the test names nothing -/

/-- a layer for which the test names nothing -/
structure LayerQuiet (d : Disk) (ln : String) (dl : DLayer) (l : MLayer) : Prop where
  info : l.infoStamp = some dl.info
  modified : layerModified d ln l = []
  added : layerAdded d ln l = []
  deleted : layerDeleted d ln l = []

/-- a font for which the test names nothing -/
structure Settled (s : State) : Prop where
  parts : ∀ p mp, getPart s p = some mp → partChanged s.disk p mp.stamp = false
  order : s.font.order = layerNames s.disk
  default : s.font.default = s.disk.default
  layers : ∀ ln, ln ∈ s.font.order →
    ∃ l dl, AL.get? s.font.layers ln = some l ∧ AL.get? s.disk.layers ln = some dl ∧ LayerQuiet s.disk ln dl l
  images : fsTest s.disk.images s.font.images = {}
  data : fsTest s.disk.data s.font.data = {}

theorem report_settled {s : State} (h : Settled s) : report s = quietReport s := by
  have hparts : partsReport s = (allParts.map fun p => (p, (getPart s p).map fun _ => false)) := by
    unfold partsReport
    apply List.map_congr_left
    intro p _
    cases hg : getPart s p with
    | none => rfl
    | some mp =>
      simp only [Option.map_some]
      rw [h.parts p mp hg]
  have hadded : layersAdded s = [] := by
    unfold layersAdded
    rw [List.filter_eq_nil_iff]
    intro n hn
    rw [← h.order] at hn
    simp [hn]
  have hdeleted : layersDeleted s = [] := by
    unfold layersDeleted
    rw [List.filter_eq_nil_iff]
    intro n hn
    rw [h.order] at hn
    simp [hn]
  have hmod : layersModified s = [] := by
    unfold layersModified
    rw [List.filterMap_eq_nil_iff]
    intro ln hln
    obtain ⟨l, dl, hl, hdl, hs⟩ := h.layers ln hln
    simp [layerEntry, hl, hdl, layerRep, hs.modified, hs.added, hs.deleted, hs.info, LayerRep.isEmpty]
  unfold report quietReport
  rw [hparts, hadded, hdeleted, hmod, h.images, h.data]
  simp [h.order, h.default]

/-! ### top-level objects: `reloadInfo/…/reloadLib` for the flagged ones -/

theorem partFlag_report (s : State) (p : Part) :
    partFlag (report s) p = match getPart s p with
      | some mp => partChanged s.disk p mp.stamp
      | none => false := by
  unfold partFlag
  rw [get?_report_parts]
  cases getPart s p with
  | none => rfl
  | some mp =>
    simp only [Option.map_some, Option.getD_some]
    cases partChanged s.disk p mp.stamp <;> simp

/-- the parts dictionary after the reloads: every loaded object compares equal to its file -/
theorem reloadPartIf_spec (r : Report) (s : State) (p : Part)
    (hf : partFlag r p = match getPart s p with
      | some mp => partChanged s.disk p mp.stamp
      | none => false) :
    ∃ P', reloadPartIf r s p = { s with font := { s.font with parts := P' } } ∧
      (∀ q, q ≠ p → AL.get? P' q = AL.get? s.font.parts q) ∧
      (∀ mp, AL.get? P' p = some mp → partChanged s.disk p mp.stamp = false) := by
  unfold reloadPartIf
  cases hg : getPart s p with
  | none =>
    rw [hg] at hf
    simp only [hf, Bool.false_eq_true, if_false]
    refine ⟨s.font.parts, rfl, fun _ _ => rfl, ?_⟩
    intro mp hmp
    unfold getPart at hg
    rw [hg] at hmp
    cases hmp
  | some mp0 =>
    rw [hg] at hf
    simp only at hf
    cases hc : partChanged s.disk p mp0.stamp with
    | false =>
      rw [hc] at hf
      simp only [hf, Bool.false_eq_true, if_false]
      refine ⟨s.font.parts, rfl, fun _ _ => rfl, ?_⟩
      intro mp hmp
      unfold getPart at hg
      rw [hg] at hmp
      injection hmp with hmp
      subst hmp
      exact hc
    | true =>
      rw [hc] at hf
      simp only [hf, if_true]
      unfold reloadPart
      simp only [hg]
      refine ⟨_, rfl, fun q hq => AL.get?_set_ne _ _ _ _ (fun e => hq e.symm), ?_⟩
      intro mp hmp
      rw [AL.get?_set_self] at hmp
      injection hmp with hmp
      subst hmp
      exact partChanged_stampOf _ _

theorem reloadParts_spec (s : State) :
    ∃ P', [Part.groups, .kerning, .info, .features, .lib].foldl (reloadPartIf (report s)) s =
        { s with font := { s.font with parts := P' } } ∧
      ∀ p mp, AL.get? P' p = some mp → partChanged s.disk p mp.stamp = false := by
  have flag : ∀ (P : List (Part × MPart)) (p : Part), AL.get? P p = AL.get? s.font.parts p →
      partFlag (report s) p = match getPart ({ s with font := { s.font with parts := P } } : State) p with
        | some mp => partChanged s.disk p mp.stamp
        | none => false := by
    intro P p hP
    rw [partFlag_report]
    unfold getPart
    simp only
    rw [hP]
  obtain ⟨P1, e1, n1, q1⟩ := reloadPartIf_spec (report s) s .groups (partFlag_report s .groups)
  obtain ⟨P2, e2, n2, q2⟩ := reloadPartIf_spec (report s) { s with font := { s.font with parts := P1 } } .kerning
    (flag P1 .kerning (n1 _ (by decide)))
  obtain ⟨P3, e3, n3, q3⟩ := reloadPartIf_spec (report s) { s with font := { s.font with parts := P2 } } .info
    (flag P2 .info (by rw [n2 _ (by decide), n1 _ (by decide)]))
  obtain ⟨P4, e4, n4, q4⟩ := reloadPartIf_spec (report s) { s with font := { s.font with parts := P3 } } .features
    (flag P3 .features (by rw [n3 _ (by decide), n2 _ (by decide), n1 _ (by decide)]))
  obtain ⟨P5, e5, n5, q5⟩ := reloadPartIf_spec (report s) { s with font := { s.font with parts := P4 } } .lib
    (flag P4 .lib (by rw [n4 _ (by decide), n3 _ (by decide), n2 _ (by decide), n1 _ (by decide)]))
  refine ⟨P5, ?_, ?_⟩
  · simp only [List.foldl]
    rw [e1, e2, e3, e4, e5]
  · intro p mp hmp
    cases p
    · rw [n5 _ (by decide), n4 _ (by decide)] at hmp; exact q3 mp hmp
    · rw [n5 _ (by decide), n4 _ (by decide), n3 _ (by decide)] at hmp; exact q2 mp hmp
    · rw [n5 _ (by decide), n4 _ (by decide), n3 _ (by decide), n2 _ (by decide)] at hmp; exact q1 mp hmp
    · rw [n5 _ (by decide)] at hmp; exact q4 mp hmp
    · exact q5 mp hmp


/-! ### images and data: `reloadImages / reloadData` for the modified and added names -/

def freshEntry (f : File) : Entry := ⟨some f.blob, false, true, some f.mtime, some f.blob⟩

theorem setFS_setFS (s : State) (img : Bool) (a b : FileSet) : setFS (setFS s img a) img b = setFS s img b := by
  cases img <;> rfl

theorem view_setFS (s : State) (img : Bool) (fs : FileSet) : view (setFS s img fs) = view s := by
  cases img <;> rfl

theorem disk_setFS (s : State) (img : Bool) (fs : FileSet) : (setFS s img fs).disk = s.disk := by
  cases img <;> rfl

theorem set_set {κ α : Type} [DecidableEq κ] (l : List (κ × α)) (k : κ) (a b : α) :
    AL.set (AL.set l k a) k b = AL.set l k b := by
  induction l with
  | nil => simp [AL.set]
  | cons p r ih =>
    obtain ⟨k', v⟩ := p
    by_cases e : k' = k
    · simp [AL.set, e]
    · simp [AL.set, e, ih]

/-- one reload, when the font's reader sees the UFO as it is and the file is there -/
theorem reloadFile_eq {s : State} (img : Bool) {n : String} {f : File} (hv : view s = s.disk)
    (hf : AL.get? (fsFiles s.disk img) n = some f) :
    reloadFile img s n = (setFS s img { entries := AL.set (getFS s img).entries n (freshEntry f),
                                        sched := AL.erase (getFS s img).sched n }, none) := by
  unfold reloadFile fsLoad
  simp only [getFS_setFS, AL.get?_set_self, view_setFS, hv, hf, setFS_setFS, set_set]
  rfl

/-- all of them -/
theorem seqE_reloadFile (img : Bool) (names : List String) :
    ∀ (s : State), view s = s.disk → (∀ n, n ∈ names → AL.contains (fsFiles s.disk img) n = true) →
      (AL.keys (getFS s img).entries).Nodup → (AL.keys (getFS s img).sched).Nodup →
      ∃ fs', seqE (reloadFile img) s names = (setFS s img fs', none) ∧
        (AL.keys fs'.entries).Nodup ∧
        (∀ x, AL.get? fs'.entries x =
          if x ∈ names then (AL.get? (fsFiles s.disk img) x).map freshEntry else AL.get? (getFS s img).entries x) ∧
        (∀ x, AL.get? fs'.sched x = if x ∈ names then none else AL.get? (getFS s img).sched x) := by
  induction names with
  | nil =>
    intro s _ _ h1 _
    refine ⟨getFS s img, ?_, h1, fun _ => by simp, fun _ => by simp⟩
    simp only [seqE]
    cases img <;> rfl
  | cons n rest ih =>
    intro s hv hall h1 h2
    obtain ⟨f, hf⟩ := AL_get?_some_of_contains (hall n (by simp))
    simp only [seqE]
    rw [reloadFile_eq img hv hf]
    simp only
    generalize hs1 : setFS s img { entries := AL.set (getFS s img).entries n (freshEntry f),
                                   sched := AL.erase (getFS s img).sched n } = s1
    have d1 : s1.disk = s.disk := by rw [← hs1]; exact disk_setFS _ _ _
    have v1 : view s1 = s1.disk := by rw [d1, ← hs1, view_setFS]; exact hv
    have g1 : getFS s1 img = { entries := AL.set (getFS s img).entries n (freshEntry f),
                                sched := AL.erase (getFS s img).sched n } := by rw [← hs1]; exact getFS_setFS _ _ _
    obtain ⟨fs', e, k1, k2, k3⟩ := ih s1 v1 (by intro x hx; rw [d1]; exact hall x (by simp [hx]))
      (by rw [g1]; exact AL.nodup_keys_set _ _ _ h1) (by rw [g1]; exact AL.nodup_keys_erase _ _ h2)
    refine ⟨fs', ?_, k1, ?_, ?_⟩
    · rw [e, ← hs1, setFS_setFS]
    · intro x
      rw [k2 x, d1, g1]
      by_cases hx : x ∈ rest
      · simp [hx]
      · simp only [hx, if_false, List.mem_cons, or_false]
        rw [AL.get?_set]
        by_cases e' : n = x
        · subst e'; simp [hf]
        · have e'' : ¬ x = n := fun h => e' h.symm
          simp [e', e'']
    · intro x
      rw [k3 x, g1]
      by_cases hx : x ∈ rest
      · simp [hx]
      · simp only [hx, if_false, List.mem_cons, or_false]
        rw [AL.get?_erase _ _ _ h2]
        by_cases e' : n = x
        · subst e'; simp
        · have e'' : ¬ x = n := fun h => e' h.symm
          simp [e', e'']

/-- after reloading what the test listed as modified or added — when it listed nothing as deleted —
the test lists nothing -/
theorem fsTest_after_reload {files : List (String × File)} {fs fs' : FileSet} {names : List String}
    (hn : ∀ x, x ∈ names ↔ x ∈ (fsTest files fs).modified ∨ x ∈ (fsTest files fs).added)
    (hdel : (fsTest files fs).deleted = [])
    (hnd : (AL.keys fs'.entries).Nodup)
    (he : ∀ x, AL.get? fs'.entries x = if x ∈ names then (AL.get? files x).map freshEntry else AL.get? fs.entries x)
    (hs : ∀ x, AL.get? fs'.sched x = if x ∈ names then none else AL.get? fs.sched x)
    (hfile : ∀ x, x ∈ names → AL.contains files x = true) :
    fsTest files fs' = {} := by
  have hmod : fs'.entries.filterMap (isModifiedFile files) = [] := by
    rw [List.filterMap_eq_nil_iff]
    intro p hp
    obtain ⟨x, e⟩ := p
    have hg := AL.get?_of_mem_nodup hnd hp
    rw [he] at hg
    by_cases hx : x ∈ names
    · simp only [hx, if_true] at hg
      obtain ⟨f, hf⟩ := AL_get?_some_of_contains (hfile x hx)
      rw [hf] at hg
      simp only [Option.map_some, Option.some.injEq] at hg
      subst hg
      exact isModifiedFile_of_stamp hf
    · simp only [hx, if_false] at hg
      have hm := AL.mem_of_get? hg
      have hnot : x ∉ (fsTest files fs).modified := fun h => hx ((hn x).2 (Or.inl h))
      cases hi : isModifiedFile files (x, e) with
      | none => rfl
      | some y =>
        exfalso
        apply hnot
        have hy : y = x := by
          unfold isModifiedFile at hi
          split at hi
          · split at hi
            · injection hi with hi; exact hi.symm
            · cases hi
          · cases hi
        subst hy
        exact List.mem_filterMap.2 ⟨(y, e), hm, hi⟩
  have hadd : (AL.keys files).filter (isAddedFile files fs') = [] := by
    rw [List.filter_eq_nil_iff]
    intro x hxf
    by_cases hx : x ∈ names
    · have : AL.contains fs'.entries x = true := by
        unfold AL.contains
        rw [he]
        simp only [hx, if_true]
        obtain ⟨f, hf⟩ := AL_get?_some_of_contains (hfile x hx)
        simp [hf]
      simp [isAddedFile, this]
    · have hnot : x ∉ (fsTest files fs).added := fun h => hx ((hn x).2 (Or.inr h))
      have hold : isAddedFile files fs x = false := by
        cases hi : isAddedFile files fs x with
        | false => rfl
        | true => exact absurd (List.mem_filter.2 ⟨hxf, hi⟩) hnot
      have e1 : AL.contains fs'.entries x = AL.contains fs.entries x := by
        unfold AL.contains; rw [he]; simp [hx]
      have e2 : AL.get? fs'.sched x = AL.get? fs.sched x := by rw [hs]; simp [hx]
      unfold isAddedFile at hold ⊢
      rw [e1, e2]
      simpa using hold
  have hdel' : fs'.entries.filterMap (isDeletedFile files) = [] := by
    rw [List.filterMap_eq_nil_iff]
    intro p hp
    obtain ⟨x, e⟩ := p
    have hg := AL.get?_of_mem_nodup hnd hp
    rw [he] at hg
    by_cases hx : x ∈ names
    · unfold isDeletedFile
      simp [hfile x hx]
    · simp only [hx, if_false] at hg
      have hm := AL.mem_of_get? hg
      cases hi : isDeletedFile files (x, e) with
      | none => rfl
      | some y =>
        exfalso
        have : y ∈ (fsTest files fs).deleted := List.mem_filterMap.2 ⟨(x, e), hm, hi⟩
        rw [hdel] at this
        cases this
  unfold fsTest
  rw [hmod, hadd, hdel']


/-! ### one layer: after the test, after `reloadGlyphs` -/

/-- structural well-formedness of a layer's tables -/
structure LayerWF (l : MLayer) : Prop where
  loaded : ∀ gn g, (gn, g) ∈ l.glyphs → gn ∈ l.keys
  nodupGlyphs : (AL.keys l.glyphs).Nodup
  disjoint : ∀ gn, gn ∈ l.keys → AL.contains l.sched gn = false
  nodupSched : (AL.keys l.sched).Nodup

theorem mem_foldl_setAdd (A : List String) (K : List String) (x : String) :
    x ∈ A.foldl setAdd K ↔ x ∈ K ∨ x ∈ A := by
  induction A generalizing K with
  | nil => simp
  | cons a r ih =>
    simp only [List.foldl_cons, List.mem_cons]
    rw [ih, mem_setAdd]
    constructor
    · rintro ((h | h) | h)
      · exact Or.inl h
      · exact Or.inr (Or.inl h)
      · exact Or.inr (Or.inr h)
    · rintro (h | h | h)
      · exact Or.inl (Or.inl h)
      · exact Or.inl (Or.inr h)
      · exact Or.inr h

/-- the layer is ready for the reload of `names` (and of its info when `info`): what the test leaves -/
structure ReadyE (d : Disk) (ln : String) (dl : DLayer) (l : MLayer) (info : Bool) (names : List String) : Prop where
  wf : LayerWF l
  gs : l.gs = some ⟨ln, AL.keys dl.glifs, true⟩
  added : layerAdded d ln l = []
  deleted : layerDeleted d ln l = []
  infoOk : info = false → l.infoStamp = some dl.info
  modified : ∀ x, x ∈ layerModified d ln l → x ∈ names
  names : ∀ x, x ∈ names → x ∈ l.keys ∧ x ∈ AL.keys dl.glifs ∧
    ((AL.get? l.glyphs x).isSome = true ∨ AL.contains l.sched x = false)

/-- the layer is done: the test names nothing for it, and it is bound to an open glyph set -/
structure Good (d : Disk) (ln : String) (dl : DLayer) (l : MLayer) : Prop where
  quiet : LayerQuiet d ln dl l
  wf : LayerWF l
  gs : l.gs = some ⟨ln, AL.keys dl.glifs, true⟩

theorem setLayer_setLayer (s : State) (ln : String) (a b : MLayer) :
    setLayer (setLayer s ln a) ln b = setLayer s ln b := by
  unfold setLayer
  simp only [set_set]

theorem view_setLayer (s : State) (ln : String) (l : MLayer) : view (setLayer s ln l) = view s := rfl

theorem isModifiedGlyph_some {d : Disk} {ln : String} {p : String × MGlyph} {y : String}
    (h : isModifiedGlyph d ln p = some y) : y = p.1 := by
  unfold isModifiedGlyph at h
  split at h
  · split at h
    · injection h with h; exact h.symm
    · cases h
  · cases h

/-- `reloadGlyphs` for one listed name -/
theorem reloadGlyph_eq {s : State} {ln gn : String} {l : MLayer} {dl : DLayer} {f : File}
    (hv : view s = s.disk) (hl : getLayer s ln = some l) (hdl : AL.get? s.disk.layers ln = some dl)
    (hgs : l.gs = some ⟨ln, AL.keys dl.glifs, true⟩) (hk : gn ∈ l.keys)
    (hf : AL.get? dl.glifs gn = some f)
    (hok : (AL.get? l.glyphs gn).isSome = true ∨ AL.contains l.sched gn = false) :
    reloadGlyph ln s gn = (setLayer s ln { l with glyphs := AL.set l.glyphs gn ⟨f.blob, false, some f⟩ }, none) := by
  have hin : gn ∈ AL.keys dl.glifs := AL.mem_keys_of_get? hf
  have hgl : glifOf s.disk ln gn = some f := by rw [glifOf_eq s.disk ln gn dl hdl]; exact hf
  unfold reloadGlyph
  simp only [hl]
  cases hg : AL.get? l.glyphs gn with
  | none =>
    simp only
    have hsc : AL.contains l.sched gn = false := by
      rcases hok with h1 | h1
      · simp [hg] at h1
      · exact h1
    unfold loadGlyph
    simp only [hgs, hin, hsc, not_true_eq_false, Bool.false_eq_true, or_self, if_false]
    unfold gsRead
    simp only [Bool.not_true, Bool.false_eq_true, if_false, hv, hgl]
    have : setAdd l.keys gn = l.keys := by unfold setAdd; simp [hk]
    rw [this]
  | some g =>
    simp only [hgs, hin, if_true]
    unfold gsRead
    simp only [Bool.not_true, Bool.false_eq_true, if_false, hv, hgl]

/-- `reloadGlyphs` for all listed names -/
theorem seqE_reloadGlyph (ln : String) (dl : DLayer) (names : List String) :
    ∀ (s : State) (l : MLayer), view s = s.disk → getLayer s ln = some l → AL.get? s.disk.layers ln = some dl →
      l.gs = some ⟨ln, AL.keys dl.glifs, true⟩ → (AL.keys l.glyphs).Nodup →
      (∀ x, x ∈ names → x ∈ l.keys ∧ x ∈ AL.keys dl.glifs ∧
        ((AL.get? l.glyphs x).isSome = true ∨ AL.contains l.sched x = false)) →
      ∃ G, seqE (reloadGlyph ln) s names = (setLayer s ln { l with glyphs := G }, none) ∧ (AL.keys G).Nodup ∧
        (∀ x, AL.get? G x = if x ∈ names then (AL.get? dl.glifs x).map (fun f => ⟨f.blob, false, some f⟩)
          else AL.get? l.glyphs x) := by
  induction names with
  | nil =>
    intro s l _ hl _ _ hn _
    refine ⟨l.glyphs, ?_, hn, fun _ => by simp⟩
    simp only [seqE]
    have : setLayer s ln l = s := by
      unfold setLayer
      unfold getLayer at hl
      have : AL.set s.font.layers ln l = s.font.layers := by
        clear hn
        generalize s.font.layers = L at hl
        induction L with
        | nil => simp at hl
        | cons p r ih =>
          obtain ⟨k, v⟩ := p
          by_cases e : k = ln
          · subst e; simp at hl; subst hl; simp [AL.set]
          · simp [e] at hl; simp [AL.set, e, ih hl]
      rw [this]
    rw [this]
  | cons n rest ih =>
    intro s l hv hl hdl hgs hnd hall
    obtain ⟨hk, hon, hok⟩ := hall n (by simp)
    obtain ⟨f, hf⟩ := AL_get?_some_of_contains ((AL_mem_keys_iff_contains _ _).1 hon)
    simp only [seqE]
    rw [reloadGlyph_eq hv hl hdl hgs hk hf hok]
    simp only
    obtain ⟨G, e, k1, k2⟩ := ih (setLayer s ln { l with glyphs := AL.set l.glyphs n ⟨f.blob, false, some f⟩ })
      { l with glyphs := AL.set l.glyphs n ⟨f.blob, false, some f⟩ } hv (getLayer_setLayer_self _ _ _) hdl hgs
      (AL.nodup_keys_set _ _ _ hnd) (by
        intro x hx
        obtain ⟨a, b, c⟩ := hall x (by simp [hx])
        refine ⟨a, b, ?_⟩
        rcases c with c | c
        · left
          show (AL.get? (AL.set l.glyphs n _) x).isSome = true
          rw [AL.get?_set]
          split
          · rfl
          · exact c
        · exact Or.inr c)
    refine ⟨G, ?_, k1, ?_⟩
    · rw [e, setLayer_setLayer]
    · intro x
      rw [k2 x]
      by_cases hx : x ∈ rest
      · simp [hx]
      · simp only [hx, if_false, List.mem_cons, or_false]
        show AL.get? (AL.set l.glyphs n _) x = _
        rw [AL.get?_set]
        by_cases e' : n = x
        · subst e'; simp [hf]
        · have e'' : ¬ x = n := fun h => e' h.symm
          simp [e', e'']

/-- the layer after the reload of everything its report entry lists -/
theorem good_after_reload {d : Disk} {ln : String} {dl : DLayer} {l : MLayer} {info : Bool} {names : List String}
    (hdl : AL.get? d.layers ln = some dl) (h : ReadyE d ln dl l info names) (G : List (String × MGlyph))
    (hnd : (AL.keys G).Nodup)
    (hG : ∀ x, AL.get? G x = if x ∈ names then (AL.get? dl.glifs x).map (fun f => ⟨f.blob, false, some f⟩)
      else AL.get? l.glyphs x)
    (v : Blob) (stamp : Option Blob) (hst : stamp = some dl.info) :
    Good d ln dl { l with glyphs := G, info := v, infoStamp := stamp } where
  quiet := {
    info := hst
    modified := by
      unfold layerModified
      rw [List.filterMap_eq_nil_iff]
      intro p hp
      obtain ⟨x, g⟩ := p
      have hg := AL.get?_of_mem_nodup hnd hp
      rw [hG] at hg
      by_cases hx : x ∈ names
      · simp only [hx, if_true] at hg
        obtain ⟨_, hon, _⟩ := h.names x hx
        obtain ⟨f, hf⟩ := AL_get?_some_of_contains ((AL_mem_keys_iff_contains _ _).1 hon)
        rw [hf] at hg
        simp only [Option.map_some, Option.some.injEq] at hg
        subst hg
        exact isModifiedGlyph_of_stamp (by rw [glifOf_eq d ln x dl hdl]; exact hf)
      · simp only [hx, if_false] at hg
        cases hi : isModifiedGlyph d ln (x, g) with
        | none => rfl
        | some y =>
          exfalso
          have hy := isModifiedGlyph_some hi
          simp only at hy
          subst hy
          exact hx (h.modified y (List.mem_filterMap.2 ⟨(y, g), AL.mem_of_get? hg, hi⟩))
    added := h.added
    deleted := h.deleted }
  wf := {
    loaded := by
      intro x g hm
      have hg := AL.get?_of_mem_nodup hnd hm
      rw [hG] at hg
      by_cases hx : x ∈ names
      · exact (h.names x hx).1
      · simp only [hx, if_false] at hg
        exact h.wf.loaded x g (AL.mem_of_get? hg)
    nodupGlyphs := hnd
    disjoint := h.wf.disjoint
    nodupSched := h.wf.nodupSched }
  gs := h.gs


theorem setLayer_self {s : State} {ln : String} {l : MLayer} (hl : getLayer s ln = some l) : setLayer s ln l = s := by
  unfold setLayer
  unfold getLayer at hl
  have : AL.set s.font.layers ln l = s.font.layers := by
    generalize s.font.layers = L at hl
    induction L with
    | nil => simp at hl
    | cons p r ih =>
      obtain ⟨k, v⟩ := p
      by_cases e : k = ln
      · subst e; simp at hl; subst hl; simp [AL.set]
      · simp [e] at hl; simp [AL.set, e, ih hl]
  rw [this]

theorem scanUnloaded_none {s : State} {ln : String} {l : MLayer} {dl : DLayer} (hv : view s = s.disk)
    (hl : getLayer s ln = some l) (hdl : AL.get? s.disk.layers ln = some dl)
    (hgs : l.gs = some ⟨ln, AL.keys dl.glifs, true⟩) : scanUnloaded s ln = none := by
  unfold scanUnloaded
  simp only [hl, hgs]
  split
  · rfl
  · simp only [Bool.not_true, Bool.false_eq_true, if_false]
    split
    · rfl
    · rename_i hall
      exfalso
      apply hall
      rw [List.all_eq_true]
      intro gn hgn
      rw [List.mem_filter] at hgn
      rw [hv, glifOf_eq s.disk ln gn dl hdl]
      obtain ⟨f, hf⟩ := AL_get?_some_of_contains ((AL_mem_keys_iff_contains _ _).1 hgn.1)
      simp [hf]

/-- `reloadLayers` for one layer the font holds, glyphs only -/
theorem reloadEntry_noinfo {s : State} {cur : List String} {ln : String} {names : List String}
    {l : MLayer} {dl : DLayer} (hv : view s = s.disk) (hcur : ln ∈ cur) (hl : getLayer s ln = some l)
    (hdl : AL.get? s.disk.layers ln = some dl) (h : ReadyE s.disk ln dl l false names) :
    ∃ l2, reloadLayerEntry cur s (ln, false, names) = (setLayer s ln l2, none) ∧ Good s.disk ln dl l2 := by
  unfold reloadLayerEntry
  simp only [hcur, if_true, hl, Bool.false_eq_true, if_false]
  by_cases hemp : names.isEmpty = true
  · simp only [hemp, if_true]
    refine ⟨l, by rw [setLayer_self hl], ?_⟩
    have hnames : names = [] := List.isEmpty_iff.1 hemp
    exact good_after_reload hdl h l.glyphs h.wf.nodupGlyphs (by intro x; simp [hnames]) l.info l.infoStamp (h.infoOk rfl)
  · simp only [hemp, Bool.false_eq_true, if_false]
    obtain ⟨G, e, k1, k2⟩ := seqE_reloadGlyph ln dl names s l hv hl hdl h.gs h.wf.nodupGlyphs h.names
    rw [e]
    simp only
    have hsc := scanUnloaded_none (s := setLayer s ln { l with glyphs := G }) (ln := ln) (dl := dl) hv
      (getLayer_setLayer_self _ _ _) hdl h.gs
    rw [hsc]
    exact ⟨{ l with glyphs := G }, rfl, good_after_reload hdl h G k1 k2 l.info l.infoStamp (h.infoOk rfl)⟩

/-- … its info first, when listed -/
theorem reloadEntry_info_eq {s : State} {cur : List String} {ln : String} {names : List String}
    {l : MLayer} {dl : DLayer} (hv : view s = s.disk) (hcur : ln ∈ cur) (hl : getLayer s ln = some l)
    (hdl : AL.get? s.disk.layers ln = some dl) (hgs : l.gs = some ⟨ln, AL.keys dl.glifs, true⟩) :
    reloadLayerEntry cur s (ln, true, names) =
      reloadLayerEntry cur (setLayer s ln { l with info := dl.info, infoStamp := some dl.info }) (ln, false, names) := by
  unfold reloadLayerEntry
  simp only [hcur, if_true, hl, getLayer_setLayer_self, Bool.false_eq_true, if_false]
  rw [hgs]
  simp only [Bool.not_true, Bool.false_eq_true, if_false, hv, hdl, Option.map_some, Option.getD_some]

/-- `reloadLayers` for one layer the font holds: its info (when listed) and the listed glyphs -/
theorem reloadEntry_modified {s : State} {cur : List String} {ln : String} {info : Bool} {names : List String}
    {l : MLayer} {dl : DLayer} (hv : view s = s.disk) (hcur : ln ∈ cur) (hl : getLayer s ln = some l)
    (hdl : AL.get? s.disk.layers ln = some dl) (h : ReadyE s.disk ln dl l info names) :
    ∃ l2, reloadLayerEntry cur s (ln, info, names) = (setLayer s ln l2, none) ∧ Good s.disk ln dl l2 := by
  cases info with
  | false => exact reloadEntry_noinfo hv hcur hl hdl h
  | true =>
    rw [reloadEntry_info_eq hv hcur hl hdl h.gs]
    have h' : ReadyE s.disk ln dl { l with info := dl.info, infoStamp := some dl.info } false names :=
      ⟨⟨h.wf.loaded, h.wf.nodupGlyphs, h.wf.disjoint, h.wf.nodupSched⟩, h.gs, h.added, h.deleted, fun _ => rfl,
        h.modified, h.names⟩
    obtain ⟨l2, e, g⟩ := reloadEntry_noinfo (s := setLayer s ln { l with info := dl.info, infoStamp := some dl.info })
      hv hcur (getLayer_setLayer_self _ _ _) hdl h'
    exact ⟨l2, by rw [e, setLayer_setLayer], g⟩


/-! ### all entries of `layerData["layers"]` -/

theorem seqE_append {α : Type} (f : State → α → State × Option Err) (s : State) (a b : List α) :
    seqE f s (a ++ b) = match seqE f s a with
      | (s1, some e) => (s1, some e)
      | (s1, none) => seqE f s1 b := by
  induction a generalizing s with
  | nil => simp [seqE]
  | cons x r ih =>
    simp only [List.cons_append, seqE]
    cases hf : f s x with
    | mk s1 oe =>
      cases oe with
      | some e => rfl
      | none => simp only; exact ih s1

/-- the font with a layer that appeared on disk taken in -/
def addLayer (s : State) (ln : String) (dl : DLayer) : State :=
  { s with font := { s.font with layers := AL.set s.font.layers ln (openLayer ln dl)
                                 order := s.font.order ++ [ln]
                                 history := s.font.history ++ [.new ln] } }

/-- a layer that appeared on disk -/
theorem reloadEntry_added {s : State} {cur : List String} {ln : String} {dl : DLayer} (hv : view s = s.disk)
    (hcur : ln ∉ cur) (hdl : AL.get? s.disk.layers ln = some dl) (hnc : AL.contains s.font.layers ln = false) :
    reloadLayerEntry cur s (ln, false, []) = (addLayer s ln dl, none) := by
  unfold reloadLayerEntry addLayer
  simp only [hcur, if_false, hv, hdl, hnc, Bool.false_eq_true]
  simp [getLayer]

theorem seqE_added (cur : List String) (d : Disk) (A : List String) :
    ∀ (s : State), s.disk = d → view s = s.disk → A.Nodup → (∀ a, a ∈ A → a ∉ cur) →
      (∀ a, a ∈ A → AL.contains d.layers a = true) → (∀ a, a ∈ A → AL.contains s.font.layers a = false) →
      ∃ FL, seqE (reloadLayerEntry cur) s (A.map fun ln => (ln, false, ([] : List String))) =
          ({ s with font := { s.font with layers := FL, order := s.font.order ++ A
                                          history := s.font.history ++ A.map Action.new } }, none) ∧
        (∀ x, AL.get? FL x = if x ∈ A then (AL.get? d.layers x).map (openLayer x) else AL.get? s.font.layers x) := by
  induction A with
  | nil =>
    intro s _ _ _ _ _ _
    refine ⟨s.font.layers, ?_, fun _ => by simp⟩
    simp [seqE]
  | cons a r ih =>
    intro s hd hv hnd h1 h2 h3
    simp only [List.nodup_cons] at hnd
    obtain ⟨dl, hdl⟩ := AL_get?_some_of_contains (h2 a (by simp))
    simp only [List.map_cons, seqE]
    rw [reloadEntry_added hv (h1 a (by simp)) (by rw [hd]; exact hdl) (h3 a (by simp))]
    simp only
    obtain ⟨FL, e, k⟩ := ih (addLayer s a dl) hd hv hnd.2
      (fun x hx => h1 x (by simp [hx])) (fun x hx => h2 x (by simp [hx]))
      (by
        intro x hx
        show AL.contains (AL.set s.font.layers a (openLayer a dl)) x = false
        rw [AL.contains_set]
        have hne : a ≠ x := fun e => hnd.1 (e ▸ hx)
        simp [hne, h3 x (by simp [hx])])
    refine ⟨FL, ?_, ?_⟩
    · rw [e]
      simp [addLayer, List.append_assoc]
    · intro x
      rw [k x]
      by_cases hx : x ∈ r
      · simp [hx]
      · simp only [hx, if_false, List.mem_cons, or_false]
        show AL.get? (AL.set s.font.layers a (openLayer a dl)) x = _
        rw [AL.get?_set]
        by_cases e' : a = x
        · subst e'; simp [hdl]
        · have e'' : ¬ x = a := fun h => e' h.symm
          simp [e', e'']

theorem seqE_modified (cur : List String) (d : Disk) (es : List (String × Bool × List String)) :
    ∀ (s : State), s.disk = d → view s = s.disk → (es.map (·.1)).Nodup →
      (∀ e, e ∈ es → e.1 ∈ cur ∧ ∃ l dl, getLayer s e.1 = some l ∧ AL.get? d.layers e.1 = some dl ∧
        ReadyE d e.1 dl l e.2.1 e.2.2) →
      ∃ FL, seqE (reloadLayerEntry cur) s es = ({ s with font := { s.font with layers := FL } }, none) ∧
        (∀ x, x ∉ es.map (·.1) → AL.get? FL x = AL.get? s.font.layers x) ∧
        (∀ e, e ∈ es → ∃ l2 dl, AL.get? FL e.1 = some l2 ∧ AL.get? d.layers e.1 = some dl ∧ Good d e.1 dl l2) := by
  induction es with
  | nil =>
    intro s _ _ _ _
    refine ⟨s.font.layers, by simp [seqE], fun _ _ => rfl, ?_⟩
    intro e he; simp at he
  | cons e r ih =>
    intro s hd hv hnd hall
    simp only [List.map_cons, List.nodup_cons] at hnd
    obtain ⟨hcur, l, dl, hl, hdl, hready⟩ := hall e (by simp)
    obtain ⟨ln, info, names⟩ := e
    simp only at hcur hl hdl hready hnd
    simp only [seqE]
    obtain ⟨l2, e2, g2⟩ := reloadEntry_modified (cur := cur) hv hcur hl (by rw [hd]; exact hdl) (by rw [hd]; exact hready)
    rw [e2]
    simp only
    have hall1 : ∀ e', e' ∈ r → e'.1 ∈ cur ∧ ∃ l dl, getLayer (setLayer s ln l2) e'.1 = some l ∧
        AL.get? d.layers e'.1 = some dl ∧ ReadyE d e'.1 dl l e'.2.1 e'.2.2 := by
      intro e' he'
      obtain ⟨c1, l', dl', h1, h2, h3⟩ := hall e' (by simp [he'])
      have hne : ln ≠ e'.1 := fun e'' => hnd.1 (List.mem_map.2 ⟨e', he', e''.symm⟩)
      exact ⟨c1, l', dl', by rw [getLayer_setLayer_ne _ _ hne]; exact h1, h2, h3⟩
    obtain ⟨FL, e3, k1, k2⟩ := ih (setLayer s ln l2) hd hv hnd.2 hall1
    refine ⟨FL, ?_, ?_, ?_⟩
    · rw [e3]; rfl
    · intro x hx
      simp only [List.map_cons, List.mem_cons, not_or] at hx
      rw [k1 x hx.2]
      show AL.get? (AL.set s.font.layers ln l2) x = _
      exact AL.get?_set_ne _ _ _ _ (fun e'' => hx.1 e''.symm)
    · intro e' he'
      simp only [List.mem_cons] at he'
      rcases he' with he' | he'
      · subst he'
        refine ⟨l2, dl, ?_, hdl, by rw [← hd]; exact g2⟩
        rw [k1 ln hnd.1]
        exact AL.get?_set_self _ _ _
      · exact k2 e' he'

end Ext
end DefconModel
