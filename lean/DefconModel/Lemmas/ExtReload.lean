/-
Helper lemmas for C05 (M-Ext), round 3: reloading everything a report lists converges.

The font was in step with its UFO; another program then changed the UFO in any way that deletes
nothing the font lists (`Keeps`); `testForExternalChanges`, then the reload method for every entry
of the report (top-level objects, images, data, layers added / modified, layer order, default
layer): no reload fails, and the second report names nothing.
-/
import DefconModel.Lemmas.ExtGlyphs

namespace DefconModel
namespace Ext

/-! ### `sorted(set(l))` -/

theorem mem_insertStr (x y : String) (l : List String) : y ∈ insertStr x l ↔ y = x ∨ y ∈ l := by
  induction l with
  | nil => simp [insertStr]
  | cons a r ih =>
    unfold insertStr
    split
    · simp
    · split
      · rename_i h
        subst h
        simp
      · simp only [List.mem_cons, ih]
        constructor
        · rintro (h | h | h)
          · exact Or.inr (Or.inl h)
          · exact Or.inl h
          · exact Or.inr (Or.inr h)
        · rintro (h | h | h)
          · exact Or.inr (Or.inl h)
          · exact Or.inl h
          · exact Or.inr (Or.inr h)

theorem mem_sortStr (y : String) (l : List String) : y ∈ sortStr l ↔ y ∈ l := by
  induction l with
  | nil => simp [sortStr]
  | cons a r ih =>
    simp only [sortStr, List.foldr_cons, List.mem_cons] at ih ⊢
    rw [mem_insertStr, ih]

theorem lt_of_not_lt_of_ne {x y : String} (h1 : ¬ x < y) (h2 : ¬ x = y) : y < x := by
  apply Classical.byContradiction
  intro h3
  exact h2 (String.le_antisymm (String.not_lt.1 h3) (String.not_lt.1 h1))

theorem sorted_insertStr (x : String) (l : List String) (h : l.Pairwise (· < ·)) :
    (insertStr x l).Pairwise (· < ·) := by
  induction l with
  | nil => simp [insertStr]
  | cons a r ih =>
    rw [List.pairwise_cons] at h
    unfold insertStr
    split
    · rename_i hxa
      rw [List.pairwise_cons]
      refine ⟨?_, List.pairwise_cons.2 h⟩
      intro z hz
      simp only [List.mem_cons] at hz
      rcases hz with hz | hz
      · subst hz; exact hxa
      · exact String.lt_trans hxa (h.1 z hz)
    · split
      · exact List.pairwise_cons.2 h
      · rename_i h1 h2
        rw [List.pairwise_cons]
        refine ⟨?_, ih h.2⟩
        intro z hz
        rw [mem_insertStr] at hz
        rcases hz with hz | hz
        · subst hz; exact lt_of_not_lt_of_ne h1 h2
        · exact h.1 z hz

theorem sorted_sortStr (l : List String) : (sortStr l).Pairwise (· < ·) := by
  induction l with
  | nil => simp [sortStr]
  | cons a r ih => exact sorted_insertStr a _ ih

theorem nodup_sortStr (l : List String) : (sortStr l).Nodup := by
  have := sorted_sortStr l
  unfold List.Nodup
  refine this.imp ?_
  intro a b h e
  subst e
  exact String.lt_irrefl _ h

/-! ### the state in which the test names nothing -/

/-- a layer for which the test names nothing -/
structure LayerQuiet (d : Disk) (ln : String) (dl : DLayer) (l : MLayer) : Prop where
  info : l.infoStamp = some dl.info
  modified : layerModified d ln l = []
  added : layerAdded d ln l = []
  deleted : layerDeleted d ln l = []

/-- a font for which the test names nothing -/
structure Settled (s : State) : Prop where
  parts : ∀ p mp, getPart s p = some mp → partChanged s.disk p mp.stamp = false
  order : s.font.order = layerNames s.disk
  default : s.font.default = s.disk.default
  layers : ∀ ln, ln ∈ s.font.order →
    ∃ l dl, AL.get? s.font.layers ln = some l ∧ AL.get? s.disk.layers ln = some dl ∧ LayerQuiet s.disk ln dl l
  images : fsTest s.disk.images s.font.images = {}
  data : fsTest s.disk.data s.font.data = {}

theorem report_settled {s : State} (h : Settled s) : report s = quietReport s := by
  have hparts : partsReport s = (allParts.map fun p => (p, (getPart s p).map fun _ => false)) := by
    unfold partsReport
    apply List.map_congr_left
    intro p _
    cases hg : getPart s p with
    | none => rfl
    | some mp =>
      simp only [Option.map_some]
      rw [h.parts p mp hg]
  have hadded : layersAdded s = [] := by
    unfold layersAdded
    rw [List.filter_eq_nil_iff]
    intro n hn
    rw [← h.order] at hn
    simp [hn]
  have hdeleted : layersDeleted s = [] := by
    unfold layersDeleted
    rw [List.filter_eq_nil_iff]
    intro n hn
    rw [h.order] at hn
    simp [hn]
  have hmod : layersModified s = [] := by
    unfold layersModified
    rw [List.filterMap_eq_nil_iff]
    intro ln hln
    obtain ⟨l, dl, hl, hdl, hs⟩ := h.layers ln hln
    simp [layerEntry, hl, hdl, layerRep, hs.modified, hs.added, hs.deleted, hs.info, LayerRep.isEmpty]
  unfold report quietReport
  rw [hparts, hadded, hdeleted, hmod, h.images, h.data]
  simp [h.order, h.default]

/-! ### top-level objects: `reloadInfo/…/reloadLib` for the flagged ones -/

theorem partFlag_report (s : State) (p : Part) :
    partFlag (report s) p = match getPart s p with
      | some mp => partChanged s.disk p mp.stamp
      | none => false := by
  unfold partFlag
  rw [get?_report_parts]
  cases getPart s p with
  | none => rfl
  | some mp =>
    simp only [Option.map_some, Option.getD_some]
    cases partChanged s.disk p mp.stamp <;> simp

/-- the parts dictionary after the reloads: every loaded object compares equal to its file -/
theorem reloadPartIf_spec (r : Report) (s : State) (p : Part)
    (hf : partFlag r p = match getPart s p with
      | some mp => partChanged s.disk p mp.stamp
      | none => false) :
    ∃ P', reloadPartIf r s p = { s with font := { s.font with parts := P' } } ∧
      (∀ q, q ≠ p → AL.get? P' q = AL.get? s.font.parts q) ∧
      (∀ mp, AL.get? P' p = some mp → partChanged s.disk p mp.stamp = false) := by
  unfold reloadPartIf
  cases hg : getPart s p with
  | none =>
    rw [hg] at hf
    simp only [hf, Bool.false_eq_true, if_false]
    refine ⟨s.font.parts, rfl, fun _ _ => rfl, ?_⟩
    intro mp hmp
    unfold getPart at hg
    rw [hg] at hmp
    cases hmp
  | some mp0 =>
    rw [hg] at hf
    simp only at hf
    cases hc : partChanged s.disk p mp0.stamp with
    | false =>
      rw [hc] at hf
      simp only [hf, Bool.false_eq_true, if_false]
      refine ⟨s.font.parts, rfl, fun _ _ => rfl, ?_⟩
      intro mp hmp
      unfold getPart at hg
      rw [hg] at hmp
      injection hmp with hmp
      subst hmp
      exact hc
    | true =>
      rw [hc] at hf
      simp only [hf, if_true]
      unfold reloadPart
      simp only [hg]
      refine ⟨_, rfl, fun q hq => AL.get?_set_ne _ _ _ _ (fun e => hq e.symm), ?_⟩
      intro mp hmp
      rw [AL.get?_set_self] at hmp
      injection hmp with hmp
      subst hmp
      exact partChanged_stampOf _ _

theorem reloadParts_spec (r : Report) (s : State)
    (hr : ∀ p, partFlag r p = match getPart s p with
      | some mp => partChanged s.disk p mp.stamp
      | none => false) :
    ∃ P', [Part.groups, .kerning, .info, .features, .lib].foldl (reloadPartIf r) s =
        { s with font := { s.font with parts := P' } } ∧
      ∀ p mp, AL.get? P' p = some mp → partChanged s.disk p mp.stamp = false := by
  have flag : ∀ (P : List (Part × MPart)) (p : Part), AL.get? P p = AL.get? s.font.parts p →
      partFlag r p = match getPart ({ s with font := { s.font with parts := P } } : State) p with
        | some mp => partChanged s.disk p mp.stamp
        | none => false := by
    intro P p hP
    rw [hr p]
    unfold getPart
    simp only
    rw [hP]
  obtain ⟨P1, e1, n1, q1⟩ := reloadPartIf_spec r s .groups (hr .groups)
  obtain ⟨P2, e2, n2, q2⟩ := reloadPartIf_spec r { s with font := { s.font with parts := P1 } } .kerning
    (flag P1 .kerning (n1 _ (by decide)))
  obtain ⟨P3, e3, n3, q3⟩ := reloadPartIf_spec r { s with font := { s.font with parts := P2 } } .info
    (flag P2 .info (by rw [n2 _ (by decide), n1 _ (by decide)]))
  obtain ⟨P4, e4, n4, q4⟩ := reloadPartIf_spec r { s with font := { s.font with parts := P3 } } .features
    (flag P3 .features (by rw [n3 _ (by decide), n2 _ (by decide), n1 _ (by decide)]))
  obtain ⟨P5, e5, n5, q5⟩ := reloadPartIf_spec r { s with font := { s.font with parts := P4 } } .lib
    (flag P4 .lib (by rw [n4 _ (by decide), n3 _ (by decide), n2 _ (by decide), n1 _ (by decide)]))
  refine ⟨P5, ?_, ?_⟩
  · simp only [List.foldl]
    rw [e1, e2, e3, e4, e5]
  · intro p mp hmp
    cases p
    · rw [n5 _ (by decide), n4 _ (by decide)] at hmp; exact q3 mp hmp
    · rw [n5 _ (by decide), n4 _ (by decide), n3 _ (by decide)] at hmp; exact q2 mp hmp
    · rw [n5 _ (by decide), n4 _ (by decide), n3 _ (by decide), n2 _ (by decide)] at hmp; exact q1 mp hmp
    · rw [n5 _ (by decide)] at hmp; exact q4 mp hmp
    · exact q5 mp hmp

/-! ### images and data: `reloadImages / reloadData` for the modified and added names -/

def freshEntry (f : File) : Entry := ⟨some f.blob, false, true, some f.mtime, some f.blob⟩

theorem setFS_setFS (s : State) (img : Bool) (a b : FileSet) : setFS (setFS s img a) img b = setFS s img b := by
  cases img <;> rfl

theorem view_setFS (s : State) (img : Bool) (fs : FileSet) : view (setFS s img fs) = view s := by
  cases img <;> rfl

theorem disk_setFS (s : State) (img : Bool) (fs : FileSet) : (setFS s img fs).disk = s.disk := by
  cases img <;> rfl

theorem set_set {κ α : Type} [DecidableEq κ] (l : List (κ × α)) (k : κ) (a b : α) :
    AL.set (AL.set l k a) k b = AL.set l k b := by
  induction l with
  | nil => simp [AL.set]
  | cons p r ih =>
    obtain ⟨k', v⟩ := p
    by_cases e : k' = k
    · simp [AL.set, e]
    · simp [AL.set, e, ih]

/-- one reload, when the font's reader sees the UFO as it is and the file is there -/
theorem reloadFile_eq {s : State} (img : Bool) {n : String} {f : File} (hv : view s = s.disk)
    (hf : AL.get? (fsFiles s.disk img) n = some f) :
    reloadFile img s n = (setFS s img { entries := AL.set (getFS s img).entries n (freshEntry f),
                                        sched := AL.erase (getFS s img).sched n }, none) := by
  unfold reloadFile fsLoad
  simp only [getFS_setFS, AL.get?_set_self, view_setFS, hv, hf, setFS_setFS, set_set]
  rfl

/-- all of them -/
theorem seqE_reloadFile (img : Bool) (names : List String) :
    ∀ (s : State), view s = s.disk → (∀ n, n ∈ names → AL.contains (fsFiles s.disk img) n = true) →
      (AL.keys (getFS s img).entries).Nodup → (AL.keys (getFS s img).sched).Nodup →
      ∃ fs', seqE (reloadFile img) s names = (setFS s img fs', none) ∧
        (AL.keys fs'.entries).Nodup ∧
        (∀ x, AL.get? fs'.entries x =
          if x ∈ names then (AL.get? (fsFiles s.disk img) x).map freshEntry else AL.get? (getFS s img).entries x) ∧
        (∀ x, AL.get? fs'.sched x = if x ∈ names then none else AL.get? (getFS s img).sched x) := by
  induction names with
  | nil =>
    intro s _ _ h1 _
    refine ⟨getFS s img, ?_, h1, fun _ => by simp, fun _ => by simp⟩
    simp only [seqE]
    cases img <;> rfl
  | cons n rest ih =>
    intro s hv hall h1 h2
    obtain ⟨f, hf⟩ := AL_get?_some_of_contains (hall n (by simp))
    simp only [seqE]
    rw [reloadFile_eq img hv hf]
    simp only
    generalize hs1 : setFS s img { entries := AL.set (getFS s img).entries n (freshEntry f),
                                   sched := AL.erase (getFS s img).sched n } = s1
    have d1 : s1.disk = s.disk := by rw [← hs1]; exact disk_setFS _ _ _
    have v1 : view s1 = s1.disk := by rw [d1, ← hs1, view_setFS]; exact hv
    have g1 : getFS s1 img = { entries := AL.set (getFS s img).entries n (freshEntry f),
                                sched := AL.erase (getFS s img).sched n } := by rw [← hs1]; exact getFS_setFS _ _ _
    obtain ⟨fs', e, k1, k2, k3⟩ := ih s1 v1 (by intro x hx; rw [d1]; exact hall x (by simp [hx]))
      (by rw [g1]; exact AL.nodup_keys_set _ _ _ h1) (by rw [g1]; exact AL.nodup_keys_erase _ _ h2)
    refine ⟨fs', ?_, k1, ?_, ?_⟩
    · rw [e, ← hs1, setFS_setFS]
    · intro x
      rw [k2 x, d1, g1]
      by_cases hx : x ∈ rest
      · simp [hx]
      · simp only [hx, if_false, List.mem_cons, or_false]
        rw [AL.get?_set]
        by_cases e' : n = x
        · subst e'; simp [hf]
        · have e'' : ¬ x = n := fun h => e' h.symm
          simp [e', e'']
    · intro x
      rw [k3 x, g1]
      by_cases hx : x ∈ rest
      · simp [hx]
      · simp only [hx, if_false, List.mem_cons, or_false]
        rw [AL.get?_erase _ _ _ h2]
        by_cases e' : n = x
        · subst e'; simp
        · have e'' : ¬ x = n := fun h => e' h.symm
          simp [e', e'']

/-- after reloading what the test listed as modified or added — when it listed nothing as deleted —
the test lists nothing -/
theorem fsTest_after_reload {files : List (String × File)} {fs fs' : FileSet} {names : List String}
    (hn : ∀ x, x ∈ names ↔ x ∈ (fsTest files fs).modified ∨ x ∈ (fsTest files fs).added)
    (hdel : (fsTest files fs).deleted = [])
    (hnd : (AL.keys fs'.entries).Nodup)
    (he : ∀ x, AL.get? fs'.entries x = if x ∈ names then (AL.get? files x).map freshEntry else AL.get? fs.entries x)
    (hs : ∀ x, AL.get? fs'.sched x = if x ∈ names then none else AL.get? fs.sched x)
    (hfile : ∀ x, x ∈ names → AL.contains files x = true) :
    fsTest files fs' = {} := by
  have hmod : fs'.entries.filterMap (isModifiedFile files) = [] := by
    rw [List.filterMap_eq_nil_iff]
    intro p hp
    obtain ⟨x, e⟩ := p
    have hg := AL.get?_of_mem_nodup hnd hp
    rw [he] at hg
    by_cases hx : x ∈ names
    · simp only [hx, if_true] at hg
      obtain ⟨f, hf⟩ := AL_get?_some_of_contains (hfile x hx)
      rw [hf] at hg
      simp only [Option.map_some, Option.some.injEq] at hg
      subst hg
      exact isModifiedFile_of_stamp hf
    · simp only [hx, if_false] at hg
      have hm := AL.mem_of_get? hg
      have hnot : x ∉ (fsTest files fs).modified := fun h => hx ((hn x).2 (Or.inl h))
      cases hi : isModifiedFile files (x, e) with
      | none => rfl
      | some y =>
        exfalso
        apply hnot
        have hy : y = x := by
          unfold isModifiedFile at hi
          split at hi
          · split at hi
            · injection hi with hi; exact hi.symm
            · cases hi
          · cases hi
        subst hy
        exact List.mem_filterMap.2 ⟨(y, e), hm, hi⟩
  have hadd : (AL.keys files).filter (isAddedFile files fs') = [] := by
    rw [List.filter_eq_nil_iff]
    intro x hxf
    by_cases hx : x ∈ names
    · have : AL.contains fs'.entries x = true := by
        unfold AL.contains
        rw [he]
        simp only [hx, if_true]
        obtain ⟨f, hf⟩ := AL_get?_some_of_contains (hfile x hx)
        simp [hf]
      simp [isAddedFile, this]
    · have hnot : x ∉ (fsTest files fs).added := fun h => hx ((hn x).2 (Or.inr h))
      have hold : isAddedFile files fs x = false := by
        cases hi : isAddedFile files fs x with
        | false => rfl
        | true => exact absurd (List.mem_filter.2 ⟨hxf, hi⟩) hnot
      have e1 : AL.contains fs'.entries x = AL.contains fs.entries x := by
        unfold AL.contains; rw [he]; simp [hx]
      have e2 : AL.get? fs'.sched x = AL.get? fs.sched x := by rw [hs]; simp [hx]
      unfold isAddedFile at hold ⊢
      rw [e1, e2]
      simpa using hold
  have hdel' : fs'.entries.filterMap (isDeletedFile files) = [] := by
    rw [List.filterMap_eq_nil_iff]
    intro p hp
    obtain ⟨x, e⟩ := p
    have hg := AL.get?_of_mem_nodup hnd hp
    rw [he] at hg
    by_cases hx : x ∈ names
    · unfold isDeletedFile
      simp [hfile x hx]
    · simp only [hx, if_false] at hg
      have hm := AL.mem_of_get? hg
      cases hi : isDeletedFile files (x, e) with
      | none => rfl
      | some y =>
        exfalso
        have : y ∈ (fsTest files fs).deleted := List.mem_filterMap.2 ⟨(x, e), hm, hi⟩
        rw [hdel] at this
        cases this
  unfold fsTest
  rw [hmod, hadd, hdel']


/-! ### one layer: after the test, after `reloadGlyphs` -/

/-- structural well-formedness of a layer's tables -/
structure LayerWF (l : MLayer) : Prop where
  loaded : ∀ gn g, (gn, g) ∈ l.glyphs → gn ∈ l.keys
  nodupGlyphs : (AL.keys l.glyphs).Nodup
  disjoint : ∀ gn, gn ∈ l.keys → AL.contains l.sched gn = false
  nodupSched : (AL.keys l.sched).Nodup

theorem mem_foldl_setAdd (A : List String) (K : List String) (x : String) :
    x ∈ A.foldl setAdd K ↔ x ∈ K ∨ x ∈ A := by
  induction A generalizing K with
  | nil => simp
  | cons a r ih =>
    simp only [List.foldl_cons, List.mem_cons]
    rw [ih, mem_setAdd]
    constructor
    · rintro ((h | h) | h)
      · exact Or.inl h
      · exact Or.inr (Or.inl h)
      · exact Or.inr (Or.inr h)
    · rintro (h | h | h)
      · exact Or.inl (Or.inl h)
      · exact Or.inl (Or.inr h)
      · exact Or.inr h

/-- the layer is ready for the reload of `names` (and of its info when `info`): what the test leaves -/
structure ReadyE (d : Disk) (ln : String) (dl : DLayer) (l : MLayer) (info : Bool) (names : List String) : Prop where
  wf : LayerWF l
  gs : l.gs = some ⟨ln, AL.keys dl.glifs, true⟩
  added : layerAdded d ln l = []
  deleted : layerDeleted d ln l = []
  infoOk : info = false → l.infoStamp = some dl.info
  modified : ∀ x, x ∈ layerModified d ln l → x ∈ names
  names : ∀ x, x ∈ names → x ∈ l.keys ∧ x ∈ AL.keys dl.glifs ∧
    ((AL.get? l.glyphs x).isSome = true ∨ AL.contains l.sched x = false)

/-- the layer is done: the test names nothing for it, and it is bound to an open glyph set -/
structure Good (d : Disk) (ln : String) (dl : DLayer) (l : MLayer) : Prop where
  quiet : LayerQuiet d ln dl l
  wf : LayerWF l
  gs : l.gs = some ⟨ln, AL.keys dl.glifs, true⟩

theorem setLayer_setLayer (s : State) (ln : String) (a b : MLayer) :
    setLayer (setLayer s ln a) ln b = setLayer s ln b := by
  unfold setLayer
  simp only [set_set]

theorem view_setLayer (s : State) (ln : String) (l : MLayer) : view (setLayer s ln l) = view s := rfl

theorem isModifiedGlyph_some {d : Disk} {ln : String} {p : String × MGlyph} {y : String}
    (h : isModifiedGlyph d ln p = some y) : y = p.1 := by
  unfold isModifiedGlyph at h
  split at h
  · split at h
    · injection h with h; exact h.symm
    · cases h
  · cases h

/-- `reloadGlyphs` for one listed name -/
theorem reloadGlyph_eq {s : State} {ln gn : String} {l : MLayer} {dl : DLayer} {f : File}
    (hv : view s = s.disk) (hl : getLayer s ln = some l) (hdl : AL.get? s.disk.layers ln = some dl)
    (hgs : l.gs = some ⟨ln, AL.keys dl.glifs, true⟩) (hk : gn ∈ l.keys)
    (hf : AL.get? dl.glifs gn = some f)
    (hok : (AL.get? l.glyphs gn).isSome = true ∨ AL.contains l.sched gn = false) :
    reloadGlyph ln s gn = (setLayer s ln { l with glyphs := AL.set l.glyphs gn ⟨f.blob, false, some f⟩ }, none) := by
  have hin : gn ∈ AL.keys dl.glifs := AL.mem_keys_of_get? hf
  have hgl : glifOf s.disk ln gn = some f := by rw [glifOf_eq s.disk ln gn dl hdl]; exact hf
  unfold reloadGlyph
  simp only [hl]
  cases hg : AL.get? l.glyphs gn with
  | none =>
    simp only
    have hsc : AL.contains l.sched gn = false := by
      rcases hok with h1 | h1
      · simp [hg] at h1
      · exact h1
    unfold loadGlyph
    simp only [hgs, hin, hsc, not_true_eq_false, Bool.false_eq_true, or_self, if_false]
    unfold gsRead
    simp only [Bool.not_true, Bool.false_eq_true, if_false, hv, hgl]
    have : setAdd l.keys gn = l.keys := by unfold setAdd; simp [hk]
    rw [this]
  | some g =>
    simp only [hgs, hin, if_true]
    unfold gsRead
    simp only [Bool.not_true, Bool.false_eq_true, if_false, hv, hgl]

/-- `reloadGlyphs` for all listed names -/
theorem seqE_reloadGlyph (ln : String) (dl : DLayer) (names : List String) :
    ∀ (s : State) (l : MLayer), view s = s.disk → getLayer s ln = some l → AL.get? s.disk.layers ln = some dl →
      l.gs = some ⟨ln, AL.keys dl.glifs, true⟩ → (AL.keys l.glyphs).Nodup →
      (∀ x, x ∈ names → x ∈ l.keys ∧ x ∈ AL.keys dl.glifs ∧
        ((AL.get? l.glyphs x).isSome = true ∨ AL.contains l.sched x = false)) →
      ∃ G, seqE (reloadGlyph ln) s names = (setLayer s ln { l with glyphs := G }, none) ∧ (AL.keys G).Nodup ∧
        (∀ x, AL.get? G x = if x ∈ names then (AL.get? dl.glifs x).map (fun f => ⟨f.blob, false, some f⟩)
          else AL.get? l.glyphs x) := by
  induction names with
  | nil =>
    intro s l _ hl _ _ hn _
    refine ⟨l.glyphs, ?_, hn, fun _ => by simp⟩
    simp only [seqE]
    have : setLayer s ln l = s := by
      unfold setLayer
      unfold getLayer at hl
      have : AL.set s.font.layers ln l = s.font.layers := by
        clear hn
        generalize s.font.layers = L at hl
        induction L with
        | nil => simp at hl
        | cons p r ih =>
          obtain ⟨k, v⟩ := p
          by_cases e : k = ln
          · subst e; simp at hl; subst hl; simp [AL.set]
          · simp [e] at hl; simp [AL.set, e, ih hl]
      rw [this]
    rw [this]
  | cons n rest ih =>
    intro s l hv hl hdl hgs hnd hall
    obtain ⟨hk, hon, hok⟩ := hall n (by simp)
    obtain ⟨f, hf⟩ := AL_get?_some_of_contains ((AL_mem_keys_iff_contains _ _).1 hon)
    simp only [seqE]
    rw [reloadGlyph_eq hv hl hdl hgs hk hf hok]
    simp only
    obtain ⟨G, e, k1, k2⟩ := ih (setLayer s ln { l with glyphs := AL.set l.glyphs n ⟨f.blob, false, some f⟩ })
      { l with glyphs := AL.set l.glyphs n ⟨f.blob, false, some f⟩ } hv (getLayer_setLayer_self _ _ _) hdl hgs
      (AL.nodup_keys_set _ _ _ hnd) (by
        intro x hx
        obtain ⟨a, b, c⟩ := hall x (by simp [hx])
        refine ⟨a, b, ?_⟩
        rcases c with c | c
        · left
          show (AL.get? (AL.set l.glyphs n _) x).isSome = true
          rw [AL.get?_set]
          split
          · rfl
          · exact c
        · exact Or.inr c)
    refine ⟨G, ?_, k1, ?_⟩
    · rw [e, setLayer_setLayer]
    · intro x
      rw [k2 x]
      by_cases hx : x ∈ rest
      · simp [hx]
      · simp only [hx, if_false, List.mem_cons, or_false]
        show AL.get? (AL.set l.glyphs n _) x = _
        rw [AL.get?_set]
        by_cases e' : n = x
        · subst e'; simp [hf]
        · have e'' : ¬ x = n := fun h => e' h.symm
          simp [e', e'']

/-- the layer after the reload of everything its report entry lists -/
theorem good_after_reload {d : Disk} {ln : String} {dl : DLayer} {l : MLayer} {info : Bool} {names : List String}
    (hdl : AL.get? d.layers ln = some dl) (h : ReadyE d ln dl l info names) (G : List (String × MGlyph))
    (hnd : (AL.keys G).Nodup)
    (hG : ∀ x, AL.get? G x = if x ∈ names then (AL.get? dl.glifs x).map (fun f => ⟨f.blob, false, some f⟩)
      else AL.get? l.glyphs x)
    (v : Blob) (stamp : Option Blob) (hst : stamp = some dl.info) :
    Good d ln dl { l with glyphs := G, info := v, infoStamp := stamp } where
  quiet := {
    info := hst
    modified := by
      unfold layerModified
      rw [List.filterMap_eq_nil_iff]
      intro p hp
      obtain ⟨x, g⟩ := p
      have hg := AL.get?_of_mem_nodup hnd hp
      rw [hG] at hg
      by_cases hx : x ∈ names
      · simp only [hx, if_true] at hg
        obtain ⟨_, hon, _⟩ := h.names x hx
        obtain ⟨f, hf⟩ := AL_get?_some_of_contains ((AL_mem_keys_iff_contains _ _).1 hon)
        rw [hf] at hg
        simp only [Option.map_some, Option.some.injEq] at hg
        subst hg
        exact isModifiedGlyph_of_stamp (by rw [glifOf_eq d ln x dl hdl]; exact hf)
      · simp only [hx, if_false] at hg
        cases hi : isModifiedGlyph d ln (x, g) with
        | none => rfl
        | some y =>
          exfalso
          have hy := isModifiedGlyph_some hi
          simp only at hy
          subst hy
          exact hx (h.modified y (List.mem_filterMap.2 ⟨(y, g), AL.mem_of_get? hg, hi⟩))
    added := h.added
    deleted := h.deleted }
  wf := {
    loaded := by
      intro x g hm
      have hg := AL.get?_of_mem_nodup hnd hm
      rw [hG] at hg
      by_cases hx : x ∈ names
      · exact (h.names x hx).1
      · simp only [hx, if_false] at hg
        exact h.wf.loaded x g (AL.mem_of_get? hg)
    nodupGlyphs := hnd
    disjoint := h.wf.disjoint
    nodupSched := h.wf.nodupSched }
  gs := h.gs


theorem setLayer_self {s : State} {ln : String} {l : MLayer} (hl : getLayer s ln = some l) : setLayer s ln l = s := by
  unfold setLayer
  unfold getLayer at hl
  have : AL.set s.font.layers ln l = s.font.layers := by
    generalize s.font.layers = L at hl
    induction L with
    | nil => simp at hl
    | cons p r ih =>
      obtain ⟨k, v⟩ := p
      by_cases e : k = ln
      · subst e; simp at hl; subst hl; simp [AL.set]
      · simp [e] at hl; simp [AL.set, e, ih hl]
  rw [this]

theorem scanUnloaded_none {s : State} {ln : String} {l : MLayer} {dl : DLayer} (hv : view s = s.disk)
    (hl : getLayer s ln = some l) (hdl : AL.get? s.disk.layers ln = some dl)
    (hgs : l.gs = some ⟨ln, AL.keys dl.glifs, true⟩) : scanUnloaded s ln = none := by
  unfold scanUnloaded
  simp only [hl, hgs]
  split
  · rfl
  · simp only [Bool.not_true, Bool.false_eq_true, if_false]
    split
    · rfl
    · rename_i hall
      exfalso
      apply hall
      rw [List.all_eq_true]
      intro gn hgn
      rw [List.mem_filter] at hgn
      rw [hv, glifOf_eq s.disk ln gn dl hdl]
      obtain ⟨f, hf⟩ := AL_get?_some_of_contains ((AL_mem_keys_iff_contains _ _).1 hgn.1)
      simp [hf]

/-- `reloadLayers` for one layer the font holds, glyphs only -/
theorem reloadEntry_noinfo {s : State} {cur : List String} {ln : String} {names : List String}
    {l : MLayer} {dl : DLayer} (hv : view s = s.disk) (hcur : ln ∈ cur) (hl : getLayer s ln = some l)
    (hdl : AL.get? s.disk.layers ln = some dl) (h : ReadyE s.disk ln dl l false names) :
    ∃ l2, reloadLayerEntry cur s (ln, false, names) = (setLayer s ln l2, none) ∧ Good s.disk ln dl l2 := by
  unfold reloadLayerEntry
  simp only [hcur, if_true, hl, Bool.false_eq_true, if_false]
  by_cases hemp : names.isEmpty = true
  · simp only [hemp, if_true]
    refine ⟨l, by rw [setLayer_self hl], ?_⟩
    have hnames : names = [] := List.isEmpty_iff.1 hemp
    exact good_after_reload hdl h l.glyphs h.wf.nodupGlyphs (by intro x; simp [hnames]) l.info l.infoStamp (h.infoOk rfl)
  · simp only [hemp, Bool.false_eq_true, if_false]
    obtain ⟨G, e, k1, k2⟩ := seqE_reloadGlyph ln dl names s l hv hl hdl h.gs h.wf.nodupGlyphs h.names
    rw [e]
    simp only
    have hsc := scanUnloaded_none (s := setLayer s ln { l with glyphs := G }) (ln := ln) (dl := dl) hv
      (getLayer_setLayer_self _ _ _) hdl h.gs
    rw [hsc]
    exact ⟨{ l with glyphs := G }, rfl, good_after_reload hdl h G k1 k2 l.info l.infoStamp (h.infoOk rfl)⟩

/-- … its info first, when listed -/
theorem reloadEntry_info_eq {s : State} {cur : List String} {ln : String} {names : List String}
    {l : MLayer} {dl : DLayer} (hv : view s = s.disk) (hcur : ln ∈ cur) (hl : getLayer s ln = some l)
    (hdl : AL.get? s.disk.layers ln = some dl) (hgs : l.gs = some ⟨ln, AL.keys dl.glifs, true⟩) :
    reloadLayerEntry cur s (ln, true, names) =
      reloadLayerEntry cur (setLayer s ln { l with info := dl.info, infoStamp := some dl.info }) (ln, false, names) := by
  unfold reloadLayerEntry
  simp only [hcur, if_true, hl, getLayer_setLayer_self, Bool.false_eq_true, if_false]
  rw [hgs]
  simp only [Bool.not_true, Bool.false_eq_true, if_false, hv, hdl, Option.map_some, Option.getD_some]

/-- `reloadLayers` for one layer the font holds: its info (when listed) and the listed glyphs -/
theorem reloadEntry_modified {s : State} {cur : List String} {ln : String} {info : Bool} {names : List String}
    {l : MLayer} {dl : DLayer} (hv : view s = s.disk) (hcur : ln ∈ cur) (hl : getLayer s ln = some l)
    (hdl : AL.get? s.disk.layers ln = some dl) (h : ReadyE s.disk ln dl l info names) :
    ∃ l2, reloadLayerEntry cur s (ln, info, names) = (setLayer s ln l2, none) ∧ Good s.disk ln dl l2 := by
  cases info with
  | false => exact reloadEntry_noinfo hv hcur hl hdl h
  | true =>
    rw [reloadEntry_info_eq hv hcur hl hdl h.gs]
    have h' : ReadyE s.disk ln dl { l with info := dl.info, infoStamp := some dl.info } false names :=
      ⟨⟨h.wf.loaded, h.wf.nodupGlyphs, h.wf.disjoint, h.wf.nodupSched⟩, h.gs, h.added, h.deleted, fun _ => rfl,
        h.modified, h.names⟩
    obtain ⟨l2, e, g⟩ := reloadEntry_noinfo (s := setLayer s ln { l with info := dl.info, infoStamp := some dl.info })
      hv hcur (getLayer_setLayer_self _ _ _) hdl h'
    exact ⟨l2, by rw [e, setLayer_setLayer], g⟩


/-! ### all entries of `layerData["layers"]` -/

theorem seqE_append {α : Type} (f : State → α → State × Option Err) (s : State) (a b : List α) :
    seqE f s (a ++ b) = match seqE f s a with
      | (s1, some e) => (s1, some e)
      | (s1, none) => seqE f s1 b := by
  induction a generalizing s with
  | nil => simp [seqE]
  | cons x r ih =>
    simp only [List.cons_append, seqE]
    cases hf : f s x with
    | mk s1 oe =>
      cases oe with
      | some e => rfl
      | none => simp only; exact ih s1

/-- the font with a layer that appeared on disk taken in -/
def addLayer (s : State) (ln : String) (dl : DLayer) : State :=
  { s with font := { s.font with layers := AL.set s.font.layers ln (openLayer ln dl)
                                 order := s.font.order ++ [ln]
                                 history := s.font.history ++ [.new ln] } }

/-- a layer that appeared on disk -/
theorem reloadEntry_added {s : State} {cur : List String} {ln : String} {dl : DLayer} (hv : view s = s.disk)
    (hcur : ln ∉ cur) (hdl : AL.get? s.disk.layers ln = some dl) (hnc : AL.contains s.font.layers ln = false) :
    reloadLayerEntry cur s (ln, false, []) = (addLayer s ln dl, none) := by
  unfold reloadLayerEntry addLayer
  simp only [hcur, if_false, hv, hdl, hnc, Bool.false_eq_true]
  simp [getLayer]

/-- the font with the layers `A` that appeared on disk taken in -/
def addLayers (s : State) (FL : List (String × MLayer)) (A : List String) : State :=
  { s with font := { s.font with layers := FL
                                 order := s.font.order ++ A
                                 history := s.font.history ++ A.map Action.new } }

theorem seqE_added (cur : List String) (d : Disk) (A : List String) :
    ∀ (s : State), s.disk = d → view s = s.disk → A.Nodup → (∀ a, a ∈ A → a ∉ cur) →
      (∀ a, a ∈ A → AL.contains d.layers a = true) → (∀ a, a ∈ A → AL.contains s.font.layers a = false) →
      ∃ FL, seqE (reloadLayerEntry cur) s (A.map fun ln => (ln, false, ([] : List String))) =
          (addLayers s FL A, none) ∧
        (∀ x, AL.get? FL x = if x ∈ A then (AL.get? d.layers x).map (openLayer x) else AL.get? s.font.layers x) := by
  induction A with
  | nil =>
    intro s _ _ _ _ _ _
    refine ⟨s.font.layers, ?_, fun _ => by simp⟩
    simp [seqE, addLayers]
  | cons a r ih =>
    intro s hd hv hnd h1 h2 h3
    simp only [List.nodup_cons] at hnd
    obtain ⟨dl, hdl⟩ := AL_get?_some_of_contains (h2 a (by simp))
    simp only [List.map_cons, seqE]
    rw [reloadEntry_added hv (h1 a (by simp)) (by rw [hd]; exact hdl) (h3 a (by simp))]
    simp only
    obtain ⟨FL, e, k⟩ := ih (addLayer s a dl) hd hv hnd.2
      (fun x hx => h1 x (by simp [hx])) (fun x hx => h2 x (by simp [hx]))
      (by
        intro x hx
        show AL.contains (AL.set s.font.layers a (openLayer a dl)) x = false
        rw [AL.contains_set]
        have hne : a ≠ x := fun e => hnd.1 (e ▸ hx)
        simp [hne, h3 x (by simp [hx])])
    refine ⟨FL, ?_, ?_⟩
    · rw [e]
      simp [addLayer, addLayers, List.append_assoc]
    · intro x
      rw [k x]
      by_cases hx : x ∈ r
      · simp [hx]
      · simp only [hx, if_false, List.mem_cons, or_false]
        show AL.get? (AL.set s.font.layers a (openLayer a dl)) x = _
        rw [AL.get?_set]
        by_cases e' : a = x
        · subst e'; simp [hdl]
        · have e'' : ¬ x = a := fun h => e' h.symm
          simp [e', e'']

theorem seqE_modified (cur : List String) (d : Disk) (es : List (String × Bool × List String)) :
    ∀ (s : State), s.disk = d → view s = s.disk → (es.map (·.1)).Nodup →
      (∀ e, e ∈ es → e.1 ∈ cur ∧ ∃ l dl, getLayer s e.1 = some l ∧ AL.get? d.layers e.1 = some dl ∧
        ReadyE d e.1 dl l e.2.1 e.2.2) →
      ∃ FL, seqE (reloadLayerEntry cur) s es = ({ s with font := { s.font with layers := FL } }, none) ∧
        (∀ x, x ∉ es.map (·.1) → AL.get? FL x = AL.get? s.font.layers x) ∧
        (∀ e, e ∈ es → ∃ l2 dl, AL.get? FL e.1 = some l2 ∧ AL.get? d.layers e.1 = some dl ∧ Good d e.1 dl l2) := by
  induction es with
  | nil =>
    intro s _ _ _ _
    refine ⟨s.font.layers, by simp [seqE], fun _ _ => rfl, ?_⟩
    intro e he; simp at he
  | cons e r ih =>
    intro s hd hv hnd hall
    simp only [List.map_cons, List.nodup_cons] at hnd
    obtain ⟨hcur, l, dl, hl, hdl, hready⟩ := hall e (by simp)
    obtain ⟨ln, info, names⟩ := e
    simp only at hcur hl hdl hready hnd
    simp only [seqE]
    obtain ⟨l2, e2, g2⟩ := reloadEntry_modified (cur := cur) hv hcur hl (by rw [hd]; exact hdl) (by rw [hd]; exact hready)
    rw [e2]
    simp only
    have hall1 : ∀ e', e' ∈ r → e'.1 ∈ cur ∧ ∃ l dl, getLayer (setLayer s ln l2) e'.1 = some l ∧
        AL.get? d.layers e'.1 = some dl ∧ ReadyE d e'.1 dl l e'.2.1 e'.2.2 := by
      intro e' he'
      obtain ⟨c1, l', dl', h1, h2, h3⟩ := hall e' (by simp [he'])
      have hne : ln ≠ e'.1 := fun e'' => hnd.1 (List.mem_map.2 ⟨e', he', e''.symm⟩)
      exact ⟨c1, l', dl', by rw [getLayer_setLayer_ne _ _ hne]; exact h1, h2, h3⟩
    obtain ⟨FL, e3, k1, k2⟩ := ih (setLayer s ln l2) hd hv hnd.2 hall1
    refine ⟨FL, ?_, ?_, ?_⟩
    · rw [e3]; rfl
    · intro x hx
      simp only [List.map_cons, List.mem_cons, not_or] at hx
      rw [k1 x hx.2]
      show AL.get? (AL.set s.font.layers ln l2) x = _
      exact AL.get?_set_ne _ _ _ _ (fun e'' => hx.1 e''.symm)
    · intro e' he'
      simp only [List.mem_cons] at he'
      rcases he' with he' | he'
      · subst he'
        refine ⟨l2, dl, ?_, hdl, by rw [← hd]; exact g2⟩
        rw [k1 ln hnd.1]
        exact AL.get?_set_self _ _ _
      · exact k2 e' he'


/-! ### what the test leaves of a layer -/

theorem LayerSynced.wf {ln : String} {dl : DLayer} {l : MLayer} (h : LayerSynced ln dl l) (hn : (AL.keys l.sched).Nodup) :
    LayerWF l := ⟨h.loaded, h.nodupGlyphs, h.disjoint, hn⟩

theorem glifNames_eq {d : Disk} {ln : String} {dl : DLayer} (hdl : AL.get? d.layers ln = some dl) :
    glifNames d ln = AL.keys dl.glifs := by simp [glifNames, hdl]

theorem ready_after_test {d : Disk} {ln : String} {dl : DLayer} {l0 : MLayer} (hdl : AL.get? d.layers ln = some dl)
    (hw : LayerWF l0) (hk : ∀ gn, gn ∈ l0.keys → gn ∈ AL.keys dl.glifs) :
    ReadyE d ln dl (layerAfterTest d ln l0) (decide (l0.infoStamp ≠ some dl.info))
      (sortStr (layerModified d ln l0 ++ layerAdded d ln l0)) := by
  have hA : ∀ x, x ∈ layerAdded d ln l0 → x ∈ AL.keys dl.glifs := by
    intro x hx
    unfold layerAdded at hx
    rw [List.mem_filter, glifNames_eq hdl] at hx
    exact hx.1
  have hkeys : ∀ x, x ∈ (layerAfterTest d ln l0).keys ↔ x ∈ l0.keys ∨ x ∈ layerAdded d ln l0 :=
    fun x => mem_foldl_setAdd _ _ x
  have hsched : ∀ x, AL.get? (layerAfterTest d ln l0).sched x =
      if x ∈ layerAdded d ln l0 then none else AL.get? l0.sched x :=
    fun x => AL.get?_foldl_erase _ _ _ hw.nodupSched
  exact {
    wf := {
      loaded := fun gn g hm => (hkeys gn).2 (Or.inl (hw.loaded gn g hm))
      nodupGlyphs := hw.nodupGlyphs
      disjoint := by
        intro gn hgn
        unfold AL.contains
        rw [hsched]
        by_cases hx : gn ∈ layerAdded d ln l0
        · simp [hx]
        · simp only [hx, if_false]
          rcases (hkeys gn).1 hgn with h1 | h1
          · exact hw.disjoint gn h1
          · exact absurd h1 hx
      nodupSched := AL.nodup_keys_foldl_erase _ _ hw.nodupSched }
    gs := by show some _ = some _; rw [glifNames_eq hdl]
    added := by
      unfold layerAdded
      rw [List.filter_eq_nil_iff]
      intro gn hgn
      by_cases hin : gn ∈ (layerAfterTest d ln l0).keys
      · simp [isAddedGlyph, hin]
      · have hnk : gn ∉ l0.keys := fun h => hin ((hkeys gn).2 (Or.inl h))
        have hna : gn ∉ layerAdded d ln l0 := fun h => hin ((hkeys gn).2 (Or.inr h))
        have hold : isAddedGlyph d ln l0 gn = false := by
          cases hi : isAddedGlyph d ln l0 gn with
          | false => rfl
          | true => exact absurd (List.mem_filter.2 ⟨hgn, hi⟩) hna
        unfold isAddedGlyph at hold ⊢
        rw [hsched]
        simp only [hna, if_false]
        simpa [hnk, hin] using hold
    deleted := by
      unfold layerDeleted
      rw [List.filter_eq_nil_iff]
      intro gn hgn
      rw [glifNames_eq hdl]
      rcases (hkeys gn).1 hgn with h1 | h1
      · simp [hk gn h1]
      · simp [hA gn h1]
    infoOk := by
      intro hi
      have : l0.infoStamp = some dl.info := by simpa using hi
      exact this
    modified := by
      intro x hx
      rw [mem_sortStr, List.mem_append]
      exact Or.inl hx
    names := by
      intro x hx
      rw [mem_sortStr, List.mem_append] at hx
      rcases hx with hx | hx
      · obtain ⟨g, f, st, hm, hf, _⟩ := (mem_layerModified_iff d ln l0 x).1 hx
        have hon : x ∈ AL.keys dl.glifs := by rw [← glifNames_eq hdl]; exact mem_glifNames_of_glifOf hf
        refine ⟨(hkeys x).2 (Or.inl (hw.loaded x g hm)), hon, Or.inl ?_⟩
        show (AL.get? l0.glyphs x).isSome = true
        rw [AL.get?_of_mem_nodup hw.nodupGlyphs hm]
        rfl
      · refine ⟨(hkeys x).2 (Or.inr hx), hA x hx, Or.inr ?_⟩
        unfold AL.contains
        rw [hsched]
        simp [hx] }

theorem good_after_test {d : Disk} {ln : String} {dl : DLayer} {l0 : MLayer} (hdl : AL.get? d.layers ln = some dl)
    (hw : LayerWF l0) (hk : ∀ gn, gn ∈ l0.keys → gn ∈ AL.keys dl.glifs)
    (hempty : (layerRep d ln l0 dl).isEmpty = true) : Good d ln dl (layerAfterTest d ln l0) := by
  have hr := ready_after_test hdl hw hk
  unfold layerRep LayerRep.isEmpty at hempty
  simp only [Bool.and_eq_true, Bool.not_eq_true', decide_eq_false_iff_not, List.isEmpty_iff] at hempty
  obtain ⟨⟨⟨hi, hm⟩, ha⟩, _⟩ := hempty
  rw [hm, ha] at hr
  have hinfo : l0.infoStamp = some dl.info := by
    cases hd : decide (l0.infoStamp ≠ some dl.info) with
    | false => simpa using hd
    | true => simp at hd; exact absurd hd (by simpa using hi)
  exact good_after_reload hdl hr (layerAfterTest d ln l0).glyphs hw.nodupGlyphs (by intro x; simp [sortStr])
    (layerAfterTest d ln l0).info (layerAfterTest d ln l0).infoStamp hinfo


/-! ### the reloads of top-level objects, images and data after a test -/

/-- the state before `reloadLayers`: top-level objects, images and data reloaded -/
structure PreLayers (s : State) (d' : Disk) (t : State) : Prop where
  disk : t.disk = d'
  reader : t.reader = d'
  layers : t.font.layers = s.font.layers.map (layerAfterTest' { s with disk := d' })
  order : t.font.order = s.font.order
  default : t.font.default = s.font.default
  history : t.font.history = s.font.history
  parts : ∀ p mp, getPart t p = some mp → partChanged d' p mp.stamp = false
  images : fsTest d'.images t.font.images = {}
  data : fsTest d'.data t.font.data = {}

theorem fs_names_ok {files : List (String × File)} {fs : FileSet} (x : String)
    (hx : x ∈ sortStr ((fsTest files fs).modified ++ (fsTest files fs).added)) : AL.contains files x = true := by
  rw [mem_sortStr, List.mem_append] at hx
  rcases hx with hx | hx
  · obtain ⟨e, f, b, _, hf, _⟩ := (mem_fsModified_iff files fs x).1 hx
    simp [AL.contains, hf]
  · exact (AL_mem_keys_iff_contains _ _).1 ((mem_fsAdded_iff files fs x).1 hx).1

theorem fs_deleted_nil {files files' : List (String × File)} {fs : FileSet} (h : FSSynced files fs)
    (hk : ∀ n, n ∈ AL.keys files → n ∈ AL.keys files') : (fsTest files' fs).deleted = [] := by
  apply List.eq_nil_iff_forall_not_mem.2
  intro n hn
  obtain ⟨e, hm, hc, hon⟩ := (mem_fsDeleted_iff files' fs n).1 hn
  have := (h.onDisk n e hm).1 hon
  have := hk n ((AL_mem_keys_iff_contains _ _).2 this)
  rw [AL_mem_keys_iff_contains, hc] at this
  cases this

theorem reload_phase_abc {s : State} (h : Synced s) (d' : Disk) (hk : Keeps s.disk d') :
    let s2 : State := (test { s with disk := d' }).1
    let r := report { s with disk := d' }
    ∃ tB t, seqE (reloadFile true) ([Part.groups, .kerning, .info, .features, .lib].foldl (reloadPartIf r) s2)
              (sortStr (r.images.modified ++ r.images.added)) = (tB, none) ∧
      seqE (reloadFile false) tB (sortStr (r.data.modified ++ r.data.added)) = (t, none) ∧
      PreLayers s d' t ∧ t.zip = s.zip ∧ t.lastReport = some r ∧ t.emptyGlyph = s.emptyGlyph := by
  intro s2 r
  have hflag : ∀ p, partFlag r p = match getPart s2 p with
      | some mp => partChanged s2.disk p mp.stamp
      | none => false := fun p => partFlag_report { s with disk := d' } p
  obtain ⟨P', eA, qA⟩ := reloadParts_spec r s2 hflag
  rw [eA]
  generalize htA : ({ s2 with font := { s2.font with parts := P' } } : State) = tA
  have vA : view tA = tA.disk := by
    rw [← htA]; unfold view; split <;> rfl
  have dA : tA.disk = d' := by rw [← htA]; rfl
  have iA : getFS tA true = s.font.images := by rw [← htA]; rfl
  obtain ⟨fsI, eB, nB, gB, sB⟩ := seqE_reloadFile true (sortStr (r.images.modified ++ r.images.added)) tA vA
    (by intro n hn; rw [dA]; exact fs_names_ok n hn) (by rw [iA]; exact h.images.nodupEntries)
    (by rw [iA]; exact h.images.nodupSched)
  generalize htB : setFS tA true fsI = tB at eB
  have dB : tB.disk = d' := by rw [← htB, disk_setFS]; exact dA
  have vB : view tB = tB.disk := by rw [dB, ← htB, view_setFS, vA, dA]
  have iB : getFS tB false = s.font.data := by rw [← htB, ← htA]; rfl
  obtain ⟨fsD, eC, nC, gC, sC⟩ := seqE_reloadFile false (sortStr (r.data.modified ++ r.data.added)) tB vB
    (by intro n hn; rw [dB]; exact fs_names_ok n hn) (by rw [iB]; exact h.data.nodupEntries)
    (by rw [iB]; exact h.data.nodupSched)
  refine ⟨tB, setFS tB false fsD, eB, eC, ?_, ?_, ?_, ?_⟩
  · exact {
      disk := by rw [disk_setFS]; exact dB
      reader := by rw [← htB, ← htA]; rfl
      layers := by rw [← htB, ← htA]; rfl
      order := by rw [← htB, ← htA]; rfl
      default := by rw [← htB, ← htA]; rfl
      history := by rw [← htB, ← htA]; rfl
      parts := by
        intro p mp hg
        have : getPart (setFS tB false fsD) p = AL.get? P' p := by rw [← htB, ← htA]; rfl
        rw [this] at hg
        exact qA p mp hg
      images := by
        have : (setFS tB false fsD).font.images = fsI := by rw [← htB]; rfl
        rw [this]
        refine fsTest_after_reload (fs := s.font.images) (fun x => by rw [mem_sortStr, List.mem_append])
          (fs_deleted_nil h.images hk.images) nB ?_ ?_ (fun x hx => fs_names_ok x hx)
        · intro x; rw [gB x, iA, dA]; rfl
        · intro x; rw [sB x, iA]; rfl
      data := by
        have : (setFS tB false fsD).font.data = fsD := rfl
        rw [this]
        refine fsTest_after_reload (fs := s.font.data) (fun x => by rw [mem_sortStr, List.mem_append])
          (fs_deleted_nil h.data hk.data) nC ?_ ?_ (fun x hx => fs_names_ok x hx)
        · intro x; rw [gC x, iB, dB]; rfl
        · intro x; rw [sC x, iB]; rfl }
  · rw [← htB, ← htA]; rfl
  · rw [← htB, ← htA]; rfl
  · rw [← htB, ← htA]; rfl


/-! ### `reloadLayers` after a test -/

theorem length_eq_of_nodup_mem_iff (l1 l2 : List String) (h1 : l1.Nodup) (h2 : l2.Nodup)
    (h : ∀ x, x ∈ l1 ↔ x ∈ l2) : l1.length = l2.length := by
  induction l1 generalizing l2 with
  | nil =>
    cases l2 with
    | nil => rfl
    | cons b r => exact absurd ((h b).2 (by simp)) (by simp)
  | cons a r ih =>
    rw [List.nodup_cons] at h1
    have ha : a ∈ l2 := (h a).1 (by simp)
    have := ih (l2.erase a) h1.2 (h2.erase a) (by
      intro x
      rw [h2.mem_erase_iff]
      constructor
      · intro hx
        exact ⟨fun e => h1.1 (e ▸ hx), (h x).1 (by simp [hx])⟩
      · rintro ⟨hne, hx⟩
        have := (h x).2 hx
        simp only [List.mem_cons] at this
        rcases this with e | e
        · exact absurd e hne
        · exact e)
    rw [List.length_cons, this, List.length_erase_of_mem ha]
    have : 0 < l2.length := List.length_pos_of_mem ha
    omega

theorem layerEntry_key {s : State} {n ln : String} {lr : LayerRep} (h : layerEntry s n = some (ln, lr)) : n = ln := by
  unfold layerEntry at h
  split at h
  · simp only at h
    split at h
    · cases h
    · injection h with h; injection h with h1 _
  · cases h

theorem good_openLayer {d : Disk} {ln : String} {dl : DLayer} (hdl : AL.get? d.layers ln = some dl) :
    Good d ln dl (openLayer ln dl) where
  quiet := {
    info := rfl
    modified := by simp [layerModified, openLayer]
    added := by
      unfold layerAdded
      rw [List.filter_eq_nil_iff]
      intro gn hgn
      rw [glifNames_eq hdl] at hgn
      simp [isAddedGlyph, openLayer, hgn]
    deleted := by
      unfold layerDeleted
      rw [List.filter_eq_nil_iff]
      intro gn hgn
      rw [glifNames_eq hdl]
      have : gn ∈ AL.keys dl.glifs := hgn
      simp [this] }
  wf := {
    loaded := by intro gn g hm; simp [openLayer] at hm
    nodupGlyphs := by simp [openLayer, AL.keys]
    disjoint := by intro gn _; rfl
    nodupSched := by simp [openLayer, AL.keys] }
  gs := rfl

theorem map_fst_filterMap_sublist {α β : Type} (L : List String) (F : String → Option α) (G : String → α → β) :
    ((L.filterMap fun ln => (F ln).map fun v => (ln, G ln v)).map (·.1)).Sublist L := by
  induction L with
  | nil => simp
  | cons a r ih =>
    simp only [List.filterMap_cons]
    cases F a with
    | none => exact List.Sublist.cons _ ih
    | some v => simp only [Option.map_some, List.map_cons]; exact List.Sublist.cons_cons _ ih

/-- what `reloadLayers` leaves: the layer set of the UFO, every layer quiet and bound -/
structure LayersDone (d' : Disk) (t s3 : State) : Prop where
  disk : s3.disk = d'
  reader : s3.reader = d'
  zip : s3.zip = t.zip
  parts : s3.font.parts = t.font.parts
  images : s3.font.images = t.font.images
  data : s3.font.data = t.font.data
  order : s3.font.order = layerNames d'
  default : s3.font.default = d'.default
  layers : ∀ ln, ln ∈ layerNames d' →
    ∃ l dl, AL.get? s3.font.layers ln = some l ∧ AL.get? d'.layers ln = some dl ∧ Good d' ln dl l
  only : ∀ ln, AL.contains s3.font.layers ln = true → ln ∈ layerNames d'
  history : ∀ a, a ∈ s3.font.history → TameAction s3.font.default a

theorem reload_layers_phase {s t : State} {d' : Disk} (h : Synced s) (ht : Tidy s) (hd : DiskOk d')
    (hn : (layerNames d').Nodup) (hdef : ∃ dn, d'.default = some dn ∧ dn ∈ layerNames d') (hk : Keeps s.disk d')
    (hp : PreLayers s d' t) (hz : t.zip = true → t.reader = t.disk) :
    ∃ s3, reloadLayers t (report { s with disk := d' }).order (report { s with disk := d' }).defaultLayer
        (((sortStr (report { s with disk := d' }).added).map fun ln => (ln, false, ([] : List String))) ++
          ((sortStr (AL.keys (report { s with disk := d' }).modified)).filterMap fun ln =>
            (AL.get? (report { s with disk := d' }).modified ln).map fun lr =>
              (ln, lr.info, sortStr (lr.modified ++ lr.added)))) = (s3, none) ∧
      LayersDone d' t s3 := by
  generalize hs1 : ({ s with disk := d' } : State) = s1
  have s1d : s1.disk = d' := by rw [← hs1]
  have s1f : s1.font = s.font := by rw [← hs1]
  have hv : view t = t.disk := by
    unfold view
    by_cases hzz : t.zip = true
    · simp [hzz, hz hzz]
    · simp [hzz]
  -- the layers the font holds
  have layer0 : ∀ ln, ln ∈ s.font.order → ∃ l0 dl, AL.get? s.font.layers ln = some l0 ∧ AL.get? d'.layers ln = some dl ∧
      LayerWF l0 ∧ (∀ gn, gn ∈ l0.keys → gn ∈ AL.keys dl.glifs) ∧
      AL.get? t.font.layers ln = some (layerAfterTest d' ln l0) := by
    intro ln hln
    obtain ⟨l0, dl0, g1, g2, g3⟩ := h.layers ln hln
    have hin : ln ∈ layerNames d' := hk.layers ln (by rw [← h.order]; exact hln)
    obtain ⟨dl, hdl⟩ := AL_get?_some_of_contains ((AL_mem_keys_iff_contains _ _).1 hin)
    refine ⟨l0, dl, g1, hdl, g3.wf (ht.schedNodup ln l0 g1), ?_, ?_⟩
    · intro gn hgn
      rw [← glifNames_eq hdl]
      apply hk.glifs
      rw [mem_glifNames s.disk ln gn dl0 g2]
      exact (g3.names gn).2 (Or.inl hgn)
    · rw [hp.layers, get?_afterTest_layers, g1]
      have : AL.contains d'.layers ln = true ∧ ln ∈ s.font.order := ⟨by simp [AL.contains, hdl], hln⟩
      simp [this]
  have noDel : ∀ n, Action.delete n ∉ s.font.history := by
    intro n hm
    exact ht.history _ hm
  -- the report
  have rAdded : ∀ x, x ∈ (report s1).added ↔ x ∈ layerNames d' ∧ x ∉ s.font.order := by
    intro x
    show x ∈ layersAdded s1 ↔ _
    rw [mem_layersAdded_iff s1 x, s1d, s1f]
    constructor
    · rintro ⟨a, b, _⟩; exact ⟨a, b⟩
    · rintro ⟨a, b⟩; exact ⟨a, b, noDel x⟩
  have rOrder : (report s1).order = decide (layerNames d' ≠ s.font.order) := by
    show decide (layerNames s1.disk ≠ s1.font.order) = _
    rw [s1d, s1f]
  have rDefault : (report s1).defaultLayer = decide (s.font.default ≠ d'.default) := by
    show decide (s1.font.default ≠ s1.disk.default) = _
    rw [s1d, s1f]
  have rMod : (report s1).modified = s.font.order.filterMap (layerEntry s1) := by
    show s1.font.order.filterMap (layerEntry s1) = _
    rw [s1f]
  have entryOf : ∀ ln lr, AL.get? (report s1).modified ln = some lr → ln ∈ s.font.order ∧ layerEntry s1 ln = some (ln, lr) := by
    intro ln lr hg
    have hm := AL.mem_of_get? hg
    rw [rMod, List.mem_filterMap] at hm
    obtain ⟨n, hn', he⟩ := hm
    have := layerEntry_key he
    subst this
    exact ⟨hn', he⟩
  have entryRep : ∀ ln lr, layerEntry s1 ln = some (ln, lr) → ∀ l0 dl, AL.get? s.font.layers ln = some l0 →
      AL.get? d'.layers ln = some dl → lr = layerRep d' ln l0 dl := by
    intro ln lr he l0 dl g1 g2
    unfold layerEntry at he
    rw [s1d, s1f, g1, g2] at he
    simp only at he
    split at he
    · cases he
    · injection he with he; injection he with _ he; exact he.symm
  have entryNone : ∀ ln, ln ∈ s.font.order → ln ∉ AL.keys (report s1).modified → ∀ l0 dl,
      AL.get? s.font.layers ln = some l0 → AL.get? d'.layers ln = some dl → (layerRep d' ln l0 dl).isEmpty = true := by
    intro ln hln hnk l0 dl g1 g2
    cases hemp : (layerRep d' ln l0 dl).isEmpty with
    | true => rfl
    | false =>
      exfalso
      apply hnk
      have he : layerEntry s1 ln = some (ln, layerRep d' ln l0 dl) := by
        unfold layerEntry
        rw [s1d, s1f, g1, g2]
        simp [hemp]
      have : (ln, layerRep d' ln l0 dl) ∈ (report s1).modified := by
        rw [rMod]; exact List.mem_filterMap.2 ⟨ln, hln, he⟩
      exact List.mem_map.2 ⟨_, this, rfl⟩
  -- the two lists of entries
  generalize hA : sortStr (report s1).added = A
  generalize hes : ((sortStr (AL.keys (report s1).modified)).filterMap fun ln =>
      (AL.get? (report s1).modified ln).map fun lr => (ln, lr.info, sortStr (lr.modified ++ lr.added))) = es
  have memA : ∀ x, x ∈ A ↔ x ∈ layerNames d' ∧ x ∉ s.font.order := by
    intro x; rw [← hA, mem_sortStr]; exact rAdded x
  have ndA : A.Nodup := by rw [← hA]; exact nodup_sortStr _
  have ndes : (es.map (·.1)).Nodup := by
    rw [← hes]
    exact (map_fst_filterMap_sublist _ _ _).nodup (nodup_sortStr _)
  have memes : ∀ e, e ∈ es → ∃ lr, AL.get? (report s1).modified e.1 = some lr ∧
      e = (e.1, lr.info, sortStr (lr.modified ++ lr.added)) := by
    intro e he
    rw [← hes, List.mem_filterMap] at he
    obtain ⟨ln, _, hq⟩ := he
    cases hg : AL.get? (report s1).modified ln with
    | none => simp [hg] at hq
    | some lr =>
      simp [hg] at hq
      subst hq
      exact ⟨lr, hg, rfl⟩
  have esNames : ∀ ln, ln ∈ AL.keys (report s1).modified → ln ∈ es.map (·.1) := by
    intro ln hln
    obtain ⟨lr, hg⟩ := AL_get?_some_of_contains ((AL_mem_keys_iff_contains _ _).1 hln)
    rw [← hes]
    refine List.mem_map.2 ⟨(ln, lr.info, sortStr (lr.modified ++ lr.added)), ?_, rfl⟩
    rw [List.mem_filterMap]
    exact ⟨ln, (mem_sortStr _ _).2 hln, by simp [hg]⟩
  -- added layers
  obtain ⟨FL1, e1, k1⟩ := seqE_added t.font.order d' A t hp.disk hv ndA
    (by intro a ha; rw [hp.order]; exact ((memA a).1 ha).2)
    (by intro a ha; exact (AL_mem_keys_iff_contains _ _).1 ((memA a).1 ha).1)
    (by
      intro a ha
      cases hc : AL.contains t.font.layers a with
      | false => rfl
      | true =>
        exfalso
        apply ((memA a).1 ha).2
        apply ht.layersInOrder
        rw [hp.layers] at hc
        unfold AL.contains at hc ⊢
        rw [get?_afterTest_layers] at hc
        cases hg : AL.get? s.font.layers a with
        | none => simp [hg] at hc
        | some l => rfl)
  generalize ht1 : addLayers t FL1 A = t1 at e1
  have t1d : t1.disk = d' := by rw [← ht1]; exact hp.disk
  have t1v : view t1 = t1.disk := by rw [← ht1]; exact hv
  have t1l : t1.font.layers = FL1 := by rw [← ht1]; rfl
  -- modified layers
  obtain ⟨FL2, e2, k2, k3⟩ := seqE_modified t.font.order d' es t1 t1d t1v ndes (by
    intro e he
    obtain ⟨lr, hg, heq⟩ := memes e he
    obtain ⟨hord, hent⟩ := entryOf e.1 lr hg
    obtain ⟨l0, dl, g1, g2, g3, g4, g5⟩ := layer0 e.1 hord
    have hlr := entryRep e.1 lr hent l0 dl g1 g2
    refine ⟨by rw [hp.order]; exact hord, layerAfterTest d' e.1 l0, dl, ?_, g2, ?_⟩
    · unfold getLayer
      rw [t1l, k1 e.1]
      have : e.1 ∉ A := fun ha => ((memA e.1).1 ha).2 hord
      simp only [this, if_false]
      exact g5
    · have key := ready_after_test g2 g3 g4
      rw [heq]
      simp only
      rw [hlr]
      exact key)
  have esOrder : ∀ ln, ln ∈ es.map (·.1) → ln ∈ s.font.order := by
    intro ln hln
    obtain ⟨e, he, rfl⟩ := List.mem_map.1 hln
    obtain ⟨lr, hg, _⟩ := memes e he
    exact (entryOf e.1 lr hg).1
  have allNames : ∀ x, x ∈ layerNames d' ↔ x ∈ s.font.order ∨ x ∈ A := by
    intro x
    constructor
    · intro hx
      by_cases ho : x ∈ s.font.order
      · exact Or.inl ho
      · exact Or.inr ((memA x).2 ⟨hx, ho⟩)
    · rintro (hx | hx)
      · exact hk.layers x (by rw [← h.order]; exact hx)
      · exact ((memA x).1 hx).1
  have layersGood : ∀ ln, ln ∈ layerNames d' →
      ∃ l dl, AL.get? FL2 ln = some l ∧ AL.get? d'.layers ln = some dl ∧ Good d' ln dl l := by
    intro ln hln
    rcases (allNames ln).1 hln with ho | ha
    · by_cases hm : ln ∈ es.map (·.1)
      · obtain ⟨e, he, rfl⟩ := List.mem_map.1 hm
        exact k3 e he
      · obtain ⟨l0, dl, g1, g2, g3, g4, g5⟩ := layer0 ln ho
        refine ⟨layerAfterTest d' ln l0, dl, ?_, g2, ?_⟩
        · rw [k2 ln hm, t1l, k1 ln]
          have : ln ∉ A := fun ha => ((memA ln).1 ha).2 ho
          simp only [this, if_false]
          exact g5
        · exact good_after_test g2 g3 g4 (entryNone ln ho (fun hk' => hm (esNames ln hk')) l0 dl g1 g2)
    · have hno : ln ∉ s.font.order := ((memA ln).1 ha).2
      have hm : ln ∉ es.map (·.1) := fun hm => hno (esOrder ln hm)
      obtain ⟨dl, hdl⟩ := AL_get?_some_of_contains ((AL_mem_keys_iff_contains _ _).1 hln)
      refine ⟨openLayer ln dl, dl, ?_, hdl, good_openLayer hdl⟩
      rw [k2 ln hm, t1l, k1 ln]
      simp [ha, hdl]
  have onlyNames : ∀ ln, AL.contains FL2 ln = true → ln ∈ layerNames d' := by
    intro ln hc
    by_cases hm : ln ∈ es.map (·.1)
    · exact (allNames ln).2 (Or.inl (esOrder ln hm))
    · unfold AL.contains at hc
      rw [k2 ln hm, t1l, k1 ln] at hc
      by_cases ha : ln ∈ A
      · exact (allNames ln).2 (Or.inr ha)
      · simp only [ha, if_false] at hc
        apply (allNames ln).2
        left
        apply ht.layersInOrder
        rw [hp.layers, get?_afterTest_layers] at hc
        unfold AL.contains
        cases hg : AL.get? s.font.layers ln with
        | none => simp [hg] at hc
        | some l => rfl
  generalize ht2 : ({ t1 with font := { t1.font with layers := FL2 } } : State) = t2 at e2
  have t2d : t2.disk = d' := by rw [← ht2]; exact t1d
  have t2l : t2.font.layers = FL2 := by rw [← ht2]
  have t2o : t2.font.order = s.font.order ++ A := by rw [← ht2, ← ht1]; show t.font.order ++ A = _; rw [hp.order]
  have t2df : t2.font.default = s.font.default := by rw [← ht2, ← ht1]; exact hp.default
  have t2h : t2.font.history = s.font.history ++ A.map Action.new := by
    rw [← ht2, ← ht1]; show t.font.history ++ _ = _; rw [hp.history]
  have t2r : t2.reader = d' := by rw [← ht2, ← ht1]; exact hp.reader
  have t2z : t2.zip = t.zip := by rw [← ht2, ← ht1]; rfl
  have t2p : t2.font.parts = t.font.parts := by rw [← ht2, ← ht1]; rfl
  have t2i : t2.font.images = t.font.images := by rw [← ht2, ← ht1]; rfl
  have t2da : t2.font.data = t.font.data := by rw [← ht2, ← ht1]; rfl
  -- the order
  have onDisk : (layerNames t2.disk).filter (fun n => AL.contains t2.font.layers n) = layerNames d' := by
    rw [t2d, t2l, List.filter_eq_self]
    intro a ha
    obtain ⟨l, _, hg, _⟩ := layersGood a ha
    simp [AL.contains, hg]
  have rest : t2.font.order.filter (fun n => decide (n ∉ layerNames d')) = [] := by
    rw [List.filter_eq_nil_iff]
    intro a ha
    rw [t2o, List.mem_append] at ha
    have := (allNames a).2 ha
    simp [this]
  have orderStep : ∃ t3, (if (report s1).order = true then
        exceptToPair t2 (setOrder t2 ((layerNames t2.disk).filter (fun n => AL.contains t2.font.layers n) ++
          t2.font.order.filter fun n => decide (n ∉ (layerNames t2.disk).filter (fun n => AL.contains t2.font.layers n))))
      else (t2, none)) = (t3, none) ∧ t3.font.order = layerNames d' ∧ t3.disk = t2.disk ∧ t3.reader = t2.reader ∧
        t3.zip = t2.zip ∧ t3.font.parts = t2.font.parts ∧ t3.font.layers = t2.font.layers ∧
        t3.font.default = t2.font.default ∧ t3.font.history = t2.font.history ∧ t3.font.images = t2.font.images ∧
        t3.font.data = t2.font.data := by
    rw [onDisk, rest, List.append_nil]
    by_cases ho : (report s1).order = true
    · simp only [ho, if_true]
      unfold setOrder
      by_cases heq : t2.font.order = layerNames d'
      · simp only [heq, if_true, exceptToPair]
        exact ⟨t2, rfl, heq, rfl, rfl, rfl, rfl, rfl, rfl, rfl, rfl, rfl⟩
      · simp only [heq, if_false]
        have hnd2 : t2.font.order.Nodup := by
          rw [t2o, List.nodup_append]
          refine ⟨h.nodupOrder, ndA, ?_⟩
          intro a ha b hb e
          subst e
          exact ((memA a).1 hb).2 ha
        have hmem : ∀ x, x ∈ layerNames d' ↔ x ∈ t2.font.order := by
          intro x; rw [t2o, List.mem_append]; exact allNames x
        have hlen := length_eq_of_nodup_mem_iff _ _ hn hnd2 hmem
        have hc : (layerNames d').length = t2.font.order.length ∧ (∀ x ∈ layerNames d', x ∈ t2.font.order) ∧
            (∀ x ∈ t2.font.order, x ∈ layerNames d') := ⟨hlen, fun x hx => (hmem x).1 hx, fun x hx => (hmem x).2 hx⟩
        rw [if_pos hc]
        simp only [exceptToPair]
        exact ⟨_, rfl, rfl, rfl, rfl, rfl, rfl, rfl, rfl, rfl, rfl, rfl⟩
    · simp only [ho, Bool.false_eq_true, if_false]
      refine ⟨t2, rfl, ?_, rfl, rfl, rfl, rfl, rfl, rfl, rfl, rfl, rfl⟩
      have hord : layerNames d' = s.font.order := by
        rw [rOrder] at ho
        simpa using ho
      have hAnil : A = [] := by
        apply List.eq_nil_iff_forall_not_mem.2
        intro a ha
        obtain ⟨h1, h2⟩ := (memA a).1 ha
        rw [hord] at h1
        exact h2 h1
      rw [t2o, hAnil, List.append_nil, hord]
  obtain ⟨t3, e3, o3, d3, r3, z3, p3, l3, df3, h3, i3, da3⟩ := orderStep
  have tame2 : ∀ a, a ∈ t2.font.history → TameAction s.font.default a := by
    intro a ha
    rw [t2h, List.mem_append] at ha
    rcases ha with ha | ha
    · exact ht.history a ha
    · exact tame_news _ _ a ha
  unfold reloadLayers
  rw [seqE_append, e1]
  simp only
  rw [e2]
  simp only
  rw [e3]
  simp only
  by_cases hdf : (report s1).defaultLayer = true
  · simp only [hdf, if_true]
    obtain ⟨dn, hdn, hdin⟩ := hdef
    rw [d3, t2d, hdn]
    simp only
    have hcon : AL.contains t3.font.layers dn = true := by
      rw [l3, t2l]
      obtain ⟨l, _, hg, _⟩ := layersGood dn hdin
      simp [AL.contains, hg]
    have noDefault : ∀ (H : List Action), (∀ a, a ∈ H → TameAction s.font.default a) →
        ∀ a, a ∈ H.filter (fun a => match a with
          | .default _ _ => false
          | _ => true) → TameAction (some dn) a := by
      intro H hH a ha
      rw [List.mem_filter] at ha
      cases a with
      | new n => trivial
      | delete n => exact absurd (hH _ ha.1) (by simp [TameAction])
      | default n o => simp at ha
    unfold setDefault
    simp only [hcon, Bool.true_eq_false, if_false]
    by_cases hsame : t3.font.default = some dn
    · simp only [hsame, if_true]
      refine ⟨_, rfl, ?_⟩
      exact {
        disk := by show t3.disk = d'; rw [d3, t2d]
        reader := by show t3.reader = d'; rw [r3, t2r]
        zip := by show t3.zip = t.zip; rw [z3, t2z]
        parts := by show t3.font.parts = _; rw [p3, t2p]
        images := by show t3.font.images = _; rw [i3, t2i]
        data := by show t3.font.data = _; rw [da3, t2da]
        order := o3
        default := by show some dn = _; rw [hdn]
        layers := by
          intro ln hln
          show ∃ l dl, AL.get? t3.font.layers ln = some l ∧ _
          rw [l3, t2l]; exact layersGood ln hln
        only := by
          intro ln hc
          have hc' : AL.contains t3.font.layers ln = true := hc
          rw [l3, t2l] at hc'; exact onlyNames ln hc'
        history := by
          show ∀ a, a ∈ t3.font.history.filter _ → TameAction (some dn) a
          rw [h3]
          exact noDefault _ tame2 }
    · simp only [hsame, if_false]
      refine ⟨_, rfl, ?_⟩
      exact {
        disk := by show t3.disk = d'; rw [d3, t2d]
        reader := by show t3.reader = d'; rw [r3, t2r]
        zip := by show t3.zip = t.zip; rw [z3, t2z]
        parts := by show t3.font.parts = _; rw [p3, t2p]
        images := by show t3.font.images = _; rw [i3, t2i]
        data := by show t3.font.data = _; rw [da3, t2da]
        order := o3
        default := by show some dn = _; rw [hdn]
        layers := by
          intro ln hln
          show ∃ l dl, AL.get? t3.font.layers ln = some l ∧ _
          rw [l3, t2l]; exact layersGood ln hln
        only := by
          intro ln hc
          have hc' : AL.contains t3.font.layers ln = true := hc
          rw [l3, t2l] at hc'; exact onlyNames ln hc'
        history := by
          show ∀ a, a ∈ (t3.font.history ++ [Action.default dn t3.font.default]).filter _ → TameAction (some dn) a
          intro a ha
          rw [List.filter_append, List.mem_append] at ha
          rcases ha with ha | ha
          · rw [h3] at ha; exact noDefault _ tame2 a ha
          · simp at ha }
  · simp only [hdf, Bool.false_eq_true, if_false]
    have hsd : s.font.default = d'.default := by
      rw [rDefault] at hdf
      simpa using hdf
    refine ⟨t3, rfl, ?_⟩
    exact {
      disk := by rw [d3, t2d]
      reader := by rw [r3, t2r]
      zip := by rw [z3, t2z]
      parts := by rw [p3, t2p]
      images := by rw [i3, t2i]
      data := by rw [da3, t2da]
      order := o3
      default := by rw [df3, t2df, hsd]
      layers := by
        intro ln hln
        rw [l3, t2l]; exact layersGood ln hln
      only := by
        intro ln hc
        rw [l3, t2l] at hc; exact onlyNames ln hc
      history := by
        rw [df3, t2df, h3]
        exact tame2 }


/-! ### everything the report lists -/

theorem bound_of_good {s : State} {ln : String} {l : MLayer} {dl : DLayer} (hl : getLayer s ln = some l)
    (hdl : AL.get? s.disk.layers ln = some dl) (hg : Good s.disk ln dl l) (hr : s.reader = s.disk) : Bound s ln := by
  refine ⟨⟨l, hl, ?_⟩, fun _ => hr⟩
  rw [hg.gs, glifNames_eq hdl]

/-- RELOAD, everything.  The font was in step; another program changed the UFO without deleting
anything the font lists; test, then the reload method for every entry of the report: nothing fails,
and the font is in a state for which the test names nothing, with the layer set of the UFO. -/
theorem reload_all {s : State} (h : Synced s) (ht : Tidy s) {d' : Disk} (hd : DiskOk d')
    (hn : (layerNames d').Nodup) (hdef : ∃ dn, d'.default = some dn ∧ dn ∈ layerNames d') (hk : Keeps s.disk d') :
    ∃ s3, reloadAuto (test { s with disk := d' }).1 = (s3, none) ∧ s3.disk = d' ∧ Settled s3 ∧
      (∀ ln, ln ∈ s3.font.order → Bound s3 ln) ∧
      (∀ a, a ∈ s3.font.history → TameAction s3.font.default a) ∧
      (∀ ln, AL.contains s3.font.layers ln = true → ln ∈ s3.font.order) := by
  obtain ⟨tB, t, eB, eC, hp, hz, hlr, _⟩ := reload_phase_abc h d' hk
  have hzr : t.zip = true → t.reader = t.disk := fun _ => by rw [hp.reader, hp.disk]
  obtain ⟨s3, e3, done⟩ := reload_layers_phase h ht hd hn hdef hk hp hzr
  have hsettled : Settled s3 := {
    parts := by
      intro p mp hg
      rw [done.disk]
      apply hp.parts p mp
      unfold getPart at hg ⊢
      rw [← done.parts]; exact hg
    order := by rw [done.order, done.disk]
    default := by rw [done.default, done.disk]
    layers := by
      intro ln hln
      rw [done.order] at hln
      obtain ⟨l, dl, g1, g2, g3⟩ := done.layers ln hln
      rw [done.disk]
      exact ⟨l, dl, g1, g2, g3.quiet⟩
    images := by rw [done.disk, done.images]; exact hp.images
    data := by rw [done.disk, done.data]; exact hp.data }
  refine ⟨s3, ?_, done.disk, hsettled, ?_, done.history, ?_⟩
  · unfold reloadAuto
    have : (test { s with disk := d' }).1.lastReport = some (report { s with disk := d' }) := rfl
    rw [this]
    simp only
    rw [eB]
    simp only
    rw [eC]
    simp only
    split
    · rename_i hquiet
      obtain ⟨h1, h2, h3, h4⟩ := hquiet
      rw [h3, h4, List.isEmpty_iff.1 h1, List.isEmpty_iff.1 h2] at e3
      simp only [List.append_nil, reloadLayers, seqE, Bool.false_eq_true, if_false] at e3
      exact e3
    · exact e3
  · intro ln hln
    rw [done.order] at hln
    obtain ⟨l, dl, g1, g2, g3⟩ := done.layers ln hln
    exact bound_of_good g1 (by rw [done.disk]; exact g2) (by rw [done.disk]; exact g3) (by rw [done.reader, done.disk])
  · intro ln hc
    rw [done.order]
    exact done.only ln hc

end Ext
end DefconModel
