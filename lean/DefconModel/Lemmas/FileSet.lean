/-
Helper lemmas about M-FileSet.
-/
import DefconModel.Spec.FileSet

namespace DefconModel
namespace FileSet

theorem get?_foldW (w : String → Entry → Option Blob) (es : List (String × Entry)) (d : List (String × Blob))
    (k : String) (hn : (AL.keys es).Nodup) :
    AL.get? (foldW w es d) k =
      match AL.get? es k with
      | some e => (match w k e with
        | some b => some b
        | none => AL.get? d k)
      | none => AL.get? d k := by
  unfold foldW
  induction es generalizing d with
  | nil => rfl
  | cons p rest ih =>
    obtain ⟨k', e⟩ := p
    simp only [AL.keys, List.map_cons, List.nodup_cons] at hn
    simp only [List.foldl_cons]
    rw [ih _ (by simpa [AL.keys] using hn.2)]
    by_cases hk : k' = k
    · subst hk
      have : AL.get? rest k' = none := AL.get?_eq_none_of_not_mem (by simpa [AL.keys] using hn.1)
      simp only [this, AL.get?_cons, if_true]
      cases hw : w k' e with
      | none => rfl
      | some b => simp [applyW]
    · simp only [AL.get?_cons, hk, if_false]
      have hd : AL.get? (applyW d k' (w k' e)) k = AL.get? d k := by
        cases w k' e with
        | none => rfl
        | some b => simp [applyW, AL.get?_set_ne _ _ _ _ hk]
      cases hg : AL.get? rest k with
      | none => simpa using hd
      | some e2 =>
        simp only
        cases w k e2 with
        | none => simpa using hd
        | some b => rfl

theorem nodup_keys_foldW (w : String → Entry → Option Blob) (es : List (String × Entry)) (d : List (String × Blob))
    (h : (AL.keys d).Nodup) : (AL.keys (foldW w es d)).Nodup := by
  unfold foldW
  induction es generalizing d with
  | nil => exact h
  | cons p rest ih =>
    simp only [List.foldl_cons]
    apply ih
    unfold applyW
    split
    · exact AL.nodup_keys_set _ _ _ h
    · exact h

theorem foldl_erase_pairs (sched : List (String × Entry)) (d : List (String × Blob)) :
    sched.foldl (fun d p => AL.erase d p.1) d = (AL.keys sched).foldl (fun d n => AL.erase d n) d := by
  unfold AL.keys
  rw [List.foldl_map]

theorem mem_keys_iff_contains (l : List (String × Entry)) (k : String) :
    k ∈ AL.keys l ↔ AL.contains l k = true := by
  constructor
  · intro h
    rw [AL.contains_iff_get?]
    cases hg : AL.get? l k with
    | some v => exact ⟨v, rfl⟩
    | none =>
      exfalso
      induction l with
      | nil => simp [AL.keys] at h
      | cons p r ih =>
        obtain ⟨k', v⟩ := p
        by_cases e : k' = k
        · simp [e] at hg
        · simp only [AL.get?_cons, e, if_false] at hg
          simp only [AL.keys, List.map_cons, List.mem_cons] at h
          rcases h with h | h
          · exact e h.symm
          · exact ih (by simpa [AL.keys] using h) hg
  · intro h
    rw [AL.contains_iff_get?] at h
    obtain ⟨v, hv⟩ := h
    exact AL.mem_keys_of_get? hv

theorem contains_of_get?' {l : List (String × Blob)} {k : String} {v : Blob} (h : AL.get? l k = some v) :
    AL.contains l k = true := (AL.contains_iff_get? _ _).mpr ⟨v, h⟩

/-- what one save writes: the abstract content, entry by entry -/
theorem writeOut_get? {s : State} (h : WF s) (saveAs : Bool) (dest : List (String × Blob)) (k : String)
    (hd : (AL.keys dest).Nodup) :
    AL.get? (writeOut saveAs s dest) k =
      match AL.get? s.entries k with
      | some e => (match writeVal saveAs k e with
        | some b => some b
        | none => AL.get? dest k)
      | none => if AL.contains s.sched k then none else AL.get? dest k := by
  unfold writeOut
  rw [get?_foldW _ _ _ _ h.entryKeys, foldl_erase_pairs, AL.get?_foldl_erase _ _ _ hd]
  have hs : (k ∈ AL.keys s.sched) = (AL.contains s.sched k = true) := propext (mem_keys_iff_contains _ _)
  cases hg : AL.get? s.entries k with
  | none => simp only [hs]
  | some e =>
    have : ¬ (AL.contains s.sched k = true) := by
      intro hc; rw [h.disjoint k hc] at hg; simp at hg
    simp only [hs, this]
    cases writeVal saveAs k e <;> simp

theorem abs_of_entry {s : State} {n : String} {e : Entry} (h : AL.get? s.entries n = some e) :
    abs s n = entryVal s.disk n e := by
  unfold abs; simp [h]

theorem abs_of_no_entry {s : State} {n : String} (h : AL.get? s.entries n = none) : abs s n = none := by
  unfold abs; simp [h]

/-- in-place save: afterwards the directory holds exactly the abstract content -/
theorem saveInPlace_disk {s : State} (h : WF s) (k : String) :
    AL.get? (saveInPlace s).disk k = abs s k := by
  show AL.get? (writeOut false s s.disk) k = abs s k
  rw [writeOut_get? h false s.disk k h.diskKeys]
  cases hg : AL.get? s.entries k with
  | none =>
    rw [abs_of_no_entry hg]
    simp only
    by_cases hc : AL.contains s.sched k = true
    · simp [hc]
    · -- a file that is neither an entry nor scheduled does not exist in the bound UFO
      simp only [hc, Bool.false_eq_true, if_false]
      cases hdk : AL.get? s.disk k with
      | none => rfl
      | some b =>
        exfalso
        have := h.covered k ((AL.contains_iff_get? _ _).mpr ⟨b, hdk⟩)
        rcases this with h1 | h1
        · rw [hg] at h1; simp at h1
        · exact hc h1
  | some e =>
    rw [abs_of_entry hg]
    cases hdata : e.data with
    | none => simp [writeVal, entryVal, hdata]
    | some b =>
      by_cases hdirty : e.dirty = true
      · simp [writeVal, entryVal, hdata, hdirty]
      · have : e.dirty = false := by simpa using hdirty
        simp [writeVal, entryVal, hdata, this, h.clean k e b hg hdata this]

theorem copyUnread_get? {s : State} (h : WF s) (k : String) :
    AL.get? (copyUnread s []) k =
      match AL.get? s.entries k with
      | some e => copyVal s.disk k e
      | none => none := by
  unfold copyUnread
  rw [get?_foldW _ _ _ _ h.entryKeys]
  cases AL.get? s.entries k with
  | none => rfl
  | some e => simp only [AL.get?_nil]; cases copyVal s.disk k e <;> rfl

/-- save-as to a new location: the new directory holds exactly the abstract content -/
theorem saveAs_disk {s : State} (h : WF s) (k : String) :
    AL.get? (saveAs s []).disk k = abs s k := by
  show AL.get? (writeOut true s (copyUnread s [])) k = abs s k
  have hnd : (AL.keys (copyUnread s [])).Nodup := nodup_keys_foldW _ _ _ (by simp [AL.keys])
  rw [writeOut_get? h true _ k hnd, copyUnread_get? h]
  cases hg : AL.get? s.entries k with
  | none => rw [abs_of_no_entry hg]; simp
  | some e =>
    rw [abs_of_entry hg]
    cases hdata : e.data with
    | none => simp [writeVal, copyVal, entryVal, hdata]
    | some b => simp [writeVal, entryVal, hdata]

theorem cleanEntries_get? (sa : Bool) (es : List (String × Entry)) (k : String) :
    AL.get? (cleanEntries sa es) k = (AL.get? es k).map (cleanE sa) :=
  AL.get?_map_val (cleanE sa) es k

theorem cleanE_data (sa : Bool) (e : Entry) : (cleanE sa e).data = e.data := by
  unfold cleanE
  cases hd : e.data with
  | none => simp [hd]
  | some b => simp only; split <;> simp [hd]

theorem cleanE_dirty {sa : Bool} {e : Entry} (h : e.data = none → e.dirty = false) : (cleanE sa e).dirty = false := by
  unfold cleanE
  cases hd : e.data with
  | none => simpa using h hd
  | some b =>
    simp only
    split
    · rfl
    · rename_i hn
      simp only [not_or] at hn
      simpa using hn.1

/-- a save does not change the abstract content -/
theorem abs_save {s : State} (h : WF s) (sa : Bool) (d : List (String × Blob))
    (hd : ∀ k, AL.get? d k = abs s k) (k : String) :
    abs { s with disk := d, entries := cleanEntries sa s.entries, sched := [], dirty := false } k = abs s k := by
  unfold abs
  simp only [cleanEntries_get?]
  cases hg : AL.get? s.entries k with
  | none => rfl
  | some e =>
    simp only [Option.map_some, entryVal, cleanE_data]
    cases hdata : e.data with
    | some b => rfl
    | none =>
      simp only
      rw [hd k, abs_of_entry hg]
      simp [entryVal, hdata]

theorem wf_save {s : State} (h : WF s) (sa : Bool) (d : List (String × Blob)) (hnd : (AL.keys d).Nodup)
    (hd : ∀ k, AL.get? d k = abs s k) :
    WF { s with disk := d, entries := cleanEntries sa s.entries, sched := [], dirty := false } := by
  constructor
  · show (AL.keys (cleanEntries sa s.entries)).Nodup
    unfold cleanEntries
    rw [AL.keys_map_val]; exact h.entryKeys
  · simp [AL.keys]
  · exact hnd
  · intro n e' hg hdata
    simp only [cleanEntries_get?] at hg
    cases hg0 : AL.get? s.entries n with
    | none => simp [hg0] at hg
    | some e =>
      simp only [hg0, Option.map_some, Option.some.injEq] at hg
      subst hg
      rw [cleanE_data] at hdata
      have hu := h.unread n e hg0 hdata
      refine ⟨cleanE_dirty (fun _ => hu.1), ?_⟩
      rw [AL.contains_iff_get?]
      simp only
      rw [hd n, abs_of_entry hg0]
      simp only [entryVal, hdata]
      exact (AL.contains_iff_get? _ _).mp hu.2
  · intro n e' b hg hdata _
    simp only [cleanEntries_get?] at hg
    cases hg0 : AL.get? s.entries n with
    | none => simp [hg0] at hg
    | some e =>
      simp only [hg0, Option.map_some, Option.some.injEq] at hg
      subst hg
      rw [cleanE_data] at hdata
      simp only
      rw [hd n, abs_of_entry hg0]
      simp [entryVal, hdata]
  · intro n hc; simp [AL.contains] at hc
  · intro n hc
    left
    simp only at hc
    rw [AL.contains_iff_get?] at hc
    obtain ⟨b, hb⟩ := hc
    rw [hd n] at hb
    simp only [cleanEntries_get?]
    cases hg0 : AL.get? s.entries n with
    | none => rw [abs_of_no_entry hg0] at hb; simp at hb
    | some e => simp
  · intro n e b hg; simp at hg
  · intro n e hg; simp at hg

/-- after a save nothing is left to write -/
theorem allClean_save {s : State} (h : WF s) (sa : Bool) (d : List (String × Blob)) :
    AllClean { s with disk := d, entries := cleanEntries sa s.entries, sched := [], dirty := false } := by
  refine ⟨rfl, rfl, ?_⟩
  intro n e' hg
  simp only [cleanEntries_get?] at hg
  cases hg0 : AL.get? s.entries n with
  | none => simp [hg0] at hg
  | some e =>
    simp only [hg0, Option.map_some, Option.some.injEq] at hg
    subst hg
    exact cleanE_dirty (fun hdata => (h.unread n e hg0 hdata).1)

theorem nodup_writeOut (sa : Bool) (s : State) (dest : List (String × Blob)) (h : (AL.keys dest).Nodup) :
    (AL.keys (writeOut sa s dest)).Nodup := by
  unfold writeOut
  apply nodup_keys_foldW
  rw [foldl_erase_pairs]
  exact AL.nodup_keys_foldl_erase _ _ h

/-! ### a second save writes nothing -/

theorem foldW_none (w : String → Entry → Option Blob) (es : List (String × Entry)) (d : List (String × Blob))
    (h : ∀ p ∈ es, w p.1 p.2 = none) : foldW w es d = d := by
  unfold foldW
  induction es generalizing d with
  | nil => rfl
  | cons p rest ih =>
    simp only [List.foldl_cons]
    rw [h p (by simp)]
    exact ih d (fun q hq => h q (by simp [hq]))

theorem cleanEntries_id (es : List (String × Entry)) (h : ∀ p ∈ es, p.2.dirty = false) :
    cleanEntries false es = es := by
  unfold cleanEntries
  induction es with
  | nil => rfl
  | cons p rest ih =>
    simp only [List.map_cons]
    rw [ih (fun q hq => h q (by simp [hq]))]
    have : cleanE false p.2 = p.2 := by
      unfold cleanE
      cases hd : p.2.data with
      | none => rfl
      | some b => simp [h p (by simp)]
    rw [this]

theorem saveInPlace_of_allClean {s : State} (hc : AllClean s) (hk : (AL.keys s.entries).Nodup) : saveInPlace s = s := by
  obtain ⟨h1, h2, h3⟩ := hc
  have hall : ∀ p ∈ s.entries, p.2.dirty = false := by
    intro p hp
    exact h3 p.1 p.2 (AL.get?_of_mem_nodup hk hp)
  unfold saveInPlace writeOut
  rw [h2]
  simp only [List.foldl_nil]
  rw [foldW_none _ _ _ (by
    intro p hp
    unfold writeVal
    cases p.2.data with
    | none => rfl
    | some b => simp [hall p hp]), cleanEntries_id _ hall]
  cases s
  simp_all

/-! ### operations -/

theorem get?_replaceEntry (es : List (String × Entry)) (n k : String) (e : Entry) (h : (AL.keys es).Nodup) :
    AL.get? (replaceEntry es n e) k = if k = n then some e else AL.get? es k := by
  unfold replaceEntry
  have happ : ∀ (l : List (String × Entry)), AL.get? (l ++ [(n, e)]) k =
      match AL.get? l k with
      | some v => some v
      | none => if n = k then some e else none := by
    intro l
    induction l with
    | nil => simp
    | cons p r ih =>
      obtain ⟨k', v⟩ := p
      by_cases hk : k' = k
      · simp [hk]
      · simp only [List.cons_append, AL.get?_cons, hk, if_false]; exact ih
  rw [happ, AL.get?_erase _ _ _ h]
  by_cases hk : k = n
  · subst hk; simp
  · have hk' : ¬ n = k := fun x => hk x.symm
    simp only [hk, hk', if_false]
    cases AL.get? es k <;> rfl

theorem nodup_keys_replaceEntry (es : List (String × Entry)) (n : String) (e : Entry) (h : (AL.keys es).Nodup) :
    (AL.keys (replaceEntry es n e)).Nodup := by
  unfold replaceEntry
  have h1 := AL.nodup_keys_erase es n h
  have hnot : n ∉ AL.keys (AL.erase es n) := by
    intro hm
    rw [mem_keys_iff_contains, AL.contains_iff_get?] at hm
    obtain ⟨v, hv⟩ := hm
    rw [AL.get?_erase_self_of_nodup _ _ h] at hv
    simp at hv
  simp only [AL.keys, List.map_append, List.map_cons, List.map_nil]
  rw [List.nodup_append]
  refine ⟨h1, by simp, ?_⟩
  intro a ha b hb
  simp at hb; subst hb
  intro e; subst e; exact hnot ha

theorem getItem_spec {s s' : State} {n : String} {b : Blob} (h : WF s) (hg : getItem s n = .ok (s', b)) :
    WF s' ∧ (∀ k, abs s' k = abs s k) ∧ abs s n = some b ∧ s'.sched = s.sched ∧ s'.disk = s.disk ∧
    s'.dirty = s.dirty ∧ (∃ e', AL.get? s'.entries n = some e' ∧ e'.data = some b) ∧
    (∀ k, k ≠ n → AL.get? s'.entries k = AL.get? s.entries k) ∧ AL.keys s'.entries = AL.keys s.entries := by
  unfold getItem at hg
  cases he : AL.get? s.entries n with
  | none => simp [he] at hg
  | some e =>
    simp only [he] at hg
    cases hdata : e.data with
    | some b0 =>
      simp only [hdata, Except.ok.injEq, Prod.mk.injEq] at hg
      obtain ⟨rfl, rfl⟩ := hg
      refine ⟨h, fun _ => rfl, ?_, rfl, rfl, rfl, ⟨e, he, hdata⟩, fun _ _ => rfl, rfl⟩
      rw [abs_of_entry he]; simp [entryVal, hdata]
    | none =>
      simp only [hdata] at hg
      cases hd : AL.get? s.disk n with
      | none => simp [hd] at hg
      | some b0 =>
        simp only [hd, Except.ok.injEq, Prod.mk.injEq] at hg
        obtain ⟨rfl, rfl⟩ := hg
        have hu := h.unread n e he hdata
        have hget : ∀ k, AL.get? (AL.set s.entries n { e with data := some b0, onDisk := true }) k =
            if n = k then some { e with data := some b0, onDisk := true } else AL.get? s.entries k :=
          fun k => AL.get?_set _ _ _ _
        have habs : ∀ k, abs { s with entries := AL.set s.entries n { e with data := some b0, onDisk := true } } k = abs s k := by
          intro k
          unfold abs
          simp only [hget]
          by_cases hk : n = k
          · subst hk; simp [he, entryVal, hdata, hd]
          · simp [hk]
        refine ⟨?_, habs, ?_, rfl, rfl, rfl, ⟨{ e with data := some b0, onDisk := true }, by simp [hget], rfl⟩, ?_, ?_⟩
        · constructor
          · exact AL.nodup_keys_set _ _ _ h.entryKeys
          · exact h.schedKeys
          · exact h.diskKeys
          · intro k e' hk hd'
            simp only [hget] at hk
            by_cases hkn : n = k
            · subst hkn; simp at hk; subst hk; simp at hd'
            · simp only [hkn, if_false] at hk; exact h.unread k e' hk hd'
          · intro k e' b' hk hd' hdirty
            simp only [hget] at hk
            by_cases hkn : n = k
            · subst hkn
              simp at hk; subst hk
              simp at hd'
              subst hd'
              exact hd
            · simp only [hkn, if_false] at hk; exact h.clean k e' b' hk hd' hdirty
          · intro k hc
            simp only [hget]
            by_cases hkn : n = k
            · subst hkn; rw [h.disjoint n hc] at he; simp at he
            · simp only [hkn, if_false]; exact h.disjoint k hc
          · intro k hc
            simp only [hget]
            rcases h.covered k hc with h1 | h1
            · left; by_cases hkn : n = k <;> simp [hkn, h1]
            · right; exact h1
          · exact h.schedClean
          · exact h.schedRead
        · rw [abs_of_entry he]; simp [entryVal, hdata, hd]
        · intro k hk
          simp only [hget]
          have : ¬ n = k := fun x => hk x.symm
          simp [this]
        · simp only [AL.keys_set]
          have : n ∈ AL.keys s.entries := AL.mem_keys_of_get? he
          simp [this]

theorem getItem_error_iff {s : State} {n : String} (h : WF s) :
    (∃ e, getItem s n = .error e) ↔ abs s n = none := by
  unfold getItem
  cases he : AL.get? s.entries n with
  | none => simp [abs_of_no_entry he]; exact ⟨.keyError, trivial⟩
  | some e =>
    rw [abs_of_entry he]
    cases hdata : e.data with
    | some b => simp [entryVal, hdata]
    | none =>
      have hu := (h.unread n e he hdata).2
      rw [AL.contains_iff_get?] at hu
      obtain ⟨b, hb⟩ := hu
      simp [entryVal, hdata, hb]

theorem upd_ne {f : String → Option Blob} {n k : String} {v : Option Blob} (h : k ≠ n) : upd f n v k = f k := by
  unfold upd; simp [h]

theorem upd_self {f : String → Option Blob} {n : String} {v : Option Blob} : upd f n v n = v := by
  unfold upd; simp

theorem delItem_spec {s s' : State} {n : String} (h : WF s) (hd : delItem s n = .ok s') :
    WF s' ∧ (∀ k, abs s' k = upd (abs s) n none k) ∧ s'.dirty = true := by
  unfold delItem at hd
  cases hg : getItem s n with
  | error e => simp [hg] at hd
  | ok p =>
    obtain ⟨s1, b⟩ := p
    simp only [hg] at hd
    obtain ⟨h1, hsame, _, hsched, hdisk, _, ⟨e1, he1, hdata1⟩, _, _⟩ := getItem_spec h hg
    simp only [he1, Except.ok.injEq] at hd
    subst hd
    have hget : ∀ k, AL.get? (AL.erase s1.entries n) k = if n = k then none else AL.get? s1.entries k :=
      fun k => AL.get?_erase _ _ _ h1.entryKeys
    have habs : ∀ k, abs { s1 with entries := AL.erase s1.entries n, sched := AL.set s1.sched n e1, dirty := true } k =
        upd (abs s) n none k := by
      intro k
      by_cases hk : k = n
      · subst hk; rw [upd_self]; unfold abs; simp [hget]
      · rw [upd_ne hk, ← hsame]
        unfold abs
        have : ¬ n = k := fun x => hk x.symm
        simp [hget, this]
    refine ⟨?_, habs, rfl⟩
    constructor
    · exact AL.nodup_keys_erase _ _ h1.entryKeys
    · exact AL.nodup_keys_set _ _ _ h1.schedKeys
    · exact h1.diskKeys
    · intro k e' hk hd'
      simp only [hget] at hk
      split at hk
      · simp at hk
      · exact h1.unread k e' hk hd'
    · intro k e' b' hk hd' hdirty
      simp only [hget] at hk
      split at hk
      · simp at hk
      · exact h1.clean k e' b' hk hd' hdirty
    · intro k hc
      simp only [AL.contains_set, Bool.or_eq_true, decide_eq_true_eq] at hc
      simp only [hget]
      rcases hc with hc | hc
      · simp [hc]
      · split
        · rfl
        · exact h1.disjoint k hc
    · intro k hc
      simp only [hget, AL.contains_set, Bool.or_eq_true, decide_eq_true_eq]
      by_cases hkn : n = k
      · right; left; exact hkn
      · rcases h1.covered k hc with h2 | h2
        · left; simp [hkn, h2]
        · right; right; exact h2
    · intro k e' b' hk hd' hdirty
      simp only [AL.get?_set] at hk
      split at hk
      · rename_i hkn
        subst hkn
        simp at hk; subst hk
        exact h1.clean n e1 b' he1 hd' hdirty
      · exact h1.schedClean k e' b' hk hd' hdirty
    · intro k e' hk
      simp only [AL.get?_set] at hk
      split at hk
      · simp at hk; subst hk; rw [hdata1]; simp
      · exact h1.schedRead k e' hk

theorem delItem_error_iff {s : State} {n : String} (h : WF s) :
    (∃ e, delItem s n = .error e) ↔ abs s n = none := by
  rw [← getItem_error_iff h]
  unfold delItem
  cases hg : getItem s n with
  | error e => simp
  | ok p =>
    obtain ⟨s1, b⟩ := p
    obtain ⟨_, _, _, _, _, _, ⟨e1, he1, _⟩, _, _⟩ := getItem_spec h hg
    simp [he1]

theorem wf_restore {s : State} (h : WF s) (n : String) :
    WF (restore s n) ∧ (∀ k, k ≠ n → abs (restore s n) k = abs s k) ∧ AL.get? (restore s n).sched n = none := by
  unfold restore
  cases hs : AL.get? s.sched n with
  | none => exact ⟨h, fun _ _ => rfl, hs⟩
  | some e =>
    simp only
    have hno : AL.get? s.entries n = none := h.disjoint n ((AL.contains_iff_get? _ _).mpr ⟨e, hs⟩)
    have hget : ∀ k, AL.get? (AL.set s.entries n e) k = if n = k then some e else AL.get? s.entries k :=
      fun k => AL.get?_set _ _ _ _
    have hsg : ∀ k, AL.get? (AL.erase s.sched n) k = if n = k then none else AL.get? s.sched k :=
      fun k => AL.get?_erase _ _ _ h.schedKeys
    refine ⟨?_, ?_, by simp [hsg]⟩
    · constructor
      · exact AL.nodup_keys_set _ _ _ h.entryKeys
      · exact AL.nodup_keys_erase _ _ h.schedKeys
      · exact h.diskKeys
      · intro k e' hk hd'
        simp only [hget] at hk
        split at hk
        · simp at hk; subst hk; exact absurd hd' (h.schedRead n e hs)
        · exact h.unread k e' hk hd'
      · intro k e' b' hk hd' hdirty
        simp only [hget] at hk
        split at hk
        · rename_i hkn; subst hkn; simp at hk; subst hk; exact h.schedClean n e b' hs hd' hdirty
        · exact h.clean k e' b' hk hd' hdirty
      · intro k hc
        rw [AL.contains_iff_get?] at hc
        obtain ⟨v, hv⟩ := hc
        simp only [hsg] at hv
        simp only [hget]
        split at hv
        · simp at hv
        · rename_i hkn
          simp only [hkn, if_false]
          exact h.disjoint k ((AL.contains_iff_get? _ _).mpr ⟨v, hv⟩)
      · intro k hc
        simp only [hget]
        by_cases hkn : n = k
        · left; simp [hkn]
        · rcases h.covered k hc with h2 | h2
          · left; simp [hkn, h2]
          · right
            rw [AL.contains_iff_get?] at h2 ⊢
            obtain ⟨v, hv⟩ := h2
            exact ⟨v, by simp [hsg, hkn, hv]⟩
      · intro k e' b' hk hd' hdirty
        simp only [hsg] at hk
        split at hk
        · simp at hk
        · exact h.schedClean k e' b' hk hd' hdirty
      · intro k e' hk
        simp only [hsg] at hk
        split at hk
        · simp at hk
        · exact h.schedRead k e' hk
    · intro k hk
      unfold abs
      have : ¬ n = k := fun x => hk x.symm
      simp [hget, this]

theorem setItem_spec {se : Bool} {s s' : State} {n : String} {b : Blob} (h : WF s)
    (hd : setItem se s n b = .ok s') : WF s' ∧ ∀ k, abs s' k = upd (abs s) n (some b) k := by
  unfold setItem at hd
  obtain ⟨h1, hsame1, hnos1⟩ := wf_restore h n
  generalize restore s n = s1 at hd h1 hsame1 hnos1
  cases he : AL.get? s1.entries n with
  | none =>
    simp only [he, Except.ok.injEq] at hd
    subst hd
    have hget : ∀ k, AL.get? (AL.set s1.entries n ⟨some b, true, false⟩) k =
        if n = k then some ⟨some b, true, false⟩ else AL.get? s1.entries k := fun k => AL.get?_set _ _ _ _
    refine ⟨?_, ?_⟩
    · constructor
      · exact AL.nodup_keys_set _ _ _ h1.entryKeys
      · exact h1.schedKeys
      · exact h1.diskKeys
      · intro k e' hk hd'
        simp only [hget] at hk
        split at hk
        · simp at hk; subst hk; simp at hd'
        · exact h1.unread k e' hk hd'
      · intro k e' b' hk hd' hdirty
        simp only [hget] at hk
        split at hk
        · simp at hk; subst hk; simp at hdirty
        · exact h1.clean k e' b' hk hd' hdirty
      · intro k hc
        simp only [hget]
        split
        · rename_i hkn; subst hkn
          -- n scheduled and absent: restore would have brought it back
          exfalso
          rw [AL.contains_iff_get?] at hc
          obtain ⟨v, hv⟩ := hc
          rw [hnos1] at hv; simp at hv
        · exact h1.disjoint k hc
      · intro k hc
        simp only [hget]
        rcases h1.covered k hc with h2 | h2
        · left; by_cases hkn : n = k <;> simp [hkn, h2]
        · right; exact h2
      · exact h1.schedClean
      · exact h1.schedRead
    · intro k
      by_cases hk : k = n
      · subst hk; rw [upd_self]; unfold abs; simp [hget, entryVal]
      · rw [upd_ne hk, ← hsame1 k hk]
        unfold abs
        have : ¬ n = k := fun x => hk x.symm
        simp [hget, this]
  | some e0 =>
    simp only [he] at hd
    cases hg : getItem s1 n with
    | error e => simp [hg] at hd
    | ok p =>
      obtain ⟨s2, old⟩ := p
      simp only [hg] at hd
      obtain ⟨h2, hsame2, hold, hsched2, hdisk2, _, ⟨e2, he2, hdata2⟩, hother2, hkeys2⟩ := getItem_spec h1 hg
      by_cases hc : se = true ∧ old = b
      · rw [if_pos hc] at hd
        simp only [Except.ok.injEq] at hd
        subst hd
        refine ⟨h2, ?_⟩
        intro k
        by_cases hk : k = n
        · subst hk; rw [upd_self, hsame2, hold, hc.2]
        · rw [upd_ne hk, hsame2, hsame1 k hk]
      · rw [if_neg hc] at hd
        simp only [Except.ok.injEq] at hd
        subst hd
        have hget : ∀ k, AL.get? (replaceEntry s2.entries n ⟨some b, true, onDiskOf s2 n⟩) k =
            if k = n then some ⟨some b, true, onDiskOf s2 n⟩ else AL.get? s2.entries k :=
          fun k => get?_replaceEntry _ _ _ _ h2.entryKeys
        refine ⟨?_, ?_⟩
        · constructor
          · exact nodup_keys_replaceEntry _ _ _ h2.entryKeys
          · exact h2.schedKeys
          · exact h2.diskKeys
          · intro k e' hk hd'
            simp only [hget] at hk
            split at hk
            · simp at hk; subst hk; simp at hd'
            · exact h2.unread k e' hk hd'
          · intro k e' b' hk hd' hdirty
            simp only [hget] at hk
            split at hk
            · simp at hk; subst hk; simp at hdirty
            · exact h2.clean k e' b' hk hd' hdirty
          · intro k hc2
            simp only [hget]
            split
            · rename_i hkn; subst hkn
              rw [h2.disjoint k hc2] at he2; simp at he2
            · exact h2.disjoint k hc2
          · intro k hc2
            simp only [hget]
            rcases h2.covered k hc2 with h3 | h3
            · left; by_cases hkn : k = n <;> simp [hkn, h3]
            · right; exact h3
          · exact h2.schedClean
          · exact h2.schedRead
        · intro k
          by_cases hk : k = n
          · subst hk; rw [upd_self]; unfold abs; simp [hget, entryVal]
          · rw [upd_ne hk, ← hsame1 k hk, ← hsame2 k]
            unfold abs
            simp [hget, hk]

/-! ### every history -/

theorem wf_saveInPlace {s : State} (h : WF s) : WF (saveInPlace s) :=
  wf_save h false _ (nodup_writeOut false s s.disk h.diskKeys) (saveInPlace_disk h)

theorem wf_saveAs {s : State} (h : WF s) : WF (saveAs s []) :=
  wf_save h true _ (nodup_writeOut true s _ (nodup_keys_foldW _ _ _ (by simp [AL.keys]))) (saveAs_disk h)

theorem wf_stepTotal {se : Bool} {s : State} (h : WF s) (op : Op) : WF (stepTotal se s op) := by
  unfold stepTotal
  cases hs : step se s op with
  | error e => exact h
  | ok s' =>
    cases op with
    | get n =>
      simp only [step, Except.map] at hs
      cases hg : getItem s n with
      | error e => simp [hg] at hs
      | ok p => simp [hg] at hs; subst hs; exact (getItem_spec h hg).1
    | set n b => exact (setItem_spec h hs).1
    | del n => exact (delItem_spec h hs).1
    | saveInPlace => simp only [step, Except.ok.injEq] at hs; subst hs; exact wf_saveInPlace h
    | saveAsNew => simp only [step, Except.ok.injEq] at hs; subst hs; exact wf_saveAs h

theorem wf_run {se : Bool} {s : State} (h : WF s) (ops : List Op) : WF (run se s ops) := by
  unfold run
  induction ops generalizing s with
  | nil => exact h
  | cons op rest ih => exact ih (wf_stepTotal h op)

theorem wf_opened (disk : List (String × Blob)) (hk : (AL.keys disk).Nodup) : WF (opened disk) := by
  have hget : ∀ k, AL.get? (opened disk).entries k = (AL.get? disk k).map (fun _ => (⟨none, false, true⟩ : Entry)) :=
    fun k => AL.get?_map_val (fun _ => (⟨none, false, true⟩ : Entry)) disk k
  constructor
  · show (AL.keys (disk.map (fun p => (p.1, (⟨none, false, true⟩ : Entry))))).Nodup
    rw [AL.keys_map_val (fun _ => (⟨none, false, true⟩ : Entry))]; exact hk
  · simp [opened, AL.keys]
  · exact hk
  · intro n e hg _
    rw [hget] at hg
    cases hd : AL.get? disk n with
    | none => simp [hd] at hg
    | some b => simp [hd] at hg; subst hg; exact ⟨rfl, contains_of_get?' hd⟩
  · intro n e b hg hdata _
    rw [hget] at hg
    cases hd : AL.get? disk n with
    | none => simp [hd] at hg
    | some b0 => simp [hd] at hg; subst hg; simp at hdata
  · intro n hc; simp [opened, AL.contains] at hc
  · intro n hc
    left
    rw [AL.contains_iff_get?] at hc
    obtain ⟨b, hb⟩ := hc
    rw [hget]; simp [show AL.get? disk n = some b from hb]
  · intro n e b hg; simp [opened] at hg
  · intro n e hg; simp [opened] at hg

theorem abs_opened (disk : List (String × Blob)) (k : String) : abs (opened disk) k = AL.get? disk k := by
  unfold abs
  have hget : AL.get? (opened disk).entries k = (AL.get? disk k).map (fun _ => (⟨none, false, true⟩ : Entry)) :=
    AL.get?_map_val (fun _ => (⟨none, false, true⟩ : Entry)) disk k
  rw [hget]
  cases hd : AL.get? disk k with
  | none => rfl
  | some b => simp [entryVal, opened, hd]

/-- whenever nothing is dirty, the directory holds the content -/
theorem clean_means_persisted {s : State} (h : WF s) (hc : AllClean s) (k : String) : AL.get? s.disk k = abs s k := by
  obtain ⟨_, hsched, hall⟩ := hc
  cases he : AL.get? s.entries k with
  | none =>
    rw [abs_of_no_entry he]
    cases hd : AL.get? s.disk k with
    | none => rfl
    | some b =>
      exfalso
      rcases h.covered k ((AL.contains_iff_get? _ _).mpr ⟨b, hd⟩) with h1 | h1
      · rw [he] at h1; simp at h1
      · rw [hsched] at h1; simp [AL.contains] at h1
  | some e =>
    rw [abs_of_entry he]
    cases hdata : e.data with
    | none => simp [entryVal, hdata]
    | some b => simp [entryVal, hdata, h.clean k e b he hdata (hall k e he)]

end FileSet
end DefconModel
