/-
Helper lemmas for C05 (M-Ext), round 3: the induction step over all quiet operations, the in-place
save included — `Synced ∧ Tidy` is an invariant.
-/
import DefconModel.Lemmas.ExtTidy

namespace DefconModel
namespace Ext

/-! ### unique names on disk are kept -/

theorem diskOk_touch_glyph {d : Disk} (h : DiskOk d) {ln gn : String} {dl : DLayer} (f : File)
    (hdl : AL.get? d.layers ln = some dl) :
    DiskOk { d with layers := AL.set d.layers ln { dl with glifs := AL.set dl.glifs gn f } } where
  glifs := by
    intro x dl' hg
    simp only at hg
    rw [AL.get?_set] at hg
    by_cases e : ln = x
    · subst e
      simp at hg
      subst hg
      exact AL.nodup_keys_set _ _ _ (h.glifs ln dl hdl)
    · simp [e] at hg
      exact h.glifs x dl' hg
  images := h.images
  data := h.data

theorem diskOk_setDiskFiles {d : Disk} (h : DiskOk d) (img : Bool) (files : List (String × File))
    (hn : (AL.keys files).Nodup) : DiskOk (setDiskFiles d img files) := by
  cases img
  · exact ⟨h.glifs, h.images, hn⟩
  · exact ⟨h.glifs, hn, h.data⟩

theorem DiskOk.files {d : Disk} (h : DiskOk d) (img : Bool) : (AL.keys (fsFiles d img)).Nodup := by
  cases img
  · exact h.data
  · exact h.images

/-! ### save-as -/

theorem tidy_loadGlyphs {ln : String} (names : List String) :
    ∀ {s s1 : State}, Tidy s → loadGlyphs ln s names = .ok s1 → Tidy s1 := by
  induction names with
  | nil =>
    intro s s1 h hr
    simp only [loadGlyphs] at hr
    injection hr with hr
    subst hr
    exact h
  | cons gn rest ih =>
    intro s s1 h hr
    simp only [loadGlyphs] at hr
    cases hg : getGlyph s ln gn with
    | error e => simp [hg] at hr
    | ok r =>
      obtain ⟨s', g⟩ := r
      simp only [hg] at hr
      exact ih (tidy_getGlyph h hg) hr

theorem tidy_loadLayers (names : List String) :
    ∀ {s s2 : State}, Tidy s → loadLayers s names = .ok s2 → Tidy s2 := by
  induction names with
  | nil =>
    intro s s2 h hr
    simp only [loadLayers] at hr
    injection hr with hr
    subst hr
    exact h
  | cons ln rest ih =>
    intro s s2 h hr
    simp only [loadLayers] at hr
    cases hl : getLayer s ln with
    | none => simp [hl] at hr
    | some l =>
      simp only [hl] at hr
      cases hg : loadGlyphs ln s (visibleKeys l) with
      | error e => simp [hg] at hr
      | ok s1 =>
        simp only [hg] at hr
        exact ih (tidy_loadGlyphs _ h hg) hr

theorem nodup_keys_filterMap {α β : Type} (f : String × α → Option (String × β)) (l : List (String × α))
    (hf : ∀ p q, f p = some q → q.1 = p.1) (hn : (AL.keys l).Nodup) : (AL.keys (l.filterMap f)).Nodup := by
  induction l with
  | nil => simp [AL.keys]
  | cons p r ih =>
    simp only [AL.keys, List.map_cons, List.nodup_cons] at hn
    simp only [List.filterMap_cons]
    cases hp : f p with
    | none => exact ih (by simpa [AL.keys] using hn.2)
    | some q =>
      simp only [AL.keys, List.map_cons, List.nodup_cons]
      refine ⟨?_, by simpa [AL.keys] using ih (by simpa [AL.keys] using hn.2)⟩
      intro hq
      rw [List.mem_map] at hq
      obtain ⟨q', hq', e⟩ := hq
      rw [List.mem_filterMap] at hq'
      obtain ⟨p', hp', e'⟩ := hq'
      apply hn.1
      rw [List.mem_map]
      refine ⟨p', hp', ?_⟩
      rw [← hf p' q' e', e, hf p q hp]

theorem saveAsFile_fst {old : List (String × File)} {tD : Time} (p : String × Entry) (q : String × File)
    (h : saveAsFile old tD p = some q) : q.1 = p.1 := by
  unfold saveAsFile at h
  cases hd : p.2.data with
  | some b => simp [hd] at h; rw [← h]
  | none =>
    simp only [hd] at h
    cases ho : AL.get? old p.1 with
    | none => simp [ho] at h
    | some f => simp [ho] at h; rw [← h]

theorem tidy_saveAs {s s' : State} (h : Synced s) (ht : Tidy s) {tD tS : Time} (hr : saveAs s tD tS = .ok s') :
    Tidy s' := by
  unfold saveAs at hr
  simp only at hr
  have h1 := synced_loadAllParts h
  have t1 : Tidy (allParts.foldl loadPart s) := by
    simp only [allParts, List.foldl]
    exact tidy_loadPart (tidy_loadPart (tidy_loadPart (tidy_loadPart (tidy_loadPart ht _) _) _) _) _
  cases hl : loadLayers (allParts.foldl loadPart s) (allParts.foldl loadPart s).font.order with
  | error e => simp [hl] at hr
  | ok s2 =>
    simp only [hl] at hr
    injection hr with hr
    subst hr
    obtain ⟨h2, _, _, _⟩ := loadLayers_spec _ h1 (fun _ hx => hx) hl
    have t2 := tidy_loadLayers _ t1 hl
    exact {
      history := tame_news _ _
      layersInOrder := by
        intro ln hc
        have hc' : AL.contains (s2.font.layers.map fun q => (q.1, saveAsMLayer (if s.zip then tS else tD) q.1 q.2)) ln = true := hc
        rw [contains_map_val (fun k (v : MLayer) => saveAsMLayer (if s.zip then tS else tD) k v)] at hc'
        exact t2.layersInOrder ln hc'
      schedNodup := by
        intro ln l' hg
        have hg' : AL.get? (s2.font.layers.map fun q => (q.1, saveAsMLayer (if s.zip then tS else tD) q.1 q.2)) ln = some l' := hg
        rw [get?_map_key_val (fun k (v : MLayer) => saveAsMLayer (if s.zip then tS else tD) k v)] at hg'
        cases hf : AL.get? s2.font.layers ln with
        | none => simp [hf] at hg'
        | some l0 =>
          simp [hf] at hg'
          subst hg'
          simp [saveAsMLayer, AL.keys]
      imagesDisjoint := by intro n _; rfl
      dataDisjoint := by intro n _; rfl
      disk := {
        glifs := by
          intro ln dl hg
          have hm := AL.mem_of_get? hg
          have hm' : (ln, dl) ∈ s2.font.order.filterMap (saveAsLayerEntry s2 tD) := hm
          rw [List.mem_filterMap] at hm'
          obtain ⟨n, hn, he⟩ := hm'
          unfold saveAsLayerEntry at he
          cases hgl : getLayer s2 n with
          | none => simp [hgl] at he
          | some l =>
            simp [hgl] at he
            obtain ⟨e1, e2⟩ := he
            subst e1
            subst e2
            obtain ⟨dl0, _, hs⟩ := h2.layerOf hn hgl
            show (AL.keys (l.glyphs.map (saveAsGlif tD))).Nodup
            rw [keys_map_saveAsGlif]
            exact hs.nodupGlyphs
        images := nodup_keys_filterMap _ _ saveAsFile_fst h2.images.nodupEntries
        data := nodup_keys_filterMap _ _ saveAsFile_fst h2.data.nodupEntries } }

/-! ### every quiet operation keeps the bookkeeping tidy -/

theorem tidy_step_nosave {s : State} (hs : Synced s) (h : Tidy s) (op : Op) (hq : Quiet op)
    (hns : ∀ a b, op ≠ .save a b) : Tidy (step s op).1 := by
  cases op with
  | touch p => exact tidy_loadPart h p
  | pset p v => exact tidy_psetPart h p v
  | gget ln gn =>
    rw [step_gget]
    cases hr : getGlyph s ln gn with
    | error e => exact h
    | ok r => obtain ⟨s1, g⟩ := r; exact tidy_getGlyph h hr
  | gset ln gn v =>
    show Tidy (ofExcept s (setGlyph s ln gn v)).1
    rw [ofExcept_fst]
    cases hr : setGlyph s ln gn v with
    | error e => exact h
    | ok s1 => exact tidy_setGlyph h hr
  | gdel ln gn =>
    show Tidy (ofPair (delGlyph s ln gn)).1
    rw [ofPair_fst]
    exact tidy_delGlyph h ln gn
  | lset ln v =>
    show Tidy (ofExcept s (setLayerInfo s ln v)).1
    rw [ofExcept_fst]
    cases hr : setLayerInfo s ln v with
    | error e => exact h
    | ok s1 => exact tidy_setLayerInfo h hr
  | fget img n =>
    rw [step_fget]
    cases hr : fsLoad s img n with
    | error e => exact h
    | ok r => obtain ⟨s1, b⟩ := r; exact tidy_fsLoad h hr
  | fset img n b =>
    cases b with
    | some b =>
      show Tidy (ofPair (fsSet s img n b)).1
      rw [ofPair_fst]
      exact tidy_fsSet h hs img n b
    | none =>
      show Tidy (ofPair (fsDel s img n)).1
      rw [ofPair_fst]
      exact tidy_fsDel h hs img n
  | xpart p a t =>
    cases a with
    | write b => exact absurd hq (by simp [Quiet])
    | delete => exact absurd hq (by simp [Quiet])
    | touch =>
      show Tidy (ofDisk s (xPart s.zip s.disk p .touch t)).1
      rw [ofDisk_fst]
      unfold xPart
      simp only
      cases hx : xFile s.zip s.disk.parts p .touch t with
      | none => exact h
      | some ps => exact tidy_disk h _ (diskOk_parts h.disk ps)
  | xglyph ln gn a t =>
    cases a with
    | write b => exact absurd hq (by simp [Quiet])
    | delete => exact absurd hq (by simp [Quiet])
    | touch =>
      show Tidy (ofDisk s (xGlyph s.zip s.disk ln gn .touch t)).1
      rw [ofDisk_fst]
      unfold xGlyph
      cases hdl : AL.get? s.disk.layers ln with
      | none => exact h
      | some dl =>
        simp only
        cases t with
        | none => exact h
        | some k =>
          simp only [xFile]
          cases hf : AL.get? dl.glifs gn with
          | none => exact h
          | some f => exact tidy_disk h _ (diskOk_touch_glyph h.disk _ hdl)
  | xfile img n a t =>
    cases a with
    | write b => exact absurd hq (by simp [Quiet])
    | delete => exact absurd hq (by simp [Quiet])
    | touch =>
      show Tidy (ofDisk s (xSetFile s.zip s.disk img n .touch t)).1
      rw [ofDisk_fst]
      simp only [xSetFile, xFile]
      cases hf : AL.get? (fsFiles s.disk img) n with
      | none => exact h
      | some f => exact tidy_disk h _ (diskOk_setDiskFiles h.disk img _ (AL.nodup_keys_set _ _ _ (h.disk.files img)))
  | test =>
    show Tidy ({ afterTest s with lastReport := some (report s) })
    exact tidy_lastReport (tidy_afterTest h) _
  | reloadpart p => exact tidy_reloadPart h p
  | gnew _ _ => exact absurd hq (by simp [Quiet])
  | grename _ _ _ => exact absurd hq (by simp [Quiet])
  | lnew _ => exact absurd hq (by simp [Quiet])
  | ldel _ => exact absurd hq (by simp [Quiet])
  | lorder _ => exact absurd hq (by simp [Quiet])
  | ldefault _ => exact absurd hq (by simp [Quiet])
  | save a b => exact absurd rfl (hns a b)
  | saveas tD tS =>
    rw [step_saveas]
    cases hr : saveAs s tD tS with
    | error e => exact h
    | ok s1 => exact tidy_saveAs hs h hr
  | xlinfo _ _ => exact absurd hq (by simp [Quiet])
  | xladd _ _ _ => exact absurd hq (by simp [Quiet])
  | xldel _ => exact absurd hq (by simp [Quiet])
  | xlorder _ => exact absurd hq (by simp [Quiet])
  | xldefault _ => exact absurd hq (by simp [Quiet])
  | reload => exact absurd hq (by simp [Quiet])
  | acceptdel => exact absurd hq (by simp [Quiet])
  | reloadglyphs _ _ => exact absurd hq (by simp [Quiet])
  | reloadfiles _ _ => exact absurd hq (by simp [Quiet])

theorem step_save (s : State) (tD tS : Time) : (step s (.save tD tS)).1 =
    (match save s tD tS with
      | .ok s1 => s1
      | .error _ => s) := by
  show (match save s tD tS with
      | .ok s1 => (s1, Res.disk)
      | .error e => (s, Res.err e)).1 = _
  cases save s tD tS with
  | error e => rfl
  | ok r => rfl

/-- THE STEP.  Every quiet operation — the in-place save included — keeps the font in step with its
UFO and its bookkeeping tidy. -/
theorem inv_step {s : State} (hs : Synced s) (ht : Tidy s) (op : Op) (hq : Quiet op) :
    Synced (step s op).1 ∧ Tidy (step s op).1 := by
  by_cases hsave : ∃ a b, op = .save a b
  · obtain ⟨a, b, rfl⟩ := hsave
    rw [step_save]
    cases hr : save s a b with
    | error e => exact ⟨hs, ht⟩
    | ok s1 => exact synced_save hs ht hr
  · have hns : ∀ a b, op ≠ .save a b := fun a b e => hsave ⟨a, b, e⟩
    exact ⟨synced_step_nosave hs op hq hns, tidy_step_nosave hs ht op hq hns⟩

theorem inv_run {s : State} (hs : Synced s) (ht : Tidy s) (ops : List Op) (hq : ∀ op ∈ ops, Quiet op) :
    Synced (run s ops) ∧ Tidy (run s ops) := by
  induction ops generalizing s with
  | nil => exact ⟨hs, ht⟩
  | cons op rest ih =>
    simp only [run, List.foldl_cons]
    obtain ⟨h1, h2⟩ := inv_step hs ht op (hq op (by simp))
    exact ih h1 h2 fun o ho => hq o (by simp [ho])

/-- a font just opened has a tidy bookkeeping -/
theorem tidy_openFont (zip : Bool) (d : Disk) (empty : Blob) (hd : DiskOk d) : Tidy (openFont zip d empty) where
  history := by
    intro a ha
    have ha' : a ∈ (layerNames d).map Action.new ++ (match d.default with
        | some n => [Action.default n none]
        | none => []) := ha
    rw [List.mem_append] at ha'
    rcases ha' with h1 | h1
    · exact tame_news _ _ a h1
    · cases hdf : d.default with
      | none => simp [hdf] at h1
      | some n =>
        simp [hdf] at h1
        subst h1
        exact ⟨hdf, by simp⟩
  layersInOrder := by
    intro ln hc
    have hc' : AL.contains (d.layers.map fun p => (p.1, openLayer p.1 p.2)) ln = true := hc
    rw [contains_map_val openLayer] at hc'
    exact (AL_mem_keys_iff_contains _ _).2 hc'
  schedNodup := by
    intro ln l hg
    have hg' : AL.get? (d.layers.map fun p => (p.1, openLayer p.1 p.2)) ln = some l := hg
    rw [get?_map_key_val openLayer] at hg'
    cases hf : AL.get? d.layers ln with
    | none => simp [hf] at hg'
    | some dl =>
      simp [hf] at hg'
      subst hg'
      simp [openLayer, AL.keys]
  imagesDisjoint := by intro n _; rfl
  dataDisjoint := by intro n _; rfl
  disk := hd

end Ext
end DefconModel
