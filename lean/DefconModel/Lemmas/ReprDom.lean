/-
Executable checks of the structural domain `Dom` (used by the driver at run time and by the
non-vacuity examples), with their soundness.
-/
import DefconModel.Spec.Repr

namespace DefconModel
namespace Repr

variable {V : Type}

/-- chains are bounded when every component points to a glyph of strictly smaller rank -/
theorem bounded_of_rank (gs : Layer) (fuel : Nat) (rank : String → Nat)
    (hdec : ∀ x g k c, AL.get? gs x = some g → k ∈ g.comps → k.base = some c → rank c < rank x)
    (hlt : ∀ x, rank x < fuel) : Bounded gs fuel := by
  have key : ∀ n x a, ReadsN gs n x a → n + rank a ≤ rank x := by
    intro n x a h
    induction h with
    | refl a => omega
    | step g k hg hk hb _ ih =>
      have := hdec _ g k _ hg hk hb
      omega
  intro n x a h
  have := key n x a h
  have := hlt x
  omega

def compWatchOK (gs : Layer) (k : CompS) : Bool :=
  match k.base with
  | none => true
  | some b => if AL.contains gs b then k.watch = Watch.base else k.watch = Watch.layer

def watchCheck (gs : Layer) : Bool := gs.all fun p => p.2.comps.all (compWatchOK gs)

theorem watchCheck_sound (gs : Layer) (h : watchCheck gs = true) : WatchOK gs ∧ WaitOK gs := by
  have key : ∀ x g k, AL.get? gs x = some g → k ∈ g.comps → compWatchOK gs k = true := by
    intro x g k hg hk
    have h1 := List.all_eq_true.mp h (x, g) (AL.mem_of_get? hg)
    exact List.all_eq_true.mp h1 k hk
  constructor
  · intro x g k b hg hk hb hc
    have := key x g k hg hk
    unfold compWatchOK at this
    rw [hb] at this
    simpa [hc] using this
  · intro x g k b hg hk hb hc
    have := key x g k hg hk
    unfold compWatchOK at this
    rw [hb] at this
    simpa [hc] using this

def idsCheck (w : World V) : Bool :=
  w.looseC.all (fun c => !(hostOfContour w.glyphs c.id).isSome) &&
  w.looseK.all (fun k => !(hostOfComp w.glyphs k.id).isSome) &&
  w.glyphs.all (fun p => w.glyphs.all fun q =>
    p.2.contours.all (fun c => !hasContour c.id q.2 || p.1 = q.1) &&
    p.2.comps.all (fun k => !hasComp k.id q.2 || p.1 = q.1)) &&
  decide (AL.keys w.glyphs).Nodup

theorem idsCheck_sound (w : World V) (h : idsCheck w = true) : IdsOK w := by
  unfold idsCheck at h
  simp only [Bool.and_eq_true, decide_eq_true_eq] at h
  obtain ⟨⟨⟨h1, h2⟩, h3⟩, h4⟩ := h
  refine ⟨?_, ?_, ?_, ?_, h4⟩
  · intro c hc
    have := List.all_eq_true.mp h1 c hc
    simpa using this
  · intro k hk
    have := List.all_eq_true.mp h2 k hk
    simpa using this
  · intro x y gx gy cid hx hy hcx hcy
    have hp := List.all_eq_true.mp h3 (x, gx) (AL.mem_of_get? hx)
    have hq := List.all_eq_true.mp hp (y, gy) (AL.mem_of_get? hy)
    rw [Bool.and_eq_true] at hq
    unfold hasContour at hcx
    rw [List.any_eq_true] at hcx
    obtain ⟨c, hc, hid⟩ := hcx
    simp only [decide_eq_true_eq] at hid
    have := List.all_eq_true.mp hq.1 c hc
    rw [hid, hcy] at this
    simpa using this
  · intro x y gx gy kid hx hy hcx hcy
    have hp := List.all_eq_true.mp h3 (x, gx) (AL.mem_of_get? hx)
    have hq := List.all_eq_true.mp hp (y, gy) (AL.mem_of_get? hy)
    rw [Bool.and_eq_true] at hq
    unfold hasComp at hcx
    rw [List.any_eq_true] at hcx
    obtain ⟨c, hc, hid⟩ := hcx
    simp only [decide_eq_true_eq] at hid
    have := List.all_eq_true.mp hq.2 c hc
    rw [hid, hcy] at this
    simpa using this

/-- no outline runs out of fuel (run-time check of boundedness; not used in proofs) -/
def fuelCheck (w : World V) : Bool :=
  w.glyphs.all fun p => !(outline w.fuel w.glyphs p.1).contains Tok.cut

/-- the run-time domain check printed by the driver -/
def domCheck (w : World V) : Bool := watchCheck w.glyphs && idsCheck w && fuelCheck w

/-- `Dom` from the executable checks and a rank function for the component graph -/
theorem dom_of_checks (w : World V) (rank : String → Nat)
    (hw : watchCheck w.glyphs = true) (hi : idsCheck w = true)
    (hdec : ∀ x g k c, AL.get? w.glyphs x = some g → k ∈ g.comps → k.base = some c → rank c < rank x)
    (hlt : ∀ x, rank x < w.fuel) : Dom w :=
  ⟨bounded_of_rank w.glyphs w.fuel rank hdec hlt, (watchCheck_sound _ hw).1, (watchCheck_sound _ hw).2,
   idsCheck_sound w hi⟩

end Repr
end DefconModel
