/-
Helper lemmas for C12 (M-GlyphOrder).
-/
import DefconModel.Spec.GlyphOrder

namespace DefconModel
namespace GlyphOrder

/-! ## Python primitives -/

theorem mem_addName {l : List Name} {n x : Name} : x ∈ addName l n ↔ x ∈ l ∨ x = n := by
  unfold addName
  by_cases h : n ∈ l
  · simp [h]; intro e; subst e; exact h
  · simp [h]

theorem mem_removeName {l : List Name} {n x : Name} : x ∈ removeName l n ↔ x ∈ l ∧ x ≠ n := by
  induction l with
  | nil => simp [removeName]
  | cons y r ih =>
    by_cases h : y = n
    · subst h
      simp only [removeName, if_true, ih, List.mem_cons]
      constructor
      · rintro ⟨h1, h2⟩; exact ⟨Or.inr h1, h2⟩
      · rintro ⟨h1 | h1, h2⟩
        · exact absurd h1 h2
        · exact ⟨h1, h2⟩
    · simp only [removeName, h, if_false, List.mem_cons, ih]
      constructor
      · rintro (h1 | ⟨h1, h2⟩)
        · subst h1; exact ⟨Or.inl rfl, h⟩
        · exact ⟨Or.inr h1, h2⟩
      · rintro ⟨h1 | h1, h2⟩
        · exact Or.inl h1
        · exact Or.inr ⟨h1, h2⟩

theorem indexOf?_eq_none {o : List Name} {n : Name} : indexOf? o n = none ↔ n ∉ o := by
  induction o with
  | nil => simp [indexOf?]
  | cons x r ih =>
    by_cases h : x = n
    · subst h; simp [indexOf?]
    · have h' : ¬ n = x := fun e => h e.symm
      simp only [indexOf?, h, if_false, List.mem_cons, h', false_or]
      rw [← ih]
      cases indexOf? r n <;> simp

theorem indexOf?_isSome {o : List Name} {n : Name} : (indexOf? o n).isSome = true ↔ n ∈ o := by
  by_cases h : n ∈ o
  · simp only [h, iff_true]
    cases hh : indexOf? o n with
    | none => exact absurd h (indexOf?_eq_none.mp hh)
    | some i => rfl
  · simp [h, indexOf?_eq_none.mpr h]

/-- `order[index] = a` at `index = order.index(r)` puts `a` where the first `r` stands -/
theorem set_indexOf {o : List Name} {r a : Name} {i : Nat} (h : indexOf? o r = some i) :
    o.set i a = replaceFirst o r a := by
  induction o generalizing i with
  | nil => simp [indexOf?] at h
  | cons x t ih =>
    by_cases hx : x = r
    · subst hx
      simp [indexOf?] at h
      subst h
      simp [replaceFirst]
    · simp only [indexOf?, hx, if_false] at h
      cases hh : indexOf? t r with
      | none => simp [hh] at h
      | some j =>
        simp [hh] at h
        subst h
        simp [replaceFirst, hx, ih hh]

/-- `del order[index]` at `index = order.index(r)` drops the first `r` -/
theorem eraseIdx_indexOf {o : List Name} {r : Name} {i : Nat} (h : indexOf? o r = some i) :
    o.eraseIdx i = eraseFirst o r := by
  induction o generalizing i with
  | nil => simp [indexOf?] at h
  | cons x t ih =>
    by_cases hx : x = r
    · subst hx
      simp [indexOf?] at h
      subst h
      simp [eraseFirst]
    · simp only [indexOf?, hx, if_false] at h
      cases hh : indexOf? t r with
      | none => simp [hh] at h
      | some j =>
        simp [hh] at h
        subst h
        simp [eraseFirst, hx, ih hh]

theorem indexOf?_lt {o : List Name} {r : Name} {i : Nat} (h : indexOf? o r = some i) :
    i < o.length ∧ o[i]? = some r ∧ ∀ j, j < i → o[j]? ≠ some r := by
  induction o generalizing i with
  | nil => simp [indexOf?] at h
  | cons x t ih =>
    by_cases hx : x = r
    · subst hx
      simp [indexOf?] at h
      subst h
      simp
    · simp only [indexOf?, hx, if_false] at h
      cases hh : indexOf? t r with
      | none => simp [hh] at h
      | some j =>
        simp [hh] at h
        subst h
        obtain ⟨h1, h2, h3⟩ := ih hh
        refine ⟨by simp; omega, by simpa using h2, ?_⟩
        intro k hk
        cases k with
        | zero => simp [hx]
        | succ k => simpa using h3 k (by omega)

/-! ## Spec edits -/

theorem eraseFirst_of_not_mem {o : List Name} {n : Name} (h : n ∉ o) : eraseFirst o n = o := by
  induction o with
  | nil => rfl
  | cons x r ih =>
    simp only [List.mem_cons, not_or] at h
    have hx : ¬ x = n := fun e => h.1 e.symm
    simp [eraseFirst, hx, ih h.2]

theorem eraseFirst_eq_erase (o : List Name) (n : Name) : eraseFirst o n = o.erase n := by
  induction o with
  | nil => rfl
  | cons x r ih =>
    by_cases hx : x = n
    · subst hx; simp [eraseFirst]
    · simp [eraseFirst, hx, ih]

theorem mem_appendIfAbsent {o : List Name} {a x : Name} :
    x ∈ appendIfAbsent o a ↔ x ∈ o ∨ x = a := by
  unfold appendIfAbsent
  by_cases h : a ∈ o
  · simp [h]; intro e; subst e; exact h
  · simp [h]

theorem mem_eraseFirst_of_ne {o : List Name} {r x : Name} (h : x ≠ r) :
    x ∈ eraseFirst o r ↔ x ∈ o := by
  induction o with
  | nil => simp [eraseFirst]
  | cons y t ih =>
    by_cases hy : y = r
    · subst hy
      simp [eraseFirst, h]
    · simp [eraseFirst, hy, ih]

theorem mem_of_mem_eraseFirst {o : List Name} {r x : Name} (h : x ∈ eraseFirst o r) : x ∈ o := by
  induction o with
  | nil => simp [eraseFirst] at h
  | cons y t ih =>
    by_cases hy : y = r
    · simp [eraseFirst, hy] at h; exact List.mem_cons_of_mem _ h
    · simp [eraseFirst, hy] at h
      rcases h with h | h
      · simp [h]
      · exact List.mem_cons_of_mem _ (ih h)

theorem mem_replaceFirst_of_ne {o : List Name} {r a x : Name} (h1 : x ≠ r) (h2 : x ≠ a) :
    x ∈ replaceFirst o r a ↔ x ∈ o := by
  induction o with
  | nil => simp [replaceFirst]
  | cons y t ih =>
    by_cases hy : y = r
    · subst hy
      simp [replaceFirst, h1, h2]
    · simp [replaceFirst, hy, ih]

theorem mem_replaceFirst_new {o : List Name} {r a : Name} (h : r ∈ o) : a ∈ replaceFirst o r a := by
  induction o with
  | nil => simp at h
  | cons y t ih =>
    by_cases hy : y = r
    · simp [replaceFirst, hy]
    · have : r ∈ t := by
        simp only [List.mem_cons] at h
        rcases h with h | h
        · exact absurd h.symm hy
        · exact h
      simp [replaceFirst, hy, ih this]

theorem length_replaceFirst (o : List Name) (r a : Name) : (replaceFirst o r a).length = o.length := by
  induction o with
  | nil => rfl
  | cons y t ih =>
    by_cases hy : y = r <;> simp [replaceFirst, hy, ih]

/-! ### counting -/

theorem count_eraseFirst_le (o : List Name) (r n : Name) :
    (eraseFirst o r).count n ≤ o.count n := by
  rw [eraseFirst_eq_erase, List.count_erase]; omega

theorem count_eraseFirst_self (o : List Name) (r : Name) :
    (eraseFirst o r).count r = o.count r - 1 := by
  rw [eraseFirst_eq_erase, List.count_erase]; simp

theorem count_eraseFirst_ne (o : List Name) {r n : Name} (h : r ≠ n) :
    (eraseFirst o r).count n = o.count n := by
  rw [eraseFirst_eq_erase, List.count_erase]; simp [h]

theorem count_appendIfAbsent_le (o : List Name) (a n : Name) :
    (appendIfAbsent o a).count n ≤ max 1 (o.count n) := by
  unfold appendIfAbsent
  by_cases h : a ∈ o
  · simp [h]; omega
  · simp only [h, if_false, List.count_append, List.count_cons, List.count_nil]
    by_cases e : a = n
    · subst e
      have : o.count a = 0 := List.count_eq_zero.mpr h
      simp [this]
    · simp [e]; omega

theorem count_replaceFirst_ne (o : List Name) (r a : Name) {n : Name} (h : n ≠ a) :
    (replaceFirst o r a).count n ≤ o.count n := by
  induction o with
  | nil => simp [replaceFirst]
  | cons y t ih =>
    have ha : ¬ a = n := fun e => h e.symm
    by_cases hy : y = r
    · simp only [replaceFirst, hy, if_true, List.count_cons, beq_iff_eq, ha, if_false]
      omega
    · simp only [replaceFirst, hy, if_false, List.count_cons]
      omega

theorem count_replaceFirst_new (o : List Name) (r a : Name) (h : a ∉ o) :
    (replaceFirst o r a).count a ≤ 1 := by
  induction o with
  | nil => simp [replaceFirst]
  | cons y t ih =>
    simp only [List.mem_cons, not_or] at h
    have hy' : ¬ y = a := fun e => h.1 e.symm
    by_cases hy : y = r
    · have : t.count a = 0 := List.count_eq_zero.mpr h.2
      simp [replaceFirst, hy, this]
    · simp only [replaceFirst, hy, if_false, List.count_cons, beq_iff_eq, hy']
      have := ih h.2
      omega

theorem count_replaceFirst_old (o : List Name) {r a : Name} (h : r ≠ a) :
    (replaceFirst o r a).count r = o.count r - 1 := by
  induction o with
  | nil => simp [replaceFirst]
  | cons y t ih =>
    have ha : ¬ a = r := fun e => h e.symm
    by_cases hy : y = r
    · simp [replaceFirst, hy, ha]
    · simp only [replaceFirst, hy, if_false, List.count_cons, beq_iff_eq]
      simpa using ih

theorem count_replaceFirst_le (o : List Name) (r a n : Name) (h : a ∉ o) :
    (replaceFirst o r a).count n ≤ max 1 (o.count n) := by
  by_cases e : n = a
  · subst e
    have := count_replaceFirst_new o r n h
    omega
  · have := count_replaceFirst_ne o r a e
    omega

theorem count_specUpdate_le (o : List Name) (a r : Option Name) (n : Name) :
    (specUpdate o a r).count n ≤ max 1 (o.count n) := by
  cases a with
  | none =>
    cases r with
    | none => simp [specUpdate]; omega
    | some r =>
      have := count_eraseFirst_le o r n
      simp only [specUpdate]; omega
  | some a =>
    cases r with
    | none => exact count_appendIfAbsent_le o a n
    | some r =>
      simp only [specUpdate]
      split
      · split
        · omega
        · split
          · have := count_eraseFirst_le o r n; omega
          · rename_i h; exact count_replaceFirst_le o r a n h
      · exact count_appendIfAbsent_le o a n

/-! ### filtering out the touched names -/

theorem filter_appendIfAbsent (p : Name → Bool) (o : List Name) {a : Name} (h : p a = false) :
    (appendIfAbsent o a).filter p = o.filter p := by
  unfold appendIfAbsent
  by_cases ha : a ∈ o
  · simp [ha]
  · simp [ha, List.filter_append, h]

theorem filter_eraseFirst (p : Name → Bool) (o : List Name) {r : Name} (h : p r = false) :
    (eraseFirst o r).filter p = o.filter p := by
  induction o with
  | nil => rfl
  | cons y t ih =>
    by_cases hy : y = r
    · subst hy; simp [eraseFirst, h]
    · simp [eraseFirst, hy, List.filter_cons, ih]

theorem filter_replaceFirst (p : Name → Bool) (o : List Name) {r a : Name} (h1 : p r = false)
    (h2 : p a = false) : (replaceFirst o r a).filter p = o.filter p := by
  induction o with
  | nil => rfl
  | cons y t ih =>
    by_cases hy : y = r
    · subst hy; simp [replaceFirst, h1, h2]
    · simp [replaceFirst, hy, List.filter_cons, ih]

theorem filter_specUpdate (p : Name → Bool) (o : List Name) (a r : Option Name)
    (ha : ∀ x, a = some x → p x = false) (hr : ∀ x, r = some x → p x = false) :
    (specUpdate o a r).filter p = o.filter p := by
  cases a with
  | none =>
    cases r with
    | none => rfl
    | some r => exact filter_eraseFirst p o (hr r rfl)
  | some a =>
    cases r with
    | none => exact filter_appendIfAbsent p o (ha a rfl)
    | some r =>
      simp only [specUpdate]
      split
      · split
        · rfl
        · split
          · exact filter_eraseFirst p o (hr r rfl)
          · exact filter_replaceFirst p o (hr r rfl) (ha a rfl)
      · exact filter_appendIfAbsent p o (ha a rfl)

/-! ## `glyphOrder` / `updateGlyphOrder` refine the index-free specification -/

@[simp] theorem layers_setGlyphOrder (f : Font) (v : Option (List Name)) :
    (setGlyphOrder f v).layers = f.layers := by
  unfold setGlyphOrder
  split
  · rfl
  · split <;> rfl

theorem glyphOrder_setGlyphOrder (f : Font) (v : Option (List Name)) :
    glyphOrder (setGlyphOrder f v) = v.getD [] := by
  unfold setGlyphOrder glyphOrder
  split
  · rename_i h; rw [h]
  · split
    · rename_i h; simp [h]
    · rfl

/-- what ends up under the lib key: nothing for an empty order (unless an empty list was already
there and nothing changes), else the list -/
theorem lib_setGlyphOrder (f : Font) (v : Option (List Name)) :
    (setGlyphOrder f v).lib = if f.lib = v then v else if v.getD [] = [] then none else v := by
  unfold setGlyphOrder
  split
  · rename_i h; simp [h]
  · split <;> rfl

@[simp] theorem layers_updateGlyphOrder (f : Font) (a r : Option Name) :
    (updateGlyphOrder f a r).layers = f.layers := by
  unfold updateGlyphOrder
  simp only
  split
  · rfl
  · simp

theorem glyphOrder_updateGlyphOrder (f : Font) (a r : Option Name) :
    glyphOrder (updateGlyphOrder f a r) = specUpdate (glyphOrder f) a r := by
  unfold updateGlyphOrder
  simp only
  cases r with
  | none =>
    cases a with
    | none => simp [findIndex, earlyReturn, addStep, delStep, glyphOrder_setGlyphOrder, specUpdate]
    | some a =>
      by_cases ha : a ∈ glyphOrder f <;>
        simp [findIndex, earlyReturn, addStep, delStep, glyphOrder_setGlyphOrder, specUpdate,
          appendIfAbsent, ha]
  | some r =>
    cases hi : indexOf? (glyphOrder f) r with
    | none =>
      have hr : r ∉ glyphOrder f := indexOf?_eq_none.mp hi
      cases a with
      | none =>
        simp [findIndex, hi, earlyReturn, addStep, delStep, glyphOrder_setGlyphOrder, specUpdate,
          eraseFirst_of_not_mem hr]
      | some a =>
        by_cases ha : a ∈ glyphOrder f <;>
          simp [findIndex, hi, earlyReturn, addStep, delStep, glyphOrder_setGlyphOrder, specUpdate,
            appendIfAbsent, ha, hr]
    | some i =>
      have hr : r ∈ glyphOrder f := by
        have : (indexOf? (glyphOrder f) r).isSome = true := by simp [hi]
        exact indexOf?_isSome.mp this
      cases a with
      | none =>
        simp [findIndex, hi, earlyReturn, addStep, delStep, glyphOrder_setGlyphOrder, specUpdate,
          eraseIdx_indexOf hi]
      | some a =>
        by_cases hra : r = a
        · subst hra
          simp [findIndex, hi, earlyReturn, specUpdate, hr]
        · have hra' : ¬ a = r := fun e => hra e.symm
          by_cases ha : a ∈ glyphOrder f
          · simp [findIndex, hi, earlyReturn, addStep, delStep, glyphOrder_setGlyphOrder,
              specUpdate, hr, hra, ha, eraseIdx_indexOf hi]
          · simp [findIndex, hi, earlyReturn, addStep, delStep, glyphOrder_setGlyphOrder,
              specUpdate, hr, hra, ha, set_indexOf hi]

/-- the lib after an update: the key is written with the new order, deleted when that is empty;
nothing is written when nothing changes -/
theorem lib_updateGlyphOrder (f : Font) (a r : Option Name) :
    (updateGlyphOrder f a r).lib = f.lib ∨
    (updateGlyphOrder f a r).lib =
      (if specUpdate (glyphOrder f) a r = [] then none else some (specUpdate (glyphOrder f) a r)) := by
  have hspec := glyphOrder_updateGlyphOrder f a r
  unfold updateGlyphOrder at hspec ⊢
  simp only at hspec ⊢
  split
  · exact Or.inl rfl
  · rename_i he
    rw [if_neg he, glyphOrder_setGlyphOrder] at hspec
    simp only [Option.getD_some] at hspec
    rw [lib_setGlyphOrder, hspec]
    split
    · rename_i h; exact Or.inl h.symm
    · exact Or.inr (by simp)

theorem libNormal_updateGlyphOrder (f : Font) (a r : Option Name) (h : LibNormal f) :
    LibNormal (updateGlyphOrder f a r) := by
  unfold LibNormal at h ⊢
  rcases lib_updateGlyphOrder f a r with e | e
  · rw [e]; exact h
  · rw [e]; split
    · simp
    · rename_i hne; simpa using hne

/-! ## Layers: who has a glyph called `n` -/

theorem exists_congr {f f' : Font} (h : f'.layers = f.layers) (n : Name) : Exists f' n ↔ Exists f n := by
  unfold Exists; rw [h]

theorem WF.congr {f f' : Font} (h : f'.layers = f.layers) (hw : WF f) : WF f' :=
  ⟨by rw [h]; exact hw.names, by rw [h]; exact hw.observed⟩

theorem anyLayerHas_iff {f : Font} (hn : (AL.keys f.layers).Nodup) (n : Name) :
    anyLayerHas f n = true ↔ Exists f n := by
  unfold anyLayerHas Exists
  rw [List.any_eq_true]
  constructor
  · rintro ⟨⟨L, l⟩, hmem, hh⟩
    exact ⟨L, l, AL.get?_of_mem_nodup hn hmem, by simpa [layerHas] using hh⟩
  · rintro ⟨L, l, hget, hh⟩
    exact ⟨(L, l), AL.mem_of_get? hget, by simpa [layerHas] using hh⟩

theorem exists_split {f : Font} {L : String} {l : Layer} (hget : AL.get? f.layers L = some l) (n : Name) :
    Exists f n ↔ ExistsElsewhere f L n ∨ n ∈ l.glyphs := by
  constructor
  · rintro ⟨L2, l2, h2, hm⟩
    by_cases e : L2 = L
    · subst e; rw [hget] at h2; cases h2; exact Or.inr hm
    · exact Or.inl ⟨L2, l2, e, h2, hm⟩
  · rintro (⟨L2, l2, _, h2, hm⟩ | hm)
    · exact ⟨L2, l2, h2, hm⟩
    · exact ⟨L, l, hget, hm⟩

theorem get?_setLayer (f : Font) (L : String) (l' : Layer) (k : String) :
    AL.get? (setLayer f L l').layers k = if L = k then some l' else AL.get? f.layers k := by
  unfold setLayer; simp only; exact AL.get?_set _ _ _ _

theorem existsElsewhere_setLayer (f : Font) (L : String) (l' : Layer) (n : Name) :
    ExistsElsewhere (setLayer f L l') L n ↔ ExistsElsewhere f L n := by
  unfold ExistsElsewhere
  constructor
  · rintro ⟨L2, l2, hne, h2, hm⟩
    rw [get?_setLayer, if_neg (fun e => hne e.symm)] at h2
    exact ⟨L2, l2, hne, h2, hm⟩
  · rintro ⟨L2, l2, hne, h2, hm⟩
    refine ⟨L2, l2, hne, ?_, hm⟩
    rw [get?_setLayer, if_neg (fun e => hne e.symm)]; exact h2

theorem exists_setLayer (f : Font) (L : String) (l' : Layer) (n : Name) :
    Exists (setLayer f L l') n ↔ ExistsElsewhere f L n ∨ n ∈ l'.glyphs := by
  have hget : AL.get? (setLayer f L l').layers L = some l' := by rw [get?_setLayer, if_pos rfl]
  rw [exists_split hget, existsElsewhere_setLayer]

theorem wf_setLayer {f : Font} (hw : WF f) (L : String) (l' : Layer) (ho : l'.observed = true) :
    WF (setLayer f L l') := by
  refine ⟨AL.nodup_keys_set _ _ _ hw.names, ?_⟩
  intro kl hkl
  rcases AL.mem_set hkl with e | e
  · rw [e]; exact ho
  · exact hw.observed kl e

theorem observed_of_get? {f : Font} (hw : WF f) {L : String} {l : Layer}
    (hget : AL.get? f.layers L = some l) : l.observed = true :=
  hw.observed (L, l) (AL.mem_of_get? hget)

/-! ## What each operation does to the layers and to the order (observed layers) -/

theorem newGlyph_spec {f : Font} (hw : WF f) {L : String} {l : Layer}
    (hget : AL.get? f.layers L = some l) (g : Name) :
    (newGlyph f L g).2 = .ok ∧
    (newGlyph f L g).1.layers = (setLayer f L { l with glyphs := addName l.glyphs g }).layers ∧
    glyphOrder (newGlyph f L g).1 = specCreate (glyphOrder f) g := by
  have ho := observed_of_get? hw hget
  obtain ⟨gl, ob⟩ := l
  simp only at ho
  subst ho
  unfold newGlyph
  rw [hget]
  simp only [if_true, glyphAddedCb, layers_updateGlyphOrder, glyphOrder_updateGlyphOrder]
  exact ⟨trivial, trivial, rfl⟩

theorem delGlyph_spec {f : Font} (hw : WF f) {L : String} {l : Layer}
    (hget : AL.get? f.layers L = some l) {g : Name} (hm : g ∈ l.glyphs) :
    (delGlyph f L g).2 = .ok ∧
    (delGlyph f L g).1.layers = (setLayer f L { l with glyphs := removeName l.glyphs g }).layers ∧
    ∃ b : Bool, (b = true ↔ ExistsElsewhere f L g) ∧
      glyphOrder (delGlyph f L g).1 = specDelete (glyphOrder f) g b := by
  have ho := observed_of_get? hw hget
  obtain ⟨gl, ob⟩ := l
  simp only at ho hm
  subst ho
  have hw1 := wf_setLayer hw L { glyphs := removeName gl g, observed := true } rfl
  unfold delGlyph
  rw [hget]
  simp only [hm, if_true]
  refine ⟨trivial, ?_, anyLayerHas (setLayer f L { glyphs := removeName gl g, observed := true }) g, ?_, ?_⟩
  · unfold glyphDeletedCb; split <;> simp
  · rw [anyLayerHas_iff hw1.names, exists_setLayer]
    simp [mem_removeName]
  · unfold glyphDeletedCb specDelete
    split
    · rfl
    · rw [glyphOrder_updateGlyphOrder]; rfl

theorem rename_spec {f : Font} (hw : WF f) {L : String} {l : Layer}
    (hget : AL.get? f.layers L = some l) {old new : Name} (hm : old ∈ l.glyphs) (hne : old ≠ new) :
    (rename f L old new).2 = .ok ∧
    (rename f L old new).1.layers =
      (setLayer f L { l with glyphs := addName (removeName l.glyphs old) new }).layers ∧
    ∃ b : Bool, (b = true ↔ ExistsElsewhere f L old) ∧
      glyphOrder (rename f L old new).1 = specRename (glyphOrder f) old new b := by
  have ho := observed_of_get? hw hget
  obtain ⟨gl, ob⟩ := l
  simp only at ho hm
  subst ho
  have hw1 := wf_setLayer hw L { glyphs := addName (removeName gl old) new, observed := true } rfl
  unfold rename
  rw [hget]
  simp only [hm, hne, if_true, if_false]
  refine ⟨trivial, ?_,
    anyLayerHas (setLayer f L { glyphs := addName (removeName gl old) new, observed := true }) old, ?_, ?_⟩
  · unfold glyphRenamedCb; simp
  · rw [anyLayerHas_iff hw1.names, exists_setLayer]
    simp [mem_addName, mem_removeName, hne]
  · unfold glyphRenamedCb
    rw [glyphOrder_updateGlyphOrder]
    have hg : glyphOrder (setLayer f L { glyphs := addName (removeName gl old) new, observed := true }) =
        glyphOrder f := rfl
    rw [hg]
    unfold specRename
    split
    · rfl
    · simp only [specUpdate, hne, if_false]

/-! ## More facts about the index-free edits -/

theorem not_mem_eraseFirst_self {o : List Name} {g : Name} (h : o.count g ≤ 1) : g ∉ eraseFirst o g := by
  intro hh
  have h1 := List.one_le_count_iff.mpr hh
  rw [count_eraseFirst_self] at h1
  omega

theorem not_mem_replaceFirst_old {o : List Name} {r a : Name} (hne : r ≠ a) (h : o.count r ≤ 1) :
    r ∉ replaceFirst o r a := by
  intro hh
  have h1 := List.one_le_count_iff.mpr hh
  rw [count_replaceFirst_old o hne] at h1
  omega

theorem mem_specRename_new (o : List Name) {old new : Name} (hne : old ≠ new) (b : Bool) :
    new ∈ specRename o old new b := by
  have hne' : new ≠ old := fun e => hne e.symm
  unfold specRename
  split
  · exact mem_appendIfAbsent.mpr (Or.inr rfl)
  · split
    · split
      · rename_i h1 h2; exact (mem_eraseFirst_of_ne hne').mpr h2
      · rename_i h1 h2; exact mem_replaceFirst_new h1
    · exact mem_appendIfAbsent.mpr (Or.inr rfl)

theorem mem_specRename_of_ne (o : List Name) {old new n : Name} (h1 : n ≠ old) (h2 : n ≠ new) (b : Bool) :
    n ∈ specRename o old new b ↔ n ∈ o := by
  unfold specRename
  split
  · simp [mem_appendIfAbsent, h2]
  · split
    · split
      · exact mem_eraseFirst_of_ne h1
      · exact mem_replaceFirst_of_ne h1 h2
    · simp [mem_appendIfAbsent, h2]

theorem not_mem_specRename_old {o : List Name} {old new : Name} (hne : old ≠ new)
    (h : o.count old ≤ 1) : old ∉ specRename o old new false := by
  unfold specRename
  simp only [Bool.false_eq_true, if_false]
  split
  · split
    · exact not_mem_eraseFirst_self h
    · exact not_mem_replaceFirst_old hne h
  · rename_i h1
    simp [mem_appendIfAbsent, h1, hne]

theorem specRename_eq_specUpdate (o : List Name) {old new : Name} (hne : old ≠ new) (b : Bool) :
    specRename o old new b = specUpdate o (some new) (if b then none else some old) := by
  cases b <;> simp [specRename, specUpdate, hne]

theorem specDelete_eq_specUpdate (o : List Name) (g : Name) (b : Bool) :
    specDelete o g b = specUpdate o none (if b then none else some g) := by
  cases b <;> simp [specDelete, specUpdate]

/-! ## Every operation, any state: the order changes by one `specUpdate` on touched names -/

theorem exists_of_elsewhere {f : Font} {L : String} {n : Name} (h : ExistsElsewhere f L n) : Exists f n := by
  obtain ⟨L2, l2, _, h2, hm⟩ := h
  exact ⟨L2, l2, h2, hm⟩

theorem step_order_spec (f : Font) (op : Op) (h : op.isUpdate = true) :
    ∃ a r : Option Name, (∀ x, a = some x → x ∈ op.touched) ∧ (∀ x, r = some x → x ∈ op.touched) ∧
      glyphOrder (step f op).1 = specUpdate (glyphOrder f) a r := by
  have triv : ∃ a r : Option Name, (∀ x, a = some x → x ∈ op.touched) ∧
      (∀ x, r = some x → x ∈ op.touched) ∧ glyphOrder f = specUpdate (glyphOrder f) a r :=
    ⟨none, none, by simp, by simp, rfl⟩
  cases op with
  | setOrder v => simp [Op.isUpdate] at h
  | setLib v => simp [Op.isUpdate] at h
  | newLayer n =>
    simp only [step, newLayer]
    split
    · exact triv
    · exact triv
  | delLayer n =>
    simp only [step, delLayer]
    split
    · exact triv
    · exact triv
  | newGlyph L g =>
    simp only [step, newGlyph]
    split
    · exact triv
    · split
      · exact ⟨some g, none, by simp [Op.touched], by simp, by
          simp only [glyphAddedCb, glyphOrder_updateGlyphOrder]; rfl⟩
      · exact triv
  | insertGlyph L g =>
    simp only [step, insertGlyph, newGlyph]
    split
    · exact triv
    · split
      · exact ⟨some g, none, by simp [Op.touched], by simp, by
          simp only [glyphAddedCb, glyphOrder_updateGlyphOrder]; rfl⟩
      · exact triv
  | delGlyph L g =>
    simp only [step, delGlyph]
    split
    · exact triv
    · split
      · split
        · unfold glyphDeletedCb
          split
          · exact triv
          · exact ⟨none, some g, by simp, by simp [Op.touched], by
              simp only [glyphOrder_updateGlyphOrder]; rfl⟩
        · exact triv
      · exact triv
  | rename L old new =>
    simp only [step, rename]
    split
    · exact triv
    · split
      · split
        · exact triv
        · split
          · unfold glyphRenamedCb
            split
            · exact ⟨some new, none, by simp [Op.touched], by simp, by
                simp only [glyphOrder_updateGlyphOrder]; rfl⟩
            · exact ⟨some new, some old, by simp [Op.touched], by simp [Op.touched], by
                simp only [glyphOrder_updateGlyphOrder]; rfl⟩
          · exact triv
      · exact triv

/-! ## Invariants of every operation -/

theorem wf_step {f : Font} (hw : WF f) (op : Op) : WF (step f op).1 := by
  cases op with
  | setOrder v => exact WF.congr (by simp [step]) hw
  | setLib v =>
    simp only [step, setLib]
    split
    · exact WF.congr (f := f) rfl hw
    · split
      · exact WF.congr (f := f) rfl hw
      · exact hw
  | newLayer n =>
    simp only [step, newLayer]
    split
    · exact hw
    · exact wf_setLayer hw _ _ rfl
  | delLayer n =>
    simp only [step, delLayer]
    split
    · refine ⟨AL.nodup_keys_erase _ _ hw.names, ?_⟩
      intro kl hkl
      exact hw.observed kl (AL.mem_erase hkl)
    · exact hw
  | newGlyph L g =>
    cases hget : AL.get? f.layers L with
    | none => simp only [step, newGlyph, hget]; exact hw
    | some l =>
      have ho := observed_of_get? hw hget
      exact WF.congr (newGlyph_spec hw hget g).2.1 (wf_setLayer hw _ _ ho)
  | insertGlyph L g =>
    cases hget : AL.get? f.layers L with
    | none => simp only [step, insertGlyph, newGlyph, hget]; exact hw
    | some l =>
      have ho := observed_of_get? hw hget
      exact WF.congr (newGlyph_spec hw hget g).2.1 (wf_setLayer hw _ _ ho)
  | delGlyph L g =>
    cases hget : AL.get? f.layers L with
    | none => simp only [step, delGlyph, hget]; exact hw
    | some l =>
      have ho := observed_of_get? hw hget
      by_cases hm : g ∈ l.glyphs
      · exact WF.congr (delGlyph_spec hw hget hm).2.1 (wf_setLayer hw _ _ ho)
      · simp only [step, delGlyph, hget, hm, if_false]; exact hw
  | rename L old new =>
    cases hget : AL.get? f.layers L with
    | none => simp only [step, rename, hget]; exact hw
    | some l =>
      have ho := observed_of_get? hw hget
      by_cases hm : old ∈ l.glyphs
      · by_cases hne : old = new
        · subst hne; simp only [step, rename, hget, hm, if_true]; exact hw
        · exact WF.congr (rename_spec hw hget hm hne).2.1 (wf_setLayer hw _ _ ho)
      · simp only [step, rename, hget, hm, if_false]; exact hw

theorem libNormal_step {f : Font} (hl : LibNormal f) (op : Op) (hop : op ≠ .setLib (some [])) :
    LibNormal (step f op).1 := by
  have keep : ∀ f' : Font, f'.lib = f.lib → LibNormal f' := fun f' e => by
    unfold LibNormal; rw [e]; exact hl
  cases op with
  | setOrder v =>
    simp only [step]
    unfold LibNormal at hl ⊢
    rw [lib_setGlyphOrder]
    split
    · rename_i e; rw [← e]; exact hl
    · split
      · simp
      · rename_i h1 h2
        intro e; rw [e] at h2; simp at h2
  | setLib v =>
    simp only [step, setLib]
    split
    · rename_i x
      unfold LibNormal; simp only
      intro e
      apply hop
      simp at e
      rw [e]
    · split
      · unfold LibNormal; simp
      · exact hl
  | newLayer n =>
    simp only [step, newLayer]
    split
    · exact hl
    · exact keep _ rfl
  | delLayer n =>
    simp only [step, delLayer]
    split
    · exact keep _ rfl
    · exact hl
  | newGlyph L g =>
    simp only [step, newGlyph]
    split
    · exact hl
    · split
      · exact libNormal_updateGlyphOrder _ _ _ (keep _ rfl)
      · exact keep _ rfl
  | insertGlyph L g =>
    simp only [step, insertGlyph, newGlyph]
    split
    · exact hl
    · split
      · exact libNormal_updateGlyphOrder _ _ _ (keep _ rfl)
      · exact keep _ rfl
  | delGlyph L g =>
    simp only [step, delGlyph]
    split
    · exact hl
    · split
      · split
        · unfold glyphDeletedCb
          split
          · exact keep _ rfl
          · exact libNormal_updateGlyphOrder _ _ _ (keep _ rfl)
        · exact keep _ rfl
      · exact hl
  | rename L old new =>
    simp only [step, rename]
    split
    · exact hl
    · split
      · split
        · exact hl
        · split
          · exact libNormal_updateGlyphOrder _ _ _ (keep _ rfl)
          · exact keep _ rfl
      · exact hl

/-! ## Missing names never appear, stale names never appear -/

theorem exists_newLayer {f : Font} {name : String} (hc : AL.contains f.layers name = false) (n : Name) :
    Exists (setLayer f name { glyphs := [], observed := true }) n ↔ Exists f n := by
  have hnone : AL.get? f.layers name = none := by
    unfold AL.contains at hc
    cases h : AL.get? f.layers name with
    | none => rfl
    | some x => simp [h] at hc
  rw [exists_setLayer]
  constructor
  · rintro (h | h)
    · exact exists_of_elsewhere h
    · simp at h
  · rintro ⟨L2, l2, h2, hm⟩
    refine Or.inl ⟨L2, l2, ?_, h2, hm⟩
    intro e; subst e; rw [hnone] at h2; cases h2

theorem exists_of_exists_erase {f : Font} (hn : (AL.keys f.layers).Nodup) {name : String} {n : Name}
    (h : Exists { f with layers := AL.erase f.layers name } n) : Exists f n := by
  obtain ⟨L2, l2, h2, hm⟩ := h
  simp only at h2
  by_cases e : name = L2
  · subst e
    rw [AL.get?_erase_self_of_nodup _ _ hn] at h2; cases h2
  · rw [AL.get?_erase_ne _ _ _ e] at h2
    exact ⟨L2, l2, h2, hm⟩

/-- No operation through which the font updates the order makes a name *missing*: a glyph name
that exists afterwards and is not in the order existed before and was not in the order before. -/
theorem missing_step {f : Font} (hw : WF f) (op : Op) (hu : op.isUpdate = true) (n : Name)
    (hex : Exists (step f op).1 n) (hno : n ∉ glyphOrder (step f op).1) :
    Exists f n ∧ n ∉ glyphOrder f := by
  have create : ∀ (L : String) (g : Name), Exists (newGlyph f L g).1 n →
      n ∉ glyphOrder (newGlyph f L g).1 → Exists f n ∧ n ∉ glyphOrder f := by
    intro L g hex hno
    cases hget : AL.get? f.layers L with
    | none => simp only [newGlyph, hget] at hex hno; exact ⟨hex, hno⟩
    | some l =>
      obtain ⟨_, hl, ho⟩ := newGlyph_spec hw hget g
      rw [ho] at hno
      unfold specCreate at hno
      rw [mem_appendIfAbsent, not_or] at hno
      rw [exists_congr hl, exists_setLayer] at hex
      refine ⟨?_, hno.1⟩
      rcases hex with h | h
      · exact exists_of_elsewhere h
      · simp only [mem_addName] at h
        rcases h with h | h
        · exact ⟨L, l, hget, h⟩
        · exact absurd h hno.2
  cases op with
  | setOrder v => simp [Op.isUpdate] at hu
  | setLib v => simp [Op.isUpdate] at hu
  | newLayer name =>
    simp only [step, newLayer] at hex hno
    split at hex
    · simp only [*] at hno; exact ⟨hex, by simpa using hno⟩
    · rename_i hc
      simp only [hc] at hno
      exact ⟨(exists_newLayer (by simpa using hc) n).mp hex, hno⟩
  | delLayer name =>
    simp only [step, delLayer] at hex hno
    split at hex
    · rename_i hc
      simp only [hc] at hno
      exact ⟨exists_of_exists_erase hw.names hex, hno⟩
    · rename_i hc
      simp only [hc] at hno
      exact ⟨hex, hno⟩
  | newGlyph L g => exact create L g hex hno
  | insertGlyph L g => exact create L g hex hno
  | delGlyph L g =>
    simp only [step] at hex hno
    cases hget : AL.get? f.layers L with
    | none => simp only [delGlyph, hget] at hex hno; exact ⟨hex, hno⟩
    | some l =>
      by_cases hm : g ∈ l.glyphs
      · obtain ⟨_, hl, b, hb, ho⟩ := delGlyph_spec hw hget hm
        rw [ho] at hno
        rw [exists_congr hl, exists_setLayer] at hex
        simp only [mem_removeName] at hex
        have hexf : Exists f n := by
          rcases hex with h | h
          · exact exists_of_elsewhere h
          · exact ⟨L, l, hget, h.1⟩
        refine ⟨hexf, ?_⟩
        unfold specDelete at hno
        cases b with
        | true => simpa using hno
        | false =>
          simp only [Bool.false_eq_true, if_false] at hno
          have hne : n ≠ g := by
            intro e; subst e
            rcases hex with h | h
            · exact absurd (hb.mpr h) (by simp)
            · exact h.2 rfl
          rwa [mem_eraseFirst_of_ne hne] at hno
      · simp only [delGlyph, hget, hm, if_false] at hex hno; exact ⟨hex, hno⟩
  | rename L old new =>
    simp only [step] at hex hno
    cases hget : AL.get? f.layers L with
    | none => simp only [rename, hget] at hex hno; exact ⟨hex, hno⟩
    | some l =>
      by_cases hm : old ∈ l.glyphs
      · by_cases hne : old = new
        · subst hne; simp only [rename, hget, hm, if_true] at hex hno; exact ⟨hex, hno⟩
        · obtain ⟨_, hl, b, hb, ho⟩ := rename_spec hw hget hm hne
          rw [ho] at hno
          rw [exists_congr hl, exists_setLayer] at hex
          simp only [mem_addName, mem_removeName] at hex
          have hn_new : n ≠ new := by
            intro e; subst e; exact hno (mem_specRename_new _ hne b)
          have hexf : Exists f n := by
            rcases hex with h | h | h
            · exact exists_of_elsewhere h
            · exact ⟨L, l, hget, h.1⟩
            · exact absurd h hn_new
          refine ⟨hexf, ?_⟩
          cases b with
          | true =>
            unfold specRename at hno
            simp only [if_true] at hno
            rw [mem_appendIfAbsent, not_or] at hno
            exact hno.1
          | false =>
            have hn_old : n ≠ old := by
              intro e; subst e
              rcases hex with h | h | h
              · exact absurd (hb.mpr h) (by simp)
              · exact h.2 rfl
              · exact hne h
            rwa [mem_specRename_of_ne _ hn_old hn_new] at hno
      · simp only [rename, hget, hm, if_false] at hex hno; exact ⟨hex, hno⟩

/-- No glyph-set operation makes a name *stale* when the order has no duplicates: a name that is
in the order afterwards although no layer has such a glyph was already in that situation before. -/
theorem stale_step {f : Font} (hw : WF f) (hnd : (glyphOrder f).Nodup) (op : Op)
    (hg : op.isGlyphOp = true) (n : Name)
    (hin : n ∈ glyphOrder (step f op).1) (hnex : ¬ Exists (step f op).1 n) :
    n ∈ glyphOrder f ∧ ¬ Exists f n := by
  have hcount : ∀ x, (glyphOrder f).count x ≤ 1 := List.nodup_iff_count.mp hnd
  have create : ∀ (L : String) (g : Name), n ∈ glyphOrder (newGlyph f L g).1 →
      ¬ Exists (newGlyph f L g).1 n → n ∈ glyphOrder f ∧ ¬ Exists f n := by
    intro L g hin hnex
    cases hget : AL.get? f.layers L with
    | none => simp only [newGlyph, hget] at hin hnex; exact ⟨hin, hnex⟩
    | some l =>
      obtain ⟨_, hl, ho⟩ := newGlyph_spec hw hget g
      rw [ho] at hin
      unfold specCreate at hin
      rw [mem_appendIfAbsent] at hin
      rw [exists_congr hl, exists_setLayer] at hnex
      simp only [mem_addName, not_or] at hnex
      refine ⟨?_, ?_⟩
      · rcases hin with h | h
        · exact h
        · exact absurd h hnex.2.2
      · intro hex
        rcases (exists_split hget n).mp hex with h | h
        · exact hnex.1 h
        · exact hnex.2.1 h
  cases op with
  | setOrder v => simp [Op.isGlyphOp] at hg
  | setLib v => simp [Op.isGlyphOp] at hg
  | newLayer name => simp [Op.isGlyphOp] at hg
  | delLayer name => simp [Op.isGlyphOp] at hg
  | newGlyph L g => exact create L g hin hnex
  | insertGlyph L g => exact create L g hin hnex
  | delGlyph L g =>
    simp only [step] at hin hnex
    cases hget : AL.get? f.layers L with
    | none => simp only [delGlyph, hget] at hin hnex; exact ⟨hin, hnex⟩
    | some l =>
      by_cases hm : g ∈ l.glyphs
      · obtain ⟨_, hl, b, hb, ho⟩ := delGlyph_spec hw hget hm
        rw [ho] at hin
        rw [exists_congr hl, exists_setLayer] at hnex
        simp only [mem_removeName, not_or, not_and, Decidable.not_not] at hnex
        unfold specDelete at hin
        cases b with
        | true =>
          simp only [if_true] at hin
          refine ⟨hin, ?_⟩
          intro hex
          rcases (exists_split hget n).mp hex with h | h
          · exact hnex.1 h
          · have e := hnex.2 h
            subst e
            exact hnex.1 (hb.mp rfl)
        | false =>
          simp only [Bool.false_eq_true, if_false] at hin
          have hne : n ≠ g := by
            intro e; subst e; exact not_mem_eraseFirst_self (hcount n) hin
          refine ⟨mem_of_mem_eraseFirst hin, ?_⟩
          intro hex
          rcases (exists_split hget n).mp hex with h | h
          · exact hnex.1 h
          · exact hne (hnex.2 h)
      · simp only [delGlyph, hget, hm, if_false] at hin hnex; exact ⟨hin, hnex⟩
  | rename L old new =>
    simp only [step] at hin hnex
    cases hget : AL.get? f.layers L with
    | none => simp only [rename, hget] at hin hnex; exact ⟨hin, hnex⟩
    | some l =>
      by_cases hm : old ∈ l.glyphs
      · by_cases hne : old = new
        · subst hne; simp only [rename, hget, hm, if_true] at hin hnex; exact ⟨hin, hnex⟩
        · obtain ⟨_, hl, b, hb, ho⟩ := rename_spec hw hget hm hne
          rw [ho] at hin
          rw [exists_congr hl, exists_setLayer] at hnex
          simp only [mem_addName, mem_removeName, not_or, not_and, Decidable.not_not] at hnex
          have hn_new : n ≠ new := hnex.2.2
          cases b with
          | true =>
            unfold specRename at hin
            simp only [if_true] at hin
            rw [mem_appendIfAbsent] at hin
            refine ⟨hin.resolve_right hn_new, ?_⟩
            intro hex
            rcases (exists_split hget n).mp hex with h | h
            · exact hnex.1 h
            · have e := hnex.2.1 h
              subst e
              exact hnex.1 (hb.mp rfl)
          | false =>
            have hn_old : n ≠ old := by
              intro e; subst e; exact not_mem_specRename_old hne (hcount n) hin
            rw [mem_specRename_of_ne _ hn_old hn_new] at hin
            refine ⟨hin, ?_⟩
            intro hex
            rcases (exists_split hget n).mp hex with h | h
            · exact hnex.1 h
            · exact hn_old (hnex.2.1 h)
      · simp only [rename, hget, hm, if_false] at hin hnex; exact ⟨hin, hnex⟩

/-! ## Runs -/

theorem run_append (f : Font) (ops1 ops2 : List Op) : run f (ops1 ++ ops2) = run (run f ops1) ops2 := by
  induction ops1 generalizing f with
  | nil => rfl
  | cons op r ih => simp [run, ih]

/-- an invariant of single steps (for a class of operations) is an invariant of runs -/
theorem run_preserves (P : Font → Prop) (ok : Op → Prop)
    (hstep : ∀ f op, ok op → P f → P (step f op).1) (f : Font) (ops : List Op)
    (hops : ∀ op ∈ ops, ok op) (h : P f) : P (run f ops) := by
  induction ops generalizing f with
  | nil => exact h
  | cons op r ih =>
    simp only [run]
    exact ih _ (fun o ho => hops o (List.mem_cons_of_mem _ ho))
      (hstep f op (hops op (List.mem_cons_self ..)) h)

theorem wf_run {f : Font} (hw : WF f) (ops : List Op) : WF (run f ops) :=
  run_preserves WF (fun _ => True) (fun _ op _ h => wf_step h op) f ops (fun _ _ => trivial) hw

end GlyphOrder
end DefconModel
