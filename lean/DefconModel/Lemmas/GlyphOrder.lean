/-
Helper lemmas for C12 (M-GlyphOrder).
-/
import DefconModel.Spec.GlyphOrder
import Mathlib.Data.List.Perm.Subperm

namespace DefconModel
namespace GlyphOrder

/-! ## Python primitives -/

theorem mem_addName {l : List Name} {n x : Name} : x ∈ addName l n ↔ x ∈ l ∨ x = n := by
  unfold addName
  by_cases h : n ∈ l
  · simp [h]; intro e; subst e; exact h
  · simp [h]

theorem mem_removeName {l : List Name} {n x : Name} : x ∈ removeName l n ↔ x ∈ l ∧ x ≠ n := by
  induction l with
  | nil => simp [removeName]
  | cons y r ih =>
    by_cases h : y = n
    · subst h
      simp only [removeName, if_true, ih, List.mem_cons]
      constructor
      · rintro ⟨h1, h2⟩; exact ⟨Or.inr h1, h2⟩
      · rintro ⟨h1 | h1, h2⟩
        · exact absurd h1 h2
        · exact ⟨h1, h2⟩
    · simp only [removeName, h, if_false, List.mem_cons, ih]
      constructor
      · rintro (h1 | ⟨h1, h2⟩)
        · subst h1; exact ⟨Or.inl rfl, h⟩
        · exact ⟨Or.inr h1, h2⟩
      · rintro ⟨h1 | h1, h2⟩
        · exact Or.inl h1
        · exact Or.inr ⟨h1, h2⟩

theorem indexOf?_eq_none {o : List Name} {n : Name} : indexOf? o n = none ↔ n ∉ o := by
  induction o with
  | nil => simp [indexOf?]
  | cons x r ih =>
    by_cases h : x = n
    · subst h; simp [indexOf?]
    · have h' : ¬ n = x := fun e => h e.symm
      simp only [indexOf?, h, if_false, List.mem_cons, h', false_or]
      rw [← ih]
      cases indexOf? r n <;> simp

theorem indexOf?_isSome {o : List Name} {n : Name} : (indexOf? o n).isSome = true ↔ n ∈ o := by
  by_cases h : n ∈ o
  · simp only [h, iff_true]
    cases hh : indexOf? o n with
    | none => exact absurd h (indexOf?_eq_none.mp hh)
    | some i => rfl
  · simp [h, indexOf?_eq_none.mpr h]

/-- `order[index] = a` at `index = order.index(r)` puts `a` where the first `r` stands -/
theorem set_indexOf {o : List Name} {r a : Name} {i : Nat} (h : indexOf? o r = some i) :
    o.set i a = replaceFirst o r a := by
  induction o generalizing i with
  | nil => simp [indexOf?] at h
  | cons x t ih =>
    by_cases hx : x = r
    · subst hx
      simp [indexOf?] at h
      subst h
      simp [replaceFirst]
    · simp only [indexOf?, hx, if_false] at h
      cases hh : indexOf? t r with
      | none => simp [hh] at h
      | some j =>
        simp [hh] at h
        subst h
        simp [replaceFirst, hx, ih hh]

/-- `del order[index]` at `index = order.index(r)` drops the first `r` -/
theorem eraseIdx_indexOf {o : List Name} {r : Name} {i : Nat} (h : indexOf? o r = some i) :
    o.eraseIdx i = eraseFirst o r := by
  induction o generalizing i with
  | nil => simp [indexOf?] at h
  | cons x t ih =>
    by_cases hx : x = r
    · subst hx
      simp [indexOf?] at h
      subst h
      simp [eraseFirst]
    · simp only [indexOf?, hx, if_false] at h
      cases hh : indexOf? t r with
      | none => simp [hh] at h
      | some j =>
        simp [hh] at h
        subst h
        simp [eraseFirst, hx, ih hh]

theorem indexOf?_lt {o : List Name} {r : Name} {i : Nat} (h : indexOf? o r = some i) :
    i < o.length ∧ o[i]? = some r ∧ ∀ j, j < i → o[j]? ≠ some r := by
  induction o generalizing i with
  | nil => simp [indexOf?] at h
  | cons x t ih =>
    by_cases hx : x = r
    · subst hx
      simp [indexOf?] at h
      subst h
      simp
    · simp only [indexOf?, hx, if_false] at h
      cases hh : indexOf? t r with
      | none => simp [hh] at h
      | some j =>
        simp [hh] at h
        subst h
        obtain ⟨h1, h2, h3⟩ := ih hh
        refine ⟨by simp; omega, by simpa using h2, ?_⟩
        intro k hk
        cases k with
        | zero => simp [hx]
        | succ k => simpa using h3 k (by omega)

/-! ## Spec edits -/

theorem eraseFirst_of_not_mem {o : List Name} {n : Name} (h : n ∉ o) : eraseFirst o n = o := by
  induction o with
  | nil => rfl
  | cons x r ih =>
    simp only [List.mem_cons, not_or] at h
    have hx : ¬ x = n := fun e => h.1 e.symm
    simp [eraseFirst, hx, ih h.2]

theorem eraseFirst_eq_erase (o : List Name) (n : Name) : eraseFirst o n = o.erase n := by
  induction o with
  | nil => rfl
  | cons x r ih =>
    by_cases hx : x = n
    · subst hx; simp [eraseFirst]
    · simp [eraseFirst, hx, ih]

theorem mem_appendIfAbsent {o : List Name} {a x : Name} :
    x ∈ appendIfAbsent o a ↔ x ∈ o ∨ x = a := by
  unfold appendIfAbsent
  by_cases h : a ∈ o
  · simp [h]; intro e; subst e; exact h
  · simp [h]

theorem mem_eraseFirst_of_ne {o : List Name} {r x : Name} (h : x ≠ r) :
    x ∈ eraseFirst o r ↔ x ∈ o := by
  induction o with
  | nil => simp [eraseFirst]
  | cons y t ih =>
    by_cases hy : y = r
    · subst hy
      simp [eraseFirst, h]
    · simp [eraseFirst, hy, ih]

theorem mem_of_mem_eraseFirst {o : List Name} {r x : Name} (h : x ∈ eraseFirst o r) : x ∈ o := by
  induction o with
  | nil => simp [eraseFirst] at h
  | cons y t ih =>
    by_cases hy : y = r
    · simp [eraseFirst, hy] at h; exact List.mem_cons_of_mem _ h
    · simp [eraseFirst, hy] at h
      rcases h with h | h
      · simp [h]
      · exact List.mem_cons_of_mem _ (ih h)

theorem mem_replaceFirst_of_ne {o : List Name} {r a x : Name} (h1 : x ≠ r) (h2 : x ≠ a) :
    x ∈ replaceFirst o r a ↔ x ∈ o := by
  induction o with
  | nil => simp [replaceFirst]
  | cons y t ih =>
    by_cases hy : y = r
    · subst hy
      simp [replaceFirst, h1, h2]
    · simp [replaceFirst, hy, ih]

theorem mem_replaceFirst_new {o : List Name} {r a : Name} (h : r ∈ o) : a ∈ replaceFirst o r a := by
  induction o with
  | nil => simp at h
  | cons y t ih =>
    by_cases hy : y = r
    · simp [replaceFirst, hy]
    · have : r ∈ t := by
        simp only [List.mem_cons] at h
        rcases h with h | h
        · exact absurd h.symm hy
        · exact h
      simp [replaceFirst, hy, ih this]

theorem length_replaceFirst (o : List Name) (r a : Name) : (replaceFirst o r a).length = o.length := by
  induction o with
  | nil => rfl
  | cons y t ih =>
    by_cases hy : y = r <;> simp [replaceFirst, hy, ih]

/-! ### counting -/

theorem count_eraseFirst_le (o : List Name) (r n : Name) :
    (eraseFirst o r).count n ≤ o.count n := by
  rw [eraseFirst_eq_erase, List.count_erase]; omega

theorem count_eraseFirst_self (o : List Name) (r : Name) :
    (eraseFirst o r).count r = o.count r - 1 := by
  rw [eraseFirst_eq_erase, List.count_erase]; simp

theorem count_eraseFirst_ne (o : List Name) {r n : Name} (h : r ≠ n) :
    (eraseFirst o r).count n = o.count n := by
  rw [eraseFirst_eq_erase, List.count_erase]; simp [h]

theorem count_appendIfAbsent_le (o : List Name) (a n : Name) :
    (appendIfAbsent o a).count n ≤ max 1 (o.count n) := by
  unfold appendIfAbsent
  by_cases h : a ∈ o
  · simp [h]; omega
  · simp only [h, if_false, List.count_append, List.count_cons, List.count_nil]
    by_cases e : a = n
    · subst e
      have : o.count a = 0 := List.count_eq_zero.mpr h
      simp [this]
    · simp [e]; omega

theorem count_replaceFirst_ne (o : List Name) (r a : Name) {n : Name} (h : n ≠ a) :
    (replaceFirst o r a).count n ≤ o.count n := by
  induction o with
  | nil => simp [replaceFirst]
  | cons y t ih =>
    have ha : ¬ a = n := fun e => h e.symm
    by_cases hy : y = r
    · simp only [replaceFirst, hy, if_true, List.count_cons, beq_iff_eq, ha, if_false]
      omega
    · simp only [replaceFirst, hy, if_false, List.count_cons]
      omega

theorem count_replaceFirst_new (o : List Name) (r a : Name) (h : a ∉ o) :
    (replaceFirst o r a).count a ≤ 1 := by
  induction o with
  | nil => simp [replaceFirst]
  | cons y t ih =>
    simp only [List.mem_cons, not_or] at h
    have hy' : ¬ y = a := fun e => h.1 e.symm
    by_cases hy : y = r
    · have : t.count a = 0 := List.count_eq_zero.mpr h.2
      simp [replaceFirst, hy, this]
    · simp only [replaceFirst, hy, if_false, List.count_cons, beq_iff_eq, hy']
      have := ih h.2
      omega

theorem count_replaceFirst_old (o : List Name) {r a : Name} (h : r ≠ a) :
    (replaceFirst o r a).count r = o.count r - 1 := by
  induction o with
  | nil => simp [replaceFirst]
  | cons y t ih =>
    have ha : ¬ a = r := fun e => h e.symm
    by_cases hy : y = r
    · simp [replaceFirst, hy, ha]
    · simp only [replaceFirst, hy, if_false, List.count_cons, beq_iff_eq]
      simpa using ih

theorem count_replaceFirst_le (o : List Name) (r a n : Name) (h : a ∉ o) :
    (replaceFirst o r a).count n ≤ max 1 (o.count n) := by
  by_cases e : n = a
  · subst e
    have := count_replaceFirst_new o r n h
    omega
  · have := count_replaceFirst_ne o r a e
    omega

theorem count_specUpdate_le (o : List Name) (a r : Option Name) (n : Name) :
    (specUpdate o a r).count n ≤ max 1 (o.count n) := by
  cases a with
  | none =>
    cases r with
    | none => simp [specUpdate]; omega
    | some r =>
      have := count_eraseFirst_le o r n
      simp only [specUpdate]; omega
  | some a =>
    cases r with
    | none => exact count_appendIfAbsent_le o a n
    | some r =>
      simp only [specUpdate]
      split
      · split
        · omega
        · split
          · have := count_eraseFirst_le o r n; omega
          · rename_i h; exact count_replaceFirst_le o r a n h
      · exact count_appendIfAbsent_le o a n

/-! ### filtering out the touched names -/

theorem filter_appendIfAbsent (p : Name → Bool) (o : List Name) {a : Name} (h : p a = false) :
    (appendIfAbsent o a).filter p = o.filter p := by
  unfold appendIfAbsent
  by_cases ha : a ∈ o
  · simp [ha]
  · simp [ha, List.filter_append, h]

theorem filter_eraseFirst (p : Name → Bool) (o : List Name) {r : Name} (h : p r = false) :
    (eraseFirst o r).filter p = o.filter p := by
  induction o with
  | nil => rfl
  | cons y t ih =>
    by_cases hy : y = r
    · subst hy; simp [eraseFirst, h]
    · simp [eraseFirst, hy, List.filter_cons, ih]

theorem filter_replaceFirst (p : Name → Bool) (o : List Name) {r a : Name} (h1 : p r = false)
    (h2 : p a = false) : (replaceFirst o r a).filter p = o.filter p := by
  induction o with
  | nil => rfl
  | cons y t ih =>
    by_cases hy : y = r
    · subst hy; simp [replaceFirst, h1, h2]
    · simp [replaceFirst, hy, List.filter_cons, ih]

theorem filter_specUpdate (p : Name → Bool) (o : List Name) (a r : Option Name)
    (ha : ∀ x, a = some x → p x = false) (hr : ∀ x, r = some x → p x = false) :
    (specUpdate o a r).filter p = o.filter p := by
  cases a with
  | none =>
    cases r with
    | none => rfl
    | some r => exact filter_eraseFirst p o (hr r rfl)
  | some a =>
    cases r with
    | none => exact filter_appendIfAbsent p o (ha a rfl)
    | some r =>
      simp only [specUpdate]
      split
      · split
        · rfl
        · split
          · exact filter_eraseFirst p o (hr r rfl)
          · exact filter_replaceFirst p o (hr r rfl) (ha a rfl)
      · exact filter_appendIfAbsent p o (ha a rfl)

/-! ## `glyphOrder` / `updateGlyphOrder` refine the index-free specification -/

@[simp] theorem layers_setGlyphOrder (f : Font) (v : Option (List Name)) :
    (setGlyphOrder f v).layers = f.layers := by
  unfold setGlyphOrder
  split
  · rfl
  · split <;> rfl

theorem glyphOrder_setGlyphOrder (f : Font) (v : Option (List Name)) :
    glyphOrder (setGlyphOrder f v) = v.getD [] := by
  unfold setGlyphOrder glyphOrder
  split
  · rename_i h; rw [h]
  · split
    · rename_i h; simp [h]
    · rfl

/-- what ends up under the lib key: nothing for an empty order (unless an empty list was already
there and nothing changes), else the list -/
theorem lib_setGlyphOrder (f : Font) (v : Option (List Name)) :
    (setGlyphOrder f v).lib = if f.lib = v then v else if v.getD [] = [] then none else v := by
  unfold setGlyphOrder
  split
  · rename_i h; simp [h]
  · split <;> rfl

@[simp] theorem layers_updateGlyphOrder (f : Font) (a r : Option Name) :
    (updateGlyphOrder f a r).layers = f.layers := by
  unfold updateGlyphOrder
  simp only
  split
  · rfl
  · simp

theorem glyphOrder_updateGlyphOrder (f : Font) (a r : Option Name) :
    glyphOrder (updateGlyphOrder f a r) = specUpdate (glyphOrder f) a r := by
  unfold updateGlyphOrder
  simp only
  cases r with
  | none =>
    cases a with
    | none => simp [findIndex, earlyReturn, addStep, delStep, glyphOrder_setGlyphOrder, specUpdate]
    | some a =>
      by_cases ha : a ∈ glyphOrder f <;>
        simp [findIndex, earlyReturn, addStep, delStep, glyphOrder_setGlyphOrder, specUpdate,
          appendIfAbsent, ha]
  | some r =>
    cases hi : indexOf? (glyphOrder f) r with
    | none =>
      have hr : r ∉ glyphOrder f := indexOf?_eq_none.mp hi
      cases a with
      | none =>
        simp [findIndex, hi, earlyReturn, addStep, delStep, glyphOrder_setGlyphOrder, specUpdate,
          eraseFirst_of_not_mem hr]
      | some a =>
        by_cases ha : a ∈ glyphOrder f <;>
          simp [findIndex, hi, earlyReturn, addStep, delStep, glyphOrder_setGlyphOrder, specUpdate,
            appendIfAbsent, ha, hr]
    | some i =>
      have hr : r ∈ glyphOrder f := by
        have : (indexOf? (glyphOrder f) r).isSome = true := by simp [hi]
        exact indexOf?_isSome.mp this
      cases a with
      | none =>
        simp [findIndex, hi, earlyReturn, addStep, delStep, glyphOrder_setGlyphOrder, specUpdate,
          eraseIdx_indexOf hi]
      | some a =>
        by_cases hra : r = a
        · subst hra
          simp [findIndex, hi, earlyReturn, specUpdate, hr]
        · have hra' : ¬ a = r := fun e => hra e.symm
          by_cases ha : a ∈ glyphOrder f
          · simp [findIndex, hi, earlyReturn, addStep, delStep, glyphOrder_setGlyphOrder,
              specUpdate, hr, hra, ha, eraseIdx_indexOf hi]
          · simp [findIndex, hi, earlyReturn, addStep, delStep, glyphOrder_setGlyphOrder,
              specUpdate, hr, hra, ha, set_indexOf hi]

/-- the lib after an update: the key is written with the new order, deleted when that is empty;
nothing is written when nothing changes -/
theorem lib_updateGlyphOrder (f : Font) (a r : Option Name) :
    (updateGlyphOrder f a r).lib = f.lib ∨
    (updateGlyphOrder f a r).lib =
      (if specUpdate (glyphOrder f) a r = [] then none else some (specUpdate (glyphOrder f) a r)) := by
  have hspec := glyphOrder_updateGlyphOrder f a r
  unfold updateGlyphOrder at hspec ⊢
  simp only at hspec ⊢
  split
  · exact Or.inl rfl
  · rename_i he
    rw [if_neg he, glyphOrder_setGlyphOrder] at hspec
    simp only [Option.getD_some] at hspec
    rw [lib_setGlyphOrder, hspec]
    split
    · rename_i h; exact Or.inl h.symm
    · exact Or.inr (by simp)

theorem libNormal_updateGlyphOrder (f : Font) (a r : Option Name) (h : LibNormal f) :
    LibNormal (updateGlyphOrder f a r) := by
  unfold LibNormal at h ⊢
  rcases lib_updateGlyphOrder f a r with e | e
  · rw [e]; exact h
  · rw [e]; split
    · simp
    · rename_i hne; simpa using hne

/-! ## The callbacks change the lib and nothing else -/

theorem setGlyphOrder_eq (f : Font) (v : Option (List Name)) :
    setGlyphOrder f v = { f with lib := (setGlyphOrder f v).lib } := by
  unfold setGlyphOrder
  split
  · rfl
  · split <;> rfl

theorem updateGlyphOrder_eq (f : Font) (a r : Option Name) :
    updateGlyphOrder f a r = { f with lib := (updateGlyphOrder f a r).lib } := by
  unfold updateGlyphOrder
  simp only
  split
  · rfl
  · exact setGlyphOrder_eq _ _

theorem deliver_eq (f : Font) (note : Note) : deliver f note = { f with lib := (deliver f note).lib } := by
  cases note with
  | added n => exact updateGlyphOrder_eq f (some n) none
  | deleted n =>
    simp only [deliver, glyphDeletedCb]
    split
    · rfl
    · exact updateGlyphOrder_eq f none (some n)
  | renamed o n => exact updateGlyphOrder_eq f (some n) _

@[simp] theorem layers_deliver (f : Font) (note : Note) : (deliver f note).layers = f.layers := by
  rw [deliver_eq]

@[simp] theorem default_deliver (f : Font) (note : Note) : (deliver f note).default = f.default := by
  rw [deliver_eq]

@[simp] theorem ghost_deliver (f : Font) (note : Note) : (deliver f note).ghost = f.ghost := by
  rw [deliver_eq]

@[simp] theorem fontHeld_deliver (f : Font) (note : Note) : (deliver f note).fontHeld = f.fontHeld := by
  rw [deliver_eq]

/-- the font's callback for a notification = one `updateGlyphOrder` (or none), with "does any layer
still have the name" evaluated on the font as it is when the callback runs -/
theorem glyphOrder_deliver (f : Font) (note : Note) :
    glyphOrder (deliver f note) = specDeliver (anyLayerHas f) (glyphOrder f) note := by
  cases note with
  | added n => simp [deliver, glyphAddedCb, glyphOrder_updateGlyphOrder, specDeliver, deliverArgs]
  | deleted n =>
    simp only [deliver, glyphDeletedCb, specDeliver, deliverArgs]
    split
    · simp [specUpdate]
    · simp [glyphOrder_updateGlyphOrder]
  | renamed o n =>
    simp only [deliver, glyphRenamedCb, glyphOrder_updateGlyphOrder, specDeliver, deliverArgs]

theorem lib_deliver (f : Font) (note : Note) :
    (deliver f note).lib = f.lib ∨
    (deliver f note).lib =
      (if specDeliver (anyLayerHas f) (glyphOrder f) note = [] then none
       else some (specDeliver (anyLayerHas f) (glyphOrder f) note)) := by
  cases note with
  | added n => exact lib_updateGlyphOrder f (some n) none
  | deleted n =>
    simp only [deliver, glyphDeletedCb, specDeliver, deliverArgs]
    split
    · exact Or.inl rfl
    · exact lib_updateGlyphOrder f none (some n)
  | renamed o n => exact lib_updateGlyphOrder f (some n) _

theorem libNormal_deliver (f : Font) (note : Note) (h : LibNormal f) : LibNormal (deliver f note) := by
  unfold LibNormal at h ⊢
  rcases lib_deliver f note with e | e
  · rw [e]; exact h
  · rw [e]; split
    · simp
    · rename_i hne; simpa using hne

/-- the names `updateGlyphOrder` is called with are names of the notification -/
theorem deliverArgs_names (ex : Name → Bool) (note : Note) :
    (∀ x, (deliverArgs ex note).1 = some x → x ∈ note.names) ∧
    (∀ x, (deliverArgs ex note).2 = some x → x ∈ note.names) := by
  cases note with
  | added n => simp [deliverArgs, Note.names]
  | deleted n =>
    simp only [deliverArgs, Note.names]
    split <;> simp
  | renamed o n =>
    simp only [deliverArgs, Note.names]
    split <;> simp

/-! ## Layers: who has a glyph called `n` -/

theorem exists_congr {f f' : Font} (h : f'.layers = f.layers) (n : Name) : Exists f' n ↔ Exists f n := by
  unfold Exists; rw [h]

theorem WF.congr {f f' : Font} (h : f'.layers = f.layers) (hw : WF f) : WF f' :=
  ⟨by rw [h]; exact hw.names, by rw [h]; exact hw.observed⟩

theorem anyLayerHas_congr {f f' : Font} (h : f'.layers = f.layers) : anyLayerHas f' = anyLayerHas f := by
  funext n; unfold anyLayerHas; rw [h]

theorem anyLayerHas_iff {f : Font} (hn : (AL.keys f.layers).Nodup) (n : Name) :
    anyLayerHas f n = true ↔ Exists f n := by
  unfold anyLayerHas Exists
  rw [List.any_eq_true]
  constructor
  · rintro ⟨⟨L, l⟩, hmem, hh⟩
    exact ⟨L, l, AL.get?_of_mem_nodup hn hmem, by simpa [layerHas] using hh⟩
  · rintro ⟨L, l, hget, hh⟩
    exact ⟨(L, l), AL.mem_of_get? hget, by simpa [layerHas] using hh⟩

theorem anyLayerHas_false_iff {f : Font} (hn : (AL.keys f.layers).Nodup) (n : Name) :
    anyLayerHas f n = false ↔ ¬ Exists f n := by
  rw [← anyLayerHas_iff hn]; simp

theorem exists_split {f : Font} {L : String} {l : Layer} (hget : AL.get? f.layers L = some l) (n : Name) :
    Exists f n ↔ ExistsElsewhere f L n ∨ n ∈ l.glyphs := by
  constructor
  · rintro ⟨L2, l2, h2, hm⟩
    by_cases e : L2 = L
    · subst e; rw [hget] at h2; cases h2; exact Or.inr hm
    · exact Or.inl ⟨L2, l2, e, h2, hm⟩
  · rintro (⟨L2, l2, _, h2, hm⟩ | hm)
    · exact ⟨L2, l2, h2, hm⟩
    · exact ⟨L, l, hget, hm⟩

theorem get?_setLayer (f : Font) (L : String) (l' : Layer) (k : String) :
    AL.get? (setLayer f L l').layers k = if L = k then some l' else AL.get? f.layers k := by
  unfold setLayer; simp only; exact AL.get?_set _ _ _ _

theorem existsElsewhere_congr {f f' : Font} (h : f'.layers = f.layers) (L : String) (n : Name) :
    ExistsElsewhere f' L n ↔ ExistsElsewhere f L n := by
  unfold ExistsElsewhere; rw [h]

theorem existsElsewhere_setLayer (f : Font) (L : String) (l' : Layer) (n : Name) :
    ExistsElsewhere (setLayer f L l') L n ↔ ExistsElsewhere f L n := by
  unfold ExistsElsewhere
  constructor
  · rintro ⟨L2, l2, hne, h2, hm⟩
    rw [get?_setLayer, if_neg (fun e => hne e.symm)] at h2
    exact ⟨L2, l2, hne, h2, hm⟩
  · rintro ⟨L2, l2, hne, h2, hm⟩
    refine ⟨L2, l2, hne, ?_, hm⟩
    rw [get?_setLayer, if_neg (fun e => hne e.symm)]; exact h2

theorem exists_setLayer (f : Font) (L : String) (l' : Layer) (n : Name) :
    Exists (setLayer f L l') n ↔ ExistsElsewhere f L n ∨ n ∈ l'.glyphs := by
  have hget : AL.get? (setLayer f L l').layers L = some l' := by rw [get?_setLayer, if_pos rfl]
  rw [exists_split hget, existsElsewhere_setLayer]

/-- replacing a layer by one with the same glyph names changes nobody's existence -/
theorem exists_setLayer_same {f : Font} {L : String} {l l' : Layer}
    (hget : AL.get? f.layers L = some l) (hg : l'.glyphs = l.glyphs) (n : Name) :
    Exists (setLayer f L l') n ↔ Exists f n := by
  rw [exists_setLayer, exists_split hget, hg]

theorem wf_setLayer {f : Font} (hw : WF f) (L : String) (l' : Layer) (ho : l'.observed = true) :
    WF (setLayer f L l') := by
  refine ⟨AL.nodup_keys_set _ _ _ hw.names, ?_⟩
  intro kl hkl
  rcases AL.mem_set hkl with e | e
  · rw [e]; exact ho
  · exact hw.observed kl e

theorem observed_of_get? {f : Font} (hw : WF f) {L : String} {l : Layer}
    (hget : AL.get? f.layers L = some l) : l.observed = true :=
  hw.observed (L, l) (AL.mem_of_get? hget)

theorem exists_of_elsewhere {f : Font} {L : String} {n : Name} (h : ExistsElsewhere f L n) : Exists f n := by
  obtain ⟨L2, l2, _, h2, hm⟩ := h
  exact ⟨L2, l2, h2, hm⟩

/-! ## Posting -/

/-- the three things `postNotification` can do with a layer's notification -/
theorem post_cases (f : Font) (L : String) (note : Note) :
    post f L note = f ∨
    (∃ l, AL.get? f.layers L = some l ∧ l.disabled = 0 ∧ l.held ≠ 0 ∧
      post f L note = setLayer f L { l with queue := enqueue l.queue note }) ∨
    (∃ l, AL.get? f.layers L = some l ∧ l.disabled = 0 ∧ l.held = 0 ∧ l.observed = true ∧
      post f L note = deliver f note) := by
  unfold post
  cases hget : AL.get? f.layers L with
  | none => exact Or.inl rfl
  | some l =>
    simp only
    by_cases hd : l.disabled = 0
    · by_cases hh : l.held = 0
      · by_cases ho : l.observed = true
        · exact Or.inr (Or.inr ⟨l, rfl, hd, hh, ho, by simp [hd, hh, ho]⟩)
        · exact Or.inl (by simp [hd, hh, ho])
      · exact Or.inr (Or.inl ⟨l, rfl, hd, hh, by simp [hd, hh]⟩)
    · exact Or.inl (by simp [hd])

/-- nothing held, nothing disabled, layer observed: the callback runs at once -/
theorem post_calm {f : Font} {L : String} {l : Layer} (hget : AL.get? f.layers L = some l)
    (hh : l.held = 0) (hd : l.disabled = 0) (ho : l.observed = true) (note : Note) :
    post f L note = deliver f note := by
  unfold post; rw [hget]; simp [hh, hd, ho]

/-- held (and not disabled): the notification is queued, unless an equal one is queued already -/
theorem post_held {f : Font} {L : String} {l : Layer} (hget : AL.get? f.layers L = some l)
    (hh : l.held ≠ 0) (hd : l.disabled = 0) (note : Note) :
    post f L note = setLayer f L { l with queue := enqueue l.queue note } := by
  unfold post; rw [hget]; simp [hh, hd]

/-- disabled: the notification is dropped -/
theorem post_disabled {f : Font} {L : String} {l : Layer} (hget : AL.get? f.layers L = some l)
    (hd : l.disabled ≠ 0) (note : Note) : post f L note = f := by
  unfold post; rw [hget]; simp [hd]

theorem exists_post (f : Font) (L : String) (note : Note) (n : Name) :
    Exists (post f L note) n ↔ Exists f n := by
  rcases post_cases f L note with e | ⟨l, hget, _, _, e⟩ | ⟨l, _, _, _, _, e⟩
  · rw [e]
  · rw [e]; exact exists_setLayer_same (l' := { l with queue := enqueue l.queue note }) hget rfl n
  · rw [e]; exact exists_congr (layers_deliver f note) n

theorem wf_post {f : Font} (hw : WF f) (L : String) (note : Note) : WF (post f L note) := by
  rcases post_cases f L note with e | ⟨l, hget, _, _, e⟩ | ⟨l, _, _, _, _, e⟩
  · rw [e]; exact hw
  · rw [e]; exact wf_setLayer hw _ _ (observed_of_get? (l := l) hw hget)
  · rw [e]; exact WF.congr (layers_deliver f note) hw

theorem libNormal_post {f : Font} (hl : LibNormal f) (L : String) (note : Note) :
    LibNormal (post f L note) := by
  rcases post_cases f L note with e | ⟨l, _, _, _, e⟩ | ⟨l, _, _, _, _, e⟩
  · rw [e]; exact hl
  · rw [e]; exact hl
  · rw [e]; exact libNormal_deliver f note hl

/-- the glyph names of every layer after a post are what they were -/
theorem glyphs_post (f : Font) (L : String) (note : Note) (K : String) :
    (AL.get? (post f L note).layers K).map (·.glyphs) = (AL.get? f.layers K).map (·.glyphs) := by
  rcases post_cases f L note with e | ⟨l, hget, _, _, e⟩ | ⟨l, _, _, _, _, e⟩
  · rw [e]
  · rw [e, get?_setLayer]
    by_cases h : L = K
    · subst h; simp [hget]
    · simp [h]
  · rw [e, layers_deliver]

theorem default_post (f : Font) (L : String) (note : Note) : (post f L note).default = f.default := by
  rcases post_cases f L note with e | ⟨l, _, _, _, e⟩ | ⟨l, _, _, _, _, e⟩
  · rw [e]
  · rw [e]; rfl
  · rw [e]; simp

theorem ghost_post (f : Font) (L : String) (note : Note) : (post f L note).ghost = f.ghost := by
  rcases post_cases f L note with e | ⟨l, _, _, _, e⟩ | ⟨l, _, _, _, _, e⟩
  · rw [e]
  · rw [e]; rfl
  · rw [e]; simp

theorem keys_setLayer_of_get? {f : Font} {L : String} {l : Layer} (hget : AL.get? f.layers L = some l)
    (l' : Layer) : AL.keys (setLayer f L l').layers = AL.keys f.layers := by
  unfold setLayer
  simp only
  rw [AL.keys_set, if_pos (AL.mem_keys_of_get? hget)]

theorem keys_post (f : Font) (L : String) (note : Note) :
    AL.keys (post f L note).layers = AL.keys f.layers := by
  rcases post_cases f L note with e | ⟨l, hget, _, _, e⟩ | ⟨l, _, _, _, _, e⟩
  · rw [e]
  · rw [e]; exact keys_setLayer_of_get? hget _
  · rw [e, layers_deliver]

/-! ## Sequences of updates on a set of names -/

/-- `o'` comes from `o` by a sequence of `updateGlyphOrder` calls whose arguments are names in `T` -/
inductive Upd (T : Name → Prop) : List Name → List Name → Prop
  | refl (o : List Name) : Upd T o o
  | step {o o1 : List Name} (a r : Option Name) : Upd T o o1 →
      (∀ x, a = some x → T x) → (∀ x, r = some x → T x) → Upd T o (specUpdate o1 a r)

theorem Upd.mono {T T' : Name → Prop} (h : ∀ x, T x → T' x) {o o' : List Name} (u : Upd T o o') :
    Upd T' o o' := by
  induction u with
  | refl => exact .refl _
  | step a r _ ha hr ih => exact .step a r ih (fun x e => h x (ha x e)) (fun x e => h x (hr x e))

theorem Upd.trans {T : Name → Prop} {o o1 o2 : List Name} (u1 : Upd T o o1) (u2 : Upd T o1 o2) :
    Upd T o o2 := by
  induction u2 with
  | refl => exact u1
  | step a r _ ha hr ih => exact .step a r ih ha hr

theorem Upd.one {T : Name → Prop} (o : List Name) (a r : Option Name)
    (ha : ∀ x, a = some x → T x) (hr : ∀ x, r = some x → T x) : Upd T o (specUpdate o a r) :=
  .step a r (.refl o) ha hr

theorem Upd.count_le {T : Name → Prop} {o o' : List Name} (u : Upd T o o') (n : Name) :
    o'.count n ≤ max 1 (o.count n) := by
  induction u with
  | refl => omega
  | step a r _ _ _ ih =>
    refine Nat.le_trans (count_specUpdate_le _ a r n) ?_
    omega

theorem Upd.filter {T : Name → Prop} {o o' : List Name} (u : Upd T o o') (p : Name → Bool)
    (hp : ∀ x, T x → p x = false) : o'.filter p = o.filter p := by
  induction u with
  | refl => rfl
  | step a r _ ha hr ih =>
    rw [filter_specUpdate p _ a r (fun x e => hp x (ha x e)) (fun x e => hp x (hr x e))]
    exact ih

theorem upd_deliver (f : Font) (note : Note) :
    Upd (fun x => x ∈ note.names) (glyphOrder f) (glyphOrder (deliver f note)) := by
  rw [glyphOrder_deliver]
  exact Upd.one _ _ _ (deliverArgs_names _ note).1 (deliverArgs_names _ note).2

theorem upd_post (f : Font) (L : String) (note : Note) :
    Upd (fun x => x ∈ note.names) (glyphOrder f) (glyphOrder (post f L note)) := by
  rcases post_cases f L note with e | ⟨l, _, _, _, e⟩ | ⟨l, _, _, _, _, e⟩
  · rw [e]; exact .refl _
  · rw [e]; exact .refl _
  · rw [e]; exact upd_deliver f note

theorem upd_flush (f : Font) (L : String) (q : List Note) :
    Upd (fun x => ∃ nt ∈ q, x ∈ nt.names) (glyphOrder f) (glyphOrder (flush f L q)) := by
  induction q generalizing f with
  | nil => exact .refl _
  | cons nt q ih =>
    simp only [flush]
    refine Upd.trans ((upd_post f L nt).mono ?_) ((ih (post f L nt)).mono ?_)
    · intro x hx; exact ⟨nt, by simp, hx⟩
    · rintro x ⟨n2, h2, hx⟩; exact ⟨n2, List.mem_cons_of_mem _ h2, hx⟩

/-! ## Flushing a queue -/

theorem exists_flush (f : Font) (L : String) (q : List Note) (n : Name) :
    Exists (flush f L q) n ↔ Exists f n := by
  induction q generalizing f with
  | nil => rfl
  | cons nt q ih => simp only [flush]; rw [ih, exists_post]

theorem wf_flush {f : Font} (hw : WF f) (L : String) (q : List Note) : WF (flush f L q) := by
  induction q generalizing f with
  | nil => exact hw
  | cons nt q ih => simp only [flush]; exact ih (wf_post hw L nt)

theorem libNormal_flush {f : Font} (hl : LibNormal f) (L : String) (q : List Note) :
    LibNormal (flush f L q) := by
  induction q generalizing f with
  | nil => exact hl
  | cons nt q ih => simp only [flush]; exact ih (libNormal_post hl L nt)

theorem glyphs_flush (f : Font) (L : String) (q : List Note) (K : String) :
    (AL.get? (flush f L q).layers K).map (·.glyphs) = (AL.get? f.layers K).map (·.glyphs) := by
  induction q generalizing f with
  | nil => rfl
  | cons nt q ih => simp only [flush]; rw [ih, glyphs_post]

theorem default_flush (f : Font) (L : String) (q : List Note) : (flush f L q).default = f.default := by
  induction q generalizing f with
  | nil => rfl
  | cons nt q ih => simp only [flush]; rw [ih, default_post]

theorem ghost_flush (f : Font) (L : String) (q : List Note) : (flush f L q).ghost = f.ghost := by
  induction q generalizing f with
  | nil => rfl
  | cons nt q ih => simp only [flush]; rw [ih, ghost_post]

theorem keys_flush (f : Font) (L : String) (q : List Note) :
    AL.keys (flush f L q).layers = AL.keys f.layers := by
  induction q generalizing f with
  | nil => rfl
  | cons nt q ih => simp only [flush]; rw [ih, keys_post]

/-- flushing through a layer on which nothing is held or disabled: every notification is delivered;
the layers are untouched, so every callback sees the same layers -/
theorem flush_calm {f : Font} {L : String} {l : Layer} (hget : AL.get? f.layers L = some l)
    (hh : l.held = 0) (hd : l.disabled = 0) (ho : l.observed = true) (q : List Note) :
    (flush f L q).layers = f.layers ∧
    glyphOrder (flush f L q) = specDeliverAll (anyLayerHas f) (glyphOrder f) q := by
  induction q generalizing f with
  | nil => exact ⟨rfl, rfl⟩
  | cons nt q ih =>
    simp only [flush]
    rw [post_calm hget hh hd ho]
    have hget' : AL.get? (deliver f nt).layers L = some l := by rw [layers_deliver]; exact hget
    obtain ⟨h1, h2⟩ := ih hget'
    refine ⟨by rw [h1, layers_deliver], ?_⟩
    rw [h2, glyphOrder_deliver, anyLayerHas_congr (layers_deliver f nt)]
    rfl

/-- flushing through a disabled layer delivers nothing -/
theorem flush_disabled {f : Font} {L : String} {l : Layer} (hget : AL.get? f.layers L = some l)
    (hd : l.disabled ≠ 0) (q : List Note) : flush f L q = f := by
  induction q with
  | nil => rfl
  | cons nt q ih => simp only [flush]; rw [post_disabled hget hd]; exact ih

/-! ## Association-list facts used by the layer-set operations -/

theorem set_set (ls : List (String × Layer)) (k : String) (a b : Layer) :
    AL.set (AL.set ls k a) k b = AL.set ls k b := by
  induction ls with
  | nil => simp [AL.set]
  | cons p r ih =>
    obtain ⟨k', v⟩ := p
    by_cases h : k' = k
    · simp [AL.set, h]
    · simp [AL.set, h, ih]

theorem setLayer_setLayer (f : Font) (L : String) (a b : Layer) :
    setLayer (setLayer f L a) L b = setLayer f L b := by
  unfold setLayer; simp only [set_set]

theorem mem_renameKey {ls : List (String × Layer)} {old new : String} {kl : String × Layer}
    (h : kl ∈ renameKey ls old new) : ∃ k', (k', kl.2) ∈ ls ∧ (kl.1 = k' ∨ (k' = old ∧ kl.1 = new)) := by
  induction ls with
  | nil => simp [renameKey] at h
  | cons p r ih =>
    obtain ⟨k, v⟩ := p
    by_cases hk : k = old
    · simp only [renameKey, hk, if_true, List.mem_cons] at h
      rcases h with h | h
      · subst h; exact ⟨old, by simp [hk], Or.inr ⟨rfl, rfl⟩⟩
      · exact ⟨kl.1, List.mem_cons_of_mem _ h, Or.inl rfl⟩
    · simp only [renameKey, hk, if_false, List.mem_cons] at h
      rcases h with h | h
      · subst h; exact ⟨k, by simp, Or.inl rfl⟩
      · obtain ⟨k', h1, h2⟩ := ih h
        exact ⟨k', List.mem_cons_of_mem _ h1, h2⟩

theorem mem_keys_renameKey {ls : List (String × Layer)} {old new x : String}
    (h : x ∈ AL.keys (renameKey ls old new)) : x = new ∨ x ∈ AL.keys ls := by
  simp only [AL.keys, List.mem_map] at h ⊢
  obtain ⟨kl, hkl, rfl⟩ := h
  obtain ⟨k', h1, h2 | ⟨_, h2⟩⟩ := mem_renameKey hkl
  · exact Or.inr ⟨(k', kl.2), h1, h2.symm⟩
  · exact Or.inl h2

theorem nodup_keys_renameKey {ls : List (String × Layer)} (old new : String)
    (hn : (AL.keys ls).Nodup) (hnew : new ∉ AL.keys ls) : (AL.keys (renameKey ls old new)).Nodup := by
  induction ls with
  | nil => simp [renameKey, AL.keys]
  | cons p r ih =>
    obtain ⟨k, v⟩ := p
    simp only [AL.keys, List.map_cons, List.nodup_cons, List.mem_cons, not_or] at hn hnew
    by_cases hk : k = old
    · simp only [renameKey, hk, if_true, AL.keys, List.map_cons, List.nodup_cons]
      exact ⟨hnew.2, hn.2⟩
    · simp only [renameKey, hk, if_false, AL.keys, List.map_cons, List.nodup_cons]
      refine ⟨?_, ih hn.2 hnew.2⟩
      intro hmem
      rcases mem_keys_renameKey hmem with e | e
      · exact hnew.1 e.symm
      · exact hn.1 e

/-- looking a key up after `old` has been renamed to the fresh key `new` -/
theorem get?_renameKey {ls : List (String × Layer)} (old new : String)
    (hn : (AL.keys ls).Nodup) (hnew : new ∉ AL.keys ls) (k : String) :
    AL.get? (renameKey ls old new) k =
      if k = new then AL.get? ls old else if k = old then none else AL.get? ls k := by
  induction ls with
  | nil => simp [renameKey]
  | cons p r ih =>
    obtain ⟨k', v⟩ := p
    simp only [AL.keys, List.map_cons, List.mem_cons, not_or, List.nodup_cons] at hnew hn
    have ih' := ih hn.2 hnew.2
    by_cases hk : k' = old
    · subst hk
      simp only [renameKey, if_true, AL.get?_cons]
      by_cases e1 : k = new
      · subst e1; simp
      · have e1' : ¬ new = k := fun e => e1 e.symm
        simp only [e1, e1', if_false]
        by_cases e2 : k = k'
        · subst e2
          simp only [if_true]
          exact AL.get?_eq_none_of_not_mem hn.1
        · have e2' : ¬ k' = k := fun e => e2 e.symm
          simp [e2, e2']
    · simp only [renameKey, hk, if_false, AL.get?_cons]
      rw [ih']
      by_cases e1 : k = new
      · subst e1
        have : ¬ k' = k := fun e => hnew.1 e.symm
        simp [this]
      · by_cases e2 : k = old
        · subst e2
          have : ¬ k' = k := hk
          simp [e1, this]
        · by_cases e3 : k' = k <;> simp [e1, e2, e3]

theorem get?_reorder (ls : List (String × Layer)) (names : List String) (k : String) :
    AL.get? (reorder ls names) k = if k ∈ names then AL.get? ls k else none := by
  induction names with
  | nil => simp [reorder]
  | cons n ns ih =>
    unfold reorder at ih ⊢
    simp only [List.filterMap_cons]
    cases hg : AL.get? ls n with
    | none =>
      simp only [Option.map_none]
      rw [ih]
      by_cases e : k = n
      · subst e; simp [hg]
      · simp [e]
    | some l =>
      simp only [Option.map_some, AL.get?_cons]
      by_cases e : n = k
      · subst e; simp [hg]
      · have e' : ¬ k = n := fun x => e x.symm
        simp only [e, if_false, List.mem_cons, e', false_or]
        exact ih

theorem mem_reorder {ls : List (String × Layer)} {names : List String} {kl : String × Layer}
    (h : kl ∈ reorder ls names) : kl ∈ ls := by
  unfold reorder at h
  simp only [List.mem_filterMap] at h
  obtain ⟨n, _, hn⟩ := h
  cases hg : AL.get? ls n with
  | none => simp [hg] at hn
  | some l =>
    simp [hg] at hn
    subst hn
    exact AL.mem_of_get? hg

theorem get?_of_mem_keys {ls : List (String × Layer)} {k : String} (h : k ∈ AL.keys ls) :
    ∃ l, AL.get? ls k = some l := by
  induction ls with
  | nil => simp [AL.keys] at h
  | cons p r ih =>
    obtain ⟨k2, v2⟩ := p
    by_cases e : k2 = k
    · exact ⟨v2, by simp [e]⟩
    · simp only [AL.keys, List.map_cons, List.mem_cons] at h
      rcases h with h | h
      · exact absurd h.symm e
      · obtain ⟨l, hl⟩ := ih h
        exact ⟨l, by simp [e, hl]⟩

theorem keys_reorder {ls : List (String × Layer)} {names : List String}
    (h : ∀ n ∈ names, n ∈ AL.keys ls) : AL.keys (reorder ls names) = names := by
  induction names with
  | nil => simp [reorder, AL.keys]
  | cons n ns ih =>
    have hn : n ∈ AL.keys ls := h n (by simp)
    have : ∃ l, AL.get? ls n = some l := get?_of_mem_keys hn
    obtain ⟨l, hl⟩ := this
    have ih' := ih (fun m hm => h m (List.mem_cons_of_mem _ hm))
    unfold reorder at ih' ⊢
    simp only [List.filterMap_cons, hl, Option.map_some, AL.keys, List.map_cons] at ih' ⊢
    rw [ih']

/-- `len(order) == len(old)` and `set(order) == set(old)` with `old` duplicate-free: `order` is
duplicate-free as well (pigeonhole) -/
theorem nodup_of_same_set {ks names : List String} (hk : ks.Nodup) (hlen : names.length = ks.length)
    (h2 : ∀ k ∈ ks, k ∈ names) : names.Nodup := by
  have sp : List.Subperm ks names := List.subperm_of_subset hk (fun x hx => h2 x hx)
  have pm : List.Perm ks names := sp.perm_of_length_le (by omega)
  exact pm.nodup_iff.mp hk

/-! ## What every operation preserves -/

theorem mem_queuedNames {f : Font} {x : Name} :
    x ∈ queuedNames f ↔ ∃ kl ∈ f.layers, ∃ nt ∈ kl.2.queue, x ∈ nt.names := by
  simp [queuedNames, List.mem_flatMap]

theorem mem_enqueue {q : List Note} {n x : Note} : x ∈ enqueue q n ↔ x ∈ q ∨ x = n := by
  unfold enqueue
  by_cases h : n ∈ q
  · simp [h]; intro e; subst e; exact h
  · simp [h]

/-- going from `f` to `f'`: well-formedness and lib normality are kept, the order changes by updates
on names in `T` only, and no name outside `T` gets into a queue -/
structure Safe (T : Name → Prop) (f f' : Font) : Prop where
  wf : WF f → WF f'
  libNormal : LibNormal f → LibNormal f'
  upd : Upd T (glyphOrder f) (glyphOrder f')
  queued : ∀ x, x ∈ queuedNames f' → x ∈ queuedNames f ∨ T x

theorem Safe.refl (T : Name → Prop) (f : Font) : Safe T f f :=
  ⟨id, id, .refl _, fun _ h => Or.inl h⟩

theorem Safe.trans {T : Name → Prop} {f f1 f2 : Font} (s1 : Safe T f f1) (s2 : Safe T f1 f2) :
    Safe T f f2 :=
  ⟨fun h => s2.wf (s1.wf h), fun h => s2.libNormal (s1.libNormal h), s1.upd.trans s2.upd,
   fun x h => by
    rcases s2.queued x h with h | h
    · exact s1.queued x h
    · exact Or.inr h⟩

theorem Safe.mono {T T' : Name → Prop} (hT : ∀ x, T x → T' x) {f f' : Font} (s : Safe T f f') :
    Safe T' f f' :=
  ⟨s.wf, s.libNormal, s.upd.mono hT, fun x h => (s.queued x h).imp id (hT x)⟩

/-- a change that leaves the layers and the lib alone -/
theorem safe_of_same (T : Name → Prop) {f f' : Font} (hl : f'.layers = f.layers) (hb : f'.lib = f.lib) :
    Safe T f f' := by
  refine ⟨WF.congr hl, ?_, ?_, ?_⟩
  · intro h; unfold LibNormal at h ⊢; rw [hb]; exact h
  · have : glyphOrder f' = glyphOrder f := by unfold glyphOrder; rw [hb]
    rw [this]; exact .refl _
  · intro x h
    rw [mem_queuedNames, hl] at h
    exact Or.inl (mem_queuedNames.mpr h)

/-- replacing a layer by one that is observed like it and queues nothing new -/
theorem safe_setLayer (T : Name → Prop) {f : Font} {L : String} {l : Layer}
    (hget : AL.get? f.layers L = some l) (l' : Layer) (ho : l'.observed = l.observed)
    (hq : ∀ nt ∈ l'.queue, nt ∈ l.queue ∨ ∀ x ∈ nt.names, T x) : Safe T f (setLayer f L l') := by
  refine ⟨fun hw => wf_setLayer hw L l' (by rw [ho]; exact observed_of_get? hw hget), id, .refl _, ?_⟩
  intro x h
  rw [mem_queuedNames] at h
  obtain ⟨kl, hkl, nt, hnt, hx⟩ := h
  rcases AL.mem_set hkl with e | e
  · subst e
    rcases hq nt hnt with h1 | h1
    · exact Or.inl (mem_queuedNames.mpr ⟨(L, l), AL.mem_of_get? hget, nt, h1, hx⟩)
    · exact Or.inr (h1 x hx)
  · exact Or.inl (mem_queuedNames.mpr ⟨kl, e, nt, hnt, hx⟩)

/-- a brand-new layer (nothing queued, observed) -/
theorem safe_newLayer (T : Name → Prop) (f : Font) (L : String) :
    Safe T f (setLayer f L { glyphs := [], observed := true }) := by
  refine ⟨fun hw => wf_setLayer hw L _ rfl, id, .refl _, ?_⟩
  intro x h
  rw [mem_queuedNames] at h
  obtain ⟨kl, hkl, nt, hnt, hx⟩ := h
  rcases AL.mem_set hkl with e | e
  · subst e; simp at hnt
  · exact Or.inl (mem_queuedNames.mpr ⟨kl, e, nt, hnt, hx⟩)

theorem safe_post {T : Name → Prop} (f : Font) (L : String) (note : Note)
    (hT : ∀ x ∈ note.names, T x) : Safe T f (post f L note) := by
  refine ⟨fun hw => wf_post hw L note, fun hl => libNormal_post hl L note,
    (upd_post f L note).mono hT, ?_⟩
  rcases post_cases f L note with e | ⟨l, hget, _, _, e⟩ | ⟨l, _, _, _, _, e⟩
  · rw [e]; exact fun _ h => Or.inl h
  · rw [e]
    refine (safe_setLayer T hget { l with queue := enqueue l.queue note } rfl ?_).queued
    intro nt hnt
    rcases mem_enqueue.mp hnt with h | h
    · exact Or.inl h
    · subst h; exact Or.inr hT
  · rw [e]
    intro x h
    rw [mem_queuedNames, layers_deliver] at h
    exact Or.inl (mem_queuedNames.mpr h)

theorem safe_flush {T : Name → Prop} (f : Font) (L : String) (q : List Note)
    (hT : ∀ nt ∈ q, ∀ x ∈ nt.names, T x) : Safe T f (flush f L q) := by
  induction q generalizing f with
  | nil => exact Safe.refl T f
  | cons nt q ih =>
    simp only [flush]
    exact (safe_post f L nt (hT nt (by simp))).trans
      (ih (post f L nt) (fun n2 h2 => hT n2 (List.mem_cons_of_mem _ h2)))

/-- layers taken out of / renamed in / reordered in the layer set: every remaining layer is one of
the old ones -/
theorem safe_of_sublayers (T : Name → Prop) {f f' : Font} (hb : f'.lib = f.lib)
    (hn : (AL.keys f.layers).Nodup → (AL.keys f'.layers).Nodup)
    (hm : ∀ kl ∈ f'.layers, ∃ k', (k', kl.2) ∈ f.layers) : Safe T f f' := by
  refine ⟨?_, ?_, ?_, ?_⟩
  · intro hw
    refine ⟨hn hw.names, ?_⟩
    intro kl hkl
    obtain ⟨k', h⟩ := hm kl hkl
    exact hw.observed (k', kl.2) h
  · intro h; unfold LibNormal at h ⊢; rw [hb]; exact h
  · have : glyphOrder f' = glyphOrder f := by unfold glyphOrder; rw [hb]
    rw [this]; exact .refl _
  · intro x h
    rw [mem_queuedNames] at h
    obtain ⟨kl, hkl, nt, hnt, hx⟩ := h
    obtain ⟨k', h'⟩ := hm kl hkl
    exact Or.inl (mem_queuedNames.mpr ⟨(k', kl.2), h', nt, hnt, hx⟩)

theorem safe_holdLayer (T : Name → Prop) (f : Font) (L : String) : Safe T f (holdLayer f L).1 := by
  unfold holdLayer
  cases hget : AL.get? f.layers L with
  | none => exact Safe.refl T f
  | some l => exact safe_setLayer T hget { l with held := l.held + 1 } rfl (fun nt h => Or.inl h)

theorem safe_disableLayer (T : Name → Prop) (f : Font) (L : String) : Safe T f (disableLayer f L).1 := by
  unfold disableLayer
  cases hget : AL.get? f.layers L with
  | none => exact Safe.refl T f
  | some l => exact safe_setLayer T hget { l with disabled := l.disabled + 1 } rfl (fun nt h => Or.inl h)

theorem safe_enableLayer (T : Name → Prop) (f : Font) (L : String) : Safe T f (enableLayer f L).1 := by
  unfold enableLayer
  cases hget : AL.get? f.layers L with
  | none => exact Safe.refl T f
  | some l =>
    simp only
    split
    · exact Safe.refl T f
    · exact safe_setLayer T hget { l with disabled := l.disabled - 1 } rfl (fun nt h => Or.inl h)

theorem safe_releaseLayer {T : Name → Prop} (f : Font) (L : String)
    (hT : ∀ x ∈ queuedNames f, T x) : Safe T f (releaseLayer f L).1 := by
  unfold releaseLayer
  cases hget : AL.get? f.layers L with
  | none => exact Safe.refl T f
  | some l =>
    simp only
    split
    · exact Safe.refl T f
    · split
      · refine (safe_setLayer T hget { l with held := 0, queue := [] } rfl (by simp)).trans
          (safe_flush _ L l.queue ?_)
        intro nt hnt x hx
        exact hT x (mem_queuedNames.mpr ⟨(L, l), AL.mem_of_get? hget, nt, hnt, hx⟩)
      · exact safe_setLayer T hget { l with held := l.held - 1 } rfl (fun nt h => Or.inl h)

theorem safe_newGlyph {T : Name → Prop} (f : Font) (L : String) (g : Name) (hT : T g) :
    Safe T f (newGlyph f L g).1 := by
  unfold newGlyph
  cases hget : AL.get? f.layers L with
  | none => exact Safe.refl T f
  | some l =>
    exact (safe_setLayer T hget { l with glyphs := addName l.glyphs g } rfl (fun nt h => Or.inl h)).trans
      (safe_post _ L (.added g) (by simpa [Note.names] using hT))

theorem safe_delGlyph {T : Name → Prop} (f : Font) (L : String) (g : Name) (hT : T g) :
    Safe T f (delGlyph f L g).1 := by
  unfold delGlyph
  cases hget : AL.get? f.layers L with
  | none => exact Safe.refl T f
  | some l =>
    simp only
    split
    · exact (safe_setLayer T hget { l with glyphs := removeName l.glyphs g } rfl (fun nt h => Or.inl h)).trans
        (safe_post _ L (.deleted g) (by simpa [Note.names] using hT))
    · exact Safe.refl T f

theorem safe_rename {T : Name → Prop} (f : Font) (L : String) (old new : Name) (h1 : T old) (h2 : T new) :
    Safe T f (rename f L old new).1 := by
  unfold rename
  cases hget : AL.get? f.layers L with
  | none => exact Safe.refl T f
  | some l =>
    simp only
    split
    · split
      · exact Safe.refl T f
      · exact (safe_setLayer T hget { l with glyphs := addName (removeName l.glyphs old) new } rfl
          (fun nt h => Or.inl h)).trans
          (safe_post _ L (.renamed old new) (by
            intro x hx
            simp only [Note.names, List.mem_cons, List.not_mem_nil, or_false] at hx
            rcases hx with e | e <;> subst e <;> assumption))
    · exact Safe.refl T f

theorem safe_insertGlyph {T : Name → Prop} (f : Font) (L : String) (g : Name) (hT : T g)
    (hq : ∀ x ∈ queuedNames f, T x) : Safe T f (insertGlyph f L g).1 := by
  unfold insertGlyph
  cases hget : AL.get? f.layers L with
  | none => exact Safe.refl T f
  | some l =>
    simp only
    have s1 := safe_holdLayer T f L
    have s2 := safe_newGlyph (T := T) (holdLayer f L).1 L g hT
    have s12 := s1.trans s2
    refine s12.trans (safe_releaseLayer _ L ?_)
    intro x hx
    rcases s12.queued x hx with h | h
    · exact hq x h
    · exact h

theorem safe_newLayer' (T : Name → Prop) (f : Font) (name : String) : Safe T f (newLayer f name).1 := by
  unfold newLayer
  split
  · exact Safe.refl T f
  · exact safe_newLayer T f name

theorem safe_delLayer (T : Name → Prop) (f : Font) (name : String) : Safe T f (delLayer f name).1 := by
  unfold delLayer
  cases hget : AL.get? f.layers name with
  | none => exact Safe.refl T f
  | some l =>
    simp only
    split
    · exact safe_of_sublayers T rfl (AL.nodup_keys_erase _ _) (fun kl h => ⟨kl.1, AL.mem_erase h⟩)
    · exact safe_of_sublayers T rfl (AL.nodup_keys_erase _ _) (fun kl h => ⟨kl.1, AL.mem_erase h⟩)

theorem not_mem_keys_of_contains_false {ls : List (String × Layer)} {k : String}
    (h : ¬ AL.contains ls k = true) : k ∉ AL.keys ls := by
  intro hm
  obtain ⟨l, hl⟩ := get?_of_mem_keys hm
  exact h (by simp [AL.contains, hl])

theorem safe_renameLayer (T : Name → Prop) (f : Font) (old new : String) :
    Safe T f (renameLayer f old new).1 := by
  unfold renameLayer
  cases hget : AL.get? f.layers old with
  | none => exact Safe.refl T f
  | some l =>
    simp only
    split
    · exact Safe.refl T f
    · split
      · exact Safe.refl T f
      · rename_i hc
        split
        · exact Safe.refl T f
        · refine safe_of_sublayers T rfl
            (fun hn => nodup_keys_renameKey old new hn (not_mem_keys_of_contains_false hc)) ?_
          intro kl h
          obtain ⟨k', h1, _⟩ := mem_renameKey h
          exact ⟨k', h1⟩

theorem safe_setLayerOrder (T : Name → Prop) (f : Font) (names : List String) :
    Safe T f (setLayerOrder f names).1 := by
  unfold setLayerOrder
  split
  · exact Safe.refl T f
  · split
    · rename_i hc
      refine safe_of_sublayers T rfl ?_ (fun kl h => ⟨kl.1, mem_reorder h⟩)
      intro hn
      simp only
      rw [keys_reorder hc.2.1]
      exact nodup_of_same_set hn hc.1 hc.2.2
    · exact Safe.refl T f

theorem safe_setDefault (T : Name → Prop) (f : Font) (name : String) : Safe T f (setDefault f name).1 := by
  unfold setDefault
  split
  · exact safe_of_same T rfl rfl
  · exact Safe.refl T f

theorem safe_fontNewGlyph {T : Name → Prop} (f : Font) (g : Name) (hT : T g) :
    Safe T f (fontNewGlyph f g).1 := by
  unfold fontNewGlyph
  cases f.default with
  | none => exact safe_of_same T rfl rfl
  | some L => exact safe_newGlyph f L g hT

theorem safe_fontInsertGlyph {T : Name → Prop} (f : Font) (g : Name) (hT : T g)
    (hq : ∀ x ∈ queuedNames f, T x) : Safe T f (fontInsertGlyph f g).1 := by
  unfold fontInsertGlyph
  cases f.default with
  | none => exact safe_of_same T rfl rfl
  | some L => exact safe_insertGlyph f L g hT hq

theorem safe_fontDelGlyph {T : Name → Prop} (f : Font) (g : Name) (hT : T g) :
    Safe T f (fontDelGlyph f g).1 := by
  unfold fontDelGlyph
  cases f.default with
  | none =>
    simp only
    split
    · exact safe_of_same T rfl rfl
    · exact Safe.refl T f
  | some L => exact safe_delGlyph f L g hT

/-- every operation through which the font updates the order itself: see `Safe`, with `T` = the names
the operation speaks about and the names of the notifications held at that moment -/
theorem safe_step (f : Font) (op : Op) (h : op.isUpdate = true) :
    Safe (fun x => x ∈ op.touched ∨ x ∈ queuedNames f) f (step f op).1 := by
  cases op with
  | setOrder v => simp [Op.isUpdate] at h
  | setLib v => simp [Op.isUpdate] at h
  | newGlyph L g => exact safe_newGlyph f L g (Or.inl (by simp [Op.touched]))
  | insertGlyph L g => exact safe_insertGlyph f L g (Or.inl (by simp [Op.touched])) (fun x hx => Or.inr hx)
  | delGlyph L g => exact safe_delGlyph f L g (Or.inl (by simp [Op.touched]))
  | rename L o n =>
    exact safe_rename f L o n (Or.inl (by simp [Op.touched])) (Or.inl (by simp [Op.touched]))
  | newLayer n => exact safe_newLayer' _ f n
  | delLayer n => exact safe_delLayer _ f n
  | renameLayer o n => exact safe_renameLayer _ f o n
  | setLayerOrder ns => exact safe_setLayerOrder _ f ns
  | setDefault n => exact safe_setDefault _ f n
  | fontNewGlyph g => exact safe_fontNewGlyph f g (Or.inl (by simp [Op.touched]))
  | fontInsertGlyph g =>
    exact safe_fontInsertGlyph f g (Or.inl (by simp [Op.touched])) (fun x hx => Or.inr hx)
  | fontDelGlyph g => exact safe_fontDelGlyph f g (Or.inl (by simp [Op.touched]))
  | holdLayer L => exact safe_holdLayer _ f L
  | releaseLayer L => exact safe_releaseLayer f L (fun x hx => Or.inr hx)
  | disableLayer L => exact safe_disableLayer _ f L
  | enableLayer L => exact safe_enableLayer _ f L
  | holdFont => exact safe_of_same _ rfl rfl
  | releaseFont =>
    simp only [step, releaseFont]
    split
    · exact Safe.refl _ f
    · exact safe_of_same _ rfl rfl

/-! ## Invariants of every operation -/

theorem wf_step {f : Font} (hw : WF f) (op : Op) : WF (step f op).1 := by
  by_cases h : op.isUpdate = true
  · exact (safe_step f op h).wf hw
  · cases op with
    | setOrder v => exact WF.congr (by simp [step]) hw
    | setLib v =>
      simp only [step, setLib]
      split
      · exact WF.congr (f := f) rfl hw
      · split
        · exact WF.congr (f := f) rfl hw
        · exact hw
    | _ => simp [Op.isUpdate] at h

theorem libNormal_step {f : Font} (hl : LibNormal f) (op : Op) (hop : op ≠ .setLib (some [])) :
    LibNormal (step f op).1 := by
  by_cases h : op.isUpdate = true
  · exact (safe_step f op h).libNormal hl
  · cases op with
    | setOrder v =>
      simp only [step]
      unfold LibNormal at hl ⊢
      rw [lib_setGlyphOrder]
      split
      · rename_i e; rw [← e]; exact hl
      · split
        · simp
        · rename_i h1 h2
          intro e; rw [e] at h2; simp at h2
    | setLib v =>
      simp only [step, setLib]
      split
      · rename_i x
        unfold LibNormal; simp only
        intro e
        apply hop
        simp at e
        rw [e]
      · split
        · unfold LibNormal; simp
        · exact hl
    | _ => simp [Op.isUpdate] at h

/-! ## Runs -/

theorem run_append (f : Font) (ops1 ops2 : List Op) : run f (ops1 ++ ops2) = run (run f ops1) ops2 := by
  induction ops1 generalizing f with
  | nil => rfl
  | cons op r ih => simp [run, ih]

/-- an invariant of single steps (for a class of operations) is an invariant of runs -/
theorem run_preserves (P : Font → Prop) (ok : Op → Prop)
    (hstep : ∀ f op, ok op → P f → P (step f op).1) (f : Font) (ops : List Op)
    (hops : ∀ op ∈ ops, ok op) (h : P f) : P (run f ops) := by
  induction ops generalizing f with
  | nil => exact h
  | cons op r ih =>
    simp only [run]
    exact ih _ (fun o ho => hops o (List.mem_cons_of_mem _ ho))
      (hstep f op (hops op (List.mem_cons_self ..)) h)

theorem wf_run {f : Font} (hw : WF f) (ops : List Op) : WF (run f ops) :=
  run_preserves WF (fun _ => True) (fun _ op _ h => wf_step h op) f ops (fun _ _ => trivial) hw

/-- over a whole history of font-made updates: the order changes by updates on names the operations
speak about or that were held at the start, and nothing else gets queued -/
theorem safe_run (T : Name → Prop) (f : Font) (ops : List Op) (hops : ∀ op ∈ ops, op.isUpdate = true)
    (hT : ∀ op ∈ ops, ∀ x ∈ op.touched, T x) (hq : ∀ x ∈ queuedNames f, T x) :
    Safe T f (run f ops) := by
  induction ops generalizing f with
  | nil => exact Safe.refl T f
  | cons op r ih =>
    simp only [run]
    have s1 : Safe T f (step f op).1 := (safe_step f op (hops op (List.mem_cons_self ..))).mono (by
      rintro x (h | h)
      · exact hT op (List.mem_cons_self ..) x h
      · exact hq x h)
    refine s1.trans (ih _ (fun o ho => hops o (List.mem_cons_of_mem _ ho))
      (fun o ho => hT o (List.mem_cons_of_mem _ ho)) ?_)
    intro x hx
    rcases s1.queued x hx with h | h
    · exact hq x h
    · exact h

/-! ## More facts about the index-free edits -/

theorem not_mem_eraseFirst_self {o : List Name} {g : Name} (h : o.count g ≤ 1) : g ∉ eraseFirst o g := by
  intro hh
  have h1 := List.one_le_count_iff.mpr hh
  rw [count_eraseFirst_self] at h1
  omega

theorem not_mem_replaceFirst_old {o : List Name} {r a : Name} (hne : r ≠ a) (h : o.count r ≤ 1) :
    r ∉ replaceFirst o r a := by
  intro hh
  have h1 := List.one_le_count_iff.mpr hh
  rw [count_replaceFirst_old o hne] at h1
  omega

theorem mem_specRename_new (o : List Name) {old new : Name} (hne : old ≠ new) (b : Bool) :
    new ∈ specRename o old new b := by
  have hne' : new ≠ old := fun e => hne e.symm
  unfold specRename
  split
  · exact mem_appendIfAbsent.mpr (Or.inr rfl)
  · split
    · split
      · rename_i h1 h2; exact (mem_eraseFirst_of_ne hne').mpr h2
      · rename_i h1 h2; exact mem_replaceFirst_new h1
    · exact mem_appendIfAbsent.mpr (Or.inr rfl)

theorem mem_specRename_of_ne (o : List Name) {old new n : Name} (h1 : n ≠ old) (h2 : n ≠ new) (b : Bool) :
    n ∈ specRename o old new b ↔ n ∈ o := by
  unfold specRename
  split
  · simp [mem_appendIfAbsent, h2]
  · split
    · split
      · exact mem_eraseFirst_of_ne h1
      · exact mem_replaceFirst_of_ne h1 h2
    · simp [mem_appendIfAbsent, h2]

theorem not_mem_specRename_old {o : List Name} {old new : Name} (hne : old ≠ new)
    (h : o.count old ≤ 1) : old ∉ specRename o old new false := by
  unfold specRename
  simp only [Bool.false_eq_true, if_false]
  split
  · split
    · exact not_mem_eraseFirst_self h
    · exact not_mem_replaceFirst_old hne h
  · rename_i h1
    simp [mem_appendIfAbsent, h1, hne]

theorem specRename_eq_specUpdate (o : List Name) {old new : Name} (hne : old ≠ new) (b : Bool) :
    specRename o old new b = specUpdate o (some new) (if b then none else some old) := by
  cases b <;> simp [specRename, specUpdate, hne]

theorem specDelete_eq_specUpdate (o : List Name) (g : Name) (b : Bool) :
    specDelete o g b = specUpdate o none (if b then none else some g) := by
  cases b <;> simp [specDelete, specUpdate]

/-! ## What each glyph operation does when nothing is held or disabled on its layer -/

theorem newGlyph_spec {f : Font} (hw : WF f) {L : String} {l : Layer}
    (hget : AL.get? f.layers L = some l) (hh : l.held = 0) (hd : l.disabled = 0) (g : Name) :
    (newGlyph f L g).2 = .ok ∧
    (newGlyph f L g).1.layers = (setLayer f L { l with glyphs := addName l.glyphs g }).layers ∧
    glyphOrder (newGlyph f L g).1 = specCreate (glyphOrder f) g := by
  have ho := observed_of_get? hw hget
  have hget1 : AL.get? (setLayer f L { l with glyphs := addName l.glyphs g }).layers L =
      some { l with glyphs := addName l.glyphs g } := by rw [get?_setLayer, if_pos rfl]
  unfold newGlyph
  rw [hget]
  simp only
  rw [post_calm hget1 hh hd ho]
  refine ⟨trivial, layers_deliver _ _, ?_⟩
  rw [glyphOrder_deliver]; rfl

theorem delGlyph_spec {f : Font} (hw : WF f) {L : String} {l : Layer}
    (hget : AL.get? f.layers L = some l) (hh : l.held = 0) (hd : l.disabled = 0)
    {g : Name} (hm : g ∈ l.glyphs) :
    (delGlyph f L g).2 = .ok ∧
    (delGlyph f L g).1.layers = (setLayer f L { l with glyphs := removeName l.glyphs g }).layers ∧
    ∃ b : Bool, (b = true ↔ ExistsElsewhere f L g) ∧
      glyphOrder (delGlyph f L g).1 = specDelete (glyphOrder f) g b := by
  have ho := observed_of_get? hw hget
  have hget1 : AL.get? (setLayer f L { l with glyphs := removeName l.glyphs g }).layers L =
      some { l with glyphs := removeName l.glyphs g } := by rw [get?_setLayer, if_pos rfl]
  have hw1 := wf_setLayer hw L { l with glyphs := removeName l.glyphs g } ho
  unfold delGlyph
  rw [hget]
  simp only [hm, if_true]
  rw [post_calm hget1 hh hd ho]
  refine ⟨trivial, layers_deliver _ _,
    anyLayerHas (setLayer f L { l with glyphs := removeName l.glyphs g }) g, ?_, ?_⟩
  · rw [anyLayerHas_iff hw1.names, exists_setLayer]
    simp [mem_removeName]
  · rw [glyphOrder_deliver]
    have hg : glyphOrder (setLayer f L { l with glyphs := removeName l.glyphs g }) = glyphOrder f := rfl
    rw [hg]
    simp only [specDeliver, deliverArgs]
    generalize anyLayerHas (setLayer f L { l with glyphs := removeName l.glyphs g }) g = b
    cases b <;> simp [specDelete, specUpdate]

theorem rename_spec {f : Font} (hw : WF f) {L : String} {l : Layer}
    (hget : AL.get? f.layers L = some l) (hh : l.held = 0) (hd : l.disabled = 0)
    {old new : Name} (hm : old ∈ l.glyphs) (hne : old ≠ new) :
    (rename f L old new).2 = .ok ∧
    (rename f L old new).1.layers =
      (setLayer f L { l with glyphs := addName (removeName l.glyphs old) new }).layers ∧
    ∃ b : Bool, (b = true ↔ ExistsElsewhere f L old) ∧
      glyphOrder (rename f L old new).1 = specRename (glyphOrder f) old new b := by
  have ho := observed_of_get? hw hget
  have hget1 : AL.get? (setLayer f L { l with glyphs := addName (removeName l.glyphs old) new }).layers L =
      some { l with glyphs := addName (removeName l.glyphs old) new } := by rw [get?_setLayer, if_pos rfl]
  have hw1 := wf_setLayer hw L { l with glyphs := addName (removeName l.glyphs old) new } ho
  unfold rename
  rw [hget]
  simp only [hm, hne, if_true, if_false]
  rw [post_calm hget1 hh hd ho]
  refine ⟨trivial, layers_deliver _ _,
    anyLayerHas (setLayer f L { l with glyphs := addName (removeName l.glyphs old) new }) old, ?_, ?_⟩
  · rw [anyLayerHas_iff hw1.names, exists_setLayer]
    simp [mem_addName, mem_removeName, hne]
  · rw [glyphOrder_deliver, specRename_eq_specUpdate _ hne]
    rfl

/-- nothing held, nothing disabled, nothing queued: `Layer.insertGlyph`'s own hold/release bracket
delivers its one `Layer.GlyphAdded` at the release — the outcome is that of `newGlyph` -/
theorem insertGlyph_calm {f : Font} {L : String} {l : Layer} (hget : AL.get? f.layers L = some l)
    (hc : l.calm) (g : Name) : insertGlyph f L g = newGlyph f L g := by
  obtain ⟨hh, hd, hq⟩ := hc
  obtain ⟨gl, ob, he, qu, di⟩ := l
  simp only at hh hd hq
  subst hh; subst hd; subst hq
  have e1 : (holdLayer f L).1 =
      setLayer f L { glyphs := gl, observed := ob, held := 1, queue := [], disabled := 0 } := by
    unfold holdLayer; rw [hget]
  have e2 : (newGlyph (setLayer f L { glyphs := gl, observed := ob, held := 1, queue := [], disabled := 0 }) L g).1 =
      setLayer f L { glyphs := addName gl g, observed := ob, held := 1, queue := [.added g], disabled := 0 } := by
    unfold newGlyph
    rw [get?_setLayer, if_pos rfl]
    simp only
    rw [setLayer_setLayer,
      post_held (l := { glyphs := addName gl g, observed := ob, held := 1, queue := [], disabled := 0 })
        (by rw [get?_setLayer, if_pos rfl]) (by simp) rfl,
      setLayer_setLayer]
    simp [enqueue]
  have e3 : (releaseLayer (setLayer f L
      { glyphs := addName gl g, observed := ob, held := 1, queue := [.added g], disabled := 0 }) L).1 =
      post (setLayer f L { glyphs := addName gl g, observed := ob, held := 0, queue := [], disabled := 0 }) L
        (.added g) := by
    unfold releaseLayer
    rw [get?_setLayer, if_pos rfl]
    simp only [Nat.one_ne_zero, if_false, if_true]
    rw [setLayer_setLayer]
    rfl
  unfold insertGlyph
  rw [hget]
  simp only
  rw [e1, e2, e3]
  unfold newGlyph
  rw [hget]

/-! ## Calm fonts stay calm under operations that do not hold or disable -/

theorem calm_congr {f f' : Font} (h : f'.layers = f.layers) (hc : Calm f) : Calm f' := by
  unfold Calm; rw [h]; exact hc

theorem calm_setLayer {f : Font} (hc : Calm f) (L : String) (l' : Layer) (h : l'.calm) :
    Calm (setLayer f L l') := by
  intro kl hkl
  rcases AL.mem_set hkl with e | e
  · rw [e]; exact h
  · exact hc kl e

theorem calm_of_get? {f : Font} (hc : Calm f) {L : String} {l : Layer}
    (hget : AL.get? f.layers L = some l) : l.calm := hc (L, l) (AL.mem_of_get? hget)

theorem Undisturbed.of_get {f : Font} {L : String} {l : Layer} (h : Undisturbed f L)
    (hget : AL.get? f.layers L = some l) : l.held = 0 ∧ l.disabled = 0 := by
  unfold Undisturbed at h; rw [hget] at h; exact h

theorem undisturbed_of_calm {f : Font} (hc : Calm f) (L : String) : Undisturbed f L := by
  unfold Undisturbed
  cases hget : AL.get? f.layers L with
  | none => trivial
  | some l => exact ⟨(calm_of_get? hc hget).1, (calm_of_get? hc hget).2.1⟩

theorem calm_of_sublayers {f f' : Font} (hc : Calm f)
    (hm : ∀ kl ∈ f'.layers, ∃ k', (k', kl.2) ∈ f.layers) : Calm f' := by
  intro kl hkl
  obtain ⟨k', h⟩ := hm kl hkl
  exact hc (k', kl.2) h

theorem calm_newGlyph {f : Font} (hw : WF f) (hc : Calm f) (L : String) (g : Name) :
    Calm (newGlyph f L g).1 := by
  cases hget : AL.get? f.layers L with
  | none => simp only [newGlyph, hget]; exact hc
  | some l =>
    obtain ⟨hh, hd, hq⟩ := calm_of_get? hc hget
    exact calm_congr (newGlyph_spec hw hget hh hd g).2.1 (calm_setLayer hc L _ ⟨hh, hd, hq⟩)

theorem calm_insertGlyph {f : Font} (hw : WF f) (hc : Calm f) (L : String) (g : Name) :
    Calm (insertGlyph f L g).1 := by
  cases hget : AL.get? f.layers L with
  | none => simp only [insertGlyph, hget]; exact hc
  | some l => rw [insertGlyph_calm hget (calm_of_get? hc hget)]; exact calm_newGlyph hw hc L g

theorem calm_delGlyph {f : Font} (hw : WF f) (hc : Calm f) (L : String) (g : Name) :
    Calm (delGlyph f L g).1 := by
  cases hget : AL.get? f.layers L with
  | none => simp only [delGlyph, hget]; exact hc
  | some l =>
    obtain ⟨hh, hd, hq⟩ := calm_of_get? hc hget
    by_cases hm : g ∈ l.glyphs
    · exact calm_congr (delGlyph_spec hw hget hh hd hm).2.1 (calm_setLayer hc L _ ⟨hh, hd, hq⟩)
    · simp only [delGlyph, hget, hm, if_false]; exact hc

theorem calm_rename {f : Font} (hw : WF f) (hc : Calm f) (L : String) (old new : Name) :
    Calm (rename f L old new).1 := by
  cases hget : AL.get? f.layers L with
  | none => simp only [rename, hget]; exact hc
  | some l =>
    obtain ⟨hh, hd, hq⟩ := calm_of_get? hc hget
    by_cases hm : old ∈ l.glyphs
    · by_cases hne : old = new
      · subst hne; simp only [rename, hget, hm, if_true]; exact hc
      · exact calm_congr (rename_spec hw hget hh hd hm hne).2.1 (calm_setLayer hc L _ ⟨hh, hd, hq⟩)
    · simp only [rename, hget, hm, if_false]; exact hc

theorem calm_step {f : Font} (hw : WF f) (hc : Calm f) (op : Op) (hs : op.isSuspend = false) :
    Calm (step f op).1 := by
  cases op with
  | setOrder v => exact calm_congr (by simp [step]) hc
  | setLib v =>
    simp only [step, setLib]
    split
    · exact calm_congr (f := f) rfl hc
    · split
      · exact calm_congr (f := f) rfl hc
      · exact hc
  | newGlyph L g => exact calm_newGlyph hw hc L g
  | insertGlyph L g => exact calm_insertGlyph hw hc L g
  | delGlyph L g => exact calm_delGlyph hw hc L g
  | rename L o n => exact calm_rename hw hc L o n
  | newLayer n =>
    simp only [step, newLayer]
    split
    · exact hc
    · exact calm_setLayer hc n _ ⟨rfl, rfl, rfl⟩
  | delLayer n =>
    simp only [step, delLayer]
    cases hget : AL.get? f.layers n with
    | none => exact hc
    | some l =>
      simp only
      split
      · exact calm_of_sublayers hc (fun kl h => ⟨kl.1, AL.mem_erase h⟩)
      · exact calm_of_sublayers hc (fun kl h => ⟨kl.1, AL.mem_erase h⟩)
  | renameLayer o n =>
    simp only [step, renameLayer]
    cases hget : AL.get? f.layers o with
    | none => exact hc
    | some l =>
      simp only
      split
      · exact hc
      · split
        · exact hc
        · split
          · exact hc
          · refine calm_of_sublayers hc ?_
            intro kl h
            obtain ⟨k', h1, _⟩ := mem_renameKey h
            exact ⟨k', h1⟩
  | setLayerOrder ns =>
    simp only [step, setLayerOrder]
    split
    · exact hc
    · split
      · exact calm_of_sublayers hc (fun kl h => ⟨kl.1, mem_reorder h⟩)
      · exact hc
  | setDefault n =>
    simp only [step, setDefault]
    split
    · exact calm_congr (f := f) rfl hc
    · exact hc
  | fontNewGlyph g =>
    simp only [step, fontNewGlyph]
    cases f.default with
    | none => exact calm_congr (f := f) rfl hc
    | some L => exact calm_newGlyph hw hc L g
  | fontInsertGlyph g =>
    simp only [step, fontInsertGlyph]
    cases f.default with
    | none => exact calm_congr (f := f) rfl hc
    | some L => exact calm_insertGlyph hw hc L g
  | fontDelGlyph g =>
    simp only [step, fontDelGlyph]
    cases f.default with
    | none =>
      simp only
      split
      · exact calm_congr (f := f) rfl hc
      · exact hc
    | some L => exact calm_delGlyph hw hc L g
  | holdLayer L => simp [Op.isSuspend] at hs
  | releaseLayer L => simp [Op.isSuspend] at hs
  | disableLayer L => simp [Op.isSuspend] at hs
  | enableLayer L => simp [Op.isSuspend] at hs
  | holdFont => exact calm_congr (f := f) rfl hc
  | releaseFont =>
    simp only [step, releaseFont]
    split
    · exact hc
    · exact calm_congr (f := f) rfl hc

theorem calm_run {f : Font} (hw : WF f) (hc : Calm f) (ops : List Op)
    (hs : ∀ op ∈ ops, op.isSuspend = false) : Calm (run f ops) := by
  induction ops generalizing f with
  | nil => exact hc
  | cons op r ih =>
    simp only [run]
    exact ih (wf_step hw op) (calm_step hw hc op (hs op (List.mem_cons_self ..)))
      (fun o ho => hs o (List.mem_cons_of_mem _ ho))

/-! ## Missing names never appear, stale names never appear (nothing held or disabled) -/

theorem exists_newLayer {f : Font} {name : String} (hc : AL.contains f.layers name = false) (n : Name) :
    Exists (setLayer f name { glyphs := [], observed := true }) n ↔ Exists f n := by
  have hnone : AL.get? f.layers name = none := by
    unfold AL.contains at hc
    cases h : AL.get? f.layers name with
    | none => rfl
    | some x => simp [h] at hc
  rw [exists_setLayer]
  constructor
  · rintro (h | h)
    · exact exists_of_elsewhere h
    · simp at h
  · rintro ⟨L2, l2, h2, hm⟩
    refine Or.inl ⟨L2, l2, ?_, h2, hm⟩
    intro e; subst e; rw [hnone] at h2; cases h2

theorem exists_of_exists_erase {f f' : Font} (hn : (AL.keys f.layers).Nodup) {name : String} {n : Name}
    (hl : f'.layers = AL.erase f.layers name) (h : Exists f' n) : Exists f n := by
  obtain ⟨L2, l2, h2, hm⟩ := h
  rw [hl] at h2
  by_cases e : name = L2
  · subst e
    rw [AL.get?_erase_self_of_nodup _ _ hn] at h2; cases h2
  · rw [AL.get?_erase_ne _ _ _ e] at h2
    exact ⟨L2, l2, h2, hm⟩

theorem exists_of_exists_renameKey {f f' : Font} (hn : (AL.keys f.layers).Nodup) {old new : String}
    (hnew : new ∉ AL.keys f.layers) {n : Name} (hl : f'.layers = renameKey f.layers old new)
    (h : Exists f' n) : Exists f n := by
  obtain ⟨L2, l2, h2, hm⟩ := h
  rw [hl, get?_renameKey old new hn hnew] at h2
  split at h2
  · exact ⟨old, l2, h2, hm⟩
  · split at h2
    · cases h2
    · exact ⟨L2, l2, h2, hm⟩

theorem exists_of_exists_reorder {f f' : Font} {names : List String} {n : Name}
    (hl : f'.layers = reorder f.layers names) (h : Exists f' n) : Exists f n := by
  obtain ⟨L2, l2, h2, hm⟩ := h
  rw [hl, get?_reorder] at h2
  split at h2
  · exact ⟨L2, l2, h2, hm⟩
  · cases h2

/-- an operation that leaves the order alone and creates no glyph -/
theorem missing_of_sub {f f' : Font} {n : Name} (hex : Exists f' n → Exists f n)
    (ho : glyphOrder f' = glyphOrder f) (h1 : Exists f' n) (h2 : n ∉ glyphOrder f') :
    Exists f n ∧ n ∉ glyphOrder f := ⟨hex h1, by rw [← ho]; exact h2⟩

theorem missing_newGlyph {f : Font} (hw : WF f) (hc : Calm f) (L : String) (g n : Name)
    (hex : Exists (newGlyph f L g).1 n) (hno : n ∉ glyphOrder (newGlyph f L g).1) :
    Exists f n ∧ n ∉ glyphOrder f := by
  cases hget : AL.get? f.layers L with
  | none => simp only [newGlyph, hget] at hex hno; exact ⟨hex, hno⟩
  | some l =>
    obtain ⟨hh, hd, _⟩ := calm_of_get? hc hget
    obtain ⟨_, hl, ho⟩ := newGlyph_spec hw hget hh hd g
    rw [ho] at hno
    unfold specCreate at hno
    rw [mem_appendIfAbsent, not_or] at hno
    rw [exists_congr hl, exists_setLayer] at hex
    refine ⟨?_, hno.1⟩
    rcases hex with h | h
    · exact exists_of_elsewhere h
    · simp only [mem_addName] at h
      rcases h with h | h
      · exact ⟨L, l, hget, h⟩
      · exact absurd h hno.2

theorem missing_delGlyph {f : Font} (hw : WF f) (hc : Calm f) (L : String) (g n : Name)
    (hex : Exists (delGlyph f L g).1 n) (hno : n ∉ glyphOrder (delGlyph f L g).1) :
    Exists f n ∧ n ∉ glyphOrder f := by
  cases hget : AL.get? f.layers L with
  | none => simp only [delGlyph, hget] at hex hno; exact ⟨hex, hno⟩
  | some l =>
    obtain ⟨hh, hd, _⟩ := calm_of_get? hc hget
    by_cases hm : g ∈ l.glyphs
    · obtain ⟨_, hl, b, hb, ho⟩ := delGlyph_spec hw hget hh hd hm
      rw [ho] at hno
      rw [exists_congr hl, exists_setLayer] at hex
      simp only [mem_removeName] at hex
      have hexf : Exists f n := by
        rcases hex with h | h
        · exact exists_of_elsewhere h
        · exact ⟨L, l, hget, h.1⟩
      refine ⟨hexf, ?_⟩
      unfold specDelete at hno
      cases b with
      | true => simpa using hno
      | false =>
        simp only [Bool.false_eq_true, if_false] at hno
        have hne : n ≠ g := by
          intro e; subst e
          rcases hex with h | h
          · exact absurd (hb.mpr h) (by simp)
          · exact h.2 rfl
        rwa [mem_eraseFirst_of_ne hne] at hno
    · simp only [delGlyph, hget, hm, if_false] at hex hno; exact ⟨hex, hno⟩

theorem missing_rename {f : Font} (hw : WF f) (hc : Calm f) (L : String) (old new n : Name)
    (hex : Exists (rename f L old new).1 n) (hno : n ∉ glyphOrder (rename f L old new).1) :
    Exists f n ∧ n ∉ glyphOrder f := by
  cases hget : AL.get? f.layers L with
  | none => simp only [rename, hget] at hex hno; exact ⟨hex, hno⟩
  | some l =>
    obtain ⟨hh, hd, _⟩ := calm_of_get? hc hget
    by_cases hm : old ∈ l.glyphs
    · by_cases hne : old = new
      · subst hne; simp only [rename, hget, hm, if_true] at hex hno; exact ⟨hex, hno⟩
      · obtain ⟨_, hl, b, hb, ho⟩ := rename_spec hw hget hh hd hm hne
        rw [ho] at hno
        rw [exists_congr hl, exists_setLayer] at hex
        simp only [mem_addName, mem_removeName] at hex
        have hn_new : n ≠ new := by
          intro e; subst e; exact hno (mem_specRename_new _ hne b)
        have hexf : Exists f n := by
          rcases hex with h | h | h
          · exact exists_of_elsewhere h
          · exact ⟨L, l, hget, h.1⟩
          · exact absurd h hn_new
        refine ⟨hexf, ?_⟩
        cases b with
        | true =>
          unfold specRename at hno
          simp only [if_true] at hno
          rw [mem_appendIfAbsent, not_or] at hno
          exact hno.1
        | false =>
          have hn_old : n ≠ old := by
            intro e; subst e
            rcases hex with h | h | h
            · exact absurd (hb.mpr h) (by simp)
            · exact h.2 rfl
            · exact hne h
          rwa [mem_specRename_of_ne _ hn_old hn_new] at hno
    · simp only [rename, hget, hm, if_false] at hex hno; exact ⟨hex, hno⟩

/-- No operation through which the font updates the order makes a name *missing*, as long as no
layer's notifications are held or disabled: a glyph name that exists afterwards and is not in the
order existed before and was not in the order before. -/
theorem missing_step {f : Font} (hw : WF f) (hc : Calm f) (op : Op) (hu : op.isUpdate = true)
    (hs : op.isSuspend = false) (n : Name)
    (hex : Exists (step f op).1 n) (hno : n ∉ glyphOrder (step f op).1) :
    Exists f n ∧ n ∉ glyphOrder f := by
  cases op with
  | setOrder v => simp [Op.isUpdate] at hu
  | setLib v => simp [Op.isUpdate] at hu
  | holdLayer L => simp [Op.isSuspend] at hs
  | releaseLayer L => simp [Op.isSuspend] at hs
  | disableLayer L => simp [Op.isSuspend] at hs
  | enableLayer L => simp [Op.isSuspend] at hs
  | newGlyph L g => exact missing_newGlyph hw hc L g n hex hno
  | insertGlyph L g =>
    simp only [step] at hex hno
    cases hget : AL.get? f.layers L with
    | none => simp only [insertGlyph, hget] at hex hno; exact ⟨hex, hno⟩
    | some l =>
      rw [insertGlyph_calm hget (calm_of_get? hc hget)] at hex hno
      exact missing_newGlyph hw hc L g n hex hno
  | delGlyph L g => exact missing_delGlyph hw hc L g n hex hno
  | rename L o nw => exact missing_rename hw hc L o nw n hex hno
  | newLayer name =>
    simp only [step, newLayer] at hex hno
    split at hex
    · simp only [*] at hno; exact ⟨hex, by simpa using hno⟩
    · rename_i hcn
      simp only [hcn] at hno
      exact ⟨(exists_newLayer (by simpa using hcn) n).mp hex, hno⟩
  | delLayer name =>
    simp only [step, delLayer] at hex hno
    cases hget : AL.get? f.layers name with
    | none => simp only [hget] at hex hno; exact ⟨hex, hno⟩
    | some l =>
      simp only [hget] at hex hno
      split at hex
      · rename_i hd
        simp only [hd, if_true] at hno
        exact ⟨exists_of_exists_erase hw.names rfl hex, hno⟩
      · rename_i hd
        simp only [hd, if_false] at hno
        exact ⟨exists_of_exists_erase hw.names rfl hex, hno⟩
  | renameLayer o nw =>
    simp only [step, renameLayer] at hex hno
    cases hget : AL.get? f.layers o with
    | none => simp only [hget] at hex hno; exact ⟨hex, hno⟩
    | some l =>
      simp only [hget] at hex hno
      by_cases h1 : o = nw
      · simp only [h1, if_true] at hex hno; exact ⟨hex, hno⟩
      · simp only [h1, if_false] at hex hno
        by_cases h2 : AL.contains f.layers nw = true
        · simp only [h2, if_true] at hex hno; exact ⟨hex, hno⟩
        · simp only [h2] at hex hno
          by_cases h3 : l.held ≠ 0 ∨ l.disabled ≠ 0
          · simp only [h3, if_true] at hex hno; exact ⟨hex, hno⟩
          · simp only [h3, if_false] at hex hno
            exact ⟨exists_of_exists_renameKey hw.names (not_mem_keys_of_contains_false h2) rfl hex, hno⟩
  | setLayerOrder ns =>
    simp only [step, setLayerOrder] at hex hno
    by_cases h1 : AL.keys f.layers = ns
    · simp only [h1, if_true] at hex hno; exact ⟨hex, hno⟩
    · rw [if_neg h1] at hex hno
      by_cases h2 : ns.length = (AL.keys f.layers).length ∧ (∀ n ∈ ns, n ∈ AL.keys f.layers) ∧
          (∀ k ∈ AL.keys f.layers, k ∈ ns)
      · rw [if_pos h2] at hex hno
        exact ⟨exists_of_exists_reorder rfl hex, hno⟩
      · rw [if_neg h2] at hex hno
        exact ⟨hex, hno⟩
  | setDefault name =>
    simp only [step, setDefault] at hex hno
    split at hex
    · rename_i h2
      simp only [h2, if_true] at hno
      exact ⟨hex, hno⟩
    · rename_i h2
      simp only [h2] at hno
      exact ⟨hex, hno⟩
  | fontNewGlyph g =>
    simp only [step, fontNewGlyph] at hex hno
    cases hd : f.default with
    | none => simp only [hd] at hex hno; exact ⟨hex, hno⟩
    | some L => simp only [hd] at hex hno; exact missing_newGlyph hw hc L g n hex hno
  | fontInsertGlyph g =>
    simp only [step, fontInsertGlyph] at hex hno
    cases hd : f.default with
    | none => simp only [hd] at hex hno; exact ⟨hex, hno⟩
    | some L =>
      simp only [hd] at hex hno
      cases hget : AL.get? f.layers L with
      | none => simp only [insertGlyph, hget] at hex hno; exact ⟨hex, hno⟩
      | some l =>
        rw [insertGlyph_calm hget (calm_of_get? hc hget)] at hex hno
        exact missing_newGlyph hw hc L g n hex hno
  | fontDelGlyph g =>
    simp only [step, fontDelGlyph] at hex hno
    cases hd : f.default with
    | none =>
      simp only [hd] at hex hno
      split at hex
      · rename_i h2; simp only [h2, if_true] at hno; exact ⟨hex, hno⟩
      · rename_i h2; simp only [h2, if_false] at hno; exact ⟨hex, hno⟩
    | some L => simp only [hd] at hex hno; exact missing_delGlyph hw hc L g n hex hno
  | holdFont => exact ⟨hex, hno⟩
  | releaseFont =>
    simp only [step, releaseFont] at hex hno
    split at hex
    · rename_i h2; simp only [h2, if_true] at hno; exact ⟨hex, hno⟩
    · rename_i h2; simp only [h2, if_false] at hno; exact ⟨hex, hno⟩

theorem stale_newGlyph {f : Font} (hw : WF f) (hc : Calm f) (L : String) (g n : Name)
    (hin : n ∈ glyphOrder (newGlyph f L g).1) (hnex : ¬ Exists (newGlyph f L g).1 n) :
    n ∈ glyphOrder f ∧ ¬ Exists f n := by
  cases hget : AL.get? f.layers L with
  | none => simp only [newGlyph, hget] at hin hnex; exact ⟨hin, hnex⟩
  | some l =>
    obtain ⟨hh, hd, _⟩ := calm_of_get? hc hget
    obtain ⟨_, hl, ho⟩ := newGlyph_spec hw hget hh hd g
    rw [ho] at hin
    unfold specCreate at hin
    rw [mem_appendIfAbsent] at hin
    rw [exists_congr hl, exists_setLayer] at hnex
    simp only [mem_addName, not_or] at hnex
    refine ⟨?_, ?_⟩
    · rcases hin with h | h
      · exact h
      · exact absurd h hnex.2.2
    · intro hex
      rcases (exists_split hget n).mp hex with h | h
      · exact hnex.1 h
      · exact hnex.2.1 h

theorem stale_delGlyph {f : Font} (hw : WF f) (hc : Calm f) (hcount : ∀ x, (glyphOrder f).count x ≤ 1)
    (L : String) (g n : Name)
    (hin : n ∈ glyphOrder (delGlyph f L g).1) (hnex : ¬ Exists (delGlyph f L g).1 n) :
    n ∈ glyphOrder f ∧ ¬ Exists f n := by
  cases hget : AL.get? f.layers L with
  | none => simp only [delGlyph, hget] at hin hnex; exact ⟨hin, hnex⟩
  | some l =>
    obtain ⟨hh, hd, _⟩ := calm_of_get? hc hget
    by_cases hm : g ∈ l.glyphs
    · obtain ⟨_, hl, b, hb, ho⟩ := delGlyph_spec hw hget hh hd hm
      rw [ho] at hin
      rw [exists_congr hl, exists_setLayer] at hnex
      simp only [mem_removeName, not_or, not_and, Decidable.not_not] at hnex
      unfold specDelete at hin
      cases b with
      | true =>
        simp only [if_true] at hin
        refine ⟨hin, ?_⟩
        intro hex
        rcases (exists_split hget n).mp hex with h | h
        · exact hnex.1 h
        · have e := hnex.2 h
          subst e
          exact hnex.1 (hb.mp rfl)
      | false =>
        simp only [Bool.false_eq_true, if_false] at hin
        have hne : n ≠ g := by
          intro e; subst e; exact not_mem_eraseFirst_self (hcount n) hin
        refine ⟨mem_of_mem_eraseFirst hin, ?_⟩
        intro hex
        rcases (exists_split hget n).mp hex with h | h
        · exact hnex.1 h
        · exact hne (hnex.2 h)
    · simp only [delGlyph, hget, hm, if_false] at hin hnex; exact ⟨hin, hnex⟩

theorem stale_rename {f : Font} (hw : WF f) (hc : Calm f) (hcount : ∀ x, (glyphOrder f).count x ≤ 1)
    (L : String) (old new n : Name)
    (hin : n ∈ glyphOrder (rename f L old new).1) (hnex : ¬ Exists (rename f L old new).1 n) :
    n ∈ glyphOrder f ∧ ¬ Exists f n := by
  cases hget : AL.get? f.layers L with
  | none => simp only [rename, hget] at hin hnex; exact ⟨hin, hnex⟩
  | some l =>
    obtain ⟨hh, hd, _⟩ := calm_of_get? hc hget
    by_cases hm : old ∈ l.glyphs
    · by_cases hne : old = new
      · subst hne; simp only [rename, hget, hm, if_true] at hin hnex; exact ⟨hin, hnex⟩
      · obtain ⟨_, hl, b, hb, ho⟩ := rename_spec hw hget hh hd hm hne
        rw [ho] at hin
        rw [exists_congr hl, exists_setLayer] at hnex
        simp only [mem_addName, mem_removeName, not_or, not_and, Decidable.not_not] at hnex
        have hn_new : n ≠ new := hnex.2.2
        cases b with
        | true =>
          unfold specRename at hin
          simp only [if_true] at hin
          rw [mem_appendIfAbsent] at hin
          refine ⟨hin.resolve_right hn_new, ?_⟩
          intro hex
          rcases (exists_split hget n).mp hex with h | h
          · exact hnex.1 h
          · have e := hnex.2.1 h
            subst e
            exact hnex.1 (hb.mp rfl)
        | false =>
          have hn_old : n ≠ old := by
            intro e; subst e; exact not_mem_specRename_old hne (hcount n) hin
          rw [mem_specRename_of_ne _ hn_old hn_new] at hin
          refine ⟨hin, ?_⟩
          intro hex
          rcases (exists_split hget n).mp hex with h | h
          · exact hnex.1 h
          · exact hn_old (hnex.2.1 h)
    · simp only [rename, hget, hm, if_false] at hin hnex; exact ⟨hin, hnex⟩

/-- No glyph-set operation makes a name *stale* when the order has no duplicates and nothing is held
or disabled: a name that is in the order afterwards although no layer has such a glyph was already
in that situation before. -/
theorem stale_step {f : Font} (hw : WF f) (hc : Calm f) (hnd : (glyphOrder f).Nodup) (op : Op)
    (hg : op.isGlyphOp = true) (n : Name)
    (hin : n ∈ glyphOrder (step f op).1) (hnex : ¬ Exists (step f op).1 n) :
    n ∈ glyphOrder f ∧ ¬ Exists f n := by
  have hcount : ∀ x, (glyphOrder f).count x ≤ 1 := List.nodup_iff_count.mp hnd
  cases op with
  | newGlyph L g => exact stale_newGlyph hw hc L g n hin hnex
  | insertGlyph L g =>
    simp only [step] at hin hnex
    cases hget : AL.get? f.layers L with
    | none => simp only [insertGlyph, hget] at hin hnex; exact ⟨hin, hnex⟩
    | some l =>
      rw [insertGlyph_calm hget (calm_of_get? hc hget)] at hin hnex
      exact stale_newGlyph hw hc L g n hin hnex
  | delGlyph L g => exact stale_delGlyph hw hc hcount L g n hin hnex
  | rename L o nw => exact stale_rename hw hc hcount L o nw n hin hnex
  | fontNewGlyph g =>
    simp only [step, fontNewGlyph] at hin hnex
    cases hd : f.default with
    | none => simp only [hd] at hin hnex; exact ⟨hin, hnex⟩
    | some L => simp only [hd] at hin hnex; exact stale_newGlyph hw hc L g n hin hnex
  | fontInsertGlyph g =>
    simp only [step, fontInsertGlyph] at hin hnex
    cases hd : f.default with
    | none => simp only [hd] at hin hnex; exact ⟨hin, hnex⟩
    | some L =>
      simp only [hd] at hin hnex
      cases hget : AL.get? f.layers L with
      | none => simp only [insertGlyph, hget] at hin hnex; exact ⟨hin, hnex⟩
      | some l =>
        rw [insertGlyph_calm hget (calm_of_get? hc hget)] at hin hnex
        exact stale_newGlyph hw hc L g n hin hnex
  | fontDelGlyph g =>
    simp only [step, fontDelGlyph] at hin hnex
    cases hd : f.default with
    | none =>
      simp only [hd] at hin hnex
      split at hin
      · rename_i h2; simp only [h2, if_true] at hnex; exact ⟨hin, hnex⟩
      · rename_i h2; simp only [h2, if_false] at hnex; exact ⟨hin, hnex⟩
    | some L => simp only [hd] at hin hnex; exact stale_delGlyph hw hc hcount L g n hin hnex
  | _ => simp [Op.isGlyphOp] at hg

end GlyphOrder
end DefconModel
