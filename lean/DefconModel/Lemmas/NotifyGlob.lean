/-
Helper lemmas about the glob matcher of M-Notify (`fnmatch.fnmatchcase` as `findObservations`
uses it): the executable matcher decides the declarative `Matches`, and facts about the scan of
bracket expressions.  Property theorems live in Props/C04.lean.
-/
import DefconModel.Notify
import DefconModel.Spec.Notify

namespace DefconModel
namespace Notify

theorem inSet_iff (items : List (Char × Char)) (c : Char) : inSet items c = true ↔ InSet items c := by
  unfold inSet InSet
  simp only [List.any_eq_true, Bool.and_eq_true, decide_eq_true_eq]

theorem starM_iff (f : List Char → Bool) (s : List Char) :
    starM f s = true ↔ ∃ u v, s = u ++ v ∧ f v = true := by
  induction s with
  | nil =>
    simp only [starM]
    constructor
    · intro h; exact ⟨[], [], rfl, h⟩
    · rintro ⟨u, v, huv, h⟩
      have hv : v = [] := by
        cases u with
        | nil => simpa using huv.symm
        | cons a u => simp at huv
      rw [hv] at h; exact h
  | cons c s ih =>
    simp only [starM, Bool.or_eq_true, ih]
    constructor
    · rintro (h | ⟨u, v, huv, h⟩)
      · exact ⟨[], c :: s, rfl, h⟩
      · exact ⟨c :: u, v, by rw [huv]; rfl, h⟩
    · rintro ⟨u, v, huv, h⟩
      cases u with
      | nil =>
        left
        have : v = c :: s := by simpa using huv.symm
        rw [this] at h; exact h
      | cons a u =>
        right
        simp only [List.cons_append, List.cons.injEq] at huv
        exact ⟨u, v, huv.2, h⟩

theorem globT_iff (ts : List Tok) : ∀ s : List Char, globT ts s = true ↔ Matches ts s := by
  induction ts with
  | nil =>
    intro s
    cases s <;> simp [globT, Matches]
  | cons t ts ih =>
    intro s
    cases t with
    | lit c =>
      cases s with
      | nil => simp [globT, litM, Matches]
      | cons d s =>
        simp only [globT, litM, Matches, Bool.and_eq_true, beq_iff_eq, ih]
        constructor
        · rintro ⟨e, h⟩; exact ⟨s, by rw [e], h⟩
        · rintro ⟨s', e, h⟩
          simp only [List.cons.injEq] at e
          exact ⟨e.1.symm, by rw [e.2]; exact h⟩
    | any =>
      cases s with
      | nil => simp [globT, anyM, Matches]
      | cons d s =>
        simp only [globT, anyM, Matches, ih]
        constructor
        · intro h; exact ⟨d, s, rfl, h⟩
        · rintro ⟨d', s', e, h⟩
          simp only [List.cons.injEq] at e
          rw [e.2]; exact h
    | star =>
      simp only [globT, Matches, starM_iff]
      constructor
      · rintro ⟨u, v, e, h⟩; exact ⟨u, v, e, (ih v).mp h⟩
      · rintro ⟨u, v, e, h⟩; exact ⟨u, v, e, (ih v).mpr h⟩
    | set neg items =>
      cases s with
      | nil => simp [globT, setM, Matches]
      | cons d s =>
        simp only [globT, setM, Matches, Bool.and_eq_true, ih]
        have hset : (inSet items d != neg) = true ↔ (InSet items d ↔ neg = false) := by
          rw [← inSet_iff]
          cases inSet items d <;> cases neg <;> simp
        rw [hset]
        constructor
        · rintro ⟨h1, h2⟩; exact ⟨d, s, rfl, h1, h2⟩
        · rintro ⟨d', s', e, h1, h2⟩
          simp only [List.cons.injEq] at e
          obtain ⟨e1, e2⟩ := e
          subst e1; subst e2
          exact ⟨h1, h2⟩

/-! ### The scan of a pattern -/

theorem tokenizeF_open_unclosed (f : Nat) (p : List Char) (h : splitSet p = none) :
    tokenizeF (f + 1) ('[' :: p) = .lit '[' :: tokenizeF f p := by
  simp [tokenizeF, h]

theorem tokenizeF_open_closed (f : Nat) (p : List Char) (x : Bool × List Char × List Char)
    (h : splitSet p = some x) :
    tokenizeF (f + 1) ('[' :: p) = setTok x :: tokenizeF f x.2.2 := by
  simp [tokenizeF, h]

theorem untilClose_none_iff (p : List Char) : untilClose p = none ↔ ']' ∉ p := by
  induction p with
  | nil => simp [untilClose]
  | cons c r ih =>
    unfold untilClose
    by_cases hc : c = ']'
    · simp [hc]
    · simp only [hc, if_false]
      have hc' : ¬ ']' = c := fun e => hc e.symm
      cases hu : untilClose r with
      | none => simp [hc', ← ih, hu]
      | some x =>
        obtain ⟨b, rest⟩ := x
        simp only [reduceCtorEq, false_iff, List.mem_cons, not_or, not_and, Classical.not_not]
        intro _
        have : ¬ (untilClose r = none) := by rw [hu]; simp
        rw [ih] at this
        simpa using this

end Notify
end DefconModel
