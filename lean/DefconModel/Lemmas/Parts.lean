import DefconModel.Parts

namespace DefconModel
namespace Parts

theorem get_spec (p : Part) (h : WF p) :
    WF (get p).1 ∧ abs (get p).1 = abs p ∧ (get p).2 = abs p ∧ (get p).1.loaded = some (abs p) ∧
    (get p).1.disk = p.disk := by
  unfold get abs WF at *
  cases hl : p.loaded with
  | some b => simp [hl]; intro hd; exact h b hl hd
  | none => simp

theorem set_spec (p : Part) (b : Blob) (h : WF p) : WF (set p b) ∧ abs (set p b) = b := by
  obtain ⟨h1, h2, h3, h4, h5⟩ := get_spec p h
  unfold set
  simp only
  split
  · rename_i he
    exact ⟨h1, by rw [h2, ← h3, he]⟩
  · refine ⟨?_, by simp [abs]⟩
    intro b' _ hd; simp at hd

theorem set_same_silent (p : Part) (h : WF p) : set p (abs p) = (get p).1 := by
  obtain ⟨_, _, h3, _, _⟩ := get_spec p h
  unfold set
  simp [h3]

theorem saveAlways_spec (p : Part) (h : WF p) :
    WF (saveAlways p) ∧ abs (saveAlways p) = abs p ∧ (saveAlways p).disk = abs p ∧ (saveAlways p).dirty = false := by
  obtain ⟨h1, h2, h3, h4, h5⟩ := get_spec p h
  unfold saveAlways
  simp only
  refine ⟨?_, ?_, h3, by simp⟩
  · intro b' hb _
    simp only at hb ⊢
    rw [h4] at hb
    rw [h3]; exact Option.some.inj hb
  · simp only [abs]
    rw [h4]; rfl

/-- An always-written part is saved correctly whatever its flags say — no well-formedness needed.
This is why content changes that bypass the dirty flag (font guideline attributes) still persist. -/
theorem saveAlways_exact (p : Part) :
    (saveAlways p).disk = abs p ∧ abs (saveAlways p) = abs p ∧ (saveAlways p).dirty = false ∧ WF (saveAlways p) := by
  unfold saveAlways get abs WF
  cases hl : p.loaded with
  | some b => simp [hl]
  | none => simp [hl]

theorem setQuiet_abs (p : Part) (b : Blob) : abs (setQuiet p b) = b := by
  unfold setQuiet get abs
  cases hl : p.loaded <;> simp [hl]

theorem saveIfDirty_spec (sa : Bool) (p : Part) (h : WF p) :
    WF (saveIfDirty sa p) ∧ abs (saveIfDirty sa p) = abs p ∧ (saveIfDirty sa p).disk = abs p ∧
    (saveIfDirty sa p).dirty = false := by
  obtain ⟨h1, h2, h3, h4, h5⟩ := get_spec p h
  unfold saveIfDirty
  simp only
  split
  · refine ⟨?_, ?_, h3, by simp⟩
    · intro b' hb _
      simp only at hb ⊢
      rw [h4] at hb
      rw [h3]; exact Option.some.inj hb
    · simp only [abs]; rw [h4]; rfl
  · rename_i hn
    simp only [not_or] at hn
    have hd : (get p).1.dirty = false := by simpa using hn.1
    exact ⟨h1, h2, h1 _ h4 hd, hd⟩

theorem save_idempotent (p : Part) (h : WF p) : saveAlways (saveAlways p) = saveAlways p := by
  obtain ⟨h1, h2, h3, h4, h5⟩ := get_spec p h
  unfold saveAlways
  simp only
  cases hl : p.loaded with
  | some b => simp [get, hl]
  | none => simp [get, hl]

end Parts
end DefconModel
