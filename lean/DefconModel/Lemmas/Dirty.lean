/-
Helper lemmas about M-Dirty.
-/
import DefconModel.Dirty

namespace DefconModel
namespace Dirty

/-- `a` is dirty and its `*.Changed` has been delivered -/
def Done (s : State) (a : Nat) : Prop := a ∈ s.dirty ∧ a ∈ s.log

/-- `a` is dirty and its `*.Changed` waits in a hold on `a` -/
def Wait (s : State) (a : Nat) : Prop := a ∈ s.dirty ∧ held s a = true ∧ a ∈ s.pending

/-- along a chain: done from the bottom up to the first node that waits -/
def Inv (s : State) : List Nat → Prop
  | [] => True
  | a :: rest => (Done s a ∧ Inv s rest) ∨ Wait s a

/-- `s'` has the same suspensions and at least the flags, deliveries and queue entries of `s` -/
structure Le (s s' : State) : Prop where
  dirty : ∀ a, a ∈ s.dirty → a ∈ s'.dirty
  log : ∀ a, a ∈ s.log → a ∈ s'.log
  pending : ∀ a, a ∈ s.pending → a ∈ s'.pending
  holds : s'.holds = s.holds
  disabled : s'.disabled = s.disabled

theorem Le.refl (s : State) : Le s s := ⟨fun _ h => h, fun _ h => h, fun _ h => h, rfl, rfl⟩

theorem Le.trans {a b c : State} (h1 : Le a b) (h2 : Le b c) : Le a c :=
  ⟨fun x h => h2.dirty x (h1.dirty x h), fun x h => h2.log x (h1.log x h), fun x h => h2.pending x (h1.pending x h),
   h2.holds.trans h1.holds, h2.disabled.trans h1.disabled⟩

theorem le_setFlag (s : State) (x : Nat) : Le s (setFlag s x) := by
  unfold setFlag
  split
  · exact Le.refl s
  · exact ⟨fun a h => by simp [h], fun _ h => h, fun _ h => h, rfl, rfl⟩

theorem mem_setFlag (s : State) (x : Nat) : x ∈ (setFlag s x).dirty := by
  unfold setFlag
  split
  · assumption
  · simp

theorem le_announce (s : State) (c : List Nat) : Le s (announce s c) := by
  induction c generalizing s with
  | nil => exact Le.refl s
  | cons x rest ih =>
    unfold announce
    split
    · exact Le.refl s
    · split
      · split
        · exact Le.refl s
        · exact ⟨fun _ h => h, fun _ h => h, fun a h => by simp [h], rfl, rfl⟩
      · have h1 : Le s { s with log := s.log ++ [x] } := ⟨fun _ h => h, fun a h => by simp [h], fun _ h => h, rfl, rfl⟩
        cases rest with
        | nil => exact h1
        | cons p r => exact (h1.trans (le_setFlag _ p)).trans (ih _)

theorem held_le {s s' : State} (h : Le s s') (a : Nat) : held s' a = held s a := by
  unfold held; rw [h.holds]

theorem done_le {s s' : State} (h : Le s s') {a : Nat} (hd : Done s a) : Done s' a := ⟨h.dirty a hd.1, h.log a hd.2⟩

theorem wait_le {s s' : State} (h : Le s s') {a : Nat} (hw : Wait s a) : Wait s' a :=
  ⟨h.dirty a hw.1, by rw [held_le h]; exact hw.2.1, h.pending a hw.2.2⟩

theorem inv_le {s s' : State} (h : Le s s') (c : List Nat) (hi : Inv s c) : Inv s' c := by
  induction c with
  | nil => trivial
  | cons a rest ih =>
    rcases hi with ⟨hd, hr⟩ | hw
    · exact Or.inl ⟨done_le h hd, ih hr⟩
    · exact Or.inr (wait_le h hw)

/-- announcing along a chain whose bottom node is dirty establishes the invariant on that chain -/
theorem announce_inv (s : State) (c : List Nat) (x : Nat) (rest : List Nat) (hc : c = x :: rest)
    (hx : x ∈ s.dirty) (hdis : ∀ a ∈ c, a ∉ s.disabled) : Inv (announce s c) c := by
  subst hc
  induction rest generalizing s x with
  | nil =>
    unfold announce
    have hnd : x ∉ s.disabled := hdis x (by simp)
    simp only [hnd, if_false]
    split
    · split
      · rename_i hh hp; exact Or.inr ⟨hx, hh, hp⟩
      · rename_i hh hp; exact Or.inr ⟨hx, hh, by simp⟩
    · exact Or.inl ⟨⟨hx, by simp⟩, trivial⟩
  | cons p r ih =>
    unfold announce
    have hnd : x ∉ s.disabled := hdis x (by simp)
    simp only [hnd, if_false]
    split
    · split
      · rename_i hh hp; exact Or.inr ⟨hx, hh, hp⟩
      · rename_i hh hp; exact Or.inr ⟨hx, hh, by simp⟩
    · let s1 : State := { s with log := s.log ++ [x] }
      have hle : Le s1 (announce (setFlag s1 p) (p :: r)) := (le_setFlag s1 p).trans (le_announce _ _)
      have hrec := ih (setFlag s1 p) p (mem_setFlag s1 p) (by
        intro a ha
        have : (setFlag s1 p).disabled = s.disabled := (le_setFlag s1 p).disabled
        rw [this]; exact hdis a (by simp [ha]))
      exact Or.inl ⟨done_le hle ⟨hx, by simp [s1]⟩, hrec⟩

theorem touch_inv (s : State) (x : Nat) (rest : List Nat) (hdis : ∀ a ∈ x :: rest, a ∉ s.disabled) :
    Inv (touch s x rest) (x :: rest) := by
  unfold touch
  apply announce_inv _ _ x rest rfl (mem_setFlag s x)
  intro a ha
  rw [(le_setFlag s x).disabled]; exact hdis a ha

theorem le_touch (s : State) (x : Nat) (rest : List Nat) : Le s (touch s x rest) := by
  unfold touch; exact (le_setFlag s x).trans (le_announce _ _)

/-! ### release -/

/-- the invariant only looks at whether a node is held, not at the count -/
theorem inv_of_same {s s' : State} (c : List Nat) (hd : s'.dirty = s.dirty) (hl : s'.log = s.log)
    (hh : ∀ a, a ∈ c → held s' a = held s a) (hp : ∀ a, a ∈ c → (a ∈ s'.pending ↔ a ∈ s.pending))
    (hi : Inv s c) : Inv s' c := by
  induction c with
  | nil => trivial
  | cons a rest ih =>
    rcases hi with ⟨hdn, hr⟩ | hw
    · refine Or.inl ⟨⟨by rw [hd]; exact hdn.1, by rw [hl]; exact hdn.2⟩, ?_⟩
      exact ih (fun x hx => hh x (by simp [hx])) (fun x hx => hp x (by simp [hx])) hr
    · exact Or.inr ⟨by rw [hd]; exact hw.1, by rw [hh a (by simp)]; exact hw.2.1, (hp a (by simp)).mpr hw.2.2⟩

/-- dropping the hold and the queue entry of a node `b` keeps the invariant on the part of a
chain that does not contain `b` -/
theorem inv_drop_other {s s' : State} (c : List Nat) (b : Nat) (hb : b ∉ c) (hd : s'.dirty = s.dirty) (hl : s'.log = s.log)
    (hh : ∀ a, a ≠ b → held s' a = held s a) (hp : ∀ a, a ≠ b → (a ∈ s'.pending ↔ a ∈ s.pending))
    (hi : Inv s c) : Inv s' c :=
  inv_of_same c hd hl (fun a ha => hh a (fun e => hb (e ▸ ha))) (fun a ha => hp a (fun e => hb (e ▸ ha))) hi

theorem held_erase_ne (s : State) (b a : Nat) (h : a ≠ b) :
    AL.contains (AL.erase s.holds b) a = AL.contains s.holds a := by
  unfold AL.contains
  rw [AL.get?_erase_ne _ _ _ (fun e => h e.symm)]

theorem held_set (s : State) (b n a : Nat) (hb : AL.contains s.holds b = true) :
    AL.contains (AL.set s.holds b n) a = AL.contains s.holds a := by
  rw [AL.contains_set]
  by_cases e : b = a
  · subst e; simp [hb]
  · simp [e]

theorem release_inv (s : State) (c : List Nat) (b : Nat) (rest : List Nat)
    (hsuf : b ∈ c → ∃ pre, c = pre ++ b :: rest ∧ b ∉ pre) (hdis : ∀ a ∈ c, a ∉ s.disabled) (hi : Inv s c) :
    Inv (release s b rest) c := by
  unfold release
  cases hg : AL.get? s.holds b with
  | none => exact hi
  | some n =>
    simp only
    have hcb : AL.contains s.holds b = true := (AL.contains_iff_get? _ _).mpr ⟨n, hg⟩
    by_cases hn : n - 1 = 0
    · simp only [hn, if_true]
      -- the hold on b is gone
      let s1 : State := { s with holds := AL.erase s.holds b }
      by_cases hpend : b ∈ s.pending
      · simp only [hpend, if_true]
        let s2 : State := { s1 with pending := s1.pending.filter (· ≠ b) }
        have hle : Le s2 (announce s2 (b :: rest)) := le_announce s2 _
        by_cases hbc : b ∈ c
        · obtain ⟨pre, hc, hbpre⟩ := hsuf hbc
          subst hc
          -- below b nothing changes; from b upwards the announcement re-establishes the invariant
          have hsplit : ∀ (pre : List Nat), b ∉ pre → Inv s (pre ++ b :: rest) →
              (∀ a ∈ pre ++ b :: rest, a ∉ s.disabled) → Inv (announce s2 (b :: rest)) (pre ++ b :: rest) := by
            intro pre
            induction pre with
            | nil =>
              intro _ hinv hd
              simp only [List.nil_append] at hinv hd ⊢
              have hbd : b ∈ s.dirty := by
                rcases hinv with ⟨h1, _⟩ | h1
                · exact h1.1
                · exact h1.1
              exact announce_inv s2 _ b rest rfl hbd hd
            | cons a pre ih =>
              intro hnot hinv hd
              simp only [List.mem_cons, not_or] at hnot
              simp only [List.cons_append] at hinv hd ⊢
              rcases hinv with ⟨h1, h2⟩ | h1
              · refine Or.inl ⟨done_le hle ⟨h1.1, h1.2⟩, ih hnot.2 h2 (fun x hx => hd x (by simp [hx]))⟩
              · refine Or.inr (wait_le hle ⟨h1.1, ?_, ?_⟩)
                · show AL.contains (AL.erase s.holds b) a = true
                  rw [held_erase_ne s b a (fun e => hnot.1 e.symm)]; exact h1.2.1
                · show a ∈ s.pending.filter (· ≠ b)
                  simp only [List.mem_filter, ne_eq, decide_eq_true_eq]
                  exact ⟨h1.2.2, fun e => hnot.1 e.symm⟩
          exact hsplit pre hbpre hi hdis
        · apply inv_le hle
          refine inv_drop_other (s := s) (s' := s2) c b hbc ?_ ?_ ?_ ?_ hi
          · rfl
          · rfl
          · intro a ha; exact held_erase_ne s b a ha
          · intro a ha
            show a ∈ s.pending.filter (· ≠ b) ↔ a ∈ s.pending
            simp [ha]
      · simp only [hpend, if_false]
        -- b was not waiting: no node of the chain loses a Wait
        have : ∀ c, Inv s c → Inv s1 c := by
          intro c
          induction c with
          | nil => intro _; trivial
          | cons a r ih =>
            intro hinv
            rcases hinv with ⟨h1, h2⟩ | h1
            · exact Or.inl ⟨h1, ih h2⟩
            · have hab : a ≠ b := fun e => hpend (e ▸ h1.2.2)
              refine Or.inr ⟨h1.1, ?_, h1.2.2⟩
              show AL.contains (AL.erase s.holds b) a = true
              rw [held_erase_ne s b a hab]; exact h1.2.1
        exact this c hi
    · simp only [hn, if_false]
      refine inv_of_same (s := s) c ?_ ?_ ?_ ?_ hi
      · rfl
      · rfl
      · intro a _; exact held_set s b (n - 1) a hcb
      · intro a _; exact Iff.rfl

theorem release_disabled (s : State) (b : Nat) (rest : List Nat) : (release s b rest).disabled = s.disabled := by
  unfold release
  cases AL.get? s.holds b with
  | none => rfl
  | some n =>
    simp only
    split
    · split
      · exact (le_announce _ _).disabled
      · rfl
    · rfl

/-- with no hold left, the invariant says: everything on the chain is dirty and announced -/
theorem all_done_of_no_holds (s : State) (c : List Nat) (hh : s.holds = []) (hi : Inv s c) :
    ∀ a ∈ c, a ∈ s.dirty ∧ a ∈ s.log := by
  induction c with
  | nil => intro a ha; simp at ha
  | cons x rest ih =>
    intro a ha
    rcases hi with ⟨h1, h2⟩ | h1
    · simp only [List.mem_cons] at ha
      rcases ha with rfl | ha
      · exact h1
      · exact ih h2 a ha
    · have := h1.2.1
      simp [held, AL.contains, hh] at this


/-! ### nothing outside the chain -/

/-- whatever `s'` has more than `s` — flags, deliveries, queue entries — concerns members of `c` -/
structure Only (c : List Nat) (s s' : State) : Prop where
  dirty : ∀ a, a ∈ s'.dirty → a ∈ s.dirty ∨ a ∈ c
  log : ∀ a, a ∈ s'.log → a ∈ s.log ∨ a ∈ c
  pending : ∀ a, a ∈ s'.pending → a ∈ s.pending ∨ a ∈ c

theorem Only.refl (c : List Nat) (s : State) : Only c s s := ⟨fun _ h => Or.inl h, fun _ h => Or.inl h, fun _ h => Or.inl h⟩

theorem Only.trans {c : List Nat} {a b d : State} (h1 : Only c a b) (h2 : Only c b d) : Only c a d :=
  ⟨fun x h => (h2.dirty x h).elim (h1.dirty x) Or.inr, fun x h => (h2.log x h).elim (h1.log x) Or.inr,
   fun x h => (h2.pending x h).elim (h1.pending x) Or.inr⟩

theorem Only.mono {c c' : List Nat} {a b : State} (h : Only c a b) (hs : ∀ x, x ∈ c → x ∈ c') : Only c' a b :=
  ⟨fun x hx => (h.dirty x hx).imp id (hs x), fun x hx => (h.log x hx).imp id (hs x), fun x hx => (h.pending x hx).imp id (hs x)⟩

theorem only_setFlag (s : State) (x : Nat) : Only [x] s (setFlag s x) := by
  unfold setFlag
  split
  · exact Only.refl _ s
  · refine ⟨fun a h => ?_, fun _ h => Or.inl h, fun _ h => Or.inl h⟩
    simp only [List.mem_append, List.mem_singleton] at h
    rcases h with h | h
    · exact Or.inl h
    · exact Or.inr (by simp [h])

theorem only_announce (s : State) (c : List Nat) : Only c s (announce s c) := by
  induction c generalizing s with
  | nil => exact Only.refl _ s
  | cons x rest ih =>
    unfold announce
    split
    · exact Only.refl _ s
    · split
      · split
        · exact Only.refl _ s
        · refine ⟨fun _ h => Or.inl h, fun _ h => Or.inl h, fun a h => ?_⟩
          simp only [List.mem_append, List.mem_singleton] at h
          rcases h with h | h
          · exact Or.inl h
          · exact Or.inr (by simp [h])
      · have h1 : Only (x :: rest) s { s with log := s.log ++ [x] } := by
          refine ⟨fun _ h => Or.inl h, fun a h => ?_, fun _ h => Or.inl h⟩
          simp only [List.mem_append, List.mem_singleton] at h
          rcases h with h | h
          · exact Or.inl h
          · exact Or.inr (by simp [h])
        cases rest with
        | nil => exact h1
        | cons p r =>
          have h2 : Only (x :: p :: r) { s with log := s.log ++ [x] } (setFlag { s with log := s.log ++ [x] } p) :=
            (only_setFlag _ p).mono (fun y hy => by simp only [List.mem_singleton] at hy; simp [hy])
          have h3 : Only (x :: p :: r) (setFlag { s with log := s.log ++ [x] } p)
              (announce (setFlag { s with log := s.log ++ [x] } p) (p :: r)) :=
            (ih _).mono (fun y hy => List.mem_cons_of_mem x hy)
          exact (h1.trans h2).trans h3

theorem only_touch (s : State) (x : Nat) (rest : List Nat) : Only (x :: rest) s (touch s x rest) := by
  unfold touch
  exact ((only_setFlag s x).mono (fun y hy => by simp only [List.mem_singleton] at hy; simp [hy])).trans (only_announce _ _)

theorem only_release (s : State) (x : Nat) (rest : List Nat) : Only (x :: rest) s (release s x rest) := by
  unfold release
  split
  · exact Only.refl _ s
  · split
    · dsimp only
      split
      · refine Only.trans (b := { { s with holds := AL.erase s.holds x } with
            pending := s.pending.filter (· ≠ x) }) ?_ (only_announce _ _)
        refine ⟨fun _ h => Or.inl h, fun _ h => Or.inl h, fun a h => Or.inl ?_⟩
        exact (List.mem_filter.mp h).1
      · exact ⟨fun _ h => Or.inl h, fun _ h => Or.inl h, fun _ h => Or.inl h⟩
    · exact ⟨fun _ h => Or.inl h, fun _ h => Or.inl h, fun _ h => Or.inl h⟩

end Dirty
end DefconModel
