/-
Proof obligations over the REGENERATED constants (`Gen/SortTables.lean`), kept in their own file so that
they are re-checked exactly when the tables change.  Restated as property theorems in `Props/C20.lean`.
-/
import DefconModel.Spec.NameSort
import DefconModel.Gen.SortTables

namespace DefconModel
namespace NameSort

theorem gen_tables_wf : Gen.SortTables.tables.WF := by
  refine ⟨?_, ?_, ?_, ?_⟩ <;> decide +kernel

end NameSort
end DefconModel
