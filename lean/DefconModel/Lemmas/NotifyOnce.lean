/-
The conservation argument for overlapping holds (M-Notify): through every post, hold and release
- whatever the scopes, their counts and the order in which they end - a notification posted once
is, for each observer, either still pending in exactly one queue entry or delivered in full.
Property theorems live in Props/C04.lean.
-/
import DefconModel.Lemmas.NotifyHolds

namespace DefconModel
namespace Notify

theorem delTo_append (n : Name) (s : Obj) (d : Data) (o : Obj) (a b : List Ev) :
    delTo n s d o (a ++ b) = delTo n s d o a ++ delTo n s d o b := by
  simp [delTo, List.filter_append]

theorem delTo_ret (n : Name) (s : Obj) (d : Data) (o : Obj) (r : Res) : delTo n s d o [.ret r] = [] := rfl

theorem isFor_iff (n : Name) (s : Obj) (d : Data) (o : Obj) (q : Note) :
    Note.isFor n s d o q = true ↔
      q.name = n ∧ q.sender = s ∧ q.data = d ∧ (q.target = none ∨ q.target = some o) := by
  simp [Note.isFor, and_assoc]

theorem postsOf_cons (n : Name) (s : Obj) (d : Data) (op : Op) (ops : List Op) :
    postsOf n s d (op :: ops) = postsOf n s d [op] + postsOf n s d ops := by
  cases op <;> simp [postsOf]

section
variable (rec : Center → Op → Center × List Ev) (n : Name) (s : Obj) (d : Data) (o : Obj)

/-- Where notification `(n, s, d)` stands for observer `o`, given the centre `c`, the entries `rest`
of a queue that is being released, and the events `evs` so far.  Not posted yet: no copy is
pending, nothing was delivered.  Posted (once): exactly one copy is pending and nothing was
delivered, or no copy is pending and `o` got exactly what it is due. -/
def St (c0 : Center) (posted : Bool) (c : Center) (rest : List Note) (evs : List Ev) : Prop :=
  match posted with
  | false => pend c n s d o + cntL n s d o rest = 0 ∧ delTo n s d o evs = []
  | true =>
    (pend c n s d o + cntL n s d o rest = 1 ∧ delTo n s d o evs = []) ∨
    (pend c n s d o + cntL n s d o rest = 0 ∧ delTo n s d o evs = due c0 n s d o)

theorem St_irrelevant {c0 : Center} {b : Bool} {c c' : Center} {q : Note} {rest : List Note} {evs new : List Ev}
    (hq : Note.isFor n s d o q = false) (hp : pend c' n s d o = pend c n s d o)
    (hnew : delTo n s d o new = []) (h : St n s d o c0 b c (q :: rest) evs) :
    St n s d o c0 b c' rest (evs ++ new) := by
  unfold St at h ⊢
  simp only [cntL_cons, hq, Bool.false_eq_true, if_false, Nat.zero_add] at h
  simp only [delTo_append, hnew, List.append_nil, hp]
  exact h

theorem St_same {c0 : Center} {b : Bool} {c c' : Center} {evs new : List Ev}
    (hp : pend c' n s d o = pend c n s d o) (hnew : delTo n s d o new = [])
    (h : St n s d o c0 b c [] evs) : St n s d o c0 b c' [] (evs ++ new) := by
  unfold St at h ⊢
  simp only [delTo_append, hnew, List.append_nil, hp]
  exact h

/-- one entry of a queue that is being released -/
theorem repost_St (c0 : Center) (q0 : Quiet c0) (hsl : s ∉ c0.dead) (b : Bool) (c : Center) (hf : Frame c0 c)
    (q : Note) (rest : List Note) (evs : List Ev) (h : St n s d o c0 b c (q :: rest) evs) :
    Frame c0 (repost rec c q).1 ∧ St n s d o c0 b (repost rec c q).1 rest (evs ++ (repost rec c q).2) := by
  have qc : Quiet c := hf.quiet q0
  unfold repost
  by_cases hdead : q.sender ∈ c.dead
  · rw [if_pos hdead]
    refine ⟨hf, ?_⟩
    have hq : Note.isFor n s d o q = false := by
      cases hh : Note.isFor n s d o q with
      | false => rfl
      | true =>
        rw [isFor_iff] at hh
        rw [hh.2.1, hf.dead] at hdead
        exact absurd hdead hsl
    exact St_irrelevant n s d o hq rfl rfl h
  · rw [if_neg hdead]
    refine ⟨hf.trans (post_sameShape rec qc _ _ _ _).frame, ?_⟩
    cases hq : Note.isFor n s d o q with
    | false =>
      have hcond : ¬ (q.name = n ∧ q.sender = s ∧ q.data = d) ∨ (q.target.isSome ∧ q.target ≠ some o) := by
        by_cases h3 : q.name = n ∧ q.sender = s ∧ q.data = d
        · right
          have : ¬ (q.target = none ∨ q.target = some o) := by
            intro ht
            have : Note.isFor n s d o q = true := (isFor_iff n s d o q).mpr ⟨h3.1, h3.2.1, h3.2.2, ht⟩
            rw [hq] at this; exact absurd this (by simp)
          cases hqt : q.target with
          | none => exact absurd (Or.inl hqt) this
          | some x => exact ⟨by simp, fun e => this (Or.inr (hqt.trans e))⟩
        · left; exact h3
      obtain ⟨h1, h2⟩ := post_irrelevant rec n s d o q.name q.sender q.data q.target qc hcond
      exact St_irrelevant n s d o hq h1 h2 h
    | true =>
      have hq' := (isFor_iff n s d o q).mp hq
      obtain ⟨e1, e2, e3, ht⟩ := hq'
      rw [e1, e2, e3]
      unfold St at h ⊢
      simp only [cntL_cons, hq, if_true] at h
      cases b with
      | false => simp only at h; omega
      | true =>
        simp only at h ⊢
        rcases h with ⟨hsum, hdel⟩ | ⟨hsum, _⟩
        · have hp : pend c n s d o = 0 := by omega
          have hr : cntL n s d o rest = 0 := by omega
          rcases post_relevant rec n s d o q.target ht qc hp with ⟨p1, p2⟩ | ⟨p1, p2⟩
          · left; simp [delTo_append, hdel, p2, p1, hr]
          · right; simp [delTo_append, hdel, p2, p1, hr, hf.due]
        · omega

/-- the whole queue of a hold that ends -/
theorem repost_loop (c0 : Center) (q0 : Quiet c0) (hsl : s ∉ c0.dead) (b : Bool) (rest : List Note) :
    ∀ (c : Center) (evs : List Ev), Frame c0 c → St n s d o c0 b c rest evs →
      Frame c0 (runAll (repost rec) c rest).1 ∧
      St n s d o c0 b (runAll (repost rec) c rest).1 [] (evs ++ (runAll (repost rec) c rest).2) := by
  induction rest with
  | nil => intro c evs hf h; simpa [runAll] using ⟨hf, h⟩
  | cons q rest ih =>
    intro c evs hf h
    rw [runAll_cons]
    obtain ⟨hf1, h1⟩ := repost_St rec n s d o c0 q0 hsl b c hf q rest evs h
    obtain ⟨hf2, h2⟩ := ih _ _ hf1 h1
    refine ⟨hf2, ?_⟩
    simpa [List.append_assoc] using h2

theorem release_last_eq {c : Center} {hk : HKey} {h : Hold} (hg : AL.get? c.holds hk = some h)
    (hc : h.count - 1 = 0) :
    release rec c hk =
      ((runAll (repost rec) { c with holds := AL.erase c.holds hk } h.queue).1,
       (runAll (repost rec) { c with holds := AL.erase c.holds hk } h.queue).2 ++ [.ret .ok]) := by
  unfold release; simp [hg, hc]

theorem release_nested_eq {c : Center} {hk : HKey} {h : Hold} (hg : AL.get? c.holds hk = some h)
    (hc : ¬ h.count - 1 = 0) :
    release rec c hk =
      ({ c with holds := AL.set c.holds hk { h with count := h.count - 1 } }, [.ret .ok]) := by
  unfold release; simp [hg, hc]

theorem release_St (c0 : Center) (q0 : Quiet c0) (hsl : s ∉ c0.dead) (b : Bool) (c : Center) (hk : HKey)
    (evs : List Ev) (hf : Frame c0 c) (h : St n s d o c0 b c [] evs) :
    Frame c0 (release rec c hk).1 ∧ St n s d o c0 b (release rec c hk).1 [] (evs ++ (release rec c hk).2) := by
  cases hg : AL.get? c.holds hk with
  | none =>
    have : release rec c hk = (c, [.ret (.err .keyError)]) := by unfold release; simp [hg]
    rw [this]
    exact ⟨hf, St_same n s d o rfl rfl h⟩
  | some hd =>
    by_cases hc : hd.count - 1 = 0
    · rw [release_last_eq rec hg hc]
      have hf1 : Frame c0 { c with holds := AL.erase c.holds hk } := ⟨hf.registry, hf.disabled, hf.dead, hf.scripts⟩
      have hp : pend { c with holds := AL.erase c.holds hk } n s d o + cntL n s d o hd.queue = pend c n s d o := by
        rw [pend_eq, pend_eq]
        exact wsum_erase (fun h => cntL n s d o h.queue) c.holds hk hd hg
      have h1 : St n s d o c0 b { c with holds := AL.erase c.holds hk } hd.queue evs := by
        unfold St at h ⊢
        have hz : cntL n s d o [] = 0 := rfl
        simp only [hz, Nat.add_zero] at h
        simp only [hp]
        exact h
      obtain ⟨hf2, h2⟩ := repost_loop rec n s d o c0 q0 hsl b hd.queue _ evs hf1 h1
      refine ⟨hf2, ?_⟩
      have := St_same n s d o (c' := (runAll (repost rec) { c with holds := AL.erase c.holds hk } hd.queue).1)
        (new := [.ret .ok]) rfl rfl h2
      simpa [List.append_assoc] using this
    · rw [release_nested_eq rec hg hc]
      refine ⟨⟨hf.registry, hf.disabled, hf.dead, hf.scripts⟩, ?_⟩
      apply St_same n s d o _ rfl h
      rw [pend_eq, pend_eq]
      have := wsum_set_some (fun h => cntL n s d o h.queue) c.holds hk hd { hd with count := hd.count - 1 } hg
      simp only at this ⊢
      omega

/-- one operation of the history, other than the post of `(n, s, d)` itself -/
theorem exec_St_other (fuel : Nat) (c0 : Center) (q0 : Quiet c0) (hsl : s ∉ c0.dead) (b : Bool) (op : Op)
    (hop : isHoldOrPost op = true) (hnp : postsOf n s d [op] = 0) (c : Center) (evs : List Ev)
    (hf : Frame c0 c) (h : St n s d o c0 b c [] evs) :
    Frame c0 (exec (fuel + 1) c op).1 ∧
    St n s d o c0 b (exec (fuel + 1) c op).1 [] (evs ++ (exec (fuel + 1) c op).2) := by
  have qc : Quiet c := hf.quiet q0
  cases op with
  | post n' s' d' t =>
    cases t with
    | some x => simp [isHoldOrPost] at hop
    | none =>
      have hne : ¬ (n' = n ∧ s' = s ∧ d' = d) := by
        intro e
        simp [postsOf, e] at hnp
      obtain ⟨h1, h2⟩ := post_irrelevant (exec fuel) n s d o n' s' d' none qc (Or.inl hne)
      have hex : exec (fuel + 1) c (.post n' s' d' none) =
          ((post (exec fuel) c n' s' d' none).1, (post (exec fuel) c n' s' d' none).2 ++ [.ret .ok]) := rfl
      rw [hex]
      refine ⟨hf.trans (post_sameShape (exec fuel) qc _ _ _ _).frame, ?_⟩
      apply St_same n s d o h1 _ h
      rw [delTo_append, h2]; rfl
  | hold n' s' o' note =>
    have hex : exec (fuel + 1) c (.hold n' s' o' note) = (hold c (n', s', o') note, [.ret .ok]) := rfl
    rw [hex]
    exact ⟨⟨hf.registry, hf.disabled, hf.dead, hf.scripts⟩, St_same n s d o (pend_hold n s d o c _ note) rfl h⟩
  | release n' s' o' =>
    have hex : exec (fuel + 1) c (.release n' s' o') = release (exec fuel) c (n', s', o') := rfl
    rw [hex]
    exact release_St (exec fuel) n s d o c0 q0 hsl b c _ evs hf h
  | add _ _ _ _ _ => simp [isHoldOrPost] at hop
  | remove _ _ _ => simp [isHoldOrPost] at hop
  | removeAll _ _ => simp [isHoldOrPost] at hop
  | has _ _ _ => simp [isHoldOrPost] at hop
  | find _ _ _ _ => simp [isHoldOrPost] at hop
  | disable _ _ _ => simp [isHoldOrPost] at hop
  | enable _ _ _ => simp [isHoldOrPost] at hop
  | areHeld _ _ _ => simp [isHoldOrPost] at hop
  | areDisabled _ _ _ => simp [isHoldOrPost] at hop
  | heldKeys => simp [isHoldOrPost] at hop
  | heldNotes _ _ _ => simp [isHoldOrPost] at hop
  | kill _ => simp [isHoldOrPost] at hop
  | script _ _ _ => simp [isHoldOrPost] at hop

/-- the post of `(n, s, d)` itself -/
theorem exec_St_post (fuel : Nat) (c0 : Center) (q0 : Quiet c0) (c : Center) (evs : List Ev)
    (hf : Frame c0 c) (h : St n s d o c0 false c [] evs) :
    Frame c0 (exec (fuel + 1) c (.post n s d none)).1 ∧
    St n s d o c0 true (exec (fuel + 1) c (.post n s d none)).1 [] (evs ++ (exec (fuel + 1) c (.post n s d none)).2) := by
  have qc : Quiet c := hf.quiet q0
  have hex : exec (fuel + 1) c (.post n s d none) =
      ((post (exec fuel) c n s d none).1, (post (exec fuel) c n s d none).2 ++ [.ret .ok]) := rfl
  rw [hex]
  refine ⟨hf.trans (post_sameShape (exec fuel) qc _ _ _ _).frame, ?_⟩
  unfold St at h ⊢
  have hz : cntL n s d o [] = 0 := rfl
  simp only [hz, Nat.add_zero] at h ⊢
  obtain ⟨hp, hdel⟩ := h
  simp only [delTo_append, hdel, delTo_ret, List.nil_append, List.append_nil]
  rcases post_relevant (exec fuel) n s d o none (Or.inl rfl) qc hp with ⟨p1, p2⟩ | ⟨p1, p2⟩
  · left; exact ⟨p1, p2⟩
  · right; exact ⟨p1, by rw [p2, hf.due]⟩

theorem run_St_quietly (fuel : Nat) (c0 : Center) (q0 : Quiet c0) (hsl : s ∉ c0.dead) (b : Bool) (ops : List Op) :
    ∀ (c : Center) (evs : List Ev), (∀ op ∈ ops, isHoldOrPost op = true) → postsOf n s d ops = 0 →
      Frame c0 c → St n s d o c0 b c [] evs →
      Frame c0 (run (fuel + 1) c ops).1 ∧ St n s d o c0 b (run (fuel + 1) c ops).1 [] (evs ++ (run (fuel + 1) c ops).2) := by
  induction ops with
  | nil => intro c evs _ _ hf h; simpa [run, runAll] using ⟨hf, h⟩
  | cons op ops ih =>
    intro c evs hops hn hf h
    rw [postsOf_cons] at hn
    unfold run at ih ⊢
    rw [runAll_cons]
    obtain ⟨hf1, h1⟩ := exec_St_other n s d o fuel c0 q0 hsl b op (hops op (by simp)) (by omega) c evs hf h
    obtain ⟨hf2, h2⟩ := ih _ _ (fun op' h' => hops op' (by simp [h'])) (by omega) hf1 h1
    exact ⟨hf2, by simpa [List.append_assoc] using h2⟩

theorem postsOf_single_le (op : Op) : postsOf n s d [op] ≤ 1 := by
  cases op <;> simp [postsOf]
  split <;> omega

theorem postsOf_single_one {op : Op} (h : postsOf n s d [op] = 1) (hop : isHoldOrPost op = true) :
    op = .post n s d none := by
  cases op with
  | post n' s' d' t =>
    cases t with
    | some x => simp [isHoldOrPost] at hop
    | none =>
      by_cases e : n' = n ∧ s' = s ∧ d' = d
      · obtain ⟨e1, e2, e3⟩ := e; subst e1; subst e2; subst e3; rfl
      · simp [postsOf, e] at h
  | _ => simp [postsOf] at h

theorem run_St_once (fuel : Nat) (c0 : Center) (q0 : Quiet c0) (hsl : s ∉ c0.dead) (ops : List Op) :
    ∀ (c : Center) (evs : List Ev), (∀ op ∈ ops, isHoldOrPost op = true) → postsOf n s d ops = 1 →
      Frame c0 c → St n s d o c0 false c [] evs →
      Frame c0 (run (fuel + 1) c ops).1 ∧
      St n s d o c0 true (run (fuel + 1) c ops).1 [] (evs ++ (run (fuel + 1) c ops).2) := by
  induction ops with
  | nil => intro c evs _ hn; simp [postsOf] at hn
  | cons op ops ih =>
    intro c evs hops hn hf h
    rw [postsOf_cons] at hn
    have hle := postsOf_single_le n s d op
    have hop := hops op (by simp)
    have hops' : ∀ op' ∈ ops, isHoldOrPost op' = true := fun op' h' => hops op' (by simp [h'])
    by_cases h1 : postsOf n s d [op] = 1
    · have e := postsOf_single_one n s d h1 hop
      subst e
      have hrun : run (fuel + 1) c (.post n s d none :: ops) =
          ((run (fuel + 1) (exec (fuel + 1) c (.post n s d none)).1 ops).1,
           (exec (fuel + 1) c (.post n s d none)).2 ++ (run (fuel + 1) (exec (fuel + 1) c (.post n s d none)).1 ops).2) := by
        unfold run; rw [runAll_cons]
      rw [hrun]
      obtain ⟨hf1, hs1⟩ := exec_St_post n s d o fuel c0 q0 c evs hf h
      obtain ⟨hf2, hs2⟩ := run_St_quietly n s d o fuel c0 q0 hsl true ops _ _ hops' (by omega) hf1 hs1
      exact ⟨hf2, by simpa [List.append_assoc] using hs2⟩
    · have hrun : run (fuel + 1) c (op :: ops) =
          ((run (fuel + 1) (exec (fuel + 1) c op).1 ops).1,
           (exec (fuel + 1) c op).2 ++ (run (fuel + 1) (exec (fuel + 1) c op).1 ops).2) := by
        unfold run; rw [runAll_cons]
      rw [hrun]
      obtain ⟨hf1, hs1⟩ := exec_St_other n s d o fuel c0 q0 hsl false op hop (by omega) c evs hf h
      obtain ⟨hf2, hs2⟩ := ih _ _ hops' (by omega) hf1 hs1
      exact ⟨hf2, by simpa [List.append_assoc] using hs2⟩

/-- once every hold has ended, "posted" can only mean "delivered in full" -/
theorem St_final {c0 c : Center} {evs : List Ev} (h : St n s d o c0 true c [] evs) (hh : c.holds = []) :
    delTo n s d o evs = due c0 n s d o := by
  unfold St at h
  have hp : pend c n s d o = 0 := by rw [pend_eq, hh]; rfl
  have hz : cntL n s d o [] = 0 := rfl
  simp only [hp, hz] at h
  rcases h with ⟨h1, _⟩ | ⟨_, h2⟩
  · omega
  · exact h2

end

/-! ### posting when callbacks do nothing: shape; posting when nothing at all is suspended -/

theorem post_sameShape_noscript (rec : Center → Op → Center × List Ev) (c : Center) (hs : c.scripts = [])
    (n : Name) (s : Obj) (d : Data) (t : Option Obj) : SameShape c (post rec c n s d t).1 := by
  unfold post
  split
  · exact SameShape.refl c
  · split
    · exact sameShape_enqueue _ _ _
    · exact (runAll_deliverKey_noscript rec n s d t c c _ hs (SameShape.refl c)).1

theorem repost_sameShape_noscript (rec : Center → Op → Center × List Ev) (c : Center) (hs : c.scripts = [])
    (q : Note) : SameShape c (repost rec c q).1 := by
  unfold repost
  split
  · exact SameShape.refl c
  · exact post_sameShape_noscript rec c hs _ _ _ _

/-- who gets a (possibly restricted) notification when nothing is suspended -/
def plainTargets (c : Center) (q : Note) : List Reg :=
  (matching c q.name q.sender).filter
    (fun r => (q.target == none || q.target == some r.observer) && !(c.dead.contains r.observer))

theorem runAll_deliverOne_noholds (rec : Center → Op → Center × List Ev) (n : Name) (s : Obj) (d : Data)
    (t : Option Obj) (c : Center) (q : Quiet c) (hh : c.holds = []) (regs : List Reg) :
    runAll (deliverOne rec n s d t) c regs =
      (c, (regs.filter (fun r => (t == none || t == some r.observer) && !(c.dead.contains r.observer))).map
            (deliverEv n s d)) := by
  induction regs with
  | nil => rfl
  | cons r rs ih =>
    rw [runAll_cons, deliverOne_quiet rec n s d t q r]
    have hf : firstHold c (observerKeys n s r.observer) = none := by
      simp [firstHold, hh, AL.contains]
    by_cases ht : t.isSome ∧ t ≠ some r.observer
    · rw [if_pos ht]
      simp only [ih, List.nil_append]
      have hP : ¬ (t = none ∨ t = some r.observer) := by
        obtain ⟨h1, h2⟩ := ht
        cases t with
        | none => simp at h1
        | some x => simpa using h2
      simp [List.filter_cons, hP]
    · rw [if_neg ht, hf]
      have hP : t = none ∨ t = some r.observer := by
        cases t with
        | none => exact Or.inl rfl
        | some x =>
          simp only [Option.isSome_some, true_and, ne_eq, Classical.not_not] at ht
          exact Or.inr ht
      by_cases hdead : r.observer ∈ c.dead
      · simp [hdead, ih, List.filter_cons]
      · simp [hdead, ih, List.filter_cons, hP]

theorem repost_noholds (rec : Center → Op → Center × List Ev) (c : Center) (q : Quiet c) (hh : c.holds = [])
    (x : Note) :
    repost rec c x = (c, if x.sender ∈ c.dead then [] else (plainTargets c x).map (deliverEv x.name x.sender x.data)) := by
  unfold repost
  by_cases hdead : x.sender ∈ c.dead
  · simp [hdead]
  · rw [if_neg hdead, if_neg hdead, post_quiet rec q]
    have hf : firstHold c (senderKeys x.name x.sender) = none := by simp [firstHold, hh, AL.contains]
    rw [hf]
    exact runAll_deliverOne_noholds rec _ _ _ _ c q hh _

theorem runAll_repost_noholds (rec : Center → Op → Center × List Ev) (c : Center) (q : Quiet c) (hh : c.holds = [])
    (l : List Note) :
    runAll (repost rec) c l =
      (c, l.flatMap (fun x => if x.sender ∈ c.dead then [] else
            (plainTargets c x).map (deliverEv x.name x.sender x.data))) := by
  induction l with
  | nil => rfl
  | cons x xs ih =>
    rw [runAll_cons, repost_noholds rec c q hh x]
    simp only [ih, List.flatMap_cons]

end Notify
end DefconModel
