/-
`Contour.move` under user holds keeps `InvH`: the two bounds entries are patched in place (right whenever they were
right), the other `PointsChanged` representations are destroyed by direct calls, and what depends on the
notification - the contour's default-registered representations, the glyph, the components that reference the
glyph - is evicted now or owed by the queue.
-/
import DefconModel.Lemmas.ReprHold

namespace DefconModel
namespace Repr

variable {V : Type}

/-- the layer after the points of contour `cid` (in glyph `h`) were moved -/
def shiftW (w : World V) (h : String) (cid : Nat) (dx dy : Int) : World V :=
  { w with glyphs := updGlyph w.glyphs h (mapContours cid (shiftContour dx dy)) }

/-- the world after the move's direct cache calls, before it posts -/
def movedW (P : Params V) (T : Tables) (w : World V) (h : String) (cid : Nat) (dx dy : Int) : World V :=
  setCache (shiftW w h cid dx dy) (.contour cid)
    (moveCache P (facsOf T w.regs "Contour") (cacheOf w (.contour cid)) dx dy)

theorem doCmove_host (P : Params V) (T : Tables) (w : World V) (cid : Nat) (dx dy : Int) (h : String × GlyphS)
    (hh : hostOfContour w.glyphs cid = some h) :
    (doCmove P T w cid dx dy).1 =
      applyDeliv T (movedW P T w h.1 cid dx dy) (contourDeliv w.fuel T (shiftW w h.1 cid dx dy).glyphs h.1 cid (moveNotifs T)) := by
  unfold doCmove
  simp only [hh]
  rfl

theorem shiftW_withCaches {V' : Type} (w : World V) (c : List (Obj × Cache V')) (h : String) (cid : Nat) (dx dy : Int) :
    shiftW (w.withCaches c) h cid dx dy = (shiftW w h cid dx dy).withCaches c := rfl

theorem movedW_struct (P : Params V) (T : Tables) (w : World V) (h : String) (cid : Nat) (dx dy : Int) :
    SameStruct (shiftW w h cid dx dy) (movedW P T w h cid dx dy) := sameStruct_setCache _ _ _

/-- `dep_event` for `Contour.move` and every object but the moved contour itself -/
theorem dep_event_cmove (T : Tables) (hcov : Coverage T = true) (w : World V) (cid : Nat) (dx dy : Int)
    (h : String × GlyphS) (hh : hostOfContour w.glyphs cid = some h) (hd : Dom w)
    (hd' : Dom (shiftW w h.1 cid dx dy)) (hr : RegsDefault T w) (o : Obj) (hne : Obj.contour cid ≠ o) (nm : String)
    (hatt : attached w o = true) (hreg : (facsOf T w.regs o.cls).any (fun p => p.1 = nm) = true)
    (hview : viewOf T (shiftW w h.1 cid dx dy) o nm ≠ viewOf T w o nm) :
    (contourDeliv w.fuel T (shiftW w h.1 cid dx dy).glyphs h.1 cid (moveNotifs T)).any
      (fun e => hitB T w.regs e o nm) = true := by
  cases hany : (contourDeliv w.fuel T (shiftW w h.1 cid dx dy).glyphs h.1 cid (moveNotifs T)).any
      (fun e => hitB T w.regs e o nm) with
  | true => rfl
  | false =>
    exfalso
    apply hview
    have hinv := probe_inv T w o nm hr hatt hreg
    have hdp : Dom (probeWorld T w o nm) := dom_withCaches _ hd
    have hhp : hostOfContour (probeWorld T w o nm).glyphs cid = some h := hh
    have hfac := doCmove_host uniParams T (probeWorld T w o nm) cid dx dy h hhp
    have hds : Dom (shiftW (probeWorld T w o nm) h.1 cid dx dy) := by
      unfold probeWorld; rw [shiftW_withCaches]; exact dom_withCaches _ hd'
    have hd2 : Dom (step uniParams T (probeWorld T w o nm) (.cmove cid dx dy)).1 := by
      show Dom (doCmove uniParams T (probeWorld T w o nm) cid dx dy).1
      rw [hfac]
      exact Dom.congr (sameStruct_applyDeliv T _ _) (Dom.congr (movedW_struct uniParams T _ h.1 cid dx dy) hds)
    have hi2 := step_inv uniParams T hcov uniParams_patchOK _ (.cmove cid dx dy) hinv hdp hd2
    have hi3 : Inv uniParams T (doCmove uniParams T (probeWorld T w o nm) cid dx dy).1 := hi2
    rw [hfac] at hi3
    have hent : (cacheOf (applyDeliv T (movedW uniParams T (probeWorld T w o nm) h.1 cid dx dy)
        (contourDeliv (probeWorld T w o nm).fuel T (shiftW (probeWorld T w o nm) h.1 cid dx dy).glyphs h.1 cid (moveNotifs T))) o).get? nm none
        = some (viewOf T w o nm) := by
      rw [get?_applyDeliv_eq]
      have e1 : (movedW uniParams T (probeWorld T w o nm) h.1 cid dx dy).regs = w.regs := rfl
      have e2 : (contourDeliv (probeWorld T w o nm).fuel T (shiftW (probeWorld T w o nm) h.1 cid dx dy).glyphs h.1 cid (moveNotifs T))
          = contourDeliv w.fuel T (shiftW w h.1 cid dx dy).glyphs h.1 cid (moveNotifs T) := rfl
      rw [e1, e2, hany]
      simp only [Bool.false_eq_true, if_false]
      unfold movedW
      rw [cacheOf_setCache, if_neg hne]
      have e3 : cacheOf (shiftW (probeWorld T w o nm) h.1 cid dx dy) o = cacheOf (probeWorld T w o nm) o := rfl
      rw [e3, probe_cache]; simp
    have := hi3.coh _ _ _ _ hent
    have hfr : ∀ (w' : World (List Tok)) sk, fresh uniParams T w' o nm sk = viewOf T w' o nm := fun _ _ => rfl
    rw [hfr, viewOf_congr T (sameStruct_applyDeliv T _ _), viewOf_congr T (movedW_struct uniParams T _ h.1 cid dx dy)] at this
    have e4 : viewOf T (shiftW (probeWorld T w o nm) h.1 cid dx dy) o nm = viewOf T (shiftW w h.1 cid dx dy) o nm := by
      unfold probeWorld; rw [shiftW_withCaches, viewOf_withCaches]
    rw [e4] at this
    exact this.symm

/-! ### more names posted, more delivered -/

theorem contourDeliv_mono_ns {n : Nat} {T : Tables} {gs : Layer} {h : String} {cid : Nat} {ns ns' : List String}
    (hsub : ∀ x, x ∈ ns → x ∈ ns') {e : Obj × String} (he : e ∈ contourDeliv n T gs h cid ns) :
    e ∈ contourDeliv n T gs h cid ns' := by
  unfold contourDeliv at he ⊢
  simp only [List.mem_append] at he ⊢
  rcases he with he | he
  · left
    rw [List.mem_map] at he ⊢
    obtain ⟨x, hx, rfl⟩ := he
    exact ⟨x, hsub x hx, rfl⟩
  · right
    by_cases hc : ns.contains "Contour.Changed" = true
    · have hc' : ns'.contains "Contour.Changed" = true := by
        simp only [List.contains_eq_mem, decide_eq_true_eq] at hc ⊢
        exact hsub _ hc
      simp only [hc, hc', if_true] at he ⊢
      exact he
    · rw [if_neg hc] at he; cases he

theorem moveNotifs_sub (T : Tables) : ∀ x, x ∈ moveNotifs T → x ∈ T.postsOf "Contour" "move" := by
  intro x hx
  unfold moveNotifs at hx
  exact (List.mem_filter.mp hx).1

/-! ### worlds that differ in the loose lists only -/

theorem invH_same_views (P : Params V) (T : Tables) (hw : HWorld V) (w' : World V) (hinv : InvH P T hw)
    (hca : w'.caches = hw.w.caches) (hrg : w'.regs = hw.w.regs) (hgl : w'.glyphs = hw.w.glyphs)
    (hf : w'.fuel = hw.w.fuel) (hgv : w'.groupsVer = hw.w.groupsVer) : InvH P T { hw with w := w' } := by
  have hatt : ∀ o, attached w' o = attached hw.w o := by intro o; cases o <;> simp [attached, hgl]
  have hview : ∀ o nm, attached hw.w o = true → viewOf T w' o nm = viewOf T hw.w o nm := by
    intro o nm ha
    cases o with
    | contour cid =>
      simp only [attached] at ha
      simp only [viewOf, findContour, hgl]
      cases hh : hostOfContour hw.w.glyphs cid with
      | none => rw [hh] at ha; cases ha
      | some p => rfl
    | comp kid =>
      simp only [attached] at ha
      simp only [viewOf, findComp, hgl, hf]
      cases hh : hostOfComp hw.w.glyphs kid with
      | none => rw [hh] at ha; cases ha
      | some p => rfl
    | glyph x => simp only [viewOf, hgl, hf]
    | groups => simp only [viewOf, hgv]
  refine ⟨?_, ?_, ?_, ?_, hinv.qheld, hinv.nodis⟩
  · intro o nm sk v hv
    simp only at hv ⊢
    rw [cacheOf_eq_of_caches hca] at hv
    have ha : attached hw.w o = true := by
      cases h : attached hw.w o with
      | true => rfl
      | false => rw [hinv.loose o h nm sk] at hv; cases hv
    rcases hinv.coh o nm sk v hv with hfr | ⟨q, hq, hqh⟩
    · left; rw [hfr]; unfold fresh; rw [hview o nm ha]
    · right; exact ⟨q, hq, by rw [hf, hgl, hrg]; exact hqh⟩
  · intro o ha nm sk
    simp only at ha ⊢
    rw [cacheOf_eq_of_caches hca]
    exact hinv.loose o (by rw [← hatt]; exact ha) nm sk
  · intro o nm sk v hv
    simp only at hv ⊢
    rw [cacheOf_eq_of_caches hca] at hv
    rw [hrg]; exact hinv.creg _ _ _ _ hv
  · intro r hr
    simp only at hr
    rw [hrg] at hr; exact hinv.rdef r hr

/-! ### the move itself -/

theorem hitB_of {T : Tables} {regs : List (String × String × Destr)} {o : Obj} {nm y : String} {d : Destr}
    (hd : (nm, d) ∈ facsOf T regs o.cls) (hh : d.hit y = true) : hitB T regs (o, y) o nm = true := by
  unfold hitB
  simp only [decide_true, Bool.true_and]
  rw [List.any_eq_true]
  exact ⟨(nm, d), hd, by simp [hh]⟩

/-- every entry left by the move's direct cache calls is fresh, owed by the queue, or destroyed by one of the events
the move's notifications deliver when nothing is held -/
theorem moved_entries (P : Params V) (T : Tables) (hcov : Coverage T = true) (hpatch : PatchOK P) (hw : HWorld V)
    (cid : Nat) (dx dy : Int) (h : String × GlyphS) (hh : hostOfContour hw.w.glyphs cid = some h)
    (hinv : InvH P T hw) (hd : Dom hw.w) (hd' : Dom (shiftW hw.w h.1 cid dx dy)) :
    ∀ o nm sk v, (cacheOf (movedW P T hw.w h.1 cid dx dy) o).get? nm sk = some v →
      (∃ v0, (cacheOf hw.w o).get? nm sk = some v0) ∧
      (v = fresh P T (movedW P T hw.w h.1 cid dx dy) o nm sk ∨
       OwedBy T (movedW P T hw.w h.1 cid dx dy) hw.queue o nm ∨
       (contourDeliv hw.w.fuel T (shiftW hw.w h.1 cid dx dy).glyphs h.1 cid (moveNotifs T)).any
          (fun e => hitB T hw.w.regs e o nm) = true) := by
  obtain ⟨hg, hhas⟩ := host_get_contour hd.ids.keys hh
  have hcc : covCell T "Contour" .attr (moveNotifs T) = true := cov_mem hcov (by simp [covList])
  unfold covCell at hcc
  rw [Bool.and_eq_true, changed_lit] at hcc
  simp only [if_true] at hcc
  have hcb : boundsNames.all (isBuiltin T "Contour") = true := cov_mem hcov (by simp [covList])
  have hcp : (T.factoriesOf "Contour").all
      (fun p => boundsNames.contains p.1 || p.2.hit "Contour.PointsChanged") = true := cov_mem hcov (by simp [covList])
  have hid : ∀ c, (shiftContour dx dy c).id = c.id := fun _ => rfl
  have hgs : (movedW P T hw.w h.1 cid dx dy).glyphs = AL.set hw.w.glyphs h.1 (mapContours cid (shiftContour dx dy) h.2) := by
    show updGlyph hw.w.glyphs h.1 _ = _
    exact updGlyph_eq_set _ hg
  have hss := movedW_struct P T hw.w h.1 cid dx dy
  have hpost : ∀ q : Obj × List String, postAt (movedW P T hw.w h.1 cid dx dy).fuel T (movedW P T hw.w h.1 cid dx dy).glyphs q.1 q.2
      = postAt hw.w.fuel T hw.w.glyphs q.1 q.2 := by
    intro q
    rw [hgs]
    exact postAt_set _ T hw.w.glyphs h.1 h.2 (mapContours cid (shiftContour dx dy) h.2) hd.ids.keys hg rfl
      (fun c => hasContour_mapContours cid c _ hid h.2) (fun _ => rfl) q.1 q.2
  have howed : ∀ o nm, OwedBy T hw.w hw.queue o nm → OwedBy T (movedW P T hw.w h.1 cid dx dy) hw.queue o nm := by
    intro o nm ⟨q, hq, hqh⟩
    refine ⟨q, hq, ?_⟩
    rw [hpost q]
    exact hqh
  intro o nm sk v hv
  by_cases e : Obj.contour cid = o
  · subst e
    unfold movedW at hv
    rw [cacheOf_setCache, if_pos rfl] at hv
    obtain ⟨c0, hc0⟩ := contourIn_of_has hhas
    obtain ⟨hf1, hf0⟩ := findContour_at_host hw.w (movedW P T hw.w h.1 cid dx dy) cid h _ hd.ids.keys hh hgs
      (hasContour_mapContours cid cid _ hid h.2)
    rw [contourIn_mapContours_self cid _ hid h.2, hc0] at hf1
    rw [hc0] at hf0
    rcases Cache.get?_moveCache _ _ _ _ _ _ _ _ hv with ⟨hb, hsk, v0, hv0, hvp⟩ | ⟨h0, hbk, hnh⟩
    · subst hsk
      refine ⟨⟨v0, hv0⟩, ?_⟩
      rcases hinv.coh _ _ _ _ hv0 with hfr | ho
      · left
        have hbi : isBuiltin T "Contour" nm = true := List.all_eq_true.mp hcb nm hb
        simp only [fresh, viewOf, hf0, Option.map_some, Option.getD_some, Obj.cls] at hfr
        simp only [fresh, viewOf, hf1, Option.map_some, Option.getD_some, Obj.cls]
        rw [hvp, hfr]
        simp only [contourView, hbi, if_true, contourToks, shiftContour]
        exact (hpatch nm hb c0.ver c0.ox c0.oy dx dy).symm
      · exact Or.inr (Or.inl (howed _ _ ho))
    · refine ⟨⟨v, h0⟩, ?_⟩
      rcases hinv.coh _ _ _ _ h0 with hfr | ho
      · right; right
        by_cases hb : nm ∈ boundsNames
        · exact absurd ((hinv.creg _ _ _ _ h0).2 (bounds_noKw hb)) (hbk hb)
        · by_cases hbi : isBuiltin T "Contour" nm = true
          · exfalso
            unfold isBuiltin at hbi
            rw [List.any_eq_true] at hbi
            obtain ⟨p, hp, hpn⟩ := hbi
            simp only [decide_eq_true_eq] at hpn
            have h3 := List.all_eq_true.mp hcp p hp
            have hnc : boundsNames.contains p.1 = false := by
              rw [hpn]
              cases hc : boundsNames.contains nm with
              | false => rfl
              | true => exact absurd (by simpa using hc) hb
            rw [hnc, Bool.false_or] at h3
            have := hnh hb p.2 (by rw [← hpn]; exact mem_facsOf_builtin hp)
            rw [h3] at this; cases this
          · obtain ⟨d, y, hdm, hy, hhit⟩ := hits_of_hitsReg hinv.rdef hcc.2 (hinv.creg _ _ _ _ h0).1
              (by simpa using hbi)
            rw [List.any_eq_true]
            exact ⟨(Obj.contour cid, y), contourDeliv_self hy, hitB_of hdm hhit⟩
      · exact Or.inr (Or.inl (howed _ _ ho))
  · unfold movedW at hv
    rw [cacheOf_setCache, if_neg e] at hv
    have hv' : (cacheOf hw.w o).get? nm sk = some v := hv
    refine ⟨⟨v, hv'⟩, ?_⟩
    have hatt : attached hw.w o = true := by
      cases ha : attached hw.w o with
      | true => rfl
      | false => rw [hinv.loose o ha nm sk] at hv'; cases hv'
    rcases hinv.coh _ _ _ _ hv' with hfr | ho
    · by_cases hview : viewOf T (shiftW hw.w h.1 cid dx dy) o nm = viewOf T hw.w o nm
      · left
        rw [hfr]; unfold fresh
        rw [viewOf_congr T hss, hview]
      · right; right
        exact dep_event_cmove T hcov hw.w cid dx dy h hh hd hd' hinv.rdef o e nm hatt (hinv.creg _ _ _ _ hv').1 hview
    · exact Or.inr (Or.inl (howed _ _ ho))

theorem invH_cmove (P : Params V) (T : Tables) (hcov : Coverage T = true) (hpatch : PatchOK P) (hw : HWorld V)
    (cid : Nat) (dx dy : Int) (hinv : InvH P T hw) (hd : Dom hw.w) (hd' : Dom (doCmoveH P T hw cid dx dy).1.w) :
    InvH P T (doCmoveH P T hw cid dx dy).1 := by
  unfold doCmoveH at hd' ⊢
  cases hh : hostOfContour hw.w.glyphs cid with
  | none =>
    simp only [hh] at hd' ⊢
    show InvH P T { hw with w := (doCmove P T hw.w cid dx dy).1 }
    unfold doCmove
    simp only [hh]
    by_cases hl : hw.w.looseC.any (fun c => c.id = cid) = true
    · simp only [hl, if_true]
      exact invH_same_views P T hw _ hinv rfl rfl rfl rfl rfl
    · simp only [hl]
      exact hinv
  | some h =>
    simp only [hh] at hd' ⊢
    obtain ⟨hg, hhas⟩ := host_get_contour hd.ids.keys hh
    have hid : ∀ c, (shiftContour dx dy c).id = c.id := fun _ => rfl
    have hss := movedW_struct P T hw.w h.1 cid dx dy
    have hgsS : (shiftW hw.w h.1 cid dx dy).glyphs = AL.set hw.w.glyphs h.1 (mapContours cid (shiftContour dx dy) h.2) := by
      show updGlyph hw.w.glyphs h.1 _ = _
      exact updGlyph_eq_set _ hg
    have hattS : ∀ o, attached (shiftW hw.w h.1 cid dx dy) o = attached hw.w o := fun o =>
      attached_set_gen hw.w _ h.1 h.2 _ hd.ids.keys hg hgsS (fun c => hasContour_mapContours cid c _ hid h.2) (fun _ => rfl) o
    have hhostS : (hostOfContour (shiftW hw.w h.1 cid dx dy).glyphs cid).map (fun x => x.1) = some h.1 := by
      rw [hgsS]
      have := hostName_set hw.w.glyphs h.1 h.2 (mapContours cid (shiftContour dx dy) h.2) (hasContour cid)
        hd.ids.keys hg (hasContour_mapContours cid cid _ hid h.2)
      unfold hostOfContour
      rw [this]
      unfold hostOfContour at hh
      rw [hh]; rfl
    have hcontS : AL.contains (shiftW hw.w h.1 cid dx dy).glyphs h.1 = true := by rw [hgsS, AL.contains_set]; simp
    have hcc : covCell T "Contour" .attr (moveNotifs T) = true := cov_mem hcov (by simp [covList])
    unfold covCell at hcc
    rw [Bool.and_eq_true, changed_lit] at hcc
    -- the two branches share the world after the direct calls
    have hw2 : (setCache ({ hw.w with glyphs := updGlyph hw.w.glyphs h.1 (mapContours cid (shiftContour dx dy)) } : World V)
        (.contour cid) (moveCache P (facsOf T ({ hw.w with glyphs := updGlyph hw.w.glyphs h.1 (mapContours cid (shiftContour dx dy)) } : World V).regs "Contour")
          (cacheOf ({ hw.w with glyphs := updGlyph hw.w.glyphs h.1 (mapContours cid (shiftContour dx dy)) } : World V) (.contour cid)) dx dy) : World V)
        = movedW P T hw.w h.1 cid dx dy := rfl
    rw [hw2] at hd' ⊢
    have henq := fun q => enqueue_nodis hw hinv.nodis q
    by_cases hb : hw.blk (.contour cid) = true
    · -- the contour is held: the whole post is queued
      simp only [hb, if_true] at hd' ⊢
      have hdS : Dom (shiftW hw.w h.1 cid dx dy) := Dom.congr hss.symm hd'
      have hent := moved_entries P T hcov hpatch hw cid dx dy h hh hinv hd hdS
      refine ⟨?_, ?_, ?_, ?_, ?_, hinv.nodis⟩
      · intro o nm sk v hv
        simp only at hv ⊢
        rcases (hent o nm sk v hv).2 with hf | ho | hev
        · exact Or.inl hf
        · right; exact owedBy_mono (by intro q hq; rw [henq]; exact List.mem_append_left _ hq) ho
        · right
          rw [List.any_eq_true] at hev
          obtain ⟨e, he, hhit⟩ := hev
          refine ⟨(.contour cid, T.postsOf "Contour" "move"), by rw [henq]; simp, ?_⟩
          rw [List.any_eq_true]
          refine ⟨e, ?_, ?_⟩
          · have he2 := contourDeliv_mono_ns (moveNotifs_sub T) he
            simp only [postAt]
            have hgl : (movedW P T hw.w h.1 cid dx dy).glyphs = (shiftW hw.w h.1 cid dx dy).glyphs := rfl
            rw [hgl]
            cases hhs : hostOfContour (shiftW hw.w h.1 cid dx dy).glyphs cid with
            | none => rw [hhs] at hhostS; simp at hhostS
            | some hst =>
              rw [hhs] at hhostS
              simp only [Option.map_some, Option.some.injEq] at hhostS
              simp only
              rw [hhostS]
              exact he2
          · exact hhit
      · intro o ha nm sk
        simp only at ha ⊢
        rw [attached_congr hss, hattS] at ha
        cases hc : (cacheOf (movedW P T hw.w h.1 cid dx dy) o).get? nm sk with
        | none => rfl
        | some v =>
          obtain ⟨v0, hv0⟩ := (hent o nm sk v hc).1
          rw [hinv.loose o ha nm sk] at hv0; cases hv0
      · intro o nm sk v hv
        simp only at hv ⊢
        obtain ⟨v0, hv0⟩ := (hent o nm sk v hv).1
        exact hinv.creg _ _ _ _ hv0
      · exact hinv.rdef
      · intro q hq
        simp only at hq
        rw [henq, List.mem_append] at hq
        rcases hq with hq | hq
        · exact hinv.qheld q hq
        · simp only [List.mem_singleton] at hq
          rw [hq]
          have := hb
          unfold HWorld.blk HWorld.dis at this
          rw [hinv.nodis] at this
          have h2 : hw.held (.contour cid) = true := by simpa [AL.contains] using this
          exact h2
    · -- the contour is free: its notifications travel as far as the holds let them
      simp only [hb, Bool.false_eq_true, if_false] at hd' ⊢
      have hfu : (movedW P T hw.w h.1 cid dx dy).fuel = hw.w.fuel := rfl
      have hgl : (movedW P T hw.w h.1 cid dx dy).glyphs = (shiftW hw.w h.1 cid dx dy).glyphs := rfl
      have hns : ((T.postsOf "Contour" "move").filter fun n => n != "Contour.PointsChanged") = moveNotifs T := rfl
      rw [hfu, hgl, hns] at hd' ⊢
      generalize hout : contourDelivH hw.blk hw.w.fuel T (shiftW hw.w h.1 cid dx dy).glyphs h.1 cid (moveNotifs T) = out at hd' ⊢
      have hssA := sameStruct_applyDeliv T (movedW P T hw.w h.1 cid dx dy) out.ev
      have hdS : Dom (shiftW hw.w h.1 cid dx dy) := Dom.congr hss.symm (Dom.congr hssA.symm hd')
      have hent := moved_entries P T hcov hpatch hw cid dx dy h hh hinv hd hdS
      have hcov' := covers_contourDeliv hw.blk T (shiftW hw.w h.1 cid dx dy).glyphs (hostsOK_of_ids hdS.ids) hw.w.fuel
        h.1 cid (moveNotifs T) hhostS hcontS
      rw [hout] at hcov'
      have hrgM : (movedW P T hw.w h.1 cid dx dy).regs = hw.w.regs := rfl
      refine ⟨?_, ?_, ?_, ?_, ?_, hinv.nodis⟩
      · intro o nm sk v hv
        simp only at hv ⊢
        rw [get?_applyDeliv_eq, hrgM] at hv
        by_cases hany : out.ev.any (fun e => hitB T hw.w.regs e o nm) = true
        · simp [hany] at hv
        · simp only [hany, Bool.false_eq_true, if_false] at hv
          rcases (hent o nm sk v hv).2 with hf | ho | hev
          · left; rw [hf]; unfold fresh; rw [viewOf_congr T hssA]
          · right
            exact owedBy_congr hssA (owedBy_mono (by intro q hq; rw [henq]; exact List.mem_append_left _ hq) ho)
          · right
            rw [List.any_eq_true] at hev
            obtain ⟨e, he, hhit⟩ := hev
            rcases hcov' e he with h1 | ⟨q, hq, hqe⟩
            · exfalso; apply hany; rw [List.any_eq_true]; exact ⟨e, h1, hhit⟩
            · refine ⟨q, by rw [henq]; exact List.mem_append_right _ hq, ?_⟩
              rw [hssA.fuel, hssA.glyphs, hssA.regs, hfu, hgl, hrgM, List.any_eq_true]
              exact ⟨e, hqe, hhit⟩
      · intro o ha nm sk
        simp only at ha ⊢
        rw [attached_congr hssA, attached_congr hss, hattS] at ha
        rw [get?_applyDeliv_eq]
        cases hc : (cacheOf (movedW P T hw.w h.1 cid dx dy) o).get? nm sk with
        | none => simp
        | some v =>
          obtain ⟨v0, hv0⟩ := (hent o nm sk v hc).1
          rw [hinv.loose o ha nm sk] at hv0; cases hv0
      · intro o nm sk v hv
        simp only at hv ⊢
        rw [get?_applyDeliv_eq, hrgM] at hv
        by_cases hany : out.ev.any (fun e => hitB T hw.w.regs e o nm) = true
        · simp [hany] at hv
        · simp only [hany, Bool.false_eq_true, if_false] at hv
          obtain ⟨v0, hv0⟩ := (hent o nm sk v hv).1
          rw [hssA.regs, hrgM]
          exact hinv.creg _ _ _ _ hv0
      · intro r hr
        simp only at hr
        rw [hssA.regs, hrgM] at hr
        exact hinv.rdef r hr
      · intro q hq
        simp only at hq
        rw [henq, List.mem_append] at hq
        rcases hq with hq | hq
        · exact hinv.qheld q hq
        · have hbl : AllBlocked hw.blk out := by
            rw [← hout]
            simp only [contourDelivH, hb, Bool.false_eq_true, if_false]
            refine allBlocked_app (allBlocked_ev _ _) ?_
            split
            · exact allBlocked_glyphDelivH _ T _ _ _ _
            · exact allBlocked_empty _
          have := hbl q hq
          unfold HWorld.blk HWorld.dis at this
          rw [hinv.nodis] at this
          have h2 : hw.held q.1 = true := by simpa [AL.contains] using this
          exact h2

/-! ### every step keeps `InvH` -/

theorem directFold_struct (P : Params V) (T : Tables) (cid : Nat) (names : List String) :
    ∀ w : World V, SameStruct w (names.foldl (directOne P T cid) w) := by
  induction names with
  | nil => intro w; exact SameStruct.refl w
  | cons nm r ih =>
    intro w
    simp only [List.foldl_cons]
    refine SameStruct.trans ?_ (ih _)
    unfold directOne
    split
    · exact (sameStruct_setCache _ _ _).trans (getOne_struct P T _ _ _ _)
    · exact SameStruct.refl w

theorem directH_struct (P : Params V) (T : Tables) (hw0 : HWorld V) (w : World V) (op : Op) :
    SameStruct w (directH P T hw0 w op) := by
  by_cases hop : ∃ cid meth, op = .cmut cid meth
  · obtain ⟨cid, meth, rfl⟩ := hop
    rw [directH_eq]
    split
    · exact directFold_struct P T cid _ w
    · exact SameStruct.refl w
  · have : directH P T hw0 w op = w := by
      cases op <;> first | rfl | exact absurd ⟨_, _, rfl⟩ hop
    rw [this]; exact SameStruct.refl w

theorem quiet_holds {hw : HWorld V} (hq : hw.quiet = true) : hw.holds = [] ∧ hw.disabled = [] := by
  unfold HWorld.quiet at hq
  simp only [Bool.and_eq_true, List.isEmpty_iff] at hq
  exact hq

theorem queue_nil_of_holds_nil {P : Params V} {T : Tables} {hw : HWorld V} (hinv : InvH P T hw) (hh : hw.holds = []) :
    hw.queue = [] := by
  cases hq : hw.queue with
  | nil => rfl
  | cons q r =>
    have := hinv.qheld q (by rw [hq]; simp)
    unfold HWorld.held at this
    rw [hh] at this
    simp [AL.contains] at this

/-- with nothing held `InvH` is the plain invariant -/
theorem inv_of_invH {P : Params V} {T : Tables} {hw : HWorld V} (hinv : InvH P T hw) (hh : hw.holds = []) :
    Inv P T hw.w := by
  have hq := queue_nil_of_holds_nil hinv hh
  refine ⟨?_, hinv.loose, hinv.creg, hinv.rdef⟩
  intro o nm sk v hv
  rcases hinv.coh o nm sk v hv with hf | ⟨q, hq', _⟩
  · exact hf
  · rw [hq] at hq'; cases hq'

theorem invH_of_inv {P : Params V} {T : Tables} {hw : HWorld V} (hinv : Inv P T hw.w) (hq : hw.queue = [])
    (hd : hw.disabled = []) : InvH P T hw :=
  ⟨fun o nm sk v hv => Or.inl (hinv.coh o nm sk v hv), hinv.loose, hinv.creg, hinv.rdef,
   (by intro q hq'; rw [hq] at hq'; cases hq'), hd⟩

theorem held_set {hw : HWorld V} (o : Obj) (n : Nat) (q : Obj) (h : hw.held q = true) :
    AL.contains (AL.set hw.holds o n) q = true := by
  rw [AL.contains_set]
  unfold HWorld.held at h
  simp [h]

theorem hstep_invH (P : Params V) (T : Tables) (hcov : Coverage T = true) (hpatch : PatchOK P) (hw : HWorld V)
    (hop : HOp) (hok : hop.okIn hw = true) (hinv : InvH P T hw) (hd : Dom hw.w)
    (hd' : Dom (hstep P T hw hop).1.w) : InvH P T (hstep P T hw hop).1 := by
  cases hop with
  | hold o =>
    simp only [hstep]
    split
    · exact hinv
    · exact ⟨hinv.coh, hinv.loose, hinv.creg, hinv.rdef, fun q hq => held_set o _ q.1 (hinv.qheld q hq), hinv.nodis⟩
  | release o =>
    simp only [hstep]
    split
    · exact hinv
    · cases hg : AL.get? hw.holds o with
      | none => exact hinv
      | some n =>
        simp only
        by_cases hn : n ≤ 1
        · simp only [hn, if_true]
          exact invH_flush P T hw o hinv hd
        · simp only [hn, if_false]
          exact ⟨hinv.coh, hinv.loose, hinv.creg, hinv.rdef, fun q hq => held_set o _ q.1 (hinv.qheld q hq), hinv.nodis⟩
  | disable o => cases hok
  | enable o => cases hok
  | base op =>
    by_cases hq : hw.quiet = true
    · -- nothing held: the plain step
      obtain ⟨hh, hdz⟩ := quiet_holds hq
      have hI := inv_of_invH hinv hh
      have hqn := queue_nil_of_holds_nil hinv hh
      have e : (hstep P T hw (.base op)).1 = { hw with w := (step P T hw.w op).1 } := by
        simp only [hstep, hq, if_true]
      rw [e] at hd' ⊢
      exact invH_of_inv (step_inv P T hcov hpatch hw.w op hI hd hd') hqn hdz
    · by_cases hin : op.isInner = true
      · have e : (hstep P T hw (.base op)).1 = (stepInnerH P T hw op).1 := by
          simp only [hstep, hq, hin, if_true]; rfl
        rw [e] at hd' ⊢
        unfold stepInnerH at hd' ⊢
        simp only at hd' ⊢
        have hdb : Dom (bumpOf hw.w op) :=
          Dom.congr (sameStruct_applyDeliv T _ _).symm (Dom.congr (directH_struct P T hw _ op).symm hd')
        have i1 := invH_inner P T hcov hw op hin hinv hd hdb
        exact invH_direct P T hw _ op i1
      · have hself : InvH P T { hw with w := hw.w } := hinv
        cases op with
        | get o name kw =>
          have e : (hstep P T hw (.base (.get o name kw))).1 = { hw with w := (doGet P T hw.w o name kw).1 } := by
            simp only [hstep, hq, Op.isInner]; rfl
          rw [e]; exact invH_get P T hw o name kw hinv
        | has o name kw =>
          have e : (hstep P T hw (.base (.has o name kw))).1 = { hw with w := hw.w } := by
            simp only [hstep, hq, Op.isInner]; rfl
          rw [e]; exact hself
        | keys o =>
          have e : (hstep P T hw (.base (.keys o))).1 = { hw with w := hw.w } := by
            simp only [hstep, hq, Op.isInner]; rfl
          rw [e]; exact hself
        | destroy o name kw =>
          cases kw with
          | nil =>
            have e : (hstep P T hw (.base (.destroy o name []))).1 =
                { hw with w := setCache hw.w o ((cacheOf hw.w o).destroyName name) } := by
              simp only [hstep, hq, Op.isInner]; rfl
            rw [e]
            refine invH_shrink P T hw o _ hinv ?_
            intro nm sk v hv
            rw [Cache.get?_destroyName] at hv
            by_cases e2 : name = nm
            · simp [e2] at hv
            · simpa [e2] using hv
          | cons a r =>
            have e : (hstep P T hw (.base (.destroy o name (a :: r)))).1 =
                { hw with w := setCache hw.w o ((cacheOf hw.w o).destroyOne name (makeSubKey (a :: r))) } := by
              simp only [hstep, hq, Op.isInner]; rfl
            rw [e]
            refine invH_shrink P T hw o _ hinv ?_
            intro nm sk v hv
            rw [Cache.get?_destroyOne] at hv
            by_cases e2 : name = nm ∧ makeSubKey (a :: r) = sk
            · simp [e2] at hv
            · simpa [e2] using hv
        | destroyAll o =>
          have e : (hstep P T hw (.base (.destroyAll o))).1 = { hw with w := setCache hw.w o [] } := by
            simp only [hstep, hq, Op.isInner]; rfl
          rw [e]
          exact invH_shrink P T hw o [] hinv (fun nm sk v hv => by simp [Cache.get?] at hv)
        | cmove cid dx dy =>
          have e : (hstep P T hw (.base (.cmove cid dx dy))).1 = (doCmoveH P T hw cid dx dy).1 := by
            simp only [hstep, hq, Op.isInner]; rfl
          rw [e] at hd' ⊢
          exact invH_cmove P T hcov hpatch hw cid dx dy hinv hd hd'
        | cmut cid meth => exact absurd rfl hin
        | kmut kid meth => exact absurd rfl hin
        | gmut g meth => exact absurd rfl hin
        | gset meth => exact absurd rfl hin
        | touch o meth => exact absurd rfl hin
        | register cls name =>
          have e : (hstep P T hw (.base (.register cls name))).1 = hw := by simp only [hstep, hq, Op.isInner]; rfl
          rw [e]; exact hinv
        | mkContour cid =>
          have e : (hstep P T hw (.base (.mkContour cid))).1 = hw := by simp only [hstep, hq, Op.isInner]; rfl
          rw [e]; exact hinv
        | mkComp kid base =>
          have e : (hstep P T hw (.base (.mkComp kid base))).1 = hw := by simp only [hstep, hq, Op.isInner]; rfl
          rw [e]; exact hinv
        | ksetBase kid base =>
          have e : (hstep P T hw (.base (.ksetBase kid base))).1 = hw := by simp only [hstep, hq, Op.isInner]; rfl
          rw [e]; exact hinv
        | insContour g cid idx =>
          have e : (hstep P T hw (.base (.insContour g cid idx))).1 = hw := by simp only [hstep, hq, Op.isInner]; rfl
          rw [e]; exact hinv
        | remContour g cid =>
          have e : (hstep P T hw (.base (.remContour g cid))).1 = hw := by simp only [hstep, hq, Op.isInner]; rfl
          rw [e]; exact hinv
        | insComp g kid idx =>
          have e : (hstep P T hw (.base (.insComp g kid idx))).1 = hw := by simp only [hstep, hq, Op.isInner]; rfl
          rw [e]; exact hinv
        | remComp g kid =>
          have e : (hstep P T hw (.base (.remComp g kid))).1 = hw := by simp only [hstep, hq, Op.isInner]; rfl
          rw [e]; exact hinv
        | newGlyph name =>
          have e : (hstep P T hw (.base (.newGlyph name))).1 = hw := by simp only [hstep, hq, Op.isInner]; rfl
          rw [e]; exact hinv
        | delGlyph name =>
          have e : (hstep P T hw (.base (.delGlyph name))).1 = hw := by simp only [hstep, hq, Op.isInner]; rfl
          rw [e]; exact hinv
        | rename old new =>
          have e : (hstep P T hw (.base (.rename old new))).1 = hw := by simp only [hstep, hq, Op.isInner]; rfl
          rw [e]; exact hinv

end Repr
end DefconModel
