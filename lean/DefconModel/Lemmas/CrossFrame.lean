/-
Frame lemmas for M-Cross (C11, round 3): which operations change what a layer FILES under a glyph name
(`Heap.findNamed l .glyph n`), and for which names.  Everything the operations of M-Parents do is built from a few
primitives; each is shown to keep kinds, glyph names and the glyph lists of layers (`FK`), or to change the filing
of ONE layer for ONE name.
-/
import DefconModel.Lemmas.Cross

set_option linter.unusedSimpArgs false
set_option linter.unusedVariables false

namespace DefconModel
namespace Cross
open Parents

/-! ### What `findNamed` depends on -/

/-- the glyph objects a container lists, in list order -/
def gkids (h : Heap) (l : Id) : List Id := (h.kidsOf l).filter fun x => h.kindOf x = some .glyph

theorem find?_filter_and {α} (xs : List α) (p q : α → Bool) :
    (xs.filter p).find? q = xs.find? (fun x => p x && q x) := by
  induction xs with
  | nil => rfl
  | cons x xs ih =>
    by_cases hp : p x = true
    · simp only [List.filter_cons, hp, if_true, List.find?_cons, Bool.true_and]
      cases q x <;> simp [ih]
    · simp only [List.filter_cons, hp, List.find?_cons, Bool.false_eq_true, if_false, Bool.false_and]
      exact ih

theorem find?_congr' {α} {xs : List α} {p q : α → Bool} (hpq : ∀ x ∈ xs, p x = q x) : xs.find? p = xs.find? q := by
  induction xs with
  | nil => rfl
  | cons x xs ih =>
    simp only [List.find?_cons, hpq x (by simp)]
    rw [ih (fun y hy => hpq y (by simp [hy]))]

theorem findNamed_gkids (h : Heap) (l : Id) (n : String) :
    h.findNamed l .glyph n = (gkids h l).find? fun x => h.nameOf x = n := by
  unfold Heap.findNamed gkids
  rw [find?_filter_and]
  congr 1
  funext x
  by_cases a : h.kindOf x = some .glyph <;> by_cases b : h.nameOf x = n <;> simp [a, b]

/-- kinds of existing objects, names of glyph objects and the glyph lists of layers are kept -/
structure FK (h h' : Heap) : Prop where
  kk : ∀ i k, h.kindOf i = some k → h'.kindOf i = some k
  gk : ∀ l, h.kindOf l = some .layer → gkids h' l = gkids h l
  nm : ∀ x, h.kindOf x = some .glyph → h'.nameOf x = h.nameOf x

theorem FK.refl (h : Heap) : FK h h := ⟨fun _ _ e => e, fun _ _ => rfl, fun _ _ => rfl⟩

theorem FK.trans {a b c : Heap} (x : FK a b) (y : FK b c) : FK a c :=
  ⟨fun i k e => y.kk i k (x.kk i k e),
   fun l kl => by rw [y.gk l (x.kk l _ kl), x.gk l kl],
   fun g kg => by rw [y.nm g (x.kk g _ kg), x.nm g kg]⟩

theorem mem_gkids {h : Heap} {l x : Id} (hx : x ∈ gkids h l) : x ∈ h.kidsOf l ∧ h.kindOf x = some .glyph := by
  unfold gkids at hx
  simpa using hx

/-- under `FK` every layer files the same glyph object under every name -/
theorem FK.filing {h h' : Heap} (f : FK h h') {l : Id} (kl : h.kindOf l = some .layer) (n : String) :
    h'.findNamed l .glyph n = h.findNamed l .glyph n := by
  rw [findNamed_gkids, findNamed_gkids, f.gk l kl]
  apply find?_congr'
  intro x hx
  rw [f.nm x (mem_gkids hx).2]

theorem FK.foldl {α} (f : Heap → α → Heap) (hf : ∀ h a, FK h (f h a)) (xs : List α) : ∀ h, FK h (xs.foldl f h) := by
  induction xs with
  | nil => intro h; exact FK.refl h
  | cons x xs ih => intro h; rw [List.foldl_cons]; exact (hf h x).trans (ih _)

/-! ### Steps that keep kind and child list of every node, and the names -/

/-- what `FK` looks at in a node -/
def shape (n : Node) : Kind × List Id := (n.kind, n.kids)

/-- every node keeps kind and child list, the name table is untouched -/
structure SH (h h' : Heap) : Prop where
  sh : ∀ i, (h'.get i).map shape = (h.get i).map shape
  nm : h'.names = h.names

theorem SH.refl (h : Heap) : SH h h := ⟨fun _ => rfl, rfl⟩
theorem SH.trans {a b c : Heap} (x : SH a b) (y : SH b c) : SH a c :=
  ⟨fun i => by rw [y.sh, x.sh], by rw [y.nm, x.nm]⟩

theorem SH.of_get {h h' : Heap} (hg : ∀ i, h'.get i = h.get i) (hn : h'.names = h.names) : SH h h' :=
  ⟨fun i => by rw [hg], hn⟩

theorem SH.kindOf {h h' : Heap} (s : SH h h') (i : Id) : h'.kindOf i = h.kindOf i := by
  have := s.sh i
  unfold Heap.kindOf
  cases e1 : h'.get i <;> cases e2 : h.get i <;> simp [e1, e2, shape] at this ⊢
  exact this.1

theorem SH.kidsOf {h h' : Heap} (s : SH h h') (i : Id) : h'.kidsOf i = h.kidsOf i := by
  have := s.sh i
  unfold Heap.kidsOf
  cases e1 : h'.get i <;> cases e2 : h.get i <;> simp [e1, e2, shape] at this ⊢
  exact this.2

theorem SH.fk {h h' : Heap} (s : SH h h') : FK h h' := by
  refine ⟨fun i k e => by rw [s.kindOf]; exact e, fun l _ => ?_, fun x _ => by simp [Heap.nameOf, s.nm]⟩
  unfold gkids
  rw [s.kidsOf]
  apply List.filter_congr
  intro x _
  rw [s.kindOf]

theorem SH.foldl {α} (f : Heap → α → Heap) (hf : ∀ h a, SH h (f h a)) (xs : List α) : ∀ h, SH h (xs.foldl f h) := by
  induction xs with
  | nil => intro h; exact SH.refl h
  | cons x xs ih => intro h; rw [List.foldl_cons]; exact (hf h x).trans (ih _)

theorem names_upd (h : Heap) (i : Id) (f : Node → Node) : (h.upd i f).names = h.names := by
  unfold Heap.upd; split <;> rfl

theorem names_addReg (h : Heap) (r : Reg) : (h.addReg r).names = h.names := by
  unfold Heap.addReg; split <;> rfl

theorem names_foldl_addReg (c o x : Id) (ns : List NName) :
    ∀ h : Heap, (ns.foldl (fun h nm => h.addReg ⟨c, o, x, nm⟩) h).names = h.names := by
  induction ns with
  | nil => intro h; rfl
  | cons n ns ih => intro h; rw [List.foldl_cons, ih, names_addReg]

theorem names_observe (h : Heap) (x o : Id) (ns : List NName) : (observe h x o ns).names = h.names := by
  unfold observe
  split
  · rfl
  · exact names_foldl_addReg _ _ _ _ _

theorem names_unobserve (h : Heap) (x o : Id) (ns : List NName) : (unobserve h x o ns).names = h.names := by
  unfold unobserve; split <;> rfl

theorem names_setDirty (h : Heap) (x : Id) : (h.setDirty x).names = h.names := by
  unfold Heap.setDirty; split <;> rfl

theorem sh_observe (h : Heap) (x o : Id) (ns : List NName) : SH h (observe h x o ns) :=
  SH.of_get (fun i => by simp) (names_observe h x o ns)
theorem sh_unobserve (h : Heap) (x o : Id) (ns : List NName) : SH h (unobserve h x o ns) :=
  SH.of_get (fun i => by simp) (names_unobserve h x o ns)
theorem sh_setDirty (h : Heap) (x : Id) : SH h (h.setDirty x) := SH.of_get (fun i => by simp) (names_setDirty h x)
theorem sh_dropUnloaded (h : Heap) (l : Id) (n : String) : SH h (h.dropUnloaded l n) := SH.of_get (fun i => rfl) rfl

/-- an update of one node that keeps its kind and child list -/
theorem sh_upd (h : Heap) (x : Id) (f : Node → Node) (hf : ∀ n, shape (f n) = shape n) : SH h (h.upd x f) := by
  refine ⟨fun i => ?_, names_upd h x f⟩
  rw [get_upd]
  by_cases e : x = i
  · subst e
    cases h.get x <;> simp [hf]
  · simp [e]

theorem sh_clear (h : Heap) (x : Id) : SH h (h.clear x) := sh_upd h x _ (fun n => rfl)
theorem sh_endSelf (h : Heap) (x : Id) : SH h (endSelf h x) := (sh_unobserve h x x _).trans (sh_clear _ x)

theorem sh_detachChild (h : Heap) (g x : Id) : SH h (detachChild h g x) := by
  unfold detachChild
  split
  · exact SH.refl h
  · exact (sh_unobserve h x g _).trans (sh_endSelf _ x)

theorem sh_detachSingleton (h : Heap) (p x : Id) : SH h (detachSingleton h p x) := by
  unfold detachSingleton
  split
  · exact SH.refl h
  · exact (sh_unobserve h x p _).trans (sh_endSelf _ x)

theorem sh_stepG (g : Id) (h : Heap) (k : Id) : SH h (stepG g h k) := by
  unfold stepG
  split
  · exact sh_detachSingleton h g k
  · exact sh_detachSingleton h g k
  · exact sh_detachChild h g k
  · exact SH.refl h

theorem sh_endGlyph (h : Heap) (l g : Id) : SH h (endGlyph h l g) := by
  rw [endGlyph_eq]
  split
  · exact SH.refl h
  · exact ((sh_unobserve h g l _).trans (SH.foldl _ (sh_stepG g) _ _)).trans (sh_endSelf _ g)

theorem sh_stepL (l : Id) (h : Heap) (k : Id) : SH h (stepL l h k) := by
  unfold stepL
  split
  · exact sh_endGlyph h l k
  · exact sh_detachSingleton h l k
  · exact SH.refl h

/-- delivering `*.Changed` changes dirty flags only -/
theorem post_names (fuel : Nat) (h : Heap) (s : Id) : (post fuel h s).1.names = h.names := by
  induction fuel generalizing h s with
  | zero => rfl
  | succ fuel ih =>
    unfold post
    split
    · rename_i c ks _ _
      refine foldl_inv (fun (acc : Heap × List Id) => acc.1.names = h.names) _ _ ?_ _ rfl
      intro acc r _ ha
      split
      · exact ha
      · show (post fuel (acc.1.setDirty r.observer) r.observer).1.names = h.names
        rw [ih, names_setDirty, ha]
    · rfl

theorem sh_post (fuel : Nat) (h : Heap) (s : Id) : SH h (post fuel h s).1 :=
  SH.of_get (fun i => by simp) (post_names fuel h s)

theorem sh_mark (h : Heap) (x : Id) : SH h (mark h x) := by
  unfold mark markPost
  exact (sh_setDirty h x).trans (sh_post _ _ _)

theorem sh_fill (h : Heap) (x : Id) : SH h (fill h x) := by
  unfold fill
  refine sh_upd h x _ (fun n => ?_)
  split
  · rfl
  · split <;> rfl

theorem sh_cacheAll (h : Heap) : SH h (cacheAll h) := SH.foldl _ sh_fill _ _

theorem sh_wd (h : Heap) (d : List Id) : SH h (wd h d) := SH.of_get (fun i => rfl) rfl

/-! ### Steps that change a child list, allocate, or name -/

theorem names_addKid (h : Heap) (p x : Id) : (h.addKid p x).names = h.names := names_upd _ _ _
theorem names_unlist (h : Heap) (p x : Id) : (h.unlist p x).names = h.names := names_upd _ _ _

theorem kindOf_addKid (h : Heap) (p x i : Id) : (h.addKid p x).kindOf i = h.kindOf i := by
  simp only [Heap.kindOf, get_addKid]
  by_cases e : p = i
  · subst e; cases h.get p <;> simp
  · simp [e]

theorem kidsOf_addKid (h : Heap) (p x i : Id) :
    (h.addKid p x).kidsOf i = if p = i ∧ (h.get p).isSome then h.kidsOf i ++ [x] else h.kidsOf i := by
  simp only [Heap.kidsOf, get_addKid]
  by_cases e : p = i
  · subst e; cases h.get p <;> simp
  · simp [e]

theorem kidsOf_unlist (h : Heap) (p x i : Id) :
    (h.unlist p x).kidsOf i = if p = i then (h.kidsOf i).filter (· ≠ x) else h.kidsOf i := by
  simp only [Heap.kidsOf, get_unlist]
  by_cases e : p = i
  · subst e; cases h.get p <;> simp
  · simp [e]

/-- listing an object that is not a glyph, or listing into something that is not a layer -/
theorem fk_addKid (h : Heap) (p x : Id) (hc : h.kindOf p ≠ some .layer ∨ h.kindOf x ≠ some .glyph) :
    FK h (h.addKid p x) := by
  refine ⟨fun i k e => by rw [kindOf_addKid]; exact e, fun l kl => ?_, fun g _ => by simp [Heap.nameOf, names_addKid]⟩
  unfold gkids
  rw [kidsOf_addKid]
  have hk : ∀ y, (h.addKid p x).kindOf y = h.kindOf y := kindOf_addKid h p x
  simp only [hk]
  by_cases e : p = l ∧ (h.get p).isSome = true
  · rw [if_pos e]
    rcases hc with hc | hc
    · exact absurd (e.1 ▸ kl) hc
    · simp [List.filter_append, hc]
  · rw [if_neg e]

/-- unlisting an object that is not a glyph, or from something that is not a layer -/
theorem fk_unlist (h : Heap) (p x : Id) (hc : h.kindOf p ≠ some .layer ∨ h.kindOf x ≠ some .glyph) :
    FK h (h.unlist p x) := by
  refine ⟨fun i k e => by rw [kindOf_unlist]; exact e, fun l kl => ?_, fun g _ => by simp [Heap.nameOf, names_unlist]⟩
  unfold gkids
  rw [kidsOf_unlist]
  have hk : ∀ y, (h.unlist p x).kindOf y = h.kindOf y := kindOf_unlist h p x
  simp only [hk]
  by_cases e : p = l
  · rw [if_pos e]
    rcases hc with hc | hc
    · exact absurd (e ▸ kl) hc
    · rw [List.filter_filter]
      apply List.filter_congr
      intro y _
      by_cases ey : y = x
      · subst ey; simp [hc]
      · simp [ey]
  · rw [if_neg e]

/-- a new object: nothing that exists lists it -/
theorem fk_alloc {ds} {h : Heap} (st : Struct ds h) (n : Node) : FK h (h.alloc n) := by
  have old : ∀ i k, h.kindOf i = some k → (h.alloc n).kindOf i = some k := fun i k e => by
    obtain ⟨ni, ei, ki⟩ := kindOf_some e
    have hi : i ≠ h.next := fun e2 => by rw [e2, get_next] at ei; cases ei
    simp [Heap.kindOf, get_alloc, hi, ei, ki]
  refine ⟨old, fun l kl => ?_, fun g _ => rfl⟩
  obtain ⟨nl, el, _⟩ := kindOf_some kl
  have hl : l ≠ h.next := fun e2 => by rw [e2, get_next] at el; cases el
  have kk : (h.alloc n).kidsOf l = h.kidsOf l := by simp [Heap.kidsOf, get_alloc, hl]
  unfold gkids
  rw [kk]
  apply List.filter_congr
  intro x hx
  rw [kidsOf_eq el] at hx
  obtain ⟨nx, ex, _⟩ := st.kKids l nl x el hx
  have hx2 : x ≠ h.next := fun e2 => by rw [e2, get_next] at ex; cases ex
  simp [Heap.kindOf, get_alloc, hx2]

/-- naming something that is not a glyph -/
theorem fk_setName (h : Heap) (x : Id) (s : String) (hx : h.kindOf x ≠ some .glyph) : FK h (h.setName x s) := by
  refine ⟨fun i k e => e, fun l _ => rfl, fun g kg => ?_⟩
  have : x ≠ g := fun e => hx (e ▸ kg)
  simp [Heap.nameOf, Heap.setName, AL.get?_set_ne _ _ _ _ this]

/-! ### The helpers of `step` that file nothing -/

theorem FK.of_kk {h h' : Heap} (f : FK h h') {p : Id} {k : Kind} (e : h.kindOf p = some k) (hk : k ≠ .layer) :
    h'.kindOf p ≠ some .layer := by rw [f.kk p k e]; simpa using hk

/-- a new object listed by an existing container: not a glyph, or not into a layer -/
theorem fk_spawn {ds} {h : Heap} (st : Struct ds h) {p : Id} {np n' : Node} (ep : h.get p = some np)
    (hc : np.kind ≠ .layer ∨ n'.kind ≠ .glyph) : FK h (spawn h p n') := by
  have hpx : p ≠ h.next := fun e => by rw [e, get_next] at ep; cases ep
  have f1 : FK h (h.alloc n') := fk_alloc st n'
  have f2 : FK (h.alloc n') (observe (h.alloc n') h.next h.next [.all]) := (sh_observe _ _ _ _).fk
  have f3 := (sh_observe (observe (h.alloc n') h.next h.next [.all]) h.next p
    (namesFor (observe (h.alloc n') h.next h.next [.all]) p h.next)).fk
  refine ((f1.trans f2).trans f3).trans ?_
  show FK _ (Heap.addKid _ p h.next)
  apply fk_addKid
  have g : ∀ i, (observe (observe (h.alloc n') h.next h.next [.all]) h.next p
      (namesFor (observe (h.alloc n') h.next h.next [.all]) p h.next)).get i = (h.alloc n').get i := fun i => by simp
  rcases hc with hc | hc
  · left
    simp only [Heap.kindOf, g, get_alloc, hpx, if_false, ep, Option.map_some]
    simpa using hc
  · right
    simp only [Heap.kindOf, g, get_alloc, if_true, Option.map_some]
    simpa using hc

theorem fk_spawnInGlyph {ds} {h : Heap} (st : Struct ds h) {g : Id} (kg : h.kindOf g = some .glyph) (k : Kind) :
    FK h (spawnInGlyph h g k) := by
  obtain ⟨ng, eg, kng⟩ := kindOf_some kg
  exact fk_spawn st eg (Or.inl (by rw [kng]; simp))

theorem fk_spawnMany {ds} {g : Id} {k : Kind} (kl : k.isLeaf = true) (n : Nat) :
    ∀ {h : Heap}, WiredX ds h → h.kindOf g = some .glyph → FK h (spawnMany h g k n) := by
  induction n with
  | zero => intro h _ _; exact FK.refl h
  | succ n ih =>
    intro h w kg
    unfold spawnMany
    exact (fk_spawnInGlyph w.toStruct kg k).trans (ih (wired_spawnInGlyph w kg kl) (kindOf_spawn kg))

theorem fk_spawnChildren {ds} {h : Heap} (w : WiredX ds h) {g : Id} (kg : h.kindOf g = some .glyph) (spec : List Nat) :
    FK h (spawnChildren h g spec) := by
  unfold spawnChildren
  simp only
  obtain ⟨w1, k1⟩ := wired_spawnMany (k := .contour) (by simp [Kind.isLeaf]) (spec.getD 0 0) w kg
  obtain ⟨w2, k2⟩ := wired_spawnMany (k := .component) (by simp [Kind.isLeaf]) (spec.getD 1 0) w1 (k1 g _ kg)
  obtain ⟨w3, k3⟩ := wired_spawnMany (k := .anchor) (by simp [Kind.isLeaf]) (spec.getD 2 0) w2 (k2 g _ (k1 g _ kg))
  obtain ⟨w4, k4⟩ := wired_spawnMany (k := .guideline) (by simp [Kind.isLeaf]) (spec.getD 3 0) w3
    (k3 g _ (k2 g _ (k1 g _ kg)))
  obtain ⟨w5, k5⟩ := wired_spawnMany (k := .image) (by simp [Kind.isLeaf]) (spec.getD 4 0) w4
    (k4 g _ (k3 g _ (k2 g _ (k1 g _ kg))))
  exact ((((((fk_spawnMany (k := .contour) (by simp [Kind.isLeaf]) _ w kg).trans
    (fk_spawnMany (k := .component) (by simp [Kind.isLeaf]) _ w1 (k1 g _ kg))).trans
    (fk_spawnMany (k := .anchor) (by simp [Kind.isLeaf]) _ w2 (k2 g _ (k1 g _ kg)))).trans
    (fk_spawnMany (k := .guideline) (by simp [Kind.isLeaf]) _ w3 (k3 g _ (k2 g _ (k1 g _ kg))))).trans
    (fk_spawnMany (k := .image) (by simp [Kind.isLeaf]) _ w4 (k4 g _ (k3 g _ (k2 g _ (k1 g _ kg)))))).trans
    (fk_spawnMany (k := .lib) (by simp [Kind.isLeaf]) _ w5 (k5 g _ (k4 g _ (k3 g _ (k2 g _ (k1 g _ kg)))))))

/-- `glyph.image`, `glyph.lib`, `layer.lib`, `font.lib`: never a glyph -/
theorem fk_ensure {ds} {h : Heap} (st : Struct ds h) (p : Id) {k : Kind} (hk : k ≠ .glyph) : FK h (ensure h p k) := by
  unfold ensure
  split
  · exact FK.refl h
  · cases ep : h.kindOf p with
    | none => exact FK.refl h
    | some kp =>
      obtain ⟨np, enp, knp⟩ := kindOf_some ep
      cases kp with
      | glyph => exact fk_spawnInGlyph st ep k
      | layer => exact fk_spawn st enp (Or.inr hk)
      | font => exact fk_spawn st enp (Or.inr hk)
      | layerSet => exact FK.refl h
      | contour => exact FK.refl h
      | component => exact FK.refl h
      | anchor => exact FK.refl h
      | guideline => exact FK.refl h
      | image => exact FK.refl h
      | lib => exact FK.refl h

/-- `attachChild` / `attachFontGuideline`: into a glyph or a font -/
theorem fk_adopt (h : Heap) (p x : Id) (f : Node → Node) (hf : ∀ n, shape (f n) = shape n)
    (hp : h.kindOf p ≠ some .layer) : FK h (adopt h p x f) := by
  have s1 := sh_upd h x f hf
  have s2 := sh_observe (h.upd x f) x x [.all]
  have s3 := sh_observe (observe (h.upd x f) x x [.all]) x p (namesFor (observe (h.upd x f) x x [.all]) p x)
  refine ((s1.trans s2).trans s3).fk.trans ?_
  show FK _ (Heap.addKid _ p x)
  apply fk_addKid
  left
  rw [((s1.trans s2).trans s3).kindOf]; exact hp

theorem fk_attachChild (h : Heap) (g x : Id) (hg : h.kindOf g ≠ some .layer) : FK h (attachChild h g x) := by
  rw [attachChild_eq]
  exact fk_adopt h g x _ (fun n => rfl) hg

theorem fk_attachFontGuideline (h : Heap) (f x : Id) (hf : h.kindOf f ≠ some .layer) :
    FK h (attachFontGuideline h f x) := by
  rw [attachFontGuideline_eq]
  exact fk_adopt h f x _ (fun n => rfl) hf

theorem fk_insertStep (h : Heap) (p x : Id) : FK h (insertStep h p x).1 := by
  unfold insertStep
  cases ep : h.kindOf p with
  | none => exact FK.refl h
  | some kp =>
    cases ex : h.get x with
    | none => cases kp <;> exact FK.refl h
    | some nx =>
      cases kp with
      | glyph =>
        simp only
        split
        · exact FK.refl h
        · split
          · exact FK.refl h
          · split
            · exact FK.refl h
            · split
              · exact FK.refl h
              · show FK h (mark (attachChild h p x) p)
                exact (fk_attachChild h p x (by rw [ep]; simp)).trans (sh_mark _ p).fk
      | font =>
        simp only
        split
        · exact FK.refl h
        · split
          · exact FK.refl h
          · split
            · exact FK.refl h
            · show FK h (mark (attachFontGuideline h p x) p)
              exact (fk_attachFontGuideline h p x (by rw [ep]; simp)).trans (sh_mark _ p).fk
      | layerSet => exact FK.refl h
      | layer => exact FK.refl h
      | contour => exact FK.refl h
      | component => exact FK.refl h
      | anchor => exact FK.refl h
      | guideline => exact FK.refl h
      | image => exact FK.refl h
      | lib => exact FK.refl h

theorem fk_insertAll (p : Id) (xs : List Id) : ∀ h, FK h (insertAll h p xs).1 := by
  induction xs with
  | nil => intro h; exact FK.refl h
  | cons x xs ih =>
    intro h
    unfold insertAll
    have f1 := fk_insertStep h p x
    split
    · rename_i h' e
      rw [e] at f1
      exact f1.trans (ih h')
    · rename_i r hne
      exact f1

theorem fk_removeChild (h : Heap) (g x : Id) (hg : h.kindOf g ≠ some .layer) : FK h (removeChild h g x) := by
  unfold removeChild
  exact ((fk_unlist h g x (Or.inl hg)).trans (sh_detachChild _ g x).fk).trans (sh_mark _ g).fk

theorem fk_removeFontGuideline (h : Heap) (f x : Id) (hf : h.kindOf f ≠ some .layer) :
    FK h (removeFontGuideline h f x) := by
  unfold removeFontGuideline
  exact ((fk_unlist h f x (Or.inl hf)).trans (sh_detachSingleton _ f x).fk).trans (sh_mark _ f).fk

theorem fk_removeAny (h : Heap) (p x : Id) (hp : h.kindOf p ≠ some .layer) : FK h (removeAny h p x) := by
  unfold removeAny
  split
  · exact fk_removeFontGuideline h p x hp
  · exact fk_removeChild h p x hp

theorem fk_foldl_removeAny (p : Id) {k : Kind} (hk : k ≠ .layer) (xs : List Id) :
    ∀ h, h.kindOf p = some k → FK h (xs.foldl (fun h x => removeAny h p x) h) := by
  induction xs with
  | nil => intro h _; exact FK.refl h
  | cons x xs ih =>
    intro h kp
    rw [List.foldl_cons]
    have f1 := fk_removeAny h p x (by rw [kp]; simpa using hk)
    exact f1.trans (ih _ (f1.kk p k kp))

theorem fk_clearRole (h : Heap) (p : Id) (role : Kind) {k : Kind} (kp : h.kindOf p = some k) (hk : k ≠ .layer) :
    FK h (clearRole h p role) := fk_foldl_removeAny p hk _ h kp

theorem fk_clearAllCore (h : Heap) (g : Id) (kg : h.kindOf g = some .glyph) : FK h (clearAllCore h g) := by
  have hk : Kind.glyph ≠ .layer := by simp
  have f1 := fk_clearRole h g .contour kg hk
  have f2 := fk_clearRole _ g .component (f1.kk g _ kg) hk
  have f3 := fk_clearRole _ g .anchor (f2.kk g _ (f1.kk g _ kg)) hk
  have f4 := fk_clearRole _ g .guideline (f3.kk g _ (f2.kk g _ (f1.kk g _ kg))) hk
  have f := ((f1.trans f2).trans f3).trans f4
  unfold clearAllCore
  simp only
  split
  · exact f.trans (sh_mark _ g).fk
  · exact f

theorem fk_killLayer_from (h0 : Heap) (s l : Id) (hs : h0.kindOf s ≠ some .layer) :
    FK h0 (match dispOf h0 l with
      | none => h0.unlist s l
      | some _ =>
        (endSelf (((unobserve h0 l s (namesFor h0 s l)).kidsOf l).foldl (stepL l) (unobserve h0 l s (namesFor h0 s l))) l).unlist s l) := by
  split
  · exact fk_unlist _ _ _ (Or.inl hs)
  · have sh : SH h0 (endSelf (((unobserve h0 l s (namesFor h0 s l)).kidsOf l).foldl (stepL l)
        (unobserve h0 l s (namesFor h0 s l))) l) :=
      ((sh_unobserve h0 l s (namesFor h0 s l)).trans (SH.foldl _ (sh_stepL l) _ _)).trans (sh_endSelf _ l)
    exact sh.fk.trans (fk_unlist _ _ _ (Or.inl (by rw [sh.kindOf]; exact hs)))

theorem fk_killLayer (h : Heap) (s l : Id) (hs : h.kindOf s ≠ some .layer) : FK h (killLayer h s l) := by
  rw [killLayer_eq]
  cases e : h.storedFont s with
  | none => exact fk_killLayer_from h s l hs
  | some f =>
    have sh := sh_unobserve h l f (namesFor h f l)
    exact sh.fk.trans (fk_killLayer_from _ s l (by rw [sh.kindOf]; exact hs))

theorem fk_addLayer {ds} {h : Heap} (w : WiredX ds h) {f s : Id} (name : String) (ks : h.kindOf s = some .layerSet) :
    FK h (addLayer h f s name) := by
  obtain ⟨nS, eS, knS⟩ := kindOf_some ks
  have hsn : s ≠ h.next := fun e => by rw [e, get_next] at eS; cases eS
  have f1 : FK h (spawn h s { kind := .layer, pLayerSet := some s }) :=
    fk_spawn w.toStruct eS (Or.inl (by rw [knS]; simp))
  have el : (spawn h s { kind := .layer, pLayerSet := some s }).get h.next = some { kind := .layer, pLayerSet := some s } :=
    get_spawn_new hsn
  have f2 := fk_setName (spawn h s { kind := .layer, pLayerSet := some s }) h.next name (by rw [kindOf_eq el]; simp)
  unfold addLayer
  simp only
  exact (f1.trans f2).trans (sh_observe _ _ _ _).fk

theorem fk_newFontCore {ds} {h : Heap} (w : WiredX ds h) : FK h (newFontCore h) := by
  unfold newFontCore
  simp only
  have w1 : WiredX ds (h.alloc { kind := .font }) := wired_alloc w .font
  have e1 : (h.alloc { kind := .font }).get h.next = some { kind := .font } := by simp [get_alloc]
  have w2 : WiredX ds (observe (h.alloc { kind := .font }) h.next h.next [.all]) := wired_observe_self w1 h.next
  have e2 : (observe (h.alloc { kind := .font }) h.next h.next [.all]).get h.next = some { kind := .font } := by simp [e1]
  exact ((fk_alloc w.toStruct _).trans (sh_observe _ _ _ _).fk).trans (fk_spawn w2.toStruct e2 (Or.inl (by simp)))

/-! ### Steps that change what ONE layer files under ONE name -/

/-- kinds are kept, and so is what every layer files under every name that is not listed -/
structure FX (ex : List (Id × String)) (h h' : Heap) : Prop where
  kk : ∀ i k, h.kindOf i = some k → h'.kindOf i = some k
  fl : ∀ l n, h.kindOf l = some .layer → (l, n) ∉ ex → h'.findNamed l .glyph n = h.findNamed l .glyph n

theorem FK.fx {h h' : Heap} (f : FK h h') (ex : List (Id × String)) : FX ex h h' :=
  ⟨f.kk, fun l n kl _ => f.filing kl n⟩

theorem FX.trans {e1 e2 : List (Id × String)} {a b c : Heap} (x : FX e1 a b) (y : FX e2 b c) : FX (e1 ++ e2) a c :=
  ⟨fun i k e => y.kk i k (x.kk i k e), fun l n kl hn => by
    simp only [List.mem_append, not_or] at hn
    rw [y.fl l n (x.kk l _ kl) hn.2, x.fl l n kl hn.1]⟩

theorem FX.mono {e e' : List (Id × String)} {a b : Heap} (x : FX e a b) (sub : ∀ p, p ∈ e → p ∈ e') : FX e' a b :=
  ⟨x.kk, fun l n kl hn => x.fl l n kl (fun hm => hn (sub _ hm))⟩

theorem findNamed_name {h : Heap} {p : Id} {k : Kind} {name : String} {r : Id} (e : h.findNamed p k name = some r) :
    h.nameOf r = name := by
  unfold Heap.findNamed at e
  have h1 := List.find?_some e
  simp only [decide_eq_true_eq] at h1
  exact h1.2

theorem find?_filter_ne {α} [DecidableEq α] (xs : List α) (r : α) (q : α → Bool) (hq : q r = false) :
    (xs.filter (· ≠ r)).find? q = xs.find? q := by
  induction xs with
  | nil => rfl
  | cons x xs ih =>
    by_cases e : x = r
    · subst e
      have : (List.filter (fun a => decide (a ≠ x)) (x :: xs)) = List.filter (fun a => decide (a ≠ x)) xs := by
        simp [List.filter_cons]
      rw [this, ih, List.find?_cons, hq]
    · simp only [List.filter_cons, ne_eq, e, not_false_eq_true, decide_true, if_true, List.find?_cons, ih]

/-- a layer lets go of a glyph object: only what it files under that object's name can change -/
theorem fx_killGlyph (h : Heap) (l r : Id) : FX [(l, h.nameOf r)] h (killGlyph h l r) := by
  unfold killGlyph
  have sh := sh_endGlyph h l r
  have f1 := sh.fk
  refine ⟨fun i k e => by rw [kindOf_unlist]; exact f1.kk i k e, fun l' n kl hn => ?_⟩
  rw [← f1.filing kl n, findNamed_gkids, findNamed_gkids]
  have hk : ∀ y, ((endGlyph h l r).unlist l r).kindOf y = (endGlyph h l r).kindOf y := kindOf_unlist _ l r
  have hnm : ∀ y, ((endGlyph h l r).unlist l r).nameOf y = (endGlyph h l r).nameOf y := fun y => by
    simp [Heap.nameOf, names_unlist]
  simp only [hnm]
  unfold gkids
  simp only [hk, kidsOf_unlist]
  by_cases e : l = l'
  · subst e
    rw [if_pos rfl, List.filter_filter]
    have : ((endGlyph h l r).kidsOf l).filter (fun a => (decide ((endGlyph h l r).kindOf a = some Kind.glyph)) && decide (a ≠ r)) =
        (((endGlyph h l r).kidsOf l).filter (fun a => decide ((endGlyph h l r).kindOf a = some Kind.glyph))).filter (· ≠ r) := by
      rw [List.filter_filter]
      apply List.filter_congr
      intro y _
      simp [Bool.and_comm]
    rw [this]
    apply find?_filter_ne
    have hne : h.nameOf r ≠ n := fun e2 => hn (by simp [e2])
    have : (endGlyph h l r).nameOf r = h.nameOf r := by simp [Heap.nameOf, sh.nm]
    simp [this, hne]
  · rw [if_neg e]

theorem names_alloc (h : Heap) (n : Node) : (h.alloc n).names = h.names := rfl

theorem names_spawn (h : Heap) (p : Id) (n' : Node) : (spawn h p n').names = h.names := by
  simp only [spawn, names_addKid, names_observe, names_alloc]

/-- `Layer.instantiateGlyphObject` + filing it under `name` -/
theorem fx_fileNew {ds} {h : Heap} (st : Struct ds h) {l : Id} {nl : Node} (el : h.get l = some nl) (node : Node)
    (name : String) : FX [(l, name)] h (((spawn h l node).setName h.next name).dropUnloaded l name) := by
  have hln : l ≠ h.next := fun e => by rw [e, get_next] at el; cases el
  have g : ∀ i, (((spawn h l node).setName h.next name).dropUnloaded l name).get i = ((h.alloc node).addKid l h.next).get i :=
    fun i => by rw [get_dropUnloaded, get_setName, get_spawn]
  have old : ∀ i, i ≠ h.next → i ≠ l → (((spawn h l node).setName h.next name).dropUnloaded l name).get i = h.get i :=
    fun i h1 h2 => by rw [g, get_addKid, if_neg (Ne.symm h2), get_alloc, if_neg h1]
  have kold : ∀ i, i ≠ h.next → (((spawn h l node).setName h.next name).dropUnloaded l name).kindOf i = h.kindOf i := by
    intro i h1
    simp only [Heap.kindOf, g, get_addKid, get_alloc]
    by_cases e : l = i
    · subst e; simp [hln, el]
    · simp [e, h1]
  have nmold : ∀ i, i ≠ h.next → (((spawn h l node).setName h.next name).dropUnloaded l name).nameOf i = h.nameOf i := by
    intro i h1
    simp [Heap.nameOf, Heap.dropUnloaded, Heap.setName, names_spawn, AL.get?_set_ne _ _ _ _ (Ne.symm h1)]
  have nmnew : (((spawn h l node).setName h.next name).dropUnloaded l name).nameOf h.next = name := by
    simp [Heap.nameOf, Heap.dropUnloaded, Heap.setName]
  have exists_lt : ∀ {i k}, h.kindOf i = some k → i ≠ h.next := fun {i k} e e2 => by
    obtain ⟨ni, ei, _⟩ := kindOf_some e
    rw [e2, get_next] at ei; cases ei
  refine ⟨fun i k e => by rw [kold i (exists_lt e)]; exact e, fun l' n kl' hn => ?_⟩
  obtain ⟨nl', el', _⟩ := kindOf_some kl'
  have kids_lt : ∀ x ∈ h.kidsOf l', x ≠ h.next := fun x hx e2 => by
    rw [kidsOf_eq el'] at hx
    obtain ⟨nx, ex, _⟩ := st.kKids l' nl' x el' hx
    rw [e2, get_next] at ex; cases ex
  have kids' : (((spawn h l node).setName h.next name).dropUnloaded l name).kidsOf l' =
      if l = l' then h.kidsOf l' ++ [h.next] else h.kidsOf l' := by
    simp only [Heap.kidsOf, g, get_addKid, get_alloc]
    by_cases e : l = l'
    · subst e; simp [hln, el]
    · have : l' ≠ h.next := exists_lt kl'
      simp [e, this]
  unfold Heap.findNamed
  rw [kids']
  have cong : ∀ x ∈ h.kidsOf l',
      decide ((((spawn h l node).setName h.next name).dropUnloaded l name).kindOf x = some Kind.glyph ∧
        (((spawn h l node).setName h.next name).dropUnloaded l name).nameOf x = n) =
      decide (h.kindOf x = some Kind.glyph ∧ h.nameOf x = n) := fun x hx => by
    rw [kold x (kids_lt x hx), nmold x (kids_lt x hx)]
  by_cases e : l = l'
  · subst e
    rw [if_pos rfl, List.find?_append, find?_congr' cong]
    have hne : name ≠ n := fun e2 => hn (by simp [e2])
    simp [nmnew, hne]
  · rw [if_neg e, find?_congr' cong]

theorem fx_dropNamed (h : Heap) (l : Id) (name : String) : FX [(l, name)] h (dropNamed h l name) := by
  unfold dropNamed
  split
  · rename_i r e
    have := fx_killGlyph h l r
    rw [findNamed_name e] at this
    exact this
  · exact (FK.refl h).fx _

theorem fx_addGlyph {h : Heap} (w : Wired h) {l s : Id} (kl : h.kindOf l = some .layer)
    (hs : h.storedLayerSet l = some s) (name : String) : FX [(l, name)] h (addGlyph h l name) := by
  obtain ⟨f, c⟩ := layerCtx_of_live w.toStruct kl hs
  obtain ⟨w1, c1, k1, n1⟩ := wired_dropNamed w c name
  rw [addGlyph_eq]
  obtain ⟨nl, el, _⟩ := kindOf_some c1.kl
  have f2 := fx_fileNew w1.toStruct el (glyphNode (dropNamed h l name) l) name
  exact ((fx_dropNamed h l name).trans f2).mono (fun p hp => by simpa using hp)

/-! ### Every operation of M-Parents -/

theorem sh_unloaded (h : Heap) (u : List (Id × List String)) : SH h { h with unloaded := u } :=
  SH.of_get (fun i => rfl) rfl

theorem fk_openLayers (f s : Id) (layers : List (String × List String)) :
    ∀ {h : Heap}, Wired h → h.kindOf s = some .layerSet → h.ownerOf s = some f → h.kindOf f = some .font →
      FK h (layers.foldl (fun h ln =>
        let l := h.next
        let h := addLayer h f s ln.1
        { h with unloaded := AL.set h.unloaded l ln.2 }) h) := by
  induction layers with
  | nil => intro h _ _ _ _; exact FK.refl h
  | cons ln lns ih =>
    intro h w ks os kf
    rw [List.foldl_cons]
    obtain ⟨w1, k1, o1, _, _⟩ := wired_addLayer w ln.1 ks os kf
    have w2 : Wired { addLayer h f s ln.1 with unloaded := AL.set (addLayer h f s ln.1).unloaded h.next ln.2 } :=
      wired_same w1 (fun i => rfl) rfl
    exact ((fk_addLayer w ln.1 ks).trans (sh_unloaded _ _).fk).trans (ih w2 (k1 s _ ks) (o1 s f os) (k1 f _ kf))

theorem fk_clean (h : Heap) : FK h { h with dirty := [] } :=
  (SH.of_get (h := h) (h' := { h with dirty := [] }) (fun i => rfl) rfl).fk

/-- every operation but a rename keeps what every layer files under every name it does not announce -/
theorem fx_step {h : Heap} (w : Wired h) (op : Parents.Op) (hren : ∀ g name, op ≠ .renameGlyph g name) :
    FX (announced h (.base op)) h (step h op).1 := by
  cases op with
  | newFont =>
    simp only [step]
    obtain ⟨w1, k1, kf, ks, os, n1⟩ := wired_newFontCore w
    obtain ⟨w2, k2, _, _, _⟩ := wired_addLayer w1 "public.default" ks os kf
    have w3 := wired_mark (wired_setDirty w2 (h.next + 1 + 1)) (h.next + 1)
    exact (((((fk_newFontCore w).trans (fk_addLayer w1 "public.default" ks)).trans (sh_setDirty _ _).fk).trans
      (sh_mark _ _).fk).trans (fk_ensure w3.toStruct h.next (by simp))).fx _
  | openFont layers =>
    simp only [step]
    obtain ⟨w1, k1, kf, ks, os, n1⟩ := wired_newFontCore w
    obtain ⟨w2, kf2⟩ := wired_openLayers h.next (h.next + 1) layers w1 ks os kf
    exact (((fk_newFontCore w).trans (fk_openLayers h.next (h.next + 1) layers w1 ks os kf)).trans
      (fk_ensure w2.toStruct h.next (by simp))).fx _
  | newLayer f name =>
    simp only [step]
    cases e : layerSetOfFont h f with
    | none => exact (FK.refl h).fx _
    | some s =>
      obtain ⟨kf, ks, os⟩ := layerSetOfFont_spec w e
      simp only
      cases e2 : h.findNamed s .layer name with
      | some _ => exact (FK.refl h).fx _
      | none => exact (((fk_addLayer w name ks).trans (sh_setDirty _ _).fk).trans (sh_mark _ _).fk).fx _
  | delLayer f name =>
    simp only [step]
    cases e : layerSetOfFont h f with
    | none => exact (FK.refl h).fx _
    | some s =>
      obtain ⟨kf, ks, os⟩ := layerSetOfFont_spec w e
      simp only
      cases e2 : h.findNamed s .layer name with
      | none => exact (FK.refl h).fx _
      | some l => exact ((fk_killLayer h s l (by rw [ks]; simp)).trans (sh_mark _ _).fk).fx _
  | renameLayer l name =>
    simp only [step]
    split
    · exact (FK.refl h).fx _
    · rename_i kl
      simp only [ne_eq, Decidable.not_not] at kl
      split
      · exact (FK.refl h).fx _
      · exact ((fk_setName h l name (by rw [kl]; simp)).trans (sh_mark _ _).fk).fx _
  | newGlyph l name =>
    simp only [step, announced]
    split
    · exact (FK.refl h).fx _
    · split
      · exact (FK.refl h).fx _
      · rename_i _ hlive
        obtain ⟨kl, s, hs⟩ := liveLayer_spec (by simpa using hlive)
        exact ((fx_addGlyph w kl hs name).trans (((sh_setDirty _ _).trans (sh_mark _ _)).fk.fx [])).mono
          (fun p hp => by simpa using hp)
  | getGlyph l name spec =>
    simp only [step, announced]
    split
    · exact (FK.refl h).fx _
    · split
      · exact (FK.refl h).fx _
      · rename_i _ hlive
        obtain ⟨kl, s, hs⟩ := liveLayer_spec (by simpa using hlive)
        split
        · exact (FK.refl h).fx _
        · split
          · obtain ⟨w1, _, kg, _⟩ := wired_addGlyph w kl hs name
            exact ((fx_addGlyph w kl hs name).trans ((fk_spawnChildren w1 kg spec).fx [])).mono
              (fun p hp => by simpa using hp)
          · exact (FK.refl h).fx _
  | delGlyph l name =>
    simp only [step, announced]
    split
    · exact (FK.refl h).fx _
    · split
      · exact (FK.refl h).fx _
      · split
        · rename_i g e
          have f1 := fx_killGlyph h l g
          rw [findNamed_name e] at f1
          exact (f1.trans ((sh_mark _ _).fk.fx [])).mono (fun p hp => by simpa using hp)
        · split
          · exact ((sh_dropUnloaded h l name).trans (sh_mark _ _)).fk.fx _
          · exact (FK.refl h).fx _
  | renameGlyph g name => exact absurd rfl (hren g name)
  | insertGlyph l src name =>
    simp only [step, announced]
    split
    · exact (FK.refl h).fx _
    · rename_i hk
      simp only [not_or, ne_eq, Decidable.not_not] at hk
      split
      · exact (FK.refl h).fx _
      · rename_i hlive
        obtain ⟨kl, s, hs⟩ := liveLayer_spec (by simpa using hlive)
        obtain ⟨w1, k1, kg, _⟩ := wired_addGlyph w kl hs (name.getD (h.nameOf src))
        have f1 := fx_addGlyph w kl hs (name.getD (h.nameOf src))
        generalize addGlyph h l (name.getD (h.nameOf src)) = h1 at w1 k1 kg f1
        have w2 := wired_mark (wired_setDirty w1 h.next) l
        have kg2 : (mark (h1.setDirty h.next) l).kindOf h.next = some .glyph := by
          rw [kindOf_mark, kindOf_setDirty]; exact kg
        have ks2 : (mark (h1.setDirty h.next) l).kindOf src = some .glyph := by
          rw [kindOf_mark, kindOf_setDirty]; exact k1 _ _ hk.2
        have f2 : FK h1 (mark (h1.setDirty h.next) l) := ((sh_setDirty _ _).trans (sh_mark _ _)).fk
        generalize mark (h1.setDirty h.next) l = h2 at w2 kg2 ks2 f2
        obtain ⟨w3, k3⟩ := wired_spawnChildren w2 kg2
          ([Kind.contour, .component, .anchor, .guideline].map (fun k => (h.kidsOfKind src k).length) ++ [1, 1])
        have f3 := fk_spawnChildren w2 kg2
          ([Kind.contour, .component, .anchor, .guideline].map (fun k => (h.kidsOfKind src k).length) ++ [1, 1])
        have ks3 := k3 _ _ ks2
        generalize spawnChildren h2 h.next _ = h3 at w3 ks3 f3
        have w4 : Wired (ensure h3 src .image) :=
          wired_ensure w3 (fun _ => by simp [Kind.isLeaf]) (fun e => by rw [ks3] at e; cases e)
            (fun e => by rw [ks3] at e; cases e)
        have f4 := fk_ensure w3.toStruct src (k := .image) (by simp)
        have f5 := fk_ensure w4.toStruct src (k := .lib) (by simp)
        exact (f1.trans (((((f2.trans f3).trans f4).trans f5).trans (sh_mark _ _).fk).fx [])).mono
          (fun p hp => by simpa using hp)
  | new k =>
    simp only [step]
    split
    · exact (fk_alloc w.toStruct _).fx _
    · exact (FK.refl h).fx _
  | newGlyphObj => exact (fk_alloc w.toStruct _).fx _
  | insert p x => exact (fk_insertStep h p x).fx _
  | remove p x =>
    simp only [step]
    cases ep : h.kindOf p with
    | none => exact (FK.refl h).fx _
    | some kp =>
      cases ex : h.kindOf x with
      | none => cases kp <;> exact (FK.refl h).fx _
      | some kx =>
        cases kp with
        | glyph =>
          simp only
          split
          · exact (FK.refl h).fx _
          · split
            · exact (fk_removeChild h p x (by rw [ep]; simp)).fx _
            · exact (FK.refl h).fx _
        | font =>
          simp only
          split
          · exact (FK.refl h).fx _
          · split
            · exact (fk_removeFontGuideline h p x (by rw [ep]; simp)).fx _
            · exact (FK.refl h).fx _
        | layerSet => exact (FK.refl h).fx _
        | layer => exact (FK.refl h).fx _
        | contour => exact (FK.refl h).fx _
        | component => exact (FK.refl h).fx _
        | anchor => exact (FK.refl h).fx _
        | guideline => exact (FK.refl h).fx _
        | image => exact (FK.refl h).fx _
        | lib => exact (FK.refl h).fx _
  | clear p role =>
    simp only [step]
    cases ep : h.kindOf p with
    | none => exact (FK.refl h).fx _
    | some kp =>
      cases kp with
      | glyph =>
        simp only
        split
        · exact (fk_clearRole h p role ep (by simp)).fx _
        · exact (FK.refl h).fx _
      | font =>
        simp only
        split
        · exact (fk_clearRole h p role ep (by simp)).fx _
        · exact (FK.refl h).fx _
      | layerSet => exact (FK.refl h).fx _
      | layer => exact (FK.refl h).fx _
      | contour => exact (FK.refl h).fx _
      | component => exact (FK.refl h).fx _
      | anchor => exact (FK.refl h).fx _
      | guideline => exact (FK.refl h).fx _
      | image => exact (FK.refl h).fx _
      | lib => exact (FK.refl h).fx _
  | clearAll g =>
    simp only [step, apply_ite Prod.fst]
    split
    · exact (FK.refl h).fx _
    · rename_i kg
      simp only [ne_eq, Decidable.not_not] at kg
      exact (fk_clearAllCore h g kg).fx _
  | setList p role xs =>
    simp only [step]
    split
    · exact (FK.refl h).fx _
    · rename_i hok
      simp only [not_or, Decidable.not_not] at hok
      have hk : ∃ k, h.kindOf p = some k ∧ k ≠ .layer := by
        have := hok.1
        cases ep : h.kindOf p with
        | none => simp [ep, setListOK] at this
        | some kp => cases kp <;> simp [ep, setListOK] at this ⊢
      obtain ⟨k, kp, hkl⟩ := hk
      exact ((fk_clearRole h p role kp hkl).trans (fk_insertAll p xs _)).fx _
  | touch p what =>
    simp only [step]
    split
    · exact (FK.refl h).fx _
    · rename_i hok
      simp only [Bool.not_eq_true, Bool.not_eq_false] at hok
      have hw : what ≠ .glyph := by
        intro e; subst e
        cases ep : h.kindOf p with
        | none => simp [ep, touchOK] at hok
        | some kp => cases kp <;> simp [ep, touchOK] at hok
      have f1 := fk_ensure w.toStruct p hw
      split <;> exact f1.fx _
  | mutate x =>
    simp only [step]
    split
    · exact (FK.refl h).fx _
    · split
      · exact (sh_post _ _ _).fk.fx _
      · exact ((sh_setDirty _ _).trans (sh_post _ _ _)).fk.fx _
  | clean => exact (fk_clean h).fx _
  | dump => exact (sh_cacheAll h).fk.fx _

/-- `glyph.name = name`: a layer that is alive files the same object under every name but the old and the new
one of the layer the glyph is in -/
theorem filing_rename {h : Heap} (w : Wired h) (g : Id) (name : String) {l' : Id} {n : String}
    (kl' : h.kindOf l' = some .layer) (al : h.alive l')
    (hn : (l', n) ∉ announced h (.base (.renameGlyph g name))) :
    (step h (.renameGlyph g name)).1.findNamed l' .glyph n = h.findNamed l' .glyph n := by
  simp only [step]
  split
  · rfl
  · rename_i kg
    simp only [ne_eq, Decidable.not_not] at kg
    split
    · rfl
    · -- the renamed glyph
      have g0 : ∀ i, (h.setName g name).get i = h.get i := fun i => rfl
      have k0 : ∀ i, (h.setName g name).kindOf i = h.kindOf i := fun i => rfl
      have A : (h.setName g name).findNamed l' .glyph n = h.findNamed l' .glyph n := by
        unfold Heap.findNamed
        have kids0 : (h.setName g name).kidsOf l' = h.kidsOf l' := rfl
        rw [kids0]
        apply find?_congr'
        intro x hx
        by_cases ex : x = g
        · subst ex
          have ho := w.down l' x al (by simp) hx
          obtain ⟨nx, enx, knx⟩ := kindOf_some kg
          have pl : nx.pLayer = some l' := by
            have := ho; rw [ownerOf_eq enx] at this; simpa [owner, knx] using this
          have sl : h.storedLayer x = some l' := by simp [Heap.storedLayer, enx, pl]
          simp only [announced, sl, List.mem_cons, Prod.mk.injEq, true_and, List.mem_nil_iff, or_false, not_or] at hn
          have n1 : (h.setName x name).nameOf x = name := by simp [Heap.nameOf, Heap.setName]
          rw [n1, k0]
          have a : ¬ name = n := fun e => hn.2 e.symm
          have b : ¬ h.nameOf x = n := fun e => hn.1 e.symm
          simp [a, b]
        · have n1 : (h.setName g name).nameOf x = h.nameOf x := by
            simp [Heap.nameOf, Heap.setName, AL.get?_set_ne _ _ _ _ (Ne.symm ex)]
          rw [n1, k0]
      rw [← A]
      have kl0 : (h.setName g name).kindOf l' = some .layer := kl'
      split
      · rename_i c l hc hl
        have sl : h.storedLayer g = some l := hl
        have hne : (l', n) ∉ [(l, name)] := by
          simp only [announced, sl, List.mem_cons, Prod.mk.injEq, List.mem_nil_iff, or_false, not_or] at hn
          simpa using hn.2
        have f1 : FX [(l, name)] (h.setName g name)
            (match ((h.setName g name).kidsOf l).find? fun x =>
                (h.setName g name).kindOf x = some .glyph ∧ (h.setName g name).nameOf x = name ∧ x ≠ g with
              | some r => killGlyph (h.setName g name) l r
              | none => h.setName g name) := by
          split
          · rename_i r e
            have h1 := List.find?_some e
            simp only [decide_eq_true_eq] at h1
            have := fx_killGlyph (h.setName g name) l r
            rw [h1.2.1] at this
            exact this
          · exact (FK.refl _).fx _
        have f2 := (f1.trans (((sh_dropUnloaded _ l name).trans (sh_mark _ g)).fk.fx [])).mono
          (e' := [(l, name)]) (fun p hp => by simpa using hp)
        exact f2.fl l' n kl0 hne
      · exact (sh_setDirty _ g).fk.filing kl0 n

/-- the layer announcements are complete: what an operation does not announce, no layer that is alive files
differently afterwards -/
theorem filing_step {h : Heap} (w : Wired h) (op : Parents.Op) {l : Id} {n : String} (kl : h.kindOf l = some .layer)
    (al : h.alive l) (hn : (l, n) ∉ announced h (.base op)) :
    (step h op).1.findNamed l .glyph n = h.findNamed l .glyph n := by
  by_cases hr : ∃ g name, op = .renameGlyph g name
  · obtain ⟨g, name, e⟩ := hr
    subst e
    exact filing_rename w g name kl al hn
  · exact (fx_step w op (fun g name e => hr ⟨g, name, e⟩)).fl l n kl hn

/-- … and the same for every operation of M-Cross -/
theorem filing_xstep {s : State} (w : Wired s.heap) (op : Op) {l : Id} {n : String} (kl : s.heap.kindOf l = some .layer)
    (al : s.heap.alive l) (hn : (l, n) ∉ announced s.heap op) :
    (xstep s op).1.heap.findNamed l .glyph n = s.heap.findNamed l .glyph n := by
  cases op with
  | base op =>
    by_cases hm : ∃ x, op = .mutate x
    · obtain ⟨x, e⟩ := hm
      subst e
      obtain ⟨d, e, _⟩ := xmutate_heap w x
      show (xmutate s x).1.heap.findNamed l .glyph n = _
      rw [e]
      exact (sh_wd s.heap d).fk.filing kl n
    · rw [xstep_base_heap s op (fun x e => hm ⟨x, e⟩)]
      exact filing_step w op kl al hn
  | newComp b =>
    simp only [xstep]
    exact (fx_step w (.new .component) (fun _ _ e => by cases e)).fl l n kl (by simp [announced])
  | setBase c b =>
    simp only [xstep]
    split
    · rfl
    · split
      · rfl
      · have key : ∀ base', (xmutate ⟨s.heap, base'⟩ c).1.heap.findNamed l .glyph n = s.heap.findNamed l .glyph n :=
          fun base' => by
            obtain ⟨d, e, _⟩ := xmutate_heap (s := ⟨s.heap, base'⟩) w c
            rw [e]
            exact (sh_wd s.heap d).fk.filing kl n
        exact key _
  | load l' name spec bases =>
    have := filing_step w (.getGlyph l' name spec) kl al (by simpa [announced] using hn)
    simp only [xstep]
    split
    · split <;> exact this
    · exact this
  | decompose g c =>
    simp only [xstep]
    split
    · rfl
    · rename_i hk
      simp only [not_or, ne_eq, Decidable.not_not] at hk
      split
      · rfl
      · split
        · rfl
        · rename_i lg _
          obtain ⟨w1, k1⟩ := wired_spawnMany (ds := []) (g := g) (k := .contour) (by simp [Kind.isLeaf])
            (decomposeCount s lg c) w hk.1
          have f1 := fk_spawnMany (ds := []) (g := g) (k := .contour) (by simp [Kind.isLeaf])
            (decomposeCount s lg c) w hk.1
          have f2 := fk_removeChild (spawnMany s.heap g .contour (decomposeCount s lg c)) g c
            (by rw [k1 g _ hk.1]; simp)
          exact (f1.trans f2).filing kl n

end Cross
end DefconModel
