/-
Helper lemmas for C15: the symbolic run of the class wiring simulates every concrete run
(parametricity), and a certificate `check w objs = true` covers every reachable object.
-/
import DefconModel.Spec.Classes

namespace DefconModel
namespace Classes

/-- the map applied to slot tables / argument lists by `interpObj` -/
abbrev F (cfg : Cfg) : Ident × AVal → Ident × Option Val := fun p => (p.1, interp cfg p.2)

theorem interp_aorDefault (cfg : Cfg) (v : AVal) (c : CName) :
    interp cfg (aorDefault v c) = orDefault (interp cfg v) c := by
  cases v with
  | param r =>
    simp only [aorDefault, interp, registered, orDefault]
    cases cfg r <;> rfl
  | paramOr r c' => rfl
  | const c' => rfl
  | none => rfl

theorem look_map (cfg : Cfg) (l : List (Ident × AVal)) (k : Ident) :
    look (l.map (F cfg)) k = interp cfg (alook l k) := by
  unfold look alook
  rw [AL.get?_map_val (interp cfg) l k]
  cases AL.get? l k <;> rfl

theorem map_set {α β : Type} (f : α → β) (l : List (String × α)) (k : String) (v : α) :
    (AL.set l k v).map (fun p => (p.1, f p.2)) = AL.set (l.map (fun p => (p.1, f p.2))) k (f v) := by
  induction l with
  | nil => rfl
  | cons p r ih =>
    obtain ⟨k', v'⟩ := p
    by_cases h : k' = k
    · simp [AL.set, h]
    · simp [AL.set, h, ih]

theorem execInit_map (cfg : Cfg) (stmts : List InitStmt) :
    ∀ (locals : List (Ident × AVal)) (slots : ASlots),
      execInit stmts (locals.map (F cfg)) (slots.map (F cfg)) = (aexecInit stmts locals slots).map (F cfg) := by
  induction stmts with
  | nil => intro locals slots; rfl
  | cons st r ih =>
    intro locals slots
    cases st with
    | dflt p c =>
      simp only [execInit, aexecInit]
      rw [look_map, ← interp_aorDefault, ← map_set (interp cfg)]
      exact ih _ _
    | force p c =>
      simp only [execInit, aexecInit]
      have : (some (Val.builtin c) : Option Val) = interp cfg (.const c) := rfl
      rw [this, ← map_set (interp cfg)]
      exact ih _ _
    | store a p =>
      simp only [execInit, aexecInit]
      rw [look_map, ← map_set (interp cfg)]
      exact ih _ _

theorem runInit_map (cfg : Cfg) (cd : ClassDef) (args : List (Ident × AVal)) :
    runInit cd (args.map (F cfg)) = (arunInit cd args).map (F cfg) := by
  unfold runInit arunInit
  have h : (cd.params.map fun p => (p, look (args.map (F cfg)) p))
      = (cd.params.map fun p => (p, alook args p)).map (F cfg) := by
    rw [List.map_map]
    apply List.map_congr_left
    intro p _
    simp [look_map]
  rw [h]
  exact execInit_map cfg cd.init _ []

theorem interp_of_abase {cfg : Cfg} {v : AVal} {b : CName} (h : abase v = some b) :
    ∃ k, interp cfg v = some k ∧ k.base = b := by
  cases v with
  | param r => simp [abase] at h
  | paramOr r c =>
    simp only [abase] at h
    split at h
    · rename_i hc
      cases h
      simp only [interp]
      cases cfg r with
      | none => exact ⟨_, rfl, rfl⟩
      | some i => exact ⟨_, rfl, hc.symm ▸ rfl⟩
    · cases h
  | const c => simp only [abase] at h; cases h; exact ⟨_, rfl, rfl⟩
  | none => simp [abase] at h

/-- the symbolic object's own class is a class for every configuration -/
def SelfOk (o : AObj) : Prop := (abase o.self).isSome = true

theorem self_interp {cfg : Cfg} {o : AObj} (h : SelfOk o) :
    some (interpObj cfg o).self = interp cfg o.self := by
  unfold SelfOk at h
  cases hb : abase o.self with
  | none => simp [hb] at h
  | some b =>
    obtain ⟨k, hk, _⟩ := interp_of_abase (cfg := cfg) hb
    simp [interpObj, hk]

theorem evalCls_interp (cfg : Cfg) (cd : ClassDef) (o : AObj) (h : SelfOk o) (e : ClsExpr) :
    evalCls cd (interpObj cfg o) e = interp cfg (aevalCls cd o e) := by
  cases e with
  | slot a => exact look_map cfg o.slots a
  | prop p =>
    simp only [evalCls, aevalCls]
    cases AL.get? cd.props p with
    | none => rfl
    | some a => exact look_map cfg o.slots a
  | sameClass => exact self_interp h
  | hard c => rfl

theorem evalSrc_interp (cfg : Cfg) (cd : ClassDef) (o : AObj) (s : Src) :
    evalSrc cd (interpObj cfg o) s = interp cfg (aevalSrc cd o s) := by
  unfold evalSrc aevalSrc
  cases slotOf cd s with
  | none => rfl
  | some a => exact look_map cfg o.slots a

theorem classAt_interp (cfg : Cfg) (w : Wiring) (o : AObj) (h : SelfOk o) (s : Site) :
    classAt w (interpObj cfg o) s = interp cfg (aclassAt w o s) := by
  unfold classAt aclassAt
  have hcd : (interpObj cfg o).cd = o.cd := rfl
  rw [hcd]
  by_cases ho : s.owner = o.cd
  · simp only [ho, if_true]
    cases w.classDef o.cd with
    | none => rfl
    | some cd => exact evalCls_interp cfg cd o h s.cls
  · simp only [ho, if_false]; rfl

theorem interp_none_of_det {cfg : Cfg} {v : AVal} (hd : determinate v = true) (hb : abase v = none) :
    interp cfg v = none := by
  cases v with
  | param r => simp [determinate] at hd
  | paramOr r c =>
    simp only [determinate, decide_eq_true_eq] at hd
    simp [abase, hd] at hb
  | const c => simp [abase] at hb
  | none => rfl

theorem interpObj_mk (cfg : Cfg) (n : CName) (v : AVal) (sl : ASlots) :
    interpObj cfg ⟨n, v, sl⟩ = ⟨n, (interp cfg v).getD (.builtin n), sl.map (F cfg)⟩ := rfl

/-- PARAMETRICITY, one creation step: when the symbolic class at the site is determinate, the concrete
step from the interpreted object is the interpretation of the symbolic step — for every configuration. -/
theorem step_interp (cfg : Cfg) (w : Wiring) (o : AObj) (h : SelfOk o) (s : Site)
    (hd : ∀ cd, w.classDef o.cd = some cd → determinate (aevalCls cd o s.cls) = true) :
    step w (interpObj cfg o) s = (astep w o s).map (interpObj cfg) := by
  unfold step astep
  have hcd : (interpObj cfg o).cd = o.cd := rfl
  rw [hcd]
  by_cases ho : s.owner = o.cd
  · simp only [ho, if_true]
    cases hc : w.classDef o.cd with
    | none => rfl
    | some cd =>
      simp only
      rw [evalCls_interp cfg cd o h]
      have hdet := hd cd hc
      have hargs : (s.kwargs.map fun kv => (kv.1, evalSrc cd (interpObj cfg o) kv.2))
          = (s.kwargs.map fun kv => (kv.1, aevalSrc cd o kv.2)).map (F cfg) := by
        rw [List.map_map]
        apply List.map_congr_left
        intro kv _
        simp [evalSrc_interp]
      rw [hargs]
      generalize aevalCls cd o s.cls = v at hdet ⊢
      cases hb : abase v with
      | none => rw [interp_none_of_det hdet hb]; rfl
      | some b =>
        obtain ⟨k, hk, hkb⟩ := interp_of_abase (cfg := cfg) hb
        rw [hk]
        simp only [hkb]
        cases w.classDef b with
        | none => rfl
        | some cd' =>
          simp only [Option.map_some]
          rw [interpObj_mk, hk, runInit_map]
          rfl
  · simp only [ho, if_false]; rfl

theorem root_interp (cfg : Cfg) (w : Wiring) : root w cfg = (aroot w).map (interpObj cfg) := by
  unfold root aroot
  cases w.classDef "Font" with
  | none => rfl
  | some cd =>
    simp only [Option.map_some]
    rw [interpObj_mk]
    have : (fontKw.map fun kr => (kr.1, registered cfg kr.2))
        = (fontKw.map fun kr => (kr.1, AVal.param kr.2)).map (F cfg) := by
      rw [List.map_map]; rfl
    rw [this, runInit_map]
    rfl

theorem reachFrom_none (w : Wiring) (chain : List Site) : reachFrom w none chain = none := by
  cases chain <;> rfl

/-! ## What a certificate gives -/

theorem check_root {w : Wiring} {objs : List AObj} (h : check w objs = true) :
    ∃ o, aroot w = some o ∧ o ∈ objs := by
  unfold check at h
  simp only [Bool.and_eq_true] at h
  obtain ⟨⟨⟨⟨h1, _⟩, _⟩, _⟩, _⟩ := h
  cases hr : aroot w with
  | none => simp [hr] at h1
  | some o => rw [hr] at h1; exact ⟨o, rfl, List.contains_iff_mem.mp h1⟩

theorem check_self {w : Wiring} {objs : List AObj} (h : check w objs = true) :
    ∀ o ∈ objs, SelfOk o := by
  unfold check at h
  simp only [Bool.and_eq_true] at h
  obtain ⟨⟨⟨⟨_, h2⟩, _⟩, _⟩, _⟩ := h
  intro o ho
  exact List.all_eq_true.mp h2 o ho

theorem check_site {w : Wiring} {objs : List AObj} (h : check w objs = true) :
    ∀ o ∈ objs, ∀ s ∈ w.sites, siteOk w objs o s = true := by
  unfold check at h
  simp only [Bool.and_eq_true] at h
  obtain ⟨⟨⟨⟨_, _⟩, h3⟩, _⟩, _⟩ := h
  intro o ho s hs
  exact List.all_eq_true.mp (List.all_eq_true.mp h3 o ho) s hs

theorem check_catalogued {w : Wiring} {objs : List AObj} (h : check w objs = true) :
    ∀ s ∈ w.sites, (dispOf s.id).isSome = true := by
  unfold check at h
  simp only [Bool.and_eq_true] at h
  obtain ⟨⟨_, h4⟩, _⟩ := h
  intro s hs
  exact List.all_eq_true.mp h4 s hs

/-- the facts packed in `siteOk` for a site of the object's own class -/
theorem siteOk_own {w : Wiring} {objs : List AObj} {o : AObj} {s : Site}
    (h : siteOk w objs o s = true) (ho : s.owner = o.cd) :
    ∃ cd, w.classDef o.cd = some cd ∧ determinate (aevalCls cd o s.cls) = true ∧
      (∀ r, (dispOf s.id = some (.handedOut r) ∨ dispOf s.id = some (.guard r)) →
        aevalCls cd o s.cls = .paramOr r (dfltName r)) ∧
      (∀ o', astep w o s = some o' → o' ∈ objs) := by
  unfold siteOk at h
  simp only [ho, if_true] at h
  cases hc : w.classDef o.cd with
  | none => simp [hc] at h
  | some cd =>
    simp only [hc, Bool.and_eq_true] at h
    obtain ⟨⟨⟨hdet, _⟩, hdisp⟩, hstep⟩ := h
    refine ⟨cd, rfl, hdet, ?_, ?_⟩
    · intro r hr
      rcases hr with hr | hr
      · rw [hr] at hdisp
        simp only [Bool.and_eq_true, beq_iff_eq] at hdisp
        exact hdisp.1
      · rw [hr] at hdisp
        simp only [Bool.and_eq_true, beq_iff_eq] at hdisp
        exact hdisp.1
    · intro o' ho'
      rw [ho'] at hstep
      simp only [Bool.and_eq_true] at hstep
      exact List.contains_iff_mem.mp hstep.1.1.1.1

theorem areachFrom_none (w : Wiring) (chain : List Site) : areachFrom w none chain = none := by
  cases chain <;> rfl

/-- PARAMETRICITY, whole chains: with a certificate, following any chain of creation sites from the
interpretation of a member of `objs` is the interpretation of following it symbolically. -/
theorem reachFrom_interp {w : Wiring} {objs : List AObj} (hc : check w objs = true) (cfg : Cfg) :
    ∀ (chain : List Site) (ao : AObj), ao ∈ objs → (∀ s ∈ chain, s ∈ w.sites) →
      reachFrom w (some (interpObj cfg ao)) chain = (areachFrom w (some ao) chain).map (interpObj cfg) := by
  intro chain
  induction chain with
  | nil => intro ao _ _; rfl
  | cons s r ih =>
    intro ao hao hin
    simp only [reachFrom, areachFrom]
    have hs : s ∈ w.sites := hin s (List.mem_cons_self ..)
    have hok := check_site hc ao hao s hs
    by_cases ho : s.owner = ao.cd
    · obtain ⟨cd, hcd, hdet, _, hstep⟩ := siteOk_own hok ho
      have hsim := step_interp cfg w ao (check_self hc ao hao) s (by
        intro cd' hcd'
        rw [hcd] at hcd'
        cases hcd'
        exact hdet)
      rw [hsim]
      cases hst : astep w ao s with
      | none => simp [reachFrom_none, areachFrom_none]
      | some ao' =>
        simp only [Option.map_some]
        exact ih ao' (hstep ao' hst) (fun x hx => hin x (List.mem_cons_of_mem _ hx))
    · have h1 : step w (interpObj cfg ao) s = none := by
        unfold step
        have hcd : (interpObj cfg ao).cd = ao.cd := rfl
        rw [hcd]
        simp [ho]
      have h2 : astep w ao s = none := by
        unfold astep
        simp [ho]
      rw [h1, h2, reachFrom_none, areachFrom_none]
      rfl

/-- the symbolic objects met along a chain stay inside a certified set -/
theorem areachFrom_mem {w : Wiring} {objs : List AObj} (hc : check w objs = true) :
    ∀ (chain : List Site) (ao ao' : AObj), ao ∈ objs → (∀ s ∈ chain, s ∈ w.sites) →
      areachFrom w (some ao) chain = some ao' → ao' ∈ objs := by
  intro chain
  induction chain with
  | nil =>
    intro ao ao' hao _ h
    simp only [areachFrom, Option.some.injEq] at h
    exact h ▸ hao
  | cons s r ih =>
    intro ao ao' hao hin h
    simp only [areachFrom] at h
    have hs : s ∈ w.sites := hin s (List.mem_cons_self ..)
    cases hst : astep w ao s with
    | none => rw [hst, areachFrom_none] at h; cases h
    | some a1 =>
      rw [hst] at h
      have ho : s.owner = ao.cd := by
        by_cases ho : s.owner = ao.cd
        · exact ho
        · unfold astep at hst; simp [ho] at hst
      obtain ⟨_, _, _, _, hstep⟩ := siteOk_own (check_site hc ao hao s hs) ho
      exact ih a1 ao' (hstep a1 hst) (fun x hx => hin x (List.mem_cons_of_mem _ hx)) h

theorem reach_interp {w : Wiring} {objs : List AObj} (hc : check w objs = true) (cfg : Cfg)
    (chain : List Site) (hin : ∀ s ∈ chain, s ∈ w.sites) :
    reach w cfg chain = (areachFrom w (aroot w) chain).map (interpObj cfg) := by
  obtain ⟨ar, har, hmem⟩ := check_root hc
  unfold reach
  rw [root_interp, har]
  exact reachFrom_interp hc cfg chain ar hmem hin

/-- COVERAGE: with a certificate, whatever chain of creation sites is followed from the font, the
object reached is the interpretation of a member of `objs`. -/
theorem reach_covered {w : Wiring} {objs : List AObj} (hc : check w objs = true) (cfg : Cfg)
    (chain : List Site) (o : Obj) (hin : ∀ s ∈ chain, s ∈ w.sites) (hr : reach w cfg chain = some o) :
    ∃ ao ∈ objs, o = interpObj cfg ao := by
  rw [reach_interp hc cfg chain hin] at hr
  obtain ⟨ar, har, hmem⟩ := check_root hc
  rw [har] at hr
  cases h : areachFrom w (some ar) chain with
  | none => rw [h] at hr; cases hr
  | some ao =>
    rw [h] at hr
    simp only [Option.map_some, Option.some.injEq] at hr
    exact ⟨ao, areachFrom_mem hc chain ar ao hmem hin h, hr.symm⟩

theorem interp_paramOr_dflt (cfg : Cfg) (r : Role) :
    interp cfg (.paramOr r (dfltName r)) = some (expected cfg r) := by
  cases h : cfg r <;> simp [interp, expected, h]

/-- FLOW: with a certificate, in every object reachable by any chain, every site catalogued as creating
(or guarding) role `r` uses exactly the class expected for `r` under the configuration. -/
theorem flow_of_check {w : Wiring} {objs : List AObj} (hc : check w objs = true) (cfg : Cfg)
    (chain : List Site) (o : Obj) (s : Site) (r : Role)
    (hin : ∀ x ∈ chain, x ∈ w.sites) (hr : reach w cfg chain = some o)
    (hs : s ∈ w.sites) (hown : s.owner = o.cd)
    (hd : dispOf s.id = some (.handedOut r) ∨ dispOf s.id = some (.guard r)) :
    classAt w o s = some (expected cfg r) := by
  obtain ⟨ao, hao, rfl⟩ := reach_covered hc cfg chain o hin hr
  have hown' : s.owner = ao.cd := hown
  obtain ⟨cd, hcd, _, hval, _⟩ := siteOk_own (check_site hc ao hao s hs) hown'
  rw [classAt_interp cfg w ao (check_self hc ao hao) s]
  unfold aclassAt
  simp only [hown', if_true, hcd]
  rw [hval r hd]
  exact interp_paramOr_dflt cfg r

/-- with certificates, a listed class property of any reachable object returns the expected class -/
theorem props_of_check {w : Wiring} {objs : List AObj} (hc : check w objs = true) (hp : propsOk w objs = true)
    (cfg : Cfg) (chain : List Site) (o : Obj) (c : CName) (p : Ident) (r : Role)
    (hin : ∀ x ∈ chain, x ∈ w.sites) (hr : reach w cfg chain = some o)
    (hm : (c, p, r) ∈ propRoles) (hcd : o.cd = c) :
    propValue w o p = some (expected cfg r) := by
  obtain ⟨ao, hao, rfl⟩ := reach_covered hc cfg chain o hin hr
  unfold propsOk at hp
  simp only [Bool.and_eq_true] at hp
  have h1 := List.all_eq_true.mp (List.all_eq_true.mp hp.2 ao hao) (c, p, r) hm
  have hcd' : ao.cd = c := hcd
  simp only [hcd', if_true] at h1
  unfold propValue
  have e : (interpObj cfg ao).cd = c := hcd
  rw [e]
  cases hw : w.classDef c with
  | none => simp [hw] at h1
  | some cd =>
    simp only [hw, beq_iff_eq] at h1
    show evalCls cd (interpObj cfg ao) (.prop p) = some (expected cfg r)
    rw [evalCls_interp cfg cd ao (check_self hc ao hao), h1]
    exact interp_paramOr_dflt cfg r

/-! ## Looking sites up by id -/

theorem site_some {w : Wiring} {id : String} {s : Site} (h : w.site id = some s) : s ∈ w.sites ∧ s.id = id := by
  unfold Wiring.site at h
  refine ⟨List.mem_of_find?_eq_some h, ?_⟩
  have := List.find?_some h
  simpa using this

theorem mapM_site_mem {w : Wiring} : ∀ {ids : List String} {chain : List Site},
    ids.mapM w.site = some chain → ∀ s ∈ chain, s ∈ w.sites := by
  intro ids
  induction ids with
  | nil =>
    intro chain h s hs
    simp at h
    subst h
    cases hs
  | cons i r ih =>
    intro chain h s hs
    rw [List.mapM_cons] at h
    cases h1 : w.site i with
    | none => simp [h1] at h
    | some s1 =>
      cases h2 : r.mapM w.site with
      | none => simp [h1, h2] at h
      | some c2 =>
        simp [h1, h2] at h
        subst h
        rcases List.mem_cons.mp hs with e | e
        · exact e ▸ (site_some h1).1
        · exact ih h2 s e

theorem mem_roleAll (r : Role) : r ∈ Role.all := by
  cases r <;> simp [Role.all]

end Classes
end DefconModel
